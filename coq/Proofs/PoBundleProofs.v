(* From the BYTES of a catalogue to pomsg's bundle: on the file File.WriteTo writes for the extractor's
   entries -- with any msgstr filled in -- po.Parse followed by the loop of pomsg.newBundle (Model/PoBundle.v)
   is [new_bundle] of Model/MsgParts.v on the (id, plural variable, msgstr) triples of the entries: the
   abstract catalogue over which C11's rendering theorems are stated. *)
From Coq Require Import Lia ZifyN ZifyNat ZifyBool List Bool.
From Soy Require Import Model.Bytes Model.Outcome Model.Utf8 Model.Num Model.Values Model.Ast Model.MsgId Model.MsgParts
  Model.PoFile Model.PoEntry Model.PoBundle Proofs.PoFileProofs Proofs.PoEntryProofs Proofs.CodecJsonNum.
Import ListNotations.
Open Scope N_scope.

Lemma hval_ge s : forall acc, acc <= hval s acc.
Proof. induction s as [|c s IH]; intro acc; cbn [hval]; [lia|]. specialize (IH (acc * 10 + (c - 48))). lia. Qed.

Lemma uint_go_hval s : forall acc, Forall (fun c => 48 <= c <= 57) s -> hval s acc < 18446744073709551616 ->
  pb_uint_go s acc = Some (hval s acc).
Proof.
  induction s as [|c s IH]; intros acc Hd Hlt; [reflexivity|].
  inversion Hd as [|? ? Hc Hs]; subst. cbn [pb_uint_go hval] in *.
  replace (in_range 48 57 c) with true by (unfold in_range; lia).
  pose proof (hval_ge s (acc * 10 + (c - 48))) as Hge.
  replace (18446744073709551616 <=? acc * 10 + (c - 48)) with false by lia.
  apply IH; assumption.
Qed.

(* strconv.ParseUint reads back what fmt's %d wrote for a uint64 *)
Theorem parse_uint_dec id : id < 18446744073709551616 -> pb_parse_uint (dec_of_N id) = Some id.
Proof.
  intro H. unfold pb_parse_uint.
  destruct (dec_of_N_last (fun _ => true) id) as (m & c & E & _).
  destruct (dec_of_N id) as [|d ds] eqn:Ed; [destruct m; discriminate|]. rewrite <- Ed.
  rewrite uint_go_hval; [rewrite hval_dec; reflexivity|apply (dec_of_N_range (fun _ => true))|rewrite hval_dec; exact H].
Qed.

Definition var_of (pv : option bstr) : bstr := match pv with Some v => v | None => [] end.

Lemma refs_loop_refs_of id pv : id < 18446744073709551616 ->
  pb_refs_loop (refs_of id pv) 0 [] = Ok (id, var_of pv).
Proof.
  intro H. unfold refs_of. cbn [pb_refs_loop]. rewrite is_prefix_app.
  change (drop 3 (pe_id_eq ++ dec_of_N id)) with (dec_of_N id). rewrite parse_uint_dec by exact H.
  destruct pv as [v|]; [|reflexivity]. cbn [pb_refs_loop].
  change (is_prefix pe_id_eq (pe_var_eq ++ v)) with false. cbv iota. rewrite is_prefix_app. reflexivity.
Qed.

(* what pomsg.newBundle keeps of an entry *)
Definition xentry_po (t : xentry) : po_entry :=
  let '(_, id, pv, f) := t in {| po_id := id; po_var := var_of pv; po_strs := norm_str f |}.
Definition xentry_id64 (t : xentry) : Prop := let '(_, id, _, _) := t in id < 18446744073709551616.

Lemma bundle_loop_entries : forall es bd, Forall xentry_id64 es ->
  pb_bundle_loop (map xentry_read es) bd = new_bundle_loop (map xentry_po es) bd.
Proof.
  induction es as [|t es IH]; intros bd H; [reflexivity|].
  inversion H as [|? ? Ht Hes]; subst. destruct t as [[[desc id] pv] f]. unfold xentry_id64 in Ht.
  cbn [map xentry_read xentry_po pb_bundle_loop new_bundle_loop pm_comment pc_refs pm_fields pf_str po_id po_var po_strs].
  rewrite refs_loop_refs_of by exact Ht. cbn [bind].
  destruct (id =? 0); [reflexivity|]. destruct (negb (is_translated (norm_str f))); apply IH; exact Hes.
Qed.

(* THE CATALOGUE FILE -> THE BUNDLE: the entries of the extractor, whatever their descriptions and whatever
   msgstr they carry, written by File.WriteTo, read by po.Parse and loaded by pomsg.newBundle *)
Theorem load_extracted_file is_print (es : list xentry) : Forall xentry_ok es -> Forall xentry_id64 es ->
  pb_load (pe_write_file is_print (map xentry_msg es)) = new_bundle (map xentry_po es).
Proof.
  intros Hok H64. unfold pb_load. rewrite parse_extracted_file by exact Hok. cbn [bind].
  apply bundle_loop_entries. exact H64.
Qed.
