(* The (sent, received, drained) record of Model/Parser.v read in the channel model of Model/Chan.v.

   A parse that makes [n] receives on a scanner's channel, then runs lexer.drain() iff [d], then returns,
   is the consumer [cons_of_record n d] (internal steps do not touch the channel and are left out).  The
   scanner that sends the items [ts] and closes is [prod_of ts].  Under EVERY schedule, once the consumer
   has returned, the scanner goroutine can run to its exit iff Parser.scan_done holds of the record
   (length ts, n, d); otherwise it never exits. *)
From Coq Require Import List Arith Bool Lia.
Import ListNotations.
From Soy Require Import Model.Bytes Model.Token Model.Parser Model.Chan Proofs.ChanProofs.
Open Scope nat_scope.

Section ChanParser.
Variable A : Type.
Variable zero : A.

Fixpoint prod_of (ts : list A) : prod A :=
  match ts with [] => PClose | t :: r => PSend t (prod_of r) end.
Lemma items_prod_of ts : items (prod_of ts) = ts.
Proof. induction ts as [|t r IH]; cbn; [reflexivity|rewrite IH; reflexivity]. Qed.

Fixpoint recvs (n : nat) (k : cons A unit) : cons A unit :=
  match n with O => k | S m => CRecv (fun _ => recvs m k) end.
Definition tail_of (d : bool) : cons A unit := if d then CDrain (CRet tt) else CRet tt.
Definition cons_of_record (n : nat) (d : bool) : cons A unit := recvs n (tail_of d).

Notation step := (@step A unit zero).
Notation run := (@run A unit zero).

Definition cinv (n : nat) (d : bool) (g : cfg A unit) : Prop :=
  (exists m, m <= n /\ g_recv g = n - m /\ g_cons g = recvs m (tail_of d) /\ g_drained g = false)
  \/ (g_cons g = CRet tt /\ g_recv g = n /\ g_drained g = d).

Lemma cinv_init n d p : cinv n d (cfg_init p (cons_of_record n d)).
Proof. left. exists n. cbn. repeat split; auto; lia. Qed.

Lemma cinv_step n d m g : cinv n d g -> cinv n d (step m g).
Proof.
  intros [(k & Hk & Hr & Hc & Hd)|(Hc & Hr & Hd)].
  - destruct m; cbn [step Chan.step].
    + destruct (g_prod g); left; exists k; cbn; auto.
    + rewrite Hc. destruct k as [|k]; cbn [recvs].
      * unfold tail_of. destruct d.
        -- destruct (g_closed g); [right; cbn; repeat split; auto; lia|left; exists 0; cbn; rewrite Hc; repeat split; auto].
        -- left. exists 0. cbn. rewrite Hc. repeat split; auto.
      * destruct (g_closed g); [left; exists k; cbn; repeat split; auto; lia|left; exists (S k); cbn; rewrite Hc; repeat split; auto].
    + destruct (g_closed g); [left; exists k; auto|].
      destruct (g_prod g) as [a kp|kp|]; try (left; exists k; auto; fail).
      rewrite Hc. destruct k as [|k]; cbn [recvs].
      * unfold tail_of. destruct d; [left; exists 0; cbn; repeat split; auto|left; exists 0; cbn; rewrite Hc; repeat split; auto].
      * left. exists k. cbn. repeat split; auto; lia.
  - right. destruct m; cbn [step Chan.step].
    + destruct (g_prod g); cbn; auto.
    + rewrite Hc. auto.
    + destruct (g_closed g); [auto|]. destruct (g_prod g); auto. rewrite Hc. auto.
Qed.

Lemma cinv_run n d sched : forall g, cinv n d g -> cinv n d (run sched g).
Proof. induction sched as [|m r IH]; intros g H; cbn; [exact H|apply IH, cinv_step, H]. Qed.

(* when the consumer has returned, the counters of the configuration are the record *)
Lemma returned_counters n d ts sched :
  let g := run sched (cfg_init (prod_of ts) (cons_of_record n d)) in
  g_cons g = CRet tt ->
  chan_scan_done (length ts) g = scan_done {| sc_sent := length ts; sc_recv := n; sc_drained := d |}.
Proof.
  cbv zeta. intros Hc. destruct (cinv_run n d sched _ (cinv_init n d (prod_of ts))) as [(k & Hk & Hr & Hc' & Hd)|(_ & Hr & Hd)].
  - rewrite Hc in Hc'. destruct k as [|k]; [|discriminate]. cbn [recvs] in Hc'. unfold tail_of in Hc'. destruct d; [discriminate|].
    unfold chan_scan_done, scan_done. cbn [sc_drained sc_sent sc_recv]. rewrite Hd, Hr. replace (n - 0) with n by lia. reflexivity.
  - unfold chan_scan_done, scan_done. cbn [sc_drained sc_sent sc_recv]. rewrite Hd, Hr. reflexivity.
Qed.

(* Parser.scan_done is exactly "the scanner goroutine exits" *)
Theorem scan_done_reading n d ts sched :
  let g := run sched (cfg_init (prod_of ts) (cons_of_record n d)) in
  g_cons g = CRet tt ->
  (scan_done {| sc_sent := length ts; sc_recv := n; sc_drained := d |} = true -> exists k, exited (run (repeat MP k) g))
  /\ (scan_done {| sc_sent := length ts; sc_recv := n; sc_drained := d |} = false -> forall more, ~ exited (run more g)).
Proof.
  cbv zeta. intros Hc. pose proof (returned_counters n d ts sched Hc) as E. cbv zeta in E.
  rewrite <- E. rewrite <- (items_prod_of ts) at 1 3. split.
  - apply chan_scan_done_exits.
  - apply (chan_not_done_leaks A unit zero (prod_of ts) (cons_of_record n d) sched tt Hc).
Qed.

End ChanParser.
