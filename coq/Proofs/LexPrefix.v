(* Prefix determinism of the scanner (C19): two inputs with a common prefix [pre].  Part 1: the
   primitives.  A primitive applied at a cursor far enough before the end of the common prefix gives
   the same outcome on both inputs. *)
From Soy Require Import Model.Bytes Model.Utf8 Model.Outcome Model.Token Model.Lexer Generated.Tables.
From Coq Require Import ZifyBool ZifyNat ZifyN Lia List.
Import ListNotations.
Open Scope Z_scope.

Lemma drop_app_le (n : nat) : forall (a c : bstr), (n <= length a)%nat -> drop n (a ++ c) = drop n a ++ c.
Proof. induction n as [|n IH]; intros [|x a] c H; cbn [drop app length] in *; try lia; auto. apply IH. lia. Qed.
Lemma take_app_le (k : nat) : forall (a c : bstr), (k <= length a)%nat -> take k (a ++ c) = take k a.
Proof. induction k as [|k IH]; intros [|x a] c H; cbn [take app length] in *; try lia; auto. rewrite IH by lia. reflexivity. Qed.
Lemma drop_len (n : nat) : forall (s : bstr), length (drop n s) = (length s - n)%nat.
Proof. induction n as [|n IH]; intros [|x s]; cbn [drop length]; auto; try lia. rewrite IH. lia. Qed.

Lemma decode_rune_prefix (a c : bstr) : take 4 a = take 4 c -> decode_rune a = decode_rune c.
Proof.
  destruct a as [|a0 [|a1 [|a2 [|a3 a]]]]; destruct c as [|c0 [|c1 [|c2 [|c3 c]]]]; cbn [take]; intros H; inversion H; subst; reflexivity.
Qed.

Lemma is_prefix_app_long (kw : bstr) : forall (a c : bstr), (length kw <= length a)%nat -> is_prefix kw (a ++ c) = is_prefix kw a.
Proof. induction kw as [|k kw IH]; intros [|x a] c H; cbn [is_prefix app length] in *; try lia; auto. rewrite IH by lia. reflexivity. Qed.

Lemma index_of_app_long (sep : bstr) : forall (a c1 c2 : bstr) i0 i,
  index_of sep (a ++ c1) i0 = Some i -> (Z.to_nat (i - i0) + length sep <= length a)%nat -> i0 <= i ->
  index_of sep (a ++ c2) i0 = Some i.
Proof.
  induction a as [|x a IH]; intros c1 c2 i0 i H Hl Hi.
  - cbn [app length] in *. assert (length sep = 0)%nat by lia. destruct sep; [|discriminate].
    destruct c1; cbn in H; inversion H; subst; destruct c2; reflexivity.
  - cbn [app] in *. cbn [index_of] in *.
    change (x :: a ++ c1) with ((x :: a) ++ c1) in H. change (x :: a ++ c2) with ((x :: a) ++ c2).
    destruct (Nat.le_gt_cases (length sep) (length (x :: a))) as [Hs|Hs].
    + rewrite (is_prefix_app_long sep (x :: a) c1 Hs) in H. rewrite (is_prefix_app_long sep (x :: a) c2 Hs).
      destruct (is_prefix sep (x :: a)); [exact H|].
      assert (i0 + 1 <= i).
      { clear - H. revert H. generalize (i0 + 1). generalize (a ++ c1). intros s. induction s as [|y s IHs]; intros j H; cbn [index_of] in H.
        - destruct (is_prefix sep []); inversion H; lia.
        - destruct (is_prefix sep (y :: s)); [inversion H; lia|]. apply IHs in H. lia. }
      apply (IH c1 c2 (i0 + 1) i H); [cbn [length] in Hl; lia|lia].
    + cbn [length] in *. lia.
Qed.

Section Prefix.
Variable pre r1 r2 : bstr.
Variable base : Z.
Notation inp1 := (pre ++ r1).
Notation inp2 := (pre ++ r2).
Notation n1 := (Z.of_nat (length (pre ++ r1))).
Notation n2 := (Z.of_nat (length (pre ++ r2))).
Notation h := (Z.of_nat (length pre)).

Lemma h_le1 : h <= n1. Proof. rewrite app_length. lia. Qed.
Lemma h_le2 : h <= n2. Proof. rewrite app_length. lia. Qed.

Lemma take_drop_agree (p k : nat) : (p + k <= length pre)%nat -> take k (drop p inp1) = take k (drop p inp2).
Proof.
  intros H. rewrite !drop_app_le by lia. rewrite !take_app_le; [reflexivity| |]; rewrite drop_len; lia.
Qed.

Lemma next_agree l : 0 <= l_pos l -> l_pos l + 4 <= h -> next inp1 n1 l = next inp2 n2 l.
Proof.
  intros H0 H. pose proof h_le1. pose proof h_le2. unfold next.
  destruct (n1 <=? l_pos l) eqn:E1; [lia|]. destruct (n2 <=? l_pos l) eqn:E2; [lia|].
  destruct (l_pos l <? 0); [reflexivity|].
  rewrite (decode_rune_prefix (drop (Z.to_nat (l_pos l)) inp1) (drop (Z.to_nat (l_pos l)) inp2)); [reflexivity|].
  apply take_drop_agree. lia.
Qed.

(* An ASCII lead byte needs ONE byte of look-ahead: the decoder looks at the bytes behind the first only when the
   first is >= 128.  (First step of the margin refinement 4/8/12/16/24 -> 1..5; the per-state lemmas of
   LexPrefixStates.v ff. still use [next_agree].) *)
Lemma decode_rune_prefix_ascii (a c : bstr) x : (x <? 128)%N = true -> take 1 a = [x] -> take 1 c = [x] -> decode_rune a = decode_rune c.
Proof.
  intros Hx Ha Hc. destruct a as [|a0 a]; [discriminate|]. destruct c as [|c0 c]; [discriminate|].
  cbn [take] in Ha, Hc. inversion Ha; inversion Hc; subst. unfold decode_rune. rewrite Hx. reflexivity.
Qed.

Lemma next_agree_ascii l c : 0 <= l_pos l -> l_pos l + 1 <= h ->
  byte_at inp1 n1 (l_pos l) = Ok c -> c < 128 -> next inp1 n1 l = next inp2 n2 l.
Proof.
  intros H0 H Hb Hc. pose proof h_le1. pose proof h_le2. unfold next.
  destruct (n1 <=? l_pos l) eqn:E1; [lia|]. destruct (n2 <=? l_pos l) eqn:E2; [lia|].
  destruct (l_pos l <? 0); [reflexivity|].
  pose proof (take_drop_agree (Z.to_nat (l_pos l)) 1 ltac:(lia)) as T.
  unfold byte_at in Hb. destruct ((l_pos l <? 0) || (n1 <=? l_pos l)); [discriminate|].
  destruct (drop (Z.to_nat (l_pos l)) inp1) as [|x t1] eqn:D1; [discriminate|]. inversion Hb; subst c.
  rewrite (decode_rune_prefix_ascii (x :: t1) (drop (Z.to_nat (l_pos l)) inp2) x); [reflexivity| |reflexivity|].
  - apply N.ltb_lt. lia.
  - rewrite <- T. reflexivity.
Qed.

Lemma peek_agree_ascii l c : 0 <= l_pos l -> l_pos l + 1 <= h ->
  byte_at inp1 n1 (l_pos l) = Ok c -> c < 128 -> peek inp1 n1 l = peek inp2 n2 l.
Proof. intros. unfold peek. rewrite (next_agree_ascii l c) by assumption. reflexivity. Qed.

Lemma peek_agree l : 0 <= l_pos l -> l_pos l + 4 <= h -> peek inp1 n1 l = peek inp2 n2 l.
Proof. intros. unfold peek. rewrite next_agree by assumption. reflexivity. Qed.

Lemma slice_agree a e : e <= h -> slice inp1 n1 a e = slice inp2 n2 a e.
Proof.
  intros H. pose proof h_le1. pose proof h_le2. unfold slice.
  destruct (a <? 0) eqn:Ea; [reflexivity|]. destruct (e <? a) eqn:Ee; [reflexivity|]. cbn [orb].
  destruct (n1 <? e) eqn:E1; [lia|]. destruct (n2 <? e) eqn:E2; [lia|]. f_equal.
  apply take_drop_agree. lia.
Qed.

Lemma byte_at_agree i : i < h -> byte_at inp1 n1 i = byte_at inp2 n2 i.
Proof.
  intros H. pose proof h_le1. pose proof h_le2. unfold byte_at.
  destruct (i <? 0) eqn:Ei; [reflexivity|]. cbn [orb].
  destruct (n1 <=? i) eqn:E1; [lia|]. destruct (n2 <=? i) eqn:E2; [lia|].
  pose proof (take_drop_agree (Z.to_nat i) 1 ltac:(lia)) as T.
  destruct (drop (Z.to_nat i) inp1) as [|c1 t1]; destruct (drop (Z.to_nat i) inp2) as [|c2 t2]; cbn [take] in T; inversion T; reflexivity.
Qed.

Lemma emit_agree t l : l_pos l <= h -> emit inp1 n1 base t l = emit inp2 n2 base t l.
Proof.
  intros H. pose proof h_le1. pose proof h_le2. unfold emit.
  destruct (n1 <? l_pos l) eqn:E1; [lia|]. destruct (n2 <? l_pos l) eqn:E2; [lia|].
  rewrite slice_agree by assumption. reflexivity.
Qed.

Lemma emit_to_agree t st l : l_pos l <= h -> emit_to inp1 n1 base t st l = emit_to inp2 n2 base t st l.
Proof. intros. unfold emit_to. rewrite emit_agree by assumption. reflexivity. Qed.

Lemma accept_agree v l : 0 <= l_pos l -> l_pos l + 4 <= h -> accept inp1 n1 v l = accept inp2 n2 v l.
Proof. intros. unfold accept. rewrite next_agree by assumption. reflexivity. Qed.

Lemma maybe_emit_text_agree l bk : 0 <= bk -> l_pos l <= h -> maybe_emit_text inp1 n1 base l bk = maybe_emit_text inp2 n2 base l bk.
Proof.
  intros Hb H. unfold maybe_emit_text. destruct (l_start l <? l_pos l - bk); [|reflexivity].
  rewrite slice_agree by (cbn [l_pos set_pos]; lia).
  destruct (slice inp2 n2 _ _) as [v| | | | |]; cbn [bind]; try reflexivity.
  destruct (all_space_with_newline v); [reflexivity|]. rewrite emit_agree by (cbn [l_pos set_pos]; lia). reflexivity.
Qed.


Lemma tail_slice_agree (kw : bstr) p tl1 : 0 <= p -> p + Z.of_nat (length kw) <= h ->
  slice inp1 n1 p n1 = Ok tl1 ->
  exists tl2, slice inp2 n2 p n2 = Ok tl2 /\ is_prefix kw tl2 = is_prefix kw tl1.
Proof.
  intros H0 H Hs. pose proof h_le1. pose proof h_le2. unfold slice in *.
  destruct (p <? 0) eqn:E0; [lia|]. destruct (n1 <? p) eqn:E1; [lia|]. destruct (n2 <? p) eqn:E2; [lia|]. cbn [orb] in *.
  destruct (n1 <? n1) eqn:E3; [lia|]. destruct (n2 <? n2) eqn:E4; [lia|]. inversion Hs; subst; clear Hs.
  eexists. split; [reflexivity|].
  assert (T : forall (s : bstr) k, (length s <= k)%nat -> take k s = s).
  { clear. induction s as [|x s IHs]; intros [|k] Hk; cbn [take length] in *; try lia; auto. rewrite IHs by lia. reflexivity. }
  rewrite !T by (rewrite drop_len; lia).
  rewrite !drop_app_le by lia. rewrite !is_prefix_app_long by (rewrite drop_len; lia). reflexivity.
Qed.

Lemma tail_index_agree (sep : bstr) p tl1 i : 0 <= p -> 0 <= i -> p + i + Z.of_nat (length sep) <= h ->
  slice inp1 n1 p n1 = Ok tl1 -> index_of sep tl1 0 = Some i ->
  exists tl2, slice inp2 n2 p n2 = Ok tl2 /\ index_of sep tl2 0 = Some i.
Proof.
  intros H0 Hi H Hs Hx. pose proof h_le1. pose proof h_le2. unfold slice in *.
  destruct (p <? 0) eqn:E0; [lia|]. destruct (n1 <? p) eqn:E1; [lia|]. destruct (n2 <? p) eqn:E2; [lia|]. cbn [orb] in *.
  destruct (n1 <? n1) eqn:E3; [lia|]. destruct (n2 <? n2) eqn:E4; [lia|]. inversion Hs; subst; clear Hs.
  eexists. split; [reflexivity|].
  assert (T : forall (s : bstr) k, (length s <= k)%nat -> take k s = s).
  { clear. induction s as [|x s IHs]; intros [|k] Hk; cbn [take length] in *; try lia; auto. rewrite IHs by lia. reflexivity. }
  rewrite !T in * by (rewrite drop_len; lia).
  rewrite !drop_app_le in * by lia.
  eapply index_of_app_long; [exact Hx| |lia]. rewrite drop_len. lia.
Qed.
End Prefix.

(* ---------- facts about the primitives, on any input: where the cursor goes ---------- *)
Section Facts.
Variable inp : bstr.
Notation n := (Z.of_nat (length inp)).
Variable base : Z.

Definition next_fact (l l1 : lx) : Prop :=
  0 <= l_pos l /\ l_pos l <= l_pos l1 <= l_pos l + 4 /\ l_width l1 = l_pos l1 - l_pos l /\ l_start l1 = l_start l.
Lemma next_facts l r l1 : next inp n l = Ok (r, l1) -> next_fact l l1.
Proof.
  unfold next, next_fact. destruct (n <=? l_pos l) eqn:E0; [intros E; inversion E; subst; cbn; lia|].
  destruct (l_pos l <? 0) eqn:E1; [discriminate|]. destruct (decode_rune _) as [rr w] eqn:D. intros E; inversion E; subst; clear E. cbn [l_pos l_width l_start].
  assert (w <= 4)%nat.
  { unfold decode_rune in D. repeat match type of D with
      | (match ?x with _ => _ end) = _ => destruct x
      | (if ?c then _ else _) = _ => destruct c
      | (let _ := _ in _) = _ => cbv zeta in D
      end; inversion D; lia. }
  lia.
Qed.
(* not at the end of the input: the cursor moves *)
Lemma next_moves l r l1 : next inp n l = Ok (r, l1) -> l_pos l < n -> l_pos l < l_pos l1.
Proof.
  unfold next. destruct (n <=? l_pos l) eqn:E0; [lia|]. destruct (l_pos l <? 0) eqn:E1; [discriminate|].
  intros E Hlt. destruct (decode_rune _) as [rr w] eqn:D. inversion E; subst; clear E. cbn [l_pos].
  assert (1 <= w)%nat; [|lia].
  destruct (drop (Z.to_nat (l_pos l)) inp) as [|b0 t] eqn:Ed.
  { pose proof (f_equal (@length _) Ed) as HL. rewrite drop_len in HL. cbn in HL. lia. }
  unfold decode_rune in D. repeat match type of D with
      | (match ?x with _ => _ end) = _ => destruct x
      | (if ?c then _ else _) = _ => destruct c
      | (let _ := _ in _) = _ => cbv zeta in D
      end; inversion D; lia.
Qed.

Lemma next_strict l r l1 : next inp n l = Ok (r, l1) -> r <> -1 -> l_pos l < l_pos l1.
Proof.
  intros E C. apply (next_moves _ _ _ E). unfold next in E. destruct (n <=? l_pos l) eqn:E0; [|lia].
  inversion E; subst. unfold eof in C. congruence.
Qed.

Definition same_pos (l l1 : lx) : Prop := l_pos l1 = l_pos l /\ l_start l1 = l_start l /\ 0 <= l_pos l /\ 0 <= l_width l1 <= 4.
Lemma peek_facts l r l1 : peek inp n l = Ok (r, l1) -> same_pos l l1.
Proof.
  unfold peek. destruct (next inp n l) as [[r0 l0]| | | | |] eqn:E; cbn [bind]; try discriminate.
  intros H; inversion H; subst; clear H. apply next_facts in E. unfold next_fact, same_pos, backup in *. cbn [l_pos l_start l_width set_pos]. lia.
Qed.

Definition emit_fact (l l1 : lx) : Prop := l_pos l1 = Z.min (l_pos l) n /\ l_start l1 = l_pos l1.
Lemma emit_facts t l l1 : emit inp n base t l = Ok l1 -> emit_fact l l1.
Proof.
  unfold emit, emit_fact. destruct (n <? l_pos l) eqn:E; destruct (slice _ _ _ _); cbn [bind]; try discriminate; intros H; inversion H; subst; cbn [l_pos l_start set_pos]; lia.
Qed.

Definition accept_fact (l l1 : lx) : Prop := 0 <= l_pos l /\ l_pos l <= l_pos l1 <= l_pos l + 4 /\ l_start l1 = l_start l.
Lemma accept_facts v l bb l1 : accept inp n v l = Ok (bb, l1) -> accept_fact l l1.
Proof.
  unfold accept. destruct (next inp n l) as [[r0 l0]| | | | |] eqn:E; cbn [bind]; try discriminate. apply next_facts in E.
  destruct (in_set v r0); intros H; inversion H; subst; unfold next_fact, accept_fact, backup in *; cbn [l_pos l_start set_pos]; lia.
Qed.

Lemma take_len (k : nat) : forall (s : bstr), (k <= length s)%nat -> length (take k s) = k.
Proof. induction k as [|k IH]; intros [|x s] H; cbn [take length] in *; try lia. rewrite IH by lia. reflexivity. Qed.
Lemma slice_ok a e v : slice inp n a e = Ok v -> (0 <= a <= e /\ e <= n) /\ Z.of_nat (length v) = e - a.
Proof.
  unfold slice. destruct (a <? 0) eqn:E1; [discriminate|]. destruct (e <? a) eqn:E2; [discriminate|]. destruct (n <? e) eqn:E3; [discriminate|].
  cbn [orb]. intros H; inversion H; subst. split; [lia|]. rewrite take_len; [lia|]. rewrite drop_len. lia.
Qed.
Lemma is_prefix_len (kw v : bstr) : is_prefix kw v = true -> Z.of_nat (length kw) <= Z.of_nat (length v).
Proof. revert v. induction kw as [|k kw IH]; intros [|x v] H; cbn [is_prefix length] in *; try solve [lia|discriminate]. all: apply andb_prop in H; destruct H as [_ H]; apply IH in H; lia. Qed.

Definition met_fact (l l1 : lx) : Prop := l_pos l1 = l_pos l.
Lemma met_facts l bk l1 : 0 <= bk -> maybe_emit_text inp n base l bk = Ok l1 -> met_fact l l1.
Proof.
  intros Hb. unfold maybe_emit_text, met_fact. destruct (l_start l <? l_pos l - bk); [|intros H; inversion H; subst; reflexivity].
  destruct (slice _ _ _ _) as [v| | | | |] eqn:Es; cbn [bind]; try discriminate. apply slice_ok in Es. destruct Es as [Es _]. cbn [l_pos l_start set_pos] in Es.
  destruct (all_space_with_newline v); cbn [bind].
  - intros H; inversion H; subst. cbn [l_pos set_pos set_start ignore]. lia.
  - destruct (emit _ _ _ _ _) as [l2| | | | |] eqn:E; cbn [bind]; try discriminate. apply emit_facts in E. unfold emit_fact in E. cbn [l_pos set_pos] in E.
    intros H; inversion H; subst. cbn [l_pos set_pos]. lia.
Qed.
Definition errorf_fact (l : lx) (p : lstate * lx) : Prop := l_pos (snd p) = l_pos l /\ fst p = LDone.
Lemma errorf_facts c l p : errorf base c l = Ok p -> errorf_fact l p.
Proof. unfold errorf, errorf_fact. destruct (_ <? 0); [discriminate|]. intros H; inversion H; subst. cbn. auto. Qed.
End Facts.

(* the look-ahead constants of the scanner (re-read from the source by tablegen) are short *)
Lemma kw_lens :
  0 <= num_hex_prefix_len <= 4 /\ 5 <= soydoc_kw_len <= 8 /\ 0 <= header_kw_len <= 8 /\
  Z.of_nat (length literal_close1) <= 12 /\ Z.of_nat (length literal_close2) <= 12 /\ Z.of_nat (length literal_end_kw) <= 8 /\
  Z.of_nat (length soydoc_param_kw) = soydoc_kw_len /\ Z.of_nat (length header_param_kw) = header_kw_len.
Proof. vm_compute. repeat split; discriminate. Qed.
