(* C14, token grammar, bytes: a run of the byte lexer over t1 that ends in normal mode can be cut off from what follows
   ([lex_split]): lexing t1 ++ rest is lexing t1, then rest, whenever the last byte of t1 and the first bytes of rest
   cannot belong to one token ([sepP]). *)
From Soy Require Import Model.Bytes Model.JsGen Spec.JsSyntax Spec.JsShape Proofs.JsWfSplitBase Proofs.JsWfSplitNum.
From Coq Require Import ZifyBool ZifyNat ZifyN Lia.
Open Scope N_scope.


Definition sepP (t1 : bstr) (li : bool) (rest : bstr) : Prop :=
  match t1, rest with
  | [], _ | _, [] => True
  | _ :: _, b :: r' =>
    let a := last t1 0 in
    (is_ident_part a = true -> is_ident_part b = false)
    /\ (li = true -> is_digit a = true -> b = 46 -> match r' with d :: _ => is_digit d = false | [] => True end)
    /\ (a = 46 -> is_digit b = false)
    /\ glue a b = false
    /\ (is_space a = true \/ a = 168 \/ a = 169 -> incr_next rest = false)
  end.

Lemma sepP_tail c r li rest : sepP (c :: r) li rest -> sepP r li rest.
Proof.
  destruct r as [|c2 r2]; [intros _; destruct rest; exact I|]. destruct rest as [|b r']; [intros _; exact I|].
  unfold sepP. rewrite last_cons_ne by discriminate. auto.
Qed.
Lemma sepP_li t li li' rest : (li' = true -> li = true) -> sepP t li rest -> sepP t li' rest.
Proof.
  intros Hl. destruct t as [|c t]; [intros _; destruct rest; exact I|]. destruct rest as [|b r']; [intros _; exact I|].
  unfold sepP. intros (A & B & C). split; [exact A|]. split; [|exact C]. intro H. apply B. auto.
Qed.
Lemma lastint_cons t ts : lastint ts = true -> lastint (t :: ts) = true.
Proof. unfold lastint. destruct ts as [|t2 ts]; [cbn; discriminate|]. rewrite (last_cons_ne t (t2 :: ts)) by discriminate. auto. Qed.
Lemma sepP_step c r t ts rest : sepP (c :: r) (lastint (t :: ts)) rest -> sepP r (lastint ts) rest.
Proof. intro H. apply sepP_tail in H. eapply sepP_li; [|exact H]. apply lastint_cons. Qed.

Lemma omap_prepend t ts (x : option (list jstoken * lexmode)) :
  option_map (fun '(ts0, m') => (t :: ts0, m')) (option_map (fun '(t0, m) => (ts ++ t0, m)) x)
  = option_map (fun '(t0, m) => ((t :: ts) ++ t0, m)) x.
Proof. destruct x as [[t0 m]|]; reflexivity. Qed.

Lemma span_app_gen p (r : bstr) b r' : (span p r = length r -> p b = false) -> span p (r ++ b :: r') = span p r.
Proof.
  intro H. pose proof (span_le p r) as Hle. destruct (Nat.eq_dec (span p r) (length r)) as [Q|Q].
  - rewrite span_app_all by exact Q. rewrite span_head_false by (apply H; exact Q). lia.
  - apply span_app_stop. lia.
Qed.

Lemma incr_app2 r t :
  (skip_spaces r = [] -> incr_next t = false) ->
  (r <> [] -> forall b r', t = b :: r' -> glue (last r 0) b = false) ->
  incr_next (r ++ t) = incr_next r /\ (incr_next r = true -> incr_skip (r ++ t) = incr_skip r).
Proof.
  intros Hsp Hgl. unfold incr_next, incr_skip. destruct (skip_spaces r) as [|x [|y w]] eqn:E.
  - rewrite skip_spaces_all by exact E. cbn [is_prefix]. split; [|discriminate]. apply Hsp. reflexivity.
  - rewrite skip_spaces_some by (rewrite E; discriminate). rewrite E. split.
    + cbn [app is_prefix]. destruct (43 =? x) eqn:Ex; [|reflexivity]. cbn [andb]. destruct t as [|b r']; [reflexivity|].
      cbn [is_prefix]. destruct (43 =? b) eqn:Eb; [|reflexivity]. exfalso.
      apply N.eqb_eq in Ex. apply N.eqb_eq in Eb. subst x b.
      assert (Hr : r <> []) by (intro; subst r; discriminate E).
      assert (L : last r 0 = 43). { rewrite <- (skip_spaces_last r 0) by (rewrite E; discriminate). rewrite E. reflexivity. }
      specialize (Hgl Hr 43 r' eq_refl). rewrite L in Hgl. vm_compute in Hgl. discriminate.
    + cbn [is_prefix]. rewrite andb_false_r. discriminate.
  - rewrite skip_spaces_some by (rewrite E; discriminate). rewrite E. split.
    + cbn [app is_prefix]. reflexivity.
    + intros _. f_equal. apply span_app_stop. pose proof (span_le is_space r) as Hle.
      destruct (Nat.eq_dec (span is_space r) (length r)) as [Q|Q]; [|lia].
      rewrite skip_spaces_span, Q, drop_length in E. discriminate.
Qed.

Lemma lex_skip_le r : forall n m x, lex_text n m r = Some x -> (n <= length r)%nat.
Proof.
  induction r as [|c r IH]; intros n m x H; destruct n as [|k]; cbn [length]; try lia.
  - cbn in H. discriminate.
  - cbn [lex_text] in H. apply IH in H. lia.
Qed.
Lemma lex_skip_all r m : lex_text (length r) m r = Some ([], m).
Proof. induction r as [|c r IH]; [reflexivity|]. cbn [length lex_text]. exact IH. Qed.
Lemma take_all (s : bstr) : take (length s) s = s.
Proof. induction s as [|c s IH]; cbn; [reflexivity|]. f_equal. exact IH. Qed.

Lemma match47 (x : N) : match x with 47 => true | _ => false end = (x =? 47).
Proof. destruct x as [|p]; [reflexivity|]. repeat (destruct p as [p|p|]; try reflexivity). Qed.

Lemma ls_at_app c r rest ts : ls_at c r = false -> lex_text 0 LComment r = Some (ts, LNormal) -> ls_at c (r ++ rest) = false.
Proof.
  intros H L. destruct r as [|c1 [|c2 r2]]; [cbn in L; discriminate| |exact H].
  cbn [app]. unfold ls_at. destruct rest as [|b r']; [reflexivity|]. destruct (c1 =? 128) eqn:E1; [|rewrite andb_false_r; reflexivity].
  apply N.eqb_eq in E1. subst c1. cbn in L. discriminate.
Qed.

Lemma num_span_alldigits s k : forallb is_digit s = true -> num_span s = Some k -> k = length s.
Proof.
  intros Ha H. rewrite num_span_eq in H. rewrite (forallb_span_all _ _ Ha), drop_length in H. cbn in H.
  destruct (lead_okf s); [|discriminate H]. inversion H. reflexivity.
Qed.
Lemma space_last c r : is_space c = true -> skip_spaces r = [] -> is_space (last (c :: r) 0) = true.
Proof.
  intros Hc E. destruct r as [|c2 r2]; [exact Hc|]. rewrite last_cons_ne by discriminate.
  apply last_forallb; [discriminate|]. apply skip_spaces_nil_all. exact E.
Qed.
Lemma lt_space c : (c =? 10) || (c =? 13) = true -> is_space c = true.
Proof. intro H. apply orb_prop in H. destruct H as [H|H]; apply N.eqb_eq in H; subst; reflexivity. Qed.

Ltac tok_step IH S H :=
  match type of H with
  | option_map _ (lex_text ?n ?m' ?r) = Some _ =>
      let E := fresh "E" in let l := fresh "l" in let l0 := fresh "l0" in
      destruct (lex_text n m' r) as [[l l0]|] eqn:E; [|discriminate H];
      cbn [option_map] in H; injection H as H1 H2; subst;
      rewrite (IH _ _ _ E) by (eapply sepP_step; exact S); apply omap_prepend
  end.
Ltac plain_step IH S H := rewrite (IH _ _ _ H) by (eapply sepP_tail; exact S); reflexivity.

Section Split.
Variables (b : N) (r' : bstr).

Lemma lex_split : forall t1 skip m ts1,
  lex_text skip m t1 = Some (ts1, LNormal) -> sepP t1 (lastint ts1) (b :: r') ->
  lex_text skip m (t1 ++ b :: r') = option_map (fun '(t0, m0) => (ts1 ++ t0, m0)) (lex_text 0 LNormal (b :: r')).
Proof.
  induction t1 as [|c r IH]; intros skip m ts1 H Sp.
  - destruct skip; cbn in H; [|discriminate]. injection H as <- <-. cbn [app]. rewrite prepend_nil. reflexivity.
  - change ((c :: r) ++ b :: r') with (c :: (r ++ b :: r')). destruct skip as [|k].
    2:{ cbn [lex_text] in *. apply IH; [exact H|eapply sepP_tail; exact Sp]. }
    pose proof Sp as S0. unfold sepP in S0. destruct S0 as (Sw & Si & Sd & Sg & Sn).
    assert (Gl : r <> [] -> forall b0 r0, b :: r' = b0 :: r0 -> glue (last r 0) b0 = false).
    { intros Hr b0 r0 Eq. injection Eq as <- <-. rewrite <- (last_cons_ne c r 0 Hr). exact Sg. }
    destruct m; cbn [lex_text] in H |- *.
    + (* normal mode *)
      destruct (is_space c) eqn:Esp.
      { destruct (incr_app2 r (b :: r')) as [I1 I2]; [intro E; apply Sn; left; apply space_last; assumption|exact Gl|].
        rewrite I1. destruct (((c =? 10) || (c =? 13)) && incr_next r) eqn:Ei.
        - rewrite I2 by (apply andb_prop in Ei; apply Ei). unfold cons_tok in *. tok_step IH Sp H.
        - plain_step IH Sp H. }
      destruct ((c =? 39) || (c =? 34)); [plain_step IH Sp H|].
      destruct (is_ident_start c) eqn:Eid.
      { assert (En : span is_ident_part (r ++ b :: r') = span is_ident_part r).
        { apply span_app_gen. intro Q. apply Sw. destruct r as [|c2 r2].
          - cbn. unfold is_ident_part. rewrite Eid. reflexivity.
          - rewrite last_cons_ne by discriminate. apply last_forallb; [discriminate|]. apply span_all_forallb. exact Q. }
        rewrite En. rewrite take_app_le by apply span_le. tok_step IH Sp H. }
      destruct (is_digit c) eqn:Edg.
      { destruct (num_span (c :: r)) as [[|n]|] eqn:En; try discriminate H.
        destruct (lex_text n LNormal r) as [[l l0]|] eqn:E; [|discriminate H].
        cbn [option_map] in H. injection H as H1 H2. subst.
        pose proof (lex_skip_le _ _ _ _ E) as Hn.
        assert (En' : num_span (c :: (r ++ b :: r')) = Some (S n)).
        { change (c :: r ++ b :: r') with ((c :: r) ++ b :: r'). apply num_span_app; [discriminate|exact Edg|exact En|exact Sw| |exact Sd].
          intro Hall. apply Si; [|apply last_forallb; [discriminate|exact Hall]].
          pose proof (num_span_alldigits _ _ Hall En) as Hk. cbn [length] in Hk. injection Hk as ->.
          rewrite lex_skip_all in E. injection E as <-.
          change (take (S (length r)) (c :: r)) with (take (length (c :: r)) (c :: r)). rewrite take_all. exact Hall. }
        rewrite En'. change (c :: r ++ b :: r') with ((c :: r) ++ b :: r'). rewrite take_app_le by (cbn [length]; lia).
        rewrite (IH _ _ _ E) by (eapply sepP_step; exact Sp). apply omap_prepend. }
      assert (Ec : ((c =? 47) && match r ++ b :: r' with 47 :: _ => true | _ => false end)
                   = ((c =? 47) && match r with 47 :: _ => true | _ => false end)).
      { destruct r as [|x r0]; [|reflexivity]. cbn [app]. rewrite match47. destruct (c =? 47) eqn:E1; [|reflexivity].
        destruct (b =? 47) eqn:E2; [|reflexivity]. exfalso. apply N.eqb_eq in E1. apply N.eqb_eq in E2. subst.
        vm_compute in Sg. discriminate. }
      rewrite Ec. destruct ((c =? 47) && match r with 47 :: _ => true | _ => false end); [plain_step IH Sp H|].
      change (c :: r ++ b :: r') with ((c :: r) ++ b :: r'). rewrite find_punct_app.
      2:{ discriminate. }
      2:{ intros b0 r0 Eq. injection Eq as <- <-. exact Sg. }
      destruct (find_punct punct_table (c :: r)) as [[[|n] [p|]]|]; try discriminate H. tok_step IH Sp H.
    + (* comment *)
      destruct ((c =? 10) || (c =? 13)) eqn:Elt.
      { destruct (incr_app2 r (b :: r')) as [I1 I2]; [intro E; apply Sn; left; apply space_last; [apply lt_space; exact Elt|exact E]|exact Gl|].
        rewrite I1. destruct (incr_next r) eqn:Ei.
        - rewrite I2 by reflexivity. unfold cons_tok in *. tok_step IH Sp H.
        - plain_step IH Sp H. }
      destruct (ls_at c r) eqn:Els.
      { destruct r as [|c1 [|c2 r2]]; try discriminate Els. cbn [app drop] in H |- *.
        change (ls_at c (c1 :: c2 :: r2 ++ b :: r')) with (ls_at c (c1 :: c2 :: r2)). rewrite Els.
        destruct (incr_app2 r2 (b :: r')) as [I1 I2].
        { intro E. apply Sn. rewrite !last_cons_ne by discriminate. destruct r2 as [|c3 r3].
          - right. unfold ls_at in Els. apply andb_prop in Els. destruct Els as [_ Els]. apply orb_prop in Els.
            destruct Els as [Q|Q]; apply N.eqb_eq in Q; cbn; auto.
          - left. rewrite last_cons_ne by discriminate. apply last_forallb; [discriminate|]. apply skip_spaces_nil_all. exact E. }
        { intros Hr b0 r0 Eq. injection Eq as <- <-. rewrite <- (last_cons_ne c2 r2 0 Hr).
          rewrite <- (last_cons_ne c1 (c2 :: r2) 0) by discriminate. rewrite <- (last_cons_ne c (c1 :: c2 :: r2) 0) by discriminate. exact Sg. }
        rewrite I1. destruct (incr_next r2) eqn:Ei.
        - rewrite I2 by reflexivity. unfold cons_tok in *. change (c1 :: c2 :: r2 ++ b :: r') with ((c1 :: c2 :: r2) ++ b :: r'). tok_step IH Sp H.
        - change (c1 :: c2 :: r2 ++ b :: r') with ((c1 :: c2 :: r2) ++ b :: r'). plain_step IH Sp H. }
      rewrite (ls_at_app c r (b :: r') ts1 Els H). plain_step IH Sp H.
    + (* string *)
      destruct (c =? q); [tok_step IH Sp H|]. destruct (c =? 92); [plain_step IH Sp H|].
      destruct (c <? 32); [discriminate H|plain_step IH Sp H].
    + destruct ((c =? 92) || (c =? 39) || (c =? 34)); [plain_step IH Sp H|]. destruct (c =? 117); [plain_step IH Sp H|discriminate H].
    + destruct (is_hex c); [|discriminate H]. destruct k as [|[|k']]; plain_step IH Sp H.
Qed.
End Split.
