(* C06, part 9: the walker with HOOKED entries of soyhtml.Funcs / soyhtml.PrintDirectives
   (Model/InterpSafety.v section 5) -- functions and print directives supplied by the user under
   the recover wrappers of evalFunc / evalPrint, and (Model/InterpJson.v) the library functions
   Model/Interp.v leaves outside the model.

   - recover_func_answers / recover_directive_answers: whatever the user's code does short of not
     returning -- return any value, return nil, panic with anything -- the wrapped call is a value
     or an error value; *_cases: which one.
   - sphi_walk_body_hook / walk_hook_logic: the hooked walker satisfies every (node-indexed) walker
     logic of Proofs/InterpSub.v / InterpLogic.v whose pure-site condition holds of the hooks.
   - walk_hook_no_escape, walk_hook_deep, walk_hook_pos, render_hook_no_escape_pos: the three
     invariants behind C06_render_no_escape, for the hooked walker and Renderer.Execute around it.
   - walk_user_no_escape / render_user_no_escape: the instance for user code that returns or panics. *)
From Coq Require Import Lia ZifyN ZifyBool ZifyNat.
From Soy Require Import Model.Bytes Model.Num Model.Values Model.Outcome Model.Ast
  Model.Escape Model.Directives Model.Print Generated.Tables Model.Interp Model.InterpSafety
  Spec.Safety Proofs.ValueProofs Proofs.InterpLogic Proofs.InterpSub
  Proofs.SafetyPure Proofs.SafetyNodes Proofs.SafetyProofs.
Open Scope N_scope.

(* ------------------------------------------------------------------ *)
(* the wrappers alone *)

Definition returns_or_panics (r : user_result) : Prop := r <> UNoReturn.

Theorem recover_func_answers r : returns_or_panics r -> nf (recover_func r).
Proof. destruct r as [[v|]|m|]; cbn; intros H; try exact I. apply H. reflexivity. Qed.

Theorem recover_directive_answers r : returns_or_panics r -> nf (recover_directive r).
Proof. destruct r as [[v|]|m|]; cbn; intros H; try exact I. apply H. reflexivity. Qed.

(* a panic becomes an error value; nil becomes null (function) / an error (directive) *)
Theorem recover_func_cases r :
  match r with
  | UReturn (Some v) => recover_func r = Ok v
  | UReturn None => recover_func r = Ok VNull
  | UPanic _ => is_err (recover_func r) = true
  | UNoReturn => recover_func r = Diverge
  end.
Proof. destruct r as [[v|]|m|]; reflexivity. Qed.

Theorem recover_directive_cases r :
  match r with
  | UReturn x => recover_directive r = Ok x
  | UPanic _ => is_err (recover_directive r) = true
  | UNoReturn => recover_directive r = Diverge
  end.
Proof. destruct r as [[v|]|m|]; reflexivity. Qed.

(* ------------------------------------------------------------------ *)
(* the hooked walker, for every node-indexed walker logic *)

Lemma pure_sites_to_sub pure_ok : pure_sites pure_ok -> pure_sites_sub pure_ok.
Proof.
  intros PS. constructor.
  - apply (ps_arith _ PS). - apply (ps_compare _ PS). - apply (ps_string _ PS).
  - apply (ps_print _ PS). - apply (ps_func _ PS).
Qed.

Section HookLogic.
Variable cf : cfg.
Variable fhooks : bstr -> option func_hook.
Variable dir_table : bstr -> option dir_entry.
Variable Phi : forall A : Type, M A -> Prop.
Arguments Phi {A} _.
Variable pure_ok : forall A : Type, outcome A -> Prop.
Arguments pure_ok {A} _.
Hypothesis L : walker_logic_sub (@Phi) (@pure_ok).
Hypothesis PS : pure_sites_sub (@pure_ok).
(* the new pure sites: the hooked calls *)
Hypothesis PF : forall name h vs, fhooks name = Some h -> pure_ok (fh_apply h vs).
Hypothesis PD : forall mode ds v, pure_ok (print_writes_hook dir_table mode ds v).
(* ... and the application of ONE directive inside the loop (evalPrint applies each directive right after its arguments) *)
Hypothesis PA : forall ds v esc, pure_ok (apply_dirs_hook dir_table ds v esc).

Ltac phi_bind := apply (ws_bind _ _ L); [ | intro ].

Lemma sphi_hook_call (w : node -> M value) name h args :
  (forall x, In x args -> Phi (w x)) -> fhooks name = Some h -> Phi (hook_call w h args).
Proof.
  intros Hw Hu. unfold hook_call. destruct (negb _); [apply (ws_fail _ _ L)|].
  phi_bind.
  - apply (sphi_eval_list _ _ L w args Hw).
  - apply (ws_lift _ _ L). eapply PF. exact Hu.
Qed.

Lemma sphi_print_dirs_hook (w : node -> M value) l :
  (forall x, In x (flat_map dir_subs l) -> Phi (w x)) -> forall v, Phi (print_dirs_hook cf dir_table w l v).
Proof.
  induction l as [|d r IH]; intros H v; cbn [print_dirs_hook]; [apply (ws_ret _ _ L)|].
  assert (Hr : forall v', Phi (print_dirs_hook cf dir_table w r v')).
  { apply IH. intros y Hy. apply H. apply in_flat_map_tl. exact Hy. }
  destruct d; try apply (ws_fail _ _ L).
  destruct (dir_table name) as [de|]; [|apply (ws_fail _ _ L)].
  destruct (negb _); [apply (ws_fail _ _ L)|].
  phi_bind; [apply (sphi_eval_list _ _ L w args); intros y Hy; apply H; apply in_flat_map_hd; exact Hy|].
  phi_bind; [apply (ws_lift _ _ L); apply PA|].
  phi_bind; [apply Hr|]. apply (ws_ret _ _ L).
Qed.

Lemma sphi_print_hook (w : node -> M value) arg dirs :
  Phi (w arg) -> (forall x, In x (flat_map dir_subs dirs) -> Phi (w x)) -> Phi (print_hook cf dir_table w arg dirs).
Proof.
  intros Ha Hd. unfold print_hook. phi_bind; [exact Ha|].
  assert (Hrest : Phi (ds <-- print_dirs_hook cf dir_table w dirs (Some x) ;;;
                       st <-- get ;;;
                       ws <-- lift (print_writes_hook dir_table (mode st) ds x) ;;;
                       _ <-- write_all ws ;;; ret VUndef)).
  { phi_bind; [apply (sphi_print_dirs_hook w dirs Hd)|].
    apply (ws_read_mode _ _ L _ (fun md => ws <-- lift (print_writes_hook dir_table md x0 x) ;;; _ <-- write_all ws ;;; ret VUndef)).
    intros md. phi_bind; [apply (ws_lift _ _ L); apply PD|].
    phi_bind; [apply (sphi_write_all _ _ L) | apply (ws_ret _ _ L)]. }
  destruct x; try exact Hrest. apply (ws_fail _ _ L).
Qed.

Theorem sphi_walk_body_hook (w : node -> M value) n :
  Phi (modify (fun st => set_cur st (pos_of n))) ->
  (forall n', In n' (subnodes n) -> Phi (w n')) ->
  (forall callee cd, callee_of cf n = Some callee -> Phi (call_enter w callee cd)) ->
  Phi (walk_body_hook cf fhooks dir_table w n).
Proof.
  intros Hcur H Hcall.
  assert (Hdef : Phi (walk_body cf w n)) by (apply (phi_walk_body_sub cf _ _ L PS w n Hcur H Hcall)).
  destruct n; cbn [walk_body_hook]; try exact Hdef.
  - (* NFunc *)
    destruct (is_loop_func name); [exact Hdef|].
    destruct (fhooks name) as [h|] eqn:Hu; [|exact Hdef].
    phi_bind; [exact Hcur|]. eapply sphi_hook_call; [|exact Hu]. exact H.
  - (* NPrint *)
    phi_bind; [exact Hcur|]. cbn [subnodes] in H. apply sphi_print_hook.
    + apply H. left. reflexivity.
    + intros y Hy. apply H. right. exact Hy.
Qed.
End HookLogic.

(* the form for full walker logics: [Phi (w n)] for every node *)
Section HookLogicFull.
Variable cf : cfg.
Variable fhooks : bstr -> option func_hook.
Variable dir_table : bstr -> option dir_entry.
Variable Phi : forall A : Type, M A -> Prop.
Arguments Phi {A} _.
Variable pure_ok : forall A : Type, outcome A -> Prop.
Arguments pure_ok {A} _.
Hypothesis L : walker_logic (@Phi) (@pure_ok).
Hypothesis PS : pure_sites (@pure_ok).
Hypothesis PF : forall name h vs, fhooks name = Some h -> pure_ok (fh_apply h vs).
Hypothesis PD : forall mode ds v, pure_ok (print_writes_hook dir_table mode ds v).
Hypothesis PA : forall ds v esc, pure_ok (apply_dirs_hook dir_table ds v esc).

Lemma phi_walk_body_hook (w : node -> M value) :
  (forall n, Phi (w n)) -> forall n, Phi (walk_body_hook cf fhooks dir_table w n).
Proof.
  intros Hw n.
  apply (sphi_walk_body_hook cf fhooks dir_table _ _ (walker_logic_to_sub _ _ L) (pure_sites_to_sub _ PS) PF PD PA w n).
  - apply (wl_set_cur _ _ L).
  - intros n' _. apply Hw.
  - intros callee cd _. apply (wl_enter _ _ L). apply Hw.
Qed.

Theorem walk_hook_logic : forall fuel n, Phi (walk_hook cf fhooks dir_table fuel n).
Proof.
  induction fuel as [|fuel IH]; intros n.
  - cbn [walk_hook]. apply (wl_lift _ _ L). apply (ps_fuel _ PS).
  - cbn [walk_hook]. apply phi_walk_body_hook. exact IH.
Qed.
End HookLogicFull.

(* ------------------------------------------------------------------ *)
(* hooks that answer: values or error values (or values outside the model) *)

Definition hooks_answer (fhooks : bstr -> option func_hook) (dir_table : bstr -> option dir_entry) : Prop :=
  (forall name h vs, fhooks name = Some h -> nf (fh_apply h vs)) /\
  (forall name de ap v args, dir_table name = Some de -> de_impl de = DHook ap -> nf (ap v args)).

Section HookDirs.
Variable dir_table : bstr -> option dir_entry.
Hypothesis HD : forall name de ap v args, dir_table name = Some de -> de_impl de = DHook ap -> nf (ap v args).

Theorem apply_dirs_hook_nf : forall dirs v esc, nf (apply_dirs_hook dir_table dirs v esc).
Proof.
  induction dirs as [|[name args] rest IH]; intros v esc; cbn [apply_dirs_hook]; [exact I|].
  destruct (dir_table name) as [de|] eqn:Hde; [|exact I].
  destruct (negb _); [exact I|].
  apply nf_bind; [|intros v'; apply IH].
  destruct (de_impl de) as [fn nilapply|ap] eqn:Himpl.
  - destruct nilapply; [exact I|].
    destruct (Directives.fn_is fn fn_NoAutoescape); [exact I|].
    destruct v as [x|]; [|exact I].
    apply nf_bind; [apply nf_value_string|]. intros s.
    apply nf_bind; [apply nf_apply_fn|]. intros s'. exact I.
  - eapply HD; eauto.
Qed.

Theorem print_writes_hook_nf mode dirs v : nf (print_writes_hook dir_table mode dirs v).
Proof.
  unfold print_writes_hook. apply nf_bind; [apply apply_dirs_hook_nf|]. intros [v' esc].
  apply nf_bind; [destruct v' as [x|]; [apply nf_value_string | exact I]|]. intros s. exact I.
Qed.
End HookDirs.

(* A. never a panic out of the walker, never a loop of its own *)
Theorem walk_hook_no_escape cf fhooks dir_table :
  hooks_answer fhooks dir_table ->
  forall fuel n st, no_escape (fst (walk_hook cf fhooks dir_table fuel n st)).
Proof.
  intros [HF HD] fuel n st.
  destruct (walk_hook cf fhooks dir_table fuel n st) as [r st'] eqn:H.
  assert (PF : forall name h vs, fhooks name = Some h -> inv_pure_ok allowed_nc (fh_apply h vs)).
  { intros name h vs Hin. apply nf_pure_nc. eapply HF. exact Hin. }
  assert (PD : forall mode ds v, inv_pure_ok allowed_nc (print_writes_hook dir_table mode ds v)).
  { intros. apply nf_pure_nc. apply print_writes_hook_nf. exact HD. }
  assert (PA : forall ds v esc, inv_pure_ok allowed_nc (apply_dirs_hook dir_table ds v esc)).
  { intros. apply nf_pure_nc. apply apply_dirs_hook_nf. exact HD. }
  pose proof (walk_hook_logic cf fhooks dir_table _ _ (inv_logic _ _ _ _ nc_conditions) nc_pure_sites PF PD PA fuel n st r st' I H) as H1.
  cbn [fst]. destruct r; cbn in H1 |- *; try exact I; destruct H1 as [_ []].
Qed.

(* B. below the entry template the position register is not touched (any hooks) *)
Lemma inv_pure_any {A} (o : outcome A) : inv_pure_ok (fun _ => True) o.
Proof. unfold inv_pure_ok. destruct (classify o); exact I. Qed.

Theorem walk_hook_deep cf fhooks dir_table fuel n st r st' :
  walk_hook cf fhooks dir_table fuel n st = (r, st') -> Rdeep st st'.
Proof.
  intros H.
  pose proof (walk_hook_logic cf fhooks dir_table _ _ (inv_logic _ _ _ _ deep_conditions) pure_sites_any
                (fun _ _ _ _ => inv_pure_any _) (fun _ _ _ => inv_pure_any _) (fun _ _ _ => inv_pure_any _) fuel n st r st' I H) as H1.
  destruct (classify r); destruct H1; assumption.
Qed.

(* C. at depth 0 the position register stays inside the source (any hooks) *)
Lemma rel_pure_any {A} (o : outcome A) : rel_pure_ok (fun _ => True) o.
Proof. unfold rel_pure_ok. destruct (classify o); exact I. Qed.

Theorem walk_hook_pos B cf fhooks dir_table : forall fuel n, node_all (pos_le B) n = true ->
  rel_spec (Rpos B) (fun _ => True) (walk_hook cf fhooks dir_table fuel n).
Proof.
  induction fuel as [|fuel IH]; intros n Hn.
  - cbn [walk_hook]. apply (rel_lift _ _ (pos_rel_conditions B)). exact I.
  - cbn [walk_hook].
    apply (sphi_walk_body_hook cf fhooks dir_table _ _ (rel_logic_sub _ _ (pos_rel_conditions B))
             (pure_sites_sub_any _ (fun _ => I)) (fun _ _ _ _ => rel_pure_any _) (fun _ _ _ => rel_pure_any _)
             (fun _ _ _ => rel_pure_any _)).
    + apply rel_modify. intros st. split; [reflexivity|]. intros Hc. cbn.
      destruct (Nat.eqb (depth_ st) 0); [|exact Hc].
      apply node_all_head in Hn. unfold pos_le in Hn. lia.
    + intros n' Hin. apply IH. exact (node_all_sub (pos_le B) (pos_le_syn B) n n' Hn Hin).
    + intros callee cd _ st r st' H. rewrite call_enter_eq in H. cbn zeta in H.
      destruct (walk_hook cf fhooks dir_table fuel (t_node callee) (entered st callee cd)) as [r1 st2] eqn:Hrun.
      cbn [fst snd] in H. inversion H; subst.
      split; [|match goal with |- match classify ?o with _ => _ end => destruct (classify o); exact I end].
      apply walk_hook_deep in Hrun. destruct Hrun as [_ Hcur].
      apply Rpos_frame; [reflexivity|]. cbn. rewrite Hcur by (cbn; discriminate). reflexivity.
Qed.

(* D. Renderer.Execute around the hooked walker *)
Theorem render_hook_no_escape_pos cf fhooks dir_table fuel name data_id data cl bl first_id :
  hooks_answer fhooks dir_table ->
  reg_pos_ok (c_reg cf) = true ->
  no_escape (rr_outcome (render_hook cf fhooks dir_table fuel name data_id data cl bl first_id)).
Proof.
  intros Hh Hreg. unfold render_hook.
  destruct (find_template (r_templates (c_reg cf)) name) as [t|] eqn:Hf; [|exact I].
  apply find_template_some in Hf as [Hin Hname].
  set (st0 := init_state _ _ _ _ _ _).
  destruct (walk_hook cf fhooks dir_table fuel (t_node t) st0) as [r st] eqn:Hrun.
  pose proof (walk_hook_no_escape cf fhooks dir_table Hh fuel (t_node t) st0) as Hnc. rewrite Hrun in Hnc. cbn [fst] in Hnc.
  destruct r; cbn [rr_outcome]; try exact I; try exact Hnc.
  destruct (assoc_s name (r_sources (c_reg cf))) as [src|] eqn:Hsrc; [|exact I].
  destruct (assoc_s name (r_files (c_reg cf))) as [file|]; [|exact I].
  assert (Hcur : cur st <= N.of_nat (length src)).
  { unfold reg_pos_ok in Hreg. pose proof (forallb_In _ _ _ Hreg Hin) as Ht.
    unfold template_pos_ok in Ht. rewrite Hname, Hsrc in Ht.
    destruct (walk_hook_pos (N.of_nat (length src)) cf fhooks dir_table fuel (t_node t) Ht _ _ _ Hrun) as [[_ Hc] _].
    apply Hc. cbn. lia. }
  unfold line_number. destruct (N.leb_spec (cur st) (N.of_nat (length src))); [exact I | lia].
Qed.

(* ------------------------------------------------------------------ *)
(* user code *)

Definition user_code_returns (ufuncs : bstr -> option user_func) (udirs : bstr -> option user_directive) : Prop :=
  (forall name uf vs, ufuncs name = Some uf -> returns_or_panics (uf_apply uf vs)) /\
  (forall name ud v args, udirs name = Some ud -> returns_or_panics (ud_apply ud v args)).

Lemma user_hooks_answer ufuncs udirs :
  user_code_returns ufuncs udirs -> hooks_answer (funcs_with_user ufuncs) (dirs_with_user udirs).
Proof.
  intros [HF HD]. split.
  - intros name h vs Hh. unfold funcs_with_user in Hh. destruct (ufuncs name) as [uf|] eqn:Hu; [|discriminate].
    injection Hh as <-. cbn [fh_apply hook_of_user]. apply recover_func_answers. eapply HF. exact Hu.
  - intros name de ap v args Hde Himpl. unfold dirs_with_user in Hde.
    destruct (udirs name) as [ud|] eqn:Hu.
    + injection Hde as <-. cbn [de_impl dir_of_user] in Himpl. injection Himpl as <-.
      apply recover_directive_answers. eapply HD. exact Hu.
    + unfold builtin_dirs in Hde. destruct (lookup_directive name) as [[arglens [cancel [nilapply fn]]]|]; [|discriminate].
      injection Hde as <-. cbn [de_impl] in Himpl. discriminate.
Qed.

(* the walker with ANY user functions and directives that return or panic *)
Theorem walk_user_no_escape cf ufuncs udirs :
  user_code_returns ufuncs udirs ->
  forall fuel n st, no_escape (fst (walk_user cf ufuncs udirs fuel n st)).
Proof. intros H. apply walk_hook_no_escape. apply user_hooks_answer. exact H. Qed.

Theorem walk_user_no_escape' cf ufuncs udirs :
  (forall name uf vs, ufuncs name = Some uf -> uf_apply uf vs <> UNoReturn) ->
  (forall name ud v args, udirs name = Some ud -> ud_apply ud v args <> UNoReturn) ->
  forall fuel n st, no_escape (fst (walk_user cf ufuncs udirs fuel n st)).
Proof. intros H1 H2. apply walk_user_no_escape. split; assumption. Qed.

(* Renderer.Execute with them: the handler's own code is safe too (positions stay inside the source) *)
Theorem render_user_no_escape cf ufuncs udirs fuel name data_id data cl bl first_id :
  user_code_returns ufuncs udirs -> reg_ok (c_reg cf) = true ->
  no_escape (rr_outcome (render_hook cf (funcs_with_user ufuncs) (dirs_with_user udirs) fuel name data_id data cl bl first_id)).
Proof.
  intros H Hreg. apply render_hook_no_escape_pos; [apply user_hooks_answer; exact H | apply reg_ok_pos; exact Hreg].
Qed.

(* a user function that does not return: no wrapper helps (the witness) *)
Example user_noreturn_diverges :
  let uf := {| uf_arities := [0]; uf_apply := fun _ => UNoReturn |} in
  let ufuncs := fun name => if bstr_eqb name (b "spin") then Some uf else None in
  fst (walk_user {| c_reg := empty_registry; c_ij := None; c_oblig := []; c_msgs := None |} ufuncs (fun _ => None) 3
         (NFunc 0 (b "spin") []) (init_state [] 0 [] None None 2)) = Diverge.
Proof. vm_compute. reflexivity. Qed.

(* ... one that panics is an error value at the function's node *)
Example user_panic_is_error :
  let uf := {| uf_arities := [1]; uf_apply := fun _ => UPanic (b "boom") |} in
  let ufuncs := fun name => if bstr_eqb name (b "f") then Some uf else None in
  let r := walk_user {| c_reg := empty_registry; c_ij := None; c_oblig := []; c_msgs := None |} ufuncs (fun _ => None) 3
             (NFunc 7 (b "f") [NInt 9 1]) (init_state [] 0 [] None None 2) in
  is_err (fst r) = true /\ cur (snd r) = 7.
Proof. vm_compute. split; reflexivity. Qed.

(* ... and a user directive receives the VALUE (here a list, whose length it prints) *)
Example user_directive_on_value :
  let ud := {| ud_arities := [0]; ud_cancel := true;
               ud_apply := fun v _ => match v with Some (VList _ l) => UReturn (Some (VInt (Z.of_nat (length l)))) | _ => UPanic (b "not a list") end |} in
  let udirs := fun name => if bstr_eqb name (b "count") then Some ud else None in
  let run n := walk_user {| c_reg := empty_registry; c_ij := None; c_oblig := []; c_msgs := None |} (fun _ => None) udirs 5
                 (NPrint 0 n [NDirective 5 (b "count") []]) (init_state [] 0 [] None None 2) in
  rev (out (snd (run (NListLit 1 [NInt 2 7; NInt 4 8])))) = [b "2"] /\ is_err (fst (run (NInt 1 3))) = true.
Proof. vm_compute. split; reflexivity. Qed.

(* ... the loop applies each directive before it looks at the next one: a panicking user directive followed by a
   directive whose ARGUMENT fails is reported at the first directive's node (the position register still holds it),
   and the later argument is never evaluated (it would have moved the register to 30) *)
Example user_directive_interleaved :
  let ud := {| ud_arities := [0]; ud_cancel := false; ud_apply := fun _ _ => UPanic (b "boom") |} in
  let udirs := fun name => if bstr_eqb name (b "bad") then Some ud else None in
  let r := walk_user {| c_reg := empty_registry; c_ij := None; c_oblig := []; c_msgs := None |} (fun _ => None) udirs 5
             (NPrint 0 (NInt 1 3) [NDirective 5 (b "bad") []; NDirective 20 (b "truncate") [NFunc 30 (b "nosuch") []]])
             (init_state [] 0 [] None None 2) in
  is_err (fst r) = true /\ cur (snd r) = 1.
Proof. vm_compute. split; reflexivity. Qed.

Theorem render_user_no_escape' cf ufuncs udirs fuel name data_id data cl bl first_id :
  (forall name uf vs, ufuncs name = Some uf -> uf_apply uf vs <> UNoReturn) ->
  (forall name ud v args, udirs name = Some ud -> ud_apply ud v args <> UNoReturn) ->
  reg_ok (c_reg cf) = true ->
  no_escape (rr_outcome (render_hook cf (funcs_with_user ufuncs) (dirs_with_user udirs) fuel name data_id data cl bl first_id)).
Proof. intros H1 H2 Hreg. apply render_user_no_escape; [split; assumption | assumption]. Qed.

Theorem user_noreturn_not_covered : recover_func UNoReturn = Diverge /\ recover_directive UNoReturn = Diverge.
Proof. split; reflexivity. Qed.
