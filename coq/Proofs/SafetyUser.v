(* C06, part 9: functions and print directives supplied by the user, and what
   the recover wrappers of evalFunc / evalPrint guarantee about them
   (Model/InterpSafety.v section 5).

   - recover_func_answers / recover_directive_answers: whatever the user's code
     does short of not returning -- return any value, return nil, panic with
     anything -- the wrapped call is a value or an error value.
   - recover_func_noreturn / recover_directive_noreturn: user code that does not
     return is the one thing the wrappers do not turn into an error.
   - walk_user_logic: the walker extended with user functions satisfies EVERY
     walker logic (Proofs/InterpLogic.v) whose pure-site condition holds of the
     wrapped calls; walk_user_no_escape is the instance "never a panic out,
     never a loop of the walker's own".
   - apply_dirs_user_nc / print_writes_user_nc: evalPrint's directive loop over
     values with user directives in the table. *)
From Coq Require Import Lia ZifyN ZifyBool ZifyNat.
From Soy Require Import Model.Bytes Model.Num Model.Values Model.Outcome Model.Ast
  Model.Escape Model.Directives Model.Print Generated.Tables Model.Interp Model.InterpSafety
  Spec.Safety Proofs.ValueProofs Proofs.InterpLogic Proofs.InterpGuard Proofs.InterpRel Proofs.SafetyPure Proofs.SafetyProofs Proofs.SafetyMono.
Open Scope N_scope.

(* ------------------------------------------------------------------ *)
(* the wrappers alone *)

Definition returns_or_panics (r : user_result) : Prop := r <> UNoReturn.

Theorem recover_func_answers r : returns_or_panics r -> nf (recover_func r).
Proof. destruct r as [[v|]|m|]; cbn; intros H; try exact I. apply H. reflexivity. Qed.

Theorem recover_directive_answers r : returns_or_panics r -> nf (recover_directive r).
Proof. destruct r as [[v|]|m|]; cbn; intros H; try exact I. apply H. reflexivity. Qed.

(* a panic becomes an error value; nil becomes null (function) / an error (directive) *)
Theorem recover_func_cases r :
  match r with
  | UReturn (Some v) => recover_func r = Ok v
  | UReturn None => recover_func r = Ok VNull
  | UPanic _ => is_err (recover_func r) = true
  | UNoReturn => recover_func r = Diverge
  end.
Proof. destruct r as [[v|]|m|]; reflexivity. Qed.

Theorem recover_directive_cases r :
  match r with
  | UReturn (Some v) => recover_directive r = Ok v
  | UReturn None | UPanic _ => is_err (recover_directive r) = true
  | UNoReturn => recover_directive r = Diverge
  end.
Proof. destruct r as [[v|]|m|]; reflexivity. Qed.

(* ------------------------------------------------------------------ *)
(* the walker with user functions, for every walker logic *)

Section UserLogic.
Variable cf : cfg.
Variable ufuncs : bstr -> option user_func.
Variable Phi : forall A : Type, M A -> Prop.
Arguments Phi {A} _.
Variable pure_ok : forall A : Type, outcome A -> Prop.
Arguments pure_ok {A} _.
Hypothesis L : walker_logic (@Phi) (@pure_ok).
Hypothesis PS : pure_sites (@pure_ok).
(* the one new pure site: the wrapped call of a user function *)
Hypothesis PU : forall name uf vs, ufuncs name = Some uf -> pure_ok (recover_func (uf_apply uf vs)).

Lemma phi_user_call (w : node -> M value) name uf args :
  (forall n, Phi (w n)) -> ufuncs name = Some uf -> Phi (user_call w uf args).
Proof.
  intros Hw Hu. unfold user_call. destruct (negb _); [apply (wl_fail _ _ L)|].
  apply (wl_bind _ _ L).
  - apply (phi_eval_list _ _ L w Hw).
  - intros vs. apply (wl_lift _ _ L). eapply PU. exact Hu.
Qed.

Lemma phi_walk_body_user (w : node -> M value) :
  (forall n, Phi (w n)) -> forall n, Phi (walk_body_user cf ufuncs w n).
Proof.
  intros Hw n.
  assert (Hdef : Phi (walk_body cf w n)) by (apply (phi_walk_body cf _ _ L PS w Hw)).
  destruct n; cbn [walk_body_user]; try exact Hdef.
  destruct (is_loop_func name); [exact Hdef|].
  destruct (ufuncs name) as [uf|] eqn:Hu; [|exact Hdef].
  apply (wl_bind _ _ L); [apply (wl_set_cur _ _ L)|]. intros _.
  eapply phi_user_call; eauto.
Qed.

Theorem walk_user_logic : forall fuel n, Phi (walk_user cf ufuncs fuel n).
Proof.
  induction fuel as [|fuel IH]; intros n.
  - cbn [walk_user]. apply (wl_lift _ _ L). apply (ps_fuel _ PS).
  - cbn [walk_user]. apply phi_walk_body_user. exact IH.
Qed.
End UserLogic.

(* the instance of C06: user functions that return or panic *)
Theorem walk_user_no_escape cf ufuncs :
  (forall name uf vs, ufuncs name = Some uf -> returns_or_panics (uf_apply uf vs)) ->
  forall fuel n st, no_escape (fst (walk_user cf ufuncs fuel n st)).
Proof.
  intros Hu fuel n st.
  destruct (walk_user cf ufuncs fuel n st) as [r st'] eqn:H.
  assert (PU : forall name uf vs, ufuncs name = Some uf ->
                 inv_pure_ok allowed_nc (recover_func (uf_apply uf vs))).
  { intros name uf vs Hin. apply nf_pure_nc. apply recover_func_answers. eapply Hu. exact Hin. }
  pose proof (walk_user_logic cf ufuncs _ _ (inv_logic _ _ _ _ nc_conditions) nc_pure_sites PU fuel n st r st' I H) as H1.
  cbn [fst]. destruct r; cbn in H1 |- *; try exact I; destruct H1 as [_ []].
Qed.

(* without user entries the extended walker is the walker *)
Definition peq {A} (m1 m2 : M A) : Prop := forall st, m1 st = m2 st.

Lemma peq_refl {A} (m : M A) : peq m m.
Proof. intros st. reflexivity. Qed.

Lemma peq_bind {A B} (m1 m2 : M A) (f1 f2 : A -> M B) :
  peq m1 m2 -> (forall x, peq (f1 x) (f2 x)) -> peq (mbind m1 f1) (mbind m2 f2).
Proof.
  intros Hm Hf st. unfold mbind. rewrite <- (Hm st).
  destruct (m1 st) as [[x|e|e| | | ] s]; try reflexivity. apply Hf.
Qed.

Lemma peq_logic : walker_logic_r (fun _ => true) (@peq) (@peq value) (fun _ _ => True).
Proof.
  constructor; intros; try apply peq_refl.
  - intros st. rewrite <- H, <- H0. apply H1.
  - apply peq_bind; assumption.
  - intros st. apply (H (mode st) st).
  - intros st. apply (H (ctx st) st).
  - apply peq_bind; [apply peq_refl|]. intros _.
    apply peq_bind; [assumption|]. intros _. apply peq_refl.
  - intros st. rewrite !eval_eq. rewrite (H st). reflexivity.
  - intros st. rewrite !render_block_eq. rewrite (H (buf_pushed st)). reflexivity.
  - intros st. rewrite !call_enter_eq. cbn zeta. rewrite (H (entered st callee cd)). reflexivity.
Qed.

Lemma walk_body_peq cf (w1 w2 : node -> M value) :
  (forall n, peq (w1 n) (w2 n)) -> forall n, peq (walk_body cf w1 n) (walk_body cf w2 n).
Proof.
  intros Hw n.
  apply (rphi_walk_body cf (fun _ => true) (@peq) (@peq value) (fun _ _ => True)
           peq_logic approx_pure_sites (fun _ _ => eq_refl) w1 w2).
  - intros c _. apply Hw.
  - intros callee _. apply Hw.
  - apply deep_true.
Qed.

Theorem walk_user_none cf : forall fuel n, peq (walk_user cf (fun _ => None) fuel n) (walk cf fuel n).
Proof.
  induction fuel as [|fuel IH]; intros n st; [reflexivity|].
  cbn [walk_user walk].
  assert (E : walk_body_user cf (fun _ => None) (walk_user cf (fun _ => None) fuel) n st
              = walk_body cf (walk_user cf (fun _ => None) fuel) n st).
  { destruct n; cbn [walk_body_user]; try reflexivity. destruct (is_loop_func name); reflexivity. }
  rewrite E. apply walk_body_peq. exact IH.
Qed.

(* a user function that does not return: no wrapper helps (the witness) *)
Example user_noreturn_diverges :
  let uf := {| uf_arities := [0]; uf_apply := fun _ => UNoReturn |} in
  let ufuncs := fun name => if bstr_eqb name (b "spin") then Some uf else None in
  fst (walk_user {| c_reg := empty_registry; c_ij := None; c_oblig := []; c_msgs := None |} ufuncs 3
         (NFunc 0 (b "spin") []) (init_state [] 0 [] None None 2)) = Diverge.
Proof. vm_compute. reflexivity. Qed.

(* ... and one that panics is an error value at the function's node *)
Example user_panic_is_error :
  let uf := {| uf_arities := [1]; uf_apply := fun _ => UPanic (b "boom") |} in
  let ufuncs := fun name => if bstr_eqb name (b "f") then Some uf else None in
  let r := walk_user {| c_reg := empty_registry; c_ij := None; c_oblig := []; c_msgs := None |} ufuncs 3
             (NFunc 7 (b "f") [NInt 9 1]) (init_state [] 0 [] None None 2) in
  is_err (fst r) = true /\ cur (snd r) = 7.
Proof. vm_compute. split; reflexivity. Qed.

(* ------------------------------------------------------------------ *)
(* evalPrint's directive loop with user directives *)

Section UserDirs.
Variable dir_table : bstr -> option dir_entry.
Hypothesis HD : forall name de ap v args,
  dir_table name = Some de -> de_impl de = DUser ap -> returns_or_panics (ap v args).

Theorem apply_dirs_user_nf : forall dirs v esc, nf (apply_dirs_user dir_table dirs v esc).
Proof.
  induction dirs as [|[name args] rest IH]; intros v esc; cbn [apply_dirs_user]; [exact I|].
  destruct (dir_table name) as [de|] eqn:Hde; [|exact I].
  destruct (negb _); [exact I|].
  assert (Hstep : nf (match de_impl de with
                      | DBuiltin fn nilapply =>
                          if nilapply then Err e_nilapply
                          else s <- value_string v ;; s' <- apply_fn fn (map darg_of args) s ;; Ok (VStr s')
                      | DUser ap => recover_directive (ap v args)
                      end)).
  { destruct (de_impl de) as [fn nilapply|ap] eqn:Himpl.
    - destruct nilapply; [exact I|].
      pose proof (nf_value_string v) as Hs. destruct (value_string v) as [s| | | | |]; cbn [bind] in *; try tauto.
      pose proof (nf_apply_fn fn (map darg_of args) s) as Ha.
      destruct (apply_fn fn (map darg_of args) s); cbn [bind] in *; tauto.
    - apply recover_directive_answers. eapply HD; eauto. }
  destruct (match de_impl de with DBuiltin _ _ => _ | DUser _ => _ end) as [v'| | | | |]; cbn [bind] in *; try tauto.
  apply IH.
Qed.

Theorem print_writes_user_nf mode dirs v : nf (print_writes_user dir_table mode dirs v).
Proof.
  unfold print_writes_user.
  pose proof (apply_dirs_user_nf dirs v (negb (mode =? 2))) as H.
  destruct (apply_dirs_user dir_table dirs v (negb (mode =? 2))) as [[v' esc]| | | | |]; cbn [bind] in *; try tauto.
  pose proof (nf_value_string v') as Hs. destruct (value_string v'); cbn [bind] in *; tauto.
Qed.
End UserDirs.
