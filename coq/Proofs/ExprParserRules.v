(* Big-step rules for the expression parser model (Model/ExprParser.v) on token lists.

   [stream st] is the list of items the parser state will deliver next; every judgment below
   says: from any state with this stream, the procedure returns this node and leaves that
   stream, for every sufficiently large fuel.  Each rule is a lemma proved from the model's
   definitions (success paths only); Proofs/ExprParserProofs.v builds the round-trip theorems
   from the rules alone. *)
From Soy Require Import Model.Bytes Model.Num Model.Values Model.Ast Model.Token Model.NumLit Model.Quote Model.ExprParser Generated.Tables.
From Soy Require Proofs.NumLitProofs.
Require Import Lia ZifyBool ZifyNat ZifyN.
Open Scope N_scope.

(* ---- the items a state delivers next ---- *)
Definition stream (st : pst) : list tok :=
  match p_peek st with
  | O => p_rest st
  | S O => p_tok0 st :: p_rest st
  | _ => p_tok1 st :: p_tok0 st :: p_rest st
  end.
Definition inv (st : pst) : Prop := (p_peek st <= 2)%nat.

Lemma stream_init ts : stream (pst_init ts) = ts /\ inv (pst_init ts).
Proof. split; [reflexivity | unfold inv; cbn; lia]. Qed.

Lemma next_spec st t l : stream st = t :: l -> inv st ->
  exists st1, p_next st = (t, st1) /\ stream st1 = l /\ inv st1 /\
              stream (p_backup st1) = t :: l /\ inv (p_backup st1).
Proof.
  destruct st as [rest t0 t1 pk rc]. unfold stream, inv, p_next, p_backup, recv. cbn [p_peek p_rest p_tok0 p_tok1 p_recv].
  intros Hs Hi. destruct pk as [|[|[|pk]]]; [| | |lia].
  - subst rest. eexists; split; [reflexivity|]. cbn. repeat split; lia.
  - inversion Hs; subst. eexists; split; [reflexivity|]. cbn. repeat split; lia.
  - inversion Hs; subst. eexists; split; [reflexivity|]. cbn. repeat split; lia.
Qed.

Lemma peek_spec st t l : stream st = t :: l -> inv st ->
  exists st1, p_peek_tok st = (t, st1) /\ stream st1 = t :: l /\ inv st1.
Proof.
  destruct st as [rest t0 t1 pk rc]. unfold stream, inv, p_peek_tok, recv. cbn [p_peek p_rest p_tok0 p_tok1 p_recv].
  intros Hs Hi. destruct pk as [|[|[|pk]]]; [| | |lia].
  - subst rest. eexists; split; [reflexivity|]. cbn. repeat split; lia.
  - inversion Hs; subst. eexists; split; [reflexivity|]. cbn. repeat split; lia.
  - inversion Hs; subst. eexists; split; [reflexivity|]. cbn. repeat split; lia.
Qed.

(* ---- "returns a, leaving rest, for all large enough fuels" ---- *)
Definition ok2 {A} (r : nat -> nat -> presult A) (a : A) (rest : list tok) : Prop :=
  exists st', stream st' = rest /\ inv st' /\
    exists f0, forall f lf, (f0 <= f)%nat -> (f0 <= lf)%nat -> r f lf = POk a st'.

Definition on_stream (ts : list tok) (P : pst -> Prop) : Prop :=
  forall st, stream st = ts -> inv st -> P st.

Definition W (f : nat) : N -> pst -> presult node := parse_expr f.

Definition Parses (p : N) (ts : list tok) (n : node) (rest : list tok) : Prop :=
  on_stream ts (fun st => ok2 (fun f _ => parse_expr f p st) n rest).
Definition Loops (p : N) (acc : node) (ts : list tok) (n : node) (rest : list tok) : Prop :=
  on_stream ts (fun st => ok2 (fun f lf => expr_loop (W f) lf p acc st) n rest).
Definition First (ts : list tok) (n : node) (rest : list tok) : Prop :=
  on_stream ts (fun st => ok2 (fun f lf => parse_first_term (W f) lf st) n rest).
Definition Value (t : tok) (ts : list tok) (n : node) (rest : list tok) : Prop :=
  on_stream ts (fun st => ok2 (fun f lf => new_value_node (W f) lf t st) n rest).
Definition RefLoop (p : N) (key : bstr) (acc : list node) (ts : list tok) (n : node) (rest : list tok) : Prop :=
  on_stream ts (fun st => ok2 (fun f lf => data_ref_loop (W f) lf p key acc st) n rest).
Definition LLoop (p : N) (items : list node) (ts : list tok) (n : node) (rest : list tok) : Prop :=
  on_stream ts (fun st => ok2 (fun f lf => list_loop (W f) lf p items st) n rest).
Definition MLoop (p : N) (items : list (bstr * node)) (key : bstr) (ts : list tok) (n : node) (rest : list tok) : Prop :=
  on_stream ts (fun st => ok2 (fun f lf => map_loop (W f) lf p items key st) n rest).
Definition ListOrMap (t : tok) (ts : list tok) (n : node) (rest : list tok) : Prop :=
  on_stream ts (fun st => ok2 (fun f lf => parse_list_or_map (W f) lf t st) n rest).
Definition GStep (p : N) (name : bstr) (ts : list tok) (n : node) (rest : list tok) : Prop :=
  on_stream ts (fun st => ok2 (fun f lf => let '(nx, st1) := p_next st in global_loop lf p name nx st1) n rest).
Definition FLoop (p : N) (name : bstr) (args : list node) (ts : list tok) (n : node) (rest : list tok) : Prop :=
  on_stream ts (fun st => ok2 (fun f lf => func_loop (W f) lf p name args st) n rest).
Definition Func (t : tok) (ts : list tok) (n : node) (rest : list tok) : Prop :=
  on_stream ts (fun st => ok2 (fun f lf => new_function_node (W f) lf t st) n rest).
Definition DArgs (args : list node) (ts : list tok) (args' : list node) (rest : list tok) : Prop :=
  on_stream ts (fun st => ok2 (fun f lf => directive_args_loop (W f) lf args st) args' rest).
Definition PLoop (p : N) (e : node) (dirs : list node) (ts : list tok) (n : node) (rest : list tok) : Prop :=
  on_stream ts (fun st => ok2 (fun f lf => print_loop (W f) lf p e dirs st) n rest).
Definition ParsesPrint (p : N) (ts : list tok) (n : node) (rest : list tok) : Prop :=
  on_stream ts (fun st => ok2 (fun f _ => parse_print f p st) n rest).

(* ---- unfolding equations ---- *)
Lemma parse_expr_S f p st :
  parse_expr (S f) p st = pbind (parse_first_term (W f) f st) (fun n st1 => expr_loop (W f) f p n st1).
Proof. reflexivity. Qed.

Lemma expr_loop_S w lf p n st : expr_loop w (S lf) p n st =
  let '(t, st1) := p_next st in
  let q := prec_of (t_typ t) in
  if negb (is_binary_op (t_typ t)) || (q <? p) then
    if (p =? 0) && (t_typ t =? pk_itemTernIf) then parse_ternary w n st1 else POk n (p_backup st1)
  else pbind (w (q + 1) st1) (fun n2 st2 =>
         match new_binary_op t n n2 with
         | Some bn => expr_loop w lf p bn st2
         | None => p_errorf c_unimplemented st2
         end).
Proof. reflexivity. Qed.

Lemma data_ref_loop_S w lf p key acc st : data_ref_loop w (S lf) p key acc st =
  let '(t, st1) := p_next st in
  let ty := t_typ t in
  if (ty =? pk_itemQuestionDotIdent) || (ty =? pk_itemDotIdent) then
    let ns := ty =? pk_itemQuestionDotIdent in
    match slice_from (if ns then 2 else 1) (t_val t) with
    | None => PCrash m_slice
    | Some k => data_ref_loop w lf p key (acc ++ [NAccKey (t_pos t) ns k]) st1
    end
  else if (ty =? pk_itemQuestionDotIndex) || (ty =? pk_itemDotIndex) then
    let ns := ty =? pk_itemQuestionDotIndex in
    match slice_from (if ns then 2 else 1) (t_val t) with
    | None => PCrash m_slice
    | Some ds =>
        match parse_int 10 ds with
        | None => p_errorf c_number st1
        | Some i => data_ref_loop w lf p key (acc ++ [NAccIndex (t_pos t) ns i]) st1
        end
    end
  else if (ty =? pk_itemQuestionKey) || (ty =? pk_itemLeftBracket) then
    let ns := ty =? pk_itemQuestionKey in
    pbind (w 0 st1) (fun e st2 =>
    pbind (p_expect pk_itemRightBracket st2) (fun _ st3 =>
    data_ref_loop w lf p key (acc ++ [NAccExpr (t_pos t) ns e]) st3))
  else POk (NDataRef p key acc) (p_backup st1).
Proof. reflexivity. Qed.

Lemma list_loop_S w lf p items st : list_loop w (S lf) p items st =
  pbind (w 0 st) (fun e st1 =>
    let items' := items ++ [e] in
    let '(nx, st2) := p_next st1 in
    if t_typ nx =? pk_itemRightBracket then POk (NListLit p items') st2
    else if negb (t_typ nx =? pk_itemComma) then p_unexpected nx st2
    else list_loop w lf p items' st2).
Proof. reflexivity. Qed.

Lemma map_loop_S w lf p items key st : map_loop w (S lf) p items key st =
  pbind (w 0 st) (fun e st1 =>
    let items' := items_set items key e in
    let '(nx, st2) := p_next st1 in
    if t_typ nx =? pk_itemRightBracket then POk (NMapLit p items') st2
    else if negb (t_typ nx =? pk_itemComma) then p_unexpected nx st2
    else
      pbind (p_expect pk_itemString st2) (fun kt st3 =>
        match unquote_string (t_val kt) with
        | None => p_errorf c_unquote st3
        | Some key' => pbind (p_expect pk_itemColon st3) (fun _ st4 => map_loop w lf p items' key' st4)
        end)).
Proof. reflexivity. Qed.

Lemma global_loop_S lf p name nx st : global_loop (S lf) p name nx st =
  if t_typ nx =? pk_itemDotIdent then
    let '(nx', st1) := p_next st in global_loop lf p (name ++ t_val nx) nx' st1
  else POk (NGlobal p name VUndef) (p_backup st).
Proof. reflexivity. Qed.

Lemma func_loop_S w lf p name args st : func_loop w (S lf) p name args st =
  pbind (w 0 st) (fun e st1 =>
    let args' := args ++ [e] in
    let '(nx, st2) := p_next st1 in
    if t_typ nx =? pk_itemComma then func_loop w lf p name args' st2
    else if t_typ nx =? pk_itemRightParen then POk (NFunc p name args') st2
    else p_unexpected nx st2).
Proof. reflexivity. Qed.

Lemma directive_args_loop_S w lf args st : directive_args_loop w (S lf) args st =
  let '(nx, st1) := p_next st in
  if (t_typ nx =? pk_itemColon) || (t_typ nx =? pk_itemComma) then
    pbind (w 0 st1) (fun e st2 => directive_args_loop w lf (args ++ [e]) st2)
  else POk args (p_backup st1).
Proof. reflexivity. Qed.

Lemma print_loop_S w lf p e dirs st : print_loop w (S lf) p e dirs st =
  let '(t, st1) := p_next st in
  if t_typ t =? pk_itemRightDelim then POk (NPrint p e dirs) st1
  else if t_typ t =? pk_itemPipe then
    pbind (p_expect pk_itemIdent st1) (fun id st2 =>
    pbind (directive_args_loop w (S lf) [] st2) (fun args st3 =>
    print_loop w lf p e (dirs ++ [NDirective (t_pos t) (t_val id) args]) st3))
  else p_unexpected t st1.
Proof. reflexivity. Qed.

Global Opaque parse_expr expr_loop data_ref_loop list_loop map_loop global_loop func_loop directive_args_loop print_loop.

(* t.expect on a stream whose head has the expected type *)
Lemma expect_spec typ st t l : stream st = t :: l -> inv st -> (t_typ t =? typ) = true ->
  exists st1, p_expect typ st = POk t st1 /\ stream st1 = l /\ inv st1.
Proof.
  intros Hs Hi Ht. destruct (next_spec _ _ _ Hs Hi) as (st1 & Hn & Hs1 & Hi1 & _).
  exists st1. unfold p_expect. rewrite Hn, Ht. auto.
Qed.

Ltac take_next Hs Hi :=
  let st1 := fresh "st" in let Hn := fresh "Hn" in let Hs1 := fresh "Hs" in let Hi1 := fresh "Hi" in
  let Hsb := fresh "Hsb" in let Hib := fresh "Hib" in
  destruct (next_spec _ _ _ Hs Hi) as (st1 & Hn & Hs1 & Hi1 & Hsb & Hib).

Ltac use_ok H st Hs Hi :=
  let st' := fresh "st" in let Hs' := fresh "Hs" in let Hi' := fresh "Hi" in
  let f0 := fresh "f" in let Hf := fresh "HF" in
  destruct (H st Hs Hi) as (st' & Hs' & Hi' & f0 & Hf).

Ltac finish st' :=
  exists st'; split; [assumption|]; split; [assumption|].

(* ================= rules ================= *)

(* ---- parseExpr = first term, then the loop ---- *)
Lemma Parses_first p ts n l1 n' rest' :
  First ts n l1 -> Loops p n l1 n' rest' -> Parses p ts n' rest'.
Proof.
  intros HF HL st Hs Hi. use_ok HF st Hs Hi. use_ok HL st0 Hs0 Hi0.
  finish st1. exists (S (max f f0)). intros g lf Hg _. destruct g as [|g]; [lia|].
  rewrite parse_expr_S, (HF0 g g) by lia. cbn [pbind]. apply HF1; lia.
Qed.

(* ---- the loop of parseExpr ---- *)
Definition stop_at (p : N) (t : tok) : bool :=
  (negb (is_binary_op (t_typ t)) || (prec_of (t_typ t) <? p)) && negb ((p =? 0) && (t_typ t =? pk_itemTernIf)).

Lemma Loops_stop p acc t l : stop_at p t = true -> Loops p acc (t :: l) acc (t :: l).
Proof.
  intros Hst st Hs Hi. take_next Hs Hi. finish (p_backup st0).
  exists 1%nat. intros f lf _ Hlf. destruct lf as [|lf]; [lia|].
  rewrite expr_loop_S, Hn. cbv beta iota zeta. unfold stop_at in Hst.
  apply andb_true_iff in Hst. destruct Hst as [H1 H2]. rewrite H1.
  apply negb_true_iff in H2. rewrite H2. reflexivity.
Qed.

Lemma Loops_step p acc t l n2 l2 bn n' rest' :
  is_binary_op (t_typ t) = true -> (prec_of (t_typ t) <? p) = false ->
  Parses (prec_of (t_typ t) + 1) l n2 l2 ->
  new_binary_op t acc n2 = Some bn ->
  Loops p bn l2 n' rest' ->
  Loops p acc (t :: l) n' rest'.
Proof.
  intros Hb Hq HP Hnb HL st Hs Hi. take_next Hs Hi. use_ok HP st0 Hs0 Hi0. use_ok HL st1 Hs1 Hi1.
  finish st2. exists (S (max f f0)). intros g lf Hg Hlf. destruct lf as [|lf]; [lia|].
  rewrite expr_loop_S, Hn. cbv beta iota zeta. rewrite Hb, Hq. cbn [negb orb].
  unfold W at 1. rewrite (HF g g) by lia. cbn [pbind]. rewrite Hnb. apply HF0; lia.
Qed.

Lemma Loops_tern acc t l x c l2 y rest' :
  (t_typ t =? pk_itemTernIf) = true ->
  Parses 0 l x (c :: l2) -> (t_typ c =? pk_itemColon) = true ->
  Parses 0 l2 y rest' ->
  Loops 0 acc (t :: l) (NTern (pos_of acc) acc x y) rest'.
Proof.
  intros Ht HX Hc HY st Hs Hi. take_next Hs Hi. use_ok HX st0 Hs0 Hi0.
  destruct (expect_spec _ _ _ _ Hs1 Hi1 Hc) as (st2 & He & Hs2 & Hi2).
  use_ok HY st2 Hs2 Hi2.
  finish st3. exists (S (max f f0)). intros g lf Hg Hlf. destruct lf as [|lf]; [lia|].
  rewrite expr_loop_S, Hn. cbv beta iota zeta.
  apply N.eqb_eq in Ht. rewrite Ht.
  change (negb (is_binary_op pk_itemTernIf) || (prec_of pk_itemTernIf <? 0)) with true.
  change ((0 =? 0) && (pk_itemTernIf =? pk_itemTernIf)) with true. cbv iota.
  unfold parse_ternary, W. rewrite (HF g g) by lia. cbn [pbind]. rewrite He. cbn [pbind].
  rewrite (HF0 g g) by lia. reflexivity.
Qed.

(* ---- parseExprFirstTerm ---- *)
Lemma First_paren t l n r l2 :
  (t_typ t =? pk_itemLeftParen) = true ->
  Parses 0 l n (r :: l2) -> (t_typ r =? pk_itemRightParen) = true ->
  First (t :: l) n l2.
Proof.
  intros Ht HP Hr st Hs Hi. take_next Hs Hi. use_ok HP st0 Hs0 Hi0.
  destruct (expect_spec _ _ _ _ Hs1 Hi1 Hr) as (st2 & He & Hs2 & Hi2).
  finish st2. exists f. intros g lf Hg Hlf.
  unfold parse_first_term. rewrite Hn. apply N.eqb_eq in Ht. rewrite Ht.
  change (is_unary_op pk_itemLeftParen) with false. cbv iota.
  change (pk_itemLeftParen =? pk_itemLeftParen) with true. cbv iota.
  unfold W. rewrite (HF g g) by lia. cbn [pbind]. rewrite He. reflexivity.
Qed.

Lemma First_unary t l a l2 u :
  is_unary_op (t_typ t) = true ->
  Parses (prec_of (t_typ t)) l a l2 -> new_unary_op t a = Some u ->
  First (t :: l) u l2.
Proof.
  intros Ht HP Hu st Hs Hi. take_next Hs Hi. use_ok HP st0 Hs0 Hi0.
  finish st1. exists f. intros g lf Hg Hlf.
  unfold parse_first_term. rewrite Hn, Ht. unfold W. rewrite (HF g g) by lia. cbn [pbind].
  rewrite Hu. reflexivity.
Qed.

Lemma First_value t l n rest :
  is_unary_op (t_typ t) = false -> (t_typ t =? pk_itemLeftParen) = false -> is_value (t_typ t) = true ->
  Value t l n rest -> First (t :: l) n rest.
Proof.
  intros H1 H2 H3 HV st Hs Hi. take_next Hs Hi. use_ok HV st0 Hs0 Hi0.
  finish st1. exists f. intros g lf Hg Hlf.
  unfold parse_first_term. rewrite Hn, H1, H2, H3. apply HF; lia.
Qed.

(* ---- newValueNode: the literal cases consume nothing ---- *)
Lemma ok2_here {A} (r : nat -> nat -> presult A) a st :
  inv st -> (forall f lf, r f lf = POk a st) -> ok2 r a (stream st).
Proof. intros Hi H. exists st. split; [reflexivity|]. split; [assumption|]. exists 0%nat. intros. apply H. Qed.

Lemma Value_null t l : t_typ t = pk_itemNull -> Value t l (NNull (t_pos t)) l.
Proof.
  intros Ht st Hs Hi. rewrite <- Hs. apply ok2_here; [assumption|]. intros.
  unfold new_value_node. rewrite Ht. reflexivity.
Qed.

Lemma Value_bool t l : t_typ t = pk_itemBool -> Value t l (NBool (t_pos t) (bstr_eqb (t_val t) s_true_lit)) l.
Proof.
  intros Ht st Hs Hi. rewrite <- Hs. apply ok2_here; [assumption|]. intros.
  unfold new_value_node. rewrite Ht. reflexivity.
Qed.

Lemma Value_int t l z : t_typ t = pk_itemInteger ->
  (if is_prefix s_0x (t_val t) then parse_int 16 (drop 2 (t_val t)) else parse_int 10 (t_val t)) = Some z ->
  Value t l (NInt (t_pos t) z) l.
Proof.
  intros Ht Hz st Hs Hi. rewrite <- Hs. apply ok2_here; [assumption|]. intros.
  unfold new_value_node. rewrite Ht.
  change (pk_itemInteger =? pk_itemNull) with false. change (pk_itemInteger =? pk_itemBool) with false.
  change (pk_itemInteger =? pk_itemInteger) with true. cbv iota. rewrite Hz. reflexivity.
Qed.

Lemma Value_float t l x : t_typ t = pk_itemFloat -> parse_float (t_val t) = Some x ->
  Value t l (NFloat (t_pos t) x) l.
Proof.
  intros Ht Hz st Hs Hi. rewrite <- Hs. apply ok2_here; [assumption|]. intros.
  unfold new_value_node. rewrite Ht.
  change (pk_itemFloat =? pk_itemNull) with false. change (pk_itemFloat =? pk_itemBool) with false.
  change (pk_itemFloat =? pk_itemInteger) with false. change (pk_itemFloat =? pk_itemFloat) with true.
  cbv iota. rewrite Hz. reflexivity.
Qed.

Lemma Value_float_round t l x : t_typ t = pk_itemFloat -> parse_float_round (t_val t) = FRVal x ->
  Value t l (NFloat (t_pos t) x) l.
Proof.
  intros Ht Hz st Hs Hi. rewrite <- Hs. apply ok2_here; [assumption|]. intros.
  rewrite NumLitProofs.float_value_node by exact Ht. rewrite Hz. reflexivity.
Qed.

Lemma Value_string t l s : t_typ t = pk_itemString -> unquote_string (t_val t) = Some s ->
  Value t l (NString (t_pos t) (t_val t) s) l.
Proof.
  intros Ht Hz st Hs Hi. rewrite <- Hs. apply ok2_here; [assumption|]. intros.
  unfold new_value_node. rewrite Ht.
  change (pk_itemString =? pk_itemNull) with false. change (pk_itemString =? pk_itemBool) with false.
  change (pk_itemString =? pk_itemInteger) with false. change (pk_itemString =? pk_itemFloat) with false.
  change (pk_itemString =? pk_itemString) with true. cbv iota. rewrite Hz. reflexivity.
Qed.

Lemma Value_list t l n rest : t_typ t = pk_itemLeftBracket -> ListOrMap t l n rest -> Value t l n rest.
Proof.
  intros Ht H st Hs Hi. use_ok H st Hs Hi. finish st0. exists f. intros.
  unfold new_value_node. rewrite Ht. apply HF; assumption.
Qed.

Lemma Value_ref t l key n rest : t_typ t = pk_itemDollarIdent -> slice_from 1 (t_val t) = Some key ->
  RefLoop (t_pos t) key [] l n rest -> Value t l n rest.
Proof.
  intros Ht Hk H st Hs Hi. use_ok H st Hs Hi. finish st0. exists f. intros.
  unfold new_value_node. rewrite Ht.
  change (pk_itemDollarIdent =? pk_itemNull) with false. change (pk_itemDollarIdent =? pk_itemBool) with false.
  change (pk_itemDollarIdent =? pk_itemInteger) with false. change (pk_itemDollarIdent =? pk_itemFloat) with false.
  change (pk_itemDollarIdent =? pk_itemString) with false. change (pk_itemDollarIdent =? pk_itemLeftBracket) with false.
  change (pk_itemDollarIdent =? pk_itemDollarIdent) with true. cbv iota.
  unfold parse_data_ref. rewrite Hk. apply HF; assumption.
Qed.

Lemma nvn_ident w lf t st : t_typ t = pk_itemIdent ->
  new_value_node w lf t st =
    let '(nx, st1) := p_next st in
    if negb (t_typ nx =? pk_itemLeftParen) then global_loop lf (t_pos t) (t_val t) nx st1
    else new_function_node w lf t st1.
Proof. intros Ht. unfold new_value_node. rewrite Ht. reflexivity. Qed.

Lemma Value_global t nx l n rest : t_typ t = pk_itemIdent -> (t_typ nx =? pk_itemLeftParen) = false ->
  GStep (t_pos t) (t_val t) (nx :: l) n rest -> Value t (nx :: l) n rest.
Proof.
  intros Ht Hnx H st Hs Hi. use_ok H st Hs Hi. finish st0. exists f. intros g lf Hg Hlf.
  rewrite nvn_ident by assumption. specialize (HF g lf Hg Hlf).
  take_next Hs Hi. rewrite Hn in *. rewrite Hnx. exact HF.
Qed.

Lemma Value_func t lp l n rest : t_typ t = pk_itemIdent -> (t_typ lp =? pk_itemLeftParen) = true ->
  Func t l n rest -> Value t (lp :: l) n rest.
Proof.
  intros Ht Hlp H st Hs Hi. take_next Hs Hi. use_ok H st0 Hs0 Hi0. finish st1. exists f. intros g lf Hg Hlf.
  rewrite nvn_ident by assumption. rewrite Hn, Hlp. apply HF; assumption.
Qed.

(* ---- newGlobalNode ---- *)
Lemma GStep_stop p name nx l : (t_typ nx =? pk_itemDotIdent) = false ->
  GStep p name (nx :: l) (NGlobal p name VUndef) (nx :: l).
Proof.
  intros Hnx st Hs Hi. take_next Hs Hi. finish (p_backup st0). exists 1%nat. intros g lf _ Hlf.
  destruct lf as [|lf]; [lia|]. rewrite Hn, global_loop_S, Hnx. reflexivity.
Qed.

Lemma GStep_dot p name nx l n rest : (t_typ nx =? pk_itemDotIdent) = true ->
  GStep p (name ++ t_val nx) l n rest -> GStep p name (nx :: l) n rest.
Proof.
  intros Hnx H st Hs Hi. take_next Hs Hi. use_ok H st0 Hs0 Hi0. finish st1. exists (S f). intros g lf Hg Hlf.
  destruct lf as [|lf]; [lia|]. rewrite Hn, global_loop_S, Hnx. apply (HF g lf); lia.
Qed.

(* ---- newFunctionNode ---- *)
Lemma Func_empty t r l : (t_typ r =? pk_itemRightParen) = true ->
  Func t (r :: l) (NFunc (t_pos t) (t_val t) []) l.
Proof.
  intros Hr st Hs Hi. destruct (peek_spec _ _ _ Hs Hi) as (st1 & Hp & Hs1 & Hi1). take_next Hs1 Hi1.
  finish st0. exists 0%nat. intros. unfold new_function_node. rewrite Hp, Hr, Hn. reflexivity.
Qed.

Lemma Func_args t x l n rest : (t_typ x =? pk_itemRightParen) = false ->
  FLoop (t_pos t) (t_val t) [] (x :: l) n rest -> Func t (x :: l) n rest.
Proof.
  intros Hx H st Hs Hi. destruct (peek_spec _ _ _ Hs Hi) as (st1 & Hp & Hs1 & Hi1).
  use_ok H st1 Hs1 Hi1. finish st0. exists f. intros. unfold new_function_node. rewrite Hp, Hx. apply HF; assumption.
Qed.

Lemma FLoop_last p name args ts e r l2 :
  Parses 0 ts e (r :: l2) -> (t_typ r =? pk_itemComma) = false -> (t_typ r =? pk_itemRightParen) = true ->
  FLoop p name args ts (NFunc p name (args ++ [e])) l2.
Proof.
  intros HP H1 H2 st Hs Hi. use_ok HP st Hs Hi. take_next Hs0 Hi0. finish st1. exists (S f). intros g lf Hg Hlf.
  destruct lf as [|lf]; [lia|]. rewrite func_loop_S. unfold W. rewrite (HF g g) by lia. cbn [pbind].
  cbv zeta. rewrite Hn, H1, H2. reflexivity.
Qed.

Lemma FLoop_more p name args ts e c l2 n rest :
  Parses 0 ts e (c :: l2) -> (t_typ c =? pk_itemComma) = true ->
  FLoop p name (args ++ [e]) l2 n rest -> FLoop p name args ts n rest.
Proof.
  intros HP H1 HL st Hs Hi. use_ok HP st Hs Hi. take_next Hs0 Hi0. use_ok HL st1 Hs1 Hi1.
  finish st2. exists (S (max f f0)). intros g lf Hg Hlf.
  destruct lf as [|lf]; [lia|]. rewrite func_loop_S. unfold W at 1. rewrite (HF g g) by lia. cbn [pbind].
  cbv zeta. rewrite Hn, H1. apply HF0; lia.
Qed.

(* ---- parseListOrMap, parseListLiteral, parseMapLiteral ---- *)
Lemma LM_empty_map t c r l :
  (t_typ c =? pk_itemColon) = true -> (t_typ r =? pk_itemRightBracket) = true ->
  ListOrMap t (c :: r :: l) (NMapLit (t_pos t) []) l.
Proof.
  intros Hc Hr st Hs Hi. take_next Hs Hi.
  destruct (expect_spec _ _ _ _ Hs0 Hi0 Hr) as (st2 & He & Hs2 & Hi2).
  finish st2. exists 0%nat. intros. unfold parse_list_or_map. rewrite Hn, Hc, He. reflexivity.
Qed.

Lemma LM_empty_list t r l :
  (t_typ r =? pk_itemColon) = false -> (t_typ r =? pk_itemRightBracket) = true ->
  ListOrMap t (r :: l) (NListLit (t_pos t) []) l.
Proof.
  intros Hc Hr st Hs Hi. take_next Hs Hi.
  finish st0. exists 0%nat. intros. unfold parse_list_or_map. rewrite Hn, Hc, Hr. reflexivity.
Qed.

Lemma LM_single t x l first r l2 :
  (t_typ x =? pk_itemColon) = false -> (t_typ x =? pk_itemRightBracket) = false ->
  Parses 0 (x :: l) first (r :: l2) ->
  (t_typ r =? pk_itemColon) = false -> (t_typ r =? pk_itemComma) = false -> (t_typ r =? pk_itemRightBracket) = true ->
  ListOrMap t (x :: l) (NListLit (t_pos t) [first]) l2.
Proof.
  intros Hx1 Hx2 HP Hr1 Hr2 Hr3 st Hs Hi. take_next Hs Hi. use_ok HP (p_backup st0) Hsb Hib. take_next Hs1 Hi1.
  finish st2. exists f. intros g lf Hg Hlf. unfold parse_list_or_map. rewrite Hn, Hx1, Hx2.
  unfold W. rewrite (HF g g) by lia. cbn [pbind]. rewrite Hn0, Hr1, Hr2, Hr3. reflexivity.
Qed.

Lemma LM_list t x l first c l2 n rest :
  (t_typ x =? pk_itemColon) = false -> (t_typ x =? pk_itemRightBracket) = false ->
  Parses 0 (x :: l) first (c :: l2) ->
  (t_typ c =? pk_itemColon) = false -> (t_typ c =? pk_itemComma) = true ->
  LLoop (t_pos t) [first] l2 n rest ->
  ListOrMap t (x :: l) n rest.
Proof.
  intros Hx1 Hx2 HP Hc1 Hc2 HL st Hs Hi. take_next Hs Hi. use_ok HP (p_backup st0) Hsb Hib. take_next Hs1 Hi1.
  use_ok HL st2 Hs2 Hi2.
  finish st3. exists (max f f0). intros g lf Hg Hlf. unfold parse_list_or_map. rewrite Hn, Hx1, Hx2.
  unfold W at 1. rewrite (HF g g) by lia. cbn [pbind]. rewrite Hn0, Hc1, Hc2. apply HF0; lia.
Qed.

Lemma LM_map t x l p' q v c l2 n rest :
  (t_typ x =? pk_itemColon) = false -> (t_typ x =? pk_itemRightBracket) = false ->
  Parses 0 (x :: l) (NString p' q v) (c :: l2) ->
  (t_typ c =? pk_itemColon) = true ->
  MLoop (t_pos t) [] v l2 n rest ->
  ListOrMap t (x :: l) n rest.
Proof.
  intros Hx1 Hx2 HP Hc1 HL st Hs Hi. take_next Hs Hi. use_ok HP (p_backup st0) Hsb Hib. take_next Hs1 Hi1.
  use_ok HL st2 Hs2 Hi2.
  finish st3. exists (max f f0). intros g lf Hg Hlf. unfold parse_list_or_map. rewrite Hn, Hx1, Hx2.
  unfold W at 1. rewrite (HF g g) by lia. cbn [pbind]. rewrite Hn0, Hc1. unfold parse_map_literal. apply HF0; lia.
Qed.

Lemma LLoop_last p items ts e r l2 :
  Parses 0 ts e (r :: l2) -> (t_typ r =? pk_itemRightBracket) = true ->
  LLoop p items ts (NListLit p (items ++ [e])) l2.
Proof.
  intros HP Hr st Hs Hi. use_ok HP st Hs Hi. take_next Hs0 Hi0. finish st1. exists (S f). intros g lf Hg Hlf.
  destruct lf as [|lf]; [lia|]. rewrite list_loop_S. unfold W. rewrite (HF g g) by lia. cbn [pbind].
  cbv zeta. rewrite Hn, Hr. reflexivity.
Qed.

Lemma LLoop_more p items ts e c l2 n rest :
  Parses 0 ts e (c :: l2) -> (t_typ c =? pk_itemRightBracket) = false -> (t_typ c =? pk_itemComma) = true ->
  LLoop p (items ++ [e]) l2 n rest -> LLoop p items ts n rest.
Proof.
  intros HP H1 H2 HL st Hs Hi. use_ok HP st Hs Hi. take_next Hs0 Hi0. use_ok HL st1 Hs1 Hi1.
  finish st2. exists (S (max f f0)). intros g lf Hg Hlf.
  destruct lf as [|lf]; [lia|]. rewrite list_loop_S. unfold W at 1. rewrite (HF g g) by lia. cbn [pbind].
  cbv zeta. rewrite Hn, H1, H2. cbn [negb]. apply HF0; lia.
Qed.

Lemma MLoop_last p items key ts e r l2 :
  Parses 0 ts e (r :: l2) -> (t_typ r =? pk_itemRightBracket) = true ->
  MLoop p items key ts (NMapLit p (items_set items key e)) l2.
Proof.
  intros HP Hr st Hs Hi. use_ok HP st Hs Hi. take_next Hs0 Hi0. finish st1. exists (S f). intros g lf Hg Hlf.
  destruct lf as [|lf]; [lia|]. rewrite map_loop_S. unfold W. rewrite (HF g g) by lia. cbn [pbind].
  cbv zeta. rewrite Hn, Hr. reflexivity.
Qed.

Lemma MLoop_more p items key ts e c k cl l2 key' n rest :
  Parses 0 ts e (c :: k :: cl :: l2) ->
  (t_typ c =? pk_itemRightBracket) = false -> (t_typ c =? pk_itemComma) = true ->
  (t_typ k =? pk_itemString) = true -> unquote_string (t_val k) = Some key' ->
  (t_typ cl =? pk_itemColon) = true ->
  MLoop p (items_set items key e) key' l2 n rest -> MLoop p items key ts n rest.
Proof.
  intros HP H1 H2 Hk Hu Hcl HL st Hs Hi. use_ok HP st Hs Hi. take_next Hs0 Hi0.
  destruct (expect_spec _ _ _ _ Hs1 Hi1 Hk) as (st2 & He & Hs2 & Hi2).
  destruct (expect_spec _ _ _ _ Hs2 Hi2 Hcl) as (st3 & He3 & Hs3 & Hi3).
  use_ok HL st3 Hs3 Hi3.
  finish st4. exists (S (max f f0)). intros g lf Hg Hlf.
  destruct lf as [|lf]; [lia|]. rewrite map_loop_S. unfold W at 1. rewrite (HF g g) by lia. cbn [pbind].
  cbv zeta. rewrite Hn, H1, H2. cbn [negb]. rewrite He. cbn [pbind]. rewrite Hu, He3. cbn [pbind]. apply HF0; lia.
Qed.

(* ---- parseDataRef ---- *)
Definition access_start (ty : N) : bool :=
  (ty =? pk_itemQuestionDotIdent) || (ty =? pk_itemDotIdent) || (ty =? pk_itemQuestionDotIndex) || (ty =? pk_itemDotIndex) ||
  (ty =? pk_itemQuestionKey) || (ty =? pk_itemLeftBracket).

Lemma Ref_stop p key acc t l : access_start (t_typ t) = false ->
  RefLoop p key acc (t :: l) (NDataRef p key acc) (t :: l).
Proof.
  intros Ha st Hs Hi. take_next Hs Hi. finish (p_backup st0). exists 1%nat. intros g lf _ Hlf.
  destruct lf as [|lf]; [lia|]. rewrite data_ref_loop_S, Hn. cbv zeta.
  unfold access_start in Ha. repeat (apply orb_false_iff in Ha; destruct Ha as [Ha ?]).
  repeat match goal with H : (_ =? _) = false |- _ => rewrite H; clear H end. reflexivity.
Qed.

Lemma Ref_key p key acc t l ns k n rest :
  ((t_typ t =? pk_itemQuestionDotIdent) || (t_typ t =? pk_itemDotIdent)) = true ->
  (t_typ t =? pk_itemQuestionDotIdent) = ns ->
  slice_from (if ns then 2 else 1) (t_val t) = Some k ->
  RefLoop p key (acc ++ [NAccKey (t_pos t) ns k]) l n rest -> RefLoop p key acc (t :: l) n rest.
Proof.
  intros Ht Hns Hk HL st Hs Hi. take_next Hs Hi. use_ok HL st0 Hs0 Hi0. finish st1. exists (S f). intros g lf Hg Hlf.
  destruct lf as [|lf]; [lia|]. rewrite data_ref_loop_S, Hn. cbv zeta. rewrite Ht, Hns, Hk. apply HF; lia.
Qed.

Lemma Ref_idx p key acc t l ns ds i n rest :
  ((t_typ t =? pk_itemQuestionDotIdent) || (t_typ t =? pk_itemDotIdent)) = false ->
  ((t_typ t =? pk_itemQuestionDotIndex) || (t_typ t =? pk_itemDotIndex)) = true ->
  (t_typ t =? pk_itemQuestionDotIndex) = ns ->
  slice_from (if ns then 2 else 1) (t_val t) = Some ds -> parse_int 10 ds = Some i ->
  RefLoop p key (acc ++ [NAccIndex (t_pos t) ns i]) l n rest -> RefLoop p key acc (t :: l) n rest.
Proof.
  intros Ht0 Ht Hns Hk Hpi HL st Hs Hi. take_next Hs Hi. use_ok HL st0 Hs0 Hi0. finish st1. exists (S f). intros g lf Hg Hlf.
  destruct lf as [|lf]; [lia|]. rewrite data_ref_loop_S, Hn. cbv zeta. rewrite Ht0, Ht, Hns, Hk, Hpi. apply HF; lia.
Qed.

Lemma Ref_exp p key acc t l ns e r l2 n rest :
  ((t_typ t =? pk_itemQuestionDotIdent) || (t_typ t =? pk_itemDotIdent)) = false ->
  ((t_typ t =? pk_itemQuestionDotIndex) || (t_typ t =? pk_itemDotIndex)) = false ->
  ((t_typ t =? pk_itemQuestionKey) || (t_typ t =? pk_itemLeftBracket)) = true ->
  (t_typ t =? pk_itemQuestionKey) = ns ->
  Parses 0 l e (r :: l2) -> (t_typ r =? pk_itemRightBracket) = true ->
  RefLoop p key (acc ++ [NAccExpr (t_pos t) ns e]) l2 n rest -> RefLoop p key acc (t :: l) n rest.
Proof.
  intros Ht0 Ht1 Ht Hns HP Hr HL st Hs Hi. take_next Hs Hi. use_ok HP st0 Hs0 Hi0.
  destruct (expect_spec _ _ _ _ Hs1 Hi1 Hr) as (st2 & He & Hs2 & Hi2).
  use_ok HL st2 Hs2 Hi2. finish st3. exists (S (max f f0)). intros g lf Hg Hlf.
  destruct lf as [|lf]; [lia|]. rewrite data_ref_loop_S, Hn. cbv zeta. rewrite Ht0, Ht1, Ht, Hns.
  unfold W at 1. rewrite (HF g g) by lia. cbn [pbind]. rewrite He. cbn [pbind]. apply HF0; lia.
Qed.

(* ---- parsePrint ---- *)
Lemma DArgs_stop args t l :
  ((t_typ t =? pk_itemColon) || (t_typ t =? pk_itemComma)) = false -> DArgs args (t :: l) args (t :: l).
Proof.
  intros Ht st Hs Hi. take_next Hs Hi. finish (p_backup st0). exists 1%nat. intros g lf _ Hlf.
  destruct lf as [|lf]; [lia|]. rewrite directive_args_loop_S, Hn, Ht. reflexivity.
Qed.

Lemma DArgs_more args t l e l2 args' rest :
  ((t_typ t =? pk_itemColon) || (t_typ t =? pk_itemComma)) = true ->
  Parses 0 l e l2 -> DArgs (args ++ [e]) l2 args' rest -> DArgs args (t :: l) args' rest.
Proof.
  intros Ht HP HL st Hs Hi. take_next Hs Hi. use_ok HP st0 Hs0 Hi0. use_ok HL st1 Hs1 Hi1.
  finish st2. exists (S (max f f0)). intros g lf Hg Hlf.
  destruct lf as [|lf]; [lia|]. rewrite directive_args_loop_S, Hn, Ht.
  unfold W at 1. rewrite (HF g g) by lia. cbn [pbind]. apply HF0; lia.
Qed.

Lemma PLoop_end p e dirs t l : (t_typ t =? pk_itemRightDelim) = true ->
  PLoop p e dirs (t :: l) (NPrint p e dirs) l.
Proof.
  intros Ht st Hs Hi. take_next Hs Hi. finish st0. exists 1%nat. intros g lf _ Hlf.
  destruct lf as [|lf]; [lia|]. rewrite print_loop_S, Hn, Ht. reflexivity.
Qed.

Lemma PLoop_dir p e dirs t id l args l2 n rest :
  (t_typ t =? pk_itemRightDelim) = false -> (t_typ t =? pk_itemPipe) = true ->
  (t_typ id =? pk_itemIdent) = true ->
  DArgs [] l args l2 ->
  PLoop p e (dirs ++ [NDirective (t_pos t) (t_val id) args]) l2 n rest ->
  PLoop p e dirs (t :: id :: l) n rest.
Proof.
  intros Ht1 Ht2 Hid HD HL st Hs Hi. take_next Hs Hi.
  destruct (expect_spec _ _ _ _ Hs0 Hi0 Hid) as (st2 & He & Hs2 & Hi2).
  use_ok HD st2 Hs2 Hi2. use_ok HL st1 Hs1 Hi1.
  finish st3. exists (S (max f f0)). intros g lf Hg Hlf.
  destruct lf as [|lf]; [lia|]. rewrite print_loop_S, Hn, Ht1, Ht2, He. cbn [pbind].
  rewrite (HF g (S lf)) by lia. cbn [pbind]. apply HF0; lia.
Qed.

Lemma ParsesPrint_intro p ts e l1 n rest :
  Parses 0 ts e l1 -> PLoop p e [] l1 n rest -> ParsesPrint p ts n rest.
Proof.
  intros HP HL st Hs Hi. use_ok HP st Hs Hi. use_ok HL st0 Hs0 Hi0.
  finish st1. exists (max f f0). intros g lf Hg _.
  unfold parse_print, parse_print_body. fold (W g). unfold W at 1. rewrite (HF g g) by lia. cbn [pbind]. apply HF0; lia.
Qed.
