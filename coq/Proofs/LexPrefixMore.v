(* Prefix determinism of the scanner, part 4: the remaining state functions. *)
From Soy Require Import Model.Bytes Model.Utf8 Model.Outcome Model.Token Model.Lexer Generated.Tables Proofs.LexPrefix Proofs.LexPrefixStates.
From Coq Require Import ZifyBool ZifyNat ZifyN Lia List.
Import ListNotations.
Open Scope Z_scope.

Section Det.
Variable ul ud : Z -> bool.
Variable pre r1 r2 : bstr.
Variable base : Z.
Notation inp1 := (pre ++ r1).
Notation inp2 := (pre ++ r2).
Notation n1 := (Z.of_nat (length (pre ++ r1))).
Notation n2 := (Z.of_nat (length (pre ++ r2))).
Notation h := (Z.of_nat (length pre)).

Ltac replay := repeat (replay1 pre r1 r2 base).
Ltac start H := pose proof (h_le1 pre r1); pose proof (h_le2 pre r2); cbv zeta in H; crack; cbn [fst snd] in *;
  repeat match goal with Hx : context [if ?c then _ else _] |- _ =>
           match type of Hx with
           | _ <= _ => let C := fresh "C" in destruct c eqn:C
           | (_ < _)%nat => let C := fresh "C" in destruct c eqn:C
           end end; facts; monos.
Ltac moves :=
  repeat match goal with
  | E : next _ _ ?l = Ok (_, ?l1) |- _ =>
      lazymatch goal with _ : l_pos l < l_pos l1 |- _ => fail | _ => pose proof (next_moves _ _ _ _ E ltac:(side2)) end
  end.
Ltac replay2 :=
  repeat first
  [ replay1 pre r1 r2 base
  | match goal with
    | E : accept_run_loop _ _ _ ?v ?l = Ok _ |- context [accept_run_loop _ _ ?f2 ?v ?l] =>
        rewrite (accept_run_loop_det ul ud pre r1 r2 base _ _ _ _ E ltac:(side2) f2 ltac:(side2)); cbn [bind]
    | E : skip_space_loop _ _ _ ?l = Ok _ |- context [skip_space_loop _ _ ?f2 ?l] =>
        rewrite (skip_space_loop_det ul ud pre r1 r2 base _ _ _ E ltac:(side2) f2 ltac:(side2)); cbn [bind]
    | E : alnum_loop _ _ _ _ _ ?l = Ok _ |- context [alnum_loop _ _ _ _ ?f2 ?l] =>
        rewrite (alnum_loop_det ul ud pre r1 r2 base _ _ _ E ltac:(side2) f2 ltac:(side2)); cbn [bind]
    | E : soydoc_space_loop _ _ _ ?l = Ok _ |- context [soydoc_space_loop _ _ ?f2 ?l] =>
        rewrite (soydoc_space_loop_det ul ud pre r1 r2 base _ _ _ E ltac:(side2) f2 ltac:(side2)); cbn [bind]
    | E : literal_space_loop _ _ _ ?ch ?l = Ok _ |- context [literal_space_loop _ _ ?f2 ?ch ?l] =>
        rewrite (literal_space_loop_det ul ud pre r1 r2 base _ _ _ _ E ltac:(side2) f2 ltac:(side2)); cbn [bind]
    | E : soydoc_ident_loop _ _ _ _ ?l = Ok _ |- context [soydoc_ident_loop _ _ _ ?f2 ?l] =>
        rewrite (soydoc_ident_loop_det ul ud pre r1 r2 base _ _ _ E ltac:(side2) f2 ltac:(side2)); cbn [bind]
    | E : css_loop _ _ _ _ ?l = Ok _ |- context [css_loop _ _ _ ?f2 ?l] =>
        rewrite (css_loop_det ul ud pre r1 r2 base _ _ _ E ltac:(unfold spos; side2) f2 ltac:(unfold spos; side2)); cbn [bind]
    | E : header_type_loop _ _ _ _ ?lns ?l = Ok _ |- context [header_type_loop _ _ _ ?f2 ?lns ?l] =>
        rewrite (header_type_loop_det ul ud pre r1 r2 base _ lns l _ ltac:(side2) E ltac:(unfold hpos; side2) f2 ltac:(unfold hpos; side2)); cbn [bind]
    end ].

Ltac dead := exfalso; unfold errorf_fact in *; cbn [fst snd] in *; intuition congruence.
Ltac lencond :=
  match goal with
  | |- context [if (?a <=? Z.of_nat (length (pre ++ r2))) then _ else _] =>
      let Cx := fresh "Cx" in destruct (a <=? Z.of_nat (length (pre ++ r2))) eqn:Cx; try solve [exfalso; side2]
  end.
Ltac fn H := pose proof kw_lens; start H; try solve [dead]; repeat (replay2; try lencond).

Lemma lex_ident_det l res : lex_ident ul ud inp1 n1 base l = Ok res -> l_pos (snd res)+ m_ident <= h -> fst res <> LDone ->
  lex_ident ul ud inp2 n2 base l = Ok res.
Proof using All. intros H Hb Hl. unfold lex_ident, emit_to in *. fn H. Qed.

Lemma lex_css_det l res : lex_css inp1 n1 base l = Ok res -> l_pos (snd res)+ m_css <= h -> fst res <> LDone ->
  lex_css inp2 n2 base l = Ok res.
Proof using All. intros H Hb Hl. unfold lex_css, double_close, emit_to in *. fn H. Qed.

Lemma lex_number_det l res : lex_number ul ud inp1 n1 base l = Ok res -> l_pos (snd res)+ m_number <= h -> fst res <> LDone ->
  l_start l <= l_pos l -> lex_number ul ud inp2 n2 base l = Ok res.
Proof using All.
  intros H Hb Hl Hst. unfold lex_number, scan_number, scan_hex, scan_mantissa, scan_exponent, accept_run, is_alnum, emit_to in *. fn H.
Qed.
End Det.
