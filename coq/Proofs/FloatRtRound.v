(* Float round trip, part 1: NumLit.round_ratio returns x for every fraction n/d inside the rounding
   interval of the float64 x = a * 2^e (a odd, below 2^53): between the midpoints to the two neighbours,
   end points included when the 53-bit mantissa is even.  All statements are about integers: a rational
   v = n/d is compared with K * 2^t by cross-multiplication ([rt_cmp]). *)
From Soy Require Import Model.Bytes Model.Num Model.NumLit Proofs.NumLitProofs.
From Coq Require Import ZifyBool ZifyNat ZifyN Lia.
Open Scope Z_scope.

Definition rt_P2 (t : Z) : Z := 2 ^ Z.max 0 t.
Definition rt_N2 (t : Z) : Z := 2 ^ Z.max 0 (- t).

(* n/d  ?=  K * 2^t *)
Definition rt_cmp (n d K t : Z) : comparison := Z.compare (n * rt_N2 t) (K * rt_P2 t * d).

Lemma rt_P2_pos t : 0 < rt_P2 t.
Proof. unfold rt_P2. apply Z.pow_pos_nonneg; lia. Qed.
Lemma rt_N2_pos t : 0 < rt_N2 t.
Proof. unfold rt_N2. apply Z.pow_pos_nonneg; lia. Qed.

Lemma rt_P2N2 t j : 0 <= j -> rt_P2 t * rt_N2 (t - j) = rt_P2 (t - j) * 2 ^ j * rt_N2 t.
Proof.
  intros Hj. unfold rt_P2, rt_N2.
  rewrite <- !Z.pow_add_r by lia. f_equal. lia.
Qed.

Lemma rt_scale_num n e : scale_num n e = n * rt_N2 e.
Proof.
  unfold scale_num, rt_N2. destruct (Z.leb_spec 0 e).
  - replace (Z.max 0 (- e)) with 0 by lia. lia.
  - replace (Z.max 0 (- e)) with (- e) by lia. reflexivity.
Qed.
Lemma rt_scale_den d e : scale_den d e = d * rt_P2 e.
Proof.
  unfold scale_den, rt_P2. destruct (Z.leb_spec 0 e).
  - replace (Z.max 0 e) with e by lia. reflexivity.
  - replace (Z.max 0 e) with 0 by lia. lia.
Qed.

Lemma rt_compare_scale a c p : 0 < p -> Z.compare (a * p) (c * p) = Z.compare a c.
Proof. intros Hp. rewrite !(Z.mul_comm _ p). symmetry. apply Zmult_compare_compat_l. lia. Qed.

(* v ?= K 2^t   is   v ?= (K 2^j) 2^(t-j) *)
Lemma rt_cmp_shift n d K t j : 0 <= j -> 0 < d -> rt_cmp n d K t = rt_cmp n d (K * 2 ^ j) (t - j).
Proof.
  intros Hj Hd. unfold rt_cmp.
  rewrite <- (rt_compare_scale (n * rt_N2 t) (K * rt_P2 t * d) (rt_N2 (t - j))) by apply rt_N2_pos.
  rewrite <- (rt_compare_scale (n * rt_N2 (t - j)) (K * 2 ^ j * rt_P2 (t - j) * d) (rt_N2 t)) by apply rt_N2_pos.
  pose proof (rt_P2N2 t j Hj) as E.
  replace (K * rt_P2 t * d * rt_N2 (t - j)) with (K * d * (rt_P2 t * rt_N2 (t - j))) by ring.
  rewrite E. f_equal; ring.
Qed.

(* 2^j v ?= K 2^t   is   v ?= K 2^(t-j) *)
Lemma rt_cmp_mul n d K t j : 0 <= j -> 0 < d -> rt_cmp (2 ^ j * n) d K t = rt_cmp n d K (t - j).
Proof.
  intros Hj Hd. unfold rt_cmp.
  rewrite <- (rt_compare_scale (2 ^ j * n * rt_N2 t) (K * rt_P2 t * d) (rt_N2 (t - j))) by apply rt_N2_pos.
  rewrite <- (rt_compare_scale (n * rt_N2 (t - j)) (K * rt_P2 (t - j) * d) (2 ^ j * rt_N2 t)).
  2:{ apply Z.mul_pos_pos; [apply Z.pow_pos_nonneg; lia|apply rt_N2_pos]. }
  pose proof (rt_P2N2 t j Hj) as E.
  replace (K * rt_P2 t * d * rt_N2 (t - j)) with (K * d * (rt_P2 t * rt_N2 (t - j))) by ring.
  rewrite E. f_equal; ring.
Qed.

(* monotone in K *)
Lemma rt_cmp_lt_mono n d K K' t : 0 < d -> K <= K' -> rt_cmp n d K t = Lt -> rt_cmp n d K' t = Lt.
Proof.
  unfold rt_cmp. intros Hd HK H. rewrite Z.compare_lt_iff in *. pose proof (rt_P2_pos t).
  assert (K * rt_P2 t * d <= K' * rt_P2 t * d) by (apply Z.mul_le_mono_nonneg_r; [lia|apply Z.mul_le_mono_nonneg_r; lia]). lia.
Qed.
Lemma rt_cmp_ge_mono n d K K' t : 0 < d -> K' <= K -> rt_cmp n d K t <> Lt -> rt_cmp n d K' t <> Lt.
Proof.
  unfold rt_cmp. intros Hd HK H. rewrite Z.compare_lt_iff in *. pose proof (rt_P2_pos t).
  assert (K' * rt_P2 t * d <= K * rt_P2 t * d) by (apply Z.mul_le_mono_nonneg_r; [lia|apply Z.mul_le_mono_nonneg_r; lia]). lia.
Qed.
Lemma rt_cmp_gt_mono n d K K' t : 0 < d -> K' <= K -> rt_cmp n d K t = Gt -> rt_cmp n d K' t = Gt.
Proof.
  unfold rt_cmp. intros Hd HK H. rewrite Z.compare_gt_iff in *. pose proof (rt_P2_pos t).
  assert (K' * rt_P2 t * d <= K * rt_P2 t * d) by (apply Z.mul_le_mono_nonneg_r; [lia|apply Z.mul_le_mono_nonneg_r; lia]). lia.
Qed.

(* ---- the quotient and its rounding, in terms of rt_cmp ---- *)
Lemma rt_floor_ge n d e K : 0 < d -> (K <=? floor_div_pow2 n d e) = negb (match rt_cmp n d K e with Lt => true | _ => false end).
Proof.
  intros Hd. unfold floor_div_pow2, rt_cmp. rewrite rt_scale_num, rt_scale_den.
  pose proof (rt_P2_pos e) as HP. set (nn := n * rt_N2 e). set (dd := d * rt_P2 e).
  assert (Hdd : 0 < dd) by (unfold dd; apply Z.mul_pos_pos; lia).
  replace (K * rt_P2 e * d) with (K * dd) by (unfold dd; ring).
  destruct (Z.compare_spec nn (K * dd)) as [H|H|H]; cbn [negb].
  - subst nn. rewrite H, Z.div_mul by lia. lia.
  - assert (nn / dd < K) by (apply Z.div_lt_upper_bound; lia). lia.
  - assert (K <= nn / dd) by (apply Z.div_le_lower_bound; lia). lia.
Qed.

(* the integer nearest to nn/dd, ties to even *)
Lemma rt_round_near nn dd K :
  0 < dd -> (2 * K - 1) * dd <= 2 * nn <= (2 * K + 1) * dd ->
  (Z.even K = true \/ ((2 * K - 1) * dd < 2 * nn < (2 * K + 1) * dd)) ->
  (let q := nn / dd in let r := nn mod dd in
   if 2 * r <? dd then q else if dd <? 2 * r then q + 1 else if Z.even q then q else q + 1) = K.
Proof.
  intros Hdd Hb Ht. cbv zeta.
  pose proof (Z.div_mod nn dd ltac:(lia)) as Hdm. pose proof (Z.mod_pos_bound nn dd Hdd) as Hr.
  set (q := nn / dd) in *. set (r := nn mod dd) in *.
  assert (Hq : q = K - 1 \/ q = K) by nia.
  destruct Hq as [Hq|Hq].
  - (* q = K-1: r >= dd/2 *)
    assert (dd <= 2 * r) by nia.
    destruct (Z.ltb_spec (2 * r) dd); [lia|].
    destruct (Z.ltb_spec dd (2 * r)); [lia|].
    assert (E : 2 * r = dd) by lia.
    destruct Ht as [Ht|Ht]; [|nia].
    replace (Z.even q) with false; [lia|]. rewrite Hq. rewrite Z.even_sub. rewrite Ht. reflexivity.
  - assert (2 * r <= dd) by nia.
    destruct (Z.ltb_spec (2 * r) dd); [lia|].
    destruct (Z.ltb_spec dd (2 * r)); [lia|].
    destruct Ht as [Ht|Ht]; [|nia]. rewrite Hq, Ht. reflexivity.
Qed.

Definition rt_above (incl : bool) (c : comparison) : bool := match c with Gt => true | Eq => incl | Lt => false end.
Definition rt_below (incl : bool) (c : comparison) : bool := match c with Lt => true | Eq => incl | Gt => false end.

Lemma rt_round_div n d e K :
  0 < d -> 0 <= n ->
  rt_above (Z.even K) (rt_cmp n d (2 * K - 1) (e - 1)) = true ->
  rt_below (Z.even K) (rt_cmp n d (2 * K + 1) (e - 1)) = true ->
  round_div_pow2 n d e = K.
Proof.
  intros Hd Hn Ha Hb. unfold round_div_pow2.
  rewrite <- (rt_cmp_mul n d _ e 1) in Ha by lia. rewrite <- (rt_cmp_mul n d _ e 1) in Hb by lia. change (2 ^ 1) with 2 in Ha, Hb.
  unfold rt_cmp in Ha, Hb. rewrite rt_scale_num, rt_scale_den.
  pose proof (rt_P2_pos e) as HP. set (nn := n * rt_N2 e) in *. set (dd := d * rt_P2 e) in *.
  assert (Hdd : 0 < dd) by (unfold dd; apply Z.mul_pos_pos; lia).
  replace (2 * n * rt_N2 e) with (2 * nn) in Ha, Hb by (unfold nn; ring).
  replace ((2 * K - 1) * rt_P2 e * d) with ((2 * K - 1) * dd) in Ha by (unfold dd; ring).
  replace ((2 * K + 1) * rt_P2 e * d) with ((2 * K + 1) * dd) in Hb by (unfold dd; ring).
  apply rt_round_near; [exact Hdd| |].
  - destruct (Z.compare_spec (2 * nn) ((2 * K - 1) * dd)); destruct (Z.compare_spec (2 * nn) ((2 * K + 1) * dd)); cbn in Ha, Hb; try discriminate; lia.
  - destruct (Z.even K); [left; reflexivity|right].
    destruct (Z.compare_spec (2 * nn) ((2 * K - 1) * dd)); destruct (Z.compare_spec (2 * nn) ((2 * K + 1) * dd)); cbn in Ha, Hb; try discriminate; lia.
Qed.

(* ---- the exponent round_ratio chooses ---- *)
Lemma rt_pow_le_inv a c : 0 <= c -> 2 ^ a <= 2 ^ c -> a <= c.
Proof.
  intros Hc H. destruct (Z.leb_spec a c); [assumption|]. exfalso.
  assert (2 ^ c < 2 ^ a) by (apply Z.pow_lt_mono_r; lia). lia.
Qed.

(* 2^52 2^E <= n/d < 2^53 2^E  fixes the exponent *)
Lemma rt_exponent n d E :
  0 < n -> 0 < d -> -1073 <= E ->
  rt_cmp n d (2 ^ 52) E <> Lt -> rt_cmp n d (2 ^ 53) E = Lt ->
  (let e1 := Z.log2 n - Z.log2 d - 53 in
   let e2 := Z.max e1 (-1074) in
   if two53 <=? floor_div_pow2 n d e2 then e2 + 1 else e2) = E.
Proof.
  intros Hn Hd HE Hlo Hhi. cbv zeta.
  pose proof (Z.log2_spec n Hn) as [Ln1 Ln2]. pose proof (Z.log2_spec d Hd) as [Ld1 Ld2].
  pose proof (Z.log2_nonneg n) as Ln0. pose proof (Z.log2_nonneg d) as Ld0.
  set (ln := Z.log2 n) in *. set (ld := Z.log2 d) in *.
  (* E - 1 <= ln - ld - 53 <= E *)
  assert (B : E - 1 <= ln - ld - 53 <= E).
  { unfold rt_cmp in Hlo, Hhi. rewrite Z.compare_lt_iff in Hlo, Hhi.
    pose proof (rt_P2_pos E) as HP. pose proof (rt_N2_pos E) as HN. unfold rt_P2, rt_N2 in *.
    set (A := Z.max 0 E) in *. set (C := Z.max 0 (- E)) in *.
    assert (HAC : A - C = E) by (unfold A, C; lia). assert (HA : 0 <= A) by (unfold A; lia). assert (HC : 0 <= C) by (unfold C; lia).
    split.
    - (* 2^52 2^A 2^ld <= 2^52 2^A d <= n 2^C < 2^(ln+1) 2^C *)
      assert (H1 : 2 ^ 52 * 2 ^ A * 2 ^ ld <= 2 ^ 52 * 2 ^ A * d) by (apply Z.mul_le_mono_nonneg_l; lia).
      assert (H2 : n * 2 ^ C < 2 ^ (ln + 1) * 2 ^ C) by (apply Z.mul_lt_mono_pos_r; lia).
      assert (H3 : 2 ^ (52 + A + ld) < 2 ^ (ln + 1 + C)).
      { rewrite !Z.pow_add_r by lia. rewrite Z.pow_add_r in H2 by lia. lia. }
      apply pow2_lt_inv in H3; lia.
    - assert (H1 : 2 ^ 53 * 2 ^ A * d < 2 ^ 53 * 2 ^ A * 2 ^ (ld + 1)) by (apply Z.mul_lt_mono_pos_l; lia).
      assert (H2 : 2 ^ ln * 2 ^ C <= n * 2 ^ C) by (apply Z.mul_le_mono_nonneg_r; lia).
      assert (H3 : 2 ^ (ln + C) < 2 ^ (53 + A + (ld + 1))).
      { rewrite !Z.pow_add_r by lia. rewrite Z.pow_add_r in H1 by lia. lia. }
      apply pow2_lt_inv in H3; lia. }
  replace (Z.max (ln - ld - 53) (-1074)) with (ln - ld - 53) by lia.
  change two53 with (2 ^ 53). rewrite rt_floor_ge by exact Hd.
  destruct (Z.eq_dec (ln - ld - 53) E) as [Ee|Ee].
  - rewrite Ee, Hhi. cbn. reflexivity.
  - assert (Ee' : ln - ld - 53 = E - 1) by lia. rewrite Ee'.
    rewrite (rt_cmp_shift n d (2 ^ 52) E 1) in Hlo by lia. change (2 ^ 52 * 2 ^ 1) with (2 ^ 53) in Hlo.
    destruct (rt_cmp n d (2 ^ 53) (E - 1)); try congruence; cbn; lia.
Qed.

(* ---- the float64 m 2^e and its rounding interval ---- *)
Section Interval.
Variable q : positive.
Variable e : Z.
Variables n d : Z.
Hypothesis Hodd : podd q.
Hypothesis Hq53 : Zpos q < two53.
Hypothesis He : -1000 < e < 900.
Hypothesis Hn : 0 < n.
Hypothesis Hd : 0 < d.

Let shift := 53 - (Z.log2 (Zpos q) + 1).
Let M := Zpos q * 2 ^ shift.
Let E := e - shift.

Lemma rt_shift_range : 0 <= shift <= 52.
Proof.
  unfold shift. pose proof (Z.log2_nonneg (Zpos q)).
  assert (Z.log2 (Zpos q) < 53) by (apply Z.log2_lt_pow2; [lia|exact Hq53]). lia.
Qed.

Lemma rt_M_range : 2 ^ 52 <= M < 2 ^ 53.
Proof.
  pose proof rt_shift_range as Hs. unfold M.
  pose proof (Z.log2_spec (Zpos q) ltac:(lia)) as [L1 L2]. pose proof (Z.log2_nonneg (Zpos q)) as L0.
  set (l := Z.log2 (Zpos q)) in *. assert (Es : shift = 52 - l) by (unfold shift; lia).
  assert (P : 0 < 2 ^ shift) by (apply Z.pow_pos_nonneg; lia).
  split.
  - replace 52 with (l + shift) by lia. rewrite Z.pow_add_r by lia. apply Z.mul_le_mono_nonneg_r; lia.
  - replace 53 with ((l + 1) + shift) by lia. rewrite Z.pow_add_r by lia. apply Z.mul_lt_mono_pos_r; lia.
Qed.

Lemma rt_M_even : Z.even M = (1 <=? shift).
Proof.
  pose proof rt_shift_range as Hs. unfold M. destruct (Z.leb_spec 1 shift) as [H|H].
  - replace shift with (1 + (shift - 1)) by lia. rewrite Z.pow_add_r by lia. change (2 ^ 1) with 2.
    replace (Zpos q * (2 * 2 ^ (shift - 1))) with (2 * (Zpos q * 2 ^ (shift - 1))) by ring. apply Z.even_mul.
  - replace shift with 0 by lia. rewrite Z.pow_0_r, Z.mul_1_r. destruct q; try contradiction; reflexivity.
Qed.

Lemma rt_q_one : M = 2 ^ 52 -> q = xH /\ shift = 52.
Proof.
  intros HM. pose proof rt_shift_range as Hs. unfold M in HM.
  destruct (Z.eq_dec shift 52) as [E52|N52].
  - rewrite E52 in HM. split; [|exact E52]. assert (Zpos q = 1) by lia. congruence.
  - exfalso. (* q 2^shift = 2^52 with q odd and shift < 52: q = 2^(52-shift) is even *)
    assert (P : 0 < 2 ^ shift) by (apply Z.pow_pos_nonneg; lia).
    assert (Hq : Zpos q = 2 ^ (52 - shift)).
    { apply (Z.mul_reg_r _ _ (2 ^ shift)); [lia|]. rewrite <- Z.pow_add_r by lia. replace (52 - shift + shift) with 52 by lia. exact HM. }
    assert (Ev : Z.even (Zpos q) = true).
    { rewrite Hq. replace (52 - shift) with (1 + (51 - shift)) by lia. rewrite Z.pow_add_r by lia. change (2 ^ 1) with 2. apply Z.even_mul. }
    destruct q; try contradiction; discriminate.
Qed.

(* the interval in the units of Num.shortest_decimal: 4M = X, exponent E - 2 *)
Definition rt_LO : Z := if Zpos q =? 1 then 4 * M - 1 else 4 * M - 2.
Definition rt_HI : Z := 4 * M + 2.
Definition rt_incl : bool := 1 <=? shift.

Hypothesis Hlo : rt_above rt_incl (rt_cmp n d rt_LO (E - 2)) = true.
Hypothesis Hhi : rt_below rt_incl (rt_cmp n d rt_HI (E - 2)) = true.

Theorem rt_round_interval neg : round_ratio neg n d = FRVal (FFin (if neg then Zneg q else Zpos q) e).
Proof.
  pose proof rt_shift_range as Hs. pose proof rt_M_range as HM. pose proof rt_M_even as HMe. fold rt_incl in HMe.
  assert (HE : -1052 <= E) by (unfold E; lia).
  (* v < 2^53 2^E *)
  assert (Hlt : rt_cmp n d (2 ^ 53) E = Lt).
  { rewrite (rt_cmp_shift n d (2 ^ 53) E 2) by lia.
    assert (Hx : rt_cmp n d (rt_HI + 1) (E - 2) = Lt).
    { unfold rt_cmp in *. rewrite Z.compare_lt_iff. pose proof (rt_P2_pos (E - 2)).
      assert (rt_HI * rt_P2 (E - 2) * d < (rt_HI + 1) * rt_P2 (E - 2) * d) by (apply Z.mul_lt_mono_pos_r; [lia|apply Z.mul_lt_mono_pos_r; lia]).
      destruct (Z.compare_spec (n * rt_N2 (E - 2)) (rt_HI * rt_P2 (E - 2) * d)); cbn in Hhi; try discriminate; lia. }
    apply (rt_cmp_lt_mono n d (rt_HI + 1)); [exact Hd| |exact Hx]. unfold rt_HI. change (2 ^ 53 * 2 ^ 2) with (4 * 2 ^ 53). lia. }
  unfold round_ratio.
  destruct (Z.eq_dec M (2 ^ 52)) as [EM|NM].
  - (* the lowest mantissa of a binade: the interval reaches a quarter step below x *)
    destruct (rt_q_one EM) as [Eq1 Es52].
    assert (Ei : rt_incl = true) by (unfold rt_incl; lia).
    assert (ELO : rt_LO = 2 ^ 54 - 1) by (unfold rt_LO; replace (Zpos q =? 1) with true by (rewrite Eq1; reflexivity); rewrite EM; reflexivity).
    rewrite ELO, Ei in Hlo.
    destruct (rt_cmp n d (2 ^ 52) E) eqn:C52.
    3:{ (* v > 2^52 2^E: as the general case below, K = M *)
      assert (Hex := rt_exponent n d E Hn Hd ltac:(lia) ltac:(congruence) Hlt). cbv zeta in Hex. rewrite Hex.
      assert (HK : round_div_pow2 n d E = M).
      { apply rt_round_div; [lia|lia| |].
        - rewrite HMe, Ei. rewrite (rt_cmp_shift n d (2 * M - 1) (E - 1) 1) by lia. replace (E - 1 - 1) with (E - 2) by lia.
          assert (G : rt_cmp n d (2 ^ 54) (E - 2) = Gt).
          { rewrite (rt_cmp_shift n d (2 ^ 52) E 2) in C52 by lia. exact C52. }
          rewrite (rt_cmp_gt_mono n d (2 ^ 54) ((2 * M - 1) * 2 ^ 1) (E - 2) Hd); [reflexivity| |exact G]. rewrite EM. cbn. lia.
        - rewrite HMe, Ei. rewrite (rt_cmp_shift n d (2 * M + 1) (E - 1) 1) by lia. replace (E - 1 - 1) with (E - 2) by lia.
          replace ((2 * M + 1) * 2 ^ 1) with rt_HI by (unfold rt_HI; change (2 ^ 1) with 2; lia). rewrite Ei in Hhi. exact Hhi. }
      rewrite HK. unfold M. rewrite Es52, Eq1. change (1 * 2 ^ 52) with (Zpos (pw2 52 xH)). cbv beta iota.
      assert (L : Z.log2 (Zpos (pw2 52 xH)) = 52) by reflexivity. rewrite L.
      replace (1024 <=? 52 + E) with false by (unfold E; lia).
      rewrite (strip2_pow xH 52 E Logic.I). replace (E + Z.of_nat 52) with e by (unfold E; lia). reflexivity. }
    + (* v = 2^52 2^E exactly *)
      assert (Hex := rt_exponent n d E Hn Hd ltac:(lia) ltac:(congruence) Hlt). cbv zeta in Hex. rewrite Hex.
      assert (HK : round_div_pow2 n d E = M).
      { apply rt_round_div; [lia|lia| |].
        - rewrite HMe, Ei. rewrite (rt_cmp_shift n d (2 * M - 1) (E - 1) 1) by lia. replace (E - 1 - 1) with (E - 2) by lia.
          assert (G : rt_cmp n d (2 ^ 54) (E - 2) <> Lt).
          { rewrite (rt_cmp_shift n d (2 ^ 52) E 2) in C52 by lia. change (2 ^ 52 * 2 ^ 2) with (2 ^ 54) in C52. congruence. }
          assert (G2 : rt_cmp n d ((2 * M - 1) * 2 ^ 1) (E - 2) <> Lt).
          { apply (rt_cmp_ge_mono n d (2 ^ 54)); [exact Hd| |exact G]. rewrite EM. cbn. lia. }
          destruct (rt_cmp n d ((2 * M - 1) * 2 ^ 1) (E - 2)); [reflexivity|congruence|reflexivity].
        - rewrite HMe, Ei. rewrite (rt_cmp_shift n d (2 * M + 1) (E - 1) 1) by lia. replace (E - 1 - 1) with (E - 2) by lia.
          replace ((2 * M + 1) * 2 ^ 1) with rt_HI by (unfold rt_HI; change (2 ^ 1) with 2; lia). rewrite Ei in Hhi. exact Hhi. }
      rewrite HK. unfold M. rewrite Es52, Eq1. change (1 * 2 ^ 52) with (Zpos (pw2 52 xH)). cbv beta iota.
      assert (L : Z.log2 (Zpos (pw2 52 xH)) = 52) by reflexivity. rewrite L.
      replace (1024 <=? 52 + E) with false by (unfold E; lia).
      rewrite (strip2_pow xH 52 E Logic.I). replace (E + Z.of_nat 52) with e by (unfold E; lia). reflexivity.
    + (* v < 2^52 2^E: the binade below, where the quotient rounds up to 2^53 *)
      assert (Hlo' : rt_cmp n d (2 ^ 52) (E - 1) <> Lt).
      { rewrite (rt_cmp_shift n d (2 ^ 52) (E - 1) 1) by lia. replace (E - 1 - 1) with (E - 2) by lia.
        apply (rt_cmp_ge_mono n d (2 ^ 54 - 1)); [exact Hd|cbn; lia|].
        destruct (rt_cmp n d (2 ^ 54 - 1) (E - 2)); cbn in Hlo; congruence. }
      assert (Hhi' : rt_cmp n d (2 ^ 53) (E - 1) = Lt).
      { rewrite (rt_cmp_shift n d (2 ^ 52) E 1) in C52 by lia. exact C52. }
      assert (Hex := rt_exponent n d (E - 1) Hn Hd ltac:(lia) Hlo' Hhi'). cbv zeta in Hex. rewrite Hex.
      assert (HK : round_div_pow2 n d (E - 1) = 2 ^ 53).
      { apply rt_round_div; [lia|lia| |].
        - change (Z.even (2 ^ 53)) with true. replace (E - 1 - 1) with (E - 2) by lia. exact Hlo.
        - change (Z.even (2 ^ 53)) with true. replace (E - 1 - 1) with (E - 2) by lia.
          rewrite (rt_cmp_shift n d (2 ^ 53) (E - 1) 1) in Hhi' by lia. replace (E - 1 - 1) with (E - 2) in Hhi' by lia.
          rewrite (rt_cmp_lt_mono n d (2 ^ 53 * 2 ^ 1) (2 * 2 ^ 53 + 1) (E - 2) Hd); [reflexivity|cbn; lia|exact Hhi']. }
      rewrite HK, Eq1. change (2 ^ 53) with (Zpos (pw2 53 xH)). cbv beta iota.
      assert (L : Z.log2 (Zpos (pw2 53 xH)) = 53) by reflexivity. rewrite L.
      replace (1024 <=? 53 + (E - 1)) with false by (unfold E; lia).
      rewrite (strip2_pow xH 53 (E - 1) Logic.I). replace (E - 1 + Z.of_nat 53) with e by (unfold E; lia). reflexivity.
  - (* general case: 2^52 < M, so the interval stays inside x's binade *)
    assert (ELO : rt_LO = 4 * M - 2).
    { unfold rt_LO. destruct (Z.eqb_spec (Zpos q) 1) as [E1|E1]; [|reflexivity]. exfalso. apply NM. unfold M, shift. rewrite E1. reflexivity. }
    rewrite ELO in Hlo.
    assert (Hge : rt_cmp n d (2 ^ 52) E <> Lt).
    { rewrite (rt_cmp_shift n d (2 ^ 52) E 2) by lia.
      apply (rt_cmp_ge_mono n d (4 * M - 2)); [exact Hd|change (2 ^ 52 * 2 ^ 2) with (4 * 2 ^ 52); lia|].
      destruct (rt_cmp n d (4 * M - 2) (E - 2)); cbn in Hlo; congruence. }
    assert (Hex := rt_exponent n d E Hn Hd ltac:(lia) Hge Hlt). cbv zeta in Hex. rewrite Hex.
    assert (HK : round_div_pow2 n d E = M).
    { apply rt_round_div; [lia|lia| |]; rewrite HMe.
      - rewrite (rt_cmp_shift n d (2 * M - 1) (E - 1) 1) by lia. replace (E - 1 - 1) with (E - 2) by lia.
        replace ((2 * M - 1) * 2 ^ 1) with (4 * M - 2) by (change (2 ^ 1) with 2; lia). exact Hlo.
      - rewrite (rt_cmp_shift n d (2 * M + 1) (E - 1) 1) by lia. replace (E - 1 - 1) with (E - 2) by lia.
        replace ((2 * M + 1) * 2 ^ 1) with rt_HI by (unfold rt_HI; change (2 ^ 1) with 2; lia). exact Hhi. }
    rewrite HK. set (t := Z.to_nat shift).
    assert (Ev : M = Zpos (pw2 t q)).
    { rewrite iter_xO_val. unfold t. rewrite Z2Nat.id by lia. reflexivity. }
    rewrite Ev.
    assert (Elog : Z.log2 (Zpos (pw2 t q)) = Z.of_nat t + Z.log2 (Zpos q)).
    { rewrite iter_xO_val. apply Z.log2_mul_pow2; lia. }
    rewrite Elog. replace (1024 <=? Z.of_nat t + Z.log2 (Zpos q) + E) with false by (unfold t, E, shift; lia).
    rewrite (strip2_pow q t E Hodd). replace (E + Z.of_nat t) with e by (unfold t, E; lia). reflexivity.
Qed.
End Interval.
