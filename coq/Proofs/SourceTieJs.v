(* Source tie, family 76-gotrans-soyjs (soyjs/formatters.go): ES6Identifier and the strings
   the ES5 / ES6 formatters return, as Model/JsGen.v uses them (through tablegen's formatter
   tables), against the methods as gotrans translates them from today's source.  (Model/Compile.v's
   import lines are in SourceTieJsImports.v.) *)
From Coq Require Import ZArith NArith Bool Lia ZifyBool ZifyN List.
From Soy Require Import Model.Bytes Generated.Tables Model.JsGen Proofs.SourceTieBase.
Import ListNotations.
Open Scope N_scope.

(* ES6Identifier as Model/JsGen.v has it *)
Theorem es6_ident_matches_source (s : bstr) : es6_ident s = src_soyjs_ES6Identifier s.
Proof.
  unfold src_soyjs_ES6Identifier, go_replace_all. rewrite go_replace_byte by lia.
  symmetry. induction s as [|c r IH]; cbn [go_replace_char es6_ident]; [reflexivity|]. rewrite IH. destruct (c =? 46); reflexivity.
Qed.

(* the formatter strings of Model/JsGen.v: fmt_bytes over tablegen's piece lists *)
Ltac fmt_tie :=
  intros; cbv [fmt_template_name fmt_template_text fmt_call_name fmt_call_text fmt_directive fmt_function
               js_es5_template_name js_es5_template_text js_es5_call_name js_es5_call_text js_es5_directive js_es5_function
               js_es6_template_name js_es6_template_text js_es6_call_name js_es6_call_text js_es6_directive js_es6_function
               src_soyjs_ES5Formatter_Template src_soyjs_ES5Formatter_Call src_soyjs_ES5Formatter_Directive
               src_soyjs_ES5Formatter_Function src_soyjs_ES6Formatter_Template src_soyjs_ES6Formatter_Call
               src_soyjs_ES6Formatter_Directive src_soyjs_ES6Formatter_Function fst snd];
  autounfold with src_helpers; cbn [fmt_bytes]; rewrite ?es6_ident_matches_source; rewrite <- ?app_assoc, ?app_nil_r; reflexivity.

Theorem es5_template_matches_source (name : bstr) :
  (fmt_bytes (fmt_template_name ES5) name, fmt_bytes (fmt_template_text ES5) name) = src_soyjs_ES5Formatter_Template name.
Proof. fmt_tie. Qed.
Theorem es5_call_matches_source (name : bstr) :
  (fmt_bytes (fmt_call_name ES5) name, fmt_bytes (fmt_call_text ES5) name) = src_soyjs_ES5Formatter_Call name.
Proof. fmt_tie. Qed.
Theorem es5_directive_matches_source (name : bstr) : fmt_bytes (fmt_directive ES5) name = src_soyjs_ES5Formatter_Directive.
Proof. fmt_tie. Qed.
Theorem es5_function_matches_source (name : bstr) : fmt_bytes (fmt_function ES5) name = src_soyjs_ES5Formatter_Function.
Proof. fmt_tie. Qed.
Theorem es6_template_matches_source (name : bstr) :
  (fmt_bytes (fmt_template_name ES6) name, fmt_bytes (fmt_template_text ES6) name) = src_soyjs_ES6Formatter_Template name.
Proof. fmt_tie. Qed.
Theorem es6_call_matches_source (name : bstr) :
  (fmt_bytes (fmt_call_name ES6) name, fmt_bytes (fmt_call_text ES6) name) = src_soyjs_ES6Formatter_Call name.
Proof. fmt_tie. Qed.
Theorem es6_directive_matches_source (name : bstr) : fmt_bytes (fmt_directive ES6) name = src_soyjs_ES6Formatter_Directive name.
Proof. fmt_tie. Qed.
Theorem es6_function_matches_source (name : bstr) : fmt_bytes (fmt_function ES6) name = src_soyjs_ES6Formatter_Function name.
Proof. fmt_tie. Qed.
