(* Source tie, family 76-gotrans-soyjs (soyjs/formatters.go): ES6Identifier and the strings
   the ES5 / ES6 formatters return, as Model/JsGen.v (through tablegen's formatter tables)
   and Model/Compile.v (the ES6 import block) use them, against the methods as gotrans
   translates them from today's source. *)
From Coq Require Import ZArith NArith Bool Lia ZifyBool ZifyN List.
From Soy Require Import Model.Bytes Generated.Tables Model.JsGen Model.Compile Proofs.SourceTieBase.
Import ListNotations.
Open Scope N_scope.

(* strings.Replace(s, ".", "__", -1) with a one-byte pattern *)
Lemma go_replace_byte (c : N) (new s : bstr) (n : nat) :
  (length s <= n)%nat -> go_replace_from n [c] new s = replace_byte c new s.
Proof.
  revert s; induction n as [|n IH]; intros [|x r] H; cbn [length] in H; try lia; try reflexivity.
  cbn [go_replace_from replace_byte is_prefix length drop].
  rewrite andb_true_r, (N.eqb_sym c x). rewrite !IH by (cbn [length]; lia).
  destruct (x =? c); reflexivity.
Qed.

Lemma replace_byte_es6_ident (s : bstr) : replace_byte 46 [95; 95] s = es6_ident s.
Proof. induction s as [|c r IH]; cbn [replace_byte es6_ident]; [reflexivity|]. rewrite IH. destruct (c =? 46); reflexivity. Qed.

(* ES6Identifier: Model/Compile.v's version (pattern and replacement from tablegen's c13 constants) ... *)
Theorem es6_identifier_matches_source (s : bstr) : es6_identifier s = src_soyjs_ES6Identifier s.
Proof.
  unfold es6_identifier, src_soyjs_ES6Identifier, go_replace_all. symmetry. apply go_replace_byte. lia.
Qed.

(* ... and Model/JsGen.v's *)
Theorem es6_ident_matches_source (s : bstr) : es6_ident s = src_soyjs_ES6Identifier s.
Proof. rewrite <- es6_identifier_matches_source. symmetry. apply replace_byte_es6_ident. Qed.

(* the formatter strings of Model/JsGen.v: fmt_bytes over tablegen's piece lists *)
Ltac fmt_tie :=
  intros; cbv [fmt_template_name fmt_template_text fmt_call_name fmt_call_text fmt_directive fmt_function
               js_es5_template_name js_es5_template_text js_es5_call_name js_es5_call_text js_es5_directive js_es5_function
               js_es6_template_name js_es6_template_text js_es6_call_name js_es6_call_text js_es6_directive js_es6_function
               src_soyjs_ES5Formatter_Template src_soyjs_ES5Formatter_Call src_soyjs_ES5Formatter_Directive
               src_soyjs_ES5Formatter_Function src_soyjs_ES6Formatter_Template src_soyjs_ES6Formatter_Call
               src_soyjs_ES6Formatter_Directive src_soyjs_ES6Formatter_Function fst snd];
  cbn [fmt_bytes]; rewrite ?es6_ident_matches_source; rewrite <- ?app_assoc, ?app_nil_r; reflexivity.

Theorem es5_template_matches_source (name : bstr) :
  (fmt_bytes (fmt_template_name ES5) name, fmt_bytes (fmt_template_text ES5) name) = src_soyjs_ES5Formatter_Template name.
Proof. fmt_tie. Qed.
Theorem es5_call_matches_source (name : bstr) :
  (fmt_bytes (fmt_call_name ES5) name, fmt_bytes (fmt_call_text ES5) name) = src_soyjs_ES5Formatter_Call name.
Proof. fmt_tie. Qed.
Theorem es5_directive_matches_source (name : bstr) : fmt_bytes (fmt_directive ES5) name = src_soyjs_ES5Formatter_Directive.
Proof. fmt_tie. Qed.
Theorem es5_function_matches_source (name : bstr) : fmt_bytes (fmt_function ES5) name = src_soyjs_ES5Formatter_Function.
Proof. fmt_tie. Qed.
Theorem es6_template_matches_source (name : bstr) :
  (fmt_bytes (fmt_template_name ES6) name, fmt_bytes (fmt_template_text ES6) name) = src_soyjs_ES6Formatter_Template name.
Proof. fmt_tie. Qed.
Theorem es6_call_matches_source (name : bstr) :
  (fmt_bytes (fmt_call_name ES6) name, fmt_bytes (fmt_call_text ES6) name) = src_soyjs_ES6Formatter_Call name.
Proof. fmt_tie. Qed.
Theorem es6_directive_matches_source (name : bstr) : fmt_bytes (fmt_directive ES6) name = src_soyjs_ES6Formatter_Directive name.
Proof. fmt_tie. Qed.
Theorem es6_function_matches_source (name : bstr) : fmt_bytes (fmt_function ES6) name = src_soyjs_ES6Formatter_Function name.
Proof. fmt_tie. Qed.

(* the import line of Model/Compile.v's ES6 import block *)
Theorem es6_import_matches_source (name : bstr) :
  es6_import name = snd (src_soyjs_ES6Formatter_Call name) /\
  es6_import name = src_soyjs_ES6Formatter_Directive name /\
  es6_import name = src_soyjs_ES6Formatter_Function name.
Proof.
  unfold es6_import, src_soyjs_ES6Formatter_Call, src_soyjs_ES6Formatter_Directive, src_soyjs_ES6Formatter_Function.
  cbn [snd]. rewrite es6_identifier_matches_source.
  cbv [c13_es6_import_a c13_es6_import_b c13_es6_import_c].
  repeat split; rewrite <- ?app_assoc; reflexivity.
Qed.
