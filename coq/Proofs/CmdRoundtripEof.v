(* C17 at command level, the list that ends at EOF: parse.SoyFile calls itemList with the until set {EOF}, and the
   list then ends AT the item EOF, not at "{" followed by an until item (Proofs/CmdRoundtrip.v: Loop_halt).
   [LoopE] / [BodyE] are Loop / Body for that ending; the text and tag rules are the same runs, the chain over the
   commands of a body reuses the per-command statement CmdOK of the main induction (body_cmd_ok).
   [parse_body_roundtrip_eof]: the items of a well-formed body followed by an item of type EOF are read, by
   itemList with until = {EOF} from any state outside a {msg}, as that body (the list's position is the position
   of its first item). *)
From Soy Require Import Model.Bytes Model.Outcome Model.Num Model.Ast Model.Token Model.RawText Model.ExprParser Model.Parser Generated.Tables
  Model.AstPrint Model.AstPrintCmd Spec.ExprSyntax Spec.CmdSyntax Proofs.ExprParserRules Proofs.CmdRoundtripBase Proofs.CmdRoundtripRules
  Proofs.CmdRoundtripMsg Proofs.CmdRoundtrip.
From Coq Require Import Lia.
Open Scope N_scope.

Section Eof.
Variable ns : bstr.
Variable al : list (bstr * bstr).
Variable inlen : N.
Variable lexq : bstr -> list tok.
Variable unq : bstr -> option bstr.
Variable efuel : list tok -> nat.
Hypothesis efuel_ok : forall ts e rest, Parses 0 ts e rest -> exists p', parse_expr (efuel ts) 0 (pst_init ts) = POk e p'.
Hypothesis unq_quote : forall s q, go_quote s = Some q -> unq q = Some s.

Notation PE g := (lift_expr inlen parse_expr g).
Notation IL g := (item_list inlen lexq unq parse_expr efuel g).
Notation LOOP g k := (item_list_loop inlen lexq unq parse_expr efuel (PE g) (IL g) g k).
Notation Tag := (Tag ns al inlen lexq unq efuel).
Notation nameok := (nameok ns al).
Notation wf_body := (wf_body lexq nameok).
Notation wf_cmd := (wf_cmd lexq nameok).

(* returns a for all large budgets (the final state is not described: the list ends the file) *)
Definition cokE {A} (r : nat -> nat -> cres A) (s : cst) (a : A) : Prop :=
  exists p' sc' f0, forall f lf, (f0 <= f)%nat -> (f0 <= lf)%nat -> r f lf = COk a (set_ps s p' sc').
Definition CRunE {A} (m : bool) (r : nat -> nat -> cst -> cres A) (ts : list tok) (a : A) : Prop :=
  forall s p sc, stream p = ts -> inv p -> base_ok ns al m s -> cokE (fun f lf => r f lf (set_ps s p sc)) s a.
Definition LoopE (m : bool) (until : list N) (pos : option N) (acc : list node) (ts : list tok) (n : node) : Prop :=
  CRunE m (fun g k s => LOOP g k until pos acc s) ts n.
Definition BodyE (m : bool) (until : list N) (ts : list tok) (n : node) : Prop :=
  CRunE m (fun g _ s => IL g until s) ts n.

Lemma BodyE_of_LoopE m until ts n : LoopE m until None [] ts n -> BodyE m until ts n.
Proof.
  intros H s p0 sc0 Hs Hi Hm. destruct (H s p0 sc0 Hs Hi Hm) as (p' & sc' & f0 & HF).
  exists p', sc', (S f0). intros f lf Hf _. destruct f as [|f]; [lia|].
  rewrite IL_S. apply HF; lia.
Qed.

(* itemList stops at an until item *)
Lemma LoopE_halt m until pos acc e rest :
  t_typ e <> pit_Comment -> one_of (t_typ e) until = true ->
  LoopE m until pos acc (e :: rest) (NList (pos_or pos e) acc).
Proof.
  intros Hc Hu s p0 sc0 Hs Hi Hm.
  cnext0 s Hs Hi p1 Hn1 Hs1 Hi1 Hsb1 Hib1.
  exists p1, sc0, 1%nat. intros g k Hg Hk.
  destruct g as [|g]; [lia|]. destruct k as [|k]; [lia|].
  rewrite loop_S, Hn1. cbn [cbind]. unfold text_or_tag. cbn [skip_comments].
  rewrite (tis_ne e pit_Comment Hc). cbn [cbind]. rewrite Hu. cbn [snd]. reflexivity.
Qed.

Lemma LoopE_text m until pos acc t nx l tv n :
  t_typ t = pit_Text -> one_of pit_Text until = false ->
  t_typ nx <> pit_Text -> t_typ nx <> pit_Comment ->
  rawtext_run (t_val t) false false = Ok tv -> tv <> [] ->
  LoopE m until (Some (pos_or pos t)) (acc ++ [NRawText (t_pos t) tv]) (nx :: l) n ->
  LoopE m until pos acc (t :: nx :: l) n.
Proof.
  intros Ht Hu Hx1 Hx2 Hr Hne HL s p0 sc0 Hs Hi Hm.
  cnext0 s Hs Hi p1 Hn1 Hs1 Hi1 Hsb1 Hib1.
  cnextp s p1 Hs1 Hi1 p2 Hn2 Hs2 Hi2 Hsb2 Hib2.
  cnextp s (p_backup p2) Hsb2 Hib2 p3 Hn3 Hs3 Hi3 Hsb3 Hib3.
  destruct (HL s (p_backup p3) sc0 Hsb3 Hib3 Hm) as (p' & sc' & f0 & HF).
  exists p', sc', (S f0). intros g k Hg Hk.
  destruct g as [|g]; [lia|]. destruct k as [|k]; [lia|].
  rewrite loop_S, Hn1. cbn [cbind]. unfold text_or_tag. cbn [skip_comments].
  rewrite (tis_ne t pit_Comment) by (rewrite Ht; vm_compute; discriminate). cbn [cbind].
  rewrite Ht, Hu. rewrite Hn2. cbn [cbind].
  rewrite (tis_ne t pit_LeftDelim) by (rewrite Ht; vm_compute; discriminate). cbn [andb].
  rewrite (tis_eq t pit_Text Ht).
  cbk.
  cbn [text_run]. rewrite Hn3. cbn [cbind]. rewrite (tis_ne nx pit_Text Hx1). cbn [cbind fst snd].
  rewrite (tis_ne nx pit_Comment Hx2). rewrite Hr.
  destruct tv as [|c tv]; [contradiction Hne; reflexivity|]. cbn [cbind snd fst].
  cbk.
  apply HF; lia.
Qed.

Lemma LoopE_tag m until pos acc t k l c l2 n :
  t_typ t = pit_LeftDelim -> one_of pit_LeftDelim until = false -> one_of (t_typ k) until = false ->
  Tag m (k :: l) c l2 ->
  LoopE m until (Some (pos_or pos t)) (acc ++ [c]) l2 n ->
  LoopE m until pos acc (t :: k :: l) n.
Proof.
  intros Ht Hu1 Hu2 HT HL s p0 sc0 Hs Hi Hm.
  cnext0 s Hs Hi p1 Hn1 Hs1 Hi1 Hsb1 Hib1.
  cnextp s p1 Hs1 Hi1 p2 Hn2 Hs2 Hi2 Hsb2 Hib2.
  destruct (HT s (p_backup p2) sc0 Hsb2 Hib2 Hm) as (p3 & sc3 & Hs3 & Hi3 & f1 & HF1).
  destruct (HL s p3 sc3 Hs3 Hi3 Hm) as (p' & sc' & f0 & HF).
  exists p', sc', (S (max f0 f1)). intros g k' Hg Hk.
  destruct g as [|g]; [lia|]. destruct k' as [|k']; [lia|].
  rewrite loop_S, Hn1. cbn [cbind]. unfold text_or_tag. cbn [skip_comments]. unfold tis at 1 2. rewrite Ht. dec_closed.
  cbn [cbind]. rewrite ?Ht, Hu1. rewrite Hn2. cbn [cbind]. rewrite Hu2. unfold tis. rewrite ?Ht. dec_closed.
  cbk.
  rewrite (HF1 (S g) (S g)) by lia. cbn [cbind fst snd].
  apply HF; lia.
Qed.

(* the commands of a body, then EOF *)
Lemma loopE_chain m e rest : t_typ e = pit_EOF ->
  forall cs acc pos, allP (wf_cmd m) cs -> no_adjacent_text cs ->
  exists pos', LoopE m u_eof pos acc (concat (map cmd_toks cs) ++ e :: rest) (NList pos' (acc ++ cs)).
Proof.
  intros He.
  assert (Hg : good_until u_eof = true) by reflexivity.
  assert (HC : forall c, CmdOK ns al inlen lexq unq efuel m c).
  { intros c. exact (proj2 (body_cmd_ok ns al inlen lexq unq efuel efuel_ok unq_quote (csize c)) m c (le_n _)). }
  induction cs as [|c r IH]; intros acc pos Hw Hadj.
  - cbn [map concat app]. rewrite app_nil_r. eexists. apply LoopE_halt; [rewrite He; vm_compute; discriminate|rewrite He; reflexivity].
  - destruct Hw as [Hwc Hw]. destruct Hadj as [Hadj1 Hadj].
    cbn [map concat]. rewrite <- app_assoc.
    destruct (is_rawtext c) eqn:Ert.
    + destruct c; try discriminate Ert. cbn [cmd_toks app]. destruct Hwc as [Hne Hrun].
      assert (Hnx : exists nx l', concat (map cmd_toks r) ++ e :: rest = nx :: l' /\ t_typ nx <> pit_Text /\ t_typ nx <> pit_Comment).
      { destruct r as [|c' r'].
        - cbn [map concat app]. do 2 eexists. split; [reflexivity|]. rewrite He. split; vm_compute; discriminate.
        - destruct Hw as [Hwc' _]. cbn [is_rawtext andb] in Hadj1.
          destruct (HC c' Hwc' Hadj1 (concat (map cmd_toks r') ++ e :: rest)) as (k' & l' & E' & _).
          cbn [map concat]. rewrite <- app_assoc, E'. do 2 eexists. split; [reflexivity|]. split; vm_compute; discriminate. }
      destruct Hnx as (nx & l' & Enx & Hnx1 & Hnx2).
      destruct (IH (acc ++ [NRawText p text]) (Some (pos_or pos (tk pit_Text p text))) Hw Hadj) as (pos' & HL).
      rewrite Enx in *. rewrite <- app_assoc in HL. cbn [app] in HL. exists pos'.
      eapply LoopE_text with (tv := text); [reflexivity | reflexivity | exact Hnx1 | exact Hnx2 | exact Hrun | exact Hne | exact HL].
    + destruct (HC c Hwc Ert (concat (map cmd_toks r) ++ e :: rest)) as (k & l & E & Hst & HT).
      rewrite E.
      destruct (IH (acc ++ [c]) (Some (pos_or pos T_ldelim)) Hw Hadj) as (pos' & HL). rewrite <- app_assoc in HL. cbn [app] in HL.
      exists pos'.
      eapply LoopE_tag; [reflexivity | reflexivity | apply (good_until_start _ _ Hg Hst) | exact HT | exact HL].
Qed.

(* the items of a well-formed body followed by EOF are read, with until = {EOF}, as that body *)
Theorem parse_body_roundtrip_eof m q nodes e rest :
  wf_body m (NList q nodes) -> t_typ e = pit_EOF ->
  exists pos', BodyE m u_eof (body_toks (NList q nodes) ++ e :: rest) (NList pos' nodes).
Proof.
  intros (Hp & Hw & Hadj) He.
  destruct (loopE_chain m e rest He nodes [] None Hw Hadj) as (pos' & HL). cbn [app] in HL.
  exists pos'. cbn [body_toks]. apply BodyE_of_LoopE. exact HL.
Qed.

End Eof.
