(* The expression parser (Model/ExprParser.v) terminates with a tree or an error on every item
   stream of well-formed items, within a budget of mu + 1, never indexes token[2], and conserves
   [kap] (every item it consumes has a non-zero type). *)
From Soy Require Import Model.Bytes Model.Ast Model.Token Model.NumLit Model.Quote Model.ExprParser.
From Soy Require Import Generated.Tables Proofs.ParserMeasure.
From Coq Require Import ZifyBool ZifyNat ZifyN Lia.
Open Scope N_scope.

Lemma is_binary_op_nz x : is_binary_op x = true -> x <> 0.
Proof. intros H E. rewrite E in H. vm_compute in H. discriminate. Qed.
Lemma is_unary_op_nz x : is_unary_op x = true -> x <> 0.
Proof. intros H E. rewrite E in H. vm_compute in H. discriminate. Qed.
Lemma is_value_nz x : is_value x = true -> x <> 0.
Proof. intros H E. rewrite E in H. vm_compute in H. discriminate. Qed.

Lemma slice_from_some k s : (k <= length s)%nat -> exists v, slice_from k s = Some v.
Proof. intros H. unfold slice_from. destruct (Nat.ltb_spec (length s) k); [lia|eauto]. Qed.

Section ExprTotal.
Variable inlen : N.
Variable NT : nat.
Variable eofchk : bool.
Notation pinv := (pinv inlen NT eofchk).
Notation nrel := (nrel inlen NT eofchk).
Notation krel := (krel inlen NT eofchk).
Notation ppost := (ppost inlen NT eofchk).
Notation twf := (twf inlen).

Ltac pnext p t p1 R :=
  let E := fresh "E" in
  match goal with Hi : pinv p |- _ => pose proof (p_next_rel inlen NT eofchk p Hi) as R end;
  destruct (p_next p) as [t p1] eqn:E; cbn [fst snd] in R.
Ltac dnrel R := destruct R as [?Ri ?Rtw ?Rpk ?Rpk1 ?Rcur ?Rl ?Rnz ?Rmu ?Rz ?Rbi ?Rbm ?Rbl ?Reof ?Rrest].
Ltac tnz H Hnz := match type of H with t_typ ?t = _ =>
  assert (Hnz : t_typ t <> 0) by (rewrite H; vm_compute; intro; discriminate) end.
Ltac fin := cbn [ppost]; unfold kap in *; (split; [solve [auto]|split; [lia|cbn beta; repeat (apply conj); auto; try lia]]).

(* twf facts *)
Lemma twf_len1 t : twf t ->
  t_typ t = pk_itemDollarIdent \/ t_typ t = pk_itemDotIdent \/ t_typ t = pk_itemDotIndex -> (1 <= length (t_val t))%nat.
Proof.
  unfold ParserMeasure.twf, twfb. intros H [E|[E|E]]; rewrite E in H; vm_compute (_ =? _) in H; cbn [orb andb] in H; lia.
Qed.
Lemma twf_len2 t : twf t ->
  t_typ t = pk_itemQuestionDotIdent \/ t_typ t = pk_itemQuestionDotIndex -> (2 <= length (t_val t))%nat.
Proof.
  unfold ParserMeasure.twf, twfb. intros H [E|E]; rewrite E in H; vm_compute (_ =? _) in H; cbn [orb andb] in H; lia.
Qed.
Lemma p_expect_post b typ p :
  pinv p -> typ <> 0 -> kap p = b ->
  ppost b (fun t p' => mu p = S (mu p') /\ (p_peek p' <= 1)%nat /\ t = cur_tok p' /\ t_typ t = typ /\ twf t)
        (p_expect typ p).
Proof.
  intros Hi Hz Hb. unfold p_expect. pnext p t p1 R. dnrel R.
  destruct (N.eqb_spec (t_typ t) typ) as [Et|Et].
  - assert (t_typ t <> 0) by congruence. fin.
  - apply ppost_unexpected; auto. unfold kap in *; lia.
Qed.

Section Level.
Variable w : N -> pst -> presult node.
Variable L : nat.
Hypothesis Hw : forall prec p b, pinv p -> kap p = b -> (mu p < L)%nat ->
  ppost b (fun _ p' => (mu p' < mu p)%nat) (w prec p).

Lemma parse_ternary_ok cond p b :
  pinv p -> kap p = b -> (mu p < L)%nat ->
  ppost b (fun _ p' => (mu p' < mu p)%nat) (parse_ternary w cond p).
Proof.
  intros Hi Hb Hm. unfold parse_ternary.
  eapply ppost_bind; [apply Hw; auto|]. intros n1 p1 Hi1 Hb1 Hq1. cbn beta in Hq1.
  eapply ppost_bind; [apply p_expect_post; auto; vm_compute; intro; discriminate|].
  intros tk p2 Hi2 Hb2 (Hq2 & _). cbn beta.
  eapply ppost_bind; [apply Hw; auto; lia|]. intros n2 p3 Hi3 Hb3 Hq3. cbn beta in Hq3. fin.
Qed.

Lemma expr_loop_ok : forall lf prec n p b,
  pinv p -> kap p = b -> (mu p < L)%nat -> (mu p < lf)%nat ->
  ppost b (fun _ p' => (mu p' <= mu p)%nat) (expr_loop w lf prec n p).
Proof.
  induction lf as [|lf IH]; intros prec n p b Hi Hb Hm Hf; [lia|].
  cbn [expr_loop]. pnext p t p1 R. dnrel R.
  destruct (negb (is_binary_op (t_typ t)) || (prec_of (t_typ t) <? prec)) eqn:Ec.
  - destruct ((prec =? 0) && (t_typ t =? pk_itemTernIf)) eqn:Et.
    + assert (Ety : t_typ t = pk_itemTernIf) by lia. tnz Ety Hnz.
      eapply ppost_weaken; [apply parse_ternary_ok; auto; unfold kap in *; lia|].
      intros; cbn beta in *; lia.
    + fin.
  - assert (Hbin : is_binary_op (t_typ t) = true) by (destruct (is_binary_op (t_typ t)); cbn in Ec; auto; discriminate).
    apply is_binary_op_nz in Hbin.
    eapply ppost_bind; [apply Hw; auto; unfold kap in *; lia|]. intros n2 p2 Hi2 Hb2 Hq2. cbn beta in Hq2.
    destruct (new_binary_op t n n2).
    + eapply ppost_weaken; [apply IH; auto; lia|]. intros; cbn beta in *; lia.
    + apply ppost_errorf; auto. unfold kap in *; lia.
Qed.

Lemma data_ref_loop_ok : forall lf pos key acc p b,
  pinv p -> kap p = b -> (mu p < L)%nat -> (mu p < lf)%nat ->
  ppost b (fun _ p' => (mu p' <= mu p)%nat) (data_ref_loop w lf pos key acc p).
Proof.
  induction lf as [|lf IH]; intros pos key acc p b Hi Hb Hm Hf; [lia|].
  cbn [data_ref_loop]. pnext p t p1 R. dnrel R. cbv zeta.
  destruct ((t_typ t =? pk_itemQuestionDotIdent) || (t_typ t =? pk_itemDotIdent)) eqn:E1.
  { assert (Hnz : t_typ t <> 0) by (intro X; rewrite X in E1; vm_compute in E1; discriminate).
    assert (Hlen : ((if (t_typ t =? pk_itemQuestionDotIdent)%N then 2%nat else 1%nat) <= length (t_val t))%nat).
    { destruct (N.eqb_spec (t_typ t) pk_itemQuestionDotIdent) as [X|X].
      - apply twf_len2; auto.
      - apply twf_len1; auto. right; left. lia. }
    destruct (slice_from_some _ _ Hlen) as (v & Ev). rewrite Ev.
    eapply ppost_weaken; [apply IH; auto; unfold kap in *; lia|]. intros; cbn beta in *; lia. }
  destruct ((t_typ t =? pk_itemQuestionDotIndex) || (t_typ t =? pk_itemDotIndex)) eqn:E2.
  { assert (Hnz : t_typ t <> 0) by (intro X; rewrite X in E2; vm_compute in E2; discriminate).
    assert (Hlen : ((if (t_typ t =? pk_itemQuestionDotIndex)%N then 2%nat else 1%nat) <= length (t_val t))%nat).
    { destruct (N.eqb_spec (t_typ t) pk_itemQuestionDotIndex) as [X|X].
      - apply twf_len2; auto.
      - apply twf_len1; auto. right; right. lia. }
    destruct (slice_from_some _ _ Hlen) as (v & Ev). rewrite Ev.
    destruct (parse_int 10 v).
    - eapply ppost_weaken; [apply IH; auto; unfold kap in *; lia|]. intros; cbn beta in *; lia.
    - apply ppost_errorf; auto. unfold kap in *; lia. }
  destruct ((t_typ t =? pk_itemQuestionKey) || (t_typ t =? pk_itemLeftBracket)) eqn:E3.
  { assert (Hnz : t_typ t <> 0) by (intro X; rewrite X in E3; vm_compute in E3; discriminate).
    eapply ppost_bind; [apply Hw; auto; unfold kap in *; lia|]. intros e p2 Hi2 Hb2 Hq2. cbn beta in Hq2.
    eapply ppost_bind; [apply p_expect_post; auto; vm_compute; intro; discriminate|].
    intros tk p3 Hi3 Hb3 (Hq3 & _).
    eapply ppost_weaken; [apply IH; auto; lia|]. intros; cbn beta in *; lia. }
  fin.
Qed.

Lemma list_loop_ok : forall lf pos items p b,
  pinv p -> kap p = b -> (mu p < L)%nat -> (mu p < lf)%nat ->
  ppost b (fun _ p' => (mu p' <= mu p)%nat) (list_loop w lf pos items p).
Proof.
  induction lf as [|lf IH]; intros pos items p b Hi Hb Hm Hf; [lia|].
  cbn [list_loop].
  eapply ppost_bind; [apply Hw; auto|]. intros e p1 Hi1 Hb1 Hq1. cbn beta in Hq1. cbv zeta.
  pnext p1 nx p2 R. dnrel R.
  destruct (N.eqb_spec (t_typ nx) pk_itemRightBracket) as [Ea|Ea].
  { tnz Ea Hnz. fin. }
  destruct (N.eqb_spec (t_typ nx) pk_itemComma) as [Eb|Eb]; cbn [negb].
  - tnz Eb Hnz. eapply ppost_weaken; [apply IH; auto; unfold kap in *; lia|]. intros; cbn beta in *; lia.
  - apply ppost_unexpected; auto. unfold kap in *; lia.
Qed.

Lemma map_loop_ok : forall lf pos items key p b,
  pinv p -> kap p = b -> (mu p < L)%nat -> (mu p < lf)%nat ->
  ppost b (fun _ p' => (mu p' <= mu p)%nat) (map_loop w lf pos items key p).
Proof.
  induction lf as [|lf IH]; intros pos items key p b Hi Hb Hm Hf; [lia|].
  cbn [map_loop].
  eapply ppost_bind; [apply Hw; auto|]. intros e p1 Hi1 Hb1 Hq1. cbn beta in Hq1. cbv zeta.
  pnext p1 nx p2 R. dnrel R.
  destruct (N.eqb_spec (t_typ nx) pk_itemRightBracket) as [Ea|Ea].
  { tnz Ea Hnz. fin. }
  destruct (N.eqb_spec (t_typ nx) pk_itemComma) as [Eb|Eb]; cbn [negb].
  - tnz Eb Hnz.
    eapply ppost_bind; [apply p_expect_post; auto; [vm_compute; intro; discriminate|unfold kap in *; lia]|].
    intros kt p3 Hi3 Hb3 (Hq3 & _).
    destruct (unquote_string (t_val kt)).
    + eapply ppost_bind; [apply p_expect_post; auto; vm_compute; intro; discriminate|].
      intros ct p4 Hi4 Hb4 (Hq4 & _).
      eapply ppost_weaken; [apply IH; auto; lia|]. intros; cbn beta in *; lia.
    + apply ppost_errorf; auto. unfold kap in *; lia.
  - apply ppost_unexpected; auto. unfold kap in *; lia.
Qed.

Lemma global_loop_ok : forall lf pos name p0 nx p b,
  pinv p0 -> nrel p0 nx p -> kap p0 = b -> (mu p0 < lf)%nat ->
  ppost b (fun _ p' => (mu p' <= mu p0)%nat) (global_loop lf pos name nx p).
Proof.
  induction lf as [|lf IH]; intros pos name p0 nx p b Hi0 R Hb Hf; [lia|].
  cbn [global_loop]. pose proof R as R0. dnrel R.
  destruct (N.eqb_spec (t_typ nx) pk_itemDotIdent) as [Ea|Ea].
  - tnz Ea Hnz. pnext p nx' p1 R'.
    eapply ppost_weaken; [apply (IH pos (name ++ t_val nx) p nx' p1 b); auto; unfold kap in *; lia|]. intros; cbn beta in *; lia.
  - fin.
Qed.

Lemma func_loop_ok : forall lf pos name args p b,
  pinv p -> kap p = b -> (mu p < L)%nat -> (mu p < lf)%nat ->
  ppost b (fun _ p' => (mu p' <= mu p)%nat) (func_loop w lf pos name args p).
Proof.
  induction lf as [|lf IH]; intros pos name args p b Hi Hb Hm Hf; [lia|].
  cbn [func_loop].
  eapply ppost_bind; [apply Hw; auto|]. intros e p1 Hi1 Hb1 Hq1. cbn beta in Hq1. cbv zeta.
  pnext p1 nx p2 R. dnrel R.
  destruct (N.eqb_spec (t_typ nx) pk_itemComma) as [Ea|Ea].
  { tnz Ea Hnz. eapply ppost_weaken; [apply IH; auto; unfold kap in *; lia|]. intros; cbn beta in *; lia. }
  destruct (N.eqb_spec (t_typ nx) pk_itemRightParen) as [Eb|Eb].
  - tnz Eb Hnz. fin.
  - apply ppost_unexpected; auto. unfold kap in *; lia.
Qed.

Variable lf : nat.
Hypothesis Hlf : (L <= lf)%nat.

Lemma new_function_node_ok t p b :
  pinv p -> kap p = b -> (mu p < L)%nat ->
  ppost b (fun _ p' => (mu p' <= mu p)%nat) (new_function_node w lf t p).
Proof.
  intros Hi Hb Hm. unfold new_function_node.
  pose proof (p_peek_rel inlen NT eofchk p Hi) as K.
  destruct (p_peek_tok p) as [pk p1] eqn:Ep. cbn [fst snd] in K. destruct K as [Ki Kpk Kl Km Kn Kr].
  destruct (N.eqb_spec (t_typ pk) pk_itemRightParen) as [Ea|Ea].
  - tnz Ea Hnz. pnext p1 t2 p2 R. cbn [snd] in Kn. assert (Et2 : t2 = pk) by congruence. rewrite Et2 in R. dnrel R. fin.
  - eapply ppost_weaken; [apply func_loop_ok; auto; unfold kap in *; lia|]. intros; cbn beta in *; lia.
Qed.

Lemma parse_map_literal_ok pos first p b :
  pinv p -> kap p = b -> (mu p < L)%nat ->
  ppost b (fun _ p' => (mu p' <= mu p)%nat) (parse_map_literal w lf pos first p).
Proof.
  intros Hi Hb Hm. unfold parse_map_literal.
  destruct first; try (apply ppost_errorf; auto; unfold kap in *; lia).
  apply map_loop_ok; auto; lia.
Qed.

Lemma parse_list_or_map_ok t p b :
  pinv p -> kap p = b -> (mu p < L)%nat ->
  ppost b (fun _ p' => (mu p' <= mu p)%nat) (parse_list_or_map w lf t p).
Proof.
  intros Hi Hb Hm. unfold parse_list_or_map. pnext p nx p1 R. dnrel R.
  destruct (N.eqb_spec (t_typ nx) pk_itemColon) as [Ea|Ea].
  { tnz Ea Hnz.
    eapply ppost_bind; [apply p_expect_post; auto; [vm_compute; intro; discriminate|unfold kap in *; lia]|].
    intros tk p2 Hi2 Hb2 (Hq2 & _). fin. }
  destruct (N.eqb_spec (t_typ nx) pk_itemRightBracket) as [Eb|Eb].
  { tnz Eb Hnz. fin. }
  eapply ppost_bind; [apply Hw; auto; unfold kap in *; lia|]. intros first p2 Hi2 Hb2 Hq2. cbn beta in Hq2.
  cbv zeta. pnext p2 d p3 R'. dnrel R'.
  destruct (N.eqb_spec (t_typ d) pk_itemColon) as [Ec|Ec].
  { tnz Ec Hnz. eapply ppost_weaken; [apply parse_map_literal_ok; auto; unfold kap in *; lia|]. intros; cbn beta in *; lia. }
  destruct (N.eqb_spec (t_typ d) pk_itemComma) as [Ed|Ed].
  { tnz Ed Hnz. eapply ppost_weaken; [apply list_loop_ok; auto; unfold kap in *; lia|]. intros; cbn beta in *; lia. }
  destruct (N.eqb_spec (t_typ d) pk_itemRightBracket) as [Ee|Ee].
  { tnz Ee Hnz. fin. }
  apply ppost_unexpected; auto. unfold kap in *; lia.
Qed.

Lemma new_value_node_ok t p b :
  pinv p -> twf t -> kap p = b -> (mu p < L)%nat ->
  ppost b (fun _ p' => (mu p' <= mu p)%nat) (new_value_node w lf t p).
Proof.
  intros Hi Htw Hb Hm. unfold new_value_node. cbv zeta.
  destruct (t_typ t =? pk_itemNull); [fin|].
  destruct (t_typ t =? pk_itemBool); [fin|].
  destruct (t_typ t =? pk_itemInteger).
  { match goal with |- context [match ?r with Some _ => _ | None => _ end] => destruct r end;
      [fin|apply ppost_errorf; auto; unfold kap in *; lia]. }
  destruct (N.eqb_spec (t_typ t) pk_itemFloat) as [Ef|Ef].
  { destruct (parse_float (t_val t)); [fin|].
    destruct (parse_float_round (t_val t)); [fin|apply ppost_errorf; auto; unfold kap in *; lia|apply ppost_errorf; auto; unfold kap in *; lia]. }
  destruct (t_typ t =? pk_itemString).
  { destruct (unquote_string (t_val t)); [fin|apply ppost_errorf; auto; unfold kap in *; lia]. }
  destruct (t_typ t =? pk_itemLeftBracket); [apply parse_list_or_map_ok; auto|].
  destruct (N.eqb_spec (t_typ t) pk_itemDollarIdent) as [Ed|Ed].
  { unfold parse_data_ref.
    assert (Hlen : (1 <= length (t_val t))%nat) by (apply twf_len1; auto).
    destruct (slice_from_some _ _ Hlen) as (v & Ev). rewrite Ev.
    apply data_ref_loop_ok; auto; lia. }
  destruct (t_typ t =? pk_itemIdent).
  { pnext p nx p1 R. pose proof R as R0. dnrel R.
    destruct (N.eqb_spec (t_typ nx) pk_itemLeftParen) as [Ea|Ea]; cbn [negb].
    - tnz Ea Hnz. eapply ppost_weaken; [apply new_function_node_ok; auto; unfold kap in *; lia|]. intros; cbn beta in *; lia.
    - eapply global_loop_ok; eauto; lia. }
  apply ppost_errorf; auto. unfold kap in *; lia.
Qed.

Lemma parse_first_term_ok p b :
  pinv p -> kap p = b -> (mu p <= L)%nat ->
  ppost b (fun _ p' => (mu p' < mu p)%nat) (parse_first_term w lf p).
Proof.
  intros Hi Hb Hm. unfold parse_first_term. pnext p t p1 R. dnrel R.
  destruct (is_unary_op (t_typ t)) eqn:Eu.
  { apply is_unary_op_nz in Eu.
    eapply ppost_bind; [apply Hw; auto; unfold kap in *; lia|]. intros n p2 Hi2 Hb2 Hq2. cbn beta in Hq2.
    destruct (new_unary_op t n); [fin|apply ppost_errorf; auto; unfold kap in *; lia]. }
  destruct (N.eqb_spec (t_typ t) pk_itemLeftParen) as [Ea|Ea].
  { tnz Ea Hnz.
    eapply ppost_bind; [apply Hw; auto; unfold kap in *; lia|]. intros n p2 Hi2 Hb2 Hq2. cbn beta in Hq2.
    eapply ppost_bind; [apply p_expect_post; auto; vm_compute; intro; discriminate|].
    intros tk p3 Hi3 Hb3 (Hq3 & _). fin. }
  destruct (is_value (t_typ t)) eqn:Ev.
  { apply is_value_nz in Ev.
    eapply ppost_weaken; [apply new_value_node_ok; auto; unfold kap in *; lia|]. intros; cbn beta in *; lia. }
  apply ppost_unexpected; auto. unfold kap in *; lia.
Qed.

Lemma parse_expr_body_ok prec p b :
  pinv p -> kap p = b -> (mu p <= L)%nat ->
  ppost b (fun _ p' => (mu p' < mu p)%nat) (parse_expr_body w lf prec p).
Proof.
  intros Hi Hb Hm. unfold parse_expr_body.
  eapply ppost_bind; [apply parse_first_term_ok; auto|]. intros n p1 Hi1 Hb1 Hq1. cbn beta in Hq1.
  eapply ppost_weaken; [apply expr_loop_ok; auto; lia|]. intros; cbn beta in *; lia.
Qed.
End Level.

(* fuel mu + 1 suffices *)
Theorem parse_expr_ok : forall f prec p b,
  pinv p -> kap p = b -> (mu p < f)%nat ->
  ppost b (fun _ p' => (mu p' < mu p)%nat) (parse_expr f prec p).
Proof.
  induction f as [|f IH]; intros prec p b Hi Hb Hm; [lia|].
  cbn [parse_expr]. apply parse_expr_body_ok with (L := f); auto; lia.
Qed.

End ExprTotal.
