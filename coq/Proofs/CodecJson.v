(* C16, json of every value: the text json.Marshal writes for a Soy value
   (Model/JsonEncode.v) is read by the RFC 8259 reader (Spec/Json.v) as the
   JSON value the Soy value denotes (jv_of_value), for values of any nesting
   depth and any size. *)
From Coq Require Import Lia ZifyN ZifyNat ZifyBool.
From Soy Require Import Model.Bytes Generated.Tables Model.Utf8 Model.Num Model.Outcome Model.Values Model.Escape Model.Directives
  Model.JsEscape Model.JsonEncode Spec.Html Spec.Codec Spec.Json
  Proofs.Utf8Proofs Proofs.MsgIdProofs Proofs.ValueProofs Proofs.CodecProofs Proofs.CodecJsonNum.
Open Scope N_scope.

(* ================= strings inside a text ================= *)

Definition raw_byte (c : N) : Prop := c <> 34 /\ c <> 92.

Definition consp (pre : bstr) (p : bstr * bstr) : bstr * bstr := (pre ++ fst p, snd p).

Lemma str_body_raw pre : forall Y, Forall raw_byte pre ->
  str_body false (pre ++ Y) = option_map (consp pre) (str_body false Y).
Proof.
  induction pre as [|c pre IH]; intros Y H.
  - cbn [app]. destruct (str_body false Y) as [[x y]|]; reflexivity.
  - inversion H as [|? ? [H1 H2] Hr]; subst. cbn [app str_body].
    destruct (N.eqb_spec c 34); [congruence|]. destruct (N.eqb_spec c 92); [congruence|].
    rewrite IH by exact Hr. destruct (str_body false Y) as [[x y]|]; reflexivity.
Qed.

Lemma str_body_esc x pre Y : Forall raw_byte pre ->
  str_body false (92 :: x :: pre ++ Y) = option_map (consp (92 :: x :: pre)) (str_body false Y).
Proof.
  intros H. cbn [str_body]. change (92 =? 34) with false. change (92 =? 92) with true. cbv iota.
  rewrite str_body_raw by exact H. destruct (str_body false Y) as [[a c]|]; reflexivity.
Qed.

Lemma hexdigit_lc_raw n : n < 16 -> raw_byte (hexdigit_lc n).
Proof. intros H. unfold raw_byte, hexdigit_lc. brk; lia. Qed.

Lemma json_ascii_escape_shape c e : c < 128 -> json_ascii_escape c = Some e ->
  exists x pre, e = 92 :: x :: pre /\ Forall raw_byte pre.
Proof.
  intros Hc. unfold json_ascii_escape.
  destruct ((c =? 92) || (c =? 34)); [intros H; injection H as <-; exists c, []; split; [reflexivity|constructor]|].
  repeat match goal with |- (if N.eqb c ?k then _ else _) = _ -> _ =>
    destruct (N.eqb c k); [intros H; injection H as <-; eexists; exists []; split; [reflexivity|constructor]|] end.
  destruct ((c <? 32) || (c =? 60) || (c =? 62) || (c =? 38)); [|discriminate].
  intros H; injection H as <-. eexists; eexists; split; [reflexivity|].
  repeat constructor; try lia; apply hexdigit_lc_raw; lia.
Qed.

Lemma json_ascii_escape_none c : json_ascii_escape c = None -> raw_byte c.
Proof.
  unfold json_ascii_escape, raw_byte.
  destruct (N.eqb_spec c 92); [discriminate|]. destruct (N.eqb_spec c 34); [discriminate|]. intros _. split; assumption.
Qed.

Lemma str_body_json s : forall k rest,
  str_body false (json_string_aux k s ++ 34 :: rest) = Some (json_string_aux k s, rest).
Proof.
  induction s as [|c r IH]; intros k rest.
  - destruct k; cbn [json_string_aux app str_body]; reflexivity.
  - cbn [json_string_aux]. destruct k as [|k]; [|apply IH].
    assert (forall x pre k', Forall raw_byte pre ->
              str_body false ((92 :: x :: pre ++ json_string_aux k' r) ++ 34 :: rest) = Some (92 :: x :: pre ++ json_string_aux k' r, rest)) as Hesc.
    { intros x pre k' Hp. cbn [app]. rewrite <- app_assoc. rewrite str_body_esc by exact Hp. rewrite IH. reflexivity. }
    assert (forall pre k', Forall raw_byte pre ->
              str_body false ((pre ++ json_string_aux k' r) ++ 34 :: rest) = Some (pre ++ json_string_aux k' r, rest)) as Hraw.
    { intros pre k' Hp. rewrite <- app_assoc. rewrite str_body_raw by exact Hp. rewrite IH. reflexivity. }
    destruct (c <? 128) eqn:E128.
    + destruct (json_ascii_escape c) as [e|] eqn:Ee.
      * destruct (json_ascii_escape_shape c e ltac:(lia) Ee) as (x & pre & -> & Hp). apply (Hesc x pre 0%nat Hp).
      * apply (Hraw [c] 0%nat). constructor; [apply json_ascii_escape_none, Ee|constructor].
    + destruct (decode_rune (c :: r)) as [ru w] eqn:Hd.
      destruct ((ru =? rune_error) && Nat.eqb w 1).
      { unfold json_fffd. apply (Hesc 117 [102; 102; 102; 100] 0%nat). repeat constructor; lia. }
      destruct ((ru =? 8232) || (ru =? 8233)).
      { apply (Hesc 117 [50; 48; 50; hexdigit_lc (ru mod 16)] (Nat.pred w)). repeat constructor; try lia; apply hexdigit_lc_raw; lia. }
      apply Hraw. eapply Forall_impl; [|eapply decode_rune_take_high; [exact Hd|exists c, r; split; [reflexivity|lia]]].
      cbn. unfold raw_byte. intros; lia.
Qed.

Lemma json_string_at_ok s rest : utf8_valid s = true ->
  json_string_at (json_string_aux 0 s ++ 34 :: rest) = Some (s, rest).
Proof.
  intros Hv. unfold json_string_at. rewrite str_body_json.
  change (34 :: json_string_aux 0 s ++ [34]) with (json_string s). rewrite json_string_roundtrip by exact Hv. reflexivity.
Qed.

(* ================= values ================= *)

Section ValueInd.
  Variable P : value -> Prop.
  Hypothesis Hu : P VUndef.
  Hypothesis Hn : P VNull.
  Hypothesis Hb : forall x, P (VBool x).
  Hypothesis Hi : forall z, P (VInt z).
  Hypothesis Hf : forall x, P (VFloat x).
  Hypothesis Hs : forall s, P (VStr s).
  Hypothesis Hl : forall id l, Forall P l -> P (VList id l).
  Hypothesis Hm : forall id m, Forall (fun kx => P (snd kx)) m -> P (VMap id m).
  Fixpoint value_ind2 (v : value) : P v :=
    match v with
    | VUndef => Hu
    | VNull => Hn
    | VBool x => Hb x
    | VInt z => Hi z
    | VFloat x => Hf x
    | VStr s => Hs s
    | VList id l =>
        Hl id l ((fix go (l : list value) : Forall P l :=
                    match l with
                    | [] => Forall_nil _
                    | x :: r => Forall_cons x (value_ind2 x) (go r)
                    end) l)
    | VMap id m =>
        Hm id m ((fix go (m : list (bstr * value)) : Forall (fun kx => P (snd kx)) m :=
                    match m with
                    | [] => Forall_nil _
                    | (k, x) :: r => Forall_cons (k, x) (value_ind2 x) (go r)
                    end) m)
    end.
End ValueInd.

(* [nn]: whether a nil list / map is written as null (Model/JsonEncode.v nil_null) *)
Section WithNil.
Variable nn : bool.

(* the loops of json_encode / jv_of_value, named *)
Fixpoint enc_items (l : list value) : outcome (list bstr) :=
  match l with
  | [] => Ok []
  | x :: r => s <- json_encode nn x ;; rs <- enc_items r ;; Ok (s :: rs)
  end.
Fixpoint enc_members (m : list (bstr * value)) : outcome (list (bstr * bstr)) :=
  match m with
  | [] => Ok []
  | (k, x) :: r => s <- json_encode nn x ;; rs <- enc_members r ;; Ok ((k, s) :: rs)
  end.
Fixpoint jv_items (l : list value) : option (list jvalue) :=
  match l with
  | [] => Some []
  | x :: r => match jv_of_value x, jv_items r with Some j, Some js => Some (j :: js) | _, _ => None end
  end.
Fixpoint jv_members_of (m : list (bstr * value)) : option (list (bstr * jvalue)) :=
  match m with
  | [] => Some []
  | (k, x) :: r => match jv_of_value x, jv_members_of r with Some j, Some js => Some ((k, j) :: js) | _, _ => None end
  end.

Lemma json_encode_list id l :
  json_encode nn (VList id l) =
  if is_nil_coll nn id l then Ok s_null else (items <- enc_items l ;; Ok ([91] ++ join [44] items ++ [93])).
Proof. reflexivity. Qed.

Lemma json_encode_map id m :
  json_encode nn (VMap id m) =
  if is_nil_coll nn id m then Ok s_null else
  (items <- enc_members m ;; Ok ([123] ++ join [44] (map json_member (json_sort_kv items)) ++ [125])).
Proof. reflexivity. Qed.

Lemma jv_of_list id l : jv_of_value (VList id l) = option_map JvArr (jv_items l).
Proof. reflexivity. Qed.

Lemma jv_of_map id m : jv_of_value (VMap id m) = option_map JvObj (jv_members_of m).
Proof. reflexivity. Qed.

(* ---- the values the theorem is about: strings and keys are valid UTF-8, floats are
   normalised (odd mantissa: what mk_fl builds), the keys of a map are strictly
   increasing (the invariant of Model/Values.v: unique keys kept sorted) ---- *)
Fixpoint keys_sorted (ks : list bstr) : Prop :=
  match ks with
  | k1 :: ((k2 :: _) as r) => bstr_ltb k1 k2 = true /\ keys_sorted r
  | _ => True
  end.

Fixpoint json_ok (v : value) : Prop :=
  match v with
  | VStr s => utf8_valid s = true
  | VFloat x => fl_norm x
  | VList id l =>
      is_nil_coll nn id l = false /\
      (fix all (l : list value) : Prop := match l with [] => True | x :: r => json_ok x /\ all r end) l
  | VMap id m =>
      is_nil_coll nn id m = false /\ keys_sorted (map fst m) /\
      (fix all (m : list (bstr * value)) : Prop :=
         match m with [] => True | (k, x) :: r => (utf8_valid k = true /\ json_ok x) /\ all r end) m
  | _ => True
  end.

Lemma json_ok_list id l : json_ok (VList id l) <-> is_nil_coll nn id l = false /\ Forall json_ok l.
Proof.
  cbn [json_ok]. apply and_iff_compat_l. induction l as [|x r IH]; [split; constructor|]. split.
  - intros [H1 H2]. constructor; [exact H1|apply IH, H2].
  - intros H. inversion H; subst. split; [assumption|apply IH; assumption].
Qed.

Lemma json_ok_map id m : json_ok (VMap id m) <->
  is_nil_coll nn id m = false /\ keys_sorted (map fst m) /\ Forall (fun kx => utf8_valid (fst kx) = true /\ json_ok (snd kx)) m.
Proof.
  cbn [json_ok]. apply and_iff_compat_l. apply and_iff_compat_l. induction m as [|[k x] r IH]; [split; constructor|]. split.
  - intros [H1 H2]. constructor; [exact H1|apply IH, H2].
  - intros H. inversion H; subst. split; [assumption|apply IH; assumption].
Qed.

(* size: bounds the nesting depth and the number of elements of every collection *)
Fixpoint vsize (v : value) : nat :=
  match v with
  | VList _ l => S (fold_right (fun x acc => (vsize x + acc)%nat) 0%nat l)
  | VMap _ m => S (fold_right (fun kx acc => (vsize (snd kx) + acc)%nat) 0%nat m)
  | _ => 1%nat
  end.

Lemma vsize_pos v : (1 <= vsize v)%nat.
Proof. destruct v; cbn [vsize]; lia. Qed.

(* ---- first byte of an encoded value ---- *)
Definition vstart (c : N) : Prop :=
  c = 110 \/ c = 116 \/ c = 102 \/ c = 34 \/ c = 91 \/ c = 123 \/ c = 45 \/ is_digit_byte c.

Lemma vstart_not_ws c : vstart c -> is_ws c = false.
Proof. unfold vstart, is_digit_byte, is_ws. intros H. lia. Qed.

Lemma dec_of_N_head_digit n : exists c r, dec_of_N n = c :: r /\ is_digit_byte c.
Proof.
  pose proof (dec_of_N_digits n) as Hd. pose proof (dec_of_N_nonempty n) as Hne.
  destruct (dec_of_N n) as [|c r]; [congruence|]. inversion Hd; subst. eauto.
Qed.

Lemma dec_of_Z_head z : exists c r, dec_of_Z z = c :: r /\ (c = 45 \/ is_digit_byte c).
Proof.
  destruct z as [|p|p]; cbn [dec_of_Z].
  - exists 48, []. split; [reflexivity|right; unfold is_digit_byte; lia].
  - destruct (dec_of_N_head_digit (Npos p)) as (c & r & E & H). exists c, r. auto.
  - eexists; eexists; split; [reflexivity|left; reflexivity].
Qed.

Lemma app_head (a c : bstr) x r : a = x :: r -> a ++ c = x :: r ++ c.
Proof. intros ->. reflexivity. Qed.

Lemma fl_to_string_head x s : json_float x = Ok s -> exists c r, s = c :: r /\ (c = 45 \/ is_digit_byte c).
Proof.
  unfold json_float. destruct x as [| |n|m e]; try discriminate.
  - cbn [fl_to_string_dom]. destruct n; intros H; injection H as <-.
    + eexists; eexists; split; [reflexivity|left; reflexivity].
    + exists 48, []. split; [reflexivity|right; unfold is_digit_byte; lia].
  - destruct (fl_to_string_dom (FFin m e)) as [t|] eqn:E; [|discriminate]. intros H.
    assert (t = s) as <- by congruence. clear H.
    revert E. cbn [fl_to_string_dom]. cbv zeta.
    destruct (m <? 0)%Z.
    { intros E. destruct (0 <=? e)%Z.
      - destruct (_ <? 1000000)%Z; [|discriminate]. apply some_inj in E. subst t. eexists; eexists; split; [reflexivity|left; reflexivity].
      - destruct (e <? -9)%Z; [discriminate|]. destruct (_ <? 1000000)%Z; [|discriminate]. apply some_inj in E. subst t.
        eexists; eexists; split; [reflexivity|left; reflexivity]. }
    intros E. destruct (0 <=? e)%Z.
    + destruct (_ <? 1000000)%Z; [|discriminate]. apply some_inj in E. subst t. cbn [app]. apply dec_of_Z_head.
    + destruct (e <? -9)%Z; [discriminate|]. destruct (_ <? 1000000)%Z; [|discriminate]. apply some_inj in E. subst t. cbn [app].
      destruct (dec_of_Z_head (Z.abs m / 2 ^ (- e))) as (c & r & Eh & Hc). rewrite (app_head _ _ c r Eh). eauto.
Qed.

Lemma json_encode_head v s : json_encode nn v = Ok s -> exists c r, s = c :: r /\ vstart c.
Proof.
  unfold vstart. destruct v as [| |x|z|x|t|id l|id m].
  - intros H; injection H as <-. eexists; eexists; split; [reflexivity|unfold is_digit_byte; lia].
  - intros H; injection H as <-. eexists; eexists; split; [reflexivity|unfold is_digit_byte; lia].
  - destruct x; intros H; injection H as <-; eexists; eexists; (split; [reflexivity|unfold is_digit_byte; lia]).
  - intros H; injection H as <-. destruct (dec_of_Z_head z) as (c & r & E & Hc). exists c, r. split; [exact E|tauto].
  - cbn [json_encode]. intros H. destruct (fl_to_string_head x s H) as (c & r & E & Hc). exists c, r. split; [exact E|tauto].
  - intros H; injection H as <-. eexists; eexists; split; [reflexivity|unfold is_digit_byte; lia].
  - rewrite json_encode_list. destruct (is_nil_coll nn id l).
    { intros H; injection H as <-. eexists; eexists; split; [reflexivity|unfold is_digit_byte; lia]. }
    intros H. apply bind_ok in H. destruct H as (items & _ & H). injection H as <-.
    eexists; eexists; split; [reflexivity|unfold is_digit_byte; lia].
  - rewrite json_encode_map. destruct (is_nil_coll nn id m).
    { intros H; injection H as <-. eexists; eexists; split; [reflexivity|unfold is_digit_byte; lia]. }
    intros H. apply bind_ok in H. destruct H as (items & _ & H). injection H as <-.
    eexists; eexists; split; [reflexivity|unfold is_digit_byte; lia].
Qed.

(* ---- one value by its first byte ---- *)
Lemma skip_ws_head c r : is_ws c = false -> skip_ws (c :: r) = c :: r.
Proof. intros H. cbn [skip_ws]. rewrite H. reflexivity. Qed.

Lemma jv_body_number pv g s rest : (exists c r, s = c :: r /\ (c = 45 \/ is_digit_byte c)) ->
  jv_body pv g (s ++ rest) = json_number (s ++ rest).
Proof.
  intros (c & r & -> & Hc). cbn [app]. unfold jv_body. unfold is_digit_byte in Hc.
  rewrite skip_ws_head by (unfold is_ws; lia).
  destruct (N.eqb_spec c 110); [lia|]. destruct (N.eqb_spec c 116); [lia|]. destruct (N.eqb_spec c 102); [lia|].
  destruct (N.eqb_spec c 34); [lia|]. destruct (N.eqb_spec c 91); [lia|]. destruct (N.eqb_spec c 123); [lia|]. reflexivity.
Qed.

(* bytes that may follow a value inside a text end a number *)
Lemma stop_num_sep c rest : c = 44 \/ c = 93 \/ c = 125 -> stop_num (c :: rest).
Proof. intros H. cbn [stop_num]. unfold is_digit, in_range. lia. Qed.

(* ---- the element loop ---- *)
Definition parses (pv : bstr -> option (jvalue * bstr)) (s : bstr) (j : jvalue) : Prop :=
  (exists c r, s = c :: r /\ vstart c) /\ forall rest, stop_num rest -> pv (s ++ rest) = Some (j, rest).

Lemma eat_hit c r : eat c (c :: r) = Some r.
Proof. cbn [eat]. rewrite N.eqb_refl. reflexivity. Qed.

Lemma eat_miss c x r : x <> c -> eat c (x :: r) = None.
Proof. intros H. cbn [eat]. destruct (N.eqb_spec x c); [congruence|reflexivity]. Qed.

Lemma jv_elems_ok pv items js : Forall2 (parses pv) items js -> items <> [] ->
  forall g rest, (length items <= g)%nat -> jv_elems pv g (join [44] items ++ 93 :: rest) = Some (js, rest).
Proof.
  induction 1 as [|s j items js Hsj Hrest IH]; [congruence|]. intros _ g rest Hg.
  destruct g as [|g]; [cbn [length] in Hg; lia|]. cbn [length] in Hg.
  destruct Hsj as (_ & Hp).
  destruct items as [|s2 items'].
  - inversion Hrest; subst. cbn [join jv_elems]. rewrite Hp by (apply stop_num_sep; auto).
    rewrite skip_ws_head by reflexivity. rewrite eat_miss by lia. rewrite eat_hit. reflexivity.
  - change (join [44] (s :: s2 :: items')) with (s ++ [44] ++ join [44] (s2 :: items')).
    rewrite <- !app_assoc. cbn [jv_elems]. change ([44] ++ join [44] (s2 :: items') ++ 93 :: rest) with (44 :: join [44] (s2 :: items') ++ 93 :: rest).
    rewrite Hp by (apply stop_num_sep; auto).
    rewrite skip_ws_head by reflexivity. rewrite eat_hit.
    rewrite IH by (try discriminate; cbn [length] in *; lia). reflexivity.
Qed.

(* ---- the member loop ---- *)
Definition parses_member (pv : bstr -> option (jvalue * bstr)) (ks : bstr * bstr) (kj : bstr * jvalue) : Prop :=
  fst ks = fst kj /\ utf8_valid (fst ks) = true /\ parses pv (snd ks) (snd kj).

Lemma jv_member_ok pv ks kj rest : parses_member pv ks kj -> stop_num rest ->
  jv_member pv (json_member ks ++ rest) = Some (kj, rest).
Proof.
  destruct ks as [k s], kj as [k' j]. intros (Ek & Hv & (Hhead & Hp)) Hstop. cbn [fst snd] in *. subst k'.
  unfold json_member, json_string. cbn [fst snd]. unfold jv_member.
  cbn [app]. rewrite skip_ws_head by reflexivity. rewrite eat_hit.
  rewrite <- !app_assoc. change ([34] ++ (58 :: s) ++ rest) with (34 :: 58 :: s ++ rest).
  rewrite json_string_at_ok by exact Hv.
  rewrite skip_ws_head by reflexivity. rewrite eat_hit. rewrite Hp by exact Hstop. reflexivity.
Qed.

Lemma jv_members_ok pv items js : Forall2 (parses_member pv) items js -> items <> [] ->
  forall g rest, (length items <= g)%nat -> jv_members pv g (join [44] (map json_member items) ++ 125 :: rest) = Some (js, rest).
Proof.
  induction 1 as [|ks kj items js Hkj Hrest IH]; [congruence|]. intros _ g rest Hg.
  destruct g as [|g]; [cbn [length] in Hg; lia|]. cbn [length] in Hg.
  destruct items as [|ks2 items'].
  - inversion Hrest; subst. cbn [map join jv_members]. rewrite (jv_member_ok pv ks kj) by (try assumption; apply stop_num_sep; auto).
    rewrite skip_ws_head by reflexivity. rewrite eat_miss by lia. rewrite eat_hit. reflexivity.
  - change (join [44] (map json_member (ks :: ks2 :: items'))) with (json_member ks ++ [44] ++ join [44] (map json_member (ks2 :: items'))).
    rewrite <- !app_assoc. cbn [jv_members].
    change ([44] ++ join [44] (map json_member (ks2 :: items')) ++ 125 :: rest) with (44 :: join [44] (map json_member (ks2 :: items')) ++ 125 :: rest).
    rewrite (jv_member_ok pv ks kj) by (try assumption; apply stop_num_sep; auto).
    rewrite skip_ws_head by reflexivity. rewrite eat_hit.
    rewrite IH by (try discriminate; cbn [length] in *; lia). reflexivity.
Qed.

(* ---- sorted keys: the encoder's sort leaves the members where they are ---- *)
Lemma sort_kv_sorted {A} (l : list (bstr * A)) : keys_sorted (map fst l) -> json_sort_kv l = l.
Proof.
  induction l as [|[k x] r IH]; [reflexivity|]. intros Hs. unfold json_sort_kv in *. cbn [fold_right fst snd].
  destruct r as [|[k2 x2] r2].
  - reflexivity.
  - cbn [map fst keys_sorted] in Hs. destruct Hs as [Hlt Hs]. rewrite IH by exact Hs.
    cbn [json_insert_kv]. unfold bstr_leb. rewrite (bstr_ltb_asym k k2 Hlt). reflexivity.
Qed.

Lemma enc_members_keys m items : enc_members m = Ok items -> map fst items = map fst m.
Proof.
  revert items; induction m as [|[k x] r IH]; intros items H.
  - injection H as <-. reflexivity.
  - cbn [enc_members] in H. apply bind_ok in H. destruct H as (s & _ & H). apply bind_ok in H. destruct H as (rs & Hr & H).
    injection H as <-. cbn [map fst]. f_equal. apply IH, Hr.
Qed.

(* ================= the round trip ================= *)

Definition roundtrips (v : value) : Prop :=
  json_ok v -> forall s, json_encode nn v = Ok s ->
  exists j, jv_of_value v = Some j /\
            forall f rest, (vsize v <= f)%nat -> stop_num rest -> jv_parse f (s ++ rest) = Some (j, rest).

Lemma jv_parse_S f s : jv_parse (S f) s = jv_body (jv_parse f) f s.
Proof. reflexivity. Qed.

Lemma jv_body_lit pv g lit j rest c r n : lit = c :: r -> is_ws c = false ->
  (forall g', jv_body pv g' (c :: r ++ rest) =
     (if is_prefix lit (c :: r ++ rest) then Some (j, drop n (c :: r ++ rest)) else None)) ->
  is_prefix lit (lit ++ rest) = true -> drop n (lit ++ rest) = rest ->
  jv_body pv g (lit ++ rest) = Some (j, rest).
Proof. intros -> Hws Hb Hp Hd. cbn [app] in *. rewrite Hb, Hp, Hd. reflexivity. Qed.

Lemma is_prefix_app_self p X : is_prefix p (p ++ X) = true.
Proof. apply is_prefix_app. Qed.

Lemma roundtrip_null pv g rest : jv_body pv g (s_null ++ rest) = Some (JvNull, rest).
Proof. unfold jv_body, s_null. cbn [app skip_ws is_ws]. cbn. reflexivity. Qed.

Lemma roundtrip_true pv g rest : jv_body pv g (s_true ++ rest) = Some (JvBool true, rest).
Proof. unfold jv_body, s_true. cbn. reflexivity. Qed.

Lemma roundtrip_false pv g rest : jv_body pv g (s_false ++ rest) = Some (JvBool false, rest).
Proof. unfold jv_body, s_false. cbn. reflexivity. Qed.

Lemma sum_ge_len {A} (d : A -> nat) l : (forall x, 1 <= d x)%nat ->
  (length l <= fold_right (fun x acc => (d x + acc)%nat) 0%nat l)%nat.
Proof. intros Hd. induction l as [|x r IH]; cbn [length fold_right]; [lia|]. specialize (Hd x). lia. Qed.

Lemma sum_ge_in {A} (d : A -> nat) l x : In x l -> (d x <= fold_right (fun x acc => (d x + acc)%nat) 0%nat l)%nat.
Proof. induction l as [|y r IH]; [intros []|]. cbn [fold_right]. intros [->|H]; [lia|specialize (IH H); lia]. Qed.

Theorem json_roundtrip_at : forall v, roundtrips v.
Proof.
  apply value_ind2; unfold roundtrips.
  - intros _ s H. injection H as <-. exists JvNull. split; [reflexivity|]. intros [|f] rest Hf Hs; [cbn in Hf; lia|].
    rewrite jv_parse_S. apply roundtrip_null.
  - intros _ s H. injection H as <-. exists JvNull. split; [reflexivity|]. intros [|f] rest Hf Hs; [cbn in Hf; lia|].
    rewrite jv_parse_S. apply roundtrip_null.
  - intros x _ s H. exists (JvBool x). split; [reflexivity|]. intros [|f] rest Hf Hs; [cbn in Hf; lia|].
    rewrite jv_parse_S. destruct x; injection H as <-; [apply roundtrip_true|apply roundtrip_false].
  - intros z _ s H. injection H as <-. exists (num_of_Z z). split; [reflexivity|]. intros [|f] rest Hf Hs; [cbn in Hf; lia|].
    rewrite jv_parse_S. rewrite jv_body_number by apply dec_of_Z_head. apply json_number_int, Hs.
  - intros x Hok s H. cbn [json_ok] in Hok. cbn [json_encode] in H.
    assert (exists j, num_of_fl x = Some j) as (j & Hj).
    { destruct x; cbn [json_float] in H; try discriminate; cbn [num_of_fl]; [eauto|].
      destruct (0 <=? e)%Z; destruct (dec_norm _ _); eauto. }
    exists j. split; [exact Hj|]. intros [|f] rest Hf Hs; [cbn in Hf; lia|].
    rewrite jv_parse_S. rewrite jv_body_number by (eapply fl_to_string_head; exact H).
    unfold json_float in H. destruct x as [| |n|m e]; try discriminate.
    + destruct (fl_to_string_dom (FZero n)) as [t|] eqn:E; [|discriminate]. injection H as <-.
      eapply json_number_float; eauto.
    + destruct (fl_to_string_dom (FFin m e)) as [t|] eqn:E; [|discriminate]. injection H as <-.
      eapply json_number_float; eauto.
  - intros t Hok s H. cbn [json_ok] in Hok. injection H as <-. exists (JvStr t). split; [reflexivity|].
    intros [|f] rest Hf Hs; [cbn in Hf; lia|]. rewrite jv_parse_S.
    unfold json_string, jv_body. cbn [app]. rewrite skip_ws_head by reflexivity.
    change (34 =? 110) with false. change (34 =? 116) with false. change (34 =? 102) with false. change (34 =? 34) with true. cbv iota.
    rewrite <- app_assoc. change ([34] ++ rest) with (34 :: rest). rewrite json_string_at_ok by exact Hok. reflexivity.
  - (* lists *)
    intros id l IH Hok s H. rewrite json_ok_list in Hok. destruct Hok as [Hnil Hok]. rewrite json_encode_list, Hnil in H.
    apply bind_ok in H. destruct H as (items & Hitems & H). injection H as <-.
    assert (exists js, jv_items l = Some js /\ length items = length l /\
              forall f, (forall x, In x l -> vsize x <= f)%nat -> Forall2 (parses (jv_parse f)) items js) as (js & Hjs & Hlen & Hpar).
    { clear id Hnil. revert items Hitems. induction l as [|x r IHr]; intros items Hitems.
      - injection Hitems as <-. exists []. repeat split; try reflexivity. intros; constructor.
      - cbn [enc_items] in Hitems. apply bind_ok in Hitems. destruct Hitems as (sx & Hsx & Hitems).
        apply bind_ok in Hitems. destruct Hitems as (rs & Hrs & Hitems). injection Hitems as <-.
        inversion IH as [|? ? IHx IHr']; subst. inversion Hok as [|? ? Hokx Hokr]; subst.
        destruct (IHx Hokx sx Hsx) as (j & Hj & Hpx).
        destruct (IHr IHr' Hokr rs Hrs) as (js & Hjs & Hlen & Hpr).
        exists (j :: js). cbn [jv_items]. rewrite Hj, Hjs. split; [reflexivity|]. split; [cbn [length]; lia|].
        intros f Hf. constructor.
        + split; [eapply json_encode_head; exact Hsx|]. intros rest Hs. apply Hpx; [apply Hf; left; reflexivity|exact Hs].
        + apply Hpr. intros y Hy. apply Hf. right. exact Hy. }
    exists (JvArr js). split; [rewrite jv_of_list, Hjs; reflexivity|].
    intros [|f] rest Hf Hs; [cbn in Hf; lia|]. rewrite jv_parse_S. cbn [vsize] in Hf.
    unfold jv_body. cbn [app]. rewrite skip_ws_head by reflexivity.
    change (91 =? 110) with false. change (91 =? 116) with false. change (91 =? 102) with false. change (91 =? 34) with false.
    change (91 =? 91) with true. cbv iota.
    destruct l as [|x0 l0].
    + injection Hitems as <-. cbn [jv_items] in Hjs. injection Hjs as <-. cbn [join app]. rewrite skip_ws_head by reflexivity.
      rewrite eat_hit. reflexivity.
    + assert (items <> []) as Hne by (destruct items; [cbn [length] in Hlen; lia|discriminate]).
      assert (Forall2 (parses (jv_parse f)) items js) as HF2.
      { apply Hpar. intros y Hy. pose proof (sum_ge_in vsize (x0 :: l0) y Hy). lia. }
      assert (exists c r, join [44] items ++ [93] ++ rest = c :: r /\ vstart c) as (c & r & Ehead & Hc).
      { destruct HF2 as [|s1 j1 it js' ((c & r & -> & Hc) & _) _]; [congruence|].
        destruct it; cbn [join app]; eauto. }
      rewrite <- app_assoc. rewrite Ehead. rewrite skip_ws_head by (apply vstart_not_ws, Hc).
      rewrite eat_miss by (unfold vstart, is_digit_byte in Hc; lia). rewrite <- Ehead.
      change ([93] ++ rest) with (93 :: rest).
      rewrite (jv_elems_ok (jv_parse f) items js HF2 Hne).
      * reflexivity.
      * rewrite Hlen. pose proof (sum_ge_len vsize (x0 :: l0) vsize_pos). lia.
  - (* maps *)
    intros id m IH Hok s H. rewrite json_ok_map in Hok. destruct Hok as (Hnil & Hsorted & Hok). rewrite json_encode_map, Hnil in H.
    apply bind_ok in H. destruct H as (items & Hitems & H). injection H as <-.
    rewrite sort_kv_sorted by (rewrite (enc_members_keys m items Hitems); exact Hsorted).
    assert (exists js, jv_members_of m = Some js /\ length items = length m /\
              forall f, (forall kx, In kx m -> vsize (snd kx) <= f)%nat -> Forall2 (parses_member (jv_parse f)) items js) as (js & Hjs & Hlen & Hpar).
    { clear id Hnil Hsorted. revert items Hitems. induction m as [|[k x] r IHr]; intros items Hitems.
      - injection Hitems as <-. exists []. repeat split; try reflexivity. intros; constructor.
      - cbn [enc_members] in Hitems. apply bind_ok in Hitems. destruct Hitems as (sx & Hsx & Hitems).
        apply bind_ok in Hitems. destruct Hitems as (rs & Hrs & Hitems). injection Hitems as <-.
        inversion IH as [|? ? IHx IHr']; subst. inversion Hok as [|? ? [Hvk Hokx] Hokr]; subst. cbn [fst snd] in *.
        destruct (IHx Hokx sx Hsx) as (j & Hj & Hpx).
        destruct (IHr IHr' Hokr rs Hrs) as (js & Hjs & Hlen & Hpr).
        exists ((k, j) :: js). cbn [jv_members_of]. rewrite Hj, Hjs. split; [reflexivity|]. split; [cbn [length]; lia|].
        intros f Hf. constructor.
        + split; [reflexivity|]. split; [exact Hvk|]. cbn [fst snd].
          split; [eapply json_encode_head; exact Hsx|]. intros rest Hs. apply Hpx; [apply (Hf (k, x)); left; reflexivity|exact Hs].
        + apply Hpr. intros y Hy. apply Hf. right. exact Hy. }
    exists (JvObj js). split; [rewrite jv_of_map, Hjs; reflexivity|].
    intros [|f] rest Hf Hs; [cbn in Hf; lia|]. rewrite jv_parse_S. cbn [vsize] in Hf.
    unfold jv_body. cbn [app]. rewrite skip_ws_head by reflexivity.
    change (123 =? 110) with false. change (123 =? 116) with false. change (123 =? 102) with false. change (123 =? 34) with false.
    change (123 =? 91) with false. change (123 =? 123) with true. cbv iota.
    destruct m as [|kx0 m0].
    + injection Hitems as <-. cbn [jv_members_of] in Hjs. injection Hjs as <-. cbn [map join app]. rewrite skip_ws_head by reflexivity.
      rewrite eat_hit. reflexivity.
    + assert (items <> []) as Hne by (destruct items; [cbn [length] in Hlen; lia|discriminate]).
      assert (Forall2 (parses_member (jv_parse f)) items js) as HF2.
      { apply Hpar. intros y Hy. pose proof (sum_ge_in (fun kx => vsize (snd kx)) (kx0 :: m0) y Hy). cbn beta in *. lia. }
      assert (exists r, join [44] (map json_member items) ++ [125] ++ rest = 34 :: r) as (r & Ehead).
      { destruct items as [|[k1 s1] it]; [congruence|]. unfold json_member at 1, json_string. cbn [map fst snd].
        destruct it; cbn [map join app]; eauto. }
      rewrite <- app_assoc. rewrite Ehead. rewrite skip_ws_head by reflexivity.
      rewrite eat_miss by lia. rewrite <- Ehead.
      change ([125] ++ rest) with (125 :: rest).
      rewrite (jv_members_ok (jv_parse f) items js HF2 Hne).
      * reflexivity.
      * rewrite Hlen. pose proof (sum_ge_len (fun kx : bstr * value => vsize (snd kx)) (kx0 :: m0) (fun kx => vsize_pos (snd kx))). cbn beta in *. lia.
Qed.

(* ---- the text is at least as long as the value is big ---- *)
Lemma join_length_ge sep items : (fold_right (fun s acc => (length s + acc)%nat) 0%nat items <= length (join sep items))%nat.
Proof.
  induction items as [|s r IH]; [cbn; lia|]. cbn [fold_right]. destruct r as [|s2 r2].
  - cbn [join fold_right] in *. lia.
  - change (join sep (s :: s2 :: r2)) with (s ++ sep ++ join sep (s2 :: r2)). rewrite !app_length. lia.
Qed.

Lemma vsize_le_length : forall v s, json_encode nn v = Ok s -> (vsize v <= length s)%nat.
Proof.
  apply (value_ind2 (fun v => forall s, json_encode nn v = Ok s -> (vsize v <= length s)%nat)).
  - intros s H. injection H as <-. cbn. lia.
  - intros s H. injection H as <-. cbn. lia.
  - intros x s H. destruct x; injection H as <-; cbn; lia.
  - intros z s H. destruct (json_encode_head _ _ H) as (c & r & -> & _). cbn [vsize length]. lia.
  - intros x s H. destruct (json_encode_head _ _ H) as (c & r & -> & _). cbn [vsize length]. lia.
  - intros t s H. destruct (json_encode_head _ _ H) as (c & r & -> & _). cbn [vsize length]. lia.
  - intros id l IH s H. rewrite json_encode_list in H. destruct (is_nil_coll nn id l) eqn:En.
    { injection H as <-. unfold is_nil_coll in En. destruct l; [cbn; lia|rewrite andb_false_r in En; discriminate]. }
    apply bind_ok in H. destruct H as (items & Hitems & H). injection H as <-.
    cbn [vsize app length]. rewrite !app_length. cbn [length].
    pose proof (join_length_ge [44] items) as Hj.
    assert (fold_right (fun x acc => (vsize x + acc)%nat) 0%nat l <= fold_right (fun s acc => (length s + acc)%nat) 0%nat items)%nat; [|lia].
    clear Hj En. revert items Hitems. induction l as [|x r IHr]; intros items Hitems.
    + injection Hitems as <-. cbn. lia.
    + cbn [enc_items] in Hitems. apply bind_ok in Hitems. destruct Hitems as (sx & Hsx & Hitems).
      apply bind_ok in Hitems. destruct Hitems as (rs & Hrs & Hitems). injection Hitems as <-.
      inversion IH as [|? ? IHx IHr']; subst. cbn [fold_right]. specialize (IHx sx Hsx). specialize (IHr IHr' rs Hrs). lia.
  - intros id m IH s H. rewrite json_encode_map in H. destruct (is_nil_coll nn id m) eqn:En.
    { injection H as <-. unfold is_nil_coll in En. destruct m; [cbn; lia|rewrite andb_false_r in En; discriminate]. }
    apply bind_ok in H. destruct H as (items & Hitems & H). injection H as <-.
    cbn [vsize app length]. rewrite !app_length. cbn [length].
    pose proof (join_length_ge [44] (map json_member (json_sort_kv items))) as Hj.
    assert (fold_right (fun kx acc => (vsize (snd kx) + acc)%nat) 0%nat m <=
            fold_right (fun s acc => (length s + acc)%nat) 0%nat (map json_member (json_sort_kv items)))%nat; [|lia].
    clear Hj.
    (* the sum over the sorted members is the sum over the members *)
    assert (forall (l : list (bstr * bstr)), fold_right (fun s acc => (length s + acc)%nat) 0%nat (map json_member (json_sort_kv l)) =
                                              fold_right (fun s acc => (length s + acc)%nat) 0%nat (map json_member l)) as Hsum.
    { induction l as [|[k x] r IHl]; [reflexivity|]. unfold json_sort_kv in *. cbn [fold_right map fst snd]. rewrite <- IHl.
      generalize (fold_right (fun (kx : bstr * bstr) acc => json_insert_kv (fst kx) (snd kx) acc) [] r). intros acc.
      induction acc as [|[k' x'] acc IHa]; [reflexivity|]. cbn [json_insert_kv]. destruct (bstr_leb k k'); cbn [map fold_right]; [reflexivity|].
      rewrite IHa. lia. }
    rewrite Hsum. clear Hsum En. revert items Hitems. induction m as [|[k x] r IHr]; intros items Hitems.
    + injection Hitems as <-. cbn. lia.
    + cbn [enc_members] in Hitems. apply bind_ok in Hitems. destruct Hitems as (sx & Hsx & Hitems).
      apply bind_ok in Hitems. destruct Hitems as (rs & Hrs & Hitems). injection Hitems as <-.
      inversion IH as [|? ? IHx IHr']; subst. cbn [fold_right map snd]. specialize (IHx sx Hsx). specialize (IHr IHr' rs Hrs).
      unfold json_member at 1. cbn [fst snd] in *. rewrite !app_length. lia.
Qed.

(* ================= the property theorem ================= *)
Theorem json_roundtrip v s : json_ok v -> json_encode nn v = Ok s ->
  exists j, jv_of_value v = Some j /\ json_parse s = Some j.
Proof.
  intros Hok Hs. destruct (json_roundtrip_at v Hok s Hs) as (j & Hj & Hp). exists j. split; [exact Hj|].
  unfold json_parse. specialize (Hp (S (length s)) [] ltac:(pose proof (vsize_le_length v s Hs); lia) I).
  rewrite app_nil_r in Hp. rewrite Hp. reflexivity.
Qed.

(* the encoder fails only on NaN / infinities, and leaves the model only for floats outside the exact printing domain *)
Fixpoint json_finite (v : value) : Prop :=
  match v with
  | VFloat x => exists s, fl_to_string_dom x = Some s /\ x <> FNaN /\ x <> FInf true /\ x <> FInf false
  | VList _ l => (fix all (l : list value) : Prop := match l with [] => True | x :: r => json_finite x /\ all r end) l
  | VMap _ m => (fix all (m : list (bstr * value)) : Prop := match m with [] => True | (k, x) :: r => json_finite x /\ all r end) m
  | _ => True
  end.

Theorem json_encode_total : forall v, json_finite v -> exists s, json_encode nn v = Ok s.
Proof.
  apply (value_ind2 (fun v => json_finite v -> exists s, json_encode nn v = Ok s)); try (intros; eexists; reflexivity).
  - intros [|] _; eexists; reflexivity.
  - intros x (s & Hs & H1 & H2 & H3). exists s. cbn [json_encode]. unfold json_float.
    destruct x as [|[|]|n|m e]; try congruence; rewrite Hs; reflexivity.
  - intros id l IH Hfin. rewrite json_encode_list. destruct (is_nil_coll nn id l); [eexists; reflexivity|].
    assert (exists items, enc_items l = Ok items) as (items & ->); [|eexists; reflexivity].
    cbn [json_finite] in Hfin. induction l as [|x r IHr]; [eexists; reflexivity|].
    inversion IH as [|? ? IHx IHr']; subst. destruct Hfin as [Hx Hr].
    destruct (IHx Hx) as (sx & Esx). destruct (IHr IHr' Hr) as (rs & Ers). cbn [enc_items]. rewrite Esx, Ers. eexists; reflexivity.
  - intros id m IH Hfin. rewrite json_encode_map. destruct (is_nil_coll nn id m); [eexists; reflexivity|].
    assert (exists items, enc_members m = Ok items) as (items & ->); [|eexists; reflexivity].
    cbn [json_finite] in Hfin. induction m as [|[k x] r IHr]; [eexists; reflexivity|].
    inversion IH as [|? ? IHx IHr']; subst. destruct Hfin as [Hx Hr]. cbn [snd] in IHx.
    destruct (IHx Hx) as (sx & Esx). destruct (IHr IHr' Hr) as (rs & Ers). cbn [enc_members]. rewrite Esx, Ers. eexists; reflexivity.
Qed.

End WithNil.

