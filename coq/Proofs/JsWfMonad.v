(* C14, token grammar: inversion of the generator's writer monad, and the
   state invariants the syntax of the output depends on. *)
From Soy Require Import Model.Bytes Model.Num Model.Values Model.Outcome Model.Ast Model.JsGen Generated.Tables
  Spec.JsSyntax Spec.JsShape.
From Soy Require Import Proofs.JsWfBase Proofs.JsWfFrame.
Open Scope N_scope.

(* ---- inversion ---- *)
Lemma bind_inv {A B} (m : J A) (f : A -> J B) st r :
  jbind m f st = Ok r -> exists x st1, m st = Ok (x, st1) /\ f x st1 = Ok r.
Proof. unfold jbind. destruct (m st) as [[x st1]| | | | |]; try discriminate. intro H. exists x, st1. auto. Qed.
Lemma ret_inv {A} (x y : A) st st' : jret x st = Ok (y, st') -> y = x /\ st' = st.
Proof. unfold jret. intro H. inversion H. auto. Qed.
Lemma get_inv st y st' : jget st = Ok (y, st') -> y = st /\ st' = st.
Proof. unfold jget. intro H. inversion H. auto. Qed.
Lemma mod_inv f st y st' : jmod f st = Ok (y, st') -> st' = f st.
Proof. unfold jmod. intro H. inversion H. auto. Qed.
Lemma emit_inv cs st y st' : jemit cs st = Ok (y, st') -> st' = upd_out (fun o => rev_append cs o) st.
Proof. unfold jemit. apply mod_inv. Qed.
Lemma txt_inv t st y st' : jtxt t st = Ok (y, st') -> st' = upd_out (fun o => rev_append [CText t] o) st.
Proof. unfold jtxt. apply emit_inv. Qed.
Lemma indent_inv st y st' : jindent st = Ok (y, st') -> st' = upd_out (fun o => rev_append [CText (indent_text (j_indent st))] o) st.
Proof.
  unfold jindent. intro H. apply bind_inv in H. destruct H as (x & st1 & H1 & H2). apply get_inv in H1. destruct H1; subst.
  apply txt_inv in H2. exact H2.
Qed.
Lemma jsln_inv cs st y st' : jsln cs st = Ok (y, st') ->
  st' = upd_out (fun o => rev_append (CText (indent_text (j_indent st)) :: cs ++ [CText t_nl]) o) st.
Proof.
  unfold jsln. intro H. apply bind_inv in H. destruct H as (x & st1 & H1 & H2). apply indent_inv in H1. subst st1.
  apply bind_inv in H2. destruct H2 as (x2 & st2 & H2 & H3). apply emit_inv in H2. subst st2. apply txt_inv in H3. subst st'.
  destruct st. unfold upd_out. cbn. f_equal. rewrite !rev_append_rev. cbn. rewrite !rev_app_distr. cbn. rewrite <- ?app_assoc. reflexivity.
Qed.
Lemma bufname_inv st y st' : bufname st = Ok (y, st') -> y = [CName (j_buf st)] /\ st' = st.
Proof.
  unfold bufname. intro H. apply bind_inv in H. destruct H as (x & st1 & H1 & H2). apply get_inv in H1. destruct H1; subst.
  apply ret_inv in H2. exact H2.
Qed.

(* ---- output extension ---- *)
Definition ext (st st' : jstate) (cs : list chunk) : Prop := j_out st' = rev cs ++ j_out st.
Lemma ext_refl st st' : j_out st' = j_out st -> ext st st' [].
Proof. intro H. unfold ext. rewrite H. reflexivity. Qed.
Lemma ext_step st st1 st' cs1 c : ext st st1 cs1 -> j_out st' = rev_append c (j_out st1) -> ext st st' (cs1 ++ c).
Proof. unfold ext. intros H1 H2. rewrite H2, rev_append_rev, H1, rev_app_distr, app_assoc. reflexivity. Qed.
Lemma ext_trans st st1 st' cs1 cs2 : ext st st1 cs1 -> ext st1 st' cs2 -> ext st st' (cs1 ++ cs2).
Proof. unfold ext. intros H1 H2. rewrite H2, H1, rev_app_distr, app_assoc. reflexivity. Qed.
Lemma ext_same st st1 st' cs1 : ext st st1 cs1 -> j_out st' = j_out st1 -> ext st st' cs1.
Proof. unfold ext. intros H1 H2. rewrite H2. exact H1. Qed.

(* ---- the invariants ---- *)
Section Inv.
Variable fmt : jsfmt.
Notation md := (is_module fmt).

Definition frame_ok (f : list (bstr * bstr)) : Prop :=
  (forall k g, ident_ok k = true -> assoc_s k f = Some g -> g <> [] -> name_ok g)
  /\ (forall ix, assoc_s jk_index f = Some ix -> ix <> [] -> name_ok ix /\ exists lim, assoc_s jk_limit f = Some lim /\ name_ok lim).
Definition scope_ok (s : list (list (bstr * bstr))) : Prop := Forall frame_ok s.
Definition called_ok (st : jstate) : Prop := Forall (fun kv : bstr * list chunk => imp_ok fmt (snd kv) = true) (j_called st).

(* an expression: from "operand expected" to "operand seen", on any stack *)
Definition exprC (cs : list chunk) (i : bool) : Prop := forall cl s, emits md cs (MWant cl) s (MHave i) s [].
(* statements: from the start of a statement to the start of a statement *)
Definition stmtC (cs : list chunk) : Prop := forall e s, exists e', emits md cs (MStmt e) s (MStmt e') s [].

Lemma stmtC_nil : stmtC [].
Proof. intros e s. exists e. apply emits_nil. Qed.
Lemma stmtC_app a c : stmtC a -> stmtC c -> stmtC (a ++ c).
Proof. intros A C e s. destruct (A e s) as (e1 & A1). destruct (C e1 s) as (e2 & C2). exists e2. exact (emits_app0 _ _ _ _ _ _ _ _ _ A1 C2). Qed.

End Inv.
