(* Budget facts for the expression parser model (Model/ExprParser.v) in the form the C17 body
   round trip uses them.

   1. Fuel monotonicity, as equations: a run that does not end in PFuel returns the same result
      under every larger fuel ([parse_expr_mono], [parse_print_mono]).  These are corollaries of
      Proofs/ExprParserFuel.v ([parse_expr_le], [parse_print_le]: the same induction over every
      loop of Section Body, stated with [le_res]).

   2. The entry point's budget [expr_fuel ts] = |ts| + 8 never runs out, on ANY item list
      ([parse_expr_fuel_enough]).  Proofs/ExprTotal.v proves more (no crash, kap conserved) but
      needs every item to be well formed ([twf]); here nothing is assumed about the items: a
      crash (slice out of range on a malformed item) or an error is simply not PFuel.  The
      argument is the same consumption measure [mu] of Proofs/ParserMeasure.v, with the light
      invariant peekCount <= 2.

   3. [expr_fuel_ok]: the budget contract of the command round trip (Proofs/CmdRoundtrip.v,
      hypothesis efuel_ok), with no hypothesis left. *)
From Soy Require Import Model.Bytes Model.Ast Model.Token Model.NumLit Model.Quote Model.ExprParser Model.Parser.
From Soy Require Import Generated.Tables Proofs.ParserMeasure Proofs.ExprTotal Proofs.ExprParserRules Proofs.ExprParserFuel.
From Coq Require Import ZifyBool ZifyNat ZifyN Lia List.
Open Scope N_scope.

(* ---------- 1. monotonicity ---------- *)
Definition wle (w w' : N -> pst -> presult node) : Prop :=
  forall prec st r, w prec st = r -> r <> PFuel -> w' prec st = r.

Lemma le_res_wle (w w' : N -> pst -> presult node) :
  (forall p st, le_res (w p st) (w' p st)) <-> wle w w'.
Proof.
  split.
  - intros H prec st r E Hr. destruct (H prec st) as [F|F]; congruence.
  - intros H p st. destruct (w p st) as [a s|t c s|m|] eqn:E; [right|right|right|left; reflexivity];
      symmetry; apply (H p st _ E); discriminate.
Qed.

Theorem parse_expr_mono : forall f f' prec st r,
  (f <= f')%nat -> parse_expr f prec st = r -> r <> PFuel -> parse_expr f' prec st = r.
Proof.
  intros f f' prec st r Hle E Hr. destruct (parse_expr_le f f' Hle prec st) as [F|F]; congruence.
Qed.

Lemma parse_expr_wle f f' : (f <= f')%nat -> wle (parse_expr f) (parse_expr f').
Proof. intros Hle prec st r. apply parse_expr_mono. exact Hle. Qed.

Theorem parse_print_mono : forall f f' p st r,
  (f <= f')%nat -> parse_print f p st = r -> r <> PFuel -> parse_print f' p st = r.
Proof.
  intros f f' p st r Hle E Hr. destruct (parse_print_le f f' p st Hle) as [F|F]; congruence.
Qed.

(* the loops of Section Body, in the same form *)
Lemma expr_loop_mono w w' lf lf' prec n st r : wle w w' -> (lf <= lf')%nat ->
  expr_loop w lf prec n st = r -> r <> PFuel -> expr_loop w' lf' prec n st = r.
Proof.
  intros Hw0 Hle E Hr. pose proof (proj2 (le_res_wle w w') Hw0) as Hw.
  destruct (expr_loop_le w w' Hw lf lf' Hle prec n st) as [F|F]; congruence.
Qed.
Lemma parse_expr_body_mono w w' lf lf' prec st r : wle w w' -> (lf <= lf')%nat ->
  parse_expr_body w lf prec st = r -> r <> PFuel -> parse_expr_body w' lf' prec st = r.
Proof.
  intros Hw0 Hle E Hr. pose proof (proj2 (le_res_wle w w') Hw0) as Hw.
  destruct (parse_expr_body_le w w' Hw lf lf' prec st Hle) as [F|F]; congruence.
Qed.
Lemma directive_args_loop_mono w w' lf lf' args st r : wle w w' -> (lf <= lf')%nat ->
  directive_args_loop w lf args st = r -> r <> PFuel -> directive_args_loop w' lf' args st = r.
Proof.
  intros Hw0 Hle E Hr. pose proof (proj2 (le_res_wle w w') Hw0) as Hw.
  destruct (directive_args_loop_le w w' Hw lf lf' Hle args st) as [F|F]; congruence.
Qed.
Lemma print_loop_mono w w' lf lf' p e dirs st r : wle w w' -> (lf <= lf')%nat ->
  print_loop w lf p e dirs st = r -> r <> PFuel -> print_loop w' lf' p e dirs st = r.
Proof.
  intros Hw0 Hle E Hr. pose proof (proj2 (le_res_wle w w') Hw0) as Hw.
  destruct (print_loop_le w w' Hw lf lf' Hle p e dirs st) as [F|F]; congruence.
Qed.

(* ---------- 2. the budget mu + 1 never runs out, whatever the items are ---------- *)
Notation mu := ParserMeasure.mu.
Notation pk2 p := (p_peek p <= 2)%nat.

(* what [next] does to the measure; no condition on the items *)
Record lrel (p : pst) (t : tok) (p' : pst) : Prop := {
  lr_peek1 : (p_peek p' <= 1)%nat;
  lr_mu_nz : t_typ t <> 0 -> mu p = S (mu p');
  lr_mu : (mu p' <= mu p <= S (mu p'))%nat;
  lr_bk_peek : pk2 (p_backup p');
  lr_bk_mu : mu (p_backup p') = mu p;
}.

Ltac psimp := unfold ParserMeasure.mu, ParserMeasure.stream, p_backup;
              cbn [p_rest p_tok0 p_tok1 p_peek p_recv fst snd tok_at].

Lemma p_next_lrel p : pk2 p -> lrel p (fst (p_next p)) (snd (p_next p)).
Proof.
  intros Hpk. destruct p as [rest t0 t1 pk rc]. cbn [p_peek] in Hpk.
  unfold p_next; cbn [p_peek].
  destruct pk as [|[|[|pk]]]; [| | |lia].
  - unfold recv; cbn [p_rest].
    destruct rest as [|t r]; cbn [fst snd p_rest p_tok0 p_tok1 p_peek p_recv].
    + constructor; psimp; try lia.
      * intros H; exfalso; apply H; reflexivity.
      * reflexivity.
    + pose proof (live_cons t r) as (L1 & L2 & L3).
      constructor; psimp; auto; lia.
  - pose proof (live_cons t0 rest) as (L1 & L2 & L3).
    constructor; psimp; auto; lia.
  - pose proof (live_cons t1 (t0 :: rest)) as (L1 & L2 & L3).
    constructor; psimp; auto; lia.
Qed.

Lemma p_peek_lrel p : pk2 p ->
  (1 <= p_peek (snd (p_peek_tok p)) <= 2)%nat /\ mu (snd (p_peek_tok p)) = mu p
  /\ fst (p_next (snd (p_peek_tok p))) = fst (p_peek_tok p).
Proof.
  intros Hpk. destruct p as [rest t0 t1 pk rc]. cbn [p_peek] in Hpk.
  unfold p_peek_tok; cbn [p_peek].
  destruct pk as [|[|[|pk]]]; [| | |lia].
  - unfold recv; cbn [p_rest].
    destruct rest as [|t r]; cbn [fst snd p_rest p_tok0 p_tok1 p_peek p_recv]; unfold p_next; psimp;
      (split; [lia|split; reflexivity]).
  - unfold p_next; psimp. split; [lia|split; reflexivity].
  - unfold p_next; psimp. split; [lia|split; reflexivity].
Qed.

(* returns (in a state with peekCount <= 2 satisfying Q), or fails, or crashes: anything but PFuel *)
Definition npost {A} (Q : A -> pst -> Prop) (r : presult A) : Prop :=
  match r with
  | POk a p' => pk2 p' /\ Q a p'
  | PErr _ _ _ => True
  | PCrash _ => True
  | PFuel => False
  end.

Lemma npost_bind {A B} (Q1 : A -> pst -> Prop) (Q : B -> pst -> Prop) x f :
  npost Q1 x -> (forall a p', pk2 p' -> Q1 a p' -> npost Q (f a p')) -> npost Q (pbind x f).
Proof. destruct x as [a p'|t c p'|m|]; cbn; intros H K; auto. destruct H as (H1 & H2). apply K; auto. Qed.

Lemma npost_weaken {A} (Q1 Q : A -> pst -> Prop) r :
  npost Q1 r -> (forall a p', pk2 p' -> Q1 a p' -> Q a p') -> npost Q r.
Proof. destruct r; cbn; intros H K; auto. destruct H as (H1 & H2). auto. Qed.

Lemma npost_errorf {A} (Q : A -> pst -> Prop) c p : npost Q (p_errorf c p).
Proof. exact I. Qed.
Lemma npost_unexpected {A} (Q : A -> pst -> Prop) t p : npost Q (p_unexpected t p).
Proof. unfold p_unexpected. destruct (_ =? _); exact I. Qed.

Lemma npost_not_fuel {A} (Q : A -> pst -> Prop) r : npost Q r -> r <> PFuel.
Proof. intros H E. rewrite E in H. exact H. Qed.

Ltac pnext p t p1 R :=
  let E := fresh "E" in
  match goal with Hi : pk2 p |- _ => pose proof (p_next_lrel p Hi) as R end;
  destruct (p_next p) as [t p1] eqn:E; cbn [fst snd] in R.
Ltac dnrel R := destruct R as [?Rpk1 ?Rnz ?Rmu ?Rbp ?Rbm].
Ltac tnz H Hnz := match type of H with t_typ ?t = _ =>
  assert (Hnz : t_typ t <> 0) by (rewrite H; vm_compute; intro; discriminate) end.
Ltac fin := cbn [npost]; (split; [solve [auto|lia]|cbn beta; lia]).

Lemma p_expect_npost typ p :
  pk2 p -> typ <> 0 -> npost (fun _ p' => mu p = S (mu p')) (p_expect typ p).
Proof.
  intros Hi Hz. unfold p_expect. pnext p t p1 R. dnrel R.
  destruct (N.eqb_spec (t_typ t) typ) as [Et|Et].
  - assert (t_typ t <> 0) by congruence. fin.
  - apply npost_unexpected.
Qed.

Section Level.
Variable w : N -> pst -> presult node.
Variable L : nat.
Hypothesis Hw : forall prec p, pk2 p -> (mu p < L)%nat -> npost (fun _ p' => (mu p' < mu p)%nat) (w prec p).

Lemma parse_ternary_n cond p :
  pk2 p -> (mu p < L)%nat -> npost (fun _ p' => (mu p' < mu p)%nat) (parse_ternary w cond p).
Proof.
  intros Hi Hm. unfold parse_ternary.
  eapply npost_bind; [apply Hw; auto|]. intros n1 p1 Hi1 Hq1. cbn beta in Hq1.
  eapply npost_bind; [apply p_expect_npost; auto; vm_compute; intro; discriminate|].
  intros tk p2 Hi2 Hq2. cbn beta in Hq2.
  eapply npost_bind; [apply Hw; auto; lia|]. intros n2 p3 Hi3 Hq3. cbn beta in Hq3. fin.
Qed.

Lemma expr_loop_n : forall lf prec n p,
  pk2 p -> (mu p < L)%nat -> (mu p < lf)%nat ->
  npost (fun _ p' => (mu p' <= mu p)%nat) (expr_loop w lf prec n p).
Proof.
  induction lf as [|lf IH]; intros prec n p Hi Hm Hf; [lia|].
  cbn [expr_loop]. pnext p t p1 R. dnrel R.
  destruct (negb (is_binary_op (t_typ t)) || (prec_of (t_typ t) <? prec)) eqn:Ec.
  - destruct ((prec =? 0) && (t_typ t =? pk_itemTernIf)) eqn:Et.
    + assert (Ety : t_typ t = pk_itemTernIf) by lia. tnz Ety Hnz.
      eapply npost_weaken; [apply parse_ternary_n; lia|]. intros; cbn beta in *; lia.
    + fin.
  - assert (Hbin : is_binary_op (t_typ t) = true) by (destruct (is_binary_op (t_typ t)); cbn in Ec; auto; discriminate).
    apply is_binary_op_nz in Hbin.
    eapply npost_bind; [apply Hw; lia|]. intros n2 p2 Hi2 Hq2. cbn beta in Hq2.
    destruct (new_binary_op t n n2).
    + eapply npost_weaken; [apply IH; auto; lia|]. intros; cbn beta in *; lia.
    + apply npost_errorf.
Qed.

Lemma data_ref_loop_n : forall lf pos key acc p,
  pk2 p -> (mu p < L)%nat -> (mu p < lf)%nat ->
  npost (fun _ p' => (mu p' <= mu p)%nat) (data_ref_loop w lf pos key acc p).
Proof.
  induction lf as [|lf IH]; intros pos key acc p Hi Hm Hf; [lia|].
  cbn [data_ref_loop]. pnext p t p1 R. dnrel R. cbv zeta.
  destruct ((t_typ t =? pk_itemQuestionDotIdent) || (t_typ t =? pk_itemDotIdent)) eqn:E1.
  { assert (Hnz : t_typ t <> 0) by (intro X; rewrite X in E1; vm_compute in E1; discriminate).
    destruct (slice_from _ (t_val t)) as [v|]; [|exact I].
    eapply npost_weaken; [apply IH; lia|]. intros; cbn beta in *; lia. }
  destruct ((t_typ t =? pk_itemQuestionDotIndex) || (t_typ t =? pk_itemDotIndex)) eqn:E2.
  { assert (Hnz : t_typ t <> 0) by (intro X; rewrite X in E2; vm_compute in E2; discriminate).
    destruct (slice_from _ (t_val t)) as [v|]; [|exact I].
    destruct (parse_int 10 v).
    - eapply npost_weaken; [apply IH; lia|]. intros; cbn beta in *; lia.
    - apply npost_errorf. }
  destruct ((t_typ t =? pk_itemQuestionKey) || (t_typ t =? pk_itemLeftBracket)) eqn:E3.
  { assert (Hnz : t_typ t <> 0) by (intro X; rewrite X in E3; vm_compute in E3; discriminate).
    eapply npost_bind; [apply Hw; lia|]. intros e p2 Hi2 Hq2. cbn beta in Hq2.
    eapply npost_bind; [apply p_expect_npost; auto; vm_compute; intro; discriminate|].
    intros tk p3 Hi3 Hq3. cbn beta in Hq3.
    eapply npost_weaken; [apply IH; auto; lia|]. intros; cbn beta in *; lia. }
  fin.
Qed.

Lemma list_loop_n : forall lf pos items p,
  pk2 p -> (mu p < L)%nat -> (mu p < lf)%nat ->
  npost (fun _ p' => (mu p' <= mu p)%nat) (list_loop w lf pos items p).
Proof.
  induction lf as [|lf IH]; intros pos items p Hi Hm Hf; [lia|].
  cbn [list_loop].
  eapply npost_bind; [apply Hw; auto|]. intros e p1 Hi1 Hq1. cbn beta in Hq1. cbv zeta.
  pnext p1 nx p2 R. dnrel R.
  destruct (N.eqb_spec (t_typ nx) pk_itemRightBracket) as [Ea|Ea].
  { tnz Ea Hnz. fin. }
  destruct (N.eqb_spec (t_typ nx) pk_itemComma) as [Eb|Eb]; cbn [negb].
  - tnz Eb Hnz. eapply npost_weaken; [apply IH; lia|]. intros; cbn beta in *; lia.
  - apply npost_unexpected.
Qed.

Lemma map_loop_n : forall lf pos items key p,
  pk2 p -> (mu p < L)%nat -> (mu p < lf)%nat ->
  npost (fun _ p' => (mu p' <= mu p)%nat) (map_loop w lf pos items key p).
Proof.
  induction lf as [|lf IH]; intros pos items key p Hi Hm Hf; [lia|].
  cbn [map_loop].
  eapply npost_bind; [apply Hw; auto|]. intros e p1 Hi1 Hq1. cbn beta in Hq1. cbv zeta.
  pnext p1 nx p2 R. dnrel R.
  destruct (N.eqb_spec (t_typ nx) pk_itemRightBracket) as [Ea|Ea].
  { tnz Ea Hnz. fin. }
  destruct (N.eqb_spec (t_typ nx) pk_itemComma) as [Eb|Eb]; cbn [negb].
  - tnz Eb Hnz.
    eapply npost_bind; [apply p_expect_npost; [lia|vm_compute; intro; discriminate]|].
    intros kt p3 Hi3 Hq3. cbn beta in Hq3.
    destruct (unquote_string (t_val kt)).
    + eapply npost_bind; [apply p_expect_npost; auto; vm_compute; intro; discriminate|].
      intros ct p4 Hi4 Hq4. cbn beta in Hq4.
      eapply npost_weaken; [apply IH; auto; lia|]. intros; cbn beta in *; lia.
    + apply npost_errorf.
  - apply npost_unexpected.
Qed.

Lemma global_loop_n : forall lf pos name p0 nx p,
  lrel p0 nx p -> (mu p0 < lf)%nat ->
  npost (fun _ p' => (mu p' <= mu p0)%nat) (global_loop lf pos name nx p).
Proof.
  induction lf as [|lf IH]; intros pos name p0 nx p R Hf; [lia|].
  cbn [global_loop]. pose proof R as R0. dnrel R.
  destruct (N.eqb_spec (t_typ nx) pk_itemDotIdent) as [Ea|Ea].
  - tnz Ea Hnz. assert (Hi : pk2 p) by lia. pnext p nx' p1 R'.
    eapply npost_weaken; [apply (IH pos (name ++ t_val nx) p nx' p1); auto; lia|]. intros; cbn beta in *; lia.
  - fin.
Qed.

Lemma func_loop_n : forall lf pos name args p,
  pk2 p -> (mu p < L)%nat -> (mu p < lf)%nat ->
  npost (fun _ p' => (mu p' <= mu p)%nat) (func_loop w lf pos name args p).
Proof.
  induction lf as [|lf IH]; intros pos name args p Hi Hm Hf; [lia|].
  cbn [func_loop].
  eapply npost_bind; [apply Hw; auto|]. intros e p1 Hi1 Hq1. cbn beta in Hq1. cbv zeta.
  pnext p1 nx p2 R. dnrel R.
  destruct (N.eqb_spec (t_typ nx) pk_itemComma) as [Ea|Ea].
  { tnz Ea Hnz. eapply npost_weaken; [apply IH; lia|]. intros; cbn beta in *; lia. }
  destruct (N.eqb_spec (t_typ nx) pk_itemRightParen) as [Eb|Eb].
  - tnz Eb Hnz. fin.
  - apply npost_unexpected.
Qed.

Variable lf : nat.
Hypothesis Hlf : (L <= lf)%nat.

Lemma new_function_node_n t p :
  pk2 p -> (mu p < L)%nat ->
  npost (fun _ p' => (mu p' <= mu p)%nat) (new_function_node w lf t p).
Proof.
  intros Hi Hm. unfold new_function_node.
  pose proof (p_peek_lrel p Hi) as K.
  destruct (p_peek_tok p) as [pk p1] eqn:Ep. cbn [fst snd] in K. destruct K as (Kpk & Km & Kn).
  assert (Hi1 : pk2 p1) by lia.
  destruct (N.eqb_spec (t_typ pk) pk_itemRightParen) as [Ea|Ea].
  - tnz Ea Hnz. pnext p1 t2 p2 R. cbn [fst] in Kn. rewrite Kn in R. dnrel R. fin.
  - eapply npost_weaken; [apply func_loop_n; lia|]. intros; cbn beta in *; lia.
Qed.

Lemma parse_map_literal_n pos first p :
  pk2 p -> (mu p < L)%nat ->
  npost (fun _ p' => (mu p' <= mu p)%nat) (parse_map_literal w lf pos first p).
Proof.
  intros Hi Hm. unfold parse_map_literal.
  destruct first; try apply npost_errorf.
  apply map_loop_n; auto; lia.
Qed.

Lemma parse_list_or_map_n t p :
  pk2 p -> (mu p < L)%nat ->
  npost (fun _ p' => (mu p' <= mu p)%nat) (parse_list_or_map w lf t p).
Proof.
  intros Hi Hm. unfold parse_list_or_map. pnext p nx p1 R. dnrel R.
  destruct (N.eqb_spec (t_typ nx) pk_itemColon) as [Ea|Ea].
  { tnz Ea Hnz.
    eapply npost_bind; [apply p_expect_npost; [lia|vm_compute; intro; discriminate]|].
    intros tk p2 Hi2 Hq2. cbn beta in Hq2. fin. }
  destruct (N.eqb_spec (t_typ nx) pk_itemRightBracket) as [Eb|Eb].
  { tnz Eb Hnz. fin. }
  eapply npost_bind; [apply Hw; auto; lia|]. intros first p2 Hi2 Hq2. cbn beta in Hq2.
  cbv zeta. pnext p2 d p3 R'. dnrel R'.
  destruct (N.eqb_spec (t_typ d) pk_itemColon) as [Ec|Ec].
  { tnz Ec Hnz. eapply npost_weaken; [apply parse_map_literal_n; lia|]. intros; cbn beta in *; lia. }
  destruct (N.eqb_spec (t_typ d) pk_itemComma) as [Ed|Ed].
  { tnz Ed Hnz. eapply npost_weaken; [apply list_loop_n; lia|]. intros; cbn beta in *; lia. }
  destruct (N.eqb_spec (t_typ d) pk_itemRightBracket) as [Ee|Ee].
  { tnz Ee Hnz. fin. }
  apply npost_unexpected.
Qed.

Lemma new_value_node_n t p :
  pk2 p -> (mu p < L)%nat ->
  npost (fun _ p' => (mu p' <= mu p)%nat) (new_value_node w lf t p).
Proof.
  intros Hi Hm. unfold new_value_node. cbv zeta.
  destruct (t_typ t =? pk_itemNull); [fin|].
  destruct (t_typ t =? pk_itemBool); [fin|].
  destruct (t_typ t =? pk_itemInteger).
  { match goal with |- context [match ?r with Some _ => _ | None => _ end] => destruct r end;
      [fin|apply npost_errorf]. }
  destruct (t_typ t =? pk_itemFloat).
  { destruct (parse_float (t_val t)); [fin|].
    destruct (parse_float_round (t_val t)); [fin|apply npost_errorf|apply npost_errorf]. }
  destruct (t_typ t =? pk_itemString).
  { destruct (unquote_string (t_val t)); [fin|apply npost_errorf]. }
  destruct (t_typ t =? pk_itemLeftBracket); [apply parse_list_or_map_n; auto|].
  destruct (t_typ t =? pk_itemDollarIdent).
  { unfold parse_data_ref. destruct (slice_from 1 (t_val t)) as [v|]; [|exact I].
    apply data_ref_loop_n; auto; lia. }
  destruct (t_typ t =? pk_itemIdent).
  { pnext p nx p1 R. pose proof R as R0. dnrel R.
    destruct (N.eqb_spec (t_typ nx) pk_itemLeftParen) as [Ea|Ea]; cbn [negb].
    - tnz Ea Hnz. eapply npost_weaken; [apply new_function_node_n; lia|]. intros; cbn beta in *; lia.
    - eapply global_loop_n; eauto; lia. }
  apply npost_errorf.
Qed.

Lemma parse_first_term_n p :
  pk2 p -> (mu p <= L)%nat ->
  npost (fun _ p' => (mu p' < mu p)%nat) (parse_first_term w lf p).
Proof.
  intros Hi Hm. unfold parse_first_term. pnext p t p1 R. dnrel R.
  destruct (is_unary_op (t_typ t)) eqn:Eu.
  { apply is_unary_op_nz in Eu.
    eapply npost_bind; [apply Hw; lia|]. intros n p2 Hi2 Hq2. cbn beta in Hq2.
    destruct (new_unary_op t n); [fin|apply npost_errorf]. }
  destruct (N.eqb_spec (t_typ t) pk_itemLeftParen) as [Ea|Ea].
  { tnz Ea Hnz.
    eapply npost_bind; [apply Hw; lia|]. intros n p2 Hi2 Hq2. cbn beta in Hq2.
    eapply npost_bind; [apply p_expect_npost; auto; vm_compute; intro; discriminate|].
    intros tk p3 Hi3 Hq3. cbn beta in Hq3. fin. }
  destruct (is_value (t_typ t)) eqn:Ev.
  { apply is_value_nz in Ev.
    eapply npost_weaken; [apply new_value_node_n; lia|]. intros; cbn beta in *; lia. }
  apply npost_unexpected.
Qed.

Lemma parse_expr_body_n prec p :
  pk2 p -> (mu p <= L)%nat ->
  npost (fun _ p' => (mu p' < mu p)%nat) (parse_expr_body w lf prec p).
Proof.
  intros Hi Hm. unfold parse_expr_body.
  eapply npost_bind; [apply parse_first_term_n; auto|]. intros n p1 Hi1 Hq1. cbn beta in Hq1.
  eapply npost_weaken; [apply expr_loop_n; auto; lia|]. intros; cbn beta in *; lia.
Qed.
End Level.

(* fuel mu + 1 suffices, on every state with peekCount <= 2 *)
Theorem parse_expr_n : forall f prec p,
  pk2 p -> (mu p < f)%nat -> npost (fun _ p' => (mu p' < mu p)%nat) (parse_expr f prec p).
Proof.
  induction f as [|f IH]; intros prec p Hi Hm; [lia|].
  cbn [parse_expr]. apply parse_expr_body_n with (L := f); auto; lia.
Qed.

Theorem parse_expr_not_fuel f prec p : pk2 p -> (mu p < f)%nat -> parse_expr f prec p <> PFuel.
Proof. intros Hi Hm. exact (npost_not_fuel _ _ (parse_expr_n f prec p Hi Hm)). Qed.

Lemma parse_expr_fuel_enough : forall ts prec, parse_expr (expr_fuel ts) prec (pst_init ts) <> PFuel.
Proof.
  intros ts prec. apply parse_expr_not_fuel.
  - cbn [pst_init p_peek]. lia.
  - pose proof (mu_init ts). unfold expr_fuel. lia.
Qed.

(* ---------- 3. the budget contract of the command round trip ---------- *)
Theorem expr_fuel_ok : forall ts e rest,
  Parses 0 ts e rest -> exists p', parse_expr (expr_fuel ts) 0 (pst_init ts) = POk e p'.
Proof.
  intros ts e rest HP.
  destruct (stream_init ts) as (Hs & Hinv).
  destruct (HP (pst_init ts) Hs Hinv) as (st' & _ & _ & f0 & Hf0).
  exists st'.
  set (F := Nat.max f0 (expr_fuel ts)).
  assert (HF : parse_expr F 0 (pst_init ts) = POk e st') by (apply (Hf0 F F); unfold F; lia).
  assert (Hle : (expr_fuel ts <= F)%nat) by (unfold F; lia).
  pose proof (parse_expr_mono (expr_fuel ts) F 0 (pst_init ts) _ Hle eq_refl (parse_expr_fuel_enough ts 0)) as M.
  rewrite HF in M. symmetry. exact M.
Qed.

Print Assumptions parse_expr_mono.
Print Assumptions parse_print_mono.
Print Assumptions parse_expr_fuel_enough.
Print Assumptions expr_fuel_ok.
