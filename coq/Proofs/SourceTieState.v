(* Source tie, common part for the translated functions with loops and state (tablegen's gotrans, LOOPS / STATE in
   go/cmd/tablegen/gotrans.go): facts about go_wrap_s below 2^62, go_len, go_index / go_set_nth / go_slice_l at the top
   of a stack kept in reverse.  Self-contained (Model/Bytes.v and the generated tables only). *)
From Coq Require Import ZArith NArith Bool Lia ZifyBool ZifyN List.
From Soy Require Import Model.Bytes Generated.Tables Proofs.SourceTieBase.
Import ListNotations.
Open Scope N_scope.

Definition st_small (n : Z) : Prop := (0 <= n < 4611686018427387904)%Z.

Lemma st_wrap64 (x : Z) : (-4611686018427387904 <= x <= 4611686018427387904)%Z -> go_wrap_s 64%Z x = x.
Proof.
  intros H. apply go_wrap_s_id; [lia|]. change (2 ^ (64 - 1))%Z with 9223372036854775808%Z. lia.
Qed.

(* ---- the map and slice vocabulary against the model's ---- *)
Lemma st_go_len_app {A} (l1 l2 : list A) : go_len (l1 ++ l2) = (go_len l1 + go_len l2)%Z.
Proof. unfold go_len. rewrite app_length. lia. Qed.

Lemma st_go_len_rev {A} (l : list A) : go_len (rev l) = go_len l.
Proof. unfold go_len. now rewrite rev_length. Qed.

Lemma st_go_len_cons {A} (x : A) (l : list A) : go_len (x :: l) = (go_len l + 1)%Z.
Proof. unfold go_len. cbn [length]. lia. Qed.

Lemma st_go_len_nonneg {A} (l : list A) : (0 <= go_len l)%Z.
Proof. unfold go_len. lia. Qed.

(* the element i places below the top of the Go stack is element i of the model's scope *)
Lemma go_index_rev {A} (s : list A) (i : nat) :
  (i < length s)%nat -> go_index (rev s) (go_len s - 1 - Z.of_nat i)%Z = nth_error s i.
Proof.
  intros H. unfold go_index. rewrite st_go_len_rev. unfold go_len.
  replace (orb _ _) with false by lia.
  replace (Z.to_nat (Z.of_nat (length s) - 1 - Z.of_nat i)) with (length s - S i)%nat by lia.
  revert i H. induction s as [|x s IH]; intros i H; cbn [length] in *; [lia|].
  cbn [rev]. destruct i as [|i].
  - rewrite nth_error_app2 by (rewrite rev_length; lia). rewrite rev_length.
    replace (S (length s) - 1 - length s)%nat with O by lia. reflexivity.
  - rewrite nth_error_app1 by (rewrite rev_length; lia).
    replace (S (length s) - S (S i))%nat with (length s - S i)%nat by lia. cbn [nth_error]. apply IH. lia.
Qed.

Lemma go_index_top {A} (r : list A) (f : A) : go_index (rev (f :: r)) (go_len (f :: r) - 1)%Z = Some f.
Proof.
  replace (go_len (f :: r) - 1)%Z with (go_len (f :: r) - 1 - Z.of_nat 0)%Z by lia.
  rewrite go_index_rev by (cbn [length]; lia). reflexivity.
Qed.

Lemma go_set_nth_top {A} (r : list A) (f x : A) :
  go_set_nth (rev (f :: r)) (go_len (f :: r) - 1)%Z x = Some (rev (x :: r)).
Proof.
  unfold go_set_nth. rewrite st_go_len_rev. pose proof (st_go_len_nonneg r). rewrite st_go_len_cons.
  replace (orb _ _) with false by lia. f_equal. cbn [rev].
  replace (Z.to_nat (go_len r + 1 - 1)) with (length (rev r)) by (rewrite rev_length; unfold go_len; lia).
  generalize (rev r) as l. induction l as [|y l IH]; cbn [app length go_set_nth_nat]; [reflexivity|]. now rewrite IH.
Qed.

Lemma go_slice_l_pop {A} (r : list A) (f : A) :
  go_slice_l (rev (f :: r)) 0%Z (go_len (f :: r) - 1)%Z = Some (rev r).
Proof.
  unfold go_slice_l. rewrite st_go_len_rev. pose proof (st_go_len_nonneg r). rewrite st_go_len_cons.
  replace (orb _ _) with false by lia. f_equal. change (Z.to_nat 0) with O. cbn [skipn rev].
  replace (Z.to_nat (go_len r + 1 - 1 - 0)) with (length (rev r) + 0)%nat by (rewrite rev_length; unfold go_len; lia).
  rewrite firstn_app_2. cbn [firstn]. apply app_nil_r.
Qed.

Lemma st_skipn_S {A} (i : nat) (s : list A) (f : A) (rest : list A) : skipn i s = f :: rest -> skipn (S i) s = rest.
Proof.
  revert s. induction i as [|i IH]; intros [|x s] E; cbn [skipn] in E; try discriminate.
  - now inversion E.
  - cbn [skipn]. apply IH in E. exact E.
Qed.

Lemma st_dec_of_Z_of_N (n : N) : dec_of_Z (Z.of_N n) = dec_of_N n.
Proof. destruct n; reflexivity. Qed.


(* re.ReplaceAllString(s, repl) of a package-level regexp stays a parameter of the translation (regular expressions are
   not modelled).  The instance for a hand-written matcher f that implements the replacement with the template `want`:
   with any other template the instance answers the empty string, so a lemma `model = source` also says that the source
   passes exactly this template. *)
Definition st_re (f : bstr -> bstr) (want : bstr) (s repl : bstr) : bstr := if bstr_eqb repl want then f s else [].
