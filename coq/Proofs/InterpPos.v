(* The tree walker does not look at node positions of expressions: s.node (the state's [cur]) is written by
   every walk step and read by nobody but error reporting.  Two states that agree on every field but [cur]
   are taken to such states, with the same outcome, (1) by the walker on the same tree -- every node kind --
   and (2) by the walker on an expression tree and on the same tree with all positions erased.
   Instance of the relational walker principle of Proofs/InterpRel.v. *)
From Soy Require Import Model.Bytes Model.Num Model.Values Model.Outcome Model.Ast
  Model.Escape Model.Directives Model.Print Generated.Tables Model.Interp Spec.ExprSyntax
  Proofs.InterpLogic Proofs.InterpGuard Proofs.InterpRel Proofs.SafetyMono Proofs.ExprParserProofs.
Require Import Lia.
Open Scope N_scope.

(* equal but for [cur] *)
Definition eqc (a b : mstate) : Prop :=
  ctx a = ctx b /\ mode a = mode b /\ tmpl a = tmpl b /\ depth_ a = depth_ b /\ out a = out b /\ bufs a = bufs b /\
  calls_left a = calls_left b /\ bytes_left a = bytes_left b /\ next_id a = next_id b /\ unbound a = unbound b /\
  shared_writes a = shared_writes b.

Definition PhiC {A} (m1 m2 : M A) : Prop :=
  forall a b, eqc a b -> fst (m1 a) = fst (m2 b) /\ eqc (snd (m1 a)) (snd (m2 b)).

Ltac eqc_open H :=
  let H1 := fresh in let H2 := fresh in let H3 := fresh in let H4 := fresh in let H5 := fresh in let H6 := fresh in
  let H7 := fresh in let H8 := fresh in let H9 := fresh in let H10 := fresh in let H11 := fresh in
  destruct H as (H1 & H2 & H3 & H4 & H5 & H6 & H7 & H8 & H9 & H10 & H11).

Ltac eqc_solve := unfold eqc; cbn; repeat split; congruence.

(* a state function that neither reads nor writes [cur] *)
Ltac prim :=
  let a := fresh "a" in let b := fresh "b" in let H := fresh "H" in
  intros a b H; destruct a, b; unfold eqc in H; cbn in H; eqc_open H; subst.

Lemma eqc_refl a : eqc a a. Proof. unfold eqc. repeat split. Qed.

Lemma PhiC_bind {A B} (m1 m2 : M A) (f1 f2 : A -> M B) :
  PhiC m1 m2 -> (forall x, PhiC (f1 x) (f2 x)) -> PhiC (mbind m1 f1) (mbind m2 f2).
Proof.
  intros Hm Hf a b H. unfold mbind. specialize (Hm a b H). destruct (m1 a) as [r1 s1], (m2 b) as [r2 s2]. cbn [fst snd] in Hm.
  destruct Hm as [-> He]. destruct r2; try (split; [reflexivity|exact He]). apply Hf. exact He.
Qed.

Lemma eqc_set_cur a b p q : eqc a b -> eqc (set_cur a p) (set_cur b q).
Proof. intros H. destruct a, b. unfold eqc in *. cbn in *. exact H. Qed.
Lemma eqc_pushed a b : eqc a b -> eqc (pushed a) (pushed b).
Proof. intros H. destruct a, b. unfold eqc, pushed in *. cbn in *. eqc_open H. subst. repeat split. Qed.
Lemma eqc_popped a b : eqc a b -> eqc (popped a) (popped b).
Proof. intros H. destruct a, b. unfold eqc, popped in *. cbn in *. eqc_open H. subst. repeat split. Qed.
Lemma eqc_buf_pushed a b : eqc a b -> eqc (buf_pushed a) (buf_pushed b).
Proof. intros H. destruct a, b. unfold eqc, buf_pushed in *. cbn in *. eqc_open H. subst. repeat split. Qed.
Lemma eqc_set_bufs a b r : eqc a b -> eqc (set_bufs a r) (set_bufs b r).
Proof. intros H. destruct a, b. unfold eqc in *. cbn in *. eqc_open H. subst. repeat split. Qed.
Lemma eqc_entered a b callee cd : eqc a b -> eqc (entered a callee cd) (entered b callee cd).
Proof. intros H. destruct a, b. unfold eqc, entered in *. cbn in *. eqc_open H. subst. repeat split. Qed.
Lemma eqc_left a b a' b' : eqc a b -> eqc a' b' -> eqc (left a a') (left b b').
Proof. intros H H'. destruct a, b, a', b'. unfold eqc, left in *. cbn in *. eqc_open H. eqc_open H'. subst. repeat split. Qed.
Lemma eqc_bufs a b : eqc a b -> bufs a = bufs b. Proof. intros H. eqc_open H. assumption. Qed.

Lemma PhiC_logic : walker_logic_r (fun _ => true) (@PhiC) (@PhiC value) (fun _ _ => True).
Proof.
  constructor.
  - intros A m1 m1' m2 m2' H1 H2 H a b He. rewrite <- H1, <- H2. apply H. exact He.
  - intros A x a b H. split; [reflexivity|exact H].
  - intros A e a b H. split; [reflexivity|exact H].
  - intros A o _ a b H. split; [reflexivity|exact H].
  - intros A B m1 m2 f1 f2. apply PhiC_bind.
  - intros p a b H. split; [reflexivity|]. cbn. apply eqc_set_cur. exact H.
  - intros p name body ae priv _. prim. split; [reflexivity|eqc_solve].
  - intros w. prim. unfold write. cbn.
    destruct bufs0 as [|bf rest]; [|split; [reflexivity|eqc_solve]].
    destruct calls_left0 as [[|k]|]; try (split; [reflexivity|eqc_solve]);
      (destruct bytes_left0 as [kb|]; [destruct (N.of_nat (length w) <=? kb)|]; split; try reflexivity; eqc_solve).
  - intros k v. prim. unfold m_set. cbn. destruct ctx0 as [|fr rs]; [split; [reflexivity|eqc_solve]|].
    destruct (sc_top_origin (fr :: rs)); split; try reflexivity; eqc_solve.
  - intros k. prim. unfold m_lookup. cbn. destruct (sc_lookup ctx0 k); split; try reflexivity; eqc_solve.
  - intros l. prim. unfold fresh_list. destruct l; split; try reflexivity; eqc_solve.
  - intros l. prim. unfold fresh_list_or_nil. destruct l; split; try reflexivity; eqc_solve.
  - intros m. prim. unfold fresh_map. split; [reflexivity|eqc_solve].
  - intros B f1 f2 Hf a b H.
    change ((st <-- get ;;; f1 (mode st)) a) with (f1 (mode a) a).
    change ((st <-- get ;;; f2 (mode st)) b) with (f2 (mode b) b).
    assert (E : mode a = mode b) by (eqc_open H; assumption). rewrite E. apply Hf. exact H.
  - intros B f1 f2 Hf a b H.
    change ((st <-- get ;;; f1 (ctx st)) a) with (f1 (ctx a) a).
    change ((st <-- get ;;; f2 (ctx st)) b) with (f2 (ctx b) b).
    assert (E : ctx a = ctx b) by (eqc_open H; assumption). rewrite E. apply Hf. exact H.
  - intros m1 m2 Hm a b H. rewrite !scoped_eq.
    destruct (Hm (pushed a) (pushed b) (eqc_pushed _ _ H)) as [E He]. rewrite E.
    destruct (classify (fst (m2 (pushed b)))); (split; [reflexivity|]); [apply eqc_popped|]; exact He.
  - intros w1 w2 e Hw a b H. rewrite !eval_eq.
    destruct (Hw a b H) as [E He]. rewrite E.
    destruct (classify (fst (w2 e b))); (split; [reflexivity|]); [apply eqc_set_cur|]; exact He.
  - intros w1 w2 body Hw a b H. rewrite !render_block_eq.
    destruct (Hw (buf_pushed a) (buf_pushed b) (eqc_buf_pushed _ _ H)) as [E He]. rewrite E.
    destruct (classify (fst (w2 body (buf_pushed b)))); [|split; [reflexivity|exact He]].
    cbn zeta. rewrite (eqc_bufs _ _ He). destruct (bufs (snd (w2 body (buf_pushed b)))); (split; [reflexivity|]); [exact He|apply eqc_set_bufs; exact He].
  - intros w1 w2 callee cd Hw a b H. rewrite !call_enter_eq. cbn zeta.
    destruct (Hw (entered a callee cd) (entered b callee cd) (eqc_entered _ _ _ _ H)) as [E He]. rewrite E.
    split; [reflexivity|]. apply eqc_left; assumption.
Qed.

Lemma trivial_sites : pure_sites (fun _ _ => True).
Proof. constructor; intros; exact I. Qed.

Section Walk.
Variable cf : cfg.

(* (1) the walker respects "equal but for cur", on every node *)
Theorem walk_eqc : forall fuel n, PhiC (walk cf fuel n) (walk cf fuel n).
Proof.
  induction fuel as [|f IH]; intros n.
  - intros a b H. split; [reflexivity|exact H].
  - rewrite walk_S.
    refine (rphi_walk_body cf (fun _ => true) (@PhiC) (@PhiC value) (fun _ _ => True) PhiC_logic trivial_sites
              (fun _ _ => eq_refl) (walk cf f) (walk cf f) (fun n' _ => IH n') (fun t _ => IH (t_node t)) n (deep_true n)).
Qed.

(* ---------- expression trees ---------- *)
Definition is_expr (n : node) : bool :=
  match n with
  | NNull _ | NBool _ _ | NInt _ _ | NFloat _ _ | NString _ _ _ | NGlobal _ _ _ | NFunc _ _ _ | NListLit _ _ | NMapLit _ _
  | NDataRef _ _ _ | NAccIndex _ _ _ | NAccKey _ _ _ | NAccExpr _ _ _ | NNot _ _ | NNeg _ _ | NBin _ _ _ _ | NTern _ _ _ _ => true
  | _ => false
  end.
Definition expr_tree (n : node) : bool := deep is_expr n.

(* one unfolding of the walker on a position-free copy: the recursive calls go to the copies of the children *)
Section Copy.
Variables w w' : node -> M value.
Hypothesis Hww : forall c, expr_tree c = true -> forall st, w' c st = w (strip_pos c) st.

Lemma eval_copy e : expr_tree e = true -> forall st, eval w' e st = eval w (strip_pos e) st.
Proof. intros He st. rewrite !eval_eq, (Hww e He). reflexivity. Qed.

Lemma mbind_ext {A B} (m1 m2 : M A) (f1 f2 : A -> M B) st :
  m1 st = m2 st -> (forall x st', f1 x st' = f2 x st') -> mbind m1 f1 st = mbind m2 f2 st.
Proof. intros Hm Hf. unfold mbind. rewrite Hm. destruct (m2 st) as [[] s]; try reflexivity. apply Hf. Qed.

Lemma evaldef_copy e : expr_tree e = true -> forall st, evaldef w' e st = evaldef w (strip_pos e) st.
Proof. intros He st. unfold evaldef. apply mbind_ext; [apply eval_copy; exact He|reflexivity]. Qed.

Lemma eval_list_copy es : forallb expr_tree es = true -> forall st, eval_list w' es st = eval_list w (map strip_pos es) st.
Proof.
  induction es as [|e r IH]; intros H st; [reflexivity|]. cbn [forallb] in H. apply Bool.andb_true_iff in H. destruct H as [H1 H2].
  cbn [eval_list map]. apply mbind_ext; [apply eval_copy; exact H1|]. intros v st'. apply mbind_ext; [apply IH; exact H2|reflexivity].
Qed.

Lemma maplit_copy l : forallb (fun kv => expr_tree (snd kv)) l = true ->
  forall st, maplit_items w' l st = maplit_items w (map (fun kv => (fst kv, strip_pos (snd kv))) l) st.
Proof.
  induction l as [|[k e] r IH]; intros H st; [reflexivity|]. cbn [forallb snd] in H. apply Bool.andb_true_iff in H. destruct H as [H1 H2].
  cbn [maplit_items map fst snd]. apply mbind_ext; [apply eval_copy; exact H1|]. intros v st'. apply mbind_ext; [apply IH; exact H2|reflexivity].
Qed.

Lemma dataref_copy acc : forallb expr_tree acc = true ->
  forall ref st, dataref_access w' acc ref st = dataref_access w (map strip_pos acc) ref st.
Proof.
  induction acc as [|a r IH]; intros H ref st; [reflexivity|]. cbn [forallb] in H. apply Bool.andb_true_iff in H. destruct H as [H1 H2].
  cbn [dataref_access map]. apply mbind_ext.
  - destruct a; try reflexivity. cbn [strip_pos]. apply mbind_ext; [|reflexivity]. apply eval_copy.
    unfold expr_tree in *. cbn [deep] in H1. apply Bool.andb_true_iff in H1. tauto.
  - intros [oi k] st'. assert (Ens : is_nullsafe (strip_pos a) = is_nullsafe a) by (destruct a; reflexivity). rewrite Ens.
    destruct ref; try reflexivity; destruct oi; try reflexivity; apply IH; exact H2.
Qed.

Lemma walk_node_copy n : expr_tree n = true -> forall st, walk_node cf w' n st = walk_node cf w (strip_pos n) st.
Proof.
  intros Hn st. unfold expr_tree in Hn. destruct n; cbn [deep is_expr andb] in Hn; try discriminate; cbn [strip_pos walk_node]; try reflexivity.
  - (* function *) destruct (fn_is name n_index || fn_is name n_isFirst || fn_is name n_isLast).
    + unfold loop_func. destruct args as [|a0 r]; [reflexivity|]. cbn [map]. destruct a0; reflexivity.
    + unfold call_func. destruct (func_arities name); [|reflexivity]. rewrite map_length.
      destruct (negb (mem (N.of_nat (length args)) l)); [reflexivity|]. apply mbind_ext; [apply eval_list_copy; exact Hn|reflexivity].
  - (* list literal *) apply mbind_ext; [apply eval_list_copy; exact Hn|reflexivity].
  - (* map literal *) apply mbind_ext; [apply maplit_copy; exact Hn|reflexivity].
  - (* data reference *) apply mbind_ext; [reflexivity|]. intros ref st'. apply dataref_copy. exact Hn.
  - (* not *) apply mbind_ext; [apply eval_copy; exact Hn|reflexivity].
  - (* negate *) apply mbind_ext; [apply evaldef_copy; exact Hn|reflexivity].
  - (* binary *) apply Bool.andb_true_iff in Hn. destruct Hn as [H1 H2].
    destruct op;
      try (apply mbind_ext; [apply evaldef_copy; exact H1|]; intros x st'; apply mbind_ext; [apply evaldef_copy; exact H2|reflexivity]);
      try (apply mbind_ext; [apply eval_copy; exact H1|]; intros x st'; apply mbind_ext; [apply eval_copy; exact H2|reflexivity]).
    + apply mbind_ext; [apply eval_copy; exact H1|]. intros x st'. destruct (truthy x); [reflexivity|].
      apply mbind_ext; [apply eval_copy; exact H2|reflexivity].
    + apply mbind_ext; [apply eval_copy; exact H1|]. intros x st'. destruct (truthy x); [|reflexivity].
      apply mbind_ext; [apply eval_copy; exact H2|reflexivity].
    + apply mbind_ext; [apply eval_copy; exact H1|]. intros x st'. destruct (is_nullish x); [apply eval_copy; exact H2|reflexivity].
  - (* ternary *) apply Bool.andb_true_iff in Hn. destruct Hn as [H12 H3]. apply Bool.andb_true_iff in H12. destruct H12 as [H1 H2].
    apply mbind_ext; [apply eval_copy; exact H1|]. intros c st'. destruct (truthy c); apply eval_copy; assumption.
Qed.
End Copy.

Lemma PhiC_ext_r {A} (m1 m2 m2' : M A) : PhiC m1 m2 -> (forall st, m2 st = m2' st) -> PhiC m1 m2'.
Proof. intros H E a b He. rewrite <- E. apply H. exact He. Qed.

(* (2) on an expression tree, erasing the node positions changes nothing but [cur] *)
Theorem walk_strip : forall fuel n, expr_tree n = true -> PhiC (walk cf fuel n) (walk cf fuel (strip_pos n)).
Proof.
  induction fuel as [|f IH]; intros n Hn.
  - intros a b H. split; [reflexivity|exact H].
  - rewrite !walk_S. unfold walk_body. apply PhiC_bind.
    + intros a b H. split; [reflexivity|]. cbn. apply eqc_set_cur. exact H.
    + intros _.
      set (w2 := fun c : node => if expr_tree c then walk cf f (strip_pos c) else walk cf f c).
      assert (Hw : forall c, PhiC (walk cf f c) (w2 c)).
      { intros c. unfold w2. destruct (expr_tree c) eqn:Ec; [apply IH; exact Ec|apply walk_eqc]. }
      apply (PhiC_ext_r _ (walk_node cf w2 n)).
      * refine (rphi_walk_node cf (fun _ => true) (@PhiC) (@PhiC value) (fun _ _ => True) PhiC_logic trivial_sites
                  (fun _ _ => eq_refl) (walk cf f) w2 (fun c _ => Hw c) (fun t _ => Hw (t_node t)) n (deep_true n)).
      * intros st. apply (walk_node_copy (walk cf f) w2); [|exact Hn].
        intros c Hc st'. unfold w2. rewrite Hc. reflexivity.
Qed.

(* as an equation on outcomes: same result; the final states agree on every field but [cur] *)
Corollary walk_strip_run fuel n st : expr_tree n = true ->
  fst (walk cf fuel n st) = fst (walk cf fuel (strip_pos n) st) /\ eqc (snd (walk cf fuel n st)) (snd (walk cf fuel (strip_pos n) st)).
Proof. intros Hn. apply (walk_strip fuel n Hn st st (eqc_refl st)). Qed.

End Walk.

(* erasing positions keeps the node kinds: a tree is an expression tree iff its position-free copy is *)
Lemma expr_tree_strip : forall n, expr_tree (strip_pos n) = expr_tree n.
Proof.
  induction n as [n IH] using size_induction. unfold expr_tree in *.
  assert (Hl : forall l, (forall c, In c l -> (size c < size n)%nat) -> forallb (deep is_expr) (map strip_pos l) = forallb (deep is_expr) l).
  { induction l as [|c r IHl]; intros H; [reflexivity|]. cbn [map forallb]. rewrite IH by (apply H; left; reflexivity).
    rewrite IHl by (intros d Hd; apply H; right; exact Hd). reflexivity. }
  assert (Hkv : forall l : list (bstr * node), (forall kv, In kv l -> (size (snd kv) < size n)%nat) ->
            forallb (fun kv => deep is_expr (snd kv)) (map (fun kv => (fst kv, strip_pos (snd kv))) l) = forallb (fun kv => deep is_expr (snd kv)) l).
  { induction l as [|kv r IHl]; intros H; [reflexivity|]. cbn [map forallb fst snd]. rewrite IH by (apply H; left; reflexivity).
    rewrite IHl by (intros d Hd; apply H; right; exact Hd). reflexivity. }
  destruct n; try reflexivity; cbn [strip_pos deep is_expr andb].
  - apply Hl. intros c Hc. cbn [size]. pose proof (size_in_list c args Hc). lia.
  - apply Hl. intros c Hc. cbn [size]. pose proof (size_in_list c items Hc). lia.
  - apply Hkv. intros kv Hin. cbn [size]. pose proof (list_sum_In (fun kv => size (snd kv)) kv _ Hin). lia.
  - apply Hl. intros c Hc. cbn [size]. pose proof (size_in_list c access Hc). lia.
  - apply IH. cbn [size]. lia.
  - apply IH. cbn [size]. lia.
  - apply IH. cbn [size]. lia.
  - rewrite !IH by (cbn [size]; lia). reflexivity.
  - rewrite !IH by (cbn [size]; lia). reflexivity.
Qed.
