(* The expression parser model does not look at item positions: running it on the items with
   every position set to 0 gives the result of the original run with every position set to 0
   (tree by [strip_pos], error item and parser state by [strip_tok]).  Success, error class, crash
   and fuel exhaustion are the same.  One commutation lemma per procedure of Model/ExprParser.v,
   closed by induction on the fuel.

   Used to lift the token-level round trip (tokens_of carries node positions, structural items
   position 0) to the items the scanner really sends (every item carries the offset of its end). *)
From Soy Require Import Model.Bytes Model.Num Model.Values Model.Ast Model.Token Model.NumLit Model.Quote Model.ExprParser
  Model.AstPrint Generated.Tables Spec.ExprSyntax Proofs.ExprParserRules.
Require Import Lia ZifyBool ZifyNat ZifyN.
Open Scope N_scope.

(* ---- the state with all positions erased ---- *)
Definition zs (st : pst) : pst :=
  {| p_rest := map strip_tok (p_rest st); p_tok0 := strip_tok (p_tok0 st); p_tok1 := strip_tok (p_tok1 st);
     p_peek := p_peek st; p_recv := p_recv st |}.

Definition zr {A} (g : A -> A) (r : presult A) : presult A :=
  match r with
  | POk a st => POk (g a) (zs st)
  | PErr t c st => PErr (strip_tok t) c (zs st)
  | PCrash m => PCrash m
  | PFuel => PFuel
  end.

(* an expression node: its position is one that strip_pos erases *)
Definition isx (n : node) : Prop := pos_of (strip_pos n) = 0.
Definition anyok {A} (_ : A) : Prop := True.

(* [r'] is the run on erased items of the run [r]; and what [r] returns satisfies [ok] *)
Definition sim {A} (g : A -> A) (ok : A -> Prop) (r r' : presult A) : Prop :=
  zr g r = r' /\ match r with POk a _ => ok a | _ => True end.

Lemma sim_bind {A B} (h : A -> A) (okh : A -> Prop) (g : B -> B) (okg : B -> Prop) x x' k k' :
  sim h okh x x' -> (forall a st, okh a -> sim g okg (k a st) (k' (h a) (zs st))) ->
  sim g okg (pbind x k) (pbind x' k').
Proof.
  intros [Hx Hok] Hk. subst x'. destruct x as [a st|t c st|m|]; cbn [pbind zr]; try (split; [reflexivity|exact I]).
  apply Hk. exact Hok.
Qed.

Lemma sim_ok {A} (g : A -> A) (ok : A -> Prop) a st : ok a -> sim g ok (POk a st) (POk (g a) (zs st)).
Proof. intros H. split; [reflexivity|exact H]. Qed.
Lemma sim_err {A} (g : A -> A) (ok : A -> Prop) t c st : sim g ok (PErr t c st) (PErr (strip_tok t) c (zs st)).
Proof. split; [reflexivity|exact I]. Qed.
Lemma sim_crash {A} (g : A -> A) (ok : A -> Prop) m : sim g ok (PCrash m) (PCrash m).
Proof. split; [reflexivity|exact I]. Qed.
Lemma sim_fuel {A} (g : A -> A) (ok : A -> Prop) : sim g ok (@PFuel A) PFuel.
Proof. split; [reflexivity|exact I]. Qed.

Lemma strip_zero : strip_tok zero_tok = zero_tok. Proof. reflexivity. Qed.
Lemma typ_strip t : t_typ (strip_tok t) = t_typ t. Proof. reflexivity. Qed.
Lemma val_strip t : t_val (strip_tok t) = t_val t. Proof. reflexivity. Qed.
Lemma pos_strip t : t_pos (strip_tok t) = 0. Proof. reflexivity. Qed.

(* ---- token plumbing ---- *)
Lemma p_next_zs st : p_next (zs st) = (strip_tok (fst (p_next st)), zs (snd (p_next st))).
Proof.
  destruct st as [rest t0 t1 pk rc]. unfold p_next, zs, recv. cbn [p_peek p_rest p_tok0 p_tok1 p_recv].
  destruct pk as [|[|pk]]; [destruct rest as [|t r]|..]; reflexivity.
Qed.

Lemma p_peek_zs st : p_peek_tok (zs st) = (strip_tok (fst (p_peek_tok st)), zs (snd (p_peek_tok st))).
Proof.
  destruct st as [rest t0 t1 pk rc]. unfold p_peek_tok, zs, recv. cbn [p_peek p_rest p_tok0 p_tok1 p_recv].
  destruct pk as [|[|pk]]; [destruct rest as [|t r]|..]; reflexivity.
Qed.

Lemma p_backup_zs st : p_backup (zs st) = zs (p_backup st). Proof. reflexivity. Qed.

Lemma err_tok_zs st : err_tok (zs st) = strip_tok (err_tok st).
Proof. destruct st as [rest t0 t1 pk rc]. unfold err_tok, zs. cbn. destruct pk as [|[|pk]]; reflexivity. Qed.

Lemma errorf_sim {A} (g : A -> A) ok c st : sim g ok (p_errorf c st) (p_errorf c (zs st)).
Proof. unfold p_errorf. rewrite err_tok_zs. apply sim_err. Qed.

Lemma unexpected_sim {A} (g : A -> A) ok t st : sim g ok (p_unexpected t st) (p_unexpected (strip_tok t) (zs st)).
Proof. unfold p_unexpected. rewrite typ_strip. destruct (t_typ t =? pk_itemError); apply sim_err. Qed.

Lemma expect_sim typ st : sim strip_tok anyok (p_expect typ st) (p_expect typ (zs st)).
Proof.
  unfold p_expect. rewrite p_next_zs. destruct (p_next st) as [t st1]. cbn [fst snd]. rewrite typ_strip.
  destruct (t_typ t =? typ); [apply sim_ok; exact I | apply unexpected_sim].
Qed.

(* ---- node constructors ---- *)
Lemma new_binary_op_strip t a c :
  new_binary_op (strip_tok t) (strip_pos a) (strip_pos c) = option_map strip_pos (new_binary_op t a c).
Proof.
  unfold new_binary_op. rewrite typ_strip. destruct (assoc (t_typ t) binop_node_table) as [[i x]|]; [|reflexivity].
  destruct (binop_of_index i); reflexivity.
Qed.

Lemma new_binary_op_isx t a c n : new_binary_op t a c = Some n -> isx n.
Proof.
  unfold new_binary_op. destruct (assoc (t_typ t) binop_node_table) as [[i x]|]; [|discriminate].
  destruct (binop_of_index i); [|discriminate]. intros H. injection H as <-. reflexivity.
Qed.

Lemma new_unary_op_strip t a :
  new_unary_op (strip_tok t) (strip_pos a) = option_map strip_pos (new_unary_op t a).
Proof.
  unfold new_unary_op. rewrite typ_strip. destruct (assoc (t_typ t) unop_node_table) as [[|[q|q|]]|]; reflexivity.
Qed.

Lemma new_unary_op_isx t a n : new_unary_op t a = Some n -> isx n.
Proof.
  unfold new_unary_op. destruct (assoc (t_typ t) unop_node_table) as [[|[q|q|]]|]; try discriminate;
    intros H; injection H as <-; reflexivity.
Qed.

Definition strip_kv (kv : bstr * node) : bstr * node := (fst kv, strip_pos (snd kv)).

Lemma items_set_strip items k v :
  items_set (map strip_kv items) k (strip_pos v) = map strip_kv (items_set items k v).
Proof.
  induction items as [|[k' v'] r IH]; [reflexivity|]. cbn [map items_set strip_kv fst snd].
  destruct (bstr_eqb k k'); [reflexivity|]. cbn [map strip_kv fst snd]. rewrite <- IH. reflexivity.
Qed.

(* ---- the loops at fuel 0 ---- *)
Lemma expr_loop_0 w p n st : expr_loop w 0 p n st = PFuel. Proof. reflexivity. Qed.
Lemma data_ref_loop_0 w p key acc st : data_ref_loop w 0 p key acc st = PFuel. Proof. reflexivity. Qed.
Lemma list_loop_0 w p items st : list_loop w 0 p items st = PFuel. Proof. reflexivity. Qed.
Lemma map_loop_0 w p items key st : map_loop w 0 p items key st = PFuel. Proof. reflexivity. Qed.
Lemma global_loop_0 p name nx st : global_loop 0 p name nx st = PFuel. Proof. reflexivity. Qed.
Lemma func_loop_0 w p name args st : func_loop w 0 p name args st = PFuel. Proof. reflexivity. Qed.
Lemma directive_args_loop_0 w args st : directive_args_loop w 0 args st = PFuel. Proof. reflexivity. Qed.
Lemma print_loop_0 w p e dirs st : print_loop w 0 p e dirs st = PFuel. Proof. reflexivity. Qed.
Lemma parse_expr_0 p st : parse_expr 0 p st = PFuel. Proof. reflexivity. Qed.

Section Body.
Variable w : N -> pst -> presult node.
Hypothesis Hw : forall p st, sim strip_pos isx (w p st) (w p (zs st)).

Ltac nxt st t st1 := rewrite p_next_zs; destruct (p_next st) as [t st1]; cbn [fst snd]; rewrite ?typ_strip, ?val_strip, ?pos_strip.

Lemma ternary_sim c st : isx c -> sim strip_pos isx (parse_ternary w c st) (parse_ternary w (strip_pos c) (zs st)).
Proof.
  intros Hc. unfold parse_ternary.
  eapply sim_bind; [apply Hw|]. intros n1 st1 _.
  eapply sim_bind; [apply expect_sim|]. intros _t st2 _.
  eapply sim_bind; [apply Hw|]. intros n2 st3 _.
  unfold isx in Hc. rewrite Hc. apply (sim_ok strip_pos isx (NTern (pos_of c) c n1 n2)). reflexivity.
Qed.

Lemma expr_loop_sim lf : forall p n st, isx n ->
  sim strip_pos isx (expr_loop w lf p n st) (expr_loop w lf p (strip_pos n) (zs st)).
Proof.
  induction lf as [|lf IH]; intros p n st Hn; [rewrite !expr_loop_0; apply sim_fuel|].
  rewrite !expr_loop_S. nxt st t st1. cbv zeta.
  destruct (negb (is_binary_op (t_typ t)) || (prec_of (t_typ t) <? p)).
  - destruct ((p =? 0) && (t_typ t =? pk_itemTernIf)); [apply ternary_sim; exact Hn|].
    rewrite p_backup_zs. apply sim_ok. exact Hn.
  - eapply sim_bind; [apply Hw|]. intros n2 st2 _. rewrite new_binary_op_strip.
    destruct (new_binary_op t n n2) as [bn|] eqn:E; cbn [option_map].
    + apply IH. eapply new_binary_op_isx; exact E.
    + apply errorf_sim.
Qed.

Lemma data_ref_loop_sim lf : forall p key acc st,
  sim strip_pos isx (data_ref_loop w lf p key acc st) (data_ref_loop w lf 0 key (map strip_pos acc) (zs st)).
Proof.
  induction lf as [|lf IH]; intros p key acc st; [rewrite !data_ref_loop_0; apply sim_fuel|].
  rewrite !data_ref_loop_S. nxt st t st1. cbv zeta.
  destruct ((t_typ t =? pk_itemQuestionDotIdent) || (t_typ t =? pk_itemDotIdent)).
  { destruct (slice_from _ (t_val t)) as [k|]; [|apply sim_crash].
    specialize (IH p key (acc ++ [NAccKey (t_pos t) (t_typ t =? pk_itemQuestionDotIdent) k]) st1).
    rewrite map_app in IH. exact IH. }
  destruct ((t_typ t =? pk_itemQuestionDotIndex) || (t_typ t =? pk_itemDotIndex)).
  { destruct (slice_from _ (t_val t)) as [ds|]; [|apply sim_crash].
    destruct (parse_int 10 ds) as [i|]; [|apply errorf_sim].
    specialize (IH p key (acc ++ [NAccIndex (t_pos t) (t_typ t =? pk_itemQuestionDotIndex) i]) st1).
    rewrite map_app in IH. exact IH. }
  destruct ((t_typ t =? pk_itemQuestionKey) || (t_typ t =? pk_itemLeftBracket)).
  { eapply sim_bind; [apply Hw|]. intros e st2 _.
    eapply sim_bind; [apply expect_sim|]. intros _t st3 _.
    specialize (IH p key (acc ++ [NAccExpr (t_pos t) (t_typ t =? pk_itemQuestionKey) e]) st3).
    rewrite map_app in IH. exact IH. }
  rewrite p_backup_zs. apply (sim_ok strip_pos isx (NDataRef p key acc)). reflexivity.
Qed.

Lemma parse_data_ref_sim lf t st :
  sim strip_pos isx (parse_data_ref w lf t st) (parse_data_ref w lf (strip_tok t) (zs st)).
Proof.
  unfold parse_data_ref. rewrite val_strip, pos_strip. destruct (slice_from 1 (t_val t)); [|apply sim_crash].
  apply (data_ref_loop_sim lf (t_pos t) b [] st).
Qed.

Lemma list_loop_sim lf : forall p items st,
  sim strip_pos isx (list_loop w lf p items st) (list_loop w lf 0 (map strip_pos items) (zs st)).
Proof.
  induction lf as [|lf IH]; intros p items st; [rewrite !list_loop_0; apply sim_fuel|].
  rewrite !list_loop_S. eapply sim_bind; [apply Hw|]. intros e st1 _. cbv zeta. nxt st1 nx st2.
  replace (map strip_pos items ++ [strip_pos e]) with (map strip_pos (items ++ [e])) by (rewrite map_app; reflexivity).
  destruct (t_typ nx =? pk_itemRightBracket); [apply (sim_ok strip_pos isx (NListLit p (items ++ [e]))); reflexivity|].
  destruct (negb (t_typ nx =? pk_itemComma)); [apply unexpected_sim|]. apply IH.
Qed.

Lemma map_loop_sim lf : forall p items key st,
  sim strip_pos isx (map_loop w lf p items key st) (map_loop w lf 0 (map strip_kv items) key (zs st)).
Proof.
  induction lf as [|lf IH]; intros p items key st; [rewrite !map_loop_0; apply sim_fuel|].
  rewrite !map_loop_S. eapply sim_bind; [apply Hw|]. intros e st1 _. cbv zeta. nxt st1 nx st2.
  rewrite items_set_strip.
  destruct (t_typ nx =? pk_itemRightBracket); [apply (sim_ok strip_pos isx (NMapLit p (items_set items key e))); reflexivity|].
  destruct (negb (t_typ nx =? pk_itemComma)); [apply unexpected_sim|].
  eapply sim_bind; [apply expect_sim|]. intros kt st3 _. rewrite val_strip.
  destruct (unquote_string (t_val kt)) as [key'|]; [|apply errorf_sim].
  eapply sim_bind; [apply expect_sim|]. intros _t st4 _. apply IH.
Qed.

Lemma parse_map_literal_sim lf p first st :
  sim strip_pos isx (parse_map_literal w lf p first st) (parse_map_literal w lf 0 (strip_pos first) (zs st)).
Proof.
  unfold parse_map_literal. destruct first; cbn [strip_pos]; try apply errorf_sim.
  apply (map_loop_sim lf p [] value st).
Qed.

Lemma parse_list_or_map_sim lf t st :
  sim strip_pos isx (parse_list_or_map w lf t st) (parse_list_or_map w lf (strip_tok t) (zs st)).
Proof.
  unfold parse_list_or_map. nxt st nx st1.
  destruct (t_typ nx =? pk_itemColon).
  { eapply sim_bind; [apply expect_sim|]. intros _t st2 _. apply (sim_ok strip_pos isx (NMapLit (t_pos t) [])). reflexivity. }
  destruct (t_typ nx =? pk_itemRightBracket); [apply (sim_ok strip_pos isx (NListLit (t_pos t) [])); reflexivity|].
  rewrite p_backup_zs. eapply sim_bind; [apply Hw|]. intros first st2 _. nxt st2 d st3.
  destruct (t_typ d =? pk_itemColon); [apply parse_map_literal_sim|].
  destruct (t_typ d =? pk_itemComma); [apply (list_loop_sim lf (t_pos t) [first] st3)|].
  destruct (t_typ d =? pk_itemRightBracket); [apply (sim_ok strip_pos isx (NListLit (t_pos t) [first])); reflexivity|].
  apply unexpected_sim.
Qed.

Lemma global_loop_sim lf : forall p name nx st,
  sim strip_pos isx (global_loop lf p name nx st) (global_loop lf 0 name (strip_tok nx) (zs st)).
Proof.
  induction lf as [|lf IH]; intros p name nx st; [rewrite !global_loop_0; apply sim_fuel|].
  rewrite !global_loop_S. rewrite typ_strip, val_strip. destruct (t_typ nx =? pk_itemDotIdent).
  - nxt st nx' st1. apply IH.
  - rewrite p_backup_zs. apply (sim_ok strip_pos isx (NGlobal p name VUndef)). reflexivity.
Qed.

Lemma func_loop_sim lf : forall p name args st,
  sim strip_pos isx (func_loop w lf p name args st) (func_loop w lf 0 name (map strip_pos args) (zs st)).
Proof.
  induction lf as [|lf IH]; intros p name args st; [rewrite !func_loop_0; apply sim_fuel|].
  rewrite !func_loop_S. eapply sim_bind; [apply Hw|]. intros e st1 _. cbv zeta. nxt st1 nx st2.
  replace (map strip_pos args ++ [strip_pos e]) with (map strip_pos (args ++ [e])) by (rewrite map_app; reflexivity).
  destruct (t_typ nx =? pk_itemComma); [apply IH|].
  destruct (t_typ nx =? pk_itemRightParen); [apply (sim_ok strip_pos isx (NFunc p name (args ++ [e]))); reflexivity|].
  apply unexpected_sim.
Qed.

Lemma new_function_node_sim lf t st :
  sim strip_pos isx (new_function_node w lf t st) (new_function_node w lf (strip_tok t) (zs st)).
Proof.
  unfold new_function_node. rewrite p_peek_zs. destruct (p_peek_tok st) as [pk st1]. cbn [fst snd].
  rewrite ?typ_strip, ?val_strip, ?pos_strip.
  destruct (t_typ pk =? pk_itemRightParen).
  - nxt st1 x st2. apply (sim_ok strip_pos isx (NFunc (t_pos t) (t_val t) [])). reflexivity.
  - apply (func_loop_sim lf (t_pos t) (t_val t) [] st1).
Qed.

Lemma new_value_node_sim lf t st :
  sim strip_pos isx (new_value_node w lf t st) (new_value_node w lf (strip_tok t) (zs st)).
Proof.
  unfold new_value_node. cbv zeta. rewrite ?typ_strip, ?val_strip, ?pos_strip.
  destruct (t_typ t =? pk_itemNull); [apply (sim_ok strip_pos isx (NNull (t_pos t))); reflexivity|].
  destruct (t_typ t =? pk_itemBool); [apply (sim_ok strip_pos isx (NBool (t_pos t) _)); reflexivity|].
  destruct (t_typ t =? pk_itemInteger).
  { destruct (if is_prefix s_0x (t_val t) then parse_int 16 (drop 2 (t_val t)) else parse_int 10 (t_val t)) as [z|];
      [apply (sim_ok strip_pos isx (NInt (t_pos t) z)); reflexivity | apply errorf_sim]. }
  destruct (t_typ t =? pk_itemFloat).
  { destruct (parse_float (t_val t)) as [f|]; [apply (sim_ok strip_pos isx (NFloat (t_pos t) f)); reflexivity|].
    destruct (parse_float_round (t_val t)) as [f| |];
      [apply (sim_ok strip_pos isx (NFloat (t_pos t) f)); reflexivity | apply errorf_sim | apply errorf_sim]. }
  destruct (t_typ t =? pk_itemString).
  { destruct (unquote_string (t_val t)) as [s|]; [apply (sim_ok strip_pos isx (NString (t_pos t) (t_val t) s)); reflexivity | apply errorf_sim]. }
  destruct (t_typ t =? pk_itemLeftBracket); [apply parse_list_or_map_sim|].
  destruct (t_typ t =? pk_itemDollarIdent); [apply parse_data_ref_sim|].
  destruct (t_typ t =? pk_itemIdent); [|apply errorf_sim].
  nxt st nx st1. destruct (negb (t_typ nx =? pk_itemLeftParen)).
  - apply global_loop_sim.
  - apply new_function_node_sim.
Qed.

Lemma parse_first_term_sim lf st :
  sim strip_pos isx (parse_first_term w lf st) (parse_first_term w lf (zs st)).
Proof.
  unfold parse_first_term. nxt st t st1.
  destruct (is_unary_op (t_typ t)).
  { eapply sim_bind; [apply Hw|]. intros n st2 _. rewrite new_unary_op_strip.
    destruct (new_unary_op t n) as [u|] eqn:E; cbn [option_map]; [|apply errorf_sim].
    apply sim_ok. eapply new_unary_op_isx; exact E. }
  destruct (t_typ t =? pk_itemLeftParen).
  { eapply sim_bind; [apply Hw|]. intros n st2 Hn.
    eapply sim_bind; [apply expect_sim|]. intros _t st3 _. apply sim_ok. exact Hn. }
  destruct (is_value (t_typ t)); [apply new_value_node_sim | apply unexpected_sim].
Qed.

Lemma parse_expr_body_sim lf p st :
  sim strip_pos isx (parse_expr_body w lf p st) (parse_expr_body w lf p (zs st)).
Proof.
  unfold parse_expr_body. eapply sim_bind; [apply parse_first_term_sim|]. intros n st1 Hn. apply expr_loop_sim. exact Hn.
Qed.

Lemma directive_args_loop_sim lf : forall args st,
  sim (map strip_pos) anyok (directive_args_loop w lf args st) (directive_args_loop w lf (map strip_pos args) (zs st)).
Proof.
  induction lf as [|lf IH]; intros args st; [rewrite !directive_args_loop_0; apply sim_fuel|].
  rewrite !directive_args_loop_S. nxt st nx st1.
  destruct ((t_typ nx =? pk_itemColon) || (t_typ nx =? pk_itemComma)).
  - eapply sim_bind; [apply Hw|]. intros e st2 _.
    specialize (IH (args ++ [e]) st2). rewrite map_app in IH. exact IH.
  - rewrite p_backup_zs. apply sim_ok. exact I.
Qed.

Lemma print_loop_sim lf : forall p e dirs st,
  sim strip_pos anyok (print_loop w lf p e dirs st) (print_loop w lf 0 (strip_pos e) (map strip_pos dirs) (zs st)).
Proof.
  induction lf as [|lf IH]; intros p e dirs st; [rewrite !print_loop_0; apply sim_fuel|].
  rewrite !print_loop_S. nxt st t st1.
  destruct (t_typ t =? pk_itemRightDelim); [apply (sim_ok strip_pos anyok (NPrint p e dirs)); exact I|].
  destruct (t_typ t =? pk_itemPipe); [|apply unexpected_sim].
  eapply sim_bind; [apply expect_sim|]. intros id st2 _.
  eapply sim_bind; [apply (directive_args_loop_sim (S lf) [] st2)|]. intros args st3 _. rewrite val_strip.
  specialize (IH p e (dirs ++ [NDirective (t_pos t) (t_val id) args]) st3). rewrite map_app in IH. exact IH.
Qed.

Lemma parse_print_body_sim lf p st :
  sim strip_pos anyok (parse_print_body w lf p st) (parse_print_body w lf 0 (zs st)).
Proof.
  unfold parse_print_body. eapply sim_bind; [apply Hw|]. intros e st1 _. apply print_loop_sim.
Qed.

End Body.

(* ---- closing the recursion ---- *)
Theorem parse_expr_sim : forall f p st, sim strip_pos isx (parse_expr f p st) (parse_expr f p (zs st)).
Proof.
  induction f as [|f IH]; intros p st; [rewrite !parse_expr_0; apply sim_fuel|].
  change (parse_expr (S f) p st) with (parse_expr_body (parse_expr f) f p st).
  change (parse_expr (S f) p (zs st)) with (parse_expr_body (parse_expr f) f p (zs st)).
  apply parse_expr_body_sim. exact IH.
Qed.

Theorem parse_print_sim f p st : sim strip_pos anyok (parse_print f p st) (parse_print f 0 (zs st)).
Proof. unfold parse_print. apply parse_print_body_sim. apply parse_expr_sim. Qed.

Lemma zs_init ts : zs (pst_init ts) = pst_init (map strip_tok ts). Proof. reflexivity. Qed.

(* parse.Expr on items whose positions are erased *)
Theorem parse_expr_top_strip f ts :
  zr strip_pos (parse_expr_top f ts) = parse_expr_top f (map strip_tok ts).
Proof. unfold parse_expr_top. rewrite <- zs_init. apply parse_expr_sim. Qed.

(* the form used downstream: a successful run on erased items is a successful run on the items, of a tree
   that is the same up to positions *)
Lemma zr_ok_inv {A} (g : A -> A) r a' st' : zr g r = POk a' st' -> exists a st, r = POk a st /\ g a = a' /\ zs st = st'.
Proof. destruct r as [a st|t c st|m|]; cbn [zr]; intros H; try discriminate. injection H as <- <-. eauto. Qed.

Lemma stream_zs st : stream (zs st) = map strip_tok (stream st).
Proof. destruct st as [rest t0 t1 pk rc]. unfold stream, zs. cbn. destruct pk as [|[|pk]]; reflexivity. Qed.
