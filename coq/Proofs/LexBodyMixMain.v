(* C15, scanner half for bodies in which comments and tags mix: the items lex() sends for
   T0 {c1} T1 {c2} T2 ... with comments in the stretches, described by ONE item grammar ([mshape]: per stretch
   the items of its pieces and comments -- [pshape] --, per command its tag items -- [tagitems] --, EOF last).
   [shape] (Proofs/LexBodyTop.v) and [shape2] (Proofs/LexBodyMain.v) are the instances without tags / without
   comments. *)
From Soy Require Import Model.Bytes Model.Utf8 Model.Outcome Model.Token Generated.Tables Model.Lexer Spec.Text Spec.TextBody Spec.TextMix
  Proofs.LexerPrim Proofs.LexerStates Proofs.LexerProofs Proofs.LexTokens Proofs.LexPrintTop
  Proofs.LexBodyText Proofs.LexBodyTop Proofs.LexBodySeg Proofs.LexBodyCmd Proofs.LexBodyLit Proofs.LexBodyMain Proofs.LexBodyMix.
From Coq Require Import ZifyBool ZifyNat ZifyN Lia.
Open Scope Z_scope.

(* the items of one stretch cut into the pieces [x1; ...; xn] by n-1 comments: per piece its text item (none
   when the piece is empty or white space with a line break; before a "//" comment the white-space byte in front
   of the comment belongs to neither item), then the comment item; nothing after the last piece *)
Inductive pshape : list bstr -> list tok -> Prop :=
| ps_last x txt : is_text_of x txt -> pshape [x] txt
| ps_more x x' txt c rest items :
    is_text_of x' txt -> (x = x' \/ exists b, ws b = true /\ x = x' ++ [b]) -> t_typ c = itemComment ->
    pshape rest items -> pshape (x :: rest) (txt ++ c :: items).

(* the items of a special-character command / of a literal block whose text is [o] *)
Inductive tagitems : bstr -> list tok -> Prop :=
| ti_cmd o ld c rd :
    t_typ ld = itemLeftDelim -> assoc (t_typ c) parser_special_chars = Some o -> t_typ rd = itemRightDelim ->
    tagitems o [ld; c; rd]
| ti_lit o ld kw rd tx ld2 ke rd2 :
    t_typ ld = itemLeftDelim -> t_typ kw = itemLiteral -> t_typ rd = itemRightDelim ->
    t_typ tx = itemText -> t_val tx = o -> t_typ ld2 = itemLeftDelim -> t_typ ke = itemLiteralEnd -> t_typ rd2 = itemRightDelim ->
    tagitems o [ld; kw; rd; tx; ld2; ke; rd2].

(* a body: the pieces of the first stretch, then per command its text and the pieces of the stretch after it *)
Inductive mshape : list bstr -> list (bstr * list bstr) -> list tok -> Prop :=
| ms_end pcs its e : pshape pcs its -> t_typ e = itemEOF -> mshape pcs [] (its ++ [e])
| ms_tag pcs its o tg pcs' rest items :
    pshape pcs its -> tagitems o tg -> mshape pcs' rest items -> mshape pcs ((o, pcs') :: rest) (its ++ tg ++ items).

Section MixMain.
Variable uni_letter uni_digit : Z -> bool.
Hypothesis letter_ascii : forall c, (c < 128)%N -> uni_letter (Z.of_N c) = ((65 <=? c) && (c <=? 90) || (97 <=? c) && (c <=? 122))%N.
Hypothesis digit_ascii : forall c, (c < 128)%N -> uni_digit (Z.of_N c) = digit_b c.
Hypothesis letter_eof : uni_letter (-1) = false.
Hypothesis digit_eof : uni_digit (-1) = false.
Variable inp : bstr.
Notation steps := (steps uni_letter uni_digit inp 0).
Notation span := (span inp).
Notation ilen := (Z.of_nat (length inp)).

Lemma fuel_ok_tl l w s : span l w s -> (length s < loop_fuel ilen l)%nat.
Proof. intros Hs. pose proof (span_bounds _ _ _ _ Hs) as (Hb & Hl). unfold loop_fuel. lia. Qed.

(* one stretch: lexText and the comment states, up to the tag that follows or the end of the input *)
Theorem lex_stretch : forall n T, (length T <= n)%nat -> forall l pcs tl,
  span l [] (T ++ tl) -> plain T -> tag_or_end tl ->
  pieces MText (pwof 0 l) [] T = Some pcs -> (tl <> [] -> line_open MText (pwof 0 l) T = false) ->
  exists k l' its st', steps k LText l = Ok (st', l') /\ pshape pcs its /\ l_dd l' = l_dd l /\
    ((tl = [] /\ st' = LDone /\ exists e, t_typ e = itemEOF /\ l_out l' = e :: rev its ++ l_out l) \/
     (tl <> [] /\ st' = LLeftDelim /\ l_out l' = rev its ++ l_out l /\ span l' [] tl)).
Proof.
  induction n as [|n IH]; intros T Hn l pcs tl Hs Hpl Htl Hpc Hlo.
  - destruct T; [|cbn in Hn; lia].
    destruct (text_loop_tl inp 0 [] (le_n _) [] l 0 (loop_fuel ilen l) pcs tl Hs (fuel_ok_tl _ _ _ Hs) Hpl Htl (fun _ => eq_refl)
                ltac:(intros E; congruence) Hpc Hlo) as (st' & l' & Hrun & (x & rest & Hp & Hres)).
    destruct Hres as [(A & (txt & Htx & Hdd & B))|[(txt & x' & s2 & _ & _ & _ & _ & _ & _ & (F & _) & _)|(txt & s2 & _ & _ & _ & _ & _ & (F & _) & _)]];
      [|cbn in F; lia|cbn in F; lia].
    subst. exists 1%nat, l', txt, st'. split; [apply steps_one; exact Hrun|]. split; [apply ps_last; exact Htx|]. split; [exact Hdd|].
    destruct B as [(B1 & B2 & e & B3 & B4)|(B1 & B2 & B3 & B4 & _)]; [left|right]; eauto 10.
  - destruct (text_loop_tl inp (length T) T (le_n _) [] l 0 (loop_fuel ilen l) pcs tl Hs (fuel_ok_tl _ _ _ Hs) Hpl Htl (fun _ => eq_refl)
                ltac:(intros E; congruence) Hpc Hlo) as (st' & l1 & Hrun & (x & rest & Hp & Hres)).
    destruct Hres as [(A & (txt & Htx & Hdd & B))|[(txt & x' & s2 & Hdd & A & B & C & D & E & (F1 & F2) & G & K)|(txt & s2 & Hdd & A & B & C & D & (F1 & F2) & G & K)]].
    + subst. exists 1%nat, l1, txt, st'. split; [apply steps_one; exact Hrun|]. split; [apply ps_last; exact Htx|]. split; [exact Hdd|].
      destruct B as [(B1 & B2 & e & B3 & B4)|(B1 & B2 & B3 & B4 & _)]; [left|right]; eauto 10.
    + subst st'.
      destruct (line_comment_tl inp (length s2) s2 (le_n _) _ l1 (loop_fuel ilen l1) rest tl E (fuel_ok_tl _ _ _ E) Htl K G)
        as (l2 & s3 & v & p & Hrun2 & Hs3 & (Hl3 & Hsf3) & Ho2 & Hdd2 & Hpc3 & Hlo3).
      destruct (IH s3 ltac:(lia) l2 rest tl Hs3 (Hsf3 _ (F2 _ Hpl)) Htl Hpc3 Hlo3) as (k & l' & items & st' & Hst & Hsh & Hdd' & Hend).
      exists (1 + (1 + k))%nat, l', (txt ++ {| t_typ := itemComment; t_pos := p; t_val := v |} :: items), st'.
      split.
      { assert (H1 : steps 1 LText l = Ok (LLineComment, l1)) by (apply steps_one; exact Hrun).
        assert (H2 : steps 1 LLineComment l1 = Ok (LText, l2)) by (apply steps_one; exact Hrun2).
        rewrite (steps_app _ _ _ _ 1 (1 + k) _ _ _ _ H1), (steps_app _ _ _ _ 1 k _ _ _ _ H2). exact Hst. }
      split; [subst pcs; eapply ps_more; [exact B|exact D|reflexivity|exact Hsh]|]. split; [congruence|].
      assert (Eo : forall pre, pre ++ rev items ++ l_out l2 = pre ++ rev (txt ++ {| t_typ := itemComment; t_pos := p; t_val := v |} :: items) ++ l_out l).
      { intros pre. rewrite Ho2, C, rev_app_distr. cbn [rev]. rewrite <- !app_assoc. reflexivity. }
      destruct Hend as [(B1 & B2 & e & B3 & B4)|(B1 & B2 & B3 & B4)]; [left|right].
      * split; [exact B1|]. split; [exact B2|]. exists e. split; [exact B3|]. rewrite B4. exact (Eo [e]).
      * split; [exact B1|]. split; [exact B2|]. split; [rewrite B3; exact (Eo [])|exact B4].
    + subst st'.
      destruct (block_comment_tl inp (length s2) s2 (le_n _) _ l1 (loop_fuel ilen l1) false rest tl D (fuel_ok_tl _ _ _ D) Htl K G)
        as (l2 & s3 & v & p & Hrun2 & Hs3 & (Hl3 & Hsf3) & Ho2 & Hdd2 & Hpw & Hpc3 & Hlo3).
      destruct (IH s3 ltac:(lia) l2 rest tl Hs3 (Hsf3 _ (F2 _ Hpl)) Htl ltac:(rewrite Hpw; exact Hpc3) ltac:(rewrite Hpw; exact Hlo3)) as (k & l' & items & st' & Hst & Hsh & Hdd' & Hend).
      exists (1 + (1 + k))%nat, l', (txt ++ {| t_typ := itemComment; t_pos := p; t_val := v |} :: items), st'.
      split.
      { assert (H1 : steps 1 LText l = Ok (LBlockComment, l1)) by (apply steps_one; exact Hrun).
        assert (H2 : steps 1 LBlockComment l1 = Ok (LText, l2)) by (apply steps_one; exact Hrun2).
        rewrite (steps_app _ _ _ _ 1 (1 + k) _ _ _ _ H1), (steps_app _ _ _ _ 1 k _ _ _ _ H2). exact Hst. }
      split; [subst pcs; eapply ps_more; [exact B|left; reflexivity|reflexivity|exact Hsh]|]. split; [congruence|].
      assert (Eo : forall pre, pre ++ rev items ++ l_out l2 = pre ++ rev (txt ++ {| t_typ := itemComment; t_pos := p; t_val := v |} :: items) ++ l_out l).
      { intros pre. rewrite Ho2, C, rev_app_distr. cbn [rev]. rewrite <- !app_assoc. reflexivity. }
      destruct Hend as [(B1 & B2 & e & B3 & B4)|(B1 & B2 & B3 & B4)]; [left|right].
      * split; [exact B1|]. split; [exact B2|]. exists e. split; [exact B3|]. rewrite B4. exact (Eo [e]).
      * split; [exact B1|]. split; [exact B2|]. split; [rewrite B3; exact (Eo [])|exact B4].
Qed.

(* the Spec's conditions on the stretches after the first, with their pieces made explicit *)
Fixpoint rest_pieces (r : list seg) (rp : list (bstr * list bstr)) : Prop :=
  match r, rp with
  | [], [] => True
  | ((_, o), T) :: r', (o', pcs) :: rp' => o' = o /\ pieces MText false [] T = Some pcs /\ rest_pieces r' rp'
  | _, _ => False
  end.

Lemma lex_mix_run : forall rest rp T pcs l, span l [] (T ++ rest_src rest) -> l_dd l = false ->
  mix_stretch_ok (pwof 0 l) (match rest with [] => true | _ => false end) T -> pieces MText (pwof 0 l) [] T = Some pcs ->
  mix_rest_ok rest -> rest_pieces rest rp ->
  exists k l' items, steps k LText l = Ok (LDone, l') /\ l_out l' = rev items ++ l_out l /\ mshape pcs rp items.
Proof.
  induction rest as [|[[n o] T'] r IH]; intros rp T pcs l Hs Hdd [Hpl Hop] Hpc Hrest Hrp.
  - destruct rp; [|contradiction]. cbn [rest_src] in Hs.
    destruct (lex_stretch (length T) T (le_n _) l pcs [] Hs Hpl (or_introl eq_refl) Hpc ltac:(congruence))
      as (k & l' & its & st' & Hst & Hsh & _ & Hend).
    destruct Hend as [(_ & -> & e & He & Ho)|(A & _)]; [|congruence].
    exists k, l', (its ++ [e]). split; [exact Hst|]. split; [rewrite Ho, rev_app_distr; reflexivity|]. apply ms_end; assumption.
  - destruct rp as [|[o' pcs'] rp']; [contradiction|]. cbn [rest_pieces] in Hrp. destruct Hrp as (-> & Hpc' & Hrp').
    cbn [mix_rest_ok] in Hrest. destruct Hrest as (Hcmd & Hok' & Hrest').
    destruct (lex_stretch (length T) T (le_n _) l pcs (rest_src (((n, o), T') :: r)) Hs Hpl (rest_src_tag _) Hpc ltac:(intros _; apply Hop; reflexivity))
      as (k1 & l1 & its & st' & Hst1 & Hsh1 & Hdd1 & Hend).
    destruct Hend as [(A & _)|(_ & -> & Ho1 & Hs1)]; [discriminate A|].
    cbn [rest_src] in Hs1.
    destruct Hcmd as [Hcmd|(sp & Hsp & Hname & Hcl)].
    + destruct (lex_special_cmd uni_letter uni_digit letter_ascii digit_ascii letter_eof digit_eof inp l1 n o (T' ++ rest_src r) Hcmd Hs1)
        as (k2 & l2 & ld & c & rd & Hst2 & Hs2 & Ho2 & Hld & Hrd & Hc & Hla2 & Hv2 & Hdd2).
      assert (Hpw : pwof 0 l2 = false) by (unfold pwof; rewrite Hla2, Hv2; reflexivity).
      destruct (IH rp' T' pcs' l2 Hs2 Hdd2 ltac:(rewrite Hpw; exact Hok') ltac:(rewrite Hpw; exact Hpc') Hrest' Hrp') as (k3 & l3 & items & Hst3 & Ho3 & Hsh).
      exists (k1 + (k2 + k3))%nat, l3, (its ++ [ld; c; rd] ++ items). split.
      { rewrite (steps_app _ _ _ _ k1 _ _ _ _ _ Hst1), (steps_app _ _ _ _ k2 _ _ _ _ _ Hst2). exact Hst3. }
      split.
      { rewrite Ho3, Ho2, Ho1, !rev_app_distr. cbn [rev app]. rewrite <- !app_assoc. reflexivity. }
      eapply ms_tag; [exact Hsh1|apply ti_cmd; assumption|exact Hsh].
    + cbn [fst snd] in Hname, Hcl. subst n.
      destruct (lex_literal_cmd uni_letter uni_digit letter_ascii digit_ascii letter_eof digit_eof inp l1 sp o (T' ++ rest_src r) Hsp Hs1 Hcl)
        as (k2 & l2 & ld & kw & rd & tx & ld2 & ke & rd2 & Hst2 & Hs2 & Ho2 & A1 & A2 & A3 & A4 & A5 & A6 & A7 & A8 & Hla2 & Hv2 & Hdd2).
      assert (Hpw : pwof 0 l2 = false) by (unfold pwof; rewrite Hla2, Hv2; reflexivity).
      destruct (IH rp' T' pcs' l2 Hs2 Hdd2 ltac:(rewrite Hpw; exact Hok') ltac:(rewrite Hpw; exact Hpc') Hrest' Hrp') as (k3 & l3 & items & Hst3 & Ho3 & Hsh).
      exists (k1 + (k2 + k3))%nat, l3, (its ++ [ld; kw; rd; tx; ld2; ke; rd2] ++ items). split.
      { rewrite (steps_app _ _ _ _ k1 _ _ _ _ _ Hst1), (steps_app _ _ _ _ k2 _ _ _ _ _ Hst2). exact Hst3. }
      split.
      { rewrite Ho3, Ho2, Ho1, !rev_app_distr. cbn [rev app]. rewrite <- !app_assoc. reflexivity. }
      eapply ms_tag; [exact Hsh1|apply ti_lit; assumption|exact Hsh].
Qed.

End MixMain.

(* lex(name, body_src T0 rest) *)
Theorem lex_body_mix (uni_letter uni_digit : Z -> bool) :
  (forall c, (c < 128)%N -> uni_letter (Z.of_N c) = ((65 <=? c) && (c <=? 90) || (97 <=? c) && (c <=? 122))%N) ->
  (forall c, (c < 128)%N -> uni_digit (Z.of_N c) = digit_b c) ->
  uni_letter (-1) = false -> uni_digit (-1) = false ->
  forall T0 rest pcs rp, mix_body_ok T0 rest -> pieces MText true [] T0 = Some pcs -> rest_pieces rest rp ->
  exists items, lex_items uni_letter uni_digit (lex_budget (body_src T0 rest)) false (body_src T0 rest) = Ok items /\ mshape pcs rp items.
Proof.
  intros Hla Hda Hle Hde T0 rest pcs rp [Hok Hrest] Hpc Hrp. set (txt := body_src T0 rest).
  assert (Hs0 : span txt lex_init [] (T0 ++ rest_src rest)).
  { unfold span, lex_init. cbn [l_start l_pos length]. repeat split; try lia. }
  destruct (lex_mix_run uni_letter uni_digit Hla Hda Hle Hde txt rest rp T0 pcs lex_init Hs0 eq_refl Hok Hpc Hrest Hrp) as (k & l' & items & Hst & Ho & Hsh).
  destruct (lex_total_linear uni_letter uni_digit Hle Hde 0 ltac:(lia) false txt) as (lf & Hr & _).
  pose proof Hr as Hr'. rewrite lex_run_at_file in Hr'.
  pose proof (run_unique uni_letter uni_digit txt 0 (lex_budget txt) k LText lex_init lf l' Hr' Hst) as E.
  exists items. split; [|exact Hsh]. unfold lex_items, lex_run. rewrite Hr. cbn [bind]. subst lf. rewrite Ho.
  cbn [lex_init l_out]. rewrite app_nil_r, rev_involutive. reflexivity.
Qed.
