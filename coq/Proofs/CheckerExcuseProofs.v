(* C07, last clause, in full: rendering a template of an accepted bundle never misses a scope
   lookup on a name that nothing binds -- for EVERY accepted bundle: calls that omit optional
   params, data="all", data="$e", $ij, recursion; no hypothesis on the data.

   What a callee may assume is exactly this: the variables of the enclosing {let}s and loops and
   the loop counters are bound; a declared param may be absent (then it reads as undefined, which
   is how optional params and the map behind data="$e" work).  So the statement is about the
   walker [walkx] of Model/CheckerRun.v, which does not count the miss of a DECLARED param of the
   template being executed: its counter stays 0 ([walkx_ok], [accepted_no_unbound_name]).
   Proofs/CheckerExcuseRel.v shows that [walkx] is [walk] up to the counter.

   Method: the [keeps] logic of Proofs/CheckerInterpProofs.v, with the invariant [good [] G L]
   (params are not required to be bound) and no [calls_total]; the section below repeats the
   walker lemmas of that file for a fixed param list [ps] (the excuse set of [walkx ps]),
   the {call} case being stated for two walkers (the caller's and the callee's). *)
From Coq Require Import Lia.
From Soy Require Import Model.Bytes Model.Num Model.Values Model.Outcome Model.Ast Model.Escape Model.Directives
  Model.Print Generated.Tables Model.Interp Model.RefView Model.Checker Model.CheckerRun Spec.Wf
  Proofs.ValueProofs Proofs.ConvertProofs Proofs.InterpLogic Proofs.CheckerProofs Proofs.CheckerInterpProofs.
Open Scope N_scope.

Section Link.
Variable cf : cfg.
Let T := r_templates (c_reg cf).

Definition rt_ok (ps G L : list bstr) (t : rt) : Prop :=
  wf T ps t G L = true /\ shaped t = true.

Fixpoint seq_ok (ps G L : list bstr) (ks : list rt) : Prop :=
  match ks with
  | [] => True
  | c :: r => rt_ok ps G L c /\ seq_ok ps (match rt_kind c with KLet x => x :: G | _ => G end) L r
  end.

Lemma wf_seq_no_lets ps ks G L : no_lets ks = true ->
  wf_seq ks (map (wf T ps) ks) G L = forallb (fun c => wf T ps c G L) ks.
Proof.
  induction ks as [|c r IH]; intros H; [reflexivity|]. apply no_lets_cons in H as [Hc Hr].
  cbn [wf_seq map forallb]. rewrite <- (IH Hr). destruct (rt_kind c); cbn in Hc; try discriminate; reflexivity.
Qed.

Lemma rt_ok_parts ps G L k kids :
  rt_ok ps G L (RT k kids) ->
  wf_body T ps k kids (map (wf T ps) kids) G L = true
  /\ (is_block_kind k = true \/ no_lets kids = true)
  /\ Forall (fun c => shaped c = true) kids.
Proof.
  intros (Hw & Hs). split; [exact Hw|].
  cbn [shaped] in Hs. apply andb_true_iff in Hs as [Hs Hsk]. apply andb_true_iff in Hs as [Hs _].
  split.
  - apply orb_true_iff in Hs. exact Hs.
  - apply Forall_forall. intros c Hin. rewrite forallb_forall in Hsk. auto.
Qed.

Lemma forall_ok ps G L kids :
  forallb (fun c => wf T ps c G L) kids = true ->
  Forall (fun c => shaped c = true) kids ->
  Forall (rt_ok ps G L) kids.
Proof.
  intros Hw Hf. apply Forall_forall. intros c Hin. rewrite forallb_forall in Hw. rewrite Forall_forall in Hf.
  specialize (Hf c Hin). split; [auto | assumption].
Qed.

(* a parent that is neither a block nor a loop: its children are judged in the parent's environment *)
Lemma rt_ok_kids ps G L k kids :
  rt_ok ps G L (RT k kids) -> is_block_kind k = false -> (forall x, k <> KFor x) ->
  Forall (rt_ok ps G L) kids.
Proof.
  intros H Hb Hf. destruct (rt_ok_parts _ _ _ _ _ H) as (Hw & [Hbl|Hnl] & Hk); [congruence|].
  apply forall_ok; [|exact Hk]. rewrite <- (wf_seq_no_lets ps kids G L Hnl).
  destruct k; cbn [wf_body] in Hw; try discriminate; try (apply andb_true_iff in Hw as [_ Hw]); try exact Hw.
  exfalso. eapply Hf. reflexivity.
Qed.

Lemma rt_ok_block ps G L kids : rt_ok ps G L (RT KBlock kids) -> seq_ok ps G L kids.
Proof.
  intros H. destruct (rt_ok_parts _ _ _ _ _ H) as (Hw & _ & Hk). cbn [wf_body] in Hw. clear H.
  revert G Hw. induction kids as [|c r IH]; intros G Hw; [exact I|].
  inversion Hk as [|? ? Hs Hr]; subst. cbn [wf_seq map] in Hw. apply andb_true_iff in Hw as [Hwc Hw].
  cbn [seq_ok]. split; [split; [exact Hwc | assumption]|].
  destruct (rt_kind c); try (apply IH; assumption).
  apply andb_true_iff in Hw as [_ Hw]. apply IH; assumption.
Qed.

Lemma rt_ok_for ps G L x kids :
  rt_ok ps G L (RT (KFor x) kids) ->
  exists l body ie, kids = l :: body :: ie /\ rt_ok ps G L l /\ rt_ok ps (x :: G) (x :: L) body /\ Forall (rt_ok ps G L) ie.
Proof.
  intros H. destruct (rt_ok_parts _ _ _ _ _ H) as (Hw & _ & Hk). cbn [wf_body] in Hw.
  destruct kids as [|l [|body ie]]; cbn [map] in Hw; try discriminate.
  exists l, body, ie. split; [reflexivity|].
  apply andb_true_iff in Hw as [Hw Hie]. apply andb_true_iff in Hw as [Hl Hb].
  inversion Hk as [|? ? Hsl Hk1]; subst. inversion Hk1 as [|? ? Hsb Hk2]; subst.
  split; [split; [exact Hl | assumption]|]. split; [split; [exact Hb | assumption]|].
  apply forall_ok; [|exact Hk2]. clear -Hie. induction ie as [|c r IH]; [reflexivity|].
  cbn [map forallb] in *. apply andb_true_iff in Hie as [H1 H2]. rewrite H1, (IH H2). reflexivity.
Qed.


(* ================================================================== *)
(* one unfolding of the walker *)

Definition post (n : node) : value -> scope -> Prop :=
  fun _ s => match rt_kind (view n) with KLet x => bound s x | _ => True end.

Definition w_ok (ps : list bstr) (w : node -> M value) : Prop :=
  forall G L n, rt_ok ps G L (view n) -> keeps (good [] G L) (w n) (post n).

(* the registry: every template body is well-formed under its own params *)
Hypothesis Hreg : forall t, In t T -> rt_ok (map fst (t_params t)) [] [] (view (t_node t)).

Section Body.
Variable ps : list bstr.            (* the declared params of the template being executed *)
Variable w : node -> M value.
Hypothesis Hw : w_ok ps w.

Ltac kb x := eapply keeps_bind0; [apply good_closed | | intros x].
Ltac kmod := apply keeps_modify; intros; split; reflexivity.

Lemma w_any G L n : rt_ok ps G L (view n) -> keeps (good [] G L) (w n) anyQ.
Proof. intros H. eapply keeps_any. apply Hw. exact H. Qed.

Lemma eval_ok G L e : rt_ok ps G L (view e) -> keeps (good [] G L) (eval w e) anyQ.
Proof.
  intros H. unfold eval. kb st0; [apply keeps_get|]. kb v; [apply w_any; exact H|]. kb u; [kmod|]. apply keeps_ret_any.
Qed.

Lemma evaldef_ok G L e : rt_ok ps G L (view e) -> keeps (good [] G L) (evaldef w e) anyQ.
Proof. intros H. unfold evaldef. kb v; [apply eval_ok; exact H|]. destruct v; first [apply keeps_fail | apply keeps_ret_any]. Qed.

Lemma eval_list_ok G L es : Forall (fun e => rt_ok ps G L (view e)) es -> keeps (good [] G L) (eval_list w es) anyQ.
Proof.
  induction 1 as [|e r He Hr IH]; cbn [eval_list]; [apply keeps_ret_any|].
  kb v; [apply eval_ok; exact He|]. kb vs; [exact IH|]. apply keeps_ret_any.
Qed.

Lemma walk_list_ok L ns : forall G, seq_ok ps G L (map view ns) -> keeps (good [] G L) (walk_list w ns) anyQ.
Proof.
  induction ns as [|x r IH]; intros G H; cbn [walk_list]; [apply keeps_ret_any|].
  cbn [map seq_ok] in H. destruct H as [Hx Hr].
  eapply keeps_bind; [apply good_closed | apply Hw; exact Hx |]. intros v0.
  eapply keeps_pre; [apply IH; exact Hr|]. intros s [Hg Hp]. unfold post in Hp.
  destruct (rt_kind (view x)); try exact Hg. apply good_let; assumption.
Qed.

Lemma render_block_ok G L body : rt_ok ps G L (view body) -> keeps (good [] G L) (render_block w body) anyQ.
Proof.
  intros H. unfold render_block. kb u; [kmod|]. kb v; [apply w_any; exact H|]. kb st1; [apply keeps_get|].
  destruct (bufs st1); [apply keeps_fail|]. kb u2; [kmod|]. apply keeps_ret_any.
Qed.

Lemma maplit_items_ok G L l :
  Forall (fun kv => rt_ok ps G L (view (snd kv))) l -> keeps (good [] G L) (maplit_items w l) anyQ.
Proof.
  induction 1 as [|[k e] r He Hr IH]; cbn [maplit_items]; [apply keeps_ret_any|].
  kb v; [apply eval_ok; exact He|]. kb m; [exact IH|]. apply keeps_ret_any.
Qed.

(* leaves and case splits *)
Ltac kauto tac :=
  repeat first
    [ apply keeps_ret_any | apply keeps_fail | apply keeps_lift | tac
    | match goal with
      | |- keeps _ (if ?c then _ else _) _ => destruct c
      | |- keeps _ (match ?x with _ => _ end) _ => destruct x
      | |- keeps _ (let '(_, _) := ?p in _) _ => destruct p
      end ].


Lemma loop_func_ok G L name args :
  (forall p key acc rest, args = NDataRef p key acc :: rest -> In key L) ->
  keeps (good [] G L) (loop_func name args) anyQ.
Proof.
  intros H. unfold loop_func. destruct args as [|a rest]; [apply keeps_fail|].
  destruct a; try apply keeps_fail. destruct (idx_in _ _ (H _ _ _ _ eq_refl)) as [Hi Hl].
  kb ix; [apply keeps_lookup; intros s Hs; apply (proj1 Hs); auto|].
  destruct (fn_is name n_index); [apply keeps_ret_any|]. destruct ix; try apply keeps_fail.
  destruct (fn_is name n_isFirst); [apply keeps_ret_any|].
  kb li; [apply keeps_lookup; intros s Hs; apply (proj1 Hs); auto|].
  destruct li; first [apply keeps_fail | apply keeps_ret_any].
Qed.

Lemma call_func_ok G L name args :
  Forall (fun e => rt_ok ps G L (view e)) args -> keeps (good [] G L) (call_func w name args) anyQ.
Proof.
  intros H. unfold call_func. destruct (func_arities name); [|apply keeps_fail].
  destruct (negb (mem (N.of_nat (length args)) l)); [apply keeps_fail|].
  kb vs; [apply eval_list_ok; exact H|]. kb r; [apply keeps_lift|].
  destruct r; [apply keeps_ret_any | apply keeps_fresh_list_or_nil | apply keeps_fresh_map].
Qed.

Lemma acc_expr_ok G L p ns e : rt_ok ps G L (view (NAccExpr p ns e)) -> rt_ok ps G L (view e).
Proof.
  intros H. cbn [view] in H. apply rt_ok_kids in H; [|reflexivity|discriminate]. inversion H; assumption.
Qed.

Lemma dataref_access_ok G L acc :
  Forall (fun a => rt_ok ps G L (view a)) acc -> forall ref, keeps (good [] G L) (dataref_access w acc ref) anyQ.
Proof.
  induction 1 as [|a r Ha Hr IH]; intros ref; cbn [dataref_access]; [apply keeps_ret_any|].
  kb ik.
  - destruct a; try apply keeps_fail; try apply keeps_ret_any.
    kb kv; [apply eval_ok; eapply acc_expr_ok; exact Ha|].
    destruct kv; try apply keeps_ret_any; (kb s0; [apply keeps_lift | apply keeps_ret_any]).
  - kauto ltac:(apply IH).
Qed.

Lemma print_dirs_ok G L l :
  Forall (fun d => rt_ok ps G L (view d)) l -> forall v, keeps (good [] G L) (print_dirs cf w l v) anyQ.
Proof.
  induction 1 as [|d r Hd Hr IH]; intros v; cbn [print_dirs]; [apply keeps_ret_any|].
  destruct d; try apply keeps_fail.
  destruct (lookup_directive name) as [[arglens ?]|]; [|apply keeps_fail].
  destruct (negb (check_num_args arglens (length args))); [apply keeps_fail|].
  cbn [view] in Hd. apply rt_ok_kids in Hd; [|reflexivity|discriminate]. apply Forall_map_view in Hd.
  kb vs; [apply eval_list_ok; exact Hd|]. kb s; [apply keeps_lift|]. kb ws; [apply keeps_lift|].
  kb rest; [apply IH|]. apply keeps_ret_any.
Qed.

Lemma if_conds_ok G L cs :
  Forall (fun c => rt_ok ps G L (view c)) cs -> keeps (good [] G L) (if_conds w cs) anyQ.
Proof.
  induction 1 as [|c r Hc Hr IH]; cbn [if_conds]; [apply keeps_ret_any|].
  destruct c; try apply keeps_fail.
  cbn [view] in Hc. apply rt_ok_kids in Hc; [|reflexivity|discriminate].
  destruct cond as [c0|]; cbn [app] in Hc.
  - inversion Hc as [|? ? H1 H2]; subst. inversion H2 as [|? ? H3 _]; subst.
    kb v; [apply eval_ok; exact H1|]. destruct (truthy v); [|exact IH].
    kb u; [apply w_any; exact H3|]. apply keeps_ret_any.
  - inversion Hc as [|? ? H1 _]; subst. kb u; [apply w_any; exact H1|]. apply keeps_ret_any.
Qed.


Lemma for_items_ok G L var body :
  rt_ok ps (var :: G) (var :: L) (view body) ->
  forall items i, keeps (fun s => good [] G L s /\ bound s (var ++ s_lastindex)) (for_items w var body i items) anyQ.
Proof.
  intros Hb. induction items as [|x r IH]; intros i; cbn [for_items]; [apply keeps_ret_any|].
  assert (Hcl : ext_closed (fun s => good [] G L s /\ bound s (var ++ s_lastindex)))
    by (apply and_closed; [apply good_closed | apply bound_closed]).
  eapply keeps_bind; [exact Hcl | apply keeps_set |]. intros u1.
  eapply keeps_bind; [apply and_closed; [exact Hcl | apply bound_ne_closed] | apply keeps_set |]. intros u2.
  eapply keeps_bind; [apply and_closed; [apply and_closed; [exact Hcl | apply bound_ne_closed] | apply bound_ne_closed] | |].
  - eapply keeps_pre; [apply Hw; exact Hb|]. intros s [[[Hg Hl] [Hv _]] [Hi _]].
    eapply good_more; [exact Hg|]. intros k [[<-|Hk]|Hk]; [exact Hv | apply (proj1 Hg); auto |].
    cbn [idx_names flat_map app In] in Hk. destruct Hk as [<-|[<-|Hk]]; [exact Hi | exact Hl | apply (proj1 Hg); auto].
  - intros v. eapply keeps_pre; [apply IH|]. tauto.
Qed.

Lemma case_hit_ok G L sv vs :
  Forall (fun e => rt_ok ps G L (view e)) vs -> keeps (good [] G L) (case_hit w sv vs) anyQ.
Proof.
  induction 1 as [|x r Hx Hr IH]; cbn [case_hit]; [apply keeps_ret_any|].
  kb cv; [apply eval_ok; exact Hx|]. destruct (equals sv cv); [apply keeps_ret_any | exact IH].
Qed.

Lemma switch_cases_ok G L sv cs :
  Forall (fun c => rt_ok ps G L (view c)) cs -> keeps (good [] G L) (switch_cases w sv cs) anyQ.
Proof.
  induction 1 as [|c r Hc Hr IH]; cbn [switch_cases]; [apply keeps_ret_any|].
  destruct c; try apply keeps_fail.
  cbn [view] in Hc. apply rt_ok_kids in Hc; [|reflexivity|discriminate].
  inversion Hc as [|? ? Hbody Hvals]; subst. apply Forall_map_view in Hvals.
  kb hit; [apply case_hit_ok; exact Hvals|].
  destruct (hit || _); [|exact IH]. kb u; [apply w_any; exact Hbody|]. apply keeps_ret_any.
Qed.

(* call params: evaluated in the caller's scope, set on the callee's *)

Lemma param_value_ok G L p k v : rt_ok ps G L (view (NParamValue p k v)) -> rt_ok ps G L (view v).
Proof. intros H. cbn [view] in H. apply rt_ok_kids in H; [|reflexivity|discriminate]. inversion H; assumption. Qed.
Lemma param_content_ok G L p k c : rt_ok ps G L (view (NParamContent p k c)) -> rt_ok ps G L (view c).
Proof. intros H. cbn [view] in H. apply rt_ok_kids in H; [|reflexivity|discriminate]. inversion H; assumption. Qed.


Lemma call_params_ok G L params :
  Forall (fun p => rt_ok ps G L (view p)) params ->
  forall cd, keeps (good [] G L) (call_params w params cd) (fun cd' s => params_post cd params cd' []).
Proof.
  induction 1 as [|p r Hp Hr IH]; intros cd; cbn [call_params].
  - apply keeps_ret. intros s _ Hne. split; [exact Hne|]. split; [auto | intros k []].
  - destruct p; try apply keeps_fail.
    + kb x; [apply eval_ok; eapply param_value_ok; exact Hp|].
      eapply keeps_weaken; [apply IH | auto |]. intros cd' s H. eapply params_step; [exact H | reflexivity].
    + kb x; [apply render_block_ok; eapply param_content_ok; exact Hp|].
      eapply keeps_weaken; [apply IH | auto |]. intros cd' s H. eapply params_step; [exact H | reflexivity].
Qed.

Lemma call_data_ok G L alldata dat :
  (forall e, dat = Some e -> rt_ok ps G L (view e)) ->
  keeps (good [] G L) (call_data w alldata dat)
        (fun cd _ => cd <> []).
Proof.
  intros Hd. unfold call_data. destruct alldata.
  - eapply keeps_bind; [apply good_closed | apply keeps_get_ctx |]. intros caller. cbv iota.
    destruct (sc_alldata (ctx caller)) as [sA|] eqn:Ha; [|apply keeps_fail].
    apply keeps_ret. intros s _. discriminate.
  - kb caller; [apply keeps_get|]. cbv iota. destruct dat as [e|].
    + kb dv; [apply eval_ok; apply Hd; reflexivity|].
      destruct dv; try apply keeps_fail. apply keeps_ret. intros s _. discriminate.
    + apply keeps_ret. intros s _. discriminate.
Qed.

(* messages *)
Lemma plural_pick_ok G L mp i dflt cs :
  rt_ok ps G L (RT KOther (map view dflt)) ->
  Forall (fun c => rt_ok ps G L (view c)) cs ->
  keeps (good [] G L) (plural_pick w mp i dflt cs) anyQ.
Proof.
  intros Hd. induction 1 as [|c r Hc Hr IH]; cbn [plural_pick].
  - kb u; [apply w_any; exact Hd|]. apply keeps_ret_any.
  - destruct c; try apply keeps_fail. destruct (i =? v)%Z; [|exact IH].
    cbn [view] in Hc. apply rt_ok_kids in Hc; [|reflexivity|discriminate]. inversion Hc as [|? ? H1 _]; subst.
    kb u; [apply w_any; exact H1|]. apply keeps_ret_any.
Qed.

Lemma msg_body_ok G L mp ns :
  Forall (fun n => rt_ok ps G L (view n)) ns -> keeps (good [] G L) (msg_body w mp ns) anyQ.
Proof.
  induction 1 as [|x r Hx Hr IH]; cbn [msg_body]; [apply keeps_ret_any|].
  destruct x; try exact IH.
  - (* raw text *) kb u; [apply w_any; exact Hx | exact IH].
  - (* placeholder *)
    cbn [view] in Hx. apply rt_ok_kids in Hx; [|reflexivity|discriminate]. inversion Hx as [|? ? H1 _]; subst.
    kb u; [apply w_any; exact H1 | exact IH].
  - (* plural *)
    cbn [view] in Hx. apply rt_ok_kids in Hx; [|reflexivity|discriminate].
    inversion Hx as [|? ? Hv Hrest]; subst. apply Forall_app in Hrest as [Hcases Hdflt].
    apply Forall_map_view in Hcases. inversion Hdflt as [|? ? Hd _]; subst.
    kb pv; [apply eval_ok; exact Hv|]. destruct pv; try apply keeps_fail.
    kb u; [apply plural_pick_ok; assumption | exact IH].
Qed.







Ltac to_any := unfold post; cbn [view rt_kind]; change (fun (_ : value) (_ : scope) => True) with (@anyQ value).
Ltac kids H := cbn [view] in H; apply rt_ok_kids in H; [|reflexivity|discriminate].

(* the lookup at the head of a data reference finds its key (the other lookups, of loop counters, always do) *)
Definition ref_bound (n : node) (s : scope) : Prop :=
  match n with NDataRef _ key _ => bstr_eqb key RefView.s_ij = false -> bound s key | _ => True end.
Definition is_call (n : node) : bool := match n with NCall _ _ _ _ _ => true | _ => false end.

Lemma ref_closed G L n : ext_closed (fun s => good [] G L s /\ ref_bound n s).
Proof.
  intros s s' [Hg Hb] He. split; [eapply good_ext; eauto|]. destruct n; try exact I. cbn [ref_bound] in *.
  intros E. eapply sc_ext_bound; eauto.
Qed.

(* a {call}: the data and the params are evaluated by [w] in the caller; the callee's walker [wc] starts in a
   scope of which nothing is known but its shape *)
Lemma call_ok G L (wc : node -> M value) p name alldata data params callee Q :
  rt_ok ps G L (view (NCall p name alldata data params)) ->
  keeps (good [] [] []) (wc (t_node callee)) Q ->
  keeps (good [] G L)
        (cd <-- call_data w alldata data ;;; cd' <-- call_params w params cd ;;;
         _ <-- modify (fun st => set_cur st p) ;;; call_enter wc callee cd') anyQ.
Proof.
  intros H Hc. kids H. apply Forall_app in H as [Hdat Hparams]. apply Forall_map_view in Hparams.
  eapply keeps_bind; [apply good_closed | apply (call_data_ok G L alldata data) |].
  { intros e ->. cbn in Hdat. inversion Hdat; assumption. }
  intros cd. apply (keeps_pure' (good [] G L) _ (cd <> [])); [intros s Hs; exact Hs|]. intros Hne.
  eapply keeps_bind; [apply good_closed | apply call_params_ok; exact Hparams |].
  intros cd'. apply (keeps_pure' (good [] G L) _ (params_post cd params cd' [])); [intros s Hs; exact Hs|].
  intros Hpost. destruct (Hpost Hne) as (Hne' & _ & _).
  kb u0; [kmod|].
  eapply keeps_enter; [|exact Hc].
  apply good_enter; [exact Hne'|]. intros k [].
Qed.

Lemma walk_node_ok G L n : is_call n = false -> rt_ok ps G L (view n) ->
  keeps (fun s => good [] G L s /\ ref_bound n s) (walk_node cf w n) (post n).
Proof.
  intros Hcall H. destruct n; try discriminate Hcall;
    try (lazymatch type of H with rt_ok _ _ _ (view (NDataRef _ _ _)) => fail | _ => idtac end;
         apply (keeps_pre (good [] G L)); [|intros s0 [Hs0 _]; exact Hs0]);
    cbn [walk_node]; try (to_any; first [apply keeps_ret_any | apply keeps_fail]).
  - (* function *)
    to_any. rewrite loop_names_fn. destruct (contains loop_func_names name) eqn:Hlf.
    + apply loop_func_ok. intros p0 key acc rest ->.
      destruct H as (Hwf & _). cbn [view Wf.wf wf_body map] in Hwf. apply andb_true_iff in Hwf as [Hlo _].
      unfold loopfunc_ok in Hlo. rewrite Hlf in Hlo. cbn [negb orb] in Hlo. unfold loop_arg in Hlo.
      destruct rest; [|destruct acc; discriminate Hlo]. destruct acc; [|discriminate Hlo]. apply contains_In. exact Hlo.
    + kids H. apply Forall_map_view in H. apply call_func_ok. exact H.
  - (* list literal *)
    to_any. kids H. apply Forall_map_view in H. kb vs; [apply eval_list_ok; exact H | apply keeps_fresh_list].
  - (* map literal *)
    to_any. kids H. apply maplit_forall in H. kb kvs; [apply maplit_items_ok; exact H | apply keeps_fresh_map].
  - (* data reference: the lookup finds the key by the precondition *)
    to_any. kids H. apply Forall_map_view in H.
    eapply keeps_bind0; [apply (ref_closed G L (NDataRef p key access)) | |
                         intros ref0; apply (keeps_pre (good [] G L)); [apply dataref_access_ok; exact H | intros s0 [Hs0 _]; exact Hs0]].
    change Interp.s_ij with RefView.s_ij. destruct (bstr_eqb key RefView.s_ij) eqn:Eij.
    + destruct (c_ij cf); [apply keeps_ret_any | apply keeps_fail].
    + apply keeps_lookup. intros s [_ Hb]. apply Hb. exact Eij.
  - (* not *) to_any. kids H. inversion H; subst. kb v; [apply eval_ok; assumption | apply keeps_ret_any].
  - (* negate *) to_any. kids H. inversion H; subst. kb v; [apply evaldef_ok; assumption|]. kauto ltac:(fail).
  - (* binary *)
    to_any. kids H. inversion H as [|? ? H1 H2]; subst. inversion H2 as [|? ? H3 _]; subst.
    destruct op;
      (kb x; [first [apply evaldef_ok; exact H1 | apply eval_ok; exact H1]|]);
      try (kb y; [first [apply evaldef_ok; exact H3 | apply eval_ok; exact H3]|]; kauto ltac:(fail));
      kauto ltac:(first [apply eval_ok; exact H3 | (kb y; [apply eval_ok; exact H3|])]).
  - (* ternary *)
    to_any. kids H. inversion H as [|? ? H1 H2]; subst. inversion H2 as [|? ? H3 H4]; subst. inversion H4 as [|? ? H5 _]; subst.
    kb c; [apply eval_ok; exact H1|]. destruct (truthy c); apply eval_ok; assumption.
  - (* list: a block *)
    to_any. cbn [view] in H. apply rt_ok_block in H.
    eapply keeps_scoped; [intros s Hs; apply good_push; exact Hs | apply walk_list_ok; exact H].
  - (* raw text *) to_any. kb u; [apply keeps_write | apply keeps_ret_any].
  - (* print *)
    to_any. kids H. inversion H as [|? ? Harg Hdirs]; subst. apply Forall_map_view in Hdirs.
    kb v; [apply w_any; exact Harg|].
    assert (Hk : keeps (good [] G L)
                   (ds <-- print_dirs cf w dirs v ;;; s <-- lift (value_string v) ;;; st <-- get ;;;
                    ws <-- lift (print_writes (mode st) ds s) ;;; _ <-- write_all ws ;;; ret VUndef) anyQ).
    { kb ds; [apply print_dirs_ok; exact Hdirs|]. kb s; [apply keeps_lift|]. kb st; [apply keeps_get|].
      kb ws; [apply keeps_lift|]. kb u; [apply keeps_write_all; apply good_closed | apply keeps_ret_any]. }
    destruct v; first [apply keeps_fail | exact Hk].
  - (* css *)
    to_any. kids H. kb pre; [|kb u; [apply keeps_write | apply keeps_ret_any]].
    destruct expr as [x|]; [|apply keeps_ret_any]. cbn in H. inversion H; subst.
    kb v; [apply eval_ok; assumption|]. kb s; [apply keeps_lift | apply keeps_ret_any].
  - (* log *) to_any. kids H. inversion H; subst. kb u; [apply render_block_ok; assumption | apply keeps_ret_any].
  - (* if *) to_any. kids H. apply Forall_map_view in H. apply if_conds_ok. exact H.
  - (* for *)
    to_any. cbn [view] in H. apply rt_ok_for in H as (l & bd & ie & Hk & Hl & Hb & Hie). injection Hk as <- <- <-.
    kb lv; [apply eval_ok; exact Hl|]. destruct lv; try apply keeps_fail. destruct l as [|x0 l0].
    + destruct ifempty as [ie|]; [|apply keeps_ret_any]. cbn in Hie. inversion Hie; subst.
      kb u; [apply w_any; assumption | apply keeps_ret_any].
    + eapply keeps_ext;
        [|eapply (keeps_scoped (good [] G L) (good [] G L)
                    (_ <-- m_set (var ++ s_lastindex) (VInt (Z.of_nat (length (x0 :: l0)) - 1)) ;;; for_items w var n2 0%Z (x0 :: l0)));
          [intros s Hs; apply good_push; exact Hs|]].
      * intros st. apply mbind_ext. intros u s. rewrite mbind_assoc. reflexivity.
      * eapply keeps_bind; [apply good_closed | apply keeps_set |]. intros u.
        eapply keeps_pre; [apply for_items_ok; exact Hb|]. tauto.
  - (* switch *)
    to_any. kids H. inversion H as [|? ? Hv Hcases]; subst. apply Forall_map_view in Hcases.
    kb sv; [apply eval_ok; exact Hv | apply switch_cases_ok; exact Hcases].
  - (* let value *)
    kids H. inversion H; subst. unfold post. cbn [view rt_kind].
    kb v; [apply eval_ok; assumption|].
    eapply keeps_bind; [apply good_closed | apply keeps_set |]. intros u.
    apply keeps_ret. intros s [_ [Hb _]]. exact Hb.
  - (* let content *)
    kids H. inversion H; subst. unfold post. cbn [view rt_kind].
    kb v; [apply render_block_ok; assumption|].
    eapply keeps_bind; [apply good_closed | apply keeps_set |]. intros u.
    apply keeps_ret. intros s [_ [Hb _]]. exact Hb.
  - (* msg *)
    to_any. kids H. apply Forall_map_view in H. kb u; [apply msg_body_ok; exact H | apply keeps_ret_any].
  - (* html tag in a message *) to_any. kb u; [apply keeps_write | apply keeps_ret_any].
  - (* template *)
    to_any. kids H. inversion H; subst. kb u; [kmod|]. kb u2; [apply w_any; assumption | apply keeps_ret_any].
Qed.

Lemma walk_body_ok G L n : is_call n = false -> rt_ok ps G L (view n) ->
  keeps (fun s => good [] G L s /\ ref_bound n s) (walk_body cf w n) (post n).
Proof.
  intros Hc H. unfold walk_body.
  eapply keeps_bind0; [apply ref_closed | kmod | intros u; apply walk_node_ok; assumption].
Qed.
End Body.

Lemma walk_body_dataref_miss (w : node -> M value) p key acc st :
  bstr_eqb key Interp.s_ij = false -> sc_lookup (ctx st) key = None ->
  walk_body cf w (NDataRef p key acc) st = dataref_access w acc VUndef (bump_unbound (set_cur st p)).
Proof.
  intros Hij Hl. unfold walk_body. cbn [walk_node pos_of]. rewrite Hij.
  unfold mbind at 1. cbn [modify]. unfold mbind at 1. unfold m_lookup. rewrite ctx_set_cur, Hl. reflexivity.
Qed.

Theorem walkx_ok fuel : forall ps, w_ok ps (walkx cf ps fuel).
Proof.
  induction fuel as [|f IH]; intros ps G L n H.
  - intros st r st' Hp Hr. cbn in Hr. inversion Hr; subst. split; [reflexivity|]. intros v Hv. discriminate.
  - destruct (is_call n) eqn:Hc.
    + destruct n; try discriminate Hc. cbn [walkx]. unfold post. cbn [view rt_kind].
      change (fun (_ : value) (_ : scope) => True) with (@anyQ value).
      eapply keeps_bind0; [apply good_closed | apply keeps_modify; intros; split; reflexivity | intros u].
      fold T. destruct (find_template T name) as [callee|] eqn:Hfind; [|apply keeps_fail].
      eapply (call_ok ps (walkx cf ps f) (IH ps)); [exact H|].
      apply IH. apply Hreg. eapply find_template_In. exact Hfind.
    + pose proof (walk_body_ok ps (walkx cf ps f) (IH ps) G L n Hc H) as Hb.
      intros st r st' Hp Hr.
      assert (Heq : walkx cf ps (S f) n st =
                    if is_excused ps n (ctx st)
                    then (let '(r, st') := walk_body cf (walkx cf ps f) n st in (r, uncount st'))
                    else walk_body cf (walkx cf ps f) n st)
        by (destruct n; try discriminate Hc; reflexivity).
      rewrite Heq in Hr. clear Heq. destruct (is_excused ps n (ctx st)) eqn:E.
      * (* the lookup misses on a declared param: bumped once, taken back at the end *)
        destruct n; try discriminate E. cbn [is_excused] in E.
        apply andb_true_iff in E as [E Hlk]. apply andb_true_iff in E as [Hij _]. apply negb_true_iff in Hij.
        destruct (sc_lookup (ctx st) key) eqn:Hl; [discriminate|].
        rewrite (walk_body_dataref_miss _ _ _ _ _ Hij Hl) in Hr.
        destruct (dataref_access (walkx cf ps f) access VUndef (bump_unbound (set_cur st p))) as [r1 st1] eqn:Hrun.
        injection Hr as <- <-.
        cbn [view] in H; apply rt_ok_kids in H; [|reflexivity|discriminate]. apply Forall_map_view in H.
        destruct (dataref_access_ok ps (walkx cf ps f) (IH ps) G L access H VUndef (bump_unbound (set_cur st p)) r1 st1 Hp Hrun) as [Hu Hok].
        split; [cbn in Hu |- *; rewrite Hu; reflexivity|].
        intros v Hv. destruct (Hok v Hv) as [He _]. split; [exact He | exact I].
      * apply (Hb st r st'); [|exact Hr]. split; [exact Hp|].
        destruct n; try exact I. cbn [ref_bound]. intros Hij.
        destruct H as (Hwf & _). cbn [view Wf.wf wf_body] in Hwf. apply andb_true_iff in Hwf as [Hkey _].
        rewrite Hij in Hkey. cbn [orb] in Hkey. apply orb_true_iff in Hkey as [Hk|Hk].
        -- apply (proj1 Hp). right. left. apply contains_In. exact Hk.
        -- cbn [is_excused] in E. change Interp.s_ij with RefView.s_ij in E. rewrite Hij, Hk in E. cbn [negb andb] in E.
           unfold bound. destruct (sc_lookup (ctx st) key); [discriminate | discriminate].
Qed.
End Link.

(* ================================================================== *)
(* the theorem *)

Theorem accepted_no_unbound_name cf fuel name data_id data cl bl first_id :
  check_registry (c_reg cf) = Accept ->
  registry_shaped (c_reg cf) = true ->
  rr_unbound (render_xc cf fuel name data_id data cl bl first_id) = 0%nat.
Proof.
  intros Hchk Hsh.
  apply check_registry_iff in Hchk; [|apply registry_shaped_loops_ok; exact Hsh].
  assert (Hreg : forall t0, In t0 (r_templates (c_reg cf)) ->
                 rt_ok cf (map fst (t_params t0)) [] [] (view (t_node t0))).
  { intros t0 Ht0. unfold wf_registry, wf_templates in Hchk. unfold registry_shaped in Hsh.
    rewrite forallb_forall in Hchk, Hsh. specialize (Hchk t0 Ht0). unfold wf_template, wf_template_node in Hchk.
    apply andb_true_iff in Hchk as [Hwf _]. split; [exact Hwf | auto]. }
  unfold render_xc. destruct (find_template (r_templates (c_reg cf)) name) as [t|] eqn:Hfind; [|reflexivity].
  set (st0 := init_state (sc_enter (new_scope data_id data)) (entry_mode (t_ns_autoescape t)) name cl bl first_id).
  destruct (walkx cf (map fst (t_params t)) fuel (t_node t) st0) as [r st] eqn:Hrun.
  assert (Hu : unbound st = 0%nat).
  { pose proof (walkx_ok cf Hreg fuel (map fst (t_params t)) [] [] (t_node t)
                  (Hreg t (find_template_In _ _ _ Hfind)) st0 r st) as H.
    destruct H as [H _]; [|exact Hrun | exact H].
    subst st0. cbn [init_state ctx]. apply good_enter; [discriminate|]. intros k []. }
  destruct r; cbn [rr_unbound]; try exact Hu.
  destruct (assoc_s name (r_sources (c_reg cf))) as [src|], (assoc_s name (r_files (c_reg cf))) as [file|];
    cbn [rr_unbound]; try exact Hu.
  destruct (line_number src (cur st)); cbn [rr_unbound]; exact Hu.
Qed.
