(* Source tie, family 77-gotrans-checker (parsepasses/datarefcheck.go): `contains` of the
   data-reference checker model (Model/RefView.v, used throughout Model/Checker.v) against the
   function as gotrans translates it from today's source. *)
From Coq Require Import ZArith NArith Bool Lia List.
From Soy Require Import Model.Bytes Generated.Tables Model.RefView Proofs.SourceTieBase.
Import ListNotations.
Open Scope N_scope.

Lemma contains_matches_source (l : list bstr) (x : bstr) : contains l x = src_parsepasses_contains l x.
Proof.
  unfold src_parsepasses_contains. rewrite find_existsb.
  induction l as [|y r IH]; cbn [contains existsb]; [reflexivity|]. now rewrite IH.
Qed.
