(* C15, template level with special-character commands: scanner model and parser model composed on
   T0 {c1} T1 {c2} T2 ... (Spec/TextBody.v). *)
From Soy Require Import Model.Bytes Model.Utf8 Model.Outcome Model.Num Model.Values Model.Ast Model.Token Model.RawText
  Model.ExprParser Model.Parser Model.Lexer Generated.Tables Spec.Text Spec.TextBody
  Proofs.RawTextProofs Proofs.ExprParserRules Proofs.LexTokens Proofs.LexBodyText Proofs.LexBodyTop Proofs.LexBodyMain
  Proofs.ParseBodyText Proofs.ParseBodySeg.
From Coq Require Import ZifyBool ZifyNat ZifyN Lia.
Open Scope N_scope.

Lemma stretch_no_nul start T : stretch_ok start T -> no_nul T.
Proof. intros [H _]. unfold no_nul. eapply Forall_impl; [|exact H]. intros a (Ha & _). exact Ha. Qed.

Section Main.
Variable uni_letter uni_digit : Z -> bool.
Hypothesis letter_ascii : forall c, (c < 128)%N -> uni_letter (Z.of_N c) = ((65 <=? c) && (c <=? 90) || (97 <=? c) && (c <=? 122))%N.
Hypothesis digit_ascii : forall c, (c < 128)%N -> uni_digit (Z.of_N c) = digit_b c.
Hypothesis letter_eof : uni_letter (-1)%Z = false.
Hypothesis digit_eof : uni_digit (-1)%Z = false.
Variable inlen : N.
Variable lexq : bstr -> list tok.
Variable unq : bstr -> option bstr.

Lemma soy_file_cmd_nodes T0 rest items : shape2 T0 rest items -> no_nul T0 -> Forall (fun sg : seg => no_nul (snd sg)) rest ->
  exists pos nodes st, po_result (soy_file inlen lexq unq items) = POk (NList pos nodes) st /\ Forall is_raw nodes /\
     concat (map raw_text_of nodes) = body_out T0 rest.
Proof.
  intros Hsh Hn0 Hnr. destruct (stream_init items) as [Hs Hi].
  unfold soy_file, parse_file, file_fuel.
  replace (length items + 8)%nat with (S (length items + 7)) by lia. cbn [item_list].
  destruct (seg_nodes inlen lexq unq parse_expr expr_fuel
              (lift_expr inlen parse_expr (length items + 7)) (item_list inlen lexq unq parse_expr expr_fuel (length items + 7))
              (length items + 7) T0 rest items Hsh Hn0 Hnr (S (length items + 7)) [] None (cst_init items)
              Hs Hi ltac:(lia) ltac:(lia)) as (pos & nodes & s' & Hrun & Hraw & Hcat).
  rewrite Hrun. exists pos, nodes, (c_p s'). cbn [po_result app]. auto.
Qed.

Theorem body_cmds_impl_spec T0 rest : stretch_ok true T0 -> Forall seg_ok rest ->
  exists items pos nodes st,
    lex_items uni_letter uni_digit (lex_budget (body_src T0 rest)) false (body_src T0 rest) = Ok items /\
    po_result (soy_file inlen lexq unq items) = POk (NList pos nodes) st /\
    Forall is_raw nodes /\ concat (map raw_text_of nodes) = body_out T0 rest.
Proof.
  intros Hok Hrest.
  destruct (lex_body_cmds uni_letter uni_digit letter_ascii digit_ascii letter_eof digit_eof T0 rest Hok Hrest) as (items & Hlex & Hsh).
  assert (Hnr : Forall (fun sg : seg => no_nul (snd sg)) rest).
  { eapply Forall_impl; [|exact Hrest]. intros sg [_ H]. eapply stretch_no_nul; exact H. }
  destruct (soy_file_cmd_nodes T0 rest items Hsh (stretch_no_nul _ _ Hok) Hnr) as (pos & nodes & st & A & B & C).
  exists items, pos, nodes, st. auto.
Qed.

End Main.
