(* The writer invariant of Proofs/JsGenProofs.v carried through the whole
   generator: for a chunk predicate Q that holds of the generator's own
   emissions and a node predicate Pn closed under taking children, walking a
   node in Pn only appends chunks in Q. *)
From Soy Require Import Model.Bytes Model.Num Model.Values Model.Outcome Model.Ast Model.Utf8 Model.JsEscape
  Generated.Tables Model.JsGen Proofs.JsGenProofs.
Open Scope N_scope.

(* the nodes the walker may reach from a node in one step *)
Definition opt_list {A} (x : option A) : list A := match x with Some y => [y] | None => [] end.
Definition children (n : node) : list node :=
  match n with
  | NFunc _ _ args => args
  | NListLit _ items => items
  | NMapLit _ items => map snd items
  | NDataRef _ _ acc => acc
  | NAccExpr _ _ a => [a]
  | NNot _ a | NNeg _ a => [a]
  | NBin _ _ a c => [a; c]
  | NTern _ a c d => [a; c; d]
  | NList _ ns => ns
  | NPrint _ a dirs => a :: dirs
  | NDirective _ _ args => args
  | NCss _ e _ => opt_list e
  | NLog _ bd => [bd]
  | NIf _ conds => conds
  | NIfCond _ c bd => opt_list c ++ [bd]
  | NFor _ _ l bd ie => l :: bd :: opt_list ie
  | NSwitch _ v cases => v :: cases
  | NSwitchCase _ vs bd => vs ++ [bd]
  | NCall _ _ _ d ps => opt_list d ++ ps
  | NParamValue _ _ v => [v]
  | NParamContent _ _ c => [c]
  | NLetValue _ _ e => [e]
  | NLetContent _ _ bd => [bd]
  | NMsg _ _ _ _ body => body
  | NMsgPlaceholder _ _ bd => [bd]
  | NMsgPlural _ _ v cases dflt => v :: cases ++ dflt
  | NMsgPluralCase _ _ body => body
  | NTemplate _ _ bd _ _ => [bd]
  | NGlobal p _ v => opt_list (node_of_value p v)
  | _ => []
  end.

(* every CText the generator writes inside template bodies and file headers
   (the function header and the namespace declaration opener are kept apart) *)
Definition body_texts : list bstr :=
  [t_nl; t_pluseq; t_semi_nl; t_var; t_eq_empty; t_eq; t_semi; t_null; t_true; t_false; t_comma; t_comma_sp; t_colon;
   t_colon_sp; t_lbrack; t_rbrack; t_lbrace; t_rbrace; t_lpar; t_rpar; t_dot; t_neg_open; t_not_open; t_op_open; t_op_mid1;
   t_op_mid2; t_op_close; t_elvis1; t_elvis2; t_tern1; t_css_tail; t_debugger; t_console_log; t_close_semi; t_hdr1; t_hdr2;
   t_ns2; t_ns3; t_optdata_init; t_var_output; t_return_output; t_fn_end; t_truncate_true; t_eq0; t_eqeq; t_minus1;
   t_opt_ij; t_opt_data; t_opt_data_dot; t_nullsafe; t_empty_obj; t_augment; t_augment_mid; t_augment_end; t_call_tail;
   t_else; t_if_open; t_brace_nl; t_for_open; t_semi_sp; t_lt; t_for_close; t_length; t_gt0; t_eq0_semi; t_plusplus;
   t_else_block; t_switch_open; t_case; t_default; t_break; t_plural_open; t_plural_close; []].

(* texts that come from the regenerated tables *)
Definition piece_texts (ps : list (bstr + nat)) : list bstr :=
  flat_map (fun p => match p with inl t => [t] | inr _ => [] end) ps.
Definition table_texts : list bstr :=
  flat_map (fun e => flat_map (fun a => piece_texts (snd a)) (snd (snd e))) js_funcs
  ++ map (fun e => t_soy_dd ++ snd e ++ t_lpar) js_builtin_funcs
  ++ map (fun e => fst (snd e)) js_directives
  ++ piece_texts js_es5_template_text ++ piece_texts js_es6_template_text
  ++ piece_texts js_es5_call_text ++ piece_texts js_es6_call_text
  ++ piece_texts js_es5_directive ++ piece_texts js_es6_directive
  ++ piece_texts js_es5_function ++ piece_texts js_es6_function.

Lemma assoc_s_in {A} (k : bstr) (l : list (bstr * A)) v : assoc_s k l = Some v -> exists k', In (k', v) l.
Proof.
  induction l as [|[k' v'] l IH]; cbn; intro H; [discriminate|].
  destruct (bstr_eqb k k'). inversion H; subst. exists k'; auto. destruct (IH H) as (k2 & Hin). exists k2; auto.
Qed.

Lemma pick_alt_in alts n ps : pick_alt alts n = Some ps -> exists g, In (g, ps) alts.
Proof.
  induction alts as [|[g ps'] alts IH]; cbn; intro H; [discriminate|].
  destruct g as [k|].
  - destruct (Nat.eqb k n). inversion H; subst. exists (Some k); auto. destruct (IH H) as (g & Hin). exists g; auto.
  - inversion H; subst. exists None; auto.
Qed.

Section Walk.
Variable o : jopts.
Variable Q : chunk -> Prop.
Variable Pn : node -> Prop.

Hypothesis Pn_children : forall n, Pn n -> Forall Pn (children n).
Hypothesis Pn_int : forall p z, Pn (NInt p z).

Hypothesis Q_body : forall t, In t body_texts -> Q (CText t).
Hypothesis Q_table : forall t, In t table_texts -> Q (CText t).
Hypothesis Q_indent : forall n, Q (CText (indent_text n)).
Hypothesis Q_sym : forall op_, Q (CText (binop_sym op_)).
Hypothesis Q_lit : forall q s, q = 39 \/ q = 34 -> Q (CStrLit q s).
Hypothesis Q_name : forall s, Q (CName s).
Hypothesis Q_num : forall s, Q (CNum s).
Hypothesis Q_file : forall s, Q (CFile (line_comment_safe s)).
Hypothesis Q_tmpl : forall p nm bd ae pr, Pn (NTemplate p nm bd ae pr) -> Q (CText t_fn_params).
Hypothesis Q_ns : forall p nm ae, Pn (NNamespace p nm ae) -> Q (CText t_ns1).

Lemma Q_body' t : existsb (bstr_eqb t) body_texts = true -> Q (CText t).
Proof.
  intro H. apply existsb_exists in H. destruct H as (t' & Hin & He). apply Q_body.
  assert (t = t'). { clear Hin. revert t' He. induction t as [|a t IH]; destruct t' as [|c t']; cbn; intros He; try discriminate; auto.
    apply andb_prop in He. destruct He as [H1 H2]. apply N.eqb_eq in H1. subst. f_equal. auto. }
  subst. exact Hin.
Qed.

Ltac qb := apply Q_body'; reflexivity.
Ltac solveQ := first [ apply Q_name | apply Q_num | apply Q_indent | apply Q_sym | apply Q_file
                     | (apply Q_lit; auto; fail) | qb | assumption ].
Ltac solveF := repeat (first [ apply Forall_nil | apply Forall_cons; [solveQ|] | apply Forall_app; split | assumption ]).

Notation jsp := (jspec Q).

Ltac jmodt := apply jspec_mod; intro; reflexivity.
Ltac jstep :=
  lazymatch goal with
  | |- jspec _ _ (jret _) => apply jspec_ret; try exact I
  | |- jspec _ _ (jfail _) => apply jspec_fail
  | |- jspec _ _ (jbind _ _) => eapply jspec_bind; [| intros ? ?]
  | |- jspec _ _ jget => apply jspec_get
  | |- jspec _ _ (emit _) => apply jspec_emit; solveF
  | |- jspec _ _ (txt _) => apply jspec_txt; solveQ
  | |- jspec _ _ (jmod _) => jmodt
  | |- jspec _ _ (fun _ => OutOfModel) => apply jspec_stuck; intros ? ?; discriminate
  | |- jspec _ _ (fun _ => OutOfFuel) => apply jspec_stuck; intros ? ?; discriminate
  | |- jspec _ _ (fun _ => Crash _) => apply jspec_stuck; intros ? ?; discriminate
  end.

Lemma sp_jindent : jsp T jindent.
Proof. unfold jindent. repeat jstep. Qed.
Lemma sp_jsln cs : Forall Q cs -> jsp T (jsln cs).
Proof. intro F. unfold jsln. jstep. apply sp_jindent. jstep. jstep. jstep. Qed.
Lemma sp_indent_inc : jsp T indent_inc.
Proof. unfold indent_inc. jstep. Qed.
Lemma sp_indent_dec : jsp T indent_dec.
Proof. unfold indent_dec. jstep. Qed.
Lemma sp_bufname : jsp (Forall Q) bufname.
Proof. unfold bufname. jstep. jstep. apply jspec_ret. solveF. Qed.
Lemma sp_push : jsp T jsc_push.
Proof. unfold jsc_push. jstep. Qed.
Lemma sp_pop : jsp T jsc_pop.
Proof. unfold jsc_pop. jstep. Qed.
Lemma sp_makevar v : jsp T (jsc_makevar v).
Proof. unfold jsc_makevar. jstep. jstep. destruct (j_scope x); repeat jstep. Qed.
Lemma sp_lookup_var v : jsp T (lookup_var v).
Proof. unfold lookup_var. repeat jstep. Qed.
Lemma sp_push_for_range v : jsp T (jsc_push_for_range v).
Proof. unfold jsc_push_for_range. repeat jstep. Qed.
Lemma sp_push_for_each v : jsp T (jsc_push_for_each v).
Proof. unfold jsc_push_for_each. repeat jstep. Qed.

Lemma fmt_chunks_Q ps name : (forall t, In t (piece_texts ps) -> Q (CText t)) -> Forall Q (fmt_chunks ps name).
Proof.
  induction ps as [|[t|[|k]] ps IH]; cbn; intro H; constructor; auto; try apply Q_name.
  - apply H. left; reflexivity.
  - apply IH. intros t' Hin. apply H. right; exact Hin.
Qed.

End Walk.
