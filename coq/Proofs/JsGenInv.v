(* The writer invariant of Proofs/JsGenProofs.v carried through the whole
   generator: for a chunk predicate Q that holds of the generator's own
   emissions and a node predicate Pn closed under taking children, walking a
   node in Pn only appends chunks in Q. *)
From Soy Require Import Model.Bytes Model.Num Model.Values Model.Outcome Model.Ast Model.Utf8 Model.JsEscape
  Generated.Tables Model.JsGen Spec.JsOut Proofs.JsGenProofs.
Open Scope N_scope.
#[local] Arguments assoc_s {A} k l : simpl never.

(* every CText the generator writes inside template bodies and file headers
   (the function header and the namespace declaration opener are kept apart) *)
Definition body_texts : list bstr :=
  [t_nl; t_pluseq; t_semi_nl; t_var; t_eq_empty; t_eq; t_semi; t_null; t_true; t_false; t_comma; t_comma_sp; t_colon;
   t_colon_sp; t_lbrack; t_rbrack; t_lbrace; t_rbrace; t_lpar; t_rpar; t_dot; t_neg_open; t_not_open; t_op_open; t_op_mid1;
   t_op_mid2; t_op_close; t_elvis1; t_elvis2; t_tern1; t_css_tail; t_debugger; t_console_log; t_close_semi; t_hdr1; t_hdr2;
   t_ns2; t_ns3; t_optdata_init; t_var_output; t_return_output; t_fn_end; t_truncate_true; t_eq0; t_eqeq; t_minus1;
   t_opt_ij; t_opt_data; t_opt_data_dot; t_nullsafe; t_empty_obj; t_augment; t_augment_mid; t_augment_end; t_call_tail;
   t_else; t_if_open; t_brace_nl; t_for_open; t_semi_sp; t_lt; t_for_close; t_length; t_gt0; t_eq0_semi; t_plusplus;
   t_else_block; t_switch_open; t_case; t_default; t_break; t_plural_open; t_plural_close; [];
   t_count1; t_minus; t_count2; t_count3; t_plus; t_times].

(* texts that come from the regenerated tables *)
Definition piece_texts (ps : list (bstr + nat)) : list bstr :=
  flat_map (fun p => match p with inl t => [t] | inr _ => [] end) ps.
Definition table_texts : list bstr :=
  flat_map (fun e => flat_map (fun a => piece_texts (snd a)) (snd (snd e))) js_funcs
  ++ map (fun e => t_soy_dd ++ snd e ++ t_lpar) js_builtin_funcs
  ++ map (fun e => fst (snd e)) js_directives
  ++ piece_texts js_es5_template_text ++ piece_texts js_es6_template_text
  ++ piece_texts js_es5_call_text ++ piece_texts js_es6_call_text
  ++ piece_texts js_es5_directive ++ piece_texts js_es6_directive
  ++ piece_texts js_es5_function ++ piece_texts js_es6_function.

Lemma assoc_s_in {A} (k : bstr) (l : list (bstr * A)) v : assoc_s k l = Some v -> exists k', In (k', v) l.
Proof.
  induction l as [|[k' v'] l IH]; intro H; [discriminate|]. unfold assoc_s in H; fold (@assoc_s A) in H.
  destruct (bstr_eqb k k'). inversion H; subst. exists k'; cbn; auto. destruct (IH H) as (k2 & Hin). exists k2; cbn; auto.
Qed.

Lemma pick_alt_in alts n ps : pick_alt alts n = Some ps -> exists g, In (g, ps) alts.
Proof.
  induction alts as [|[g ps'] alts IH]; cbn; intro H; [discriminate|].
  destruct g as [k|].
  - destruct (Nat.eqb k n). inversion H; subst. exists (Some k); auto. destruct (IH H) as (g & Hin). exists g; auto.
  - inversion H; subst. exists None; auto.
Qed.

Section Walk.
Variable o : jopts.
Variable Q : chunk -> Prop.
Variable Pn : node -> Prop.

Hypothesis Pn_children : forall n, Pn n -> Forall Pn (children n).
Hypothesis Pn_int : forall p z, Pn (NInt p z).

Hypothesis Q_body : forall t, In t body_texts -> Q (CText t).
Hypothesis Q_table : forall t, In t table_texts -> Q (CText t).
Hypothesis Q_indent : forall n, Q (CText (indent_text n)).
Hypothesis Q_sym : forall op_, Q (CText (binop_sym op_)).
Hypothesis Q_lit : forall q s, q = 39 \/ q = 34 -> Q (CStrLit q s).
Hypothesis Q_name : forall s, Q (CName s).
Hypothesis Q_num_z : forall z, Q (CNum (dec_of_Z z)).
Hypothesis Q_num_n : forall n, Q (CNum (dec_of_N n)).
Hypothesis Q_num_f : forall f s, float_node_string f = Some s -> Q (CNum s).
Hypothesis Q_file : forall s, Q (CFile (line_comment_safe s)).
Hypothesis Q_tmpl : forall p nm bd ae pr, Pn (NTemplate p nm bd ae pr) -> Q (CText t_fn_params).
Hypothesis Q_ns : forall p nm ae, Pn (NNamespace p nm ae) -> Q (CText t_ns1).

Lemma Q_body' t : existsb (bstr_eqb t) body_texts = true -> Q (CText t).
Proof.
  intro H. apply existsb_exists in H. destruct H as (t' & Hin & He). apply Q_body.
  assert (t = t'). { clear Hin. revert t' He. induction t as [|a t IH]; destruct t' as [|c t']; cbn; intros He; try discriminate; auto.
    apply andb_prop in He. destruct He as [H1 H2]. apply N.eqb_eq in H1. subst. f_equal. auto. }
  subst. exact Hin.
Qed.

Ltac qb := apply Q_body'; reflexivity.
Ltac solveQ := first [ apply Q_name | apply Q_num_z | apply Q_num_n | (eapply Q_num_f; eassumption) | apply Q_indent | apply Q_sym | apply Q_file
                     | (apply Q_lit; auto; fail) | qb | assumption ].
Ltac solveF := repeat (first [ apply Forall_nil | apply Forall_cons; [solveQ|] | apply Forall_app; split | assumption ]).

Notation jsp := (jspec Q).

Ltac jmodt := apply jspec_mod; intro; reflexivity.
Ltac jstep :=
  lazymatch goal with
  | |- jspec _ _ (jret _) => apply jspec_ret; try exact I
  | |- jspec _ _ (jfail _) => apply jspec_fail
  | |- jspec _ _ (jbind (jret tt) _) => apply jspec_bind with (R1 := T); [apply jspec_ret; exact I | intros ? ?]
  | |- jspec _ _ (jbind (if _ then _ else _) _) => apply jspec_bind with (R1 := T); [| intros ? ?]
  | |- jspec _ _ (jbind (match _ with _ => _ end) _) => apply jspec_bind with (R1 := T); [| intros ? ?]
  | |- jspec _ _ (jbind _ _) => eapply jspec_bind; [| intros ? ?]
  | |- jspec _ _ jget => apply jspec_get
  | |- jspec _ _ (jemit _) => apply jspec_emit; solveF
  | |- jspec _ _ (jtxt (if ?b then _ else _)) => destruct b
  | |- jspec _ _ (jtxt _) => apply jspec_txt; solveQ
  | |- jspec _ _ (jmod _) => jmodt
  | |- jspec _ _ (match float_node_string ?f with _ => _ end) => let E := fresh "Ef" in destruct (float_node_string f) eqn:E
  | |- jspec _ _ (match ?x with _ => _ end) => destruct x
  | |- jspec _ _ (if ?b then _ else _) => destruct b
  | |- jspec _ _ (fun _ => OutOfModel) => apply jspec_stuck; intros ? ?; discriminate
  | |- jspec _ _ (fun _ => OutOfFuel) => apply jspec_stuck; intros ? ?; discriminate
  | |- jspec _ _ (fun _ => Crash _) => apply jspec_stuck; intros ? ?; discriminate
  end.

Lemma sp_jindent : jsp T jindent.
Proof. unfold jindent. repeat jstep. Qed.
Lemma sp_jsln cs : Forall Q cs -> jsp T (jsln cs).
Proof. intro F. unfold jsln. jstep. apply sp_jindent. jstep. jstep. jstep. Qed.
Lemma sp_indent_inc : jsp T indent_inc.
Proof. unfold indent_inc. jstep. Qed.
Lemma sp_indent_dec : jsp T indent_dec.
Proof. unfold indent_dec. jstep. Qed.
Lemma sp_bufname : jsp (Forall Q) bufname.
Proof. unfold bufname. jstep. jstep. apply jspec_ret. solveF. Qed.
Lemma sp_push : jsp T jsc_push.
Proof. unfold jsc_push. jstep. Qed.
Lemma sp_pop : jsp T jsc_pop.
Proof. unfold jsc_pop. jstep. Qed.
Lemma sp_genname v : jsp T (jsc_genname v).
Proof. unfold jsc_genname. repeat jstep. Qed.
Lemma sp_bind v g : jsp T (jsc_bind v g).
Proof. unfold jsc_bind. jstep. jstep. destruct (j_scope x); repeat jstep. Qed.
Lemma sp_makevar v : jsp T (jsc_makevar v).
Proof. unfold jsc_makevar. jstep. apply sp_genname. jstep. apply sp_bind. jstep. Qed.
Lemma sp_lookup_var v : jsp T (lookup_var v).
Proof. unfold lookup_var. repeat jstep. Qed.
Lemma sp_push_for_range v : jsp T (jsc_push_for_range v).
Proof. unfold jsc_push_for_range. repeat jstep. Qed.
Lemma sp_push_for_each v : jsp T (jsc_push_for_each v).
Proof. unfold jsc_push_for_each. repeat jstep. Qed.

Lemma fmt_chunks_Q ps name : (forall t, In t (piece_texts ps) -> Q (CText t)) -> Forall Q (fmt_chunks ps name).
Proof.
  induction ps as [|p ps IH]; cbn; intro H; [constructor|].
  destruct p as [t|[|k]]; constructor.
  - apply H. cbn. left; reflexivity.
  - apply IH. intros t' Hin. apply H. cbn. right; exact Hin.
  - apply Q_name.
  - apply IH. intros t' Hin. apply H. cbn. exact Hin.
  - apply Q_name.
  - apply IH. intros t' Hin. apply H. cbn. exact Hin.
Qed.


Lemma Pn_child n x : Pn n -> In x (children n) -> Pn x.
Proof. intros H Hin. exact (proj1 (Forall_forall _ _) (Pn_children n H) x Hin). Qed.

Ltac pnc H := let HC := fresh "HC" in pose proof (Pn_children _ H) as HC; cbn [children opt_list app map snd] in HC.
Ltac fsplit :=
  repeat match goal with
         | H : Forall _ (_ :: _) |- _ => apply Forall_cons_iff in H; destruct H
         | H : Forall _ (_ ++ _) |- _ => apply Forall_app in H; destruct H
         end.

Section Body.
Variable w : node -> J unit.
Hypothesis Hw : forall n, Pn n -> jsp T (w n).

Ltac jknown :=
  first [ apply sp_jindent | (apply sp_jsln; solveF) | apply sp_indent_inc | apply sp_indent_dec | apply sp_bufname | apply sp_push | apply sp_pop
        | apply sp_makevar | apply sp_genname | apply sp_bind | apply sp_lookup_var | apply sp_push_for_range | apply sp_push_for_each
        | (apply Hw; auto; fail) ].
Ltac jgo := repeat first [ jknown | jstep ]; try exact I.

Lemma sp_walk_list ns : Forall Pn ns -> jsp T (jwalk_list w ns).
Proof. induction ns as [|x r IH]; intro F; cbn. jgo. inversion F; subst. jgo. apply IH; auto. Qed.

Lemma sp_block n : Pn n -> jsp (Forall Q) (jblock w n).
Proof.
  intros Hn st x st' Hc E. unfold jblock, jbind, jget in E. cbn in E.
  match type of E with context [w n ?sub] => set (sb := sub) in * end.
  destruct (w n sb) as [[u sub']| | | | |] eqn:Ew; try discriminate. inversion E; subst. clear E.
  assert (Hcs : called_ok Q sb) by exact Hc.
  destruct (Hw n Hn sb u sub' Hcs Ew) as (cs & Eo & F & C & _).
  exists []. split; [reflexivity|]. split; [constructor|]. split; [exact C|].
  rewrite Eo. cbn. rewrite app_nil_r, rev_involutive. exact F.
Qed.

Lemma sp_write_raw_text t : jsp T (write_raw_text t).
Proof. unfold write_raw_text. jgo. Qed.

Lemma sp_list_items first l : Forall Pn l -> jsp T (list_items w first l).
Proof.
  revert first. induction l as [|x r IH]; intros first F; cbn. jgo. inversion F; subst. jgo. apply IH; auto.
Qed.

Lemma sp_map_items first l : Forall Pn (map snd l) -> jsp T (map_items w first l).
Proof.
  revert first. induction l as [|[k x] r IH]; intros first F; cbn. jgo. cbn in F. inversion F; subst. jgo. apply IH; auto.
Qed.

Lemma sp_jop sym a c : Q (CText sym) -> Pn a -> Pn c -> jsp T (jop w sym a c).
Proof. intros. unfold jop. jgo. Qed.

Lemma sp_apply_pieces ps args : (forall t, In t (piece_texts ps) -> Q (CText t)) -> Forall Pn args -> jsp T (apply_pieces w ps args).
Proof.
  intros Ht Fa. induction ps as [|p ps IH]; cbn. jgo.
  destruct p as [t|i].
  - jstep. apply jspec_txt. apply Ht. cbn. auto. apply IH. intros t' Hin. apply Ht. cbn. auto.
  - destruct (nth_error args i) as [a|] eqn:En; [|jgo].
    assert (Pn a). { apply nth_error_In in En. exact (proj1 (Forall_forall _ _) Fa a En). }
    jgo. apply IH. intros t' Hin. apply Ht. cbn. exact Hin.
Qed.

Lemma sp_builtin_call name args : Q (CText (t_soy_dd ++ name ++ t_lpar)) -> Forall Pn args -> jsp T (builtin_call w name args).
Proof. intros. unfold builtin_call. jstep. jstep. jstep. apply sp_list_items; auto. jgo. Qed.

Lemma Q_table_func name lens alts g ps t :
  In (name, (lens, alts)) js_funcs -> In (g, ps) alts -> In t (piece_texts ps) -> Q (CText t).
Proof.
  intros H1 H2 H3. apply Q_table. unfold table_texts. apply in_or_app. left.
  apply in_flat_map. exists (name, (lens, alts)). split; auto. cbn. apply in_flat_map. exists (g, ps). split; auto.
Qed.

Lemma Q_fmt_function name : Forall Q (fmt_chunks (fmt_function (o_fmt o)) name).
Proof.
  apply fmt_chunks_Q. intros t Hin. apply Q_table. unfold table_texts. destruct (o_fmt o); cbn [fmt_function] in Hin;
    repeat (apply in_or_app; first [left; exact Hin | right]); try exact Hin.
Qed.
Lemma Q_fmt_directive name : Forall Q (fmt_chunks (fmt_directive (o_fmt o)) name).
Proof.
  apply fmt_chunks_Q. intros t Hin. apply Q_table. unfold table_texts. destruct (o_fmt o); cbn [fmt_directive] in Hin;
    repeat (apply in_or_app; first [left; exact Hin | right]); try exact Hin.
Qed.
Lemma Q_fmt_call_text name : Forall Q (fmt_chunks (fmt_call_text (o_fmt o)) name).
Proof.
  apply fmt_chunks_Q. intros t Hin. apply Q_table. unfold table_texts. destruct (o_fmt o); cbn [fmt_call_text] in Hin;
    repeat (apply in_or_app; first [left; exact Hin | right]); try exact Hin.
Qed.
Lemma Q_fmt_template_text name : Forall Q (fmt_chunks (fmt_template_text (o_fmt o)) name).
Proof.
  apply fmt_chunks_Q. intros t Hin. apply Q_table. unfold table_texts. destruct (o_fmt o); cbn [fmt_template_text] in Hin;
    repeat (apply in_or_app; first [left; exact Hin | right]); try exact Hin.
Qed.

Lemma sp_visit_function name args : Forall Pn args -> jsp T (visit_function o w name args).
Proof.
  intro Fa. unfold visit_function.
  destruct (assoc_s name js_builtin_funcs) as [jn|] eqn:Eb.
  - destruct (assoc_s_in _ _ _ Eb) as (k' & Hin).
    jstep. apply sp_builtin_call; auto. apply Q_table. unfold table_texts. apply in_or_app. right. apply in_or_app. left.
    apply in_map_iff. exists (k', jn). split; auto. apply jspec_note_called. apply Q_fmt_function.
  - destruct (assoc_s name js_funcs) as [[lens alts]|] eqn:Ef.
    + destruct (assoc_s_in _ _ _ Ef) as (k' & Hin).
      destruct (pick_alt alts (length args)) as [ps|] eqn:Ep.
      * destruct (pick_alt_in _ _ _ Ep) as (g & Hg).
        jstep. apply sp_apply_pieces; auto. intros t Ht. eapply Q_table_func; eauto. apply jspec_note_called. apply Q_fmt_function.
      * apply jspec_note_called. apply Q_fmt_function.
    + destruct (bstr_eqb name jn_isFirst || bstr_eqb name jn_isLast || bstr_eqb name jn_index); [|jgo].
      jstep. jstep. destruct (jsc_loop (j_scope x) (loop_var_of args)) as [ix lim]. jgo.
Qed.

(* ---- data references ---- *)
Lemma sp_dataref_access acc expr closers : Forall Pn acc -> Forall Q expr -> Forall Q closers ->
  jsp (Forall Q) (jdataref_access w acc expr closers).
Proof.
  revert expr closers. induction acc as [|a rest IH]; intros expr closers Fa Fe Fc; cbn [jdataref_access].
  apply jspec_ret. solveF.
  inversion Fa; subst.
  assert (Hp : forall ns : bool, jsp (Forall Q)
            (if ns then jemit ([CText t_op_open] ++ expr ++ [CText t_nullsafe]);;; jret (CText t_rpar :: closers) else jret closers)).
  { intros [|]. eapply jspec_bind. apply jspec_emit. solveF. intros _ _. apply jspec_ret. solveF. apply jspec_ret; auto. }
  destruct a; try (apply IH; auto; fail).
  - eapply jspec_bind. apply Hp. intros cl Fcl. apply IH; auto. solveF.
  - eapply jspec_bind. apply Hp. intros cl Fcl. apply IH; auto. solveF.
  - pnc H1. fsplit. eapply jspec_bind. apply Hp. intros cl Fcl.
    eapply jspec_bind. apply sp_block; auto. intros bl Fbl. apply IH; auto. solveF.
Qed.

Lemma sp_visit_dataref key acc : Forall Pn acc -> jsp T (visit_dataref w key acc).
Proof.
  intro Fa. unfold visit_dataref. apply jspec_bind with (R1 := Forall Q).
  - destruct (bstr_eqb key n_ij). apply jspec_ret. solveF.
    eapply jspec_bind. apply sp_lookup_var. intros g _. destruct g; apply jspec_ret; solveF.
  - intros base Fb. eapply jspec_bind. apply sp_dataref_access; auto. intros expr Fe. jgo.
Qed.

(* ---- print ---- *)
Definition kept_ok (k : list (bstr * list node)) : Prop := Forall (fun d => Forall Pn (snd d)) k.

Lemma sp_print_scan dirs escape kept : Forall Pn dirs -> kept_ok kept ->
  jsp (fun r => kept_ok (snd r)) (print_scan o dirs escape kept).
Proof.
  revert escape kept. induction dirs as [|d r IH]; intros escape kept Fd Fk; cbn. apply jspec_ret; auto.
  inversion Fd; subst. destruct d; try (apply jspec_stuck; intros ? ?; discriminate).
  destruct (assoc_s name js_directives) as [[jn cancel]|] eqn:Ed; [|apply jspec_fail].
  destruct (bstr_eqb name n_id || bstr_eqb name n_noAutoescape). apply IH; auto.
  eapply jspec_bind. apply jspec_note_called. apply Q_fmt_directive. intros _ _. apply IH; auto.
  pnc H1. apply Forall_app. split; [|constructor; auto].
  destruct (bstr_eqb name n_changeNewlineToBr || bstr_eqb name n_insertWordBreaks); auto.
  apply Forall_app. split; auto. constructor; [cbn; constructor|constructor].
Qed.

Lemma Q_directive_js name : Q (CText (directive_js name)).
Proof.
  unfold directive_js. destruct (assoc_s name js_directives) as [[jn c]|] eqn:Ed; [|qb].
  destruct (assoc_s_in _ _ _ Ed) as (k' & Hin). apply Q_table. unfold table_texts.
  apply in_or_app. right. apply in_or_app. right. apply in_or_app. left. apply in_map_iff. exists (k', (jn, c)). split; auto.
Qed.

Lemma sp_print_opens ds : jsp T (print_opens ds).
Proof. induction ds as [|[name args] r IH]; cbn. jgo. jstep. apply jspec_emit. constructor. apply Q_directive_js. solveF. exact IH. Qed.

Lemma sp_print_args args : Forall Pn args -> jsp T (print_args w args).
Proof. induction args as [|a r IH]; intro F; cbn. jgo. inversion F; subst. jgo. apply IH; auto. Qed.

Lemma sp_print_closes ds : kept_ok ds -> jsp T (print_closes w ds).
Proof.
  induction ds as [|[name args] r IH]; intro F; cbn. jgo. inversion F; subst. cbn [snd] in *.
  jstep. apply sp_print_args; auto. jgo. apply IH; auto.
Qed.

Lemma sp_visit_print arg dirs : Pn arg -> Forall Pn dirs -> jsp T (visit_print o w arg dirs).
Proof.
  intros Ha Fd. unfold visit_print. jstep. jstep. eapply jspec_bind. apply sp_print_scan; auto. constructor.
  intros [escape kept] Fk. cbn in Fk.
  assert (Fk' : kept_ok (if escape =? 2 then kept else kept ++ [(n_escapeHtml, [])])).
  { destruct (escape =? 2); auto. apply Forall_app. split; auto. constructor; auto. cbn. constructor. }
  jstep. jknown. jstep. jknown. jstep. jstep. jstep. apply sp_print_opens. jstep. jknown. jstep. apply sp_print_closes; auto. jgo.
Qed.

(* ---- calls ---- *)
Lemma sp_call_params first ps acc : Forall Pn ps -> Forall Q acc -> jsp (Forall Q) (jcall_params w first ps acc).
Proof.
  revert first acc. induction ps as [|p r IH]; intros first acc Fp Fa; cbn. apply jspec_ret; auto.
  inversion Fp; subst.
  assert (Fa' : Forall Q (if first then acc else acc ++ [CText t_comma_sp])). { destruct first; auto. solveF. }
  destruct p; try (apply IH; auto; fail).
  - pnc H1. fsplit. eapply jspec_bind. apply sp_block; auto. intros bl Fb. apply IH; auto. solveF.
  - pnc H1. fsplit. jstep. jstep. jstep. jknown. jstep. jstep. jstep. jknown. jstep. jknown. jstep. jstep. apply IH; auto. solveF.
Qed.

Lemma sp_visit_call name alldata data params : Forall Pn (opt_list data) -> Forall Pn params -> jsp T (visit_call o w name alldata data params).
Proof.
  intros Fd Fp. unfold visit_call. apply jspec_bind with (R1 := Forall Q).
  - destruct data as [d|]. cbn in Fd. inversion Fd; subst. apply sp_block; auto. apply jspec_ret. destruct alldata; solveF.
  - intros d0 F0. apply jspec_bind with (R1 := Forall Q).
    + destruct params as [|p0 pr]. apply jspec_ret; auto.
      eapply jspec_bind. apply sp_call_params; auto. solveF. intros ps Fps. apply jspec_ret. solveF.
    + intros d1 F1. jstep. jknown. jstep. jknown. apply jspec_note_called. apply Q_fmt_call_text.
Qed.

(* ---- if / for / switch ---- *)
Lemma sp_if_conds first cs : Forall Pn cs -> jsp T (jif_conds w first cs).
Proof.
  revert first. induction cs as [|c r IH]; intros first F; cbn. jgo. inversion F; subst.
  destruct c; try (apply jspec_stuck; intros ? ?; discriminate).
  pnc H1. fsplit. destruct cond as [c0|]; cbn [opt_list] in *; fsplit; jgo; apply IH; auto.
Qed.

Lemma sp_visit_loop body ie vd item vlen vidx : Pn body -> Forall Pn (opt_list ie) -> Forall Q item ->
  jsp T (visit_loop w body ie vd item vlen vidx).
Proof.
  intros Hb Fi Fit. unfold visit_loop. destruct ie as [ie|]; cbn [opt_list] in Fi; fsplit; jgo.
Qed.

Lemma sp_visit_for_range var args body ie : Forall Pn args -> Pn body -> Forall Pn (opt_list ie) -> jsp T (visit_for_range w var args body ie).
Proof.
  intros Fa Hb Fi. unfold visit_for_range.
  destruct args as [|a1 [|a2 [|a3 [|a4 r]]]]; try apply jspec_fail; fsplit;
    (eapply jspec_bind; [apply sp_block; auto|intros ie0 F0];
     eapply jspec_bind; [apply sp_block; auto|intros se0 F1];
     eapply jspec_bind; [apply sp_block; auto|intros le0 F2];
     eapply jspec_bind; [apply sp_push_for_range | intros [[[[vd vinit] vstep] vlen] vidx] _];
     jstep; [apply sp_jsln; solveF|]; jstep; [apply sp_jsln; solveF|]; jstep; [apply sp_jsln; solveF|];
     apply sp_visit_loop; auto; solveF).
Qed.

Lemma sp_visit_foreach var lst body ie : Pn lst -> Pn body -> Forall Pn (opt_list ie) -> jsp T (visit_foreach w var lst body ie).
Proof.
  intros Hl Hb Fi. unfold visit_foreach.
  eapply jspec_bind. apply sp_block; auto. intros le0 F0.
  eapply jspec_bind. apply sp_push_for_each. intros [[[vd vlist] vlen] vidx] _.
  jstep. apply sp_jsln; solveF. jstep. apply sp_jsln; solveF. apply sp_visit_loop; auto. solveF.
Qed.

Lemma sp_case_values vs : Forall Pn vs -> jsp T (case_values w vs).
Proof. induction vs as [|v r IH]; intro F; cbn. jgo. inversion F; subst. jgo. apply IH; auto. Qed.

Lemma sp_switch_cases cs : Forall Pn cs -> jsp T (jswitch_cases w cs).
Proof.
  induction cs as [|c r IH]; intro F; cbn. jgo. inversion F; subst.
  destruct c; try (apply jspec_stuck; intros ? ?; discriminate).
  pnc H1. fsplit. jstep. apply sp_case_values; auto. jstep. destruct values; jgo. jgo. apply IH; auto.
Qed.

(* ---- messages ---- *)
Lemma sp_msg_children f l : Forall Pn l -> jsp T (jmsg_children w f l).
Proof.
  revert l. induction f as [|f IHf]; intros l F; cbn. apply jspec_stuck; intros ? ?; discriminate.
  destruct l as [|x r]. jgo. inversion F; subst.
  apply jspec_bind with (R1 := T); [|intros _ _; apply IHf; auto].
  destruct x; try (jgo; fail).
  - pnc H1. fsplit. jgo.
  - pnc H1. fsplit.
    jstep. jknown. jstep. jstep. jstep. jknown. jstep. jstep. jstep. jknown. apply jspec_bind with (R1 := T); [|intros ? ?].
    { repeat match goal with H : Pn (NMsgPlural _ _ _ _ _) |- _ => clear H end.
      match goal with H : Forall Pn cases |- _ => induction H as [|c cr Hc Hcr IHc] end. jgo.
      jstep. unfold plural_case_body. destruct c; try (apply jspec_stuck; intros ? ?; discriminate).
      pnc Hc. jstep. jknown. jstep. jknown. jstep. apply IHf; auto. jgo. exact IHc. }
    jstep. jknown. jstep. jknown. jstep. apply IHf; auto. jgo.
Qed.

Definition Pq (x : node) : Prop := Pn x \/ exists p l, x = NList p l /\ Forall Pn l.
Lemma Pn_Pq l : Forall Pn l -> Forall Pq l.
Proof. intro F. eapply Forall_impl; [|exact F]. intros a Ha. left; exact Ha. Qed.

Lemma find_placeholder_Pn f q name b : Forall Pq q -> jfind_placeholder f q name = Ok (Some b) -> Pn b.
Proof.
  revert q. induction f as [|f IH]; intros q Fq E; cbn in E. discriminate.
  destruct q as [|x r]. discriminate. inversion Fq; subst.
  assert (Hnl : (forall p l, x <> NList p l) -> Pn x).
  { intro Hne. destruct H1 as [Hx|(p & l & Hx & _)]; auto. exfalso. exact (Hne _ _ Hx). }
  destruct x; try (apply (IH r); auto; fail).
  - (* NList *)
    apply (IH (r ++ nodes)); auto. apply Forall_app. split; auto.
    destruct H1 as [Hx|(p0 & l & Hx & Fl)]. pnc Hx. apply Pn_Pq; auto. inversion Hx; subst. apply Pn_Pq; auto.
  - (* placeholder *)
    assert (Hx : Pn (NMsgPlaceholder p name0 x)) by (apply Hnl; intros; discriminate).
    destruct (bstr_eqb name0 name). inversion E; subst. pnc Hx. fsplit. auto. apply (IH r); auto.
  - (* plural *)
    assert (Hx : Pn (NMsgPlural p varname x cases default)) by (apply Hnl; intros; discriminate).
    pnc Hx. fsplit. apply (IH (r ++ cases ++ [NList p default])); auto.
    apply Forall_app. split; auto. apply Forall_app. split. apply Pn_Pq; auto. constructor; [|constructor].
    right. exists p, default. auto.
  - (* plural case *)
    assert (Hx : Pn (NMsgPluralCase p v body)) by (apply Hnl; intros; discriminate).
    pnc Hx. apply (IH (r ++ [NList p body])); auto. apply Forall_app. split; auto. constructor; [|constructor].
    right. exists p, body. auto.
Qed.

Lemma find_plural_Pn body var x : Forall Pn body -> jfind_plural body var = Some x -> Pn x.
Proof.
  induction body as [|y r IH]; intros F E; cbn in E. discriminate. inversion F; subst.
  destruct y; try (apply IH; auto; fail).
  destruct (bstr_eqb varname var). inversion E; subst. auto. apply IH; auto.
Qed.

Section jmpart_ind.
  Variable P : jmpart -> Prop.
  Hypothesis Hraw : forall t, P (JMRaw t).
  Hypothesis Hph : forall n, P (JMPh n).
  Hypothesis Hpl : forall v cases, Forall (Forall P) cases -> P (JMPlural v cases).
  Fixpoint jmpart_ind' (p : jmpart) : P p :=
    match p with
    | JMRaw t => Hraw t
    | JMPh n => Hph n
    | JMPlural v cases =>
        Hpl v cases
          ((fix go (cs : list (list jmpart)) : Forall (Forall P) cs :=
              match cs with
              | [] => Forall_nil _
              | c :: cr => Forall_cons c
                             ((fix go2 (ps : list jmpart) : Forall P ps :=
                                 match ps with
                                 | [] => Forall_nil _
                                 | q :: qr => Forall_cons q (jmpart_ind' q) (go2 qr)
                                 end) c) (go cr)
              end) cases)
    end.
End jmpart_ind.

Lemma sp_eval_part body p : Forall Pn body -> jsp T (jeval_part w body p).
Proof.
  intro Fb. induction p as [t|name|var cases IH] using jmpart_ind'; cbn [jeval_part].
  - apply sp_write_raw_text.
  - eapply jspec_bind. apply jspec_lift with (R := fun ph => forall b, ph = Some b -> Pn b).
    intros v E b Hb. subst. eapply find_placeholder_Pn; [|exact E]. apply Pn_Pq; auto.
    intros ph Hph. destruct ph as [b|]; jgo.
  - destruct (jfind_plural body var) as [x|] eqn:Ef; [|apply jspec_fail].
    pose proof (find_plural_Pn _ _ _ Fb Ef) as Hx.
    destruct x; try apply jspec_fail. pnc Hx. fsplit.
    jstep. jknown. jstep. jstep. jstep. jknown. jstep. jstep. jstep. jknown. apply jspec_bind with (R1 := T); [|intros ? ?].
    { generalize 0 as i. induction IH as [|c cr Hc Hcr IHc]; intro i. jgo.
      jstep. jknown. jstep. jknown. apply jspec_bind with (R1 := T); [|intros ? ?].
      { clear - Hc. induction Hc as [|q qr Hq Hqr IHq]. apply jspec_ret; exact I.
        eapply jspec_bind. exact Hq. intros _ _. exact IHq. }
      jstep. jknown. jstep. jknown. apply IHc. }
    jgo.
Qed.

Lemma sp_eval_parts body ps : Forall Pn body -> jsp T (jeval_parts w body ps).
Proof. intro Fb. induction ps as [|p r IH]; cbn. jgo. jstep. apply sp_eval_part; auto. exact IH. Qed.

Lemma sp_visit_msg id body : Forall Pn body -> jsp T (visit_msg o w id body).
Proof.
  intro Fb. unfold visit_msg. destruct (o_msgs o) as [msgs|]; [|apply sp_msg_children; auto].
  destruct (assoc_n id msgs); [apply sp_eval_parts | apply sp_msg_children]; auto.
Qed.

(* ---- file level ---- *)
Lemma sp_ns_decls f name i : Q (CText t_ns1) -> jsp T (ns_decls f name i).
Proof.
  intro Hq. revert i. induction f as [|f IH]; intro i; cbn [ns_decls]; cbv zeta. apply jspec_stuck; intros ? ?; discriminate.
  destruct (Nat.ltb i (length name)); [|jgo].
  jstep. apply sp_jsln. constructor; auto. constructor. apply Q_name. constructor. qb.
  apply Forall_app. split. destruct (has_dot _); solveF. solveF. apply IH.
Qed.

Lemma sp_template_head ae : jsp T (template_head ae).
Proof. unfold template_head. jstep. destruct (ae =? 0); jgo. jgo. Qed.

Lemma sp_template_rest old all_opt name body : Pn body -> jsp T (template_rest o w old all_opt name body).
Proof. intro Hb. unfold template_rest. jgo. Qed.

Lemma sp_visit_template prev name body ae : Q (CText t_fn_params) -> Pn body -> jsp T (visit_template o w prev name body ae).
Proof.
  intros Hq Hb. unfold visit_template. jstep. jstep. jstep. apply sp_template_head.
  jstep. apply sp_jsln. unfold template_header_line. apply Forall_app. split. apply Q_fmt_template_text. constructor; auto.
  apply sp_template_rest; auto.
Qed.

Lemma sorted_items_Pn (items : list (bstr * node)) : Forall Pn (map snd items) -> Forall Pn (map snd (sort_items items)).
Proof.
  induction items as [|[k x] r IH]; cbn [sort_items map snd]; intro F. constructor. inversion F; subst.
  specialize (IH H2).
  match goal with |- Forall Pn (map snd (?ins (k, x) (sort_items r))) => set (INS := ins) end.
  induction (sort_items r) as [|[k2 y] r2 IH2]; cbn. constructor; auto.
  inversion IH; subst. destruct (bstr_leb k k2); cbn; constructor; auto.
Qed.

Ltac jknown2 :=
  first [ apply sp_write_raw_text | (apply sp_list_items; auto; fail) | (apply sp_if_conds; auto; fail) | (apply sp_switch_cases; auto; fail)
        | (apply sp_walk_list; auto; fail) | (apply sp_visit_function; auto; fail) | (apply sp_visit_dataref; auto; fail)
        | (apply sp_visit_print; auto; fail) | (apply sp_visit_call; auto; fail) | (apply sp_visit_msg; auto; fail)
        | (apply sp_visit_template; eauto; fail) | (apply sp_ns_decls; eauto; fail) | (apply sp_jop; auto; fail)
        | (apply sp_map_items; apply sorted_items_Pn; auto; fail)
        | (apply sp_visit_foreach; auto; fail) ].
Ltac jgo2 := repeat first [ jknown | jknown2 | jstep ]; try exact I.

Lemma sp_walk_node prev n : Pn n -> jsp T (jwalk_node o w prev n).
Proof.
  intro Hn. pnc Hn. destruct n; cbn [jwalk_node children opt_list app map snd] in *; fsplit; try solve [jgo2].
  - (* NGlobal *)
    match goal with |- context [node_of_value ?p ?v] => destruct (node_of_value p v) end; cbn [opt_list] in *; fsplit; jgo2.
  - (* NCss *)
    match goal with |- context [match ?e with Some _ => _ | None => _ end] => destruct e end; cbn [opt_list] in *; fsplit; jgo2.
  - (* NFor *)
    match goal with |- context [match ?l with NFunc _ _ _ => _ | _ => _ end] => destruct l end; try solve [jgo2].
    match goal with |- context [bstr_eqb ?a ?b] => destruct (bstr_eqb a b) end; [|jgo2]. apply sp_visit_for_range; auto.
    match goal with H : Pn (NFunc _ _ _) |- _ => pnc H; auto end.
  - (* NLetValue *)
    eapply jspec_bind. apply sp_block; auto. intros v Fv. jgo2.
Qed.

Lemma sp_walk_body n : Pn n -> jsp T (jwalk_body o w n).
Proof. intro Hn. unfold jwalk_body. jstep. jstep. jstep. jstep. apply sp_walk_node; auto. Qed.

End Body.

Theorem sp_walk fuel n : Pn n -> jspec Q T (jwalk o fuel n).
Proof.
  revert n. induction fuel as [|f IH]; intros n Hn; cbn. apply jspec_stuck; intros ? ?; discriminate.
  apply sp_walk_body; auto.
Qed.

Lemma sp_visit_file fuel name body : Forall Pn body -> jspec Q T (visit_file o fuel name body).
Proof.
  intro Fb. unfold visit_file.
  eapply jspec_bind. apply sp_jsln. solveF. intros _ _.
  eapply jspec_bind. apply sp_jsln. solveF. intros _ _.
  eapply jspec_bind. apply sp_jsln. solveF. intros _ _.
  apply sp_walk_list; auto. intros n Hn. apply sp_walk; auto.
Qed.

Lemma import_lines_Q keys called : Forall (fun kv : bstr * list chunk => Forall Q (snd kv)) called -> Forall Q (import_lines keys called).
Proof.
  intro Fc. induction keys as [|k r IH]; cbn [import_lines]. constructor.
  apply Forall_app. split.
  - destruct (assoc_s k called) as [imp|] eqn:E; [|constructor].
    destruct (assoc_s_in _ _ _ E) as (k' & Hin). exact (proj1 (Forall_forall _ _) Fc (k', imp) Hin).
  - apply Forall_app. split; auto. solveF.
Qed.

(* soyjs.Write as a whole: every chunk of the generated file is in Q *)
Theorem gen_file_Q fuel name body cs : Forall Pn body -> gen_file o fuel name body = Ok cs -> Forall Q cs.
Proof.
  intros Fb E. unfold gen_file in E.
  destruct (visit_file o fuel name body jinit_state) as [[u st]| | | | |] eqn:Ev; try discriminate.
  assert (Hc0 : called_ok Q jinit_state) by constructor.
  destruct (sp_visit_file fuel name body Fb jinit_state u st Hc0 Ev) as (cs0 & Eo & F0 & Cc & _).
  inversion E; subst. clear E. apply Forall_app. split.
  - destruct (j_called st) as [|c0 cr] eqn:Ec. constructor.
    apply Forall_app. split; [|solveF]. apply import_lines_Q. rewrite <- Ec. exact Cc.
  - rewrite Eo. cbn. rewrite app_nil_r, rev_involutive. exact F0.
Qed.

End Walk.
