(* Prefix determinism of the scanner (C19).

   Two inputs with a common prefix [pre]: inp1 = pre ++ r1 (the reference, e.g. a valid file) and
   inp2 = pre ++ r2 (e.g. the same file with a fault injected after pre).  [M] = 24 bytes is the
   margin: every state function reads at most a few bytes beyond the cursor it ends at (one rune of
   look-ahead, the keywords "@param", "{/literal}}", a backed-up rune), so a step that ends at
   least M bytes before the end of the common prefix behaves identically on both inputs.

   [step_det]: one state function (all fifteen).  [steps_det]: k steps -- if the reference scan
   passes only through configurations that are live (not the nil state), with start <= pos and the
   cursor at least M bytes before |pre|, the scan of the other input passes through the very same
   configurations (same items sent, same cursor, same lastEmit).

   The lemmas are one per scanning loop and state function (LexPrefixStates / LexPrefixStep /
   LexPrefixMore / LexPrefixTail / LexPrefixHeader; lexHeaderParam needs where skipSpace stops after
   the scan of the type has backed up over trailing white space: header_type_loop_skip). *)
From Soy Require Import Model.Bytes Model.Utf8 Model.Outcome Model.Token Model.Lexer Generated.Tables
  Proofs.LexPrefix Proofs.LexPrefixStates Proofs.LexPrefixStep Proofs.LexPrefixMore Proofs.LexPrefixTail Proofs.LexPrefixHeader.
From Coq Require Import ZifyBool ZifyNat ZifyN Lia List.
Import ListNotations.
Open Scope Z_scope.

Section Main.
Variable ul ud : Z -> bool.
Variable pre r1 r2 : bstr.
Variable base : Z.
Notation inp1 := (pre ++ r1).
Notation inp2 := (pre ++ r2).
Notation n1 := (Z.of_nat (length (pre ++ r1))).
Notation n2 := (Z.of_nat (length (pre ++ r2))).
Notation h := (Z.of_nat (length pre)).

Lemma lex_soydoc_det l res : lex_soydoc inp1 n1 base l = Ok res -> l_pos (snd res)+ m_soydoc <= h ->
  lex_soydoc inp2 n2 base l = Ok res.
Proof.
  intros H Hb. unfold lex_soydoc in *. pose proof (h_le1 pre r1); pose proof (h_le2 pre r2).
  destruct (emit inp1 n1 base itemSoyDocStart l) as [l1| | | | |] eqn:E; cbn [bind] in H; try discriminate.
  pose proof (emit_facts _ _ _ _ _ E) as He. pose proof (soydoc_loop_mono ul ud pre r1 r2 base _ _ _ _ _ _ H) as Hm.
  unfold emit_fact, pmono, M, m_soydoc in *.
  rewrite <- (emit_agree pre r1 r2 base itemSoyDocStart l) by lia. rewrite E. cbn [bind].
  apply (soydoc_loop_det ul ud pre r1 r2 base _ _ _ _ _ H Hb). unfold soydoc_fuel. lia.
Qed.

(* the look-ahead of each state function *)
Definition margin (st : lstate) : Z :=
  match st with
  | LText => m_text | LLeftDelim => m_ldelim | LRightDelim => m_rdelim | LRightDelimEnd => m_rdelim_end
  | LBeginTag => m_begin_tag | LInsideTag => m_inside | LSoyDoc => m_soydoc | LLineComment => m_linec
  | LBlockComment => m_blockc | LString _ => m_string | LIdent => m_ident | LHeaderParam => m_header
  | LCss => m_css | LLiteral => m_literal | LNumber => m_number | LDone => 0
  end.
Lemma margin_le_M st : 0 <= margin st <= M.
Proof. destruct st; vm_compute; split; discriminate. Qed.

Definition good (st : lstate) (l : lx) : Prop :=
  l_pos l + M <= h /\ st <> LDone /\ l_start l <= l_pos l.

(* one step, with the margin of the state function that is run *)
Theorem step_det_m st l res :
  l_start l <= l_pos l ->
  step ul ud inp1 n1 base st l = Ok res -> l_pos (snd res) + margin st <= h -> fst res <> LDone ->
  step ul ud inp2 n2 base st l = Ok res.
Proof.
  intros Hs H Hb Hl. destruct st; cbn [step margin] in *; try congruence.
  - apply (lex_text_det ul ud pre r1 r2 base); assumption.
  - apply (lex_left_delim_det ul ud pre r1 r2 base); assumption.
  - apply (lex_right_delim_det ul ud pre r1 r2 base); assumption.
  - apply (lex_right_delim_end_det ul ud pre r1 r2 base); assumption.
  - apply (lex_begin_tag_det ul ud pre r1 r2 base); assumption.
  - apply (lex_inside_tag_det ul ud pre r1 r2 base); assumption.
  - apply lex_soydoc_det; assumption.
  - apply (lex_line_comment_det ul ud pre r1 r2 base); assumption.
  - apply (lex_block_comment_det ul ud pre r1 r2 base); assumption.
  - apply (lex_string_det ul ud pre r1 r2 base); assumption.
  - apply (lex_ident_det ul ud pre r1 r2 base); assumption.
  - apply (lex_header_param_det ul ud pre r1 r2 base); assumption.
  - apply (lex_css_det ul ud pre r1 r2 base); assumption.
  - apply (lex_literal_det ul ud pre r1 r2 base); assumption.
  - apply (lex_number_det ul ud pre r1 r2 base); assumption.
  all: try (inversion H; subst; cbn in Hl; congruence).
Qed.

Theorem step_det st l res :
  l_start l <= l_pos l ->
  step ul ud inp1 n1 base st l = Ok res -> l_pos (snd res) + M <= h -> fst res <> LDone ->
  step ul ud inp2 n2 base st l = Ok res.
Proof. intros Hs H Hb Hl. apply step_det_m; try assumption. pose proof (margin_le_M st). lia. Qed.

(* k steps of the machine (the definition of Proofs/LexTokens.v) *)
Fixpoint psteps (inp : bstr) (k : nat) (st : lstate) (l : lx) : outcome (lstate * lx) :=
  match k with
  | O => Ok (st, l)
  | S k' => '(st', l') <- step ul ud inp (Z.of_nat (length inp)) base st l ;; psteps inp k' st' l'
  end.

(* k steps, per-state margins: every configuration on the way is live with start <= pos, and every step ends
   [margin] of the state function it ran before the end of the common prefix *)
Theorem steps_det_m : forall k st l st' l',
  psteps inp1 k st l = Ok (st', l') ->
  (forall j, (j <= k)%nat -> forall stj lj, psteps inp1 j st l = Ok (stj, lj) -> stj <> LDone /\ l_start lj <= l_pos lj) ->
  (forall j, (j < k)%nat -> forall stj lj stn ln, psteps inp1 j st l = Ok (stj, lj) -> psteps inp1 (S j) st l = Ok (stn, ln) ->
     l_pos ln + margin stj <= h) ->
  psteps inp2 k st l = Ok (st', l').
Proof.
  induction k as [|k IH]; intros st l st' l' H Hg Hm; [exact H|].
  cbn [psteps] in H |- *.
  destruct (step ul ud inp1 n1 base st l) as [[st1 l1]| | | | |] eqn:E; cbn [bind] in H; try discriminate.
  destruct (Hg 0%nat ltac:(lia) st l eq_refl) as (G1 & G2).
  assert (E1 : psteps inp1 1 st l = Ok (st1, l1)) by (cbn [psteps]; rewrite E; reflexivity).
  destruct (Hg 1%nat ltac:(lia) st1 l1 E1) as (K1 & K2).
  pose proof (Hm 0%nat ltac:(lia) st l st1 l1 eq_refl E1) as K0.
  rewrite (step_det_m st l (st1, l1) G2 E K0 K1). cbn [bind].
  apply IH; [exact H| |].
  - intros j Hj stj lj Hs. apply (Hg (S j) ltac:(lia) stj lj). cbn [psteps]. rewrite E. exact Hs.
  - intros j Hj stj lj stn ln Hs Hn. apply (Hm (S j) ltac:(lia) stj lj stn ln).
    + cbn [psteps]. rewrite E. exact Hs.
    + cbn [psteps]. rewrite E. exact Hn.
Qed.

Theorem steps_det : forall k st l st' l',
  psteps inp1 k st l = Ok (st', l') ->
  (forall j, (j <= k)%nat -> forall stj lj, psteps inp1 j st l = Ok (stj, lj) -> good stj lj) ->
  psteps inp2 k st l = Ok (st', l').
Proof.
  intros k st l st' l' H Hg. apply steps_det_m; [exact H| |].
  - intros j Hj stj lj Hs. destruct (Hg j Hj stj lj Hs) as (_ & G1 & G2). auto.
  - intros j Hj stj lj stn ln Hs Hn. destruct (Hg (S j) ltac:(lia) stn ln Hn) as (G0 & _). pose proof (margin_le_M stj). lia.
Qed.
End Main.
