(* C15, template level, bodies in which comments and tags mix: scanner model and parser model composed on
   T0 {c1} T1 {c2} T2 ... with comments in every stretch (Spec/TextBody.v mix_body_ok / mix_body_out). *)
From Soy Require Import Model.Bytes Model.Utf8 Model.Outcome Model.Num Model.Values Model.Ast Model.Token Model.RawText
  Model.ExprParser Model.Parser Model.Lexer Generated.Tables Spec.Text Spec.TextBody Spec.TextMix
  Proofs.RawTextProofs Proofs.ExprParserRules Proofs.LexTokens Proofs.LexBodyText Proofs.LexBodyTop Proofs.LexBodyMain
  Proofs.LexBodyMixMain Proofs.ParseBodyText Proofs.ParseBodySeg Proofs.ParseBodyMix Proofs.BodyTextMain.
From Coq Require Import ZifyBool ZifyNat ZifyN Lia.
Open Scope N_scope.

(* the Spec's text of the rest of a body, through the pieces of its stretches *)
Lemma rest_out_pieces : forall rest out, mix_rest_out rest = Some out ->
  exists rp, rest_pieces rest rp /\ mix_out rp = out.
Proof.
  induction rest as [|[[n o] T] r IH]; intros out H.
  - cbn [mix_rest_out] in H. injection H as <-. exists []. split; [exact I|reflexivity].
  - cbn [mix_rest_out] in H. unfold body_text in H. destruct (pieces MText false [] T) as [pcs|] eqn:Hp; [|discriminate].
    destruct (mix_rest_out r) as [out'|] eqn:Hr; [|discriminate]. cbn [app_opt] in H. injection H as <-.
    destruct (IH out' eq_refl) as (rp & Hrp & Ho). exists ((o, pcs) :: rp). split; [cbn [rest_pieces]; auto|].
    cbn [mix_out]. rewrite Ho, <- app_assoc. reflexivity.
Qed.

Lemma rest_pieces_no_nul : forall rest rp, mix_rest_ok rest -> rest_pieces rest rp -> Forall (fun q => Forall no_nul (snd q)) rp.
Proof.
  induction rest as [|[[n o] T] r IH]; intros rp Hok Hrp; destruct rp as [|[o' pcs] rp']; try contradiction; [constructor|].
  cbn [rest_pieces] in Hrp. destruct Hrp as (_ & Hp & Hrp'). cbn [mix_rest_ok] in Hok. destruct Hok as (_ & [Hpl _] & Hok').
  constructor; [|apply (IH rp' Hok' Hrp')]. cbn [snd].
  apply (pieces_bytes (fun c => c <> 0) T MText false [] pcs); [constructor| |exact Hp].
  eapply Forall_impl; [|exact Hpl]. intros a (Ha & _). exact Ha.
Qed.

Section Main.
Variable uni_letter uni_digit : Z -> bool.
Hypothesis letter_ascii : forall c, (c < 128)%N -> uni_letter (Z.of_N c) = ((65 <=? c) && (c <=? 90) || (97 <=? c) && (c <=? 122))%N.
Hypothesis digit_ascii : forall c, (c < 128)%N -> uni_digit (Z.of_N c) = digit_b c.
Hypothesis letter_eof : uni_letter (-1)%Z = false.
Hypothesis digit_eof : uni_digit (-1)%Z = false.
Variable inlen : N.
Variable lexq : bstr -> list tok.
Variable unq : bstr -> option bstr.

Lemma soy_file_mix_nodes pcs rp items : mshape pcs rp items -> Forall no_nul pcs -> Forall (fun q => Forall no_nul (snd q)) rp ->
  exists pos nodes st, po_result (soy_file inlen lexq unq items) = POk (NList pos nodes) st /\ Forall is_raw nodes /\
     concat (map raw_text_of nodes) = norm_pieces false pcs ++ mix_out rp.
Proof.
  intros Hsh Hn0 Hnr. destruct (stream_init items) as [Hs Hi].
  unfold soy_file, parse_file, file_fuel.
  replace (length items + 8)%nat with (S (length items + 7)) by lia. cbn [item_list].
  destruct (mshape_nodes inlen lexq unq parse_expr expr_fuel
              (lift_expr inlen parse_expr (length items + 7)) (item_list inlen lexq unq parse_expr expr_fuel (length items + 7))
              (length items + 7) pcs rp items Hsh Hn0 Hnr [] ltac:(constructor) (S (length items + 7)) [] None (cst_init items)
              Hs Hi ltac:(cbn [app]; lia) ltac:(lia)) as (pos & nodes & s' & Hrun & Hraw & Hcat).
  rewrite Hrun. exists pos, nodes, (c_p s'). cbn [po_result app]. auto.
Qed.

(* body_text_spec for bodies of text, comments, special-character commands and literal blocks *)
Theorem body_mix_impl_spec T0 rest out : mix_body_ok T0 rest -> mix_body_out T0 rest = Some out ->
  exists items pos nodes st,
    lex_items uni_letter uni_digit (lex_budget (body_src T0 rest)) false (body_src T0 rest) = Ok items /\
    po_result (soy_file inlen lexq unq items) = POk (NList pos nodes) st /\
    Forall is_raw nodes /\ concat (map raw_text_of nodes) = out.
Proof.
  intros Hok Hout. unfold mix_body_out, body_text in Hout.
  destruct (pieces MText true [] T0) as [pcs|] eqn:Hp; [|discriminate].
  destruct (mix_rest_out rest) as [out'|] eqn:Hr; [|discriminate]. cbn [app_opt] in Hout. injection Hout as <-.
  destruct (rest_out_pieces rest out' Hr) as (rp & Hrp & Ho).
  destruct (lex_body_mix uni_letter uni_digit letter_ascii digit_ascii letter_eof digit_eof T0 rest pcs rp Hok Hp Hrp) as (items & Hlex & Hsh).
  destruct Hok as [[Hpl0 _] Hrok].
  assert (Hn0 : Forall no_nul pcs).
  { apply (pieces_bytes (fun c => c <> 0) T0 MText true [] pcs); [constructor| |exact Hp].
    eapply Forall_impl; [|exact Hpl0]. intros a (Ha & _). exact Ha. }
  destruct (soy_file_mix_nodes pcs rp items Hsh Hn0 (rest_pieces_no_nul rest rp Hrok Hrp)) as (pos & nodes & st & A & B & C).
  exists items, pos, nodes, st. split; [exact Hlex|]. split; [exact A|]. split; [exact B|]. rewrite C, Ho. reflexivity.
Qed.

End Main.
