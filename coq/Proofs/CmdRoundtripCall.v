(* C17 at command level, rules for {call} and {css}: parseCall / parseCallParams / parseAttrs /
   parseQuotedExpr / parseCss of Model/Parser.v.

   External behaviour enters as Section variables with their contracts stated:
     [unq]   strconv.Unquote, used by parseAttrs on the string item of an attribute;
     [lexq]  the scanner run on an attribute value (lexExpr);
     [efuel] the budget the model gives the nested expression parse.
   parseQuotedExpr positions the nested items relative to the most recently read item
   (token[0] / token[peekCount-1]); the rules track peekCount far enough to know that this item
   is the "}" (or "/}") that closes the tag, which the Spec puts at position 0. *)
From Soy Require Import Model.Bytes Model.Outcome Model.Ast Model.Token Model.RawText Model.ExprParser Model.Parser Generated.Tables
  Spec.ExprSyntax Spec.CmdSyntax Proofs.ExprParserRules Proofs.CmdRoundtripBase Proofs.CmdRoundtripRules.
From Coq Require Import Lia.
Open Scope N_scope.

(* ---- peekCount ---- *)
Definition le1 (p : pst) : Prop := (p_peek p <= 1)%nat.
(* nothing is pushed back and t is the item read last *)
Definition fresh (p : pst) (t : tok) : Prop := p_peek p = 0%nat /\ p_tok0 p = t /\ stream p = p_rest p.

Lemma next_spec_pk st t l : stream st = t :: l -> inv st ->
  exists st1, p_next st = (t, st1) /\ stream st1 = l /\ inv st1 /\
              stream (p_backup st1) = t :: l /\ inv (p_backup st1) /\ le1 st1 /\ (le1 st -> fresh st1 t).
Proof.
  destruct st as [rest t0 t1 pk rc]. unfold stream, inv, p_next, p_backup, recv, le1, fresh. cbn [p_peek p_rest p_tok0 p_tok1 p_recv].
  intros Hs Hi. destruct pk as [|[|[|pk]]]; [| | |lia].
  - subst rest. eexists; split; [reflexivity|]. cbn. repeat split; lia.
  - inversion Hs; subst. eexists; split; [reflexivity|]. cbn. repeat split; lia.
  - inversion Hs; subst. eexists; split; [reflexivity|]. cbn. repeat split; lia.
Qed.

Lemma cnext_spec_pk p t l : stream p = t :: l -> inv p ->
  exists p1, (forall s sc, c_next (set_ps s p sc) = COk t (set_ps s p1 sc)) /\ stream p1 = l /\ inv p1 /\
             stream (p_backup p1) = t :: l /\ inv (p_backup p1) /\ le1 p1 /\ (le1 p -> fresh p1 t).
Proof.
  intros Hs Hi. destruct (next_spec_pk _ _ _ Hs Hi) as (p1 & Hn & H1 & H2 & H3 & H4 & H5 & H6).
  exists p1. split; [|auto 7]. intros s sc. unfold c_next. cbn [c_p set_ps]. replace (3 <=? p_peek p)%nat with false.
  - rewrite Hn. reflexivity.
  - symmetry. apply Nat.leb_gt. unfold inv in Hi. lia.
Qed.

Lemma fresh_le1 p t : fresh p t -> le1 p.
Proof. intros (H & _). unfold le1. lia. Qed.
Lemma fresh_backup_le1 p t : fresh p t -> le1 (p_backup p).
Proof. intros (H & _). unfold le1, p_backup. cbn. lia. Qed.
Lemma fresh_err_tok p t : fresh p t -> err_tok p = t.
Proof. intros (H & H0 & _). unfold err_tok. rewrite H. exact H0. Qed.
Lemma fresh_backup_err_tok p t : fresh p t -> err_tok (p_backup p) = t.
Proof. intros (H & H0 & _). unfold err_tok, p_backup. cbn [p_peek]. rewrite H. exact H0. Qed.
Lemma fresh_backup2 p t t1 : fresh p t -> stream (p_backup2 p t1) = t1 :: t :: stream p /\ inv (p_backup2 p t1).
Proof.
  intros (H & H0 & H1). unfold stream at 1, p_backup2, inv. cbn [p_peek p_tok0 p_tok1 p_rest]. rewrite H0, H1. split; [reflexivity|lia].
Qed.

Ltac cnextk p Hs Hi p1 Hn Hs1 Hi1 Hsb Hib Hle Hfr :=
  destruct (cnext_spec_pk p _ _ Hs Hi) as (p1 & Hn & Hs1 & Hi1 & Hsb & Hib & Hle & Hfr).

Lemma shift_tok_0 ts : map (shift_tok 0) ts = ts.
Proof. induction ts as [|t r IH]; [reflexivity|]. cbn [map]. rewrite IH. destruct t. reflexivity. Qed.

Lemma bstr_eqb_refl s : bstr_eqb s s = true.
Proof. induction s as [|c s IH]; [reflexivity|]. cbn [bstr_eqb]. rewrite N.eqb_refl. exact IH. Qed.
Lemma bstr_eqb_eq s : forall t, bstr_eqb s t = true -> s = t.
Proof.
  induction s as [|c s IH]; intros [|d t] H; try discriminate; [reflexivity|].
  cbn [bstr_eqb] in H. apply andb_true_iff in H. destruct H as [H1 H2]. apply N.eqb_eq in H1. f_equal; auto.
Qed.

Lemma match_nonempty {A B} (l : list A) (x y : B) : l <> [] -> match l with [] => x | _ :: _ => y end = y.
Proof. destruct l; [intros H; contradiction H; reflexivity|reflexivity]. Qed.

Section Call.
Variable ns : bstr.
Variable al : list (bstr * bstr).
Variable inlen : N.
Variable lexq : bstr -> list tok.
Variable unq : bstr -> option bstr.
Variable efuel : list tok -> nat.

(* contract of [efuel]: the budget of a nested expression parse is enough whenever some budget is *)
Hypothesis efuel_ok : forall ts e rest, Parses 0 ts e rest -> exists p', parse_expr (efuel ts) 0 (pst_init ts) = POk e p'.

Notation PE g := (lift_expr inlen parse_expr g).
Notation IL g := (item_list inlen lexq unq parse_expr efuel g).
Notation BT g := (begin_tag inlen lexq unq parse_expr efuel (PE g) (IL g) g).
Notation CRun := (CRun ns al).
Notation Body := (Body ns al inlen lexq unq efuel).
Notation Tag := (Tag ns al inlen lexq unq efuel).
Notation PQE := (parse_quoted_expr inlen lexq parse_expr efuel).

(* ---- parseQuotedExpr when the item read last is at position 0 ---- *)
Lemma pqe_spec p str e rest : inv p -> t_pos (err_tok p) = 0 -> Parses 0 (lexq str) e rest ->
  exists r, forall s sc, PQE str (set_ps s p sc) = COk e (set_ps s p (r :: sc)).
Proof.
  intros Hi Hpos HP. destruct (efuel_ok _ _ _ HP) as (p' & E). eexists. intros s sc.
  unfold parse_quoted_expr. cbn [c_p set_ps].
  replace (3 <=? p_peek p)%nat with false by (symmetry; apply Nat.leb_gt; unfold inv in Hi; lia).
  rewrite Hpos.
  replace (if (N.of_nat (length str) <=? 0) && (0 <=? inlen) then 0 - N.of_nat (length str) else 0) with 0
    by (destruct ((N.of_nat (length str) <=? 0) && (0 <=? inlen)); [symmetry; apply N.sub_0_l | reflexivity]).
  rewrite shift_tok_0. rewrite E. reflexivity.
Qed.

(* ---- parseAttrs ---- *)
Lemma attrs_loop_S f allowed acc s : attrs_loop inlen unq (S f) allowed acc s =
  cbind (c_next s) (fun tok s1 =>
    if tis tok pit_Ident then
      if negb (existsb (bstr_eqb (t_val tok)) allowed) then c_unexp inlen tok x_attrs s1
      else cbind (c_expect inlen pit_Equals x_attr s1) (fun _ s2 =>
           cbind (c_expect inlen pit_String x_attr s2) (fun attrval s3 =>
             match unq (t_val attrval) with
             | Some v => attrs_loop inlen unq f allowed ((t_val tok, v) :: acc) s3
             | None => c_errorf inlen x_unquote s3
             end))
    else if tis tok pit_RightDelim || tis tok pit_RightDelimEnd then COk acc (c_backup s1)
    else c_unexp inlen tok x_attrs s1).
Proof. reflexivity. Qed.

(* the end of the attributes: "}" or "/}" is read and pushed back *)
Lemma attrs_end allowed acc p t l :
  (t_typ t = pit_RightDelim \/ t_typ t = pit_RightDelimEnd) -> stream p = t :: l -> inv p ->
  exists p1, stream (p_backup p1) = t :: l /\ inv (p_backup p1) /\ (le1 p -> fresh p1 t) /\
    forall k s sc, attrs_loop inlen unq (S k) allowed acc (set_ps s p sc) = COk acc (set_ps s (p_backup p1) sc).
Proof.
  intros Ht Hs Hi. cnextk p Hs Hi p1 Hn1 Hs1 Hi1 Hsb1 Hib1 Hle1 Hfr1.
  exists p1. repeat (split; [assumption|]). intros k s sc. rewrite attrs_loop_S, Hn1. cbn [cbind].
  assert (E : tis t pit_Ident = false /\ tis t pit_RightDelim || tis t pit_RightDelimEnd = true).
  { destruct Ht as [Ht|Ht]; rewrite !(tis_typ t _ _ Ht); vm_compute; auto. }
  destruct E as [E1 E2]. rewrite E1, E2. cbk. reflexivity.
Qed.

(* one attribute name="value" *)
Lemma attrs_one allowed acc p id eq str v l :
  t_typ id = pit_Ident -> existsb (bstr_eqb (t_val id)) allowed = true ->
  t_typ eq = pit_Equals -> t_typ str = pit_String -> unq (t_val str) = Some v ->
  stream p = id :: eq :: str :: l -> inv p ->
  exists p3, stream p3 = l /\ inv p3 /\ le1 p3 /\
    forall k s sc, attrs_loop inlen unq (S k) allowed acc (set_ps s p sc) =
                   attrs_loop inlen unq k allowed ((t_val id, v) :: acc) (set_ps s p3 sc).
Proof.
  intros Hid Hal Heq Hstr Hu Hs Hi.
  cnextp s p Hs Hi p1 Hn1 Hs1 Hi1 Hsb1 Hib1.
  cexpectp inlen pit_Equals x_attr s p1 Hs1 Hi1 Heq p2 He2 Hs2 Hi2.
  cnextk p2 Hs2 Hi2 p3 Hn3 Hs3 Hi3 Hsb3 Hib3 Hle3 Hfr3.
  exists p3. repeat (split; [assumption|]). intros k s sc. rewrite attrs_loop_S, Hn1. cbn [cbind].
  rewrite (tis_eq id pit_Ident Hid), Hal. cbn [negb]. rewrite He2. cbn [cbind].
  unfold c_expect. rewrite Hn3. cbn [cbind]. rewrite (tis_eq str pit_String Hstr). cbn [cbind]. rewrite Hu. reflexivity.
Qed.

(* ---- the template name: ident .ident .ident ... ---- *)
Lemma call_name_loop_S f name s : call_name_loop (S f) name s =
  cbind (c_next s) (fun tk s1 => if tis tk pit_DotIdent then call_name_loop f (name ++ t_val tk) s1 else COk name (c_backup s1)).
Proof. reflexivity. Qed.

Lemma call_name_loop_spec nx l : t_typ nx <> pit_DotIdent ->
  forall segs name p, stream p = map (fun sg => tk pk_itemDotIdent 0 sg) segs ++ nx :: l -> inv p -> le1 p ->
  exists p1, stream (p_backup p1) = nx :: l /\ inv (p_backup p1) /\ fresh p1 nx /\
    exists f0, forall k s sc, (f0 <= k)%nat ->
      call_name_loop k name (set_ps s p sc) = COk (name ++ List.concat segs) (set_ps s (p_backup p1) sc).
Proof.
  intros Hnx. induction segs as [|sg segs IH]; intros name p Hs Hi Hle.
  - cbn [map app] in Hs. cnextk p Hs Hi p1 Hn1 Hs1 Hi1 Hsb1 Hib1 Hle1 Hfr1.
    exists p1. repeat (split; [auto|]). exists 1%nat. intros k s sc Hk. destruct k as [|k]; [lia|].
    rewrite call_name_loop_S, Hn1. cbn [cbind]. rewrite (tis_ne nx pit_DotIdent Hnx). cbk. cbn [List.concat]. rewrite app_nil_r. reflexivity.
  - cbn [map app] in Hs. cnextk p Hs Hi p1 Hn1 Hs1 Hi1 Hsb1 Hib1 Hle1 Hfr1.
    destruct (IH (name ++ sg) p1 Hs1 Hi1 Hle1) as (p2 & H1 & H2 & H3 & f0 & HF).
    exists p2. repeat (split; [auto|]). exists (S f0). intros k s sc Hk. destruct k as [|k]; [lia|].
    rewrite call_name_loop_S, Hn1. cbn [cbind]. change (tis (tk pk_itemDotIdent 0 sg) pit_DotIdent) with true. cbv iota.
    cbn [t_val tk]. rewrite HF by lia. cbn [List.concat]. rewrite app_assoc. reflexivity.
Qed.

Lemma call_name_spec first r1 segs nx l p : first <> [] -> t_typ nx <> pit_DotIdent ->
  stream p = global_toks 0 (first ++ r1 ++ List.concat segs) ++ nx :: l ->
  split_dots [] (first ++ r1 ++ List.concat segs) = first :: r1 :: segs -> inv p ->
  exists p1, stream (p_backup p1) = nx :: l /\ inv (p_backup p1) /\ fresh p1 nx /\
    exists f0, forall k s sc, (f0 <= k)%nat ->
      call_name k (set_ps s p sc) = COk (first ++ r1 ++ List.concat segs) (set_ps s (p_backup p1) sc).
Proof.
  intros Hf Hnx Hs Hsp Hi. unfold global_toks in Hs. rewrite Hsp in Hs. cbn [map app] in Hs.
  cnextk p Hs Hi p1 Hn1 Hs1 Hi1 Hsb1 Hib1 Hle1 Hfr1.
  cnextk p1 Hs1 Hi1 p2 Hn2 Hs2 Hi2 Hsb2 Hib2 Hle2 Hfr2.
  destruct (call_name_loop_spec nx l Hnx segs (first ++ r1) p2 Hs2 Hi2 Hle2) as (p3 & H1 & H2 & H3 & f0 & HF).
  exists p3. repeat (split; [auto|]). exists f0. intros k s sc Hk.
  unfold call_name. rewrite Hn1. cbn [cbind]. change (tis (tk pk_itemIdent 0 first) pit_DotIdent) with false.
  change (tis (tk pk_itemIdent 0 first) pit_Ident) with true. cbv iota. rewrite Hn2. cbn [cbind].
  change (tis (tk pk_itemDotIdent 0 r1) pit_DotIdent) with true. cbv iota. cbn [t_val tk].
  rewrite HF by lia. rewrite <- app_assoc. reflexivity.
Qed.

(* ---- parseCallParams ---- *)
Definition ParamsRun (m : bool) (params : list node) (ts : list tok) (params' : list node) (rest : list tok) : Prop :=
  CRun m (fun g k s => call_params_loop inlen lexq unq parse_expr efuel (PE g) (IL g) g k params s) ts params' rest.

Lemma next_non_comment_S f s : next_non_comment (S f) s =
  cbind (c_next s) (fun tok s1 => if tis tok pit_Comment then next_non_comment f s1 else COk tok s1).
Proof. reflexivity. Qed.

Lemma call_params_loop_S g k params s :
  call_params_loop inlen lexq unq parse_expr efuel (PE g) (IL g) g (S k) params s =
  cbind (next_non_comment g s) (fun i0 s1 =>
  cbind (orphan_text inlen g g i0 s1) (fun initial s2 =>
    if negb (tis initial pit_LeftDelim) then c_unexp inlen initial x_param_list s2
    else
      cbind (c_next s2) (fun cmd s3 =>
        if tis cmd pit_CallEnd then COk params (c_backup2 s3 initial)
        else if negb (tis cmd pit_Param) then c_errorf inlen x_param_decl s3
        else
          cbind (c_expect inlen pit_Ident x_param s3) (fun first s4 =>
          cbind (c_next s4) (fun tok s5 =>
            if tis tok pit_Colon then
              cbind (PE g 0 s5) (fun v s6 =>
              cbind (c_expect inlen pit_RightDelimEnd x_param s6) (fun _ s7 =>
                call_params_loop inlen lexq unq parse_expr efuel (PE g) (IL g) g k (params ++ [NParamValue (t_pos initial) (t_val first) v]) s7))
            else if tis tok pit_RightDelim then
              cbind (IL g u_param s5) (fun v s6 =>
              cbind (c_expect inlen pit_RightDelim x_param s6) (fun _ s7 =>
                call_params_loop inlen lexq unq parse_expr efuel (PE g) (IL g) g k (params ++ [NParamContent (t_pos initial) (t_val first) v]) s7))
            else if tis tok pit_Ident then
              param_attr_form inlen lexq unq parse_expr efuel (IL g) g
                (call_params_loop inlen lexq unq parse_expr efuel (PE g) (IL g) g k) params initial (t_val first) (c_backup s5)
            else if tis tok pit_Equals then
              param_attr_form inlen lexq unq parse_expr efuel (IL g) g
                (call_params_loop inlen lexq unq parse_expr efuel (PE g) (IL g) g k) params initial [] (c_backup2 s5 first)
            else c_unexp inlen tok x_param s5))))).
Proof. reflexivity. Qed.

(* "{" is what nextNonComment and the orphan-text loop deliver *)
Lemma params_ld {A} g ld st st1 (K : tok -> cst -> cres A) : (1 <= g)%nat -> t_typ ld = pit_LeftDelim ->
  c_next st = COk ld st1 ->
  cbind (next_non_comment g st) (fun i0 s1 => cbind (orphan_text inlen g g i0 s1) K) = K ld st1.
Proof.
  intros Hg Hld Hn. destruct g as [|g]; [lia|]. rewrite next_non_comment_S, Hn. cbn [cbind].
  rewrite (tis_ne ld pit_Comment) by (rewrite Hld; vm_compute; discriminate). cbn [cbind orphan_text].
  rewrite (tis_ne ld pit_Text) by (rewrite Hld; vm_compute; discriminate). reflexivity.
Qed.

(* {/call}: "{" and "/call" are pushed back *)
Lemma Params_end m params ld ce l : t_typ ld = pit_LeftDelim -> t_typ ce = pit_CallEnd ->
  ParamsRun m params (ld :: ce :: l) params (ld :: ce :: l).
Proof.
  intros Hld Hce s p0 sc0 Hs Hi Hm.
  cnextk p0 Hs Hi p1 Hn1 Hs1 Hi1 Hsb1 Hib1 Hle1 Hfr1.
  cnextk p1 Hs1 Hi1 p2 Hn2 Hs2 Hi2 Hsb2 Hib2 Hle2 Hfr2.
  destruct (fresh_backup2 p2 ce ld (Hfr2 Hle1)) as [Hb2 Hib2'].
  exists (p_backup2 p2 ld), sc0. split; [rewrite Hb2, Hs2; reflexivity|]. split; [exact Hib2'|].
  exists 1%nat. intros g k Hg Hk. destruct k as [|k]; [lia|].
  rewrite call_params_loop_S. rewrite (params_ld g ld _ _ _ Hg Hld (Hn1 s sc0)).
  rewrite (tis_eq ld pit_LeftDelim Hld). cbn [negb]. rewrite Hn2. cbn [cbind].
  rewrite (tis_eq ce pit_CallEnd Hce). reflexivity.
Qed.

(* {param key: e/} *)
Lemma Params_value m params ld pm key colon ts v rde l2 params' rest :
  t_typ ld = pit_LeftDelim -> t_typ pm = pit_Param -> t_typ key = pit_Ident -> t_typ colon = pit_Colon ->
  Parses 0 ts v (rde :: l2) -> t_typ rde = pit_RightDelimEnd ->
  ParamsRun m (params ++ [NParamValue (t_pos ld) (t_val key) v]) l2 params' rest ->
  ParamsRun m params (ld :: pm :: key :: colon :: ts) params' rest.
Proof.
  intros Hld Hpm Hkey Hcolon HP Hrde HL s p0 sc0 Hs Hi Hm.
  cnextp s p0 Hs Hi p1 Hn1 Hs1 Hi1 Hsb1 Hib1.
  cnextp s p1 Hs1 Hi1 p2 Hn2 Hs2 Hi2 Hsb2 Hib2.
  cexpectp inlen pit_Ident x_param s p2 Hs2 Hi2 Hkey p3 He3 Hs3 Hi3.
  cnextp s p3 Hs3 Hi3 p4 Hn4 Hs4 Hi4 Hsb4 Hib4.
  cexprp inlen s p4 HP Hs4 Hi4 p5 Hs5 Hi5 f1 HF1.
  cexpectp inlen pit_RightDelimEnd x_param s p5 Hs5 Hi5 Hrde p6 He6 Hs6 Hi6.
  destruct (HL s p6 sc0 Hs6 Hi6 Hm) as (p' & sc' & H1 & H2 & f0 & HF).
  exists p', sc'. repeat (split; [assumption|]). exists (S (max f0 f1)). intros g k Hg Hk. destruct k as [|k]; [lia|].
  rewrite call_params_loop_S. rewrite (params_ld g ld _ _ _ ltac:(lia) Hld (Hn1 s sc0)).
  rewrite (tis_eq ld pit_LeftDelim Hld). cbn [negb]. rewrite Hn2. cbn [cbind].
  rewrite (tis_ne pm pit_CallEnd) by (rewrite Hpm; vm_compute; discriminate).
  rewrite (tis_eq pm pit_Param Hpm). cbn [negb]. rewrite He3. cbn [cbind]. rewrite Hn4. cbn [cbind].
  rewrite (tis_eq colon pit_Colon Hcolon). rewrite (HF1 g) by lia. cbn [cbind]. rewrite He6. cbn [cbind].
  apply HF; lia.
Qed.

(* {param key}...{/param} *)
Lemma Params_content m params ld pm key rd l1 x u rd2 l2 params' rest :
  t_typ ld = pit_LeftDelim -> t_typ pm = pit_Param -> t_typ key = pit_Ident -> t_typ rd = pit_RightDelim ->
  Body m u_param l1 x u (rd2 :: l2) -> t_typ rd2 = pit_RightDelim ->
  ParamsRun m (params ++ [NParamContent (t_pos ld) (t_val key) x]) l2 params' rest ->
  ParamsRun m params (ld :: pm :: key :: rd :: l1) params' rest.
Proof.
  intros Hld Hpm Hkey Hrd HB Hrd2 HL s p0 sc0 Hs Hi Hm.
  cnextp s p0 Hs Hi p1 Hn1 Hs1 Hi1 Hsb1 Hib1.
  cnextp s p1 Hs1 Hi1 p2 Hn2 Hs2 Hi2 Hsb2 Hib2.
  cexpectp inlen pit_Ident x_param s p2 Hs2 Hi2 Hkey p3 He3 Hs3 Hi3.
  cnextp s p3 Hs3 Hi3 p4 Hn4 Hs4 Hi4 Hsb4 Hib4.
  destruct (HB s p4 sc0 Hs4 Hi4 Hm) as (p5 & sc5 & Hs5 & Hi5 & _ & _ & f1 & HF1).
  cexpectp inlen pit_RightDelim x_param s p5 Hs5 Hi5 Hrd2 p6 He6 Hs6 Hi6.
  destruct (HL s p6 sc5 Hs6 Hi6 Hm) as (p' & sc' & H1 & H2 & f0 & HF).
  exists p', sc'. repeat (split; [assumption|]). exists (S (max f0 f1)). intros g k Hg Hk. destruct k as [|k]; [lia|].
  rewrite call_params_loop_S. rewrite (params_ld g ld _ _ _ ltac:(lia) Hld (Hn1 s sc0)).
  rewrite (tis_eq ld pit_LeftDelim Hld). cbn [negb]. rewrite Hn2. cbn [cbind].
  rewrite (tis_ne pm pit_CallEnd) by (rewrite Hpm; vm_compute; discriminate).
  rewrite (tis_eq pm pit_Param Hpm). cbn [negb]. rewrite He3. cbn [cbind]. rewrite Hn4. cbn [cbind].
  rewrite (tis_ne rd pit_Colon) by (rewrite Hrd; vm_compute; discriminate).
  rewrite (tis_eq rd pit_RightDelim Hrd). rewrite (HF1 g g) by lia. cbn [cbind]. rewrite He6. cbn [cbind].
  apply HF; lia.
Qed.

(* ---- {call ...} ---- *)
(* what is written after the name: nothing, data="all", or data="e" *)
Inductive call_data : list tok -> bool -> option node -> Prop :=
| cd_none : call_data [] false None
| cd_all : unq (dq v_all) = Some v_all -> call_data (attr_toks v_data (dq v_all)) true None
| cd_expr str d rest : unq (dq str) = Some str -> str <> v_all -> Parses 0 (lexq str) d rest ->
    call_data (attr_toks v_data (dq str)) false (Some d).

(* name, attributes and data of parseCall: everything before the closing "}" or "/}" *)
Lemma call_head token first r1 segs atoks alldata data cl l p :
  first <> [] -> split_dots [] (first ++ r1 ++ List.concat segs) = first :: r1 :: segs ->
  call_data atoks alldata data ->
  (t_typ cl = pit_RightDelim \/ t_typ cl = pit_RightDelimEnd) -> t_pos cl = 0 ->
  (forall s, c_ns s = ns -> c_al s = al -> resolve_name s (first ++ r1 ++ List.concat segs) = first ++ r1 ++ List.concat segs) ->
  stream p = global_toks 0 (first ++ r1 ++ List.concat segs) ++ atoks ++ cl :: l -> inv p ->
  exists p3 (scf : list scanrec -> list scanrec), stream p3 = cl :: l /\ inv p3 /\
    exists f0, forall g s sc, (f0 <= g)%nat -> c_ns s = ns -> c_al s = al ->
      parse_call inlen lexq unq parse_expr efuel (PE g) (IL g) g token (set_ps s p sc) =
      cbind (c_next (set_ps s p3 (scf sc))) (fun tok s4 =>
        if tis tok pit_RightDelimEnd then COk (NCall (t_pos token) (first ++ r1 ++ List.concat segs) alldata data []) s4
        else if tis tok pit_RightDelim then
          cbind (call_params_loop inlen lexq unq parse_expr efuel (PE g) (IL g) g g [] s4) (fun body s5 =>
          cbind (c_expect inlen pit_LeftDelim x_call s5) (fun _ s6 =>
          cbind (c_expect inlen pit_CallEnd x_call s6) (fun _ s7 =>
          cbind (c_expect inlen pit_RightDelim x_call s7) (fun _ s8 =>
            COk (NCall (t_pos token) (first ++ r1 ++ List.concat segs) alldata data body) s8))))
        else c_unexp inlen tok x_call s4).
Proof.
  intros Hf Hsp Hcd Hcl Hpos Hres Hs Hi. set (name := first ++ r1 ++ List.concat segs) in *.
  assert (Hname : name <> []) by (unfold name; destruct first; [contradiction Hf; reflexivity|discriminate]).
  destruct Hcd as [|Hu|str d rest Hu Hne HP].
  - (* no attribute *)
    cbn [app] in Hs.
    assert (Hnx : t_typ cl <> pit_DotIdent) by (destruct Hcl as [E|E]; rewrite E; vm_compute; discriminate).
    destruct (call_name_spec first r1 segs cl l p Hf Hnx Hs Hsp Hi) as (p1 & Hsb1 & Hib1 & Hfr1 & f0 & HF).
    destruct (attrs_end [k_name; k_data] [] (p_backup p1) cl l Hcl Hsb1 Hib1) as (p2 & Hsb2 & Hib2 & _ & HA).
    exists (p_backup p2), (fun sc => sc). repeat (split; [assumption|]). exists (S f0). intros g s sc Hg Hns Hal.
    destruct g as [|g]; [lia|].
    unfold parse_call. rewrite HF by lia. cbn [cbind]. rewrite HA. cbn [cbind].
    fold name. rewrite !(match_nonempty name _ _ Hname).
    rewrite (Hres (set_ps s (p_backup p2) sc) Hns Hal). cbn [attr assoc_s]. cbn [cbind fst snd]. reflexivity.
  - (* data="all" *)
    unfold attr_toks in Hs. cbn [app] in Hs.
    destruct (call_name_spec first r1 segs (tk pit_Ident 0 v_data) _ p Hf ltac:(vm_compute; discriminate) Hs Hsp Hi) as (p1 & Hsb1 & Hib1 & Hfr1 & f0 & HF).
    destruct (attrs_one [k_name; k_data] [] (p_backup p1) (tk pit_Ident 0 v_data) (tk pit_Equals 0 v_eq) (tk pit_String 0 (dq v_all)) v_all _ eq_refl eq_refl eq_refl eq_refl Hu Hsb1 Hib1) as (p2 & Hs2 & Hi2 & Hle2 & HA1).
    destruct (attrs_end [k_name; k_data] [(v_data, v_all)] p2 cl l Hcl Hs2 Hi2) as (p3 & Hsb3 & Hib3 & _ & HA2).
    exists (p_backup p3), (fun sc => sc). repeat (split; [assumption|]). exists (S (S f0)). intros g s sc Hg Hns Hal.
    destruct g as [|[|g]]; [lia|lia|].
    unfold parse_call. rewrite HF by lia. cbn [cbind]. rewrite HA1. cbn [t_val tk]. rewrite HA2. cbn [cbind].
    fold name. rewrite !(match_nonempty name _ _ Hname).
    rewrite (Hres (set_ps s (p_backup p3) sc) Hns Hal).
    change (attr k_data [(v_data, v_all)]) with (Some v_all). change (bstr_eqb v_all k_all) with true. cbv iota.
    cbn [cbind fst snd]. reflexivity.
  - (* data="e" *)
    unfold attr_toks in Hs. cbn [app] in Hs.
    destruct (call_name_spec first r1 segs (tk pit_Ident 0 v_data) _ p Hf ltac:(vm_compute; discriminate) Hs Hsp Hi) as (p1 & Hsb1 & Hib1 & Hfr1 & f0 & HF).
    destruct (attrs_one [k_name; k_data] [] (p_backup p1) (tk pit_Ident 0 v_data) (tk pit_Equals 0 v_eq) (tk pit_String 0 (dq str)) str _ eq_refl eq_refl eq_refl eq_refl Hu Hsb1 Hib1) as (p2 & Hs2 & Hi2 & Hle2 & HA1).
    destruct (attrs_end [k_name; k_data] [(v_data, str)] p2 cl l Hcl Hs2 Hi2) as (p3 & Hsb3 & Hib3 & Hfr3 & HA2).
    specialize (Hfr3 Hle2).
    assert (Hpos3 : t_pos (err_tok (p_backup p3)) = 0) by (rewrite (fresh_backup_err_tok _ _ Hfr3); exact Hpos).
    destruct (pqe_spec (p_backup p3) str d rest Hib3 Hpos3 HP) as (r & HQ).
    exists (p_backup p3), (fun sc => r :: sc). repeat (split; [assumption|]). exists (S (S f0)). intros g s sc Hg Hns Hal.
    destruct g as [|[|g]]; [lia|lia|].
    unfold parse_call. rewrite HF by lia. cbn [cbind]. rewrite HA1. cbn [t_val tk]. rewrite HA2. cbn [cbind].
    fold name. rewrite !(match_nonempty name _ _ Hname).
    rewrite (Hres (set_ps s (p_backup p3) sc) Hns Hal).
    change (attr k_data [(v_data, str)]) with (Some str). cbv iota beta.
    replace (bstr_eqb str k_all) with false
      by (symmetry; apply not_true_is_false; intros E; apply Hne; apply bstr_eqb_eq in E; exact E).
    rewrite HQ. cbn [cbind fst snd]. reflexivity.
Qed.

(* {call name data=... /} *)
Lemma Tag_call_self m k first r1 segs atoks alldata data cl l :
  t_typ k = pit_Call -> first <> [] -> split_dots [] (first ++ r1 ++ List.concat segs) = first :: r1 :: segs ->
  call_data atoks alldata data -> t_typ cl = pit_RightDelimEnd -> t_pos cl = 0 ->
  (forall s, c_ns s = ns -> c_al s = al -> resolve_name s (first ++ r1 ++ List.concat segs) = first ++ r1 ++ List.concat segs) ->
  Tag m (k :: global_toks 0 (first ++ r1 ++ List.concat segs) ++ atoks ++ cl :: l)
      (NCall (t_pos k) (first ++ r1 ++ List.concat segs) alldata data []) l.
Proof.
  intros Hk Hf Hsp Hcd Hcl Hpos Hres s p0 sc0 Hs Hi Hm.
  cnext0 s Hs Hi p1 Hn1 Hs1 Hi1 Hsb1 Hib1.
  destruct (call_head k first r1 segs atoks alldata data cl l p1 Hf Hsp Hcd (or_intror Hcl) Hpos Hres Hs1 Hi1) as (p3 & scf & Hs3 & Hi3 & f0 & HF).
  cnextp s p3 Hs3 Hi3 p4 Hn4 Hs4 Hi4 Hsb4 Hib4.
  destruct Hm as (Hm & Hns & Hal).
  exists p4, (scf sc0). repeat (split; [assumption|]). exists f0. intros g lf Hg _.
  unfold begin_tag. rewrite Hn1. cbn [cbind]. rewrite !(tis_typ k _ _ Hk). dec_closed.
  rewrite (HF g s sc0 Hg Hns Hal). rewrite Hn4. cbn [cbind]. rewrite (tis_eq cl pit_RightDelimEnd Hcl). reflexivity.
Qed.

(* {call name data=...}{param ...}...{/call} *)
Lemma Tag_call_params m k first r1 segs atoks alldata data cl l params ld ce rd rest :
  t_typ k = pit_Call -> first <> [] -> split_dots [] (first ++ r1 ++ List.concat segs) = first :: r1 :: segs ->
  call_data atoks alldata data -> t_typ cl = pit_RightDelim -> t_pos cl = 0 ->
  (forall s, c_ns s = ns -> c_al s = al -> resolve_name s (first ++ r1 ++ List.concat segs) = first ++ r1 ++ List.concat segs) ->
  ParamsRun m [] l params (ld :: ce :: rd :: rest) ->
  t_typ ld = pit_LeftDelim -> t_typ ce = pit_CallEnd -> t_typ rd = pit_RightDelim ->
  Tag m (k :: global_toks 0 (first ++ r1 ++ List.concat segs) ++ atoks ++ cl :: l)
      (NCall (t_pos k) (first ++ r1 ++ List.concat segs) alldata data params) rest.
Proof.
  intros Hk Hf Hsp Hcd Hcl Hpos Hres HPR Hld Hce Hrd s p0 sc0 Hs Hi Hm.
  cnext0 s Hs Hi p1 Hn1 Hs1 Hi1 Hsb1 Hib1.
  destruct (call_head k first r1 segs atoks alldata data cl l p1 Hf Hsp Hcd (or_introl Hcl) Hpos Hres Hs1 Hi1) as (p3 & scf & Hs3 & Hi3 & f0 & HF).
  cnextp s p3 Hs3 Hi3 p4 Hn4 Hs4 Hi4 Hsb4 Hib4.
  destruct (HPR s p4 (scf sc0) Hs4 Hi4 Hm) as (p5 & sc5 & Hs5 & Hi5 & f1 & HF1).
  cexpectp inlen pit_LeftDelim x_call s p5 Hs5 Hi5 Hld p6 He6 Hs6 Hi6.
  cexpectp inlen pit_CallEnd x_call s p6 Hs6 Hi6 Hce p7 He7 Hs7 Hi7.
  cexpectp inlen pit_RightDelim x_call s p7 Hs7 Hi7 Hrd p8 He8 Hs8 Hi8.
  destruct Hm as (Hm & Hns & Hal).
  exists p8, sc5. repeat (split; [assumption|]). exists (max f0 f1). intros g lf Hg _.
  unfold begin_tag. rewrite Hn1. cbn [cbind]. rewrite !(tis_typ k _ _ Hk). dec_closed.
  rewrite (HF g s sc0 ltac:(lia) Hns Hal). rewrite Hn4. cbn [cbind].
  rewrite (tis_ne cl pit_RightDelimEnd) by (rewrite Hcl; vm_compute; discriminate).
  rewrite (tis_eq cl pit_RightDelim Hcl). rewrite (HF1 g g) by lia. cbn [cbind].
  rewrite He6. cbn [cbind]. rewrite He7. cbn [cbind]. rewrite He8. reflexivity.
Qed.

(* ---- {css e, suffix} / {css suffix} ---- *)
Lemma Tag_css_plain m k txt rd l : t_typ k = pit_Css -> t_typ txt = pit_Text -> t_typ rd = pit_RightDelim ->
  last_index_of 44 (t_val txt) = None ->
  Tag m (k :: txt :: rd :: l) (NCss (t_pos k) None (trim_space (t_val txt))) l.
Proof.
  intros Hk Htxt Hrd Hno s p0 sc0 Hs Hi Hm.
  cnext0 s Hs Hi p1 Hn1 Hs1 Hi1 Hsb1 Hib1.
  cexpectp inlen pit_Text x_css s p1 Hs1 Hi1 Htxt p2 He2 Hs2 Hi2.
  cexpectp inlen pit_RightDelim x_css s p2 Hs2 Hi2 Hrd p3 He3 Hs3 Hi3.
  exists p3, sc0. repeat (split; [assumption|]). exists 0%nat. intros g lf _ _.
  unfold begin_tag. rewrite Hn1. cbn [cbind]. rewrite !(tis_typ k _ _ Hk). dec_closed.
  unfold parse_css. rewrite He2. cbn [cbind]. rewrite He3. cbn [cbind]. rewrite Hno. reflexivity.
Qed.

Lemma Tag_css_expr m k txt rd l i e rest : t_typ k = pit_Css -> t_typ txt = pit_Text -> t_typ rd = pit_RightDelim -> t_pos rd = 0 ->
  last_index_of 44 (t_val txt) = Some i ->
  Parses 0 (lexq (trim_space (take i (t_val txt)))) e rest ->
  Tag m (k :: txt :: rd :: l) (NCss (t_pos k) (Some e) (trim_space (drop (S i) (t_val txt)))) l.
Proof.
  intros Hk Htxt Hrd Hpos Hidx HP s p0 sc0 Hs Hi Hm.
  cnextk p0 Hs Hi p1 Hn1 Hs1 Hi1 Hsb1 Hib1 Hle1 Hfr1.
  cnextk p1 Hs1 Hi1 p2 Hn2 Hs2 Hi2 Hsb2 Hib2 Hle2 Hfr2.
  cnextk p2 Hs2 Hi2 p3 Hn3 Hs3 Hi3 Hsb3 Hib3 Hle3 Hfr3.
  specialize (Hfr3 Hle2).
  assert (Hpos3 : t_pos (err_tok p3) = 0) by (rewrite (fresh_err_tok _ _ Hfr3); exact Hpos).
  destruct (pqe_spec p3 _ e rest Hi3 Hpos3 HP) as (r & HQ).
  exists p3, (r :: sc0). repeat (split; [assumption|]). exists 0%nat. intros g lf _ _.
  unfold begin_tag. rewrite Hn1. cbn [cbind]. rewrite !(tis_typ k _ _ Hk). dec_closed.
  unfold parse_css, c_expect. rewrite Hn2. cbn [cbind]. rewrite (tis_eq txt pit_Text Htxt). cbn [cbind].
  rewrite Hn3. cbn [cbind]. rewrite (tis_eq rd pit_RightDelim Hrd). cbn [cbind]. rewrite Hidx.
  rewrite HQ. reflexivity.
Qed.
End Call.
