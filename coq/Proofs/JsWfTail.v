(* C14, token grammar, bytes: what the recogniser's mode says about the next token, what the first byte of a text says
   about its first token, and the discipline [tail_ok] that makes a piece of output separable from any continuation the
   grammar accepts ([sep_from_tail]). *)
From Soy Require Import Model.Bytes Model.JsGen Spec.JsSyntax Spec.JsShape Proofs.JsWfSplitBase Proofs.JsWfSplitNum Proofs.JsWfSplit.
From Coq Require Import ZifyBool ZifyNat ZifyN Lia.
Open Scope N_scope.

Definition is_word (t : jstoken) : bool := match t with TId _ | TKw _ _ | TNum _ => true | _ => false end.

Lemma word_free_ok md m s t r : word_free m = true -> js_step md m s t = Some r -> is_word t = false.
Proof.
  intros W H. destruct t; try reflexivity; exfalso; destruct m; try discriminate W; cbn in H; try discriminate H;
    destruct ps as [|[t'| |] ps]; try discriminate W; try (destruct t'; try discriminate W); cbn in H; discriminate H.
Qed.
Lemma dot_free_ok md m s : dot_free m = true -> js_step md m s (TP PDot) = None.
Proof.
  intros W. destruct m; try discriminate W; cbn; try reflexivity.
  - destruct isint; [reflexivity|discriminate W].
  - destruct ps as [|[t'| |] ps]; try discriminate W; [|reflexivity]. destruct t'; try discriminate W. cbn in *.
    destruct p; try reflexivity. discriminate W.
Qed.
Lemma dot_mode_ok md m s t r : dot_mode m = true -> js_step md m s t = Some r -> match t with TId _ | TKw _ _ => True | _ => False end.
Proof. intros W H. destruct m; try discriminate W; destruct t; cbn in H; try discriminate H; exact I. Qed.
Lemma want_mode_ok md m s p r : want_mode m = true -> js_step md m s (TP p) = Some r ->
  p <> PQuest /\ p <> PDot /\ p <> PAssign /\ forall x, p <> PBin x.
Proof. intros W H. destruct m; try discriminate W. destruct p; cbn in H; try discriminate H; repeat split; try discriminate; intros x; discriminate. Qed.
Lemma incr_free_ok md m s : incr_free m = true -> js_step md m s (TP PPlusPlus) = None /\ forall t, js_step md m s (TNL t) = None.
Proof.
  intros W. destruct m; cbn; try (split; [reflexivity|intro; reflexivity]).
  destruct ps as [|[t'| |] ps]; try (split; [reflexivity|intro; reflexivity]).
    destruct t'; try (split; [reflexivity|intro; reflexivity]); try discriminate W.
    destruct p; try discriminate W; split; try reflexivity; intro; reflexivity.
Qed.

(* ---- which bytes stand next to each other inside a punctuator ---- *)
Fixpoint pairs (p : bstr) : list (N * N) :=
  match p with
  | x :: ((y :: _) as r) => (x, y) :: pairs r
  | _ => []
  end.
Lemma adj_pairs a b p : adj a b p = true -> In (a, b) (pairs p).
Proof.
  induction p as [|x p IH]; [discriminate|]. destruct p as [|y p]; [discriminate|]. rewrite adj_cons.
  intro H. apply orb_prop in H. destruct H as [H|H].
  - apply andb_prop in H. destruct H as [H1 H2]. apply N.eqb_eq in H1. apply N.eqb_eq in H2. subst. left. reflexivity.
  - right. apply IH. exact H.
Qed.
Definition all_pairs : list (N * N) := Eval vm_compute in flat_map (fun e => pairs (fst e)) punct_table.
Lemma glue_pairs a b : glue a b = true -> In (a, b) all_pairs.
Proof.
  unfold glue. intro H. apply existsb_exists in H. destruct H as (e & He & Ha).
  change all_pairs with (flat_map (fun e => pairs (fst e)) punct_table). apply in_flat_map. exists e. split; [exact He|].
  apply adj_pairs. exact Ha.
Qed.
Lemma glue_cases a b : glue a b = true ->
  open_punct a = true /\ (a = 46 -> b = 46) /\ (a = 63 -> b = 63 \/ b = 46 \/ b = 61).
Proof.
  intro H. apply glue_pairs in H. unfold all_pairs in H. cbn [In] in H.
  repeat (destruct H as [H|H]; [injection H as <- <-; split; [reflexivity|split; intro Q; try discriminate Q; auto]|]).
  contradiction.
Qed.

(* ---- the first token of a text, from its first byte ---- *)
Lemma ident_not_space c : is_ident_part c = true -> is_space c = false /\ ((c =? 39) || (c =? 34)) = false.
Proof. unfold is_ident_part, is_ident_start, is_digit, is_space. intro H. split; lia. Qed.
Lemma tok_of_ident_word x : is_word (tok_of_ident x) = true.
Proof. unfold tok_of_ident. destruct (assoc_s x kw_table); reflexivity. Qed.

Lemma first_word b r' ts m_r : lex_text 0 LNormal (b :: r') = Some (ts, m_r) -> is_ident_part b = true ->
  exists t tl, ts = t :: tl /\ is_word t = true /\ (is_digit b = true -> exists x, t = TNum x).
Proof.
  intros H Hb. destruct (ident_not_space b Hb) as [E1 E2]. cbn [lex_text] in H. rewrite E1, E2 in H.
  destruct (is_ident_start b) eqn:Es.
  - destruct (lex_text (span is_ident_part r') LNormal r') as [[l l0]|]; [|discriminate H]. cbn in H. injection H as <- _.
    eexists _, _. split; [reflexivity|]. split; [apply tok_of_ident_word|].
    intro Hd. exfalso. unfold is_ident_start, is_digit in *. lia.
  - assert (Hd : is_digit b = true) by (unfold is_ident_part in Hb; rewrite Es in Hb; exact Hb). rewrite Hd in H.
    destruct (num_span (b :: r')) as [[|n]|]; try discriminate H.
    destruct (lex_text n LNormal r') as [[l l0]|]; [|discriminate H]. cbn in H. injection H as <- _.
    eexists _, _. split; [reflexivity|]. split; [reflexivity|]. intros _. eexists. reflexivity.
Qed.


Lemma lex_punct_step b r' : is_space b = false -> ((b =? 39) || (b =? 34)) = false -> is_ident_start b = false -> is_digit b = false ->
  (b =? 47) = false ->
  lex_text 0 LNormal (b :: r') =
  match find_punct punct_table (b :: r') with
  | Some (S n, Some p) => option_map (fun '(ts, m') => (TP p :: ts, m')) (lex_text n LNormal r')
  | _ => None
  end.
Proof. intros H1 H2 H3 H4 H5. cbn [lex_text]. rewrite H1. rewrite H2. rewrite H3. rewrite H4. rewrite H5. reflexivity. Qed.

Definition first_entries (tbl : list (bstr * option punct)) : list (N * punct) :=
  flat_map (fun e : bstr * option punct => match e with (c :: _, Some q) => [(c, q)] | _ => [] end) tbl.
Lemma fp_first tbl b r' n q : forallb (fun e : bstr * option punct => match fst e with [] => false | _ => true end) tbl = true ->
  find_punct tbl (b :: r') = Some (n, Some q) -> In (b, q) (first_entries tbl).
Proof.
  induction tbl as [|[p o] tbl IH]; intros Hne H; [discriminate H|]. cbn [forallb fst] in Hne. apply andb_prop in Hne. destruct Hne as [Hp Hne].
  cbn [find_punct] in H. unfold first_entries. cbn [flat_map]. apply in_or_app. destruct (is_prefix p (b :: r')) eqn:E.
  - left. injection H as _ ->. destruct p as [|a p']; [discriminate Hp|]. cbn in E. apply andb_prop in E. destruct E as [E _].
    apply N.eqb_eq in E. subst a. left. reflexivity.
  - right. apply IH; assumption.
Qed.
Definition punct_firsts : list (N * punct) := Eval vm_compute in first_entries punct_table.
Lemma fp_cases b r' n q : find_punct punct_table (b :: r') = Some (n, Some q) -> In (b, q) punct_firsts.
Proof. intro H. change punct_firsts with (first_entries punct_table). eapply fp_first; [vm_compute; reflexivity|exact H]. Qed.

Ltac fp_solve H :=
  apply fp_cases in H; unfold punct_firsts in H; cbn [In] in H;
  repeat (destruct H as [H|H]; [try discriminate H; injection H as <-|]); try contradiction.

Lemma fp_dot r' n q : find_punct punct_table (46 :: r') = Some (n, Some q) -> q = PDot.
Proof. intro H. fp_solve H; reflexivity. Qed.
Lemma fp_quest r' n q : find_punct punct_table (63 :: r') = Some (n, Some q) -> q = PQuest.
Proof. intro H. fp_solve H; reflexivity. Qed.
Lemma fp_eq r' n q : find_punct punct_table (61 :: r') = Some (n, Some q) -> q = PAssign \/ exists x, q = PBin x.
Proof. intro H. fp_solve H; first [left; reflexivity | right; eexists; reflexivity]. Qed.

Lemma first_punct b r' ts m_r : is_space b = false -> ((b =? 39) || (b =? 34)) = false -> is_ident_start b = false -> is_digit b = false ->
  (b =? 47) = false -> lex_text 0 LNormal (b :: r') = Some (ts, m_r) ->
  exists n q tl, find_punct punct_table (b :: r') = Some (n, Some q) /\ ts = TP q :: tl.
Proof.
  intros H1 H2 H3 H4 H5 H. rewrite lex_punct_step in H by assumption.
  destruct (find_punct punct_table (b :: r')) as [[[|n] [q|]]|]; try discriminate H.
  destruct (lex_text n LNormal r') as [[l l0]|]; [|discriminate H]. cbn in H. injection H as <- _.
  eexists _, _, _. split; reflexivity.
Qed.

Lemma incr_first rest : forall ts m_r, incr_next rest = true -> lex_text 0 LNormal rest = Some (ts, m_r) ->
  exists tl, ts = TP PPlusPlus :: tl \/ ts = TNL (TP PPlusPlus) :: tl.
Proof.
  induction rest as [|c r IH]; intros ts m_r Hi H; [discriminate Hi|].
  destruct (is_space c) eqn:Esp.
  - assert (Hi' : incr_next r = incr_next (c :: r)) by (unfold incr_next; cbn [skip_spaces]; rewrite Esp; reflexivity).
    cbn [lex_text] in H. rewrite Esp in H. rewrite <- Hi' in Hi. rewrite Hi in H.
    destruct ((c =? 10) || (c =? 13)); cbn [andb] in H.
    + unfold cons_tok in H. destruct (lex_text (incr_skip r) LNormal r) as [[l l0]|]; [|discriminate H]. cbn in H. injection H as <- _.
      eexists. right. reflexivity.
    + eapply IH; eassumption.
  - unfold incr_next in Hi. cbn [skip_spaces] in Hi. rewrite Esp in Hi. cbn [is_prefix] in Hi.
    apply andb_prop in Hi. destruct Hi as [E1 Hi]. apply N.eqb_eq in E1. subst c.
    destruct r as [|c2 w]; [discriminate Hi|]. apply andb_prop in Hi. destruct Hi as [E2 _]. apply N.eqb_eq in E2. subst c2.
    destruct (first_punct 43 (43 :: w) ts m_r eq_refl eq_refl eq_refl eq_refl eq_refl H) as (n & q & tl & F & ->).
    exists tl. left. f_equal. f_equal.
    assert (G : find_punct punct_table (43 :: 43 :: w) = Some (2%nat, Some PPlusPlus)) by (vm_compute; reflexivity).
    rewrite G in F. injection F as _ <-. reflexivity.
Qed.

(* ---- the discipline ---- *)
Definition tail_ok (bs : bstr) (ts : list jstoken) (m' : mode) : Prop :=
  match bs with [] => True | _ => tail_okb (last bs 0) (lastint ts) m' = true end.

(* what follows is lexable and, if it has a first token, the recogniser accepts that token in mode m (on some stack) *)
Definition cont_ok (md : bool) (m : mode) (rest : bstr) : Prop :=
  exists ts_r m_r, lex_text 0 LNormal rest = Some (ts_r, m_r)
    /\ match ts_r with t :: _ => exists s r, js_step md m s t = Some r | [] => True end.

Lemma sep_from_tail md bs ts m' b r' : tail_ok bs ts m' -> cont_ok md m' (b :: r') -> sepP bs (lastint ts) (b :: r').
Proof.
  intros T (ts_r & m_r & L & A). destruct bs as [|c0 bs0]; [exact I|]. unfold tail_ok in T. unfold sepP.
  set (a := last (c0 :: bs0) 0) in *. unfold tail_okb in T.
  apply andb_prop in T. destruct T as [T T3]. apply andb_prop in T. destruct T as [T1 T2].
  assert (Acc : forall t tl, ts_r = t :: tl -> exists s r, js_step md m' s t = Some r) by (intros t tl ->; exact A).
  split; [|split; [|split; [|split]]].
  - intro Ha. rewrite Ha in T1. cbn [negb orb] in T1. apply andb_prop in T1. destruct T1 as [W _].
    destruct (is_ident_part b) eqn:Eb; [exfalso|reflexivity].
    destruct (first_word b r' ts_r m_r L Eb) as (t & tl & -> & Hw & _). destruct (Acc _ _ eq_refl) as (s & r & St).
    rewrite (word_free_ok _ _ _ _ _ W St) in Hw. discriminate.
  - intros Hli Hd Hb. exfalso. subst b. rewrite (digit_ident _ Hd) in T1. cbn [negb orb] in T1. apply andb_prop in T1. destruct T1 as [_ D].
    rewrite Hli in D. cbn [negb orb] in D.
    destruct (first_punct 46 r' ts_r m_r eq_refl eq_refl eq_refl eq_refl eq_refl L) as (n & q & tl & F & ->).
    apply fp_dot in F. subst q. destruct (Acc _ _ eq_refl) as (s & r & St). rewrite dot_free_ok in St by exact D. discriminate.
  - intro Ha. rewrite Ha in T2. change (open_punct 46) with true in T2. change (46 =? 46) with true in T2.
    change (46 =? 63) with false in T2. cbn [negb orb andb] in T2. destruct (is_digit b) eqn:Eb; [exfalso|reflexivity].
    rewrite orb_false_r in T2.
    destruct (first_word b r' ts_r m_r L (digit_ident _ Eb)) as (t & tl & -> & _ & Hn). destruct (Hn Eb) as (x & ->).
    destruct (Acc _ _ eq_refl) as (s & r & St). exact (dot_mode_ok _ _ _ _ _ T2 St).
  - destruct (glue a b) eqn:G; [exfalso|reflexivity]. destruct (glue_cases _ _ G) as (Ho & G46 & G63).
    rewrite Ho in T2. cbn [negb orb] in T2. apply orb_prop in T2. destruct T2 as [T2|T2]; apply andb_prop in T2; destruct T2 as [Ea M]; apply N.eqb_eq in Ea.
    + specialize (G46 Ea). subst b.
      destruct (first_punct 46 r' ts_r m_r eq_refl eq_refl eq_refl eq_refl eq_refl L) as (n & q & tl & F & ->).
      destruct (Acc _ _ eq_refl) as (s & r & St). exact (dot_mode_ok _ _ _ _ _ M St).
    + destruct (G63 Ea) as [->|[->| ->]].
      * destruct (first_punct 63 r' ts_r m_r eq_refl eq_refl eq_refl eq_refl eq_refl L) as (n & q & tl & F & ->).
        apply fp_quest in F. subst q. destruct (Acc _ _ eq_refl) as (s & r & St). destruct (want_mode_ok _ _ _ _ _ M St) as (X & _). congruence.
      * destruct (first_punct 46 r' ts_r m_r eq_refl eq_refl eq_refl eq_refl eq_refl L) as (n & q & tl & F & ->).
        apply fp_dot in F. subst q. destruct (Acc _ _ eq_refl) as (s & r & St). destruct (want_mode_ok _ _ _ _ _ M St) as (_ & X & _). congruence.
      * destruct (first_punct 61 r' ts_r m_r eq_refl eq_refl eq_refl eq_refl eq_refl L) as (n & q & tl & F & ->).
        apply fp_eq in F. destruct (Acc _ _ eq_refl) as (s & r & St). destruct (want_mode_ok _ _ _ _ _ M St) as (_ & _ & X & Y).
        destruct F as [->|[x ->]]; [congruence|exact (Y x eq_refl)].
  - intro Ha. assert (Hs : (is_space a || (a =? 168) || (a =? 169)) = true).
    { destruct Ha as [Ha|[Ha|Ha]]; rewrite Ha; reflexivity. }
    rewrite Hs in T3. cbn [negb orb] in T3. destruct (incr_next (b :: r')) eqn:Ei; [exfalso|reflexivity].
    destruct (incr_first _ _ _ Ei L) as (tl & [-> | ->]); destruct (Acc _ _ eq_refl) as (s & r & St);
      destruct (incr_free_ok md m' s T3) as [I1 I2]; [rewrite I1 in St|rewrite I2 in St]; discriminate.
Qed.
