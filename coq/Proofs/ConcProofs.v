(* C09 — the interleaving theory of Model/Conc.v: threads that write only
   locations they own and otherwise only read are race-free under EVERY
   schedule, for ANY number of threads, and each of them behaves exactly as
   when run alone. *)
From Coq Require Import List Arith Bool Lia.
From Soy Require Import Model.Conc.
Import ListNotations.

Section ConcProofs.
Variables loc val res : Type.
Variable loc_eqb : loc -> loc -> bool.
Hypothesis loc_eqb_spec : forall a b, loc_eqb a b = true <-> a = b.
Variable owner : loc -> option nat.

Notation prog := (prog loc val res).
Notation store := (store loc val).
Notation config := (config loc val res).
Notation event := (event loc val).
Notation exec := (@exec loc val res loc_eqb).
Notation step := (@step loc val res loc_eqb).
Notation run := (@run loc val res loc_eqb).
Notation sched_step := (@sched_step loc val res loc_eqb).
Notation solo_trace := (@solo_trace loc val res loc_eqb).
Notation solo_result := (@solo_result loc val res loc_eqb).
Notation solo_store := (@solo_store loc val res loc_eqb).
Notation allowed := (@allowed loc val owner).
Notation disciplined := (@disciplined loc val res loc_eqb owner).
Notation all_disciplined := (@all_disciplined loc val res loc_eqb owner).

(* ---------------- lists ---------------- *)

Lemma set_nth_length {A} i (x : A) l : length (set_nth i x l) = length l.
Proof. revert i; induction l as [|y l IH]; intros [|i]; simpl; auto. Qed.

Lemma nth_error_set_nth_same {A} i (x : A) l : i < length l -> nth_error (set_nth i x l) i = Some x.
Proof.
  revert i; induction l as [|y l IH]; intros [|i] Hlt; simpl in *; try lia; auto.
  apply IH; lia.
Qed.

Lemma nth_error_set_nth_other {A} i j (x : A) l : i <> j -> nth_error (set_nth j x l) i = nth_error l i.
Proof.
  revert i j; induction l as [|y l IH]; intros [|i] [|j] Hne; simpl; auto; try congruence.
Qed.

Lemma firstn_app_exact {A} (t rest : list A) : firstn (length t) (t ++ rest) = t.
Proof. induction t as [|x t IH]; simpl; [destruct rest; reflexivity | now rewrite IH]. Qed.

Lemma proj_app i (t1 t2 : list event) : proj i (t1 ++ t2) = proj i t1 ++ proj i t2.
Proof. unfold proj. now rewrite filter_app, map_app. Qed.

Lemma proj_same i (a : access loc val) : proj i [(i, a)] = [a].
Proof. unfold proj; simpl. now rewrite Nat.eqb_refl. Qed.

Lemma proj_other i j (a : access loc val) : j <> i -> proj i [(j, a)] = [].
Proof. intros Hne. unfold proj; simpl. destruct (Nat.eqb_spec j i); [contradiction | reflexivity]. Qed.

Lemma count_occ_snoc_same (l : list nat) i : count_occ Nat.eq_dec (l ++ [i]) i = S (count_occ Nat.eq_dec l i).
Proof. rewrite count_occ_app; simpl. destruct (Nat.eq_dec i i); [lia | contradiction]. Qed.

Lemma count_occ_snoc_other (l : list nat) i j : j <> i -> count_occ Nat.eq_dec (l ++ [j]) i = count_occ Nat.eq_dec l i.
Proof. intros Hne. rewrite count_occ_app; simpl. destruct (Nat.eq_dec j i); [contradiction | lia]. Qed.

(* ---------------- one thread ---------------- *)

Lemma exec_triple (p : prog) s : exec p s = (solo_result p s, solo_store p s, solo_trace p s).
Proof. unfold Conc.solo_result, Conc.solo_store, Conc.solo_trace. destruct (exec p s) as [[r sf] t]; reflexivity. Qed.

Lemma exec_read l (k : val -> prog) s r sf t :
  exec (Read l k) s = (r, sf, t) -> exists t', t = Rd l :: t' /\ exec (k (s l)) s = (r, sf, t').
Proof.
  cbn [Conc.exec]. destruct (exec (k (s l)) s) as [[r' sf'] t'] eqn:E. intros H; inversion H; subst. now exists t'.
Qed.

Lemma exec_write l v (k : prog) s r sf t :
  exec (Write l v k) s = (r, sf, t) -> exists t', t = Wr l v :: t' /\ exec k (upd loc_eqb s l v) = (r, sf, t').
Proof.
  cbn [Conc.exec]. destruct (exec k (upd loc_eqb s l v)) as [[r' sf'] t'] eqn:E. intros H; inversion H; subst. now exists t'.
Qed.

Lemma exec_nil (p : prog) s r sf : exec p s = (r, sf, []) -> p = Done r /\ sf = s.
Proof.
  destruct p as [r0|l k|l v k]; intros H.
  - cbn in H. inversion H; auto.
  - apply exec_read in H. destruct H as [t' [Hc _]]; discriminate.
  - apply exec_write in H. destruct H as [t' [Hc _]]; discriminate.
Qed.

(* ---------------- the invariant ---------------- *)

Definition agree (i : nat) (st si : store) : Prop :=
  forall l, owner l = None \/ owner l = Some i -> st l = si l.

(* thread [i], started as [p] on [s0], now [q] after [cnt] turns, global trace
   [tr], current store [st]: what it has emitted is a prefix [t] of its solo
   trace, and running [q] alone on a store [si] that agrees with [st] on every
   location [i] may touch yields the rest of the solo run *)
Definition tinv (s0 : store) (i : nat) (p q : prog) (cnt : nat) (tr : list event) (st : store) : Prop :=
  exists si t rest,
    solo_trace p s0 = t ++ rest
    /\ exec q si = (solo_result p s0, solo_store p s0, rest)
    /\ proj i tr = t
    /\ agree i st si
    /\ length t = Nat.min cnt (length (solo_trace p s0)).

Definition inv (s0 : store) (ps : list prog) (pre : list nat) (tr : list event) (c : config) : Prop :=
  length (threads c) = length ps
  /\ (forall l, owner l = None -> shared c l = s0 l)
  /\ Forall (fun e => allowed (fst e) (snd e)) tr
  /\ (forall i p, nth_error ps i = Some p ->
        exists q, nth_error (threads c) i = Some q /\ tinv s0 i p q (count_occ Nat.eq_dec pre i) tr (shared c)).

Lemma inv_init s0 ps : inv s0 ps [] [] (Build_config ps s0).
Proof.
  split; [reflexivity|]. split; [intros; reflexivity|]. split; [constructor|].
  intros i p Hp. exists p; split; [assumption|].
  exists s0, [], (solo_trace p s0).
  split; [reflexivity|]. split; [apply exec_triple|]. split; [reflexivity|].
  split; [intros l _; reflexivity|reflexivity].
Qed.

Lemma tinv_other s0 i j p q cnt tr st a st' :
  j <> i ->
  (forall l, owner l = None \/ owner l = Some i -> st' l = st l) ->
  tinv s0 i p q cnt tr st -> tinv s0 i p q cnt (tr ++ [(j, a)]) st'.
Proof.
  intros Hne Hst (si & t & rest & HT & He & Hp & Ha & Hl).
  exists si, t, rest. repeat split; auto.
  - rewrite proj_app, (proj_other i j a Hne), app_nil_r. exact Hp.
  - intros l Hl'. rewrite (Hst l Hl'). apply Ha; exact Hl'.
Qed.

Lemma inv_step s0 ps pre tr c j c' ev :
  all_disciplined ps s0 ->
  inv s0 ps pre tr c -> sched_step j c = (c', ev) -> inv s0 ps (pre ++ [j]) (tr ++ ev) c'.
Proof.
  intros Hdisc (Hlen & Hsh & Hall & Hth) Hstep.
  unfold Conc.sched_step in Hstep.
  destruct (nth_error (threads c) j) as [qj|] eqn:Hj.
  2:{ (* no such thread *)
    inversion Hstep; subst c' ev; clear Hstep. rewrite app_nil_r.
    repeat split; auto.
    intros i p Hp. destruct (Hth i p Hp) as (q & Hq & Hti).
    assert (j <> i) by (intros ->; congruence).
    exists q; split; [assumption|]. rewrite (count_occ_snoc_other pre i j H). exact Hti. }
  assert (Hjlt : j < length ps).
  { rewrite <- Hlen. apply nth_error_Some. congruence. }
  destruct (nth_error ps j) as [pj|] eqn:Hpj; [|apply nth_error_None in Hpj; lia].
  destruct (Hth j pj Hpj) as (qj' & Hqj' & (si & t & rest & HT & He & Hp & Ha & Hl)).
  assert (qj' = qj) by congruence; subst qj'.
  destruct qj as [r|l k|l v k]; cbn [Conc.step] in Hstep.
  - (* finished thread: the entry is skipped *)
    inversion Hstep; subst c' ev; clear Hstep. rewrite app_nil_r.
    repeat split; auto.
    intros i p Hpi. destruct (Nat.eq_dec i j) as [->|Hne].
    + assert (p = pj) by congruence; subst p.
      exists (Done r); split; [assumption|].
      assert (rest = []) by (cbn in He; now inversion He). subst rest.
      exists si, t, [].
      split; [exact HT|]. split; [exact He|]. split; [exact Hp|]. split; [exact Ha|].
      rewrite count_occ_snoc_same. rewrite app_nil_r in HT. rewrite HT in Hl |- *. lia.
    + destruct (Hth i p Hpi) as (q & Hq & Hti). exists q; split; [assumption|].
      rewrite (count_occ_snoc_other pre i j); auto.
  - (* a read *)
    inversion Hstep; subst c' ev; clear Hstep.
    apply exec_read in He. destruct He as (rest' & -> & He).
    assert (Hal : allowed j (Rd l)).
    { specialize (Hdisc j pj Hpj). unfold Conc.disciplined in Hdisc. rewrite HT in Hdisc.
      apply Forall_app in Hdisc. destruct Hdisc as [_ Hd]. now inversion Hd. }
    assert (Hval : shared c l = si l) by (apply Ha; exact Hal).
    repeat split; cbn [threads shared].
    + now rewrite set_nth_length.
    + exact Hsh.
    + apply Forall_app; split; [assumption|]. constructor; [exact Hal|constructor].
    + intros i p Hpi. destruct (Nat.eq_dec i j) as [->|Hne].
      * assert (p = pj) by congruence; subst p.
        exists (k (shared c l)); split; [apply nth_error_set_nth_same; lia|].
        exists si, (t ++ [Rd l]), rest'. repeat split; auto.
        -- rewrite HT, <- app_assoc; reflexivity.
        -- rewrite Hval; exact He.
        -- rewrite proj_app, proj_same, Hp; reflexivity.
        -- rewrite count_occ_snoc_same. rewrite HT in Hl |- *. rewrite !app_length in *. cbn [length] in *. lia.
      * destruct (Hth i p Hpi) as (q & Hq & Hti).
        exists q; split; [rewrite nth_error_set_nth_other; auto|].
        rewrite (count_occ_snoc_other pre i j); auto.
        apply (tinv_other s0 i j p q _ tr (shared c)); auto.
  - (* a write *)
    inversion Hstep; subst c' ev; clear Hstep.
    apply exec_write in He. destruct He as (rest' & -> & He).
    assert (Hal : allowed j (Wr l v)).
    { specialize (Hdisc j pj Hpj). unfold Conc.disciplined in Hdisc. rewrite HT in Hdisc.
      apply Forall_app in Hdisc. destruct Hdisc as [_ Hd]. now inversion Hd. }
    cbn in Hal.
    assert (Hupd : forall i l', i <> j -> owner l' = None \/ owner l' = Some i -> upd loc_eqb (shared c) l v l' = shared c l').
    { intros i l' Hne Hl'. unfold Conc.upd. destruct (loc_eqb l' l) eqn:E; [|reflexivity].
      apply loc_eqb_spec in E; subst l'. destruct Hl' as [Hn|Hs]; congruence. }
    repeat split; cbn [threads shared].
    + now rewrite set_nth_length.
    + intros l' Hl'. rewrite <- (Hsh l' Hl'). unfold Conc.upd.
      destruct (loc_eqb l' l) eqn:E; [|reflexivity]. apply loc_eqb_spec in E; subst l'. congruence.
    + apply Forall_app; split; [assumption|]. constructor; [exact Hal|constructor].
    + intros i p Hpi. destruct (Nat.eq_dec i j) as [->|Hne].
      * assert (p = pj) by congruence; subst p.
        exists k; split; [apply nth_error_set_nth_same; lia|].
        exists (upd loc_eqb si l v), (t ++ [Wr l v]), rest'. repeat split; auto.
        -- rewrite HT, <- app_assoc; reflexivity.
        -- rewrite proj_app, proj_same, Hp; reflexivity.
        -- intros l' Hl'. unfold Conc.upd. destruct (loc_eqb l' l); [reflexivity|]. apply Ha; exact Hl'.
        -- rewrite count_occ_snoc_same. rewrite HT in Hl |- *. rewrite !app_length in *. cbn [length] in *. lia.
      * destruct (Hth i p Hpi) as (q & Hq & Hti).
        exists q; split; [rewrite nth_error_set_nth_other; auto|].
        rewrite (count_occ_snoc_other pre i j); auto.
        apply (tinv_other s0 i j p q _ tr (shared c)); auto.
        intros l' Hl'. apply (Hupd i); auto.
Qed.

Lemma run_inv s0 ps : all_disciplined ps s0 ->
  forall sched pre tr c c' tr', inv s0 ps pre tr c -> run sched c = (c', tr') -> inv s0 ps (pre ++ sched) (tr ++ tr') c'.
Proof.
  intros Hdisc sched. induction sched as [|j r IH]; intros pre tr c c' tr' Hinv Hrun.
  - cbn in Hrun. inversion Hrun; subst. now rewrite !app_nil_r.
  - cbn [Conc.run] in Hrun.
    destruct (sched_step j c) as [c1 e1] eqn:H1. destruct (run r c1) as [c2 e2] eqn:H2.
    inversion Hrun; subst c' tr'; clear Hrun.
    pose proof (inv_step s0 ps pre tr c j c1 e1 Hdisc Hinv H1) as Hinv1.
    specialize (IH (pre ++ [j]) (tr ++ e1) c1 c2 e2 Hinv1 H2).
    rewrite <- !app_assoc in IH. exact IH.
Qed.

(* ---------------- the theorems ---------------- *)

Lemma allowed_no_conflict (e1 e2 : event) :
  allowed (fst e1) (snd e1) -> allowed (fst e2) (snd e2) -> ~ conflict e1 e2.
Proof.
  destruct e1 as [i1 a1], e2 as [i2 a2]; cbn [fst snd]. intros H1 H2 (Hne & Hloc & Hw). cbn [fst snd] in *.
  destruct a1 as [l1|l1 v1], a2 as [l2|l2 v2]; cbn in *; subst;
    (destruct Hw; try discriminate); try (destruct H1; congruence); try (destruct H2; congruence); congruence.
Qed.

(* No race, in any interleaving, for any number of threads. *)
Theorem readonly_sharing_race_free :
  forall (ps : list prog) (s0 : store) (sched : list nat),
    all_disciplined ps s0 ->
    ~ has_race (snd (run sched (Build_config ps s0))).
Proof.
  intros ps s0 sched Hdisc (i & j & e1 & e2 & Hij & H1 & H2 & Hc).
  destruct (run sched (Build_config ps s0)) as [c tr] eqn:Hrun. cbn [snd] in *.
  pose proof (run_inv s0 ps Hdisc sched [] [] _ _ _ (inv_init s0 ps) Hrun) as (_ & _ & Hall & _).
  cbn [app] in Hall. rewrite Forall_forall in Hall.
  apply (allowed_no_conflict e1 e2); auto; apply Hall; eapply nth_error_In; eauto.
Qed.

(* Every thread computes what it computes alone. *)
Theorem readonly_sharing_sequential :
  forall (ps : list prog) (s0 : store) (sched : list nat) c tr,
    all_disciplined ps s0 ->
    run sched (Build_config ps s0) = (c, tr) ->
    (* the shared part of the store is the initial one *)
    (forall l, owner l = None -> shared c l = s0 l)
    /\ length (threads c) = length ps
    /\ forall i p, nth_error ps i = Some p ->
         (* what thread i has done so far is a prefix of its solo trace: as many accesses as it had turns *)
         proj i tr = firstn (count_occ Nat.eq_dec sched i) (solo_trace p s0)
         (* a finished thread returns its solo result and leaves its private locations as its solo run does *)
         /\ (forall r, nth_error (threads c) i = Some (Done r) ->
               r = solo_result p s0 /\ forall l, owner l = Some i -> shared c l = solo_store p s0 l)
         (* and it does finish once it has had as many turns as its solo run has accesses *)
         /\ (length (solo_trace p s0) <= count_occ Nat.eq_dec sched i ->
               nth_error (threads c) i = Some (Done (solo_result p s0))).
Proof.
  intros ps s0 sched c tr Hdisc Hrun.
  pose proof (run_inv s0 ps Hdisc sched [] [] _ _ _ (inv_init s0 ps) Hrun) as (Hlen & Hsh & _ & Hth).
  cbn [app] in *. split; [exact Hsh|]. split; [exact Hlen|].
  intros i p Hpi.
  destruct (Hth i p Hpi) as (q & Hq & (si & t & rest & HT & He & Hp & Ha & Hl)).
  split; [|split].
  - rewrite Hp. rewrite HT in Hl |- *.
    destruct (Nat.le_gt_cases (length (t ++ rest)) (count_occ Nat.eq_dec sched i)) as [Hle|Hgt].
    + rewrite firstn_all2 by exact Hle. rewrite app_length in *.
      assert (Hr0 : length rest = 0) by lia. destruct rest; [now rewrite app_nil_r|discriminate].
    + rewrite app_length in *.
      assert (Hlt : length t = count_occ Nat.eq_dec sched i) by lia.
      rewrite <- Hlt. symmetry; apply firstn_app_exact.
  - intros r Hr. rewrite Hq in Hr. inversion Hr; subst q. cbn in He. injection He as E1 E2 E3.
    split; [exact E1|].
    intros l Hl'. rewrite <- E2. apply Ha. now right.
  - intros Hcnt. rewrite HT in Hl, Hcnt. rewrite app_length in *.
    assert (Hr0 : length rest = 0) by lia. destruct rest; [|discriminate].
    apply exec_nil in He. destruct He as [-> _]. exact Hq.
Qed.

End ConcProofs.

(* ---------------- everything shared: write-free threads ---------------- *)

Section AllShared.
Variables loc val res : Type.
Variable loc_eqb : loc -> loc -> bool.
Hypothesis loc_eqb_spec : forall a b, loc_eqb a b = true <-> a = b.

Definition no_owner : loc -> option nat := fun _ => None.

Lemma write_free_disciplined i (p : prog loc val res) s :
  write_free loc_eqb p s -> disciplined loc_eqb no_owner i p s.
Proof.
  unfold write_free, disciplined. intros H. eapply Forall_impl; [|exact H].
  intros [l|l v]; cbn; intros Hw; [now left | discriminate].
Qed.

Theorem write_free_race_free :
  forall (ps : list (prog loc val res)) (s0 : store loc val) (sched : list nat),
    (forall p, In p ps -> write_free loc_eqb p s0) ->
    ~ has_race (snd (run loc_eqb sched (Build_config ps s0))).
Proof.
  intros ps s0 sched H. apply (readonly_sharing_race_free loc val res loc_eqb loc_eqb_spec no_owner).
  intros i p Hp. apply write_free_disciplined. apply H. eapply nth_error_In; eauto.
Qed.

Theorem write_free_sequential :
  forall (ps : list (prog loc val res)) (s0 : store loc val) (sched : list nat) c tr,
    (forall p, In p ps -> write_free loc_eqb p s0) ->
    run loc_eqb sched (Build_config ps s0) = (c, tr) ->
    (forall l, shared c l = s0 l)
    /\ length (threads c) = length ps
    /\ forall i p, nth_error ps i = Some p ->
         proj i tr = firstn (count_occ Nat.eq_dec sched i) (solo_trace loc_eqb p s0)
         /\ (forall r, nth_error (threads c) i = Some (Done r) -> r = solo_result loc_eqb p s0)
         /\ (length (solo_trace loc_eqb p s0) <= count_occ Nat.eq_dec sched i ->
               nth_error (threads c) i = Some (Done (solo_result loc_eqb p s0))).
Proof.
  intros ps s0 sched c tr H Hrun.
  assert (Hd : all_disciplined loc_eqb no_owner ps s0).
  { intros i p Hp. apply write_free_disciplined. apply H. eapply nth_error_In; eauto. }
  destruct (readonly_sharing_sequential loc val res loc_eqb loc_eqb_spec no_owner ps s0 sched c tr Hd Hrun) as (Hsh & Hlen & Hth).
  repeat split; auto.
  - destruct (Hth i p H0) as (Hp & _ & _). exact Hp.
  - destruct (Hth i p H0) as (_ & Hr & _). apply Hr; assumption.
  - destruct (Hth i p H0) as (_ & _ & Hc). exact Hc.
Qed.

End AllShared.
