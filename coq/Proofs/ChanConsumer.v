(* The parser model as a consumer PROGRAM of the channel protocol (Model/Chan.v).

   Generic part.  Let [f : list A -> option (nat * bool * R)] be a functional model of a receiver: on the list of
   items it gives (receives made, whether it drains before returning, result), or None when it does not return.
   Assume f is LOCAL: a run that made n receives looks at the first n items only -- on a longer list it is the same
   run ([Hloc], [Hloc']) -- and a receive past the end of the list is a receive of a zero item ([Hpad], [Hpad']).
   Then [ro_prog], a [cons] program built from f ALONE (it never sees the item list: it receives the items one
   by one and asks f about the prefix received so far), fed with the items [ts], returns what f gives on [ts]
   ([ro_prog_feeds]); so by Proofs/ChanProofs.v it returns that under every schedule ([ro_chan_consumer]).

   Instance.  The command-level parser (explicit budget F) has these four properties by Proofs/RecvOnlyCmd.v
   ([ro_parse_depends_on_received], [ro_parse_zero_padding]); [ro_chan_parse_file]: under every schedule the parse,
   if it returns, returns the tree or error of the functional model, whatever the producer's interleaving. *)
From Coq Require Import List Arith Bool Lia.
Import ListNotations.
From Soy Require Import Model.Chan Proofs.ChanProofs.

Section Consumer.
Variables A R : Type.
Variable zero : A.
Variable dflt : R.                                       (* returned when the step budget runs out *)
Variable f : list A -> option (nat * bool * R).
Notation feeds := (@feeds A R zero).

Hypothesis Hloc : forall ts e n d r, f ts = Some (n, d, r) -> n <= length ts -> f (ts ++ e) = Some (n, d, r).
Hypothesis Hloc' : forall ts e n d r, f (ts ++ e) = Some (n, d, r) -> n <= length ts -> f ts = Some (n, d, r).
Hypothesis Hpad : forall ts j n d r, f ts = Some (n, d, r) -> n <= length ts + j -> f (ts ++ repeat zero j) = Some (n, d, r).
Hypothesis Hpad' : forall ts j n d r, f (ts ++ repeat zero j) = Some (n, d, r) -> n <= length ts + j -> f ts = Some (n, d, r).

(* the consumer: [pre] = the items received so far; it returns as soon as f's run on [pre] stays within [pre] *)
Fixpoint ro_prog (k : nat) (pre : list A) : cons A R :=
  match k with
  | O => CRet dflt
  | S k' =>
      match f pre with
      | Some (n, d, r) =>
          if n <=? length pre then (if d then CDrain (CRet r) else CRet r)
          else CRecv (fun a => ro_prog k' (pre ++ [a]))
      | None => CRecv (fun a => ro_prog k' (pre ++ [a]))
      end
  end.

Lemma ro_prog_done k pre rest n d r : f pre = Some (n, d, r) -> n <= length pre -> feeds (ro_prog (S k) pre) rest r.
Proof.
  intros Hf Hn. cbn [ro_prog]. rewrite Hf. apply Nat.leb_le in Hn. rewrite Hn.
  destruct d; [apply F_drain|]; apply F_ret.
Qed.
Lemma ro_prog_more k pre : (forall n d r, f pre = Some (n, d, r) -> length pre < n) ->
  ro_prog (S k) pre = CRecv (fun a => ro_prog k (pre ++ [a])).
Proof.
  intros H. cbn [ro_prog]. destruct (f pre) as [[[n d] r]|]; [|reflexivity].
  specialize (H n d r eq_refl). apply Nat.leb_gt in H. rewrite H. reflexivity.
Qed.
Lemma ro_prog_cases pre :
  (exists n d r, f pre = Some (n, d, r) /\ n <= length pre) \/ (forall n d r, f pre = Some (n, d, r) -> length pre < n).
Proof.
  destruct (f pre) as [[[n d] r]|]; [|right; intros; discriminate].
  destruct (le_lt_dec n (length pre)) as [H|H]; [left; exists n, d, r; auto|right].
  intros n' d' r' E. injection E as <- <- <-. exact H.
Qed.

Section Run.
Variable ts : list A.
Variables (n : nat) (d : bool) (r : R).
Hypothesis Hf : f ts = Some (n, d, r).

(* the list is exhausted: the channel is closed and every further receive yields the zero item *)
Lemma ro_prog_closed : forall k i, n <= k + (length ts + i) -> feeds (ro_prog (S k) (ts ++ repeat zero i)) [] r.
Proof.
  induction k as [|k IH]; intros i Hk.
  - apply ro_prog_done with (n := n) (d := d); [apply Hpad; [exact Hf|lia]|rewrite app_length, repeat_length; lia].
  - destruct (ro_prog_cases (ts ++ repeat zero i)) as [(n' & d' & r' & E & Hn)|Hmore].
    + rewrite app_length, repeat_length in Hn. pose proof (Hpad' _ _ _ _ _ E Hn) as E'. rewrite Hf in E'.
      injection E' as <- <- <-. apply ro_prog_done with (n := n) (d := d); [exact E|rewrite app_length, repeat_length; exact Hn].
    + rewrite (ro_prog_more _ _ Hmore). apply F_recv_closed. rewrite <- app_assoc.
      change (repeat zero i ++ [zero]) with (repeat zero i ++ repeat zero 1). rewrite <- repeat_app.
      replace (i + 1) with (S i) by lia. apply IH. lia.
Qed.

(* [pre] received, [rest] still to come *)
Lemma ro_prog_open : forall k pre rest, pre ++ rest = ts -> n <= k + length pre -> feeds (ro_prog (S k) pre) rest r.
Proof.
  induction k as [|k IH]; intros pre rest Hts Hk.
  - apply ro_prog_done with (n := n) (d := d); [|lia]. apply Hloc' with (e := rest); [rewrite Hts; exact Hf|lia].
  - destruct rest as [|a rest].
    + rewrite app_nil_r in Hts. subst pre. pose proof (ro_prog_closed (S k) 0) as H. cbn [repeat] in H.
      rewrite app_nil_r in H. apply H. lia.
    + destruct (ro_prog_cases pre) as [(n' & d' & r' & E & Hn)|Hmore].
      * pose proof (Hloc _ (a :: rest) _ _ _ E Hn) as E'. rewrite Hts, Hf in E'. injection E' as <- <- <-.
        apply ro_prog_done with (n := n) (d := d); assumption.
      * rewrite (ro_prog_more _ _ Hmore). apply F_recv. apply IH; [rewrite <- app_assoc; exact Hts|rewrite app_length; cbn [length]; lia].
Qed.

(* fed with the items [ts] (then zero items for ever), the program returns f's result on [ts] *)
Theorem ro_prog_feeds k : n <= k -> feeds (ro_prog (S k) []) ts r.
Proof. intros Hk. apply ro_prog_open; [reflexivity|cbn [length]; lia]. Qed.
End Run.

(* under EVERY schedule: if the consumer returns at all, it returns f's result on the items the producer sends *)
Theorem ro_chan_consumer (p : prod A) sched k n d r r0 :
  f (items p) = Some (n, d, r) -> n <= k ->
  g_cons (run zero sched (cfg_init p (ro_prog (S k) []))) = CRet r0 -> r0 = r.
Proof.
  intros Hf Hk Hret. apply chan_result_of_items in Hret.
  eapply feeds_fun; [exact Hret|]. eapply ro_prog_feeds; eassumption.
Qed.
End Consumer.

(* ---------- the instance: parse.SoyFile's parser ---------- *)
From Soy Require Import Model.Bytes Model.Ast Model.Token Model.ExprParser Model.Parser Proofs.RecvOnlyTok Proofs.RecvOnlyExpr Proofs.RecvOnlyCmd.

(* the result without the items left over *)
Definition ro_pclear (p : pst) : pst :=
  {| p_rest := []; p_tok0 := p_tok0 p; p_tok1 := p_tok1 p; p_peek := p_peek p; p_recv := p_recv p |}.
Definition ro_cclear (s : cst) : cst := set_p s (ro_pclear (c_p s)).

(* what parse_file makes of the run: (receives made, drained, result); a successful parse does not drain, an error
   panic is recovered and drains; a run-time panic or an exhausted budget is not a return *)
Definition ro_obs (x : cres node) : option (nat * bool * cres node) :=
  match x with
  | COk a s => Some (p_recv (c_p s), false, COk a (ro_cclear s))
  | CErr t c s => Some (p_recv (c_p s), true, CErr t c (ro_cclear s))
  | _ => None
  end.
Lemma ro_obs_crext e x : ro_obs (ro_crext e x) = ro_obs x.
Proof. destruct x; reflexivity. Qed.
Lemma ro_obs_recv x n d r : ro_obs x = Some (n, d, r) -> match ro_cfin x with Some q => p_recv q = n | None => False end.
Proof. destruct x; cbn; intros E; try discriminate E; injection E as <- _ _; reflexivity. Qed.

Section File.
Variable inlen : N.
Variable lexq : bstr -> list tok.
Variable unq : bstr -> option bstr.
Variable F : nat.                                   (* explicit budget *)

Definition ro_file_obs (ts : list tok) : option (nat * bool * cres node) :=
  ro_obs (item_list inlen lexq unq parse_expr expr_fuel F u_eof (cst_init ts)).

Lemma ro_file_loc ts e n d r : ro_file_obs ts = Some (n, d, r) -> (n <= length ts)%nat -> ro_file_obs (ts ++ e) = Some (n, d, r).
Proof.
  intros E Hn. unfold ro_file_obs in *. pose proof (ro_obs_recv _ _ _ _ E) as Hr.
  destruct (ro_parse_depends_on_received inlen lexq unq F ts e) as (H & _). rewrite (H _ eq_refl), ro_obs_crext; [exact E|].
  destruct (ro_cfin _); [lia|exact Hr].
Qed.
Lemma ro_file_loc' ts e n d r : ro_file_obs (ts ++ e) = Some (n, d, r) -> (n <= length ts)%nat -> ro_file_obs ts = Some (n, d, r).
Proof.
  intros E Hn. unfold ro_file_obs in *. pose proof (ro_obs_recv _ _ _ _ E) as Hr.
  destruct (ro_parse_depends_on_received inlen lexq unq F ts e) as (_ & H). rewrite (H _ eq_refl), ro_obs_crext in E; [exact E|].
  destruct (ro_cfin _); [lia|exact Hr].
Qed.
Lemma ro_file_pad ts j n d r : ro_file_obs ts = Some (n, d, r) -> (n <= length ts + j)%nat ->
  ro_file_obs (ts ++ repeat zero_tok j) = Some (n, d, r).
Proof.
  intros E Hn. unfold ro_file_obs in *. pose proof (ro_obs_recv _ _ _ _ E) as Hr.
  destruct (ro_parse_zero_padding inlen lexq unq F ts j) as (H & _). destruct (H _ eq_refl) as (j' & E').
  - destruct (ro_cfin _); [lia|exact Hr].
  - unfold ro_zeros in E'. rewrite E', ro_obs_crext. exact E.
Qed.
Lemma ro_file_pad' ts j n d r : ro_file_obs (ts ++ repeat zero_tok j) = Some (n, d, r) -> (n <= length ts + j)%nat ->
  ro_file_obs ts = Some (n, d, r).
Proof.
  intros E Hn. unfold ro_file_obs in *. pose proof (ro_obs_recv _ _ _ _ E) as Hr.
  destruct (ro_parse_zero_padding inlen lexq unq F ts j) as (_ & H). destruct (H _ eq_refl) as (j' & E').
  - destruct (ro_cfin _); [lia|exact Hr].
  - unfold ro_zeros in E'. rewrite E', ro_obs_crext in E. exact E.
Qed.

(* the parser as a consumer program: built from the functional model alone *)
Definition ro_parser_prog (k : nat) : Chan.cons tok (cres node) := ro_prog tok (cres node) CFuel ro_file_obs (S k) [].

(* fed with the items, it returns what the functional model computes ... *)
Theorem ro_parser_prog_feeds ts k n d r :
  ro_file_obs ts = Some (n, d, r) -> (n <= k)%nat -> feeds zero_tok (ro_parser_prog k) ts r.
Proof.
  intros E Hk. unfold ro_parser_prog.
  apply (ro_prog_feeds tok (cres node) zero_tok CFuel ro_file_obs ro_file_loc ro_file_loc' ro_file_pad ro_file_pad' ts n d r E k Hk).
Qed.

(* ... and so, under every schedule of scanner goroutine and parser, the parse -- if it returns -- returns the tree
   (or error) and the token state of the functional model on the items the scanner sends *)
Theorem ro_chan_parse_file (p : Chan.prod tok) sched k n d r r0 :
  ro_file_obs (items p) = Some (n, d, r) -> (n <= k)%nat ->
  g_cons (run zero_tok sched (cfg_init p (ro_parser_prog k))) = CRet r0 -> r0 = r.
Proof.
  intros E Hk Hret. unfold ro_parser_prog in Hret.
  exact (ro_chan_consumer tok (cres node) zero_tok CFuel ro_file_obs ro_file_loc ro_file_loc' ro_file_pad ro_file_pad' p sched k n d r r0 E Hk Hret).
Qed.
End File.

(* [ro_file_obs] is what parse_file (Model/Parser.v) reports: the entry point's own scanner record and the result *)
Lemma ro_file_obs_parse_file inlen lexq unq F ts n d r :
  ro_file_obs inlen lexq unq F ts = Some (n, d, r) ->
  hd_error (po_scans (parse_file inlen lexq unq parse_expr expr_fuel F ts)) = Some (own_scan (length ts) n d) /\
  match po_result (parse_file inlen lexq unq parse_expr expr_fuel F ts), r with
  | POk a q, COk a' s => a = a' /\ ro_pclear q = c_p s
  | PErr t c q, CErr t' c' s => t = t' /\ c = c' /\ ro_pclear q = c_p s
  | _, _ => False
  end.
Proof.
  unfold ro_file_obs, parse_file. destruct (item_list _ _ _ _ _ F u_eof (cst_init ts)) as [a s|t c s|m|]; cbn [ro_obs];
    intros E; try discriminate E; injection E as <- <- <-; cbn; auto.
Qed.

(* ---------- the instance: parse.Expr ---------- *)
Section ExprEntry.
Variable inlen : N.
Variable drain_on_ok : bool.
Variable F : nat.

(* as parse_expr_entry (Model/Parser.v) reports it; an error positioned beyond the text is a run-time panic *)
Definition ro_pobs (x : presult node) : option (nat * bool * presult node) :=
  match x with
  | POk a p => Some (p_recv p, drain_on_ok, POk a (ro_pclear p))
  | PErr t c p => if (t_pos t <=? inlen)%N then Some (p_recv p, true, PErr t c (ro_pclear p)) else None
  | _ => None
  end.
Lemma ro_pobs_rext e x : ro_pobs (ro_rext e x) = ro_pobs x.
Proof. destruct x; reflexivity. Qed.
Lemma ro_pobs_recv x n d r : ro_pobs x = Some (n, d, r) -> match ro_fin x with Some q => p_recv q = n | None => False end.
Proof.
  destruct x as [a p|t c p|m|]; cbn; intros E; try discriminate E; [|destruct (t_pos t <=? inlen)%N; try discriminate E];
    injection E as <- _ _; reflexivity.
Qed.
Definition ro_expr_obs (ts : list tok) : option (nat * bool * presult node) := ro_pobs (parse_expr F 0 (pst_init ts)).

Lemma ro_expr_loc ts e n d r : ro_expr_obs ts = Some (n, d, r) -> (n <= length ts)%nat -> ro_expr_obs (ts ++ e) = Some (n, d, r).
Proof.
  intros E Hn. unfold ro_expr_obs in *. pose proof (ro_pobs_recv _ _ _ _ E) as Hr.
  destruct (ro_parse_expr_depends_on_received F ts e) as (H & _). rewrite (H _ eq_refl), ro_pobs_rext; [exact E|].
  destruct (ro_fin _); [lia|exact Hr].
Qed.
Lemma ro_expr_loc' ts e n d r : ro_expr_obs (ts ++ e) = Some (n, d, r) -> (n <= length ts)%nat -> ro_expr_obs ts = Some (n, d, r).
Proof.
  intros E Hn. unfold ro_expr_obs in *. pose proof (ro_pobs_recv _ _ _ _ E) as Hr.
  destruct (ro_parse_expr_depends_on_received F ts e) as (_ & H). rewrite (H _ eq_refl), ro_pobs_rext in E; [exact E|].
  destruct (ro_fin _); [lia|exact Hr].
Qed.
Lemma ro_expr_pad ts j n d r : ro_expr_obs ts = Some (n, d, r) -> (n <= length ts + j)%nat ->
  ro_expr_obs (ts ++ repeat zero_tok j) = Some (n, d, r).
Proof.
  intros E Hn. unfold ro_expr_obs in *. pose proof (ro_pobs_recv _ _ _ _ E) as Hr.
  destruct (ro_parse_expr_zero_padding F ts j) as (H & _). destruct (H _ eq_refl) as (j' & E').
  - destruct (ro_fin _); [lia|exact Hr].
  - unfold ro_zeros in E'. rewrite E', ro_pobs_rext. exact E.
Qed.
Lemma ro_expr_pad' ts j n d r : ro_expr_obs (ts ++ repeat zero_tok j) = Some (n, d, r) -> (n <= length ts + j)%nat ->
  ro_expr_obs ts = Some (n, d, r).
Proof.
  intros E Hn. unfold ro_expr_obs in *. pose proof (ro_pobs_recv _ _ _ _ E) as Hr.
  destruct (ro_parse_expr_zero_padding F ts j) as (_ & H). destruct (H _ eq_refl) as (j' & E').
  - destruct (ro_fin _); [lia|exact Hr].
  - unfold ro_zeros in E'. rewrite E', ro_pobs_rext in E. exact E.
Qed.

Definition ro_expr_prog (k : nat) : Chan.cons tok (presult node) := ro_prog tok (presult node) PFuel ro_expr_obs (S k) [].

Theorem ro_chan_parse_expr (p : Chan.prod tok) sched k n d r r0 :
  ro_expr_obs (items p) = Some (n, d, r) -> (n <= k)%nat ->
  g_cons (run zero_tok sched (cfg_init p (ro_expr_prog k))) = CRet r0 -> r0 = r.
Proof.
  intros E Hk Hret. unfold ro_expr_prog in Hret.
  exact (ro_chan_consumer tok (presult node) zero_tok PFuel ro_expr_obs ro_expr_loc ro_expr_loc' ro_expr_pad ro_expr_pad' p sched k n d r r0 E Hk Hret).
Qed.
End ExprEntry.

Print Assumptions ro_prog_feeds.
Print Assumptions ro_chan_consumer.
Print Assumptions ro_chan_parse_file.
Print Assumptions ro_file_obs_parse_file.
Print Assumptions ro_chan_parse_expr.
