(* C12 with C06's premise: when every node position of the registry lies inside the recorded source
   ([reg_pos_ok], what compilation guarantees and what C06 uses to exclude the panic of
   Registry.LineNumber inside errRecover), a refused write surfaces as exactly the write error. *)
From Soy Require Import Model.Bytes Model.Num Model.Values Model.Outcome Model.Ast Model.Interp
  Spec.Writer Spec.Safety Proofs.WriterProofs Proofs.SafetyProofs.
Open Scope N_scope.

Lemma write_fault_is_error_l cf fuel name id data fid cl bl :
  reg_pos_ok (c_reg cf) = true ->
  refuses cl bl (rr_writes (render cf fuel name id data None None fid)) ->
  rr_outcome (render cf fuel name id data cl bl fid) = Err e_write.
Proof.
  intros Hreg Hr.
  destruct (write_fault_surfaces_l cf fuel name id data fid cl bl Hr) as [H | H]; [exact H|].
  pose proof (render_no_escape_pos cf fuel name id data cl bl fid Hreg) as Hn.
  rewrite H in Hn. destruct Hn.
Qed.
