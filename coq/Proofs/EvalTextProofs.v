(* C01, text level of the syntax half: the string the printer model writes for the tree of a Spec expression,
   put through the scanner model and the parser model, gives that tree back up to node positions; the tree
   of a Spec expression has all positions 0, so erasing the positions of the parser's result gives it exactly.
   Composed with the evaluation half (eval_impl_spec, on to_node G e). *)
From Coq Require Import Lia ZifyN ZifyBool ZifyNat.
From Soy Require Import Model.Bytes Model.Num Model.Values Model.Outcome Model.Ast Model.AstPrint Model.Interp
  Model.Token Model.NumLit Model.Quote Model.ExprParser Model.Parser Model.Lexer Model.ExprTrans Spec.Expr Spec.ExprSyntax Generated.Tables
  Proofs.EvalProofs Proofs.EvalMainProofs Proofs.ExprParserRules Proofs.ExprParserProofs Proofs.EvalSyntaxProofs
  Proofs.LexPrintMain Proofs.LexParseText Proofs.InterpGuard Proofs.InterpPos.
Open Scope N_scope.

(* the tree of a Spec expression carries no positions *)
Theorem strip_to_node G : forall n e, (height e <= n)%nat -> strip_pos (to_node G e) = to_node G e.
Proof.
  induction n as [|n IH]; intros e Hh.
  - pose proof (height_pos e). lia.
  - destruct e as [ | x | z | x | s | es | kvs | name | key accs | accs | fn args | a | a | op a c | a c | c a d];
      cbn [to_node strip_pos]; cbn [height] in Hh; try reflexivity.
    + f_equal. rewrite map_map. apply map_ext_in. intros x Hx. apply IH. exact (max_list_in_g height es x n Hh Hx).
    + f_equal. rewrite map_map. apply map_ext_in. intros kv Hkv. cbn [fst snd]. f_equal.
      apply IH. exact (max_list_in_g (fun kv => height (snd kv)) kvs kv n Hh Hkv).
    + f_equal. rewrite map_map. apply map_ext_in. intros a Ha.
      destruct a as [ns k | ns i | ns e]; cbn [acc_node strip_pos]; try reflexivity.
      f_equal. apply IH. exact (max_list_in_g acc_height accs (AExpr ns e) n Hh Ha).
    + f_equal. rewrite map_map. apply map_ext_in. intros a Ha.
      destruct a as [ns k | ns i | ns e]; cbn [acc_node strip_pos]; try reflexivity.
      f_equal. apply IH. exact (max_list_in_g acc_height accs (AExpr ns e) n Hh Ha).
    + f_equal. rewrite map_map. apply map_ext_in. intros x Hx. apply IH. exact (max_list_in_g height args x n Hh Hx).
    + f_equal. apply IH. lia.
    + f_equal. apply IH. lia.
    + f_equal; apply IH; lia.
    + f_equal; apply IH; lia.
    + f_equal; apply IH; lia.
Qed.


(* SetNodeGlobals does not look at positions *)
Lemma set_globals_strip G : forall n, strip_pos (set_globals G n) = set_globals G (strip_pos n).
Proof.
  induction n as [n IH] using size_induction.
  destruct n; try reflexivity; cbn [set_globals strip_pos].
  - f_equal. rewrite !map_map. apply map_ext_in. intros c Hc. apply IH. cbn [size]. pose proof (size_in_list c args Hc). lia.
  - f_equal. rewrite !map_map. apply map_ext_in. intros c Hc. apply IH. cbn [size]. pose proof (size_in_list c items Hc). lia.
  - f_equal. rewrite !map_map. apply map_ext_in. intros kv Hkv. cbn [fst snd]. f_equal. apply IH.
    cbn [size]. pose proof (list_sum_In (fun kv => size (snd kv)) kv _ Hkv). lia.
  - f_equal. rewrite !map_map. apply map_ext_in. intros c Hc. apply IH. cbn [size]. pose proof (size_in_list c access Hc). lia.
  - f_equal. apply IH. cbn [size]. lia.
  - f_equal. apply IH. cbn [size]. lia.
  - f_equal. apply IH. cbn [size]. lia.
  - f_equal; apply IH; cbn [size]; lia.
  - f_equal; apply IH; cbn [size]; lia.
Qed.

(* string -> items (scanner model) -> tree (parser model) -> compiled tree -> value.
   [txt] is what ast/node.go's String() writes for the expression (minimal parentheses); the scanner is the
   model of lexExpr with the unicode tables of the toolchain; the parser runs under parse.Expr's own budget. *)
Theorem text_string_to_value G ij cf e txt fuel st :
  syntax_ok e -> lex_ok (to_node [] e) -> print_node (to_node [] e) = Some txt ->
  ExprTrans.wf_expr G e = true -> c_ij cf = ij -> (height e <= fuel)%nat ->
  (exists e' st', parse_expr_string is_letter_tbl is_digit_tbl txt = Ok (POk e' st') /\ strip_pos e' = to_node [] e /\
                  strip_pos (set_globals G e') = to_node G e) /\
  (forall v n', eval_spec G (flatten (ctx st)) ij e (next_id st) = Ok (v, n') ->
     exists st2, walk cf fuel (set_globals G (to_node [] e)) st = (Ok v, st2) /\ frame_eq st st2 /\ next_id st2 = n') /\
  (forall m, eval_spec G (flatten (ctx st)) ij e (next_id st) = Err m ->
     exists msg st2, walk cf fuel (set_globals G (to_node [] e)) st = (Err msg, st2) /\ frame_eq st st2).
Proof.
  intros Hok Hlo Hp Hwf Hij Hh. split.
  - destruct (text_roundtrip_tbl (to_node [] e) txt (src_wf (height e) e (le_n _) Hok) Hlo Hp) as (e' & st' & Hr & He).
    assert (He' : strip_pos e' = to_node [] e) by (rewrite He; apply (strip_to_node [] (height e) e (le_n _))).
    exists e', st'. split; [exact Hr|]. split; [exact He'|].
    rewrite set_globals_strip, He'. apply (set_globals_to_node G (height e) e (le_n _)).
  - rewrite (set_globals_to_node G (height e) e (le_n _)).
    exact (eval_impl_spec G ij cf fuel e st Hij Hwf Hh).
Qed.

(* the tree of a Spec expression consists of expression nodes only *)
Lemma forallb_map_in {A B} (f : B -> bool) (g : A -> B) l : (forall x, In x l -> f (g x) = true) -> forallb f (map g l) = true.
Proof. induction l as [|x r IH]; intros H; [reflexivity|]. cbn [map forallb]. rewrite H by (left; reflexivity). apply IH. intros y Hy. apply H. right. exact Hy. Qed.

Theorem expr_tree_to_node G : forall n e, (height e <= n)%nat -> expr_tree (to_node G e) = true.
Proof.
  unfold expr_tree. induction n as [|n IH]; intros e Hh.
  - pose proof (height_pos e). lia.
  - destruct e as [ | x | z | x | s | es | kvs | name | key accs | accs | fn args | a | a | op a c | a c | c a d];
      cbn [to_node deep is_expr andb]; cbn [height] in Hh; try reflexivity.
    + apply forallb_map_in. intros x Hx. apply IH. exact (max_list_in_g height es x n Hh Hx).
    + rewrite forallb_map_in; [reflexivity|]. intros kv Hkv. cbn [snd]. apply IH.
      exact (max_list_in_g (fun kv => height (snd kv)) kvs kv n Hh Hkv).
    + apply forallb_map_in. intros a Ha. destruct a as [ns k | ns i | ns e]; cbn [acc_node deep is_expr andb]; try reflexivity.
      apply IH. exact (max_list_in_g acc_height accs (AExpr ns e) n Hh Ha).
    + apply forallb_map_in. intros a Ha. destruct a as [ns k | ns i | ns e]; cbn [acc_node deep is_expr andb]; try reflexivity.
      apply IH. exact (max_list_in_g acc_height accs (AExpr ns e) n Hh Ha).
    + apply forallb_map_in. intros x Hx. apply IH. exact (max_list_in_g height args x n Hh Hx).
    + apply IH. lia.
    + apply IH. lia.
    + rewrite !IH by lia. reflexivity.
    + rewrite !IH by lia. reflexivity.
    + rewrite !IH by lia. reflexivity.
Qed.

(* string -> items -> the parser's OWN tree (positions and all) -> SetNodeGlobals -> the walker: the Spec's value.
   The walker half of text_string_to_value, transported along walk_strip (Proofs/InterpPos.v): expression nodes use
   their position for s.node only. *)
Theorem text_string_to_value_full G ij cf e txt fuel st :
  syntax_ok e -> lex_ok (to_node [] e) -> print_node (to_node [] e) = Some txt ->
  ExprTrans.wf_expr G e = true -> c_ij cf = ij -> (height e <= fuel)%nat ->
  exists e' st', parse_expr_string is_letter_tbl is_digit_tbl txt = Ok (POk e' st') /\ strip_pos e' = to_node [] e /\
    (forall v n', eval_spec G (flatten (ctx st)) ij e (next_id st) = Ok (v, n') ->
       exists st2, walk cf fuel (set_globals G e') st = (Ok v, st2) /\ frame_eq st st2 /\ next_id st2 = n') /\
    (forall m, eval_spec G (flatten (ctx st)) ij e (next_id st) = Err m ->
       exists msg st2, walk cf fuel (set_globals G e') st = (Err msg, st2) /\ frame_eq st st2).
Proof.
  intros Hok Hlo Hp Hwf Hij Hh.
  destruct (text_string_to_value G ij cf e txt fuel st Hok Hlo Hp Hwf Hij Hh) as ((e' & st' & Hr & He1 & He2) & Hv & Hm).
  exists e', st'. split; [exact Hr|]. split; [exact He1|].
  assert (Hx : expr_tree (set_globals G e') = true).
  { rewrite <- expr_tree_strip, He2. apply (expr_tree_to_node G (height e) e (le_n _)). }
  destruct (walk_strip_run cf fuel (set_globals G e') st Hx) as [Ef Ec]. rewrite He2 in Ef, Ec.
  rewrite (set_globals_to_node G (height e) e (le_n _)) in Hv, Hm.
  assert (Hfr : forall s2, eqc (snd (walk cf fuel (set_globals G e') st)) s2 -> frame_eq st s2 ->
                frame_eq st (snd (walk cf fuel (set_globals G e') st)) /\ next_id (snd (walk cf fuel (set_globals G e') st)) = next_id s2).
  { intros s2 (A1 & A2 & A3 & A4 & A5 & A6 & A7 & A8 & A9 & A10 & A11) (B1 & B2 & B3 & B4 & B5 & B6 & B7 & B8 & B9).
    split; [|exact A9]. unfold frame_eq. repeat split; congruence. }
  split.
  - intros v n' E. destruct (Hv v n' E) as (s2 & Hw & Hf & Hn). rewrite Hw in Ef, Ec. cbn [fst snd] in Ef, Ec.
    destruct (Hfr s2 Ec Hf) as [F1 F2].
    exists (snd (walk cf fuel (set_globals G e') st)). split; [|split; [exact F1|congruence]].
    destruct (walk cf fuel (set_globals G e') st) as [r s]. cbn [fst snd] in *. rewrite Ef. reflexivity.
  - intros m E. destruct (Hm m E) as (msg & s2 & Hw & Hf). rewrite Hw in Ef, Ec. cbn [fst snd] in Ef, Ec.
    destruct (Hfr s2 Ec Hf) as [F1 _].
    exists msg, (snd (walk cf fuel (set_globals G e') st)). split; [|exact F1].
    destruct (walk cf fuel (set_globals G e') st) as [r s]. cbn [fst snd] in *. rewrite Ef. reflexivity.
Qed.
