(* C01, text level of the syntax half: the string the printer model writes for the tree of a Spec expression,
   put through the scanner model and the parser model, gives that tree back up to node positions; the tree
   of a Spec expression has all positions 0, so erasing the positions of the parser's result gives it exactly.
   Composed with the evaluation half (eval_impl_spec, on to_node G e). *)
From Coq Require Import Lia ZifyN ZifyBool ZifyNat.
From Soy Require Import Model.Bytes Model.Num Model.Values Model.Outcome Model.Ast Model.AstPrint Model.Interp
  Model.Token Model.NumLit Model.Quote Model.ExprParser Model.Parser Model.Lexer Model.ExprTrans Spec.Expr Spec.ExprSyntax Generated.Tables
  Proofs.EvalProofs Proofs.EvalMainProofs Proofs.ExprParserRules Proofs.ExprParserProofs Proofs.EvalSyntaxProofs
  Proofs.LexPrintMain Proofs.LexParseText.
Open Scope N_scope.

(* the tree of a Spec expression carries no positions *)
Theorem strip_to_node G : forall n e, (height e <= n)%nat -> strip_pos (to_node G e) = to_node G e.
Proof.
  induction n as [|n IH]; intros e Hh.
  - pose proof (height_pos e). lia.
  - destruct e as [ | x | z | x | s | es | kvs | name | key accs | accs | fn args | a | a | op a c | a c | c a d];
      cbn [to_node strip_pos]; cbn [height] in Hh; try reflexivity.
    + f_equal. rewrite map_map. apply map_ext_in. intros x Hx. apply IH. exact (max_list_in_g height es x n Hh Hx).
    + f_equal. rewrite map_map. apply map_ext_in. intros kv Hkv. cbn [fst snd]. f_equal.
      apply IH. exact (max_list_in_g (fun kv => height (snd kv)) kvs kv n Hh Hkv).
    + f_equal. rewrite map_map. apply map_ext_in. intros a Ha.
      destruct a as [ns k | ns i | ns e]; cbn [acc_node strip_pos]; try reflexivity.
      f_equal. apply IH. exact (max_list_in_g acc_height accs (AExpr ns e) n Hh Ha).
    + f_equal. rewrite map_map. apply map_ext_in. intros a Ha.
      destruct a as [ns k | ns i | ns e]; cbn [acc_node strip_pos]; try reflexivity.
      f_equal. apply IH. exact (max_list_in_g acc_height accs (AExpr ns e) n Hh Ha).
    + f_equal. rewrite map_map. apply map_ext_in. intros x Hx. apply IH. exact (max_list_in_g height args x n Hh Hx).
    + f_equal. apply IH. lia.
    + f_equal. apply IH. lia.
    + f_equal; apply IH; lia.
    + f_equal; apply IH; lia.
    + f_equal; apply IH; lia.
Qed.

(* string -> items (scanner model) -> tree (parser model) -> compiled tree -> value.
   [txt] is what ast/node.go's String() writes for the expression (minimal parentheses); the scanner is the
   model of lexExpr with the unicode tables of the toolchain; the parser runs under parse.Expr's own budget. *)
Theorem text_string_to_value G ij cf e txt fuel st :
  syntax_ok e -> lex_ok (to_node [] e) -> print_node (to_node [] e) = Some txt ->
  ExprTrans.wf_expr G e = true -> c_ij cf = ij -> (height e <= fuel)%nat ->
  (exists e' st', parse_expr_string is_letter_tbl is_digit_tbl txt = Ok (POk e' st') /\ strip_pos e' = to_node [] e) /\
  (forall v n', eval_spec G (flatten (ctx st)) ij e (next_id st) = Ok (v, n') ->
     exists st2, walk cf fuel (set_globals G (to_node [] e)) st = (Ok v, st2) /\ frame_eq st st2 /\ next_id st2 = n') /\
  (forall m, eval_spec G (flatten (ctx st)) ij e (next_id st) = Err m ->
     exists msg st2, walk cf fuel (set_globals G (to_node [] e)) st = (Err msg, st2) /\ frame_eq st st2).
Proof.
  intros Hok Hlo Hp Hwf Hij Hh. split.
  - destruct (text_roundtrip_tbl (to_node [] e) txt (src_wf (height e) e (le_n _) Hok) Hlo Hp) as (e' & st' & Hr & He).
    exists e', st'. split; [exact Hr|]. rewrite He. apply (strip_to_node [] (height e) e (le_n _)).
  - rewrite (set_globals_to_node G (height e) e (le_n _)).
    exact (eval_impl_spec G ij cf fuel e st Hij Hwf Hh).
Qed.
