(* C02: the two scoping sentences of the property as lemmas of the Spec
   (Spec/Cmd.v) alone -- no machine state is mentioned here. *)
From Soy Require Import Model.Bytes Model.Num Model.Values Model.Outcome Model.Ast
  Model.Escape Model.Interp Spec.Cmd.
Open Scope N_scope.

Definition is_let (n : node) : bool :=
  match n with NLetValue _ _ _ | NLetContent _ _ _ => true | _ => false end.

Section S.
Variable cf : cfg.

(* ---- "A let or loop variable is visible only inside the block that
        introduces it and shadows outer names only there." ---- *)

(* Whatever a command that is not itself a let binds inside (lets in nested
   blocks, loop variables, a callee's variables), the commands after it run in
   the environment [en] the command itself started in. *)
Theorem let_not_visible_after_block l entry md en c rest :
  is_let c = false ->
  block l entry md en (c :: rest) = (_ <~~ l_exec l entry en md c ;; block l entry md en rest).
Proof. destruct c; intros H; try discriminate H; reflexivity. Qed.

(* with fuel, for a block node: *)
Corollary let_not_visible_after_block_fuel f entry md en p c rest :
  is_let c = false ->
  exec_spec cf (S f) entry en md (NList p (c :: rest)) =
  (_ <~~ exec_spec cf f entry en md c ;; block (spec_level cf f) entry md en rest).
Proof. intros H. unfold exec_spec. cbn [spec_level next_level l_exec exec_body]. apply let_not_visible_after_block, H. Qed.

(* a let binds its name for the rest of ITS block: there it shadows, and only that name *)
Theorem let_scope_value l entry md en p x e rest :
  block l entry md en (NLetValue p x e :: rest) =
  (v <~~ l_let l entry en md (NLetValue p x e) ;; block l entry md ((x, v) :: en) rest).
Proof. reflexivity. Qed.
Theorem let_scope_content l entry md en p x b rest :
  block l entry md en (NLetContent p x b :: rest) =
  (v <~~ l_let l entry en md (NLetContent p x b) ;; block l entry md ((x, v) :: en) rest).
Proof. reflexivity. Qed.
Lemma bstr_eqb_refl' x : bstr_eqb x x = true.
Proof. induction x as [|a x IH]; cbn; [reflexivity|]. rewrite N.eqb_refl. exact IH. Qed.
Theorem shadow_lookup_same x v (en : env) : env_lookup x ((x, v) :: en) = v.
Proof. unfold env_lookup. cbn. rewrite bstr_eqb_refl'. reflexivity. Qed.
Theorem shadow_lookup_other x y v (en : env) : bstr_eqb y x = false -> env_lookup y ((x, v) :: en) = env_lookup y en.
Proof. intros H. unfold env_lookup. cbn. rewrite H. reflexivity. Qed.

Theorem shadow_lookup x y v (en : env) :
  env_lookup x ((x, v) :: en) = v /\ (bstr_eqb y x = false -> env_lookup y ((x, v) :: en) = env_lookup y en).
Proof. split; [apply shadow_lookup_same | apply shadow_lookup_other]. Qed.

(* a block node as a whole cannot change what its successors see, even when it consists of lets only *)
Theorem block_is_a_scope l entry md en p items rest :
  block l entry md en (NList p items :: rest) =
  (_ <~~ l_exec l entry en md (NList p items) ;; block l entry md en rest).
Proof. reflexivity. Qed.

(* the loop variable and its helpers exist in the body only: each iteration
   starts from the loop's own environment [en], and so does whatever follows the loop *)
Theorem loop_var_scope l entry md en var body last i x r :
  for_spec l entry md en var body last i (x :: r) =
  (_ <~~ l_exec l entry ((var ++ s_index, VInt i) :: (var, x) :: (var ++ s_lastindex, VInt last) :: en) md body ;;
   for_spec l entry md en var body last (i + 1)%Z r).
Proof. reflexivity. Qed.
Theorem loop_var_not_visible_after l entry md en p var lst body ie rest :
  block l entry md en (NFor p var lst body ie :: rest) =
  (_ <~~ l_exec l entry en md (NFor p var lst body ie) ;; block l entry md en rest).
Proof. reflexivity. Qed.

(* ---- "A called template sees exactly the passed data plus its explicit
        params, never the caller's let or loop variables, and nothing it binds
        is visible to the caller afterwards." ---- *)

(* the callee runs with [ps ++ base] both as its environment and as its own entry data *)
Theorem callee_env_exact l entry md en p name alldata dat params callee :
  find_template (r_templates (c_reg cf)) name = Some callee ->
  exec_body cf l entry md en (NCall p name alldata dat params) =
  (base <~~ base_spec l entry en alldata dat ;;
   ps <~~ params_spec l entry md en params [] ;;
   l_exec l (ps ++ base) (ps ++ base) (call_mode (t_ns_autoescape callee)) (t_node callee)).
Proof. intros H. cbn [exec_body]. rewrite H. reflexivity. Qed.

(* ... where an explicit param overrides the passed data of the same name and nothing else is there *)
Theorem callee_lookup (ps base : env) k :
  env_lookup k (ps ++ base) = match assoc_s k ps with Some v => v | None => env_lookup k base end.
Proof.
  unfold env_lookup. induction ps as [|[k' v] ps IH]; cbn; [reflexivity|].
  destruct (bstr_eqb k k'); [reflexivity | exact IH].
Qed.
Theorem base_all l entry en dat : base_spec l entry en true dat = sret entry.
Proof. reflexivity. Qed.
Theorem base_none l entry en : base_spec l entry en false None = sret [].
Proof. reflexivity. Qed.

(* the caller's environment is irrelevant to a call that passes data="all" and no params:
   lets and loop variables of the caller never reach the callee *)
Theorem caller_locals_not_passed l entry md en1 en2 p name dat :
  exec_body cf l entry md en1 (NCall p name true dat []) = exec_body cf l entry md en2 (NCall p name true dat []).
Proof. reflexivity. Qed.
(* likewise for a call without data and without params: the callee starts from nothing *)
Theorem caller_locals_not_passed_nodata l entry1 entry2 md en1 en2 p name :
  exec_body cf l entry1 md en1 (NCall p name false None []) = exec_body cf l entry2 md en2 (NCall p name false None []).
Proof. reflexivity. Qed.

(* after the call the caller continues in its own environment *)
Theorem caller_env_restored l entry md en p name alldata dat params rest :
  block l entry md en (NCall p name alldata dat params :: rest) =
  (_ <~~ l_exec l entry en md (NCall p name alldata dat params) ;; block l entry md en rest).
Proof. reflexivity. Qed.
End S.
