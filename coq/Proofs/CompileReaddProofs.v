(* C13: Registry.Add rewrites the tree it is given (template/registry.go: the
   leading {@param} nodes are cut out of the template body and appended, as
   SoyDocParamNodes, to the SoyDoc node in front of the template).  What happens
   when a tree that Add has already rewritten is handed to Add again -- the
   situation of a second Compile that does not parse anew?

   - the rewriting is idempotent: Add leaves an already rewritten tree as it is
     ([processed_body_idem], [rewritten_file_idem]), without any hypothesis;
   - the registry built from the rewritten tree is the one built from the
     original tree ([registry_add_rewritten]) PROVIDED every template that has
     header params has a SoyDoc node in front of it ([headers_documented]):
     the params have moved into that node and are found there again;
   - without that SoyDoc the params are lost: Add keeps them in a SoyDoc node
     of its own that is not part of the tree ([registry_add_rewritten_undocumented_refuted]).
     Bundle.Compile therefore has to parse every file anew on every call (it does:
     bundle.go keeps the TEXT of the files, not their trees). *)
From Coq Require Import List Lia.
From Soy Require Import Model.Bytes Model.Num Model.Values Model.Outcome Model.Ast Model.MsgId Model.Compile
  Generated.Tables Spec.Determinism Proofs.CompileProofs.
Import ListNotations.
Open Scope N_scope.

Definition docparams_of (pv : node) : list node := match pv with NSoyDoc _ ps => ps | _ => [] end.

Lemma docparams_of_not_soydoc n : is_soydoc n = false -> docparams_of n = [].
Proof. destruct n; cbn; intros H; try reflexivity; discriminate. Qed.

Lemma span_headers_snd nodes : span_headers (snd (span_headers nodes)) = ([], snd (span_headers nodes)).
Proof.
  induction nodes as [|n r IH]; [reflexivity|]. cbn [span_headers].
  destruct (is_header_param n) eqn:E.
  - destruct (span_headers r) as [hs rest]. cbn [snd] in *. exact IH.
  - cbn [snd span_headers]. rewrite E. reflexivity.
Qed.

Section Readd.
  Variables (fname nsname : bstr) (nsae : N).
  Notation tl_ := (template_local fname nsname nsae).
  Notation pb := (processed_body fname nsname nsae).
  Notation fu := (file_units fname nsname nsae).

  (* what Add computes for a template in terms of the params of the node before it *)
  Definition unit_of (dp : list node) (p : N) (name : bstr) (lp : N) (nodes : list node) (ae : N) (priv : bool) : add_err + tmpl_unit :=
    let hs := fst (span_headers nodes) in
    let rest := snd (span_headers nodes) in
    let params := dp ++ map header_to_docparam hs in
    match hs, dp with
    | _ :: _, _ :: _ => inl (AEBothParamKinds name)
    | _, _ =>
        let node' := NTemplate p name (NList lp rest) ae priv in
        inr {| tu_template := {| t_name := name; t_node := node'; t_ns_name := nsname; t_ns_autoescape := nsae;
                                 t_params := flat_map docparam_sig params; t_file := fname |};
               tu_node := node'; tu_docparams := params |}
    end.

  Lemma tl_some pv p name lp nodes ae priv :
    tl_ (Some pv) (NTemplate p name (NList lp nodes) ae priv) = unit_of (docparams_of pv) p name lp nodes ae priv.
  Proof.
    unfold template_local, unit_of. destruct (span_headers nodes) as [hs rest]. cbn [fst snd]. reflexivity.
  Qed.

  Lemma tl_prev_ext prev prev' t :
    option_map docparams_of prev = option_map docparams_of prev' -> tl_ prev t = tl_ prev' t.
  Proof.
    intros H. destruct t; try reflexivity.
    destruct t; try (destruct prev, prev'; reflexivity).
    destruct prev as [pv|], prev' as [pv'|]; cbn [option_map] in H; try discriminate; [|reflexivity].
    injection H as H. rewrite !tl_some, H. reflexivity.
  Qed.

  (* the unit of an already stripped template *)
  Lemma unit_of_stripped dp p name lp nodes ae priv :
    unit_of dp p name lp (snd (span_headers nodes)) ae priv =
    inr {| tu_template := {| t_name := name; t_node := NTemplate p name (NList lp (snd (span_headers nodes))) ae priv;
                             t_ns_name := nsname; t_ns_autoescape := nsae;
                             t_params := flat_map docparam_sig dp; t_file := fname |};
           tu_node := NTemplate p name (NList lp (snd (span_headers nodes))) ae priv; tu_docparams := dp |}.
  Proof.
    unfold unit_of. rewrite span_headers_snd. cbn [fst snd map]. rewrite app_nil_r. reflexivity.
  Qed.

  (* one step of processed_body *)
  Definition out_node (prev : option node) (n : node) (r : list node) : node :=
    match n, r with
    | NSoyDoc p _, t :: _ =>
        if is_template t then
          match tl_ (Some n) t with
          | inr u => NSoyDoc p (tu_docparams u)
          | inl _ => n
          end
        else n
    | _, _ =>
        if is_template n then
          match tl_ prev n with inr u => tu_node u | inl _ => n end
        else n
    end.
  Lemma pb_cons prev n r : pb prev (n :: r) = out_node prev n r :: pb (Some n) r.
  Proof. reflexivity. Qed.

  Lemma out_node_not_doc prev n r : is_soydoc n = false ->
    out_node prev n r = if is_template n then match tl_ prev n with inr u => tu_node u | inl _ => n end else n.
  Proof. intros H. destruct n; try reflexivity. discriminate. Qed.

  Lemma out_node_other prev n r : is_soydoc n = false -> is_template n = false -> out_node prev n r = n.
  Proof. intros H H'. rewrite out_node_not_doc, H' by exact H. reflexivity. Qed.

  Lemma tl_ok_node prev t u : tl_ prev t = inr u ->
    exists p name lp nodes ae priv pv, t = NTemplate p name (NList lp nodes) ae priv /\ prev = Some pv /\
      tu_node u = NTemplate p name (NList lp (snd (span_headers nodes))) ae priv /\
      tu_docparams u = docparams_of pv ++ map header_to_docparam (fst (span_headers nodes)) /\
      (fst (span_headers nodes) = [] \/ docparams_of pv = []).
  Proof.
    intros H. destruct t; try discriminate. destruct t; try discriminate.
    destruct prev as [pv|]; [|discriminate].
    rewrite tl_some in H. unfold unit_of in H.
    exists p, name, p0, nodes, autoescape, private, pv.
    destruct (fst (span_headers nodes)) as [|h hs] eqn:Eh.
    - injection H as H. subst u. cbn. repeat split; auto.
    - destruct (docparams_of pv) as [|d ds] eqn:Ed; [|discriminate].
      injection H as H. subst u. cbn. repeat split; auto.
  Qed.

  Lemma is_template_out prev n r : is_template (out_node prev n r) = is_template n.
  Proof.
    destruct (is_soydoc n) eqn:Ed.
    - destruct n; try discriminate. cbn. destruct r as [|t r2]; [reflexivity|].
      destruct (is_template t); [|reflexivity]. destruct (tl_ _ t); reflexivity.
    - rewrite out_node_not_doc by exact Ed. destruct (is_template n) eqn:Et; [|exact Et].
      destruct (tl_ prev n) as [e|u] eqn:E; [exact Et|].
      destruct (tl_ok_node _ _ _ E) as (p & name & lp & nodes & ae & priv & pv & _ & _ & Hn & _). rewrite Hn. reflexivity.
  Qed.

  Lemma is_soydoc_out prev n r : is_soydoc (out_node prev n r) = is_soydoc n.
  Proof.
    destruct (is_soydoc n) eqn:Ed.
    - destruct n; try discriminate. cbn. destruct r as [|t r2]; [reflexivity|].
      destruct (is_template t); [|reflexivity]. destruct (tl_ _ t); reflexivity.
    - rewrite out_node_not_doc by exact Ed. destruct (is_template n) eqn:Et; [|exact Ed].
      destruct (tl_ prev n) as [e|u] eqn:E; [exact Ed|].
      destruct (tl_ok_node _ _ _ E) as (p & name & lp & nodes & ae & priv & pv & _ & _ & Hn & _). rewrite Hn. reflexivity.
  Qed.

  (* a template that Add has stripped is left alone by a second Add, whatever is in front of it *)
  Lemma readd_stripped prev prev' t u : tl_ prev t = inr u ->
    match tl_ prev' (tu_node u) with inr u2 => tu_node u2 | inl _ => tu_node u end = tu_node u.
  Proof.
    intros E. destruct (tl_ok_node _ _ _ E) as (p & name & lp & nodes & ae & priv & pv & _ & _ & Hn & _).
    rewrite Hn. destruct prev' as [pv'|]; [|reflexivity].
    rewrite tl_some, unit_of_stripped. reflexivity.
  Qed.

  (* ---------------------------------------------------------------- *)
  (* idempotence                                                      *)
  (* ---------------------------------------------------------------- *)

  (* [prev'] is what the first pass made of [prev]: a template rejected on the
     first pass is rejected on the second *)
  Definition failure_persists (prev prev' : option node) (body : list node) : Prop :=
    forall t r e, body = t :: r -> is_template t = true -> tl_ prev t = inl e -> exists e', tl_ prev' t = inl e'.

  Lemma failure_persists_step prev n r : failure_persists (Some n) (Some (out_node prev n r)) r.
  Proof.
    intros t r2 e -> Ht E.
    destruct (is_soydoc n) eqn:Ed.
    - destruct n; try discriminate. cbn [out_node]. rewrite Ht, E. exists e. exact E.
    - exists e. rewrite <- E. apply tl_prev_ext. cbn [option_map].
      rewrite !docparams_of_not_soydoc; [reflexivity | exact Ed | rewrite is_soydoc_out; exact Ed].
  Qed.

  Lemma out_node_idem prev prev' n r :
    failure_persists prev prev' (n :: r) ->
    out_node prev' (out_node prev n r) (pb (Some n) r) = out_node prev n r.
  Proof.
    intros H.
    destruct (is_soydoc n) eqn:Ed.
    - destruct n; try discriminate. clear Ed.
      destruct r as [|t r2]; [reflexivity|].
      rewrite pb_cons. cbn [out_node].
      destruct (is_template t) eqn:Ht.
      + assert (Htd : is_soydoc t = false) by (destruct t; try discriminate; reflexivity).
        rewrite (out_node_not_doc _ t) by exact Htd. rewrite Ht.
        destruct (tl_ (Some (NSoyDoc p params)) t) as [e|u] eqn:E.
        * unfold out_node. rewrite Ht, E. reflexivity.
        * destruct (tl_ok_node _ _ _ E) as (p1 & name & lp & nodes & ae & priv & pv & -> & Hpv & Hn & Hd & _).
          rewrite Hn. unfold out_node. cbn [is_template]. rewrite tl_some, unit_of_stripped. cbn [tu_docparams docparams_of]. reflexivity.
      + unfold out_node at 1. rewrite is_template_out, Ht. reflexivity.
    - rewrite (out_node_not_doc prev n) by exact Ed.
      destruct (is_template n) eqn:Et.
      + destruct (tl_ prev n) as [e|u] eqn:E.
        * rewrite out_node_not_doc, Et by exact Ed.
          destruct (H n r e eq_refl Et E) as (e' & ->). reflexivity.
        * assert (Hk : is_soydoc (tu_node u) = false).
          { destruct (tl_ok_node _ _ _ E) as (p & name & lp & nodes & ae & priv & pv & _ & _ & Hn & _). rewrite Hn. reflexivity. }
          assert (Hk' : is_template (tu_node u) = true).
          { destruct (tl_ok_node _ _ _ E) as (p & name & lp & nodes & ae & priv & pv & _ & _ & Hn & _). rewrite Hn. reflexivity. }
          rewrite out_node_not_doc, Hk' by exact Hk. eapply readd_stripped, E.
      + apply out_node_other; assumption.
  Qed.

  Lemma pb_idem_gen body : forall prev prev',
    failure_persists prev prev' body -> pb prev' (pb prev body) = pb prev body.
  Proof.
    induction body as [|n r IH]; intros prev prev' H; [reflexivity|].
    rewrite (pb_cons prev), pb_cons. f_equal.
    - apply out_node_idem, H.
    - apply IH, failure_persists_step.
  Qed.

  Theorem processed_body_idem_local body : pb None (pb None body) = pb None body.
  Proof. apply pb_idem_gen. intros t r e _ _ E. exists e. exact E. Qed.

  (* ---------------------------------------------------------------- *)
  (* the units of the rewritten tree                                  *)
  (* ---------------------------------------------------------------- *)

  (* [prev'] carries the params the first pass computed for the template that follows *)
  Definition params_moved (prev prev' : option node) (body : list node) : Prop :=
    forall t r, body = t :: r -> is_template t = true ->
      match tl_ prev t with
      | inr u => exists pv', prev' = Some pv' /\ docparams_of pv' = tu_docparams u
      | inl _ => option_map docparams_of prev' = option_map docparams_of prev
      end.

  Lemma leading_headers_spec p name lp nodes ae priv :
    leading_headers (NTemplate p name (NList lp nodes) ae priv) = fst (span_headers nodes).
  Proof. reflexivity. Qed.

  Lemma params_moved_step prev n r :
    headers_documented (Some n) r = true -> params_moved (Some n) (Some (out_node prev n r)) r.
  Proof.
    intros Hd t r2 -> Ht.
    cbn [headers_documented] in Hd. apply andb_prop in Hd. destruct Hd as [Hd _].
    destruct (is_soydoc n) eqn:Ed.
    - destruct n; try discriminate. cbn [out_node]. rewrite Ht.
      destruct (tl_ (Some (NSoyDoc p params)) t) as [e|u] eqn:E; [reflexivity|].
      eexists. split; reflexivity.
    - assert (Ho : docparams_of (out_node prev n (t :: r2)) = []).
      { apply docparams_of_not_soydoc. rewrite is_soydoc_out. exact Ed. }
      destruct (tl_ (Some n) t) as [e|u] eqn:E.
      + cbn [option_map]. rewrite Ho, docparams_of_not_soydoc by exact Ed. reflexivity.
      + destruct (tl_ok_node _ _ _ E) as (p & name & lp & nodes & ae & priv & pv & -> & Hpv & _ & Hdp & _).
        injection Hpv as <-. rewrite leading_headers_spec in Hd.
        destruct (fst (span_headers nodes)) as [|h hs]; [|discriminate].
        eexists. split; [reflexivity|]. rewrite Ho, Hdp, docparams_of_not_soydoc by exact Ed. reflexivity.
  Qed.

  Lemma tl_out_node prev prev' n r : is_template n = true -> params_moved prev prev' (n :: r) ->
    tl_ prev' (out_node prev n r) = tl_ prev n.
  Proof.
    intros Ht H. specialize (H n r eq_refl Ht).
    assert (Ed : is_soydoc n = false) by (destruct n; try discriminate; reflexivity).
    rewrite out_node_not_doc, Ht by exact Ed.
    destruct (tl_ prev n) as [e|u] eqn:E.
    - rewrite <- E. apply tl_prev_ext. exact H.
    - destruct H as (pv' & -> & Hdp).
      destruct (tl_ok_node _ _ _ E) as (p & name & lp & nodes & ae & priv & pv & -> & -> & Hn & Hd & Hor).
      rewrite Hn, tl_some, unit_of_stripped, Hdp, Hd.
      rewrite tl_some in E. unfold unit_of in E.
      destruct Hor as [Hh|Hp].
      + rewrite Hh in *. rewrite <- E. reflexivity.
      + rewrite Hp in *. destruct (fst (span_headers nodes)); rewrite <- E; reflexivity.
  Qed.

  Lemma file_units_pb body : forall prev prev',
    headers_documented prev body = true -> params_moved prev prev' body ->
    fu prev' (pb prev body) = fu prev body.
  Proof.
    induction body as [|n r IH]; intros prev prev' Hd H; [reflexivity|].
    rewrite pb_cons. cbn [file_units]. rewrite is_template_out.
    cbn [headers_documented] in Hd. apply andb_prop in Hd. destruct Hd as [_ Hd].
    f_equal.
    - destruct (is_template n) eqn:Ht; [|reflexivity]. f_equal. apply tl_out_node; assumption.
    - apply IH; [exact Hd | apply params_moved_step, Hd].
  Qed.

  Lemma file_units_processed body :
    headers_documented None body = true -> fu None (pb None body) = fu None body.
  Proof.
    intros Hd. apply file_units_pb; [exact Hd|].
    intros t r _ Ht. destruct t; try discriminate. destruct t; reflexivity.
  Qed.

  Lemma find_namespace_pb body : forall prev x, find_namespace body = inr x -> find_namespace (pb prev body) = inr x.
  Proof.
    induction body as [|n r IH]; intros prev x H; [discriminate|].
    rewrite pb_cons.
    destruct n; cbn [find_namespace] in H; try discriminate.
    - rewrite out_node_other by reflexivity. exact H.
    - assert (Hs : is_soydoc (out_node prev (NSoyDoc p params) r) = true) by (rewrite is_soydoc_out; reflexivity).
      destruct (out_node prev (NSoyDoc p params) r); try discriminate. cbn [find_namespace]. apply IH, H.
  Qed.
End Readd.

(* ------------------------------------------------------------------ *)
(* the file, Registry.Add, Bundle.Compile                             *)
(* ------------------------------------------------------------------ *)

Theorem processed_body_idem fname nsname nsae body :
  processed_body fname nsname nsae None (processed_body fname nsname nsae None body) = processed_body fname nsname nsae None body.
Proof. apply processed_body_idem_local. Qed.

Theorem rewritten_file_idem f : rewritten_file (rewritten_file f) = rewritten_file f.
Proof.
  unfold rewritten_file at 2 3. destruct (find_namespace (sfile_body f)) as [e|[ns ae]] eqn:E.
  - unfold rewritten_file. rewrite E. reflexivity.
  - unfold rewritten_file. cbn [sfile_body sfile_name sfile_text].
    rewrite (find_namespace_pb _ _ _ _ _ _ E), processed_body_idem. reflexivity.
Qed.

(* Add on the tree an earlier Add has rewritten: the same registry, the same
   error, the same tree *)
Theorem registry_add_rewritten r f :
  headers_documented None (sfile_body f) = true -> registry_add r (rewritten_file f) = registry_add r f.
Proof.
  intros Hd. unfold rewritten_file. destruct (find_namespace (sfile_body f)) as [e|[ns ae]] eqn:E; [reflexivity|].
  unfold registry_add. cbn [sfile_body sfile_name sfile_text].
  rewrite (find_namespace_pb _ _ _ _ _ _ E), E, file_units_processed by exact Hd.
  rewrite processed_body_idem. reflexivity.
Qed.

Lemma rewritten_file_name f : sfile_name (rewritten_file f) = sfile_name f.
Proof. unfold rewritten_file. destruct (find_namespace (sfile_body f)) as [e|[ns ae]]; reflexivity. Qed.

Lemma add_all_files_readd srcs : forall srcs' r,
  Forall2 readd_variant srcs srcs' -> Forall (fun s => src_documented s = true) srcs ->
  add_all_files r srcs' = add_all_files r srcs.
Proof.
  induction srcs as [|s rest IH]; intros srcs' r H2 Hd; inversion H2; subst; [reflexivity|].
  inversion Hd; subst.
  assert (Hs : forall r0, add_all_files r0 (y :: l') = add_all_files r0 (s :: l')).
  { intros r0. destruct H1 as [->| ->]; [reflexivity|].
    destruct s as [f|name msg]; [|reflexivity].
    cbn [rewritten_src add_all_files]. rewrite registry_add_rewritten, rewritten_file_name by assumption. reflexivity. }
  rewrite Hs. destruct s as [f|name msg]; [|reflexivity].
  cbn [add_all_files]. destruct (registry_add r f) as [e|r']; [reflexivity|]. apply IH; assumption.
Qed.

(* Compiling again -- with other map iteration orders -- from trees of which any
   number have been rewritten by an earlier compilation gives the result of the
   first compilation. *)
Theorem compile_readd ns o o' calls srcs srcs' :
  perm_orders o -> perm_orders o' ->
  Forall (fun s => src_documented s = true) srcs -> Forall2 readd_variant srcs srcs' ->
  compile ns o' calls srcs' = compile ns o calls srcs.
Proof.
  intros Ho Ho' Hd H2. rewrite (compile_oracle_independent ns o' o calls srcs' Ho' Ho).
  unfold compile, compile_gen. rewrite (add_all_files_readd srcs srcs' empty_creg H2 Hd). reflexivity.
Qed.

Lemma readd_variant_all srcs : Forall2 readd_variant srcs (map rewritten_src srcs).
Proof. induction srcs; constructor; [right; reflexivity | assumption]. Qed.

Theorem compile_rewritten ns o o' calls srcs :
  perm_orders o -> perm_orders o' -> Forall (fun s => src_documented s = true) srcs ->
  compile ns o' calls (map rewritten_src srcs) = compile ns o calls srcs.
Proof. intros Ho Ho' Hd. apply compile_readd; [assumption..|apply readd_variant_all]. Qed.
