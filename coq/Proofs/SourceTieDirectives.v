(* Source tie, family 81-gotrans-directives, soyhtml/directives.go: directiveTruncate (argument checks, the default and
   the explicit ellipsis flag, the "- 3", the walk back to a rune start, the cut and the "...") against
   Model/Directives.v's truncate / back_to_rune_start, with the function as gotrans translates it from today's source.
   The printed value enters through its String() image ([st_string]); the loop's fuel is maxLen + 2, which the lemma
   shows sufficient: where the translation answers None, Go panics (index out of range below 0, or a failed argument
   check), it never runs out of fuel on a string shorter than 2^62 bytes. *)
From Coq Require Import ZArith NArith Bool Lia ZifyBool ZifyN List.
From Soy Require Import Model.Bytes Model.Utf8 Model.Outcome Model.Values Generated.Tables Model.Directives
  Proofs.SourceTieBase Proofs.SourceTieValue Proofs.SourceTieState.
Import ListNotations.
Open Scope N_scope.


(* utf8.RuneStart on a byte *)
Lemma st_rune_start_bits_all :
  forallb (fun c => Bool.eqb (rune_start c) (negb (Z.eqb (Z.land (Z.of_N c) 192%Z) 128%Z))) (map N.of_nat (seq 0 256)) = true.
Proof. vm_compute. reflexivity. Qed.

Lemma st_rune_start_bits (c : N) : c < 256 -> negb (Z.eqb (Z.land (Z.of_N c) 192%Z) 128%Z) = rune_start c.
Proof.
  intros H. pose proof st_rune_start_bits_all as A. rewrite forallb_forall in A.
  specialize (A c). symmetry. apply Bool.eqb_prop. apply A.
  apply in_map_iff. exists (N.to_nat c). split; [lia|]. apply in_seq. lia.
Qed.

Lemma st_back_range (s : bstr) (fuel : nat) (n m : Z) : back_to_rune_start fuel s n = Ok m -> (0 <= m <= n)%Z.
Proof.
  revert n. induction fuel as [|f IH]; intros n H; cbn [back_to_rune_start] in H.
  - destruct (n <? 0)%Z eqn:E; [discriminate|]. destruct (nth_error s (Z.to_nat n)); [|discriminate].
    destruct (rune_start n0); [|discriminate]. injection H as <-. lia.
  - destruct (n <? 0)%Z eqn:E; [discriminate|]. destruct (nth_error s (Z.to_nat n)); [|discriminate].
    destruct (rune_start n0); [injection H as <-; lia|]. apply IH in H. lia.
Qed.

(* the loop  for !utf8.RuneStart(str[maxLen]) { maxLen-- } *)
Lemma trunc_loop_matches (s : bstr) :
  Forall (fun c => c < 256) s -> st_small (go_len s) ->
  forall (k : nat) (n : Z) (fuel mfuel : nat),
    Z.to_nat (n + 1) = k -> (-1 <= n < go_len s)%Z -> (k + 1 <= fuel)%nat -> (k <= mfuel)%nat ->
    src_soyhtml_directiveTruncate_loop1 fuel value s n =
    match back_to_rune_start mfuel s n with Ok m => Some (go_exit m) | _ => None end.
Proof.
  intros Hb Hs k. induction k as [|k IH]; intros n fuel mfuel Hk Hn Hf Hm.
  - assert (n = (-1)%Z) as -> by lia. destruct fuel as [|fuel]; [lia|].
    cbn [src_soyhtml_directiveTruncate_loop1]. destruct mfuel; reflexivity.
  - destruct fuel as [|fuel]; [lia|]. cbn [src_soyhtml_directiveTruncate_loop1].
    assert (0 <= n)%Z as Hn0 by lia.
    unfold go_index_b. rewrite go_index_in by lia.
    destruct (nth_error s (Z.to_nat n)) as [c|] eqn:E.
    2:{ apply nth_error_None in E. unfold go_len in Hn. lia. }
    cbn [go_bind].
    assert (c < 256) as Hc.
    { rewrite Forall_forall in Hb. apply Hb. eapply nth_error_In. exact E. }
    rewrite (st_rune_start_bits c Hc).
    assert (Hmodel : back_to_rune_start mfuel s n =
                     if rune_start c then Ok n else match mfuel with O => OutOfFuel | S f => back_to_rune_start f s (n - 1)%Z end).
    { destruct mfuel; cbn [back_to_rune_start]; replace (n <? 0)%Z with false by lia; rewrite E; reflexivity. }
    rewrite Hmodel. destruct (rune_start c); cbn [negb]; [reflexivity|].
    destruct mfuel as [|mf]; [lia|].
    unfold st_small in Hs. rewrite st_wrap64 by lia.
    apply IH; lia.
Qed.

Lemma st_go_slice_take (s : bstr) (m : Z) : (0 <= m <= go_len s)%Z -> go_slice s 0%Z m = Some (take (Z.to_nat m) s).
Proof.
  intros H. unfold go_slice. replace (orb _ _) with false by lia.
  rewrite Z.sub_0_r. change (Z.to_nat 0) with O. cbn [drop]. reflexivity.
Qed.

(* what follows the argument checks, for a value whose String() is s, longer than maxLen *)
Definition st_trunc_result (s : bstr) (n : Z) (e : bool) : option value :=
  match truncate s n e with Ok r => Some (VStr r) | _ => None end.

Lemma trunc_tail_matches (s : bstr) (n0 : Z) (k : bstr -> option value) :
  Forall (fun c => c < 256) s -> st_small (go_len s) -> (n0 < go_len s)%Z -> (-4611686018427387904 <= n0)%Z ->
  match src_soyhtml_directiveTruncate_loop1 (Z.to_nat (go_wrap_s 64 (n0 + 2))) value s n0 with
  | None => None
  | Some (go_ret r) => Some r
  | Some (go_exit m) => go_bind (go_slice s 0%Z m) k
  end =
  match back_to_rune_start (length s) s n0 with
  | Ok m => k (take (Z.to_nat m) s)
  | _ => None
  end.
Proof.
  intros Hb Hs Hlt Hlo. unfold st_small in Hs.
  destruct (Z_lt_dec n0 (-1)) as [Hneg|Hge].
  - (* below -1: the first index panics, whatever the fuel *)
    assert (back_to_rune_start (length s) s n0 = Err e_index) as ->.
    { destruct (length s); cbn [back_to_rune_start]; replace (n0 <? 0)%Z with true by lia; reflexivity. }
    destruct (Z.to_nat (go_wrap_s 64 (n0 + 2))) as [|f]; [reflexivity|].
    cbn [src_soyhtml_directiveTruncate_loop1]. unfold go_index_b, go_index.
    replace (orb (Z.ltb n0 0) _) with true by lia. reflexivity.
  - rewrite st_wrap64 by lia.
    rewrite (trunc_loop_matches s Hb Hs (Z.to_nat (n0 + 1)) n0 (Z.to_nat (n0 + 2)) (length s) eq_refl) by (unfold go_len in *; lia).
    destruct (back_to_rune_start (length s) s n0) as [m| | | | |] eqn:E; try reflexivity.
    apply st_back_range in E. rewrite st_go_slice_take by lia. reflexivity.
Qed.

(* |truncate:n  and  |truncate:n,e  on a value whose String() is s *)
Theorem truncate_matches_source (v : value) (st_string : value -> option bstr) (s : bstr) (n : Z) (e : bool) :
  st_string v = Some s -> Forall (fun c => c < 256) s -> st_small (go_len s) -> (-4611686018427387904 <= n)%Z ->
  let run args := st_V src_soyhtml_directiveTruncate_V st_string v args in
  let expect e := if (Z.of_nat (length s) <=? n)%Z then Some v else st_trunc_result s n e in
  run [VInt n] = expect true /\ run [VInt n; VBool e] = expect e.
Proof.
  intros Hv Hb Hs Hlo run expect. unfold run, expect, st_trunc_result, truncate, src_soyhtml_directiveTruncate_V, src_soyhtml_directiveTruncate. clear run expect.
  repeat match goal with
         | |- context [go_index (?a :: ?l) ?i] =>
             let r := eval vm_compute in (go_index (a :: l) i) in change (go_index (a :: l) i) with r
         | |- context [go_len (?a :: ?l)] =>
             let r := eval vm_compute in (go_len (a :: l)) in change (go_len (a :: l)) with r
         end.
  cbn [go_bind]. change (src_soyhtml_isInt value st_vkind (VInt n)) with true.
  cbn [negb st_as_int_v go_bind]. rewrite Hv. cbn [go_bind]. cbv zeta.
  change (Z.of_nat (length s)) with (go_len s).
  destruct (Z.leb_spec (go_len s) n) as [Hle|Hgt]; [split; reflexivity|].
  cbn [Z.eqb Pos.eqb nth_error Z.to_nat Pos.to_nat Pos.iter_op Nat.add st_as_bool_v go_bind negb].
  unfold st_small in Hs.
  (* from here on the cases are split on the MODEL's side (is the flag set? is n above 3?); the source's own tests,
     whatever their shape, are then decided by lia (st_decide_ifs) *)
  assert (Hfin : forall (n1 : Z) (e1 : bool) (k : bstr -> option value),
             (n1 <= n)%Z -> (-4611686018427387904 <= n1)%Z ->
             (forall o, k o = Some (VStr (o ++ (if e1 then dots else [])))) ->
             match src_soyhtml_directiveTruncate_loop1 (Z.to_nat (go_wrap_s 64 (n1 + 2))) value s n1 with
             | None => None
             | Some (go_ret r) => Some r
             | Some (go_exit m) => go_bind (go_slice s 0%Z m) k
             end =
             match bind (back_to_rune_start (length s) s n1) (fun m => Ok (take (Z.to_nat m) s ++ (if e1 then dots else []))) with
             | Ok r => Some (VStr r)
             | _ => None
             end).
  { intros n1 e1 k Hn1 Hlo1 Hk. rewrite (trunc_tail_matches s n1 k Hb Hs) by lia.
    destruct (back_to_rune_start (length s) s n1); cbn [bind]; try reflexivity. apply Hk. }
  assert (Hdots : forall o : bstr, o ++ [] = o) by (intros; apply app_nil_r).
  split.
  - destruct (Z_lt_dec 3 n) as [H3|H3]; st_decide_ifs; cbv iota.
    + rewrite (st_wrap64 (n - 3)) by lia. apply (Hfin (n - 3)%Z true); [lia|lia|reflexivity].
    + apply (Hfin n false); [lia|lia|]. intros o. now rewrite Hdots.
  - destruct e; cbv iota.
    + destruct (Z_lt_dec 3 n) as [H3|H3]; st_decide_ifs; cbv iota.
      * rewrite (st_wrap64 (n - 3)) by lia. apply (Hfin (n - 3)%Z true); [lia|lia|reflexivity].
      * apply (Hfin n false); [lia|lia|]. intros o. now rewrite Hdots.
    + st_decide_ifs; cbv iota. apply (Hfin n false); [lia|lia|]. intros o. now rewrite Hdots.
Qed.
