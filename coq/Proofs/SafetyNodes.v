(* C06: [node_all] and [tree_height] (Spec/Safety.v) along [subnodes] (Proofs/InterpSub.v):
   a predicate that holds of every node of a tree holds of every node the walker
   passes on, and those nodes are strictly lower. *)
From Coq Require Import Lia ZifyN ZifyBool ZifyNat.
From Soy Require Import Model.Bytes Model.Num Model.Values Model.Outcome Model.Ast
  Model.Interp Spec.Safety Proofs.ValueProofs Proofs.InterpLogic Proofs.InterpSub.
Open Scope N_scope.

Ltac split_andb :=
  repeat match goal with
         | H : _ && _ = true |- _ => apply andb_prop in H; destruct H
         end.

Lemma node_all_head P n : node_all P n = true -> P n = true.
Proof. destruct n; cbn [node_all]; intros H; apply andb_prop in H; tauto. Qed.

Lemma forallb_In {A} (f : A -> bool) l x : forallb f l = true -> In x l -> f x = true.
Proof. intros H Hin. rewrite forallb_forall in H. apply H. exact Hin. Qed.

Section All.
Variable P : node -> bool.
(* the message node the plural walker rebuilds at the message's own position *)
Hypothesis Psyn : forall p i m d b b', P (NMsg p i m d b) = true -> P (NMsg p 0 [] [] b') = true.

Lemma node_all_opt o x : match o with Some y => node_all P y | None => true end = true ->
  In x (opt_list o) -> node_all P x = true.
Proof. destruct o; cbn; [intros H [<-|[]]; exact H | intros _ []]. Qed.

Theorem node_all_sub n n' : node_all P n = true -> In n' (subnodes n) -> node_all P n' = true.
Proof.
  intros H Hin.
  destruct n; cbn [subnodes] in Hin; try contradiction; pose proof (node_all_head _ _ H) as HP;
    cbn [node_all] in H; apply andb_prop in H as [_ H]; split_andb.
  - (* NFunc *) eapply forallb_In; eauto.
  - (* NListLit *) eapply forallb_In; eauto.
  - (* NMapLit *) apply in_map_iff in Hin as ([k e] & <- & Hin). apply (forallb_In _ _ _ H Hin).
  - (* NDataRef *)
    apply in_flat_map in Hin as (a & Ha & Hin). pose proof (forallb_In _ _ _ H Ha) as Hn.
    destruct a; cbn [acc_subs] in Hin; try contradiction. destruct Hin as [<-|[]].
    cbn [node_all] in Hn. split_andb. assumption.
  - (* NNot *) destruct Hin as [<-|[]]. assumption.
  - (* NNeg *) destruct Hin as [<-|[]]. assumption.
  - (* NBin *) destruct Hin as [<-|[<-|[]]]; assumption.
  - (* NTern *) destruct Hin as [<-|[<-|[<-|[]]]]; assumption.
  - (* NList *) eapply forallb_In; eauto.
  - (* NPrint *)
    destruct Hin as [<-|Hin]; [assumption|].
    apply in_flat_map in Hin as (d & Hd & Hin).
    match goal with Hf : forallb _ dirs = true |- _ => pose proof (forallb_In _ _ _ Hf Hd) as Hn end.
    destruct d; cbn [dir_subs] in Hin; try contradiction.
    cbn [node_all] in Hn. split_andb. eapply forallb_In; eauto.
  - (* NCss *) eapply node_all_opt; eauto.
  - (* NLog *) destruct Hin as [<-|[]]. assumption.
  - (* NIf *)
    apply in_flat_map in Hin as (c & Hc & Hin). pose proof (forallb_In _ _ _ H Hc) as Hn.
    destruct c; cbn [cond_subs] in Hin; try contradiction.
    cbn [node_all] in Hn. split_andb.
    apply in_app_or in Hin as [Hin|[<-|[]]]; [eapply node_all_opt; eauto | assumption].
  - (* NFor *)
    destruct Hin as [<-|[<-|Hin]]; try assumption. eapply node_all_opt; eauto.
  - (* NSwitch *)
    destruct Hin as [<-|Hin]; [assumption|].
    apply in_flat_map in Hin as (c & Hc & Hin).
    match goal with Hf : forallb _ cases = true |- _ => pose proof (forallb_In _ _ _ Hf Hc) as Hn end.
    destruct c; cbn [case_subs] in Hin; try contradiction.
    cbn [node_all] in Hn. split_andb.
    apply in_app_or in Hin as [Hin|[<-|[]]]; [eapply forallb_In; eauto | assumption].
  - (* NCall *)
    apply in_app_or in Hin as [Hin|Hin]; [eapply node_all_opt; eauto|].
    apply in_flat_map in Hin as (q & Hq & Hin).
    match goal with Hf : forallb _ params = true |- _ => pose proof (forallb_In _ _ _ Hf Hq) as Hn end.
    destruct q; cbn [param_subs] in Hin; try contradiction; destruct Hin as [<-|[]];
      cbn [node_all] in Hn; split_andb; assumption.
  - (* NLetValue *) destruct Hin as [<-|[]]. assumption.
  - (* NLetContent *) destruct Hin as [<-|[]]. assumption.
  - (* NMsg *)
    apply in_flat_map in Hin as (x & Hx & Hin). pose proof (forallb_In _ _ _ H Hx) as Hn.
    destruct x; cbn [msg_subs] in Hin; try contradiction.
    + (* raw text: walked as it is *) destruct Hin as [<-|[]]. exact Hn.
    + (* placeholder *) destruct Hin as [<-|[]]. cbn [node_all] in Hn. split_andb. assumption.
    + (* plural *)
      cbn [node_all] in Hn. split_andb.
      destruct Hin as [<-|[<-|Hin]]; [assumption | |].
      * cbn [node_all]. rewrite (Psyn _ _ _ _ _ _ HP). cbn [andb]. assumption.
      * apply in_flat_map in Hin as (c & Hc & Hin).
        match goal with Hf : forallb _ cases = true |- _ => pose proof (forallb_In _ _ _ Hf Hc) as Hcn end.
        destruct c; cbn [plural_case_subs] in Hin; try contradiction. destruct Hin as [<-|[]].
        cbn [node_all] in Hcn |- *. split_andb. rewrite (Psyn _ _ _ _ _ _ HP). cbn [andb]. assumption.
  - (* NTemplate *) destruct Hin as [<-|[]]. assumption.
Qed.
End All.

(* ------------------------------------------------------------------ *)
(* heights *)

Lemma hmax_in x l : In x l -> (tree_height x <= hmax l)%nat.
Proof. apply (fold_max_le tree_height). Qed.

Lemma height_opt o x : In x (opt_list o) -> (tree_height x <= match o with Some y => tree_height y | None => 0 end)%nat.
Proof. destruct o; cbn; [intros [<-|[]]; lia | intros []]. Qed.

Lemma height_msg p i m d b : tree_height (NMsg p i m d b) = S (hmax b).
Proof. reflexivity. Qed.

Theorem height_sub n n' : In n' (subnodes n) -> (tree_height n' < tree_height n)%nat.
Proof.
  intros Hin.
  destruct n; cbn [subnodes] in Hin; try contradiction; cbn [tree_height]; fold (hmax).
  - (* NFunc *) pose proof (hmax_in _ _ Hin). unfold hmax in *. lia.
  - (* NListLit *) pose proof (hmax_in _ _ Hin). unfold hmax in *. lia.
  - (* NMapLit *)
    apply in_map_iff in Hin as ([k e] & <- & Hin).
    pose proof (fold_max_le (fun kv : bstr * node => tree_height (snd kv)) _ _ Hin). cbn [snd] in *. lia.
  - (* NDataRef *)
    apply in_flat_map in Hin as (a & Ha & Hin). pose proof (hmax_in _ _ Ha) as Hle.
    destruct a; cbn [acc_subs] in Hin; try contradiction. destruct Hin as [<-|[]].
    cbn [tree_height] in Hle. unfold hmax in *. lia.
  - destruct Hin as [<-|[]]. lia.
  - destruct Hin as [<-|[]]. lia.
  - destruct Hin as [<-|[<-|[]]]; lia.
  - destruct Hin as [<-|[<-|[<-|[]]]]; lia.
  - (* NList *) pose proof (hmax_in _ _ Hin). unfold hmax in *. lia.
  - (* NPrint *)
    destruct Hin as [<-|Hin]; [lia|].
    apply in_flat_map in Hin as (d & Hd & Hin). pose proof (hmax_in _ _ Hd) as Hle.
    destruct d; cbn [dir_subs] in Hin; try contradiction.
    pose proof (hmax_in _ _ Hin). cbn [tree_height] in Hle. unfold hmax in *. lia.
  - (* NCss *) pose proof (height_opt _ _ Hin). lia.
  - destruct Hin as [<-|[]]. lia.
  - (* NIf *)
    apply in_flat_map in Hin as (c & Hc & Hin). pose proof (hmax_in _ _ Hc) as Hle.
    destruct c; cbn [cond_subs] in Hin; try contradiction. cbn [tree_height] in Hle.
    apply in_app_or in Hin as [Hin|[<-|[]]]; [pose proof (height_opt _ _ Hin)|]; unfold hmax in *; lia.
  - (* NFor *)
    destruct Hin as [<-|[<-|Hin]]; try lia. pose proof (height_opt _ _ Hin). lia.
  - (* NSwitch *)
    destruct Hin as [<-|Hin]; [lia|].
    apply in_flat_map in Hin as (c & Hc & Hin). pose proof (hmax_in _ _ Hc) as Hle.
    destruct c; cbn [case_subs] in Hin; try contradiction. cbn [tree_height] in Hle.
    apply in_app_or in Hin as [Hin|[<-|[]]]; [pose proof (hmax_in _ _ Hin)|]; unfold hmax in *; lia.
  - (* NCall *)
    apply in_app_or in Hin as [Hin|Hin]; [pose proof (height_opt _ _ Hin); lia|].
    apply in_flat_map in Hin as (q & Hq & Hin). pose proof (hmax_in _ _ Hq) as Hle.
    destruct q; cbn [param_subs] in Hin; try contradiction; destruct Hin as [<-|[]];
      cbn [tree_height] in Hle; unfold hmax in *; lia.
  - destruct Hin as [<-|[]]. lia.
  - destruct Hin as [<-|[]]. lia.
  - (* NMsg *)
    apply in_flat_map in Hin as (x & Hx & Hin). pose proof (hmax_in _ _ Hx) as Hle.
    destruct x; cbn [msg_subs] in Hin; try contradiction.
    + destruct Hin as [<-|[]]. unfold hmax in *. lia.
    + destruct Hin as [<-|[]]. cbn [tree_height] in Hle. unfold hmax in *. lia.
    + cbn [tree_height] in Hle.
      destruct Hin as [<-|[<-|Hin]].
      * unfold hmax in *. lia.
      * rewrite height_msg. unfold hmax in *. lia.
      * apply in_flat_map in Hin as (c & Hc & Hin). pose proof (hmax_in _ _ Hc) as Hlc.
        destruct c; cbn [plural_case_subs] in Hin; try contradiction. destruct Hin as [<-|[]].
        rewrite height_msg. cbn [tree_height] in Hlc. unfold hmax in *. lia.
  - destruct Hin as [<-|[]]. lia.
Qed.
