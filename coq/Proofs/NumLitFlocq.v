(* NumLit.parse_float_round against Flocq. *)
From Coq Require Import ZArith Reals Lia Lra.
From Flocq Require Import Core.Core Core.Digits Core.Float_prop Core.Round_NE.
From Soy Require Import Model.Bytes Model.Utf8 Model.Num Model.NumLit Proofs.FloatFlocqBase.
From Coq Require Import ZifyBool ZifyNat ZifyN List.
Import ListNotations.
Open Scope Z_scope.

(* ---- the integer nearest to a quotient, ties to even ---- *)
Lemma nf_znearest_div (nn dd : Z) : 0 <= nn -> 0 < dd ->
  ZnearestE (IZR nn / IZR dd) =
  (let q := nn / dd in let r := nn mod dd in
   if 2 * r <? dd then q else if dd <? 2 * r then q + 1 else if Z.even q then q else q + 1).
Proof.
  intros Hn Hd. cbv zeta.
  pose proof (Z.div_mod nn dd ltac:(lia)) as Hdm. pose proof (Z.mod_pos_bound nn dd Hd) as Hr.
  set (q := nn / dd) in *. set (r := nn mod dd) in *.
  assert (Hdd : (0 < IZR dd)%R) by (apply IZR_lt; exact Hd).
  assert (Hx : (IZR nn / IZR dd = IZR q + IZR r / IZR dd)%R).
  { rewrite Hdm. rewrite plus_IZR, mult_IZR. field. lra. }
  assert (Hfl : Zfloor (IZR nn / IZR dd) = q) by (apply Zfloor_div; lia).
  unfold ZnearestE, Znearest. rewrite Hfl. rewrite Hx.
  replace (IZR q + IZR r / IZR dd - IZR q)%R with (IZR r / IZR dd)%R by ring.
  assert (Hcmp : Rcompare (IZR r / IZR dd) (/ 2) = (2 * r ?= dd)).
  { destruct (Z.compare_spec (2 * r) dd) as [E|L|G].
    - apply Rcompare_Eq. rewrite <- E. rewrite mult_IZR. field. apply IZR_neq. lia.
    - apply Rcompare_Lt. apply IZR_lt in L. rewrite mult_IZR in L.
      apply (Rmult_lt_reg_r (IZR dd)); [exact Hdd|]. unfold Rdiv. rewrite Rmult_assoc, Rinv_l by lra. lra.
    - apply Rcompare_Gt. apply IZR_lt in G. rewrite mult_IZR in G.
      apply (Rmult_lt_reg_r (IZR dd)); [exact Hdd|]. unfold Rdiv. rewrite Rmult_assoc, Rinv_l by lra. lra. }
  rewrite Hcmp.
  assert (Hceil : 0 < r -> Zceil (IZR q + IZR r / IZR dd) = q + 1).
  { intros Hr0. apply Zceil_imp. rewrite plus_IZR. replace (q + 1 - 1) with q by lia.
    assert (0 < IZR r / IZR dd <= 1)%R.
    { split; [apply Rdiv_lt_0_compat; [apply IZR_lt; lia|exact Hdd]|].
      apply (Rmult_le_reg_r (IZR dd)); [exact Hdd|]. unfold Rdiv. rewrite Rmult_assoc, Rinv_l by lra.
      assert (IZR r <= IZR dd)%R by (apply IZR_le; lia). lra. }
    simpl (IZR 1). lra. }
  destruct (Z.compare_spec (2 * r) dd) as [E|L|G].
  - replace (2 * r <? dd) with false by lia. replace (dd <? 2 * r) with false by lia.
    rewrite Hceil by lia. destruct (Z.even q); reflexivity.
  - replace (2 * r <? dd) with true by lia. reflexivity.
  - replace (2 * r <? dd) with false by lia. replace (dd <? 2 * r) with true by lia. apply Hceil. lia.
Qed.

(* ---- binary64: FLT_exp (-1074) 53, overflow threshold 2^1024 ---- *)
Definition nf_fexp : Z -> Z := FLT_exp (-1074) 53.
Definition nf_round (x : R) : R := round radix2 nf_fexp ZnearestE x.

Lemma nf_bpow_IZR e : 0 <= e -> bpow radix2 e = IZR (2 ^ e).
Proof. intros He. symmetry. exact (IZR_Zpower radix2 e He). Qed.

(* x * 2^(-e) as the quotient of the scaled integers *)
Lemma nf_scale n d e : 0 < d ->
  (IZR n / IZR d * bpow radix2 (- e) = IZR (scale_num n e) / IZR (scale_den d e))%R.
Proof.
  intros Hd. assert (Hdd : (IZR d <> 0)%R) by (apply IZR_neq; lia).
  unfold scale_num, scale_den. destruct (Z.leb_spec 0 e) as [He|He].
  - rewrite bpow_opp, (nf_bpow_IZR e He), mult_IZR.
    assert (IZR (2 ^ e) <> 0)%R by (apply IZR_neq; pose proof (Z.pow_pos_nonneg 2 e); lia). field. auto.
  - rewrite (nf_bpow_IZR (- e)) by lia. rewrite mult_IZR. field. exact Hdd.
Qed.

Lemma nf_scale_den_pos d e : 0 < d -> 0 < scale_den d e.
Proof. intros Hd. unfold scale_den. destruct (Z.leb_spec 0 e); [|exact Hd]. apply Z.mul_pos_pos; [exact Hd|apply Z.pow_pos_nonneg; lia]. Qed.
Lemma nf_scale_num_nonneg n e : 0 <= n -> 0 <= scale_num n e.
Proof. intros Hn. unfold scale_num. destruct (Z.leb_spec 0 e); [exact Hn|]. apply Z.mul_nonneg_nonneg; [exact Hn|apply Z.pow_nonneg; lia]. Qed.

Lemma nf_floor n d e : 0 < d -> floor_div_pow2 n d e = Zfloor (IZR n / IZR d * bpow radix2 (- e)).
Proof.
  intros Hd. rewrite (nf_scale n d e Hd). unfold floor_div_pow2. symmetry. apply Zfloor_div.
  pose proof (nf_scale_den_pos d e Hd). lia.
Qed.

Lemma nf_round_div n d e : 0 <= n -> 0 < d -> round_div_pow2 n d e = ZnearestE (IZR n / IZR d * bpow radix2 (- e)).
Proof.
  intros Hn Hd. rewrite (nf_scale n d e Hd).
  rewrite (nf_znearest_div _ _ (nf_scale_num_nonneg n e Hn) (nf_scale_den_pos d e Hd)). reflexivity.
Qed.

(* powers of two around a positive integer *)
Lemma nf_log2_bounds n : 0 < n -> (bpow radix2 (Z.log2 n) <= IZR n < bpow radix2 (Z.log2 n + 1))%R.
Proof.
  intros Hn. pose proof (Z.log2_spec n Hn) as [L1 L2]. pose proof (Z.log2_nonneg n) as L0. rewrite <- Z.add_1_r in L2.
  rewrite !nf_bpow_IZR by lia. split; [apply IZR_le; exact L1|apply IZR_lt; exact L2].
Qed.

(* the canonical exponent of binary64 from bounds on x *)
Lemma nf_cexp x e : (0 < x)%R -> -1074 <= e -> (x < bpow radix2 (e + 53))%R ->
  (e = -1074 \/ (bpow radix2 (e + 52) <= x)%R) -> cexp radix2 nf_fexp x = e.
Proof.
  intros Hx He Hup Hlo. unfold cexp, nf_fexp, FLT_exp.
  destruct (Rle_lt_dec (bpow radix2 (e + 52)) x) as [Hn|Hs].
  - rewrite (mag_unique_pos radix2 x (e + 53)); [lia|]. replace (e + 53 - 1) with (e + 52) by lia. split; assumption.
  - destruct Hlo as [->|Hlo]; [|lra].
    assert (mag radix2 x <= -1074 + 52)%Z; [|lia].
    apply mag_le_bpow; [lra|]. rewrite Rabs_pos_eq by lra. exact Hs.
Qed.

Lemma nf_round_at x e : cexp radix2 nf_fexp x = e ->
  nf_round x = F2R (Float radix2 (ZnearestE (x * bpow radix2 (- e))) e).
Proof. intros H. unfold nf_round, round, scaled_mantissa. rewrite H. reflexivity. Qed.

(* the exponent round_ratio chooses is binary64's canonical exponent of n/d *)
Lemma nf_exponent n d : 0 < n -> 0 < d ->
  let e1 := Z.log2 n - Z.log2 d - 53 in
  let e2 := Z.max e1 (-1074) in
  let e := if two53 <=? floor_div_pow2 n d e2 then e2 + 1 else e2 in
  cexp radix2 nf_fexp (IZR n / IZR d) = e.
Proof.
  intros Hn Hd. cbv zeta. set (L := Z.log2 n - Z.log2 d). set (e2 := Z.max (L - 53) (-1074)).
  set (x := (IZR n / IZR d)%R).
  pose proof (nf_log2_bounds n Hn) as [N1 N2]. pose proof (nf_log2_bounds d Hd) as [D1 D2].
  assert (Hdp : (0 < IZR d)%R) by (apply IZR_lt; lia). assert (Hnp : (0 < IZR n)%R) by (apply IZR_lt; lia).
  assert (Hx : (0 < x)%R) by (apply Rdiv_lt_0_compat; assumption).
  (* 2^(L-1) < x < 2^(L+1) *)
  assert (Xup : (x < bpow radix2 (L + 1))%R).
  { unfold x. apply (Rmult_lt_reg_r (IZR d)); [exact Hdp|]. unfold Rdiv. rewrite Rmult_assoc, Rinv_l, Rmult_1_r by lra.
    replace (L + 1) with ((Z.log2 n + 1) + - Z.log2 d) by (unfold L; lia). rewrite bpow_plus, bpow_opp.
    pose proof (bpow_gt_0 radix2 (Z.log2 d)). pose proof (bpow_gt_0 radix2 (Z.log2 n + 1)).
    apply Rlt_le_trans with (1 := N2). rewrite Rmult_assoc.
    rewrite <- (Rmult_1_r (bpow radix2 (Z.log2 n + 1))) at 1. apply Rmult_le_compat_l; [lra|].
    apply (Rmult_le_reg_l (bpow radix2 (Z.log2 d))); [lra|]. rewrite <- Rmult_assoc, Rinv_r, Rmult_1_l, Rmult_1_r by lra. exact D1. }
  assert (Xlo : (bpow radix2 (L - 1) < x)%R).
  { unfold x. apply (Rmult_lt_reg_r (IZR d)); [exact Hdp|]. unfold Rdiv at 1. rewrite (Rmult_assoc (IZR n)), Rinv_l, Rmult_1_r by lra.
    replace (L - 1) with (Z.log2 n + - (Z.log2 d + 1)) by (unfold L; lia). rewrite bpow_plus, bpow_opp.
    pose proof (bpow_gt_0 radix2 (Z.log2 d + 1)). pose proof (bpow_gt_0 radix2 (Z.log2 n)).
    apply Rlt_le_trans with (2 := N1). rewrite Rmult_assoc.
    rewrite <- (Rmult_1_r (bpow radix2 (Z.log2 n))) at 2. apply Rmult_lt_compat_l; [lra|].
    apply (Rmult_lt_reg_l (bpow radix2 (Z.log2 d + 1))); [lra|]. rewrite <- Rmult_assoc, Rinv_r, Rmult_1_l, Rmult_1_r by lra. exact D2. }
  rewrite (nf_floor n d e2 Hd). fold x.
  assert (P53 : IZR two53 = bpow radix2 53) by (unfold two53; rewrite (nf_bpow_IZR 53) by lia; reflexivity).
  assert (Sc : forall a c, (x < bpow radix2 a -> x * bpow radix2 (- c) < bpow radix2 (a - c))%R).
  { intros a c H. unfold Z.sub. rewrite bpow_plus. apply Rmult_lt_compat_r; [apply bpow_gt_0|exact H]. }
  assert (Sc' : forall a c, (bpow radix2 a <= x * bpow radix2 (- c) -> bpow radix2 (a + c) <= x)%R).
  { intros a c H. rewrite bpow_plus. apply (Rmult_le_reg_r (bpow radix2 (- c))); [apply bpow_gt_0|].
    rewrite Rmult_assoc, <- bpow_plus. replace (c + - c) with 0 by lia. rewrite Rmult_1_r. exact H. }
  assert (Sc'' : forall a c, (x * bpow radix2 (- c) < bpow radix2 a -> x < bpow radix2 (a + c))%R).
  { intros a c H. rewrite bpow_plus. apply (Rmult_lt_reg_r (bpow radix2 (- c))); [apply bpow_gt_0|].
    rewrite Rmult_assoc, <- bpow_plus. replace (c + - c) with 0 by lia. rewrite Rmult_1_r. exact H. }
  destruct (Z.leb_spec two53 (Zfloor (x * bpow radix2 (- e2)))) as [Hge|Hlt].
  - (* the quotient has 54 bits: one more *)
    assert (Hy : (bpow radix2 53 <= x * bpow radix2 (- e2))%R).
    { rewrite <- P53. apply Rle_trans with (2 := Zfloor_lb _). apply IZR_le. exact Hge. }
    assert (E21 : e2 = L - 53).
    { destruct (Z.eq_dec e2 (L - 53)) as [E|E]; [exact E|]. exfalso.
      assert (L - 53 + 1 <= e2) by (unfold e2 in *; lia).
      pose proof (Sc (L + 1) e2 Xup) as H1. assert (bpow radix2 (L + 1 - e2) <= bpow radix2 53)%R by (apply bpow_le; lia). lra. }
    apply nf_cexp; [exact Hx|unfold e2; lia| |right].
    + replace (e2 + 1 + 53) with (L + 1) by lia. exact Xup.
    + replace (e2 + 1 + 52) with (53 + e2) by lia. apply Sc'. exact Hy.
  - assert (Hy : (x * bpow radix2 (- e2) < bpow radix2 53)%R).
    { rewrite <- P53. apply Rlt_le_trans with (1 := Zfloor_ub _). rewrite <- (plus_IZR _ 1). apply IZR_le. lia. }
    apply nf_cexp; [exact Hx|unfold e2; lia| |].
    + rewrite Z.add_comm. apply Sc''. exact Hy.
    + destruct (Z.eq_dec e2 (-1074)) as [E|E]; [left; exact E|right].
      assert (E21 : e2 = L - 53) by (unfold e2 in *; lia). replace (e2 + 52) with (L - 1) by lia. lra.
Qed.

(* p * 2^e against 2^1024 *)
Lemma nf_overflow_test (p : positive) e :
  if 1024 <=? Z.log2 (Zpos p) + e then (bpow radix2 1024 <= F2R (Float radix2 (Zpos p) e))%R
  else (F2R (Float radix2 (Zpos p) e) < bpow radix2 1024)%R.
Proof.
  pose proof (nf_log2_bounds (Zpos p) ltac:(lia)) as [L1 L2]. unfold F2R; cbn [Fnum Fexp].
  pose proof (bpow_gt_0 radix2 e) as He.
  destruct (Z.leb_spec 1024 (Z.log2 (Zpos p) + e)) as [H|H].
  - apply Rle_trans with (bpow radix2 (Z.log2 (Zpos p) + e)); [apply bpow_le; exact H|].
    rewrite bpow_plus. apply Rmult_le_compat_r; lra.
  - apply Rlt_le_trans with (bpow radix2 (Z.log2 (Zpos p) + 1 + e)); [|apply bpow_le; lia].
    rewrite bpow_plus. apply Rmult_lt_compat_r; lra.
Qed.

(* what a result of the conversion says about the real number x it converts: err == nil with the value
   round(x) (sign applied), below the overflow threshold; or ErrRange exactly when round(x) reaches 2^1024 *)
Definition nf_res_spec (neg : bool) (x : R) (r : float_res) : Prop :=
  match r with
  | FRVal f => ff_R f = cond_Ropp neg (nf_round x) /\ (nf_round x < bpow radix2 1024)%R /\
               match f with FFin m _ => (m <? 0) = neg /\ nf_round x <> 0%R | FZero s => s = neg /\ nf_round x = 0%R | _ => False end
  | FRRange => (bpow radix2 1024 <= nf_round x)%R
  | FRSyntax => False
  end.

Theorem nf_round_ratio neg n d : 0 < n -> 0 < d -> nf_res_spec neg (IZR n / IZR d) (round_ratio neg n d).
Proof.
  intros Hn Hd. pose proof (nf_exponent n d Hn Hd) as Hc. cbv zeta in Hc.
  unfold round_ratio. cbv zeta.
  set (e := if two53 <=? floor_div_pow2 n d (Z.max (Z.log2 n - Z.log2 d - 53) (-1074))
            then Z.max (Z.log2 n - Z.log2 d - 53) (-1074) + 1 else Z.max (Z.log2 n - Z.log2 d - 53) (-1074)) in *.
  pose proof (nf_round_at _ _ Hc) as Hr. rewrite <- (nf_round_div n d e ltac:(lia) Hd) in Hr.
  assert (Hnn : 0 <= round_div_pow2 n d e).
  { rewrite (nf_round_div n d e ltac:(lia) Hd). apply Z.le_trans with (ZnearestE (IZR 0)); [rewrite (@Zrnd_IZR _ (valid_rnd_N _)); apply Z.le_refl|].
    apply (@Zrnd_le _ (valid_rnd_N _)). simpl (IZR 0). apply Rmult_le_pos; [|apply Rlt_le, bpow_gt_0].
    apply Rlt_le, Rdiv_lt_0_compat; apply IZR_lt; lia. }
  destruct (round_div_pow2 n d e) as [|p|p] eqn:Ep; try lia.
  - cbn [nf_res_spec ff_R]. rewrite Hr, F2R_0. repeat split; [destruct neg; cbn; lra|apply bpow_gt_0].
  - pose proof (nf_overflow_test p e) as Ho. destruct (1024 <=? Z.log2 (Zpos p) + e).
    + cbn [nf_res_spec]. rewrite Hr. exact Ho.
    + destruct (strip2 p e) as [m e'] eqn:Es. cbn [nf_res_spec ff_R]. rewrite Hr.
      split; [|split; [exact Ho|split]].
      * rewrite <- (ff_strip2 p e m e' Es neg). destruct neg; cbn [cond_Ropp]; [|reflexivity].
        change (Zneg p) with (- Zpos p). apply F2R_Zopp.
      * destruct neg; reflexivity.
      * apply Rgt_not_eq. apply F2R_gt_0. reflexivity.
Qed.

(* ---- decimal literals ---- *)
Definition nf_digits (s : bstr) : Prop := Forall (fun c => is_dec_digit c = true) s.

Lemma nf_span_digits s : forall d r, span_digits s = (d, r) -> s = (d ++ r)%list /\ nf_digits d.
Proof.
  induction s as [|c s IH]; intros d r H; cbn [span_digits] in H.
  - injection H as <- <-. split; [reflexivity|constructor].
  - destruct (is_dec_digit c) eqn:Ec.
    + destruct (span_digits s) as [d' r'] eqn:Es. injection H as <- <-. destruct (IH d' r' eq_refl) as [-> Hd].
      split; [reflexivity|constructor; assumption].
    + injection H as <- <-. split; [reflexivity|constructor].
Qed.

Lemma nf_dec_val_bound s : nf_digits s -> forall acc, (dec_val s acc < (acc + 1) * 10 ^ N.of_nat (length s))%N.
Proof.
  induction 1 as [|c s Hc Hs IH]; intros acc; cbn [dec_val length].
  - cbn. lia.
  - specialize (IH (acc * 10 + (c - 48))%N). unfold is_dec_digit, in_range in Hc.
    replace (N.of_nat (S (length s))) with (1 + N.of_nat (length s))%N by lia. rewrite N.pow_add_r. 
    change (10 ^ 1)%N with 10%N. nia.
Qed.

(* the fields of a literal split_float accepts are digit strings *)
Lemma nf_split_digits s l : split_float s = Some l -> nf_digits (lit_int l ++ lit_frac l).
Proof.
  unfold split_float.
  set (s1 := snd (match s with 45%N :: r => (true, r) | _ => (false, s) end)).
  destruct (match s with 45%N :: r => (true, r) | _ => (false, s) end) as [neg s1'] eqn:E0.
  destruct (span_digits s1') as [ip s2] eqn:E1. destruct (nf_span_digits _ _ _ E1) as [_ Hip].
  destruct ip as [|i0 ip]; [discriminate|].
  assert (Haf : forall fp s3 l0, nf_digits fp ->
     match s3 with
     | [] => Some {| lit_neg := neg; lit_int := i0 :: ip; lit_frac := fp; lit_eneg := false; lit_exp := [] |}
     | 101%N :: s4 =>
         let '(eneg, s5) := match s4 with 43%N :: r => (false, r) | 45%N :: r => (true, r) | _ => (false, s4) end in
         let '(ex, s6) := span_digits s5 in
         match ex, s6 with
         | _ :: _, [] => Some {| lit_neg := neg; lit_int := i0 :: ip; lit_frac := fp; lit_eneg := eneg; lit_exp := ex |}
         | _, _ => None
         end
     | _ => None
     end = Some l0 -> nf_digits (lit_int l0 ++ lit_frac l0)).
  { intros fp s3 l0 Hfp H. destruct s3 as [|c s4].
    - injection H as <-. cbn [lit_int lit_frac]. apply Forall_app. split; assumption.
    - destruct (N.eqb_spec c 101) as [->|Hne].
      + destruct (match s4 with 43%N :: r => (false, r) | 45%N :: r => (true, r) | _ => (false, s4) end) as [eneg s5].
        destruct (span_digits s5) as [ex s6]. destruct ex as [|x ex]; [discriminate|]. destruct s6; [|discriminate].
        injection H as <-. cbn [lit_int lit_frac]. apply Forall_app. split; assumption.
      + exfalso. revert H. clear - Hne. destruct c as [|p]; [discriminate|].
        do 7 (destruct p as [p|p|]; try discriminate). congruence. }
  destruct s2 as [|c s3].
  - intros H. apply (Haf [] [] l); [constructor|exact H].
  - destruct (N.eqb_spec c 46) as [->|Hne].
    + destruct (span_digits s3) as [fp s4] eqn:E2. destruct (nf_span_digits _ _ _ E2) as [_ Hfp].
      destruct fp as [|f0 fp]; [discriminate|]. intros H. apply (Haf (f0 :: fp) s4 l Hfp H).
    + intros H. apply (Haf [] (c :: s3) l); [constructor|].
      revert H. clear - Hne. destruct c as [|p]; [intros H; exact H|]. do 7 (try (destruct p as [p|p|]; try (intros H; exact H); try congruence)).
Qed.

(* the decimal value of a literal, sign apart: digits * 10^(exponent - number of fraction digits) *)
Definition nf_lit_k (l : float_lit) : Z :=
  (if lit_eneg l then - Z.of_N (dec_val (lit_exp l) 0) else Z.of_N (dec_val (lit_exp l) 0)) - Z.of_nat (length (lit_frac l)).
Definition nf_lit_abs (l : float_lit) : R :=
  let d := Z.of_N (dec_val (lit_int l ++ lit_frac l) 0) in
  let k := nf_lit_k l in
  if 0 <=? k then IZR (d * 10 ^ k) else (IZR d / IZR (10 ^ (- k)))%R.

Lemma nf_valid_exp : Valid_exp nf_fexp.
Proof. apply FLT_exp_valid. exact ff_prec_gt_0. Qed.
#[local] Existing Instance nf_valid_exp.

Lemma nf_round_0 : nf_round 0 = 0%R.
Proof. unfold nf_round. apply round_0. apply valid_rnd_N. Qed.

(* at least 2^1024: ErrRange *)
Lemma nf_round_big x : (bpow radix2 1024 <= x)%R -> (bpow radix2 1024 <= nf_round x)%R.
Proof.
  intros H. unfold nf_round. apply round_ge_generic; [exact nf_valid_exp|apply valid_rnd_N| |exact H].
  apply generic_format_bpow. unfold nf_fexp, FLT_exp. lia.
Qed.

(* below half of the least subnormal: zero *)
Lemma nf_round_tiny x : (0 < x < bpow radix2 (-1075))%R -> nf_round x = 0%R.
Proof.
  intros [H0 H1].
  assert (Hc : cexp radix2 nf_fexp x = -1074).
  { apply nf_cexp; [exact H0|lia| |left; reflexivity].
    apply Rlt_trans with (1 := H1). apply bpow_lt. lia. }
  rewrite (nf_round_at x _ Hc). replace (ZnearestE (x * bpow radix2 (- -1074))) with 0; [apply F2R_0|].
  symmetry. apply Znearest_imp. simpl (IZR 0). rewrite Rminus_0_r.
  assert (0 < x * bpow radix2 (- -1074) < / 2)%R; [|rewrite Rabs_pos_eq; lra].
  split; [apply Rmult_lt_0_compat; [exact H0|apply bpow_gt_0]|].
  replace (/ 2)%R with (bpow radix2 (-1075) * bpow radix2 (- -1074))%R.
  - apply Rmult_lt_compat_r; [apply bpow_gt_0|exact H1].
  - rewrite <- bpow_plus. reflexivity.
Qed.

Lemma nf_pow_big : 2 ^ 1024 <= 10 ^ 401. Proof. vm_compute. discriminate. Qed.
Lemma nf_pow_small : 2 ^ 1075 <= 10 ^ 401. Proof. vm_compute. discriminate. Qed.

Theorem nf_float_of_lit l : nf_digits (lit_int l ++ lit_frac l) ->
  nf_res_spec (lit_neg l) (nf_lit_abs l) (float_of_lit l).
Proof.
  intros Hdig. unfold float_of_lit, nf_lit_abs. cbv zeta. fold (nf_lit_k l).
  set (ds := (lit_int l ++ lit_frac l)%list) in *. set (dv := dec_val ds 0). set (k := nf_lit_k l).
  pose proof (nf_dec_val_bound ds Hdig 0%N) as Hb. fold dv in Hb.
  destruct (N.eqb_spec dv 0) as [E0|E0].
  - (* all digits zero *)
    assert (Ex : (if 0 <=? k then IZR (Z.of_N dv * 10 ^ k) else (IZR (Z.of_N dv) / IZR (10 ^ (- k)))%R) = 0%R).
    { rewrite E0. destruct (0 <=? k); [rewrite Z.mul_0_l; reflexivity|]. simpl (IZR (Z.of_N 0)). unfold Rdiv. apply Rmult_0_l. }
    rewrite Ex. cbn [nf_res_spec ff_R]. rewrite nf_round_0. repeat split; [destruct (lit_neg l); cbn; lra|apply bpow_gt_0].
  - assert (Hd : 0 < Z.of_N dv) by lia.
    destruct (Z.ltb_spec 400 k) as [Hk|Hk].
    + (* beyond 10^400 *)
      replace (0 <=? k) with true by lia. cbn [nf_res_spec]. apply nf_round_big.
      rewrite (nf_bpow_IZR 1024) by lia. apply IZR_le.
      assert (10 ^ 401 <= 10 ^ k) by (apply Z.pow_le_mono_r; lia). pose proof nf_pow_big. nia.
    + destruct (Z.ltb_spec (k + Z.of_nat (length ds)) (-400)) as [Hs|Hs].
      * (* below 10^-400 *)
        replace (0 <=? k) with false by lia.
        assert (Hx : nf_round (IZR (Z.of_N dv) / IZR (10 ^ (- k))) = 0%R).
        { apply nf_round_tiny.
          assert (P10 : 0 < 10 ^ (- k)) by (apply Z.pow_pos_nonneg; lia).
          assert (Hp : (0 < IZR (10 ^ (- k)))%R) by (apply IZR_lt; exact P10).
          split; [apply Rdiv_lt_0_compat; [apply IZR_lt; exact Hd|exact Hp]|].
          change (-1075) with (Z.opp 1075). rewrite bpow_opp, (nf_bpow_IZR 1075) by lia.
          assert (P2 : (0 < IZR (2 ^ 1075))%R) by (apply IZR_lt; reflexivity).
          apply (Rmult_lt_reg_r (IZR (10 ^ (- k)))); [exact Hp|]. unfold Rdiv. rewrite Rmult_assoc, Rinv_l, Rmult_1_r by lra.
          apply (Rmult_lt_reg_l (IZR (2 ^ 1075))); [exact P2|]. rewrite <- Rmult_assoc, Rinv_r, Rmult_1_l by lra.
          rewrite <- mult_IZR. apply IZR_lt.
          set (len := Z.of_nat (length ds)) in *.
          assert (Hlen : Z.of_N dv < 10 ^ len).
          { unfold len. rewrite <- nat_N_Z. change 10 with (Z.of_N 10). rewrite <- N2Z.inj_pow. lia. }
          assert (10 ^ (len + 401) <= 10 ^ (- k)) by (apply Z.pow_le_mono_r; lia).
          rewrite Z.pow_add_r in H by lia. pose proof nf_pow_small.
          assert (0 < 10 ^ len) by (apply Z.pow_pos_nonneg; lia). nia. }
        cbn [nf_res_spec ff_R]. rewrite Hx. repeat split; [destruct (lit_neg l); cbn; lra|apply bpow_gt_0].
      * destruct (Z.leb_spec 0 k) as [Hk0|Hk0].
        -- assert (P10 : 0 < 10 ^ k) by (apply Z.pow_pos_nonneg; lia).
           pose proof (nf_round_ratio (lit_neg l) (Z.of_N dv * 10 ^ k) 1 ltac:(nia) ltac:(lia)) as R.
           unfold Rdiv in R. rewrite Rinv_1, Rmult_1_r in R. exact R.
        -- assert (P10 : 0 < 10 ^ (- k)) by (apply Z.pow_pos_nonneg; lia).
           exact (nf_round_ratio (lit_neg l) (Z.of_N dv) (10 ^ (- k)) Hd P10).
Qed.

(* strconv.ParseFloat(s, 64) as the parser model computes it, on every text of the float syntax: the binary64
   nearest to the decimal value of the text (round to nearest, ties to even, subnormals included), ErrRange
   exactly when that rounding reaches 2^1024 *)
Theorem nf_parse_float_round s l : split_float s = Some l ->
  nf_res_spec (lit_neg l) (nf_lit_abs l) (parse_float_round s).
Proof.
  intros H. unfold parse_float_round. rewrite H. apply nf_float_of_lit. exact (nf_split_digits s l H).
Qed.
Print Assumptions nf_parse_float_round.

(* ---- the text of a literal: split_float accepts exactly  -? D+ (. D+)? (e [+-]? D+)?  and returns its pieces ---- *)
Definition nf_text (l : float_lit) (esgn : bstr) : bstr :=
  ((if lit_neg l then [45%N] else []) ++ lit_int l
   ++ (match lit_frac l with [] => [] | f => 46%N :: f end)
   ++ (match lit_exp l with [] => [] | ex => 101%N :: esgn ++ ex end))%list.

Lemma nf_split_text s l : split_float s = Some l ->
  lit_int l <> [] /\ nf_digits (lit_int l) /\ nf_digits (lit_frac l) /\ nf_digits (lit_exp l) /\
  exists esgn, s = nf_text l esgn /\ (esgn = [] \/ esgn = [43%N] \/ esgn = [45%N]) /\
               (lit_eneg l = true -> esgn = [45%N]) /\ (lit_exp l = [] -> lit_eneg l = false).
Proof.
  unfold split_float.
  assert (E0 : exists neg s1', match s with 45%N :: r => (true, r) | _ => (false, s) end = (neg, s1') /\
                 s = ((if neg then [45%N] else []) ++ s1')%list).
  { destruct s as [|c r]; [exists false, []; auto|]. destruct (N.eqb_spec c 45) as [->|Hne]; [exists true, r; auto|].
    exists false, (c :: r). split; [|reflexivity]. destruct c as [|p]; [reflexivity|].
    do 6 (try (destruct p as [p|p|]; try reflexivity; try congruence)). }
  destruct E0 as (neg & s1' & -> & Es).
  destruct (span_digits s1') as [ip s2] eqn:E1. destruct (nf_span_digits _ _ _ E1) as [Es1 Hip].
  destruct ip as [|i0 ip]; [discriminate|].
  assert (Haf : forall fp s3 l0, nf_digits fp ->
     match s3 with
     | [] => Some {| lit_neg := neg; lit_int := i0 :: ip; lit_frac := fp; lit_eneg := false; lit_exp := [] |}
     | 101%N :: s4 =>
         let '(eneg, s5) := match s4 with 43%N :: r => (false, r) | 45%N :: r => (true, r) | _ => (false, s4) end in
         let '(ex, s6) := span_digits s5 in
         match ex, s6 with
         | _ :: _, [] => Some {| lit_neg := neg; lit_int := i0 :: ip; lit_frac := fp; lit_eneg := eneg; lit_exp := ex |}
         | _, _ => None
         end
     | _ => None
     end = Some l0 ->
     lit_neg l0 = neg /\ lit_int l0 = i0 :: ip /\ lit_frac l0 = fp /\ nf_digits (lit_exp l0) /\
     exists esgn, s3 = (match lit_exp l0 with [] => [] | ex => 101%N :: esgn ++ ex end) /\
                  (esgn = [] \/ esgn = [43%N] \/ esgn = [45%N]) /\ (lit_eneg l0 = true -> esgn = [45%N]) /\
                  (lit_exp l0 = [] -> lit_eneg l0 = false)).
  { intros fp s3 l0 Hfp H. destruct s3 as [|c s4].
    - injection H as <-. cbn. repeat split; try constructor. exists []. repeat split; auto; discriminate.
    - destruct (N.eqb_spec c 101) as [->|Hne].
      + assert (E5 : exists eneg s5 esgn, match s4 with 43%N :: r => (false, r) | 45%N :: r => (true, r) | _ => (false, s4) end = (eneg, s5)
                       /\ s4 = (esgn ++ s5)%list /\ (esgn = [] \/ esgn = [43%N] \/ esgn = [45%N]) /\ (eneg = true -> esgn = [45%N])).
        { destruct s4 as [|c r]; [exists false, [], []; repeat split; auto; discriminate|].
          destruct (N.eqb_spec c 43) as [->|H43]; [exists false, r, [43%N]; repeat split; auto; discriminate|].
          destruct (N.eqb_spec c 45) as [->|H45]; [exists true, r, [45%N]; repeat split; auto|].
          exists false, (c :: r), []. repeat split; auto; try discriminate.
          destruct c as [|p]; [reflexivity|]. do 6 (try (destruct p as [p|p|]; try reflexivity; try congruence)). }
        destruct E5 as (eneg & s5 & esgn & E5 & Es4 & Hsg & Hen). rewrite E5 in H.
        destruct (span_digits s5) as [ex s6] eqn:E6. destruct (nf_span_digits _ _ _ E6) as [Es5 Hex].
        destruct ex as [|x ex]; [discriminate|]. destruct s6; [|discriminate].
        injection H as <-. cbn [lit_neg lit_int lit_frac lit_exp lit_eneg]. repeat split; auto.
        exists esgn. rewrite Es4, Es5, app_nil_r. repeat split; auto. discriminate.
      + exfalso. revert H. clear - Hne. destruct c as [|p]; [discriminate|].
        do 7 (try (destruct p as [p|p|]; try discriminate; try congruence)). }
  assert (Hfin : forall fp s3 l0, nf_digits fp -> s2 = ((match fp with [] => [] | f => 46%N :: f end) ++ s3)%list ->
     lit_neg l0 = neg /\ lit_int l0 = i0 :: ip /\ lit_frac l0 = fp /\ nf_digits (lit_exp l0) /\
     (exists esgn, s3 = (match lit_exp l0 with [] => [] | ex => 101%N :: esgn ++ ex end) /\
                  (esgn = [] \/ esgn = [43%N] \/ esgn = [45%N]) /\ (lit_eneg l0 = true -> esgn = [45%N]) /\
                  (lit_exp l0 = [] -> lit_eneg l0 = false)) ->
     lit_int l0 <> [] /\ nf_digits (lit_int l0) /\ nf_digits (lit_frac l0) /\ nf_digits (lit_exp l0) /\
     exists esgn, s = nf_text l0 esgn /\ (esgn = [] \/ esgn = [43%N] \/ esgn = [45%N]) /\
                  (lit_eneg l0 = true -> esgn = [45%N]) /\ (lit_exp l0 = [] -> lit_eneg l0 = false)).
  { intros fp s3 l0 Hfp Es2 (Hn & Hi & Hf & Hx & esgn & Es3 & Hsg & Hen & Hz).
    rewrite Hi, Hf. repeat split; auto; [discriminate|]. exists esgn. repeat split; auto.
    unfold nf_text. rewrite Hn, Hi, Hf, Es, Es1, Es2, Es3. rewrite <- ?app_assoc. destruct fp; reflexivity. }
  destruct s2 as [|c s3].
  - intros H. apply (Hfin [] [] l); [constructor|reflexivity|]. apply (Haf [] [] l); [constructor|exact H].
  - destruct (N.eqb_spec c 46) as [->|Hne].
    + destruct (span_digits s3) as [fp s4] eqn:E2. destruct (nf_span_digits _ _ _ E2) as [Es3 Hfp].
      destruct fp as [|f0 fp]; [discriminate|]. intros H.
      apply (Hfin (f0 :: fp) s4 l Hfp); [rewrite Es3; reflexivity|]. apply (Haf (f0 :: fp) s4 l Hfp H).
    + intros H. apply (Hfin [] (c :: s3) l); [constructor|reflexivity|]. apply (Haf [] (c :: s3) l); [constructor|].
      revert H. clear - Hne. destruct c as [|p]; [intros H; exact H|].
      do 7 (try (destruct p as [p|p|]; try (intros H; exact H); try congruence)).
Qed.

(* the statement with the text in view: whenever the conversion does not answer FRSyntax, the text is the
   literal  sign int [. frac] [e esgn exp]  (digit strings, int non-empty) and the result is the correctly
   rounded binary64 of its decimal value *)
Theorem nf_parse_float_correctly_rounded s : parse_float_round s <> FRSyntax ->
  exists l esgn, s = nf_text l esgn /\ lit_int l <> [] /\ nf_digits (lit_int l) /\ nf_digits (lit_frac l) /\ nf_digits (lit_exp l) /\
    (esgn = [] \/ esgn = [43%N] \/ esgn = [45%N]) /\ (lit_eneg l = true -> esgn = [45%N]) /\
    nf_res_spec (lit_neg l) (nf_lit_abs l) (parse_float_round s).
Proof.
  intros Hs. destruct (split_float s) as [l|] eqn:E; [|exfalso; apply Hs; unfold parse_float_round; rewrite E; reflexivity].
  destruct (nf_split_text s l E) as (H1 & H2 & H3 & H4 & esgn & H5 & H6 & H7 & _).
  exists l, esgn. repeat split; auto. exact (nf_parse_float_round s l E).
Qed.

(* ---- instances (the model computes; the theorem says what the value is) ---- *)
Example nf_tenth : parse_float_round [48; 46; 49]%N = FRVal (FFin 3602879701896397 (-55)).
Proof. vm_compute. reflexivity. Qed.
Example nf_tenth_spec : ff_R (FFin 3602879701896397 (-55)) = nf_round (IZR 1 / IZR 10).
Proof.
  pose proof (nf_parse_float_round [48; 46; 49]%N _ eq_refl) as H. rewrite nf_tenth in H.
  destruct H as (H & _). exact H.
Qed.
(* 1e400 overflows; 5e-324 is the least subnormal; 2e-324 rounds to zero *)
Example nf_overflow : parse_float_round [49; 101; 52; 48; 48]%N = FRRange.
Proof. vm_compute. reflexivity. Qed.
Example nf_subnormal : parse_float_round [53; 101; 45; 51; 50; 52]%N = FRVal (FFin 1 (-1074)).
Proof. vm_compute. reflexivity. Qed.
Example nf_underflow : parse_float_round [50; 101; 45; 51; 50; 52]%N = FRVal (FZero false).
Proof. vm_compute. reflexivity. Qed.
