(* C06, part 11: the extended model of Model/InterpJson.v is a conservative extension of the
   shared walker Model/Interp.v: EVERY successful run of [walk] (outcome Ok) is reproduced exactly --
   same value, same final state, hence same Write calls -- by [walk_xj].  ([walk] answers
   OutOfModel where the extended model computes: escapeJsString, json, round with digits; and an
   error where json prints a value whose String() panics; in both cases there is nothing to agree
   with.)  Proof: the relational walker principle of Proofs/InterpRel.v with the relation
   "the right-hand run is not Ok, or both runs are equal", plus the two intercepted nodes:
   {print} (value-level directive loop against the String()-image loop) and round(). *)
From Coq Require Import Lia ZifyN ZifyBool ZifyNat.
From Soy Require Import Model.Bytes Model.Utf8 Model.Num Model.Values Model.Outcome Model.Ast
  Model.Escape Model.Directives Model.JsEscape Model.Print Generated.Tables Model.Interp Model.InterpSafety
  Model.InterpJson Spec.Safety Proofs.ValueProofs Proofs.InterpLogic Proofs.InterpGuard Proofs.InterpRel
  Proofs.SafetyMono.
Open Scope N_scope.

Definition not_ok {A} (o : outcome A) : Prop := forall x, o <> Ok x.

(* [m1] (extended) against [m2] (Interp), possibly with results of different types related by R *)
Definition agok2 {A B} (R : A -> B -> Prop) (m1 : M A) (m2 : M B) : Prop :=
  forall st, not_ok (fst (m2 st)) \/
             exists a b, m1 st = (Ok a, snd (m2 st)) /\ fst (m2 st) = Ok b /\ R a b.
Definition agok {A} (m1 m2 : M A) : Prop :=
  forall st, not_ok (fst (m2 st)) \/ m1 st = m2 st.

Lemma not_ok_cases {A} (o : outcome A) : not_ok o \/ exists x, o = Ok x.
Proof. destruct o; try (left; intros y; discriminate). right. eexists. reflexivity. Qed.

Lemma agok_of_2 {A} (m1 m2 : M A) : agok2 eq m1 m2 -> agok m1 m2.
Proof.
  intros H st. destruct (H st) as [Hn|(a & c & E1 & E2 & ->)]; [left; exact Hn|].
  right. rewrite E1. destruct (m2 st) as [r s]. cbn [fst snd] in *. subst r. reflexivity.
Qed.

Lemma agok_to_2 {A} (m1 m2 : M A) : agok m1 m2 -> agok2 eq m1 m2.
Proof.
  intros H st. destruct (H st) as [Hn|He]; [left; exact Hn|].
  destruct (not_ok_cases (fst (m2 st))) as [Hn|[x Hx]]; [left; exact Hn|].
  right. exists x, x. rewrite He. destruct (m2 st) as [r s]. cbn [fst snd] in *. subst r. repeat split.
Qed.

Lemma agok_refl {A} (m : M A) : agok m m.
Proof. intros st. right. reflexivity. Qed.

Lemma not_ok_bind {A B} (m : M A) (f : A -> M B) st : not_ok (fst (m st)) -> not_ok (fst (mbind m f st)).
Proof.
  intros Hn. unfold mbind. destruct (m st) as [[x|e|e| | | ] s]; cbn [fst] in *;
    try (intros y; discriminate). exfalso. eapply Hn. reflexivity.
Qed.

Lemma agok2_bind2 {A B C D} (R : A -> B -> Prop) (S : C -> D -> Prop)
      (m1 : M A) (m2 : M B) (f1 : A -> M C) (f2 : B -> M D) :
  agok2 R m1 m2 -> (forall a b, R a b -> agok2 S (f1 a) (f2 b)) -> agok2 S (mbind m1 f1) (mbind m2 f2).
Proof.
  intros Hm Hf st. destruct (Hm st) as [Hn|(a & c & E1 & E2 & HR)].
  - left. apply not_ok_bind. exact Hn.
  - unfold mbind. rewrite E1. destruct (m2 st) as [r s]. cbn [fst snd] in *. subst r. apply Hf. exact HR.
Qed.

Lemma agok_bind {A B} (m1 m2 : M A) (f1 f2 : A -> M B) :
  agok m1 m2 -> (forall x, agok (f1 x) (f2 x)) -> agok (mbind m1 f1) (mbind m2 f2).
Proof.
  intros Hm Hf. apply agok_of_2. apply (agok2_bind2 eq eq); [apply agok_to_2; exact Hm|].
  intros a c <-. apply agok_to_2. apply Hf.
Qed.

Lemma agok2_bind {A B C} (R : A -> B -> Prop) (m1 : M A) (m2 : M B) (f1 : A -> M C) (f2 : B -> M C) :
  agok2 R m1 m2 -> (forall a b, R a b -> agok (f1 a) (f2 b)) -> agok (mbind m1 f1) (mbind m2 f2).
Proof.
  intros Hm Hf. apply agok_of_2. apply (agok2_bind2 R eq); [exact Hm|].
  intros a c HR. apply agok_to_2. apply Hf. exact HR.
Qed.

Lemma agok_fail_r {A} (m1 : M A) e : agok m1 (fail e).
Proof. intros st. left. intros y. discriminate. Qed.
Lemma agok2_fail_r {A B} (R : A -> B -> Prop) (m1 : M A) e : agok2 R m1 (fail e).
Proof. intros st. left. intros y. discriminate. Qed.

Lemma agok_logic : walker_logic_r (fun _ => true) (@agok) (@agok value) (fun _ _ => True).
Proof.
  constructor; intros; try apply agok_refl.
  - intros st. rewrite <- H, <- H0. apply H1.
  - apply agok_bind; assumption.
  - intros st. apply (H (mode st) st).
  - intros st. apply (H (ctx st) st).
  - apply agok_bind; [apply agok_refl|]. intros _.
    apply agok_bind; [assumption|]. intros _. apply agok_refl.
  - (* eval *)
    intros st. rewrite !eval_eq. destruct (H st) as [Hn|He].
    + left. destruct (w2 e st) as [[x|e0|e0| | | ] s]; cbn [fst snd classify of_fault] in *;
        try (intros y; discriminate). exfalso. eapply Hn. reflexivity.
    + right. rewrite He. reflexivity.
  - (* block *)
    intros st. rewrite !render_block_eq. destruct (H (buf_pushed st)) as [Hn|He].
    + left. destruct (w2 body (buf_pushed st)) as [[x|e0|e0| | | ] s]; cbn [fst snd classify of_fault] in *;
        try (intros y; discriminate). exfalso. eapply Hn. reflexivity.
    + right. rewrite He. reflexivity.
  - (* enter *)
    intros st. rewrite !call_enter_eq. cbn zeta. destruct (H (entered st callee cd)) as [Hn|He].
    + left. cbn [fst]. destruct (w2 (t_node callee) (entered st callee cd)) as [[x|e0|e0| | | ] s];
        cbn [fst snd classify of_fault] in *; try (intros y; discriminate). exfalso. eapply Hn. reflexivity.
    + right. rewrite He. reflexivity.
Qed.

Lemma walk_body_agok cf (w1 w2 : node -> M value) :
  (forall n, agok (w1 n) (w2 n)) -> forall n, agok (walk_body cf w1 n) (walk_body cf w2 n).
Proof.
  intros Hw n.
  apply (rphi_walk_body cf (fun _ => true) (@agok) (@agok value) (fun _ _ => True)
           agok_logic approx_pure_sites (fun _ _ => eq_refl) w1 w2).
  - intros c _. apply Hw.
  - intros callee _. apply Hw.
  - apply deep_true.
Qed.

Lemma agok_eval (w1 w2 : node -> M value) e : agok (w1 e) (w2 e) -> agok (eval w1 e) (eval w2 e).
Proof.
  intros H st. rewrite !eval_eq. destruct (H st) as [Hn|He].
  - left. destruct (w2 e st) as [[x|e0|e0| | | ] s]; cbn [fst snd classify of_fault] in *;
      try (intros y; discriminate). exfalso. eapply Hn. reflexivity.
  - right. rewrite He. reflexivity.
Qed.

Lemma bstr_eqb_eq x y : bstr_eqb x y = true -> x = y.
Proof. destruct (bstr_eqb_spec x y); congruence. Qed.

Lemma agok_eval_list (w1 w2 : node -> M value) es :
  (forall n, agok (w1 n) (w2 n)) -> agok (eval_list w1 es) (eval_list w2 es).
Proof.
  intros Hw. induction es as [|e r IH]; cbn [eval_list]; [apply agok_refl|].
  apply agok_bind; [apply agok_eval; apply Hw|]. intros v.
  apply agok_bind; [exact IH|]. intros vs. apply agok_refl.
Qed.

(* ------------------------------------------------------------------ *)
(* {print}: the value-level directive loop reproduces every successful String()-image loop *)

Definition dconv (d : bstr * list value) : bstr * list darg := (fst d, map darg_of (snd d)).

Lemma value_string_str s : value_string (VStr s) = Ok s.
Proof. reflexivity. Qed.

Lemma truncate_short s n e : (Z.of_nat (length s) <=? n)%Z = true -> truncate s n e = Ok s.
Proof. intros H. unfold truncate. rewrite H. reflexivity. Qed.

(* the two directives the regenerated table binds to functions Model/Directives.v does not model *)
Lemma apply_fn_unmodelled fn args s :
  Directives.fn_is fn fn_NoAutoescape = false -> Directives.fn_is fn fn_EscapeHtml = false ->
  Directives.fn_is fn fn_ChangeNewlineToBr = false -> Directives.fn_is fn fn_EscapeUri = false ->
  Directives.fn_is fn fn_InsertWordBreaks = false -> Directives.fn_is fn fn_Truncate = false ->
  apply_fn fn args s = OutOfModel.
Proof. intros H1 H2 H3 H4 H5 H6. unfold apply_fn. rewrite H1, H2, H3, H4, H5, H6. reflexivity. Qed.

Lemma lookup_json_fn : exists arglens cancel nilapply fn,
  lookup_directive n_json = Some (arglens, (cancel, (nilapply, fn))) /\ forall args s, apply_fn fn args s = OutOfModel.
Proof. do 4 eexists. split; [vm_compute; reflexivity|]. intros args s. apply apply_fn_unmodelled; vm_compute; reflexivity. Qed.

Lemma lookup_escjs_fn : exists arglens cancel nilapply fn,
  lookup_directive n_escapeJsString = Some (arglens, (cancel, (nilapply, fn))) /\ forall args s, apply_fn fn args s = OutOfModel.
Proof. do 4 eexists. split; [vm_compute; reflexivity|]. intros args s. apply apply_fn_unmodelled; vm_compute; reflexivity. Qed.

Lemma apply_fn_truncate_keeps fn args s s1 :
  truncate_keeps fn args s = true -> apply_fn fn args s = Ok s1 -> s1 = s.
Proof.
  unfold truncate_keeps. intros Hk Ha. apply andb_prop in Hk as [Hfn Hlen].
  destruct args as [|[n| |] rest]; try discriminate.
  unfold apply_fn in Ha.
  destruct (Directives.fn_is fn fn_NoAutoescape); [congruence|].
  destruct (Directives.fn_is fn fn_EscapeHtml) eqn:E2.
  { (* fn cannot be both *) unfold Directives.fn_is in *. apply bstr_eqb_eq in E2. apply bstr_eqb_eq in Hfn. subst fn. discriminate. }
  destruct (Directives.fn_is fn fn_ChangeNewlineToBr) eqn:E3.
  { unfold Directives.fn_is in *. apply bstr_eqb_eq in E3. apply bstr_eqb_eq in Hfn. subst fn. discriminate. }
  destruct (Directives.fn_is fn fn_EscapeUri) eqn:E4.
  { unfold Directives.fn_is in *. apply bstr_eqb_eq in E4. apply bstr_eqb_eq in Hfn. subst fn. discriminate. }
  destruct (Directives.fn_is fn fn_InsertWordBreaks) eqn:E5.
  { unfold Directives.fn_is in *. apply bstr_eqb_eq in E5. apply bstr_eqb_eq in Hfn. subst fn. discriminate. }
  rewrite Hfn in Ha.
  destruct rest as [|a2 rest2].
  - rewrite truncate_short in Ha by exact Hlen. congruence.
  - destruct rest2 as [|? ?].
    + destruct a2; try (rewrite truncate_short in Ha by exact Hlen); try rewrite Hlen in Ha; congruence.
    + destruct a2; discriminate.
Qed.

Lemma apply_dirs_x_agrees : forall dsv v s esc s' esc',
  value_string v = Ok s ->
  apply_directives (map dconv dsv) s esc = Ok (s', esc') ->
  exists v', apply_dirs_hook x_dirs dsv (Some v) esc = Ok (Some v', esc') /\ value_string v' = Ok s'.
Proof.
  induction dsv as [|[name args] rest IH]; intros v s esc s' esc' Hv H; cbn [map apply_directives] in H.
  - injection H as <- <-. exists v. split; [reflexivity | exact Hv].
  - cbn [dconv fst snd] in H. cbn [apply_dirs_hook].
    unfold x_dirs.
    destruct (lookup_directive name) as [[arglens [cancel [nilapply fn]]]|] eqn:Hl; [|discriminate].
    destruct (negb (check_num_args arglens (length (map darg_of args)))) eqn:Har; [discriminate|].
    rewrite map_length in Har.
    destruct nilapply; [discriminate|].
    destruct (apply_fn fn (map darg_of args) s) as [s1| | | | |] eqn:Ha; try discriminate. cbn [bind] in H.
    destruct (bstr_eqb name n_json) eqn:Ej.
    { exfalso. apply bstr_eqb_eq in Ej. subst name.
      destruct lookup_json_fn as (a1 & c1 & n1 & f1 & Hl1 & Hoom). rewrite Hl in Hl1. injection Hl1 as _ _ _ ->.
      rewrite Hoom in Ha. discriminate. }
    destruct (bstr_eqb name n_escapeJsString) eqn:Ee.
    { exfalso. apply bstr_eqb_eq in Ee. subst name.
      destruct lookup_escjs_fn as (a1 & c1 & n1 & f1 & Hl1 & Hoom). rewrite Hl in Hl1. injection Hl1 as _ _ _ ->.
      rewrite Hoom in Ha. discriminate. }
    cbn [de_arities de_cancel de_impl]. rewrite Har.
    destruct (Directives.fn_is fn fn_NoAutoescape) eqn:Eno.
    + (* the value is handed through; apply_fn returned the image unchanged *)
      assert (s1 = s) by (unfold apply_fn in Ha; rewrite Eno in Ha; congruence). subst s1.
      cbn [bind]. apply (IH v s _ s' esc' Hv H).
    + rewrite Hv. cbn [bind]. rewrite Ha. cbn [bind].
      destruct (truncate_keeps fn (map darg_of args) s) eqn:Ek.
      * pose proof (apply_fn_truncate_keeps _ _ _ _ Ek Ha) as ->. apply (IH v s _ s' esc' Hv H).
      * apply (IH (VStr s1) s1 _ s' esc' (value_string_str s1) H).
Qed.

Lemma print_writes_x_agrees mode dsv v s ws :
  value_string v = Ok s -> print_writes mode (map dconv dsv) s = Ok ws ->
  print_writes_hook x_dirs mode dsv v = Ok ws.
Proof.
  intros Hv H. unfold print_writes in H. unfold print_writes_hook.
  destruct (apply_directives (map dconv dsv) s (negb (mode =? 2))) as [[s' esc']| | | | |] eqn:Ha; try discriminate.
  destruct (apply_dirs_x_agrees dsv v s _ s' esc' Hv Ha) as (v' & E1 & E2).
  rewrite E1. cbn [bind] in H |- *. rewrite E2. cbn [bind]. exact H.
Qed.

Lemma lift_bind {A B} (o : outcome A) (f : A -> M B) st :
  (x <-- lift o ;;; f x) st =
  match o with
  | Ok a => f a st | Err e => (Err e, st) | Crash e => (Crash e, st)
  | Diverge => (Diverge, st) | OutOfFuel => (OutOfFuel, st) | OutOfModel => (OutOfModel, st)
  end.
Proof. unfold mbind, lift. destruct o; reflexivity. Qed.
Lemma get_bind {B} (f : mstate -> M B) st : (s <-- get ;;; f s) st = f st st.
Proof. reflexivity. Qed.

Section PrintNode.
Variable cf : cfg.
Variables w1 w2 : node -> M value.
Hypothesis Hw : forall n, agok (w1 n) (w2 n).

Lemma x_dirs_arities name arglens rest :
  lookup_directive name = Some (arglens, rest) -> exists de, x_dirs name = Some de /\ de_arities de = arglens.
Proof.
  intros Hl. unfold x_dirs. rewrite Hl. destruct rest as [cancel [nilapply fn]].
  destruct (bstr_eqb name n_json); [eexists; split; reflexivity|].
  destruct (bstr_eqb name n_escapeJsString); eexists; split; reflexivity.
Qed.

(* [Interp.print_dirs] checks the application of each directive as it goes (two lifted pure steps the hooked loop
   does not have): when they answer, the two loops go on together *)
Lemma agok2_lift_r {A B C} (R : A -> B -> Prop) (m1 : M A) (o : outcome C) (f : C -> M B) :
  (forall x, o = Ok x -> agok2 R m1 (f x)) -> agok2 R m1 (x <-- lift o ;;; f x).
Proof.
  intros H st. rewrite lift_bind. destruct o; try (left; cbn [fst]; intros y; discriminate).
  apply H. reflexivity.
Qed.

Lemma apply_directives_noesc ds : forall s s' e, apply_directives ds s false = Ok (s', e) -> e = false.
Proof.
  induction ds as [|[name args] rest IH]; intros s s' e H; cbn [apply_directives] in H.
  - injection H as _ <-. reflexivity.
  - destruct (lookup_directive name) as [[arglens [cancel [nilapply fn]]]|]; [|discriminate].
    destruct (negb _); [discriminate|]. destruct nilapply; [discriminate|].
    destruct (apply_fn fn args s) as [s1| | | | |]; try discriminate. cbn [bind andb] in H. exact (IH _ _ _ H).
Qed.

(* the result so far: the hooked loop carries a VALUE (or nil), [Interp.print_dirs] a string value with the same image *)
Definition same_image (ov : option value) (v : value) : Prop :=
  exists v', ov = Some v' /\ forall s, value_string v = Ok s -> value_string v' = Ok s.

Lemma agok2_lift_both {A B C D} (R : A -> B -> Prop) (o1 : outcome C) (o2 : outcome D) (f1 : C -> M A) (f2 : D -> M B) :
  (forall y, o2 = Ok y -> exists x, o1 = Ok x /\ agok2 R (f1 x) (f2 y)) ->
  agok2 R (x <-- lift o1 ;;; f1 x) (y <-- lift o2 ;;; f2 y).
Proof.
  intros H st. rewrite (lift_bind o2). destruct o2 as [y| | | | |]; try (left; cbn [fst]; intros z; discriminate).
  destruct (H y eq_refl) as (x & -> & Hf). rewrite (lift_bind (Ok x)). apply Hf.
Qed.

Lemma print_dirs_agok l : forall ov v, same_image ov v ->
  agok2 (fun dsv ds => ds = map dconv dsv) (print_dirs_hook cf x_dirs w1 l ov) (print_dirs cf w2 l v).
Proof.
  induction l as [|d r IH]; intros ov v Him; cbn [print_dirs_hook print_dirs].
  - intros st. right. do 2 eexists. split; [reflexivity|]. split; [reflexivity|].
    rewrite map_map. reflexivity.
  - destruct d; try apply agok2_fail_r.
    destruct (lookup_directive name) as [[arglens rest]|] eqn:Hl; [|apply agok2_fail_r].
    destruct (x_dirs_arities _ _ _ Hl) as (de & Hde & Har). rewrite Hde, Har.
    destruct (negb (check_num_args arglens (length args))); [apply agok2_fail_r|].
    apply (agok2_bind2 eq); [apply agok_to_2; apply agok_eval_list; exact Hw|]. intros vs ? <-.
    apply agok2_lift_r. intros s Hs.
    destruct Him as (v' & -> & Hv'). specialize (Hv' s Hs).
    apply agok2_lift_both. intros ws Hws.
    unfold print_writes in Hws.
    destruct (apply_directives [(name, map darg_of vs)] s (negb (2 =? 2))) as [[s' esc']| | | | |] eqn:Ha; try discriminate.
    change (negb (2 =? 2)) with false in Ha.
    pose proof (apply_directives_noesc _ _ _ _ Ha) as ->.
    cbn [bind] in Hws. injection Hws as <-.
    destruct (apply_dirs_x_agrees [(name, vs)] v' s false s' false Hv' Ha) as (v'' & E1 & E2).
    exists (Some v'', false). split; [exact E1|]. cbn [fst].
    apply (agok2_bind2 (fun dsv ds => ds = map dconv dsv)).
    + apply IH. exists v''. split; [reflexivity|]. intros s0 Hs0.
      cbn [concat_b] in Hs0. rewrite app_nil_r in Hs0. rewrite value_string_str in Hs0. injection Hs0 as <-. exact E2.
    + intros dsv ds ->. intros st. right. do 2 eexists. split; [reflexivity|]. split; [reflexivity|]. reflexivity.
Qed.

Lemma print_tail_agok v dsv :
  agok (st <-- get ;;; ws <-- lift (print_writes_hook x_dirs (mode st) dsv v) ;;; _ <-- write_all ws ;;; ret VUndef)
       (s <-- lift (value_string v) ;;; st <-- get ;;; ws <-- lift (print_writes (mode st) (map dconv dsv) s) ;;;
        _ <-- write_all ws ;;; ret VUndef).
Proof.
  intros st. rewrite get_bind. rewrite (lift_bind (value_string v)).
  destruct (value_string v) as [s| | | | |] eqn:Hv; try (left; intros y; discriminate).
  rewrite get_bind. rewrite (lift_bind (print_writes (mode st) (map dconv dsv) s)).
  destruct (print_writes (mode st) (map dconv dsv) s) as [ws| | | | |] eqn:Hp; try (left; intros y; discriminate).
  rewrite (lift_bind (print_writes_hook x_dirs (mode st) dsv v)).
  rewrite (print_writes_x_agrees _ _ _ _ _ Hv Hp). right. reflexivity.
Qed.

Lemma print_node_agok p arg dirs :
  agok (walk_body_hook cf x_funcs x_dirs w1 (NPrint p arg dirs)) (walk_body cf w2 (NPrint p arg dirs)).
Proof.
  cbn [walk_body_hook]. unfold walk_body. cbn [walk_node pos_of].
  apply agok_bind; [apply agok_refl|]. intros _.
  unfold print_hook. apply agok_bind; [apply Hw|]. intros v.
  assert (Hrest : agok (ds <-- print_dirs_hook cf x_dirs w1 dirs (Some v) ;;;
                        st <-- get ;;; ws <-- lift (print_writes_hook x_dirs (mode st) ds v) ;;; _ <-- write_all ws ;;; ret VUndef)
                       (ds <-- print_dirs cf w2 dirs v ;;;
                        s <-- lift (value_string v) ;;; st <-- get ;;; ws <-- lift (print_writes (mode st) ds s) ;;;
                        _ <-- write_all ws ;;; ret VUndef)).
  { apply (agok2_bind (fun dsv ds => ds = map dconv dsv)).
    { apply print_dirs_agok. exists v. split; [reflexivity|]. intros s Hs. exact Hs. }
    intros dsv ds ->. apply print_tail_agok. }
  destruct v; try exact Hrest. apply agok_refl.
Qed.
End PrintNode.

(* ------------------------------------------------------------------ *)
(* round() *)

Lemma af_round_eq vs :
  apply_func n_round vs =
  match vs with
  | [v] =>
      x <- to_float v ;;
      match fl_add x (if fl_isneg x && negb (fl_is_zero x) then fl_neg half else half) with
      | Some y => match fl_trunc_Z y with Some z => Ok (FVal (VInt (wrap64 z))) | None => OutOfModel end
      | None => OutOfModel
      end
  | [v; VInt d] =>
      x <- to_float v ;;
      if (d =? 0)%Z then
        match fl_add x (if fl_isneg x && negb (fl_is_zero x) then fl_neg half else half) with
        | Some y => match fl_trunc_Z y with Some z => Ok (FVal (VInt (wrap64 z))) | None => OutOfModel end
        | None => OutOfModel
        end
      else OutOfModel
  | [_; _] => Err e_type
  | _ => Err e_func
  end.
Proof. reflexivity. Qed.

Lemma round_x_agrees vs r : apply_func n_round vs = Ok r -> exists v, r = FVal v /\ round_x vs = Ok v.
Proof.
  rewrite af_round_eq. unfold round_x, round1.
  destruct vs as [|v [|v2 rest]]; [discriminate | |].
  - destruct (to_float v) as [x| | | | |]; cbn [bind]; try discriminate.
    destruct (fl_add _ _); [|discriminate]. destruct (fl_trunc_Z _); [|discriminate].
    intros H. injection H as <-. eexists. split; reflexivity.
  - destruct v2, rest; try discriminate.
    destruct (to_float v) as [x| | | | |]; cbn [bind]; try discriminate.
    destruct (z =? 0)%Z; [|discriminate].
    destruct (fl_add _ _); [|discriminate]. destruct (fl_trunc_Z _); [|discriminate].
    intros H. injection H as <-. eexists. split; reflexivity.
Qed.

Lemma round_arities : func_arities n_round = Some [1; 2].
Proof. vm_compute. reflexivity. Qed.

Lemma round_node_agok cf (w1 w2 : node -> M value) p args :
  (forall n, agok (w1 n) (w2 n)) ->
  agok (walk_body_hook cf x_funcs x_dirs w1 (NFunc p n_round args)) (walk_body cf w2 (NFunc p n_round args)).
Proof.
  intros Hw. cbn [walk_body_hook].
  change (is_loop_func n_round) with false. cbn iota.
  change (x_funcs n_round) with (Some {| fh_arities := [1; 2]; fh_apply := round_x |}). cbn iota.
  unfold walk_body. cbn [walk_node pos_of].
  change (Interp.fn_is n_round n_index || Interp.fn_is n_round n_isFirst || Interp.fn_is n_round n_isLast)%bool with false. cbn iota.
  apply agok_bind; [apply agok_refl|]. intros _.
  unfold hook_call, call_func. rewrite round_arities. cbn [fh_arities fh_apply].
  destruct (negb (mem (N.of_nat (length args)) [1; 2])); [apply agok_refl|].
  apply agok_bind; [apply agok_eval_list; exact Hw|]. intros vs.
  intros st. rewrite (lift_bind (apply_func n_round vs)).
  destruct (apply_func n_round vs) as [r| | | | |] eqn:Ha; try (left; intros y; discriminate).
  destruct (round_x_agrees _ _ Ha) as (v & -> & Hx). rewrite Hx. right. reflexivity.
Qed.

(* ------------------------------------------------------------------ *)
(* the walkers *)

Lemma walk_body_x_agok cf (w1 w2 : node -> M value) :
  (forall n, agok (w1 n) (w2 n)) -> forall n, agok (walk_body_hook cf x_funcs x_dirs w1 n) (walk_body cf w2 n).
Proof.
  intros Hw n.
  pose proof (walk_body_agok cf w1 w2 Hw n) as Hdef.
  destruct n; cbn [walk_body_hook]; try exact Hdef.
  - (* NFunc *)
    destruct (is_loop_func name) eqn:El; [exact Hdef|].
    unfold x_funcs. destruct (bstr_eqb name n_round) eqn:Er; [|exact Hdef].
    apply bstr_eqb_eq in Er. subst name. apply round_node_agok. exact Hw.
  - (* NPrint *) apply print_node_agok. exact Hw.
Qed.

Theorem walk_x_agok cf : forall f n, agok (walk_xj cf f n) (walk cf f n).
Proof.
  induction f as [|f IH]; intros n.
  - intros st. left. intros y. discriminate.
  - unfold walk_xj. cbn [walk_hook walk]. apply walk_body_x_agok. exact IH.
Qed.

(* every successful run of the shared walker is a run of the extended one *)
Theorem walk_x_agrees cf f n st v st' :
  walk cf f n st = (Ok v, st') -> walk_xj cf f n st = (Ok v, st').
Proof.
  intros H. destruct (walk_x_agok cf f n st) as [Hn|He].
  - rewrite H in Hn. exfalso. eapply Hn. reflexivity.
  - rewrite He. exact H.
Qed.

(* ... and every successful render is the extended model's render: same Write calls, same counters *)
Theorem render_x_agrees cf fuel name data_id data cl bl first_id :
  rr_outcome (render cf fuel name data_id data cl bl first_id) = Ok tt ->
  render_xj cf fuel name data_id data cl bl first_id = render cf fuel name data_id data cl bl first_id.
Proof.
  unfold render, render_xj, render_hook.
  destruct (find_template (r_templates (c_reg cf)) name) as [t|]; [|reflexivity].
  set (st0 := init_state _ _ _ _ _ _).
  destruct (walk cf fuel (t_node t) st0) as [r st] eqn:Hrun.
  destruct r; cbn [rr_outcome]; try discriminate.
  - intros _. fold (walk_xj cf fuel (t_node t) st0). rewrite (walk_x_agrees _ _ _ _ _ _ Hrun). reflexivity.
  - destruct (assoc_s name (r_sources (c_reg cf))); [|discriminate].
    destruct (assoc_s name (r_files (c_reg cf))); [|discriminate].
    destruct (line_number _ _); discriminate.
Qed.
