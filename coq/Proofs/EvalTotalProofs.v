(* C01: the Spec evaluator is total in the sense that matters for reading eval_impl_spec:
   eval_spec returns a value, "no value" (Err) or OutOfModel -- never Crash, Diverge or
   OutOfFuel.  So the only Spec outcome eval_impl_spec does not speak about is OutOfModel. *)
From Coq Require Import Lia ZifyN ZifyBool ZifyNat.
From Soy Require Import Model.Bytes Model.Num Model.Values Model.Outcome Model.ExprTrans Spec.Expr
  Proofs.ValueProofs Proofs.EvalProofs Proofs.EvalMainProofs.
Open Scope N_scope.

Definition benign {A} (o : outcome A) : Prop :=
  match o with Crash _ | Diverge | OutOfFuel => False | _ => True end.

Lemma benign_bind {A B} (o : outcome A) (g : A -> outcome B) :
  benign o -> (forall a, benign (g a)) -> benign (bind o g).
Proof. destruct o; cbn; auto. Qed.

Lemma to_string_benign : forall f v, (depth v < f)%nat -> benign (to_string f v).
Proof.
  induction f as [|f IH]; intros v Hd; [lia|].
  destruct v as [| |x|z|x|t|i l|i m]; try exact I.
  - destruct x; exact I.
  - cbn [to_string]. destruct (fl_to_string x); exact I.
  - rewrite to_string_list. apply benign_bind; [|intros; exact I].
    assert (Hall : forall x, In x l -> (depth x < f)%nat).
    { intros x Hx. pose proof (fold_max_le depth x l Hx). cbn [depth] in Hd. lia. }
    clear Hd. induction l as [|x l IHl]; [exact I|].
    rewrite list_items_cons. apply benign_bind; [apply IH; apply Hall; left; reflexivity|].
    intros s. apply benign_bind; [apply IHl; intros y Hy; apply Hall; right; exact Hy | intros; exact I].
  - rewrite to_string_map. apply benign_bind; [|intros; exact I].
    assert (Hall : forall kx, In kx m -> (depth (snd kx) < f)%nat).
    { intros kx Hx. pose proof (fold_max_le (fun kx => depth (snd kx)) kx m Hx). cbn [depth] in Hd. lia. }
    clear Hd. induction m as [|[k x] m IHm]; [exact I|].
    rewrite map_items_cons. apply benign_bind.
    + unfold entry_string. destruct x; try exact I; apply IH; apply (Hall (k, _)); left; reflexivity.
    + intros s. apply benign_bind; [apply IHm; intros y Hy; apply Hall; right; exact Hy | intros; exact I].
Qed.

Lemma value_string_benign v : benign (value_string v).
Proof. unfold value_string. apply to_string_benign. lia. Qed.

Lemma number_of_benign v : benign (number_of v).
Proof. destruct v; cbn; try exact I. destruct (fl_of_int z); exact I. Qed.
Lemma int_result_benign z : benign (int_result z).
Proof. unfold int_result. destruct (in_int64 z); exact I. Qed.
Lemma float_result_benign o : benign (float_result o).
Proof. destruct o; exact I. Qed.

Lemma float2_benign h a c : benign (x <- number_of a ;; y <- number_of c ;; float_result (h x y)).
Proof.
  apply benign_bind; [apply number_of_benign|]. intros x.
  apply benign_bind; [apply number_of_benign|]. intros y. apply float_result_benign.
Qed.

Lemma concat_benign a c : benign (s1 <- value_string a ;; s2 <- value_string c ;; Ok (VStr (s1 ++ s2))).
Proof.
  apply benign_bind; [apply value_string_benign|]. intros s1.
  apply benign_bind; [apply value_string_benign|]. intros s2. exact I.
Qed.

Lemma sem_strict_benign op a c : benign (sem_strict op a c).
Proof.
  destruct op; cbn [sem_strict]; try exact I.
  - unfold sem_int_or_float. destruct a, c; try apply float2_benign. apply int_result_benign.
  - apply float2_benign.
  - unfold sem_mod, no_value. destruct a, c; try exact I. destruct (z0 =? 0)%Z; [exact I | apply int_result_benign].
  - unfold sem_add. destruct a, c; try apply float2_benign; try apply concat_benign. apply int_result_benign.
  - unfold sem_int_or_float. destruct a, c; try apply float2_benign. apply int_result_benign.
  - unfold sem_order. apply benign_bind; [apply number_of_benign|]. intros x.
    apply benign_bind; [apply number_of_benign|]. intros y. exact I.
  - unfold sem_order. apply benign_bind; [apply number_of_benign|]. intros x.
    apply benign_bind; [apply number_of_benign|]. intros y. exact I.
  - unfold sem_order. apply benign_bind; [apply number_of_benign|]. intros x.
    apply benign_bind; [apply number_of_benign|]. intros y. exact I.
  - unfold sem_order. apply benign_bind; [apply number_of_benign|]. intros x.
    apply benign_bind; [apply number_of_benign|]. intros y. exact I.
Qed.

Lemma sem_neg_benign v : benign (sem_neg v).
Proof. destruct v; cbn; try exact I. apply int_result_benign. Qed.

Lemma index_of_benign v : benign (index_of v).
Proof.
  destruct v; cbn [index_of]; try exact I;
    (apply benign_bind; [apply value_string_benign | intros; exact I]).
Qed.

Lemma access_step_benign r ns ix : benign (access_step r ns ix).
Proof. destruct r, ix; cbn; try exact I; destruct ns; exact I. Qed.

Lemma round_benign x : benign (round_half_away x).
Proof.
  unfold round_half_away.
  destruct (fl_isneg x && negb (fl_is_zero x)).
  - destruct (fl_sub x half_up) as [y|]; [|exact I]. destruct (fl_ceil_Z y); [apply int_result_benign | exact I].
  - destruct (fl_add x half_up) as [y|]; [|exact I]. destruct (fl_floor_Z y); [apply int_result_benign | exact I].
Qed.

Lemma round_res_benign v : benign (x <- number_of v ;; r <- round_half_away x ;; Ok (RValue r)).
Proof.
  apply benign_bind; [apply number_of_benign|]. intros x.
  apply benign_bind; [apply round_benign | intros; exact I].
Qed.

Lemma minmax_benign h a c : benign (x <- number_of a ;; y <- number_of c ;; r <- float_result (h x y) ;; Ok (RValue r)).
Proof.
  apply benign_bind; [apply number_of_benign|]. intros x.
  apply benign_bind; [apply number_of_benign|]. intros y.
  apply benign_bind; [apply float_result_benign | intros; exact I].
Qed.

Ltac ben := solve [ exact I | apply round_res_benign | apply minmax_benign ].

Lemma apply_fn_benign f args : benign (apply_fn_spec f args).
Proof.
  destruct f; destruct args as [|a [|c [|d [|? ?]]]]; try ben;
    try (destruct a; try ben); try (destruct c; try ben); try (destruct d; try ben).
  all: cbn [apply_fn_spec no_value].
  all: try ben.
  (* round (v, d) *)
  all: try (apply benign_bind; [apply number_of_benign|]; intros x0;
            destruct (z =? 0)%Z; [apply benign_bind; [apply round_benign | intros; exact I] | exact I]).
  all: try (apply benign_bind; [apply number_of_benign|]; intros x0;
            destruct (z0 =? 0)%Z; [apply benign_bind; [apply round_benign | intros; exact I] | exact I]).
  (* floor / ceiling of a float *)
  all: try (destruct (fl_floor_Z f) as [z'|]; [apply benign_bind; [apply int_result_benign | intros; exact I] | exact I]).
  all: try (destruct (fl_ceil_Z f) as [z'|]; [apply benign_bind; [apply int_result_benign | intros; exact I] | exact I]).
  (* randomInt, range step *)
  all: try (destruct (z <=? 0)%Z; exact I).
  all: try (destruct (z1 <=? 0)%Z; exact I).
Qed.

(* ---- the evaluator ---- *)

Definition rbenign {A} (r : R A) : Prop := forall n, benign (r n).

Lemma rbenign_bind {A B} (r : R A) (g : A -> R B) : rbenign r -> (forall a, rbenign (g a)) -> rbenign (rbind r g).
Proof.
  intros Hr Hg n. unfold rbind. specialize (Hr n). destruct (r n) as [[a n']| | | | |]; cbn in *; auto.
  apply Hg.
Qed.
Lemma rbenign_ret {A} (x : A) : rbenign (rret x).
Proof. intros n. exact I. Qed.
Lemma rbenign_err {A} : rbenign (@rerr A).
Proof. intros n. exact I. Qed.
Lemma rbenign_lift {A} (o : outcome A) : benign o -> rbenign (rlift o).
Proof. intros H n. unfold rlift. destruct o; cbn in *; auto. Qed.

Section Total.
Variable G env : list (bstr * value).
Variable ij : option value.
Let ev := eval_spec G env ij.

Lemma items_benign es : (forall e, In e es -> rbenign (ev e)) -> rbenign (ev_items ev es).
Proof.
  induction es as [|e r IH]; intros H; cbn [ev_items]; [apply rbenign_ret|].
  apply rbenign_bind; [apply H; left; reflexivity|]. intros v.
  apply rbenign_bind; [apply IH; intros e' He'; apply H; right; exact He' | intros; apply rbenign_ret].
Qed.

Lemma entries_benign kvs : (forall kv, In kv kvs -> rbenign (ev (snd kv))) -> rbenign (ev_entries ev kvs).
Proof.
  induction kvs as [|[k e] r IH]; intros H; cbn [ev_entries]; [apply rbenign_ret|].
  apply rbenign_bind; [apply (H (k, e)); left; reflexivity|]. intros v.
  apply rbenign_bind; [apply IH; intros kv Hkv; apply H; right; exact Hkv | intros; apply rbenign_ret].
Qed.

Lemma accesses_benign accs :
  (forall ns e, In (AExpr ns e) accs -> rbenign (ev e)) -> forall ref, rbenign (ev_accesses ev accs ref).
Proof.
  induction accs as [|a rest IH]; intros H ref; cbn [ev_accesses]; [apply rbenign_ret|].
  apply rbenign_bind.
  - destruct a as [ns k | ns i | ns e]; try apply rbenign_ret.
    apply rbenign_bind; [apply (H ns e); left; reflexivity|]. intros v. apply rbenign_lift. apply index_of_benign.
  - intros ix. apply rbenign_bind; [apply rbenign_lift; apply access_step_benign|].
    intros [v|v]; [apply rbenign_ret|]. apply IH. intros ns e He. apply (H ns e). right. exact He.
Qed.

Lemma defined_benign e : rbenign (ev e) -> rbenign (ev_defined ev e).
Proof.
  intros H. unfold ev_defined. apply rbenign_bind; [exact H|]. intros v.
  destruct (is_undef v); [apply rbenign_err | apply rbenign_ret].
Qed.

Theorem eval_spec_benign : forall n e, (height e <= n)%nat -> rbenign (ev e).
Proof.
  induction n as [|n IH]; intros e Hh.
  - pose proof (height_pos e). lia.
  - unfold ev.
    destruct e as [ | x | z | x | s | es | kvs | name | key accs | accs | fn args | a | a | op a c | a c | c a d];
      cbn [eval_spec]; cbn [height] in Hh; try apply rbenign_ret.
    + apply rbenign_bind; [|intros vs k; unfold new_list_literal; destruct vs; exact I].
      apply items_benign. intros e He. apply IH.
      pose proof (max_list_le (map height es) (height e) (in_map height es e He)). lia.
    + apply rbenign_bind; [|intros m k; exact I].
      apply entries_benign. intros kv Hkv. apply IH.
      pose proof (max_list_le (map (fun kv => height (snd kv)) kvs) _ (in_map (fun kv => height (snd kv)) kvs kv Hkv)). lia.
    + destruct (assoc_s name G); [apply rbenign_ret | apply rbenign_err].
    + apply accesses_benign. intros ns e He. apply IH.
      pose proof (max_list_le (map acc_height accs) _ (in_map acc_height accs (AExpr ns e) He)). cbn [acc_height] in H. lia.
    + assert (Hacc : forall ref, rbenign (ev_accesses ev accs ref)).
      { apply accesses_benign. intros ns e He. apply IH.
        pose proof (max_list_le (map acc_height accs) _ (in_map acc_height accs (AExpr ns e) He)). cbn [acc_height] in H. lia. }
      unfold ev in Hacc. case_eq ij; [intros v Eij | intros Eij]; [|apply rbenign_err].
      rewrite <- Eij. apply Hacc.
    + destruct (existsb (Nat.eqb (length args)) (fn_arities fn)); [|apply rbenign_err].
      apply rbenign_bind.
      * apply items_benign. intros e He. apply IH.
        pose proof (max_list_le (map height args) (height e) (in_map height args e He)). lia.
      * intros vs. apply rbenign_bind; [apply rbenign_lift; apply apply_fn_benign|].
        intros [v | l | m] k; [exact I | unfold new_list_result; destruct l; exact I | exact I].
    + apply rbenign_bind; [apply defined_benign; apply IH; lia|]. intros v. apply rbenign_lift. apply sem_neg_benign.
    + apply rbenign_bind; [apply IH; lia | intros; apply rbenign_ret].
    + assert (Ha : rbenign (eval_spec G env ij a)) by (apply IH; lia).
      assert (Hc : rbenign (eval_spec G env ij c)) by (apply IH; lia).
      destruct op;
        try (apply rbenign_bind; [apply defined_benign; exact Ha|]; intros x;
             apply rbenign_bind; [apply defined_benign; exact Hc|]; intros y;
             apply rbenign_lift; apply sem_strict_benign).
      * apply rbenign_bind; [exact Ha|]; intros x. apply rbenign_bind; [exact Hc|]; intros y. apply rbenign_ret.
      * apply rbenign_bind; [exact Ha|]; intros x. apply rbenign_bind; [exact Hc|]; intros y. apply rbenign_ret.
      * apply rbenign_bind; [exact Ha|]; intros x. destruct (truthy x); [|apply rbenign_ret].
        apply rbenign_bind; [exact Hc|]; intros y. apply rbenign_ret.
      * apply rbenign_bind; [exact Ha|]; intros x. destruct (truthy x); [apply rbenign_ret|].
        apply rbenign_bind; [exact Hc|]; intros y. apply rbenign_ret.
    + apply rbenign_bind; [apply IH; lia|]. intros x.
      destruct (null_or_undef x); [apply IH; lia | apply rbenign_ret].
    + apply rbenign_bind; [apply IH; lia|]. intros x. destruct (truthy x); apply IH; lia.
Qed.

(* eval_spec returns a value, no value, or OutOfModel *)
Theorem eval_spec_trichotomy e n :
  (exists v n', eval_spec G env ij e n = Ok (v, n')) \/ (exists m, eval_spec G env ij e n = Err m) \/
  eval_spec G env ij e n = OutOfModel.
Proof.
  pose proof (eval_spec_benign (height e) e (le_n _) n) as H. unfold ev in H.
  destruct (eval_spec G env ij e n) as [[v n']| m | m | | |]; cbn in H; try contradiction; eauto.
Qed.
End Total.
