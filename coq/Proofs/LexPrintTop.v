(* lex_expr_print: lexExpr on the printed text of an expression.  The machine-level statement lex_print
   (LexPrintMain.v) is turned into a statement about lex_items: the scanner model, run on print_node e
   in expression mode, returns the items of tokens_of e (types and texts) followed by the error item
   "unclosed tag" that lexExpr sends at the end of an expression. *)
From Soy Require Import Model.Bytes Model.Utf8 Model.Num Model.Values Model.Outcome Model.Ast Model.Token Model.NumLit Model.Quote
  Model.AstPrint Generated.Tables Model.Lexer Spec.ExprSyntax
  Proofs.Utf8Proofs Proofs.ExprParserProofs Proofs.LexerPrim Proofs.LexerStates Proofs.LexerProofs
  Proofs.LexTokens Proofs.LexNumbers Proofs.LexStrings Proofs.LexExpr Proofs.LexPrint Proofs.LexPrintMain.
From Coq Require Import ZifyBool ZifyNat ZifyN Lia.
Open Scope Z_scope.

Section Top.
Variable uni_letter uni_digit : Z -> bool.
Variable inp : bstr.
Variable base : Z.
Notation ilen := (Z.of_nat (length inp)).
Notation steps := (steps uni_letter uni_digit inp base).
Notation run := (run uni_letter uni_digit inp ilen base).

Lemma steps_done k l : steps k LDone l = Ok (LDone, l).
Proof. induction k as [|k IH]; [reflexivity|]. cbn [LexTokens.steps step bind]. exact IH. Qed.

Lemma steps_le n : forall m st l l1, steps n st l = Ok (LDone, l1) -> (n <= m)%nat -> steps m st l = Ok (LDone, l1).
Proof.
  intros m st l l1 H Hle. replace m with (n + (m - n))%nat by lia. rewrite (steps_app _ _ _ _ n (m - n) _ _ _ _ H). apply steps_done.
Qed.

Lemma run_is_steps f : forall st l lf, run f st l = Ok lf -> steps f st l = Ok (LDone, lf).
Proof.
  induction f as [|f IH]; intros st l lf H.
  - destruct st; cbn in H; try discriminate. injection H as <-. reflexivity.
  - destruct st; cbn [Lexer.run] in H;
      try (cbn [LexTokens.steps]; match type of H with bind ?x _ = _ => destruct x as [[st' l']| | | | |] end; cbn [bind] in H |- *; try discriminate; apply IH; exact H).
    injection H as <-. apply steps_done.
Qed.

(* a run that returns is determined by any sequence of steps that reaches the nil state *)
Lemma run_unique f n st l lf l1 : run f st l = Ok lf -> steps n st l = Ok (LDone, l1) -> lf = l1.
Proof.
  intros Hr Hs. pose proof (run_is_steps f st l lf Hr) as Hf.
  pose proof (steps_le f (Nat.max f n) st l lf Hf ltac:(lia)) as A.
  pose proof (steps_le n (Nat.max f n) st l l1 Hs ltac:(lia)) as B. congruence.
Qed.

End Top.

(* the step lexInsideTag takes at end of input: the error item "unclosed tag" *)
Definition eof_err (base : Z) (l1 : lx) : tok :=
  {| t_typ := itemError; t_pos := Z.to_N (base + l_pos l1); t_val := e_unclosed_tag |}.
Definition eof_state (base : Z) (l1 : lx) : lx :=
  {| l_pos := l_pos l1; l_start := l_start l1; l_width := 0; l_dd := l_dd l1; l_last := l_last l1;
     l_out := eof_err base l1 :: l_out l1; l_ticks := l_ticks l1 + 1 |}.

Lemma eof_step uni_letter uni_digit inp base l1 : 0 <= base -> span inp l1 [] [] ->
  step uni_letter uni_digit inp (Z.of_nat (length inp)) base LInsideTag l1 = Ok (LDone, eof_state base l1).
Proof.
  intros Hb Hs1. pose proof (next_eof inp l1 [] Hs1) as Hn. pose proof (span_bounds inp _ _ _ Hs1) as (Hbd & _).
  cbn [step]. unfold lex_inside_tag. rewrite Hn. cbn [bind].
  change (gen_isSpaceEOL eof) with false. cbv iota. change (eof =? 47) with false. cbv iota. cbn [bind].
  change (eof =? 36) with false. change (eof =? 46) with false. cbn [orb]. cbv iota.
  change (eof =? 91) with false. change (eof =? 93) with false. change (eof =? 63) with false. change (eof =? 45) with false.
  change (eof =? 125) with false. cbv iota. change ((48 <=? eof) && (eof <=? 57)) with false. cbv iota.
  change (existsb (Z.eqb eof) inside_tag_single_syms) with false. cbv iota.
  change (existsb (Z.eqb eof) inside_tag_cmp_syms) with false. cbv iota. change (eof =? 61) with false. cbv iota. cbn [bind].
  change (eof =? 34) with false. change (eof =? 39) with false. cbn [orb]. cbv iota. change (eof =? eof) with true. cbv iota.
  unfold errorf. cbn [ateof l_pos]. destruct (base + l_pos l1 <? 0) eqn:E; [lia|]. reflexivity.
Qed.

Section Final.
Variable uni_letter uni_digit : Z -> bool.
Hypothesis letter_ascii : forall c, (c < 128)%N -> uni_letter (Z.of_N c) = ((65 <=? c) && (c <=? 90) || (97 <=? c) && (c <=? 122))%N.
Hypothesis digit_ascii : forall c, (c < 128)%N -> uni_digit (Z.of_N c) = digit_b c.
Hypothesis letter_eof : uni_letter (-1) = false.
Hypothesis digit_eof : uni_digit (-1) = false.

Lemma lex_print_init e txt : wf_expr e -> lex_ok e -> print_node e = Some txt ->
  exists k l1, steps uni_letter uni_digit txt 0 k LInsideTag lex_init = Ok (LInsideTag, l1) /\ span txt l1 [] [] /\ sends (toks e) lex_init l1.
Proof.
  intros Hwf Hlo Hp.
  pose proof (lex_print uni_letter uni_digit letter_ascii digit_ascii letter_eof digit_eof txt 0 e Hwf Hlo txt Hp) as HL.
  assert (Hs0 : span txt lex_init [] (txt ++ [])).
  { unfold span, lex_init. cbn [l_start l_pos length]. rewrite app_nil_r. repeat split; try lia. }
  assert (HP : opnd (last_typ lex_init)) by reflexivity.
  destruct (HL lex_init [] Hs0 HP I) as (k & l1 & Hst & Hs1 & Hse & _).
  exists k, l1. auto.
Qed.

Lemma lex_run_at_expr fuel s :
  lex_run_at uni_letter uni_digit 0 fuel true s = run uni_letter uni_digit s (Z.of_nat (length s)) 0 fuel LInsideTag lex_init.
Proof. reflexivity. Qed.

Lemma final_state txt k l1 lf :
  steps uni_letter uni_digit txt 0 k LInsideTag lex_init = Ok (LInsideTag, l1) -> span txt l1 [] [] ->
  run uni_letter uni_digit txt (Z.of_nat (length txt)) 0 (lex_budget txt) LInsideTag lex_init = Ok lf -> lf = eof_state 0 l1.
Proof.
  intros Hst Hs1 Hr.
  pose proof (eof_step uni_letter uni_digit txt 0 l1 ltac:(lia) Hs1) as Hstep.
  assert (Hall : steps uni_letter uni_digit txt 0 (k + 1) LInsideTag lex_init = Ok (LDone, eof_state 0 l1)).
  { rewrite (steps_app _ _ _ _ k 1 _ _ _ _ Hst). apply steps_one. exact Hstep. }
  exact (run_unique uni_letter uni_digit txt 0 (lex_budget txt) (k + 1) LInsideTag lex_init lf (eof_state 0 l1) Hr Hall).
Qed.

(* lexExpr(print e): the items of tokens_of e, then the error item at end of input *)
Theorem lex_expr_print e txt : wf_expr e -> lex_ok e -> print_node e = Some txt ->
  exists ts err, lex_items uni_letter uni_digit (lex_budget txt) true txt = Ok (ts ++ [err]) /\
                 map tv ts = toks e /\ t_typ err = itemError.
Proof.
  intros Hwf Hlo Hp.
  destruct (lex_print_init e txt Hwf Hlo Hp) as (k & l1 & Hst & Hs1 & Hse).
  destruct (lex_total_linear uni_letter uni_digit letter_eof digit_eof 0 ltac:(lia) true txt) as (lf & Hr & _).
  rewrite lex_run_at_expr in Hr.
  pose proof (final_state txt k l1 lf Hst Hs1 Hr) as Elf.
  destruct (sends_out _ _ _ Hse) as (items & Ho & Hm & _).
  exists items, (eof_err 0 l1). split; [|split; [exact Hm|reflexivity]].
  unfold lex_items, lex_run. rewrite lex_run_at_expr, Hr. cbn [bind]. f_equal. rewrite Elf.
  unfold eof_state. cbn [l_out]. rewrite Ho. cbn [lex_init l_out]. rewrite app_nil_r. cbn [rev]. rewrite rev_involutive. reflexivity.
Qed.

End Final.

(* the unicode tables of the toolchain satisfy the hypotheses: on ASCII they are the ASCII classes *)
Lemma tables_ascii :
  (forall c, (c < 128)%N -> is_letter_tbl (Z.of_N c) = ((65 <=? c) && (c <=? 90) || (97 <=? c) && (c <=? 122))%N) /\
  (forall c, (c < 128)%N -> is_digit_tbl (Z.of_N c) = digit_b c).
Proof.
  assert (H : forallb (fun c => Bool.eqb (is_letter_tbl (Z.of_N c)) ((65 <=? c) && (c <=? 90) || (97 <=? c) && (c <=? 122))%N
                              && Bool.eqb (is_digit_tbl (Z.of_N c)) (digit_b c)) (map N.of_nat (seq 0 128)) = true) by (vm_compute; reflexivity).
  rewrite forallb_forall in H.
  assert (Hin : forall c, (c < 128)%N -> In c (map N.of_nat (seq 0 128))).
  { intros c Hc. apply in_map_iff. exists (N.to_nat c). split; [lia|]. apply in_seq. lia. }
  split; intros c Hc; specialize (H c (Hin c Hc)); apply Bool.andb_true_iff in H; destruct H as [H1 H2];
    [apply Bool.eqb_prop in H1; exact H1|apply Bool.eqb_prop in H2; exact H2].
Qed.

(* the instance with the tables: what the model runner executes *)
Theorem lex_expr_print_tbl e txt : wf_expr e -> lex_ok e -> print_node e = Some txt ->
  exists ts err, lex_items is_letter_tbl is_digit_tbl (lex_budget txt) true txt = Ok (ts ++ [err]) /\
                 map tv ts = toks e /\ t_typ err = itemError.
Proof.
  destruct tables_ascii as [Hl Hd]. destruct tables_eof as [El Ed].
  apply (lex_expr_print is_letter_tbl is_digit_tbl Hl Hd El Ed).
Qed.
