(* [walkx] (Model/CheckerRun.v) is [walk] (Model/Interp.v) up to the unbound-lookup counter:
   from states that differ only in the counter (the one of [walkx] not above the one of [walk])
   both return the same outcome and value and end in states that again differ only in the
   counter.  Hence [render_xc] is [render] with a smaller-or-equal counter
   ([render_x_is_render]): the walker never reads the counter.

   Proof: the relational walker principle of Proofs/InterpRel.v with the guard that holds
   of every node; every primitive is related to itself. *)
From Coq Require Import Lia.
From Soy Require Import Model.Bytes Model.Num Model.Values Model.Outcome Model.Ast
  Model.Escape Model.Directives Model.Print Generated.Tables Model.Interp Model.RefView Model.CheckerRun
  Model.Checker Proofs.InterpLogic Proofs.InterpGuard Proofs.InterpRel Proofs.SafetyMono
  Proofs.CheckerInterpProofs Proofs.CheckerExcuseProofs.
Open Scope N_scope.

(* s1 is s2 with a counter that is not larger *)
Definition eqU (s1 s2 : mstate) : Prop := exists u, s1 = with_unbound s2 u /\ (u <= unbound s2)%nat.

Definition simU {A} (m1 m2 : M A) : Prop :=
  forall s1 s2, eqU s1 s2 -> fst (m1 s1) = fst (m2 s2) /\ eqU (snd (m1 s1)) (snd (m2 s2)).

Lemma eqU_refl s : eqU s s.
Proof. exists (unbound s). split; [destruct s; reflexivity | lia]. Qed.

Lemma eqU_uncount s1 s2 : eqU s1 s2 -> eqU (uncount s1) s2.
Proof. intros (u & -> & Hu). exists (pred u). split; [reflexivity | lia]. Qed.

(* a state transformer that neither reads nor writes the counter *)
Lemma eqU_map (f : mstate -> mstate) s1 s2 :
  (forall st u, f (with_unbound st u) = with_unbound (f st) u) -> (forall st, unbound (f st) = unbound st) ->
  eqU s1 s2 -> eqU (f s1) (f s2).
Proof. intros Hf Hu (u & -> & Hle). exists u. split; [apply Hf | rewrite Hu; exact Hle]. Qed.

Lemma simU_const {A} (o : outcome A) : simU (fun st => (o, st)) (fun st => (o, st)).
Proof. intros s1 s2 H. split; [reflexivity | exact H]. Qed.

Lemma simU_modify (f : mstate -> mstate) :
  (forall st u, f (with_unbound st u) = with_unbound (f st) u) -> (forall st, unbound (f st) = unbound st) ->
  simU (modify f) (modify f).
Proof. intros Hf Hu s1 s2 H. split; [reflexivity | apply eqU_map; assumption]. Qed.

Lemma simU_bind {A B} (m1 m2 : M A) (f1 f2 : A -> M B) :
  simU m1 m2 -> (forall x, simU (f1 x) (f2 x)) -> simU (mbind m1 f1) (mbind m2 f2).
Proof.
  intros Hm Hf s1 s2 H. destruct (Hm s1 s2 H) as [Hr Hs]. unfold mbind.
  destruct (m1 s1) as [r1 s1'], (m2 s2) as [r2 s2']. cbn [fst snd] in *. subst r2.
  destruct r1; try (split; [reflexivity | exact Hs]). apply Hf. exact Hs.
Qed.

Ltac prim :=
  let u := fresh "u" in let Hu := fresh "Hu" in
  intros ? s2 (u & -> & Hu); destruct s2; unfold with_unbound in *; cbn in *.
Ltac done_prim := split; [reflexivity | eexists; split; [reflexivity | cbn; lia]].

Lemma simU_write w : simU (write w) (write w).
Proof.
  prim. unfold write; cbn. destruct bufs as [|buf rest]; [|done_prim].
  destruct calls_left as [[|n]|]; destruct bytes_left as [k|]; try (destruct (N.of_nat (length w) <=? k)); done_prim.
Qed.

Lemma simU_set k v : simU (m_set k v) (m_set k v).
Proof.
  prim. unfold m_set; cbn. destruct ctx as [|f r]; [done_prim|]. cbn. destruct (f_origin f); done_prim.
Qed.

Lemma simU_lookup k : simU (m_lookup k) (m_lookup k).
Proof. prim. unfold m_lookup; cbn. destruct (sc_lookup ctx k); done_prim. Qed.

Lemma simU_fresh_list l : simU (fresh_list l) (fresh_list l).
Proof. prim. destruct l; done_prim. Qed.
Lemma simU_fresh_list_or_nil l : simU (fresh_list_or_nil l) (fresh_list_or_nil l).
Proof. prim. destruct l; done_prim. Qed.
Lemma simU_fresh_map m : simU (fresh_map m) (fresh_map m).
Proof. prim. done_prim. Qed.

Lemma eqU_fields s1 s2 : eqU s1 s2 ->
  ctx s1 = ctx s2 /\ mode s1 = mode s2 /\ cur s1 = cur s2 /\ depth_ s1 = depth_ s2 /\ bufs s1 = bufs s2
  /\ out s1 = out s2 /\ shared_writes s1 = shared_writes s2.
Proof. intros (u & -> & _). repeat split. Qed.

Lemma simU_logic : walker_logic_r (fun _ => true) (@simU) (@simU value) (fun _ _ => True).
Proof.
  constructor.
  - (* ext *) intros A m1 m1' m2 m2' H1 H2 H s1 s2 He. rewrite <- H1, <- H2. apply H. exact He.
  - intros A x. apply simU_const.
  - intros A e. apply simU_const.
  - intros A o _. apply simU_const.
  - intros A B m1 m2 f1 f2. apply simU_bind.
  - (* set_cur *) intros p. apply simU_modify; reflexivity.
  - (* template mode *) intros p name body ae priv _. apply simU_modify; reflexivity.
  - apply simU_write.
  - apply simU_set.
  - apply simU_lookup.
  - apply simU_fresh_list.
  - apply simU_fresh_list_or_nil.
  - apply simU_fresh_map.
  - (* read mode *)
    intros B f1 f2 Hf s1 s2 He.
    change ((st <-- get ;;; f1 (mode st)) s1) with (f1 (mode s1) s1).
    change ((st <-- get ;;; f2 (mode st)) s2) with (f2 (mode s2) s2).
    destruct (eqU_fields _ _ He) as (_ & -> & _). apply Hf. exact He.
  - (* read ctx *)
    intros B f1 f2 Hf s1 s2 He.
    change ((st <-- get ;;; f1 (ctx st)) s1) with (f1 (ctx s1) s1).
    change ((st <-- get ;;; f2 (ctx st)) s2) with (f2 (ctx s2) s2).
    destruct (eqU_fields _ _ He) as (-> & _). apply Hf. exact He.
  - (* scoped *)
    intros m1 m2 Hm s1 s2 He. rewrite !scoped_eq.
    assert (Hp : eqU (pushed s1) (pushed s2)) by (apply (eqU_map pushed); [reflexivity | reflexivity | exact He]).
    destruct (Hm _ _ Hp) as [Hr Hs]. rewrite Hr.
    destruct (classify (fst (m2 (pushed s2)))); cbn [fst snd]; (split; [reflexivity|]); [|exact Hs].
    apply (eqU_map popped); [reflexivity | reflexivity | exact Hs].
  - (* eval *)
    intros w1 w2 e Hw s1 s2 He. rewrite !eval_eq. destruct (Hw _ _ He) as [Hr Hs]. rewrite Hr.
    destruct (eqU_fields _ _ He) as (_ & _ & -> & _).
    destruct (classify (fst (w2 e s2))); cbn [fst snd]; (split; [reflexivity|]); [|exact Hs].
    apply (eqU_map (fun st => set_cur st (cur s2))); [reflexivity | reflexivity | exact Hs].
  - (* block *)
    intros w1 w2 body Hw s1 s2 He. rewrite !render_block_eq.
    assert (Hp : eqU (buf_pushed s1) (buf_pushed s2)) by (apply (eqU_map buf_pushed); [reflexivity | reflexivity | exact He]).
    destruct (Hw _ _ Hp) as [Hr Hs]. rewrite Hr.
    destruct (classify (fst (w2 body (buf_pushed s2)))); cbn [fst snd]; [|split; [reflexivity | exact Hs]].
    cbv zeta. destruct (eqU_fields _ _ Hs) as (_ & _ & _ & _ & -> & _).
    destruct (bufs (snd (w2 body (buf_pushed s2)))) as [|buf rest]; cbn [fst snd]; (split; [reflexivity|]); [exact Hs|].
    apply (eqU_map (fun st => set_bufs st rest)); [reflexivity | reflexivity | exact Hs].
  - (* enter *)
    intros w1 w2 callee cd Hw s1 s2 He. rewrite !call_enter_eq. cbv zeta.
    assert (Hp : eqU (entered s1 callee cd) (entered s2 callee cd)).
    { destruct (eqU_fields _ _ He) as (_ & _ & _ & Hd & _). unfold entered. rewrite Hd.
      apply (eqU_map (fun st => set_depth (set_mode (set_ctx st (sc_enter cd)) (call_mode (t_ns_autoescape callee))) (S (depth_ s2))));
        [reflexivity | reflexivity | exact He]. }
    destruct (Hw _ _ Hp) as [Hr Hs]. cbn [fst snd]. rewrite Hr. split; [reflexivity|].
    destruct (eqU_fields _ _ He) as (Hc & Hm & _ & Hd & _). unfold left. rewrite Hc, Hm, Hd.
    apply (eqU_map (fun st => set_depth (set_mode (set_ctx st (ctx s2)) (mode s2)) (depth_ s2))); [reflexivity | reflexivity | exact Hs].
Qed.

Lemma simU_pure_sites : pure_sites (fun _ _ => True).
Proof. constructor; intros; exact I. Qed.

Section Sim.
Variable cf : cfg.

Theorem walkx_sim fuel : forall ps n, simU (walkx cf ps fuel n) (walk cf fuel n).
Proof.
  induction fuel as [|f IH]; intros ps n.
  - apply simU_const.
  - assert (Hbody : forall ps0 c, simU (walk_body cf (walkx cf ps0 f) c) (walk_body cf (walk cf f) c)).
    { intros ps0 c.
      apply (rphi_walk_body cf (fun _ => true) (@simU) (@simU value) (fun _ _ => True)
               simU_logic simU_pure_sites (fun _ _ => eq_refl) (walkx cf ps0 f) (walk cf f)).
      - intros c0 _. apply IH.
      - intros callee _. apply IH.
      - apply deep_true. }
    rewrite walk_S.
    destruct n; try (intros s1 s2 He; cbn [walkx is_excused]; apply Hbody; exact He).
    + (* data reference: the excused miss is taken back *)
      intros s1 s2 He. cbn [walkx].
      destruct (Hbody ps (NDataRef p key access) s1 s2 He) as [Hr Hs].
      destruct (is_excused ps (NDataRef p key access) (ctx s1)); [|split; assumption].
      destruct (walk_body cf (walkx cf ps f) (NDataRef p key access) s1) as [r1 s1']. cbn [fst snd] in *.
      split; [exact Hr | apply eqU_uncount; exact Hs].
    + (* call *)
      cbn [walkx]. unfold walk_body. cbn [walk_node pos_of].
      apply simU_bind; [apply simU_modify; reflexivity | intros _].
      destruct (find_template (r_templates (c_reg cf)) name) as [callee|]; [|apply simU_const].
      apply simU_bind.
      { apply (rphi_call_data (fun _ => true) (@simU) (@simU value) (fun _ _ => True)
                 simU_logic (walkx cf ps f) (walk cf f)); [intros c0 _; apply IH|].
        destruct data; [apply deep_true | reflexivity]. }
      intros cd. apply simU_bind.
      { apply (rphi_call_params (fun _ => true) (@simU) (@simU value) (fun _ _ => True)
                 simU_logic (walkx cf ps f) (walk cf f)); [intros c0 _; apply IH|].
        clear. induction params as [|x r IHr]; [reflexivity|]. cbn [forallb]. rewrite deep_true, IHr. reflexivity. }
      intros cd'. apply simU_bind; [apply simU_modify; reflexivity | intros _].
      apply (wr_enter _ _ _ _ simU_logic). apply IH.
Qed.

(* [render_xc] is [render] but for the counter, which is not larger *)
Theorem render_x_is_render fuel name data_id data cl bl first_id :
  let rx := render_xc cf fuel name data_id data cl bl first_id in
  let r := render cf fuel name data_id data cl bl first_id in
  rr_outcome rx = rr_outcome r /\ rr_writes rx = rr_writes r /\ rr_file rx = rr_file r /\ rr_line rx = rr_line r
  /\ rr_shared_writes rx = rr_shared_writes r /\ (rr_unbound rx <= rr_unbound r)%nat.
Proof.
  unfold render_xc, render. destruct (find_template (r_templates (c_reg cf)) name) as [t|]; [|cbn; repeat split; lia].
  set (st0 := init_state _ _ _ _ _ _).
  destruct (walkx_sim fuel (map fst (t_params t)) (t_node t) st0 st0 (eqU_refl st0)) as [Hr Hs].
  destruct (walkx cf (map fst (t_params t)) fuel (t_node t) st0) as [r1 s1].
  destruct (walk cf fuel (t_node t) st0) as [r2 s2]. cbn [fst snd] in *. subst r2.
  destruct Hs as (u & -> & Hu).
  destruct r1; cbn; try (repeat split; exact Hu).
  destruct (assoc_s name (r_sources (c_reg cf))), (assoc_s name (r_files (c_reg cf))); cbn; try (repeat split; exact Hu).
  destruct (line_number b (cur s2)); cbn; repeat split; exact Hu.
Qed.
End Sim.

(* the last clause of C07 in full *)
Theorem accepted_no_unbound_lookup_full cf fuel name data_id data cl bl first_id :
  check_registry (c_reg cf) = Accept ->
  registry_shaped (c_reg cf) = true ->
  let rx := render_xc cf fuel name data_id data cl bl first_id in
  let r := render cf fuel name data_id data cl bl first_id in
  rr_unbound rx = 0%nat
  /\ rr_outcome rx = rr_outcome r /\ rr_writes rx = rr_writes r /\ rr_file rx = rr_file r /\ rr_line rx = rr_line r
  /\ rr_shared_writes rx = rr_shared_writes r.
Proof.
  intros Hc Hs rx r.
  destruct (render_x_is_render cf fuel name data_id data cl bl first_id) as (H1 & H2 & H3 & H4 & H5 & _).
  split; [exact (accepted_no_unbound_name cf fuel name data_id data cl bl first_id Hc Hs)|].
  repeat split; assumption.
Qed.

Theorem accepted_bundle_no_unbound_name fs cf fuel name data_id data cl bl first_id :
  compile_check fs = Accept ->
  (forall ts, add_files [] fs = AddOk ts -> c_reg cf = registry_of ts fs) ->
  registry_shaped (c_reg cf) = true ->
  rr_unbound (render_xc cf fuel name data_id data cl bl first_id) = 0%nat.
Proof.
  intros Hc Hreg. destruct (compile_check_registry fs Hc) as (ts & Hadd & Hchk). rewrite <- (Hreg ts Hadd) in Hchk.
  apply accepted_no_unbound_name. exact Hchk.
Qed.
