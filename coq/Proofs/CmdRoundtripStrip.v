(* C17 at command level: the body round trip for the items a scanner really sends.  The token-level
   theorem (Proofs/CmdRoundtrip.v) speaks about [body_toks x], whose items carry node positions and
   0 elsewhere; the command-level parser does not look at positions on its successful runs
   (Proofs/CmdParserStripMain.v), so ANY item list that agrees with [body_toks x] in types and texts
   is read as [x] up to positions, under the budget of the model's entry points. *)
From Soy Require Import Model.Bytes Model.Outcome Model.Num Model.Ast Model.Token Model.RawText Model.ExprParser Model.Parser Generated.Tables
  Model.AstPrint Model.AstPrintCmd Spec.ExprSyntax Spec.CmdSyntax Proofs.ExprParserRules Proofs.ExprParserStrip
  Proofs.CmdRoundtripBase Proofs.CmdRoundtripRules Proofs.CmdRoundtrip Proofs.ExprParserMono
  Proofs.CmdParserStripDefs Proofs.CmdParserStripMain.
From Coq Require Import Lia.
Open Scope N_scope.

Lemma strip_tok_of_tv (its ts : list tok) :
  map (fun t => (t_typ t, t_val t)) its = map (fun t => (t_typ t, t_val t)) ts -> map strip_tok its = map strip_tok ts.
Proof.
  revert ts. induction its as [|a its IH]; intros [|c ts] H; try discriminate H; [reflexivity|].
  cbn [map] in H |- *. injection H as H1 H2 H3. rewrite (IH ts H3). unfold strip_tok. rewrite H1, H2. reflexivity.
Qed.

Theorem body_roundtrip_any_positions (inlen inlen' : N) (lexq : bstr -> list tok) (unq : bstr -> option bstr) :
  (forall s q, go_quote s = Some q -> unq q = Some s) ->
  forall x until u rest its,
  wf_body lexq (nameok [] []) false x -> good_until until = true -> one_of (t_typ u) until = true ->
  map strip_tok its = map strip_tok (body_toks x ++ T_ldelim :: u :: rest) ->
  exists f0, forall f, (f0 <= f)%nat ->
    exists x' s', item_list inlen' lexq unq parse_expr expr_fuel f until (cst_init its) = COk x' s' /\ cps_strip x' = cps_strip x.
Proof.
  intros Hunq x until u rest its Hwf Hg Hu Hits.
  set (ts := body_toks x ++ T_ldelim :: u :: rest) in *.
  destruct (stream_init ts) as [Hs Hi].
  destruct (parse_body_roundtrip [] [] inlen lexq unq expr_fuel expr_fuel_ok Hunq false x until u rest Hwf Hg Hu
              (cst_init ts) (pst_init ts) [] Hs Hi (conj eq_refl (conj eq_refl eq_refl)))
    as (p' & sc' & _ & _ & _ & _ & f0 & HF).
  exists f0. intros f Hf. specialize (HF f f Hf Hf).
  change (set_ps (cst_init ts) (pst_init ts) []) with (cst_init ts) in HF.
  destruct (cps_body_expr_fuel inlen inlen' lexq unq f until ts its x _ (eq_sym Hits) HF) as (x' & s' & E & Hx).
  exists x', s'. split; [exact E | symmetry; exact Hx].
Qed.
