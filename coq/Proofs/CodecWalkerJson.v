(* C16 <-> C06: the walker-level model of the directives escapeJsString and json (Model/InterpJson.v,
   the hooks dir_escape_js / dir_json of the extended walker walk_xj) computes, on values whose map keys
   are strictly increasing at every level (the invariant of Model/Values.v) and whose floats the two
   float printers write alike, EXACTLY the encoder this
   property's theorems are about (Model/JsonEncode.v json_encode with the regenerated nil flag).  So the
   round-trip theorems of Properties/C16.v speak about what a render through walk_xj writes for
   {$v|json}, not about a second model.  (Model/Directives.v apply_fn itself keeps answering OutOfModel
   for the two directives: see bin/claims/C16.json.) *)
From Coq Require Import Lia ZifyN ZifyNat ZifyBool.
From Soy Require Import Model.Bytes Generated.Tables Model.Utf8 Model.Num Model.Outcome Model.Values Model.Escape Model.Directives
  Model.JsEscape Model.JsonEncode Model.InterpJson Spec.Json Proofs.ValueProofs Proofs.CodecJson.
Open Scope N_scope.

(* map keys strictly increasing at every level; and, for every float inside the value, the two models give
   the same text (InterpJson.json_float and JsonEncode.json_float are separate definitions: the clause keeps
   this file valid when one of them is extended to floats outside the other's printing domain) *)
Fixpoint cwj_sorted (v : value) : Prop :=
  match v with
  | VFloat x => InterpJson.json_float x = JsonEncode.json_float x
  | VList _ l => (fix all (l : list value) : Prop := match l with [] => True | x :: r => cwj_sorted x /\ all r end) l
  | VMap _ m =>
      keys_sorted (map fst m) /\
      (fix all (m : list (bstr * value)) : Prop := match m with [] => True | (k, x) :: r => cwj_sorted x /\ all r end) m
  | _ => True
  end.

Lemma cwj_sorted_list id l : cwj_sorted (VList id l) <-> Forall cwj_sorted l.
Proof.
  cbn [cwj_sorted]. induction l as [|x r IH]; [split; constructor|]. split.
  - intros [H1 H2]. constructor; [exact H1|apply IH, H2].
  - intros H. inversion H; subst. split; [assumption|apply IH; assumption].
Qed.

Lemma cwj_sorted_map id m : cwj_sorted (VMap id m) <-> keys_sorted (map fst m) /\ Forall (fun kx => cwj_sorted (snd kx)) m.
Proof.
  cbn [cwj_sorted]. apply and_iff_compat_l. induction m as [|[k x] r IH]; [split; constructor|]. split.
  - intros [H1 H2]. constructor; [exact H1|apply IH, H2].
  - intros H. inversion H; subst. split; [assumption|apply IH; assumption].
Qed.

(* every float inside the value is written alike by the two models *)
Fixpoint cwj_floats (v : value) : Prop :=
  match v with
  | VFloat x => InterpJson.json_float x = JsonEncode.json_float x
  | VList _ l => (fix all (l : list value) : Prop := match l with [] => True | x :: r => cwj_floats x /\ all r end) l
  | VMap _ m => (fix all (m : list (bstr * value)) : Prop := match m with [] => True | (k, x) :: r => cwj_floats x /\ all r end) m
  | _ => True
  end.

Lemma cwj_floats_list id l : cwj_floats (VList id l) <-> Forall cwj_floats l.
Proof.
  cbn [cwj_floats]. induction l as [|x r IH]; [split; constructor|]. split.
  - intros [H1 H2]. constructor; [exact H1|apply IH, H2].
  - intros H. inversion H; subst. split; [assumption|apply IH; assumption].
Qed.

Lemma cwj_floats_map id m : cwj_floats (VMap id m) <-> Forall (fun kx => cwj_floats (snd kx)) m.
Proof.
  cbn [cwj_floats]. induction m as [|[k x] r IH]; [split; constructor|]. split.
  - intros [H1 H2]. constructor; [exact H1|apply IH, H2].
  - intros H. inversion H; subst. split; [assumption|apply IH; assumption].
Qed.

(* the hypothesis of C16_json_roundtrip (json_ok) gives the sorted keys *)
Lemma json_ok_cwj_sorted nn : forall v, json_ok nn v -> cwj_floats v -> cwj_sorted v.
Proof.
  apply (value_ind2 (fun v => json_ok nn v -> cwj_floats v -> cwj_sorted v)); try (intros; exact I).
  - intros x _ H. exact H.
  - intros id l IH H Hf. apply json_ok_list in H. destruct H as [_ H]. apply cwj_floats_list in Hf. apply cwj_sorted_list.
    rewrite Forall_forall in *. intros x Hx. apply IH; [exact Hx|apply H, Hx|apply Hf, Hx].
  - intros id m IH H Hf. apply json_ok_map in H. destruct H as (_ & Hs & H). apply cwj_floats_map in Hf.
    apply cwj_sorted_map. split; [exact Hs|].
    rewrite Forall_forall in *. intros kx Hx. apply IH; [exact Hx|apply H, Hx|apply Hf, Hx].
Qed.

(* ---- sort.Strings on sorted keys: InterpJson.sorted_fields is the identity ---- *)
Lemma cwj_head_lt k ks : keys_sorted (k :: ks) -> Forall (fun k' => bstr_ltb k k' = true) ks.
Proof.
  revert k; induction ks as [|k2 r IH]; intros k H; [constructor|].
  cbn [keys_sorted] in H. destruct H as [Hlt Hs]. constructor; [exact Hlt|].
  eapply Forall_impl; [|apply IH; exact Hs]. intros k' Hk'. cbn beta in Hk'. eapply bstr_ltb_trans; eassumption.
Qed.

Lemma cwj_sorted_tail k ks : keys_sorted (k :: ks) -> keys_sorted ks.
Proof. destruct ks as [|k2 r]; [intros; exact I|]. cbn [keys_sorted]. intros [_ H]. exact H. Qed.

Lemma cwj_map_set_append acc k v : Forall (fun kx => bstr_ltb (fst kx) k = true) acc -> map_set acc k v = acc ++ [(k, v)].
Proof.
  induction 1 as [|[k' v'] r Hlt _ IH]; [reflexivity|]. cbn [fst] in Hlt. cbn [map_set app].
  assert (bstr_eqb k k' = false) as ->.
  { destruct (bstr_eqb_spec k k') as [->|]; [|reflexivity]. rewrite bstr_ltb_irrefl in Hlt. discriminate. }
  rewrite (bstr_ltb_asym _ _ Hlt). rewrite IH. reflexivity.
Qed.

Lemma cwj_fold_sorted m : forall acc, keys_sorted (map fst m) ->
  (forall kx, In kx acc -> forall ky, In ky m -> bstr_ltb (fst kx) (fst ky) = true) ->
  fold_left (fun acc kv => map_set acc (fst kv) (snd kv)) m acc = acc ++ m.
Proof.
  induction m as [|[k v] r IH]; intros acc Hs Hlt; [cbn; rewrite app_nil_r; reflexivity|].
  cbn [fold_left fst snd]. rewrite cwj_map_set_append.
  - rewrite IH.
    + rewrite <- app_assoc. reflexivity.
    + cbn [map fst] in Hs. eapply cwj_sorted_tail; exact Hs.
    + intros kx Hx ky Hy. apply in_app_or in Hx. destruct Hx as [Hx|[<-|[]]].
      * apply Hlt; [exact Hx|right; exact Hy].
      * cbn [map fst] in Hs. pose proof (cwj_head_lt _ _ Hs) as Hh. rewrite Forall_forall in Hh.
        cbn [fst]. apply Hh. apply in_map. exact Hy.
  - apply Forall_forall. intros kx Hx. apply (Hlt kx Hx (k, v)). left; reflexivity.
Qed.

Lemma cwj_sorted_fields m : keys_sorted (map fst m) -> sorted_fields m = m.
Proof. intro Hs. unfold sorted_fields. rewrite cwj_fold_sorted; [reflexivity|exact Hs|intros kx []]. Qed.

(* ---- depth ---- *)
Lemma cwj_depth_list x l : In x l -> (depth x <= fold_right (fun x acc => Nat.max (depth x) acc) 0%nat l)%nat.
Proof. induction l as [|y r IH]; [intros []|]. cbn [fold_right]. intros [->|H]; [lia|specialize (IH H); lia]. Qed.
Lemma cwj_depth_map (kx : bstr * value) m : In kx m -> (depth (snd kx) <= fold_right (fun kx acc => Nat.max (depth (snd kx)) acc) 0%nat m)%nat.
Proof. induction m as [|y r IH]; [intros []|]. cbn [fold_right]. intros [->|H]; [lia|specialize (IH H); lia]. Qed.

(* ---- the two encoders ---- *)
Section Bridge.
Let nn := json_nil_null.

Lemma cwj_items f l : (forall x, In x l -> json_value f x = json_encode nn x) -> json_items (json_value f) l = enc_items nn l.
Proof.
  induction l as [|x r IH]; intros H; [reflexivity|]. cbn [json_items enc_items].
  rewrite (H x (or_introl eq_refl)). rewrite IH by (intros y Hy; apply H; right; exact Hy). reflexivity.
Qed.

Lemma cwj_fields f m : (forall kx, In kx m -> json_value f (snd kx) = json_encode nn (snd kx)) ->
  json_fields (json_value f) m = (items <- enc_members nn m ;; Ok (map json_member items)).
Proof.
  induction m as [|[k x] r IH]; intros H; [reflexivity|]. cbn [json_fields enc_members].
  pose proof (H (k, x) (or_introl eq_refl)) as Hx. cbn [snd] in Hx. rewrite Hx. rewrite IH by (intros y Hy; apply H; right; exact Hy).
  destruct (json_encode nn x) as [s| | | | |]; cbn [bind]; try reflexivity.
  destruct (enc_members nn r) as [rs| | | | |]; cbn [bind]; reflexivity.
Qed.

Theorem cwj_json_value : forall v, cwj_sorted v -> forall f, (depth v < f)%nat -> json_value f v = json_encode nn v.
Proof.
  apply (value_ind2 (fun v => cwj_sorted v -> forall f, (depth v < f)%nat -> json_value f v = json_encode nn v)).
  - intros _ [|f] Hd; [lia|reflexivity].
  - intros _ [|f] Hd; [lia|reflexivity].
  - intros x _ [|f] Hd; [lia|destruct x; reflexivity].
  - intros z _ [|f] Hd; [lia|reflexivity].
  - intros x Hx [|f] Hd; [lia|]. cbn [json_value json_encode]. exact Hx.
  - intros s _ [|f] Hd; [lia|reflexivity].
  - intros id l IH Hs f Hd. destruct f as [|f]; [lia|]. apply cwj_sorted_list in Hs. cbn [depth] in Hd.
    rewrite json_encode_list. cbn [json_value]. destruct l as [|x r].
    + unfold is_nil_coll. fold nn. destruct (id =? 0), nn; reflexivity.
    + unfold is_nil_coll. rewrite Bool.andb_false_r.
      rewrite cwj_items; [reflexivity|]. intros y Hy. rewrite Forall_forall in IH, Hs.
      apply IH; [exact Hy|apply Hs, Hy|]. pose proof (cwj_depth_list y _ Hy). lia.
  - intros id m IH Hs f Hd. destruct f as [|f]; [lia|]. apply cwj_sorted_map in Hs. destruct Hs as [Hk Hs]. cbn [depth] in Hd.
    rewrite json_encode_map. cbn [json_value]. destruct m as [|kx0 r].
    + unfold is_nil_coll. fold nn. destruct (id =? 0), nn; reflexivity.
    + unfold is_nil_coll. rewrite Bool.andb_false_r. rewrite cwj_sorted_fields by exact Hk.
      rewrite cwj_fields.
      * destruct (enc_members nn (kx0 :: r)) as [items| | | | |] eqn:Em; cbn [bind]; try reflexivity.
        rewrite sort_kv_sorted; [reflexivity|]. rewrite (enc_members_keys nn _ _ Em). exact Hk.
      * intros y Hy. rewrite Forall_forall in IH, Hs.
        apply IH; [exact Hy|apply Hs, Hy|]. pose proof (cwj_depth_map y _ Hy). lia.
Qed.

(* what {$v|json} writes in a render through walk_xj is json_encode of the value *)
Theorem cwj_json_of v : cwj_sorted v -> json_of v = json_encode nn v.
Proof. intro H. unfold json_of. apply cwj_json_value; [exact H|lia]. Qed.

Theorem cwj_dir_json v args : cwj_sorted v ->
  dir_json (Some v) args = (s <- json_encode nn v ;; Ok (Some (VStr s))).
Proof. intro H. unfold dir_json. rewrite cwj_json_of by exact H. reflexivity. Qed.

(* the round trip, stated for the directive as the extended walker applies it *)
Theorem cwj_dir_json_roundtrip v args s : json_ok nn v -> cwj_floats v ->
  dir_json (Some v) args = Ok (Some (VStr s)) ->
  exists j, jv_of_value v = Some j /\ Spec.Json.json_parse s = Some j.
Proof.
  intros Hok Hfl Hd. rewrite cwj_dir_json in Hd by (apply (json_ok_cwj_sorted nn); assumption).
  destruct (json_encode nn v) as [s'| | | | |] eqn:E; cbn [bind] in Hd; try discriminate.
  injection Hd as <-. apply (json_roundtrip nn v s' Hok E).
Qed.
End Bridge.

(* not vacuous: a nested value with a map, a list, a nil list and strings *)
Example cwj_nonvacuous :
  let v := VMap 1 [(b "a", VList 2 [VInt 1; VStr (b "<x>"); VNull]); (b "b", VList 0 [])] in
  cwj_sorted v /\ exists s, json_of v = Ok s /\ json_encode json_nil_null v = Ok s.
Proof. split; [cbn; repeat split; reflexivity|]. eexists. split; vm_compute; reflexivity. Qed.
