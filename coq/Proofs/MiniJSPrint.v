(* C04: the printer of MiniJS gives exactly the chunks Model/JsGen.v emits:
   walking the node of a subset expression appends jprint (cgen scope e). *)
From Soy Require Import Model.Bytes Model.Num Model.Values Model.Outcome Model.Ast Model.JsGen Model.MiniJS Generated.Tables.
Open Scope N_scope.

Definition st_out (st : jstate) (cs : list chunk) : jstate := upd_out (fun o => rev cs ++ o) st.
Definition st_after (st : jstate) (cs : list chunk) : jstate := st_out (jset_cur None st) cs.

Lemma st_out_out st a c : st_out (st_out st a) c = st_out st (a ++ c).
Proof. destruct st. unfold st_out, upd_out. cbn. f_equal. rewrite rev_app_distr, app_assoc. reflexivity. Qed.
Lemma st_out_nil st : st_out st [] = st.
Proof. destruct st. reflexivity. Qed.
Lemma set_cur_out st cs : jset_cur None (st_out st cs) = st_out (jset_cur None st) cs.
Proof. destruct st. reflexivity. Qed.
Lemma set_cur_idem st : jset_cur None (jset_cur None st) = jset_cur None st.
Proof. destruct st. reflexivity. Qed.
Lemma scope_out st cs : j_scope (st_out st cs) = j_scope st. Proof. destruct st; reflexivity. Qed.
Lemma scope_cur st : j_scope (jset_cur None st) = j_scope st. Proof. destruct st; reflexivity. Qed.

Lemma jemit_out cs st : jemit cs st = Ok (tt, st_out st cs).
Proof. destruct st. unfold jemit, jmod, st_out, upd_out. cbn. rewrite rev_append_rev. reflexivity. Qed.
Lemma jtxt_out t st : jtxt t st = Ok (tt, st_out st [CText t]).
Proof. apply jemit_out. Qed.

Lemma jbind_ok {A B} (m : J A) (f : A -> J B) st x st' : m st = Ok (x, st') -> jbind m f st = f x st'.
Proof. intro H. unfold jbind. rewrite H. reflexivity. Qed.

(* the loops in scope: every variable of [lv] has a loop frame in the generator's scope *)
Definition lvok (lv : list bstr) (sc : list (list (bstr * bstr))) : Prop :=
  forall x, existsb (bstr_eqb x) lv = true -> fst (jsc_loop sc x) <> [].

Section Print.
Variable o : jopts.

(* the node of a subset expression is not a soydoc: s.node becomes "not a soydoc" *)
Lemma cnode_flags e : soydoc_flags (cnode e) = None.
Proof. destruct e; reflexivity. Qed.

Lemma jwalk_S f n st : jwalk o (S f) n st = jwalk_node o (jwalk o f) (j_cur st) n (jset_cur (soydoc_flags n) st).
Proof. reflexivity. Qed.

(* the reference part of a data reference (keys and constant indexes only) *)
Lemma dataref_print w accs : forall r cl st,
  exists pre res, jdataref_access w (map cacc_node accs) (jprint r) cl st = Ok (res, st_out st pre)
                  /\ pre ++ res = jprint (cgen_ref accs r) ++ cl.
Proof.
  induction accs as [|a rest IH]; intros r cl st; cbn [map jdataref_access cgen_ref].
  - exists [], (jprint r ++ cl). rewrite st_out_nil. split; reflexivity.
  - destruct a as [ns k|ns i]; cbn [cacc_node cacc_ns cacc_apply].
    + destruct ns.
      * destruct (IH (JEMember r k) (CText t_rpar :: cl) (st_out st ([CText t_op_open] ++ jprint r ++ [CText t_nullsafe]))) as (pre & res & E & H).
        exists (([CText t_op_open] ++ jprint r ++ [CText t_nullsafe]) ++ pre), res. split.
        -- erewrite jbind_ok; [|erewrite jbind_ok; [reflexivity|apply jemit_out]]. cbn [jprint] in E. rewrite E. rewrite st_out_out. reflexivity.
        -- rewrite <- (app_assoc _ pre res), H. cbn [jprint]. repeat rewrite <- app_assoc. cbn [app]. reflexivity.
      * destruct (IH (JEMember r k) cl st) as (pre & res & E & H). exists pre, res. split; [|exact H].
        erewrite jbind_ok; [|reflexivity]. exact E.
    + destruct ns.
      * destruct (IH (JEIndex r i) (CText t_rpar :: cl) (st_out st ([CText t_op_open] ++ jprint r ++ [CText t_nullsafe]))) as (pre & res & E & H).
        exists (([CText t_op_open] ++ jprint r ++ [CText t_nullsafe]) ++ pre), res. split.
        -- erewrite jbind_ok; [|erewrite jbind_ok; [reflexivity|apply jemit_out]]. cbn [jprint] in E. rewrite E. rewrite st_out_out. reflexivity.
        -- rewrite <- (app_assoc _ pre res), H. cbn [jprint]. repeat rewrite <- app_assoc. cbn [app]. reflexivity.
      * destruct (IH (JEIndex r i) cl st) as (pre & res & E & H). exists pre, res. split; [|exact H].
        erewrite jbind_ok; [|reflexivity]. exact E.
Qed.

Ltac step_txt := erewrite jbind_ok; [|apply jtxt_out].
Ltac step_emit := erewrite jbind_ok; [|apply jemit_out].
Ltac use_ih H lv := apply (H lv); [lia|assumption|rewrite ?scope_out, ?scope_cur; assumption].

(* cgen_print: the chunks JsGen writes for the node of e are jprint (cgen scope e) *)
Theorem cgen_print e : forall lv fuel st, (cdepth e < fuel)%nat -> cwf lv e = true -> lvok lv (j_scope st) ->
  jwalk o fuel (cnode e) st = Ok (tt, st_after st (jprint (cgen (j_scope st) e))).
Proof.
  induction e as [| x | z | s | key accs | a IHa | a IHa | op a IHa c IHc | c IHc a IHa d IHd | k x];
    intros lv fuel st Hf Hwf Hlv; (destruct fuel as [|f]; [cbn in Hf; lia|]); cbn [cdepth] in Hf;
    rewrite jwalk_S, cnode_flags; unfold st_after; rewrite <- (scope_cur st) in *;
    set (st1 := jset_cur None st) in *; cbn [cnode jwalk_node cgen jprint]; cbn [cwf] in Hwf.
  - apply jtxt_out.
  - destruct x; apply jtxt_out.
  - apply jemit_out.
  - apply jemit_out.
  - (* variable *)
    unfold visit_dataref.
    assert (Hbase : exists r, (if bstr_eqb key n_ij then JEIj else match jsc_lookup (j_scope st1) key with [] => JEParam key | g => JEVar g end) = r
              /\ (if bstr_eqb key n_ij then jret [CText t_opt_ij]
                  else jbind (lookup_var key) (fun g => match g with [] => jret [CText t_opt_data_dot; CName key] | _ => jret [CName g] end)) st1
                 = Ok (jprint r, st1)).
    { eexists. split; [reflexivity|]. destruct (bstr_eqb key n_ij); [reflexivity|].
      unfold lookup_var, jbind, jget, jret. destruct (jsc_lookup (j_scope st1) key); reflexivity. }
    destruct Hbase as (r & Er & Eb). rewrite Er. erewrite jbind_ok; [|exact Eb].
    destruct (dataref_print (jwalk o f) accs r [] st1) as (pre & res & E & H). erewrite jbind_ok; [|exact E].
    rewrite jemit_out, st_out_out, H, app_nil_r. reflexivity.
  - (* neg *)
    step_txt. erewrite jbind_ok; [|use_ih IHa lv]. unfold st_after. rewrite set_cur_out. subst st1. rewrite set_cur_idem.
    rewrite jtxt_out. rewrite !st_out_out, scope_out. reflexivity.
  - (* not *)
    step_txt. erewrite jbind_ok; [|use_ih IHa lv]. unfold st_after. rewrite set_cur_out. subst st1. rewrite set_cur_idem.
    rewrite jtxt_out. rewrite !st_out_out, scope_out. reflexivity.
  - (* binary *)
    apply andb_prop in Hwf. destruct Hwf as [Hwa Hwc].
    assert (Hop : forall sym, jop (jwalk o f) sym (cnode a) (cnode c) st1
                  = Ok (tt, st_out st1 ([CText t_op_open] ++ jprint (cgen (j_scope st1) a) ++ [CText t_op_mid1; CText sym; CText t_op_mid2]
                                        ++ jprint (cgen (j_scope st1) c) ++ [CText t_op_close]))).
    { intro sym. unfold jop. step_txt. erewrite jbind_ok; [|use_ih IHa lv]. unfold st_after. rewrite set_cur_out. subst st1. rewrite set_cur_idem.
      step_emit. erewrite jbind_ok; [|use_ih IHc lv]. unfold st_after. rewrite !set_cur_out, set_cur_idem.
      rewrite jtxt_out. rewrite !st_out_out, !scope_out. rewrite <- ?app_assoc. reflexivity. }
    destruct op; try (cbn [cgen_binop jprint jbin_sym binop_sym]; apply Hop).
    (* elvis *)
    step_txt. erewrite jbind_ok; [|use_ih IHa lv]. unfold st_after. rewrite set_cur_out. subst st1. rewrite set_cur_idem.
    step_txt. erewrite jbind_ok; [|use_ih IHa lv]. unfold st_after. rewrite !set_cur_out, set_cur_idem.
    step_txt. erewrite jbind_ok; [|use_ih IHc lv]. unfold st_after. rewrite !set_cur_out, set_cur_idem.
    rewrite jtxt_out. rewrite !st_out_out, !scope_out. rewrite <- ?app_assoc. reflexivity.
  - (* ternary *)
    apply andb_prop in Hwf. destruct Hwf as [Hwf Hwd]. apply andb_prop in Hwf. destruct Hwf as [Hwc Hwa].
    step_txt. erewrite jbind_ok; [|use_ih IHc lv]. unfold st_after. rewrite set_cur_out. subst st1. rewrite set_cur_idem.
    step_txt. erewrite jbind_ok; [|use_ih IHa lv]. unfold st_after. rewrite !set_cur_out, set_cur_idem.
    step_txt. erewrite jbind_ok; [|use_ih IHd lv]. unfold st_after. rewrite !set_cur_out, set_cur_idem.
    rewrite jtxt_out. rewrite !st_out_out, !scope_out. rewrite <- ?app_assoc. reflexivity.
  - (* loop function *)
    unfold visit_function.
    replace (assoc_s (cloop_name k) js_builtin_funcs) with (@None bstr) by (destruct k; vm_compute; reflexivity).
    replace (assoc_s (cloop_name k) js_funcs) with (@None (list N * list (option nat * list (bstr + nat)))) by (destruct k; vm_compute; reflexivity).
    replace (bstr_eqb (cloop_name k) jn_isFirst || bstr_eqb (cloop_name k) jn_isLast || bstr_eqb (cloop_name k) jn_index) with true
      by (destruct k; reflexivity).
    erewrite jbind_ok; [|reflexivity]. cbn [loop_var_of].
    specialize (Hlv x Hwf). destruct (jsc_loop (j_scope st1) x) as [ix lim]. cbn [fst] in Hlv.
    destruct ix as [|c0 ix]; [congruence|].
    destruct k.
    + replace (bstr_eqb (cloop_name LIndex) jn_isFirst) with false by reflexivity.
      replace (bstr_eqb (cloop_name LIndex) jn_isLast) with false by reflexivity. apply jemit_out.
    + replace (bstr_eqb (cloop_name LIsFirst) jn_isFirst) with true by reflexivity. apply jemit_out.
    + replace (bstr_eqb (cloop_name LIsLast) jn_isFirst) with false by reflexivity.
      replace (bstr_eqb (cloop_name LIsLast) jn_isLast) with true by reflexivity. apply jemit_out.
Qed.

(* the statement {print e} under autoescape off: out += <expression>; *)
Theorem cgen_print_stmt e lv fuel st : j_auto st = 2 -> (S (cdepth e) < fuel)%nat -> cwf lv e = true -> lvok lv (j_scope st) ->
  jwalk o fuel (NPrint 0 (cnode e) []) st
  = Ok (tt, st_after st ([CText (indent_text (j_indent st)); CName (j_buf st); CText t_pluseq]
                         ++ jprint (cgen (j_scope st) e) ++ [CText t_semi_nl])).
Proof.
  intros Ha Hf Hwf Hlv. destruct fuel as [|f]; [lia|]. rewrite jwalk_S. cbn [soydoc_flags].
  unfold st_after. set (st1 := jset_cur None st).
  assert (H1 : j_auto st1 = 2 /\ j_indent st1 = j_indent st /\ j_buf st1 = j_buf st /\ j_scope st1 = j_scope st) by (subst st1; destruct st; cbn in *; auto).
  destruct H1 as (A1 & I1 & B1 & S1). rewrite <- I1, <- B1, <- S1.
  cbn [jwalk_node]. unfold visit_print.
  erewrite jbind_ok; [|reflexivity]. cbn [print_scan]. erewrite jbind_ok; [|reflexivity]. rewrite A1. cbn [N.eqb].
  change (2 =? 2) with true. cbn iota.
  unfold jindent. erewrite jbind_ok; [|erewrite jbind_ok; [apply jtxt_out|reflexivity]].
  unfold bufname. erewrite jbind_ok; [|erewrite jbind_ok; [reflexivity|reflexivity]].
  erewrite jbind_ok; [|apply jemit_out]. cbn [rev print_opens]. erewrite jbind_ok; [|reflexivity].
  erewrite jbind_ok; [|apply (cgen_print e lv); [lia|exact Hwf|rewrite ?scope_out; subst st1; rewrite scope_cur; exact Hlv]]. cbn [print_closes]. erewrite jbind_ok; [|reflexivity].
  rewrite jtxt_out. unfold st_after. rewrite !set_cur_out. subst st1. rewrite set_cur_idem.
  rewrite !st_out_out, !scope_out. cbn [app]. rewrite <- ?app_assoc. cbn [app].
  destruct st; reflexivity.
Qed.
End Print.
