(* C16 / C14: the escaper soy calls for the inside of a JavaScript string literal
   (Model/JsEscape.v js_escape_soy).  With [pair = true] (internal/jsescape: a
   non-printable rune above U+FFFF is written as its surrogate pair) the literal
   reads back as the value for EVERY valid UTF-8 string; with [pair = false] it
   is text/template's escaper and the guard of CodecProofs.jsstr_roundtrip_q remains. *)
From Coq Require Import Lia ZifyN ZifyNat ZifyBool.
From Soy Require Import Model.Bytes Generated.Tables Model.Utf8 Model.Outcome Model.Escape Model.Directives Model.JsEscape
  Spec.Html Spec.Codec Proofs.Utf8Proofs Proofs.CodecProofs.
Open Scope N_scope.

Lemma js_escape_soy_false_aux is_print s : forall k, js_escape_soy_aux false is_print k s = js_escape_aux is_print k s.
Proof.
  induction s as [|c r IH]; intros k; [reflexivity|]. cbn [js_escape_soy_aux js_escape_aux].
  destruct k as [|k]; [|apply IH]. destruct (c <? 128).
  - destruct (js_ascii_escape c); rewrite IH; reflexivity.
  - rewrite IH. unfold js_rune_piece_soy, js_rune_piece. cbn [andb]. reflexivity.
Qed.

Lemma js_escape_soy_false is_print s : js_escape_soy false is_print s = js_escape is_print s.
Proof. apply js_escape_soy_false_aux. Qed.

Section JsPair.
  Variable pair : bool.
  Variable is_print : N -> bool.
  Hypothesis is_print_ls : is_print 8232 = false.
  Hypothesis is_print_ps : is_print 8233 = false.
  Variable q : N.
  Hypothesis Hq : q = 39 \/ q = 34.

  Lemma js_escape_soy_skip k pre X : length pre = k ->
    js_escape_soy_aux pair is_print k (pre ++ X) = js_escape_soy_aux pair is_print 0 X.
  Proof.
    revert pre; induction k; intros [|c pre] H; cbn in H; try discriminate; [reflexivity|].
    cbn [app js_escape_soy_aux]. apply IHk. lia.
  Qed.

  Definition pair_text (r : N) : bstr := (92 :: 117 :: hex4 (hi_surrogate r)) ++ (92 :: 117 :: hex4 (lo_surrogate r)).
  Definition use_pair (r : N) : bool := pair && (65536 <=? r) && negb (is_print r) && negb (r <? 128).

  Definition js_piece_soy (r : N) : bstr := if use_pair r then pair_text r else js_piece is_print r.

  Lemma js_escape_soy_rune r X : valid_scalar r ->
    js_escape_soy_aux pair is_print 0 (encode_rune r ++ X) = js_piece_soy r ++ js_escape_soy_aux pair is_print 0 X.
  Proof.
    intros Hv. unfold js_piece_soy, use_pair, js_piece. destruct (r <? 128) eqn:E128.
    - rewrite andb_false_r. rewrite encode_rune_ascii by lia. cbn [app js_escape_soy_aux]. rewrite E128. unfold js_piece_ascii.
      destruct (js_ascii_escape r); reflexivity.
    - pose proof (decode_encode r X Hv) as Hd.
      destruct (encode_rune_shape r Hv) as (c0 & tl & E & _ & _ & _ & Hlow & _).
      assert ((c0 <? 128) = false) as Ec0 by (destruct (c0 <? 128) eqn:El; [|reflexivity]; assert (c0 < 128) as Hl by lia; apply Hlow in Hl; lia).
      rewrite E in *. cbn [app js_escape_soy_aux]. rewrite Ec0. unfold js_rune_piece_soy, rune_width. cbn [app] in Hd. rewrite Hd.
      cbn [snd length Nat.pred]. rewrite js_escape_soy_skip by reflexivity.
      destruct (is_print r).
      + rewrite andb_false_r. cbn [andb negb].
        change (c0 :: tl ++ X) with ((c0 :: tl) ++ X). change (S (length tl)) with (length (c0 :: tl)).
        rewrite take_app_length. reflexivity.
      + cbn [negb]. rewrite !andb_true_r. destruct (pair && (65536 <=? r)); reflexivity.
  Qed.

  Lemma hi_lo_rune r : 65536 <= r -> r <= 1114111 ->
    is_high (hi_surrogate r) = true /\ is_low (lo_surrogate r) = true /\ hi_surrogate r < 65536 /\ lo_surrogate r < 65536 /\
    65536 + (hi_surrogate r - 55296) * 1024 + (lo_surrogate r - 56320) = r.
  Proof. intros H1 H2. unfold is_high, is_low, in_range, hi_surrogate, lo_surrogate. lia. Qed.

  Lemma js_read_u_hi hi h1 h2 h3 h4 v Y out hi' : hexval4 h1 h2 h3 h4 = Some v -> emit_tok hi (TUnit v) = (out, hi') ->
    js_read_aux q 0 hi (92 :: 117 :: h1 :: h2 :: h3 :: h4 :: Y) = option_map (app out) (js_read_aux q 0 hi' Y).
  Proof.
    intros Hh He. apply (js_read_step is_print q Hq hi (TUnit v) 92 [117; h1; h2; h3; h4] Y out hi'); [|exact He].
    cbn [app length]. apply (js_tok_u is_print q Hq). exact Hh.
  Qed.

  Lemma js_read_pair r Y : valid_scalar r -> 65536 <= r ->
    js_read_aux q 0 None (pair_text r ++ Y) = option_map (app (encode_rune r)) (js_read_aux q 0 None Y).
  Proof.
    intros Hv Hr. assert (r <= 1114111) as Hmax by (unfold valid_scalar in Hv; lia).
    destruct (hi_lo_rune r Hr Hmax) as (Hhi & Hlo & Hh16 & Hl16 & Hsum).
    unfold pair_text, hex4. rewrite <- app_assoc. cbn [app].
    rewrite (js_read_u_hi None _ _ _ _ (hi_surrogate r) _ [] (Some (hi_surrogate r))).
    2:{ apply hexval4_hex4. exact Hh16. }
    2:{ cbn [emit_tok]. rewrite Hhi. reflexivity. }
    rewrite (js_read_u_hi (Some (hi_surrogate r)) _ _ _ _ (lo_surrogate r) _ (encode_rune r) None).
    2:{ apply hexval4_hex4. exact Hl16. }
    2:{ cbn [emit_tok]. rewrite Hlo, Hsum. reflexivity. }
    destruct (js_read_aux q 0 None Y); reflexivity.
  Qed.

  Lemma js_read_piece_soy r Y : valid_scalar r -> (pair = true \/ r < 65536 \/ is_print r = true) ->
    js_read_aux q 0 None (js_piece_soy r ++ Y) = option_map (app (encode_rune r)) (js_read_aux q 0 None Y).
  Proof.
    intros Hv Hg. unfold js_piece_soy. destruct (use_pair r) eqn:Eu.
    - apply js_read_pair; [exact Hv|]. unfold use_pair in Eu. lia.
    - apply (js_read_piece is_print is_print_ls is_print_ps q Hq); [exact Hv|].
      unfold use_pair in Eu. destruct Hg as [->|Hg]; [|exact Hg].
      cbn [andb] in Eu. destruct (is_print r); [right; reflexivity|]. left. lia.
  Qed.

  Theorem jsstr_roundtrip_soy_q s : utf8_valid s = true ->
    Forall (fun r => pair = true \/ r < 65536 \/ is_print r = true) (runes s) ->
    js_read_literal_q q (js_escape_soy pair is_print s) = Some s.
  Proof.
    unfold js_read_literal_q, js_escape_soy. revert s.
    apply (utf8_valid_ind (fun s => Forall (fun r => pair = true \/ r < 65536 \/ is_print r = true) (runes s) ->
                                    js_read_aux q 0 None (js_escape_soy_aux pair is_print 0 s) = Some s)).
    - intros _. reflexivity.
    - intros r X Hv HX IH Hg. rewrite runes_rune in Hg by exact Hv. inversion Hg as [|? ? Hg1 Hg2]; subst.
      rewrite js_escape_soy_rune by exact Hv. rewrite js_read_piece_soy by assumption. rewrite IH by exact Hg2. reflexivity.
  Qed.

  (* composition with truncate, as CodecProofs.chain_truncate_jsstr *)
  Theorem chain_truncate_jsstr_soy s n e out : utf8_valid s = true ->
    Forall (fun r => pair = true \/ r < 65536 \/ is_print r = true) (runes s) ->
    truncate s n e = Ok out ->
    js_read_literal_q q (js_escape_soy pair is_print out) = Some out.
  Proof.
    intros Hv Hg Ht.
    destruct (Z.leb_spec (Z.of_nat (length s)) n) as [Hfit|Hcut].
    - rewrite truncate_fits in Ht by exact Hfit. injection Ht as <-. apply jsstr_roundtrip_soy_q; assumption.
    - destruct (truncate_cut s n e out Hcut Ht) as (k & c & -> & _ & _ & Hn & Hrs & _ & _ & Hvalid).
      apply jsstr_roundtrip_soy_q; auto.
      assert (utf8_valid (take k s) = true) as Hvk by (eapply utf8_valid_take; eauto).
      rewrite runes_app by exact Hvk. apply Forall_app. split.
      + rewrite Forall_forall in *. intros r Hr. apply Hg. eapply runes_take; eauto.
      + destruct (trunc_ell n e); [repeat constructor; lia|constructor].
  Qed.
End JsPair.

(* no line feed, carriage return, < > & = in the escaped text, for every byte string *)
Theorem js_escape_soy_inert pair is_print s : Forall js_inert (js_escape_soy pair is_print s).
Proof.
  unfold js_escape_soy. generalize 0%nat as k. induction s as [|c r IH]; intros k; [constructor|].
  cbn [js_escape_soy_aux]. destruct k as [|k]; [|apply IH].
  destruct (c <? 128) eqn:E128.
  - unfold js_ascii_escape.
    repeat match goal with |- context[N.eqb c ?k] => destruct (N.eqb_spec c k); [subst c; cbn [app]; repeat constructor; try lia; apply IH|] end.
    destruct (c <? 32) eqn:E32.
    + cbn [app]. repeat constructor; try lia; try (apply hexdigit_inert; lia). apply IH.
    + constructor; [unfold js_inert; lia|apply IH].
  - apply Forall_app. split; [|apply IH].
    unfold js_rune_piece_soy. destruct (decode_rune (c :: r)) as [ru w] eqn:Hd.
    destruct (is_print ru).
    + eapply Forall_impl; [|eapply decode_rune_take_high; [exact Hd|exists c, r; split; [reflexivity|lia]]].
      cbn. unfold js_inert. intros; lia.
    + destruct (pair && (65536 <=? ru)).
      * unfold hex4. cbn [app]. repeat constructor; try lia; apply hexdigit_inert; lia.
      * unfold fmt_04X, hex4. brk; repeat constructor; try lia; apply hexdigit_inert; lia.
Qed.

(* the repaired escaper, instantiated with Go's unicode.IsPrint: no guard *)
Theorem jsstr_roundtrip_repaired s : utf8_valid s = true -> js_read_literal (js_escape_soy true is_print_tbl s) = Some s.
Proof.
  intros Hv. apply (jsstr_roundtrip_soy_q true is_print_tbl is_print_tbl_ls is_print_tbl_ps 39 (or_introl eq_refl)); [exact Hv|].
  apply Forall_forall. intros; left; reflexivity.
Qed.

Theorem jsstr_roundtrip_repaired_dq s : utf8_valid s = true -> js_read_literal_q 34 (js_escape_soy true is_print_tbl s) = Some s.
Proof.
  intros Hv. apply (jsstr_roundtrip_soy_q true is_print_tbl is_print_tbl_ls is_print_tbl_ps 34 (or_intror eq_refl)); [exact Hv|].
  apply Forall_forall. intros; left; reflexivity.
Qed.

(* the witness of finding jsstr-astral-nonprint-5hex reads back under the repair *)
Example jsstr_pair_witness :
  js_escape_soy true is_print_tbl [243; 176; 128; 128; 122] = [92; 117; 68; 66; 56; 48; 92; 117; 68; 67; 48; 48; 122]
  /\ js_read_literal [92; 117; 68; 66; 56; 48; 92; 117; 68; 67; 48; 48; 122] = Some [243; 176; 128; 128; 122].
Proof. split; vm_compute; reflexivity. Qed.
