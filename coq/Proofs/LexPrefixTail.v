(* Prefix determinism of the scanner, part 5: the state functions with unbounded look-ahead syntax (keyword prefixes, strings.Index), soydoc. *)
From Soy Require Import Model.Bytes Model.Utf8 Model.Outcome Model.Token Model.Lexer Generated.Tables Proofs.LexPrefix Proofs.LexPrefixStates.
From Coq Require Import ZifyBool ZifyNat ZifyN Lia List.
Import ListNotations.
Open Scope Z_scope.

Section Det.
Variable ul ud : Z -> bool.
Variable pre r1 r2 : bstr.
Variable base : Z.
Notation inp1 := (pre ++ r1).
Notation inp2 := (pre ++ r2).
Notation n1 := (Z.of_nat (length (pre ++ r1))).
Notation n2 := (Z.of_nat (length (pre ++ r2))).
Notation h := (Z.of_nat (length pre)).

Ltac replay := repeat (replay1 pre r1 r2 base).
Ltac start H := pose proof (h_le1 pre r1); pose proof (h_le2 pre r2); cbv zeta in H; crack; cbn [fst snd] in *;
  repeat match goal with Hx : context [if ?c then _ else _] |- _ =>
           match type of Hx with
           | _ <= _ => let C := fresh "C" in destruct c eqn:C
           | (_ < _)%nat => let C := fresh "C" in destruct c eqn:C
           end end; facts; monos.
Ltac moves :=
  repeat match goal with
  | E : next _ _ ?l = Ok (_, ?l1) |- _ =>
      lazymatch goal with _ : l_pos l < l_pos l1 |- _ => fail | _ => pose proof (next_moves _ _ _ _ E ltac:(side2)) end
  end.
Ltac replay2 :=
  repeat first
  [ replay1 pre r1 r2 base
  | match goal with
    | E : accept_run_loop _ _ _ ?v ?l = Ok _ |- context [accept_run_loop _ _ ?f2 ?v ?l] =>
        rewrite (accept_run_loop_det ul ud pre r1 r2 base _ _ _ _ E ltac:(side2) f2 ltac:(side2)); cbn [bind]
    | E : skip_space_loop _ _ _ ?l = Ok _ |- context [skip_space_loop _ _ ?f2 ?l] =>
        rewrite (skip_space_loop_det ul ud pre r1 r2 base _ _ _ E ltac:(side2) f2 ltac:(side2)); cbn [bind]
    | E : alnum_loop _ _ _ _ _ ?l = Ok _ |- context [alnum_loop _ _ _ _ ?f2 ?l] =>
        rewrite (alnum_loop_det ul ud pre r1 r2 base _ _ _ E ltac:(side2) f2 ltac:(side2)); cbn [bind]
    | E : soydoc_space_loop _ _ _ ?l = Ok _ |- context [soydoc_space_loop _ _ ?f2 ?l] =>
        rewrite (soydoc_space_loop_det ul ud pre r1 r2 base _ _ _ E ltac:(side2) f2 ltac:(side2)); cbn [bind]
    | E : literal_space_loop _ _ _ ?ch ?l = Ok _ |- context [literal_space_loop _ _ ?f2 ?ch ?l] =>
        rewrite (literal_space_loop_det ul ud pre r1 r2 base _ _ _ _ E ltac:(side2) f2 ltac:(side2)); cbn [bind]
    | E : soydoc_ident_loop _ _ _ _ ?l = Ok _ |- context [soydoc_ident_loop _ _ _ ?f2 ?l] =>
        rewrite (soydoc_ident_loop_det ul ud pre r1 r2 base _ _ _ E ltac:(side2) f2 ltac:(side2)); cbn [bind]
    | E : css_loop _ _ _ _ ?l = Ok _ |- context [css_loop _ _ _ ?f2 ?l] =>
        rewrite (css_loop_det ul ud pre r1 r2 base _ _ _ E ltac:(unfold spos; side2) f2 ltac:(unfold spos; side2)); cbn [bind]
    | E : header_type_loop _ _ _ _ ?lns ?l = Ok _ |- context [header_type_loop _ _ _ ?f2 ?lns ?l] =>
        rewrite (header_type_loop_det ul ud pre r1 r2 base _ lns l _ ltac:(side2) E ltac:(unfold hpos; side2) f2 ltac:(unfold hpos; side2)); cbn [bind]
    end ].

Ltac dead := exfalso; unfold errorf_fact in *; cbn [fst snd] in *; intuition congruence.
Ltac lencond :=
  match goal with
  | |- context [if (?a <=? Z.of_nat (length (pre ++ r2))) then _ else _] =>
      let Cx := fresh "Cx" in destruct (a <=? Z.of_nat (length (pre ++ r2))) eqn:Cx; try solve [exfalso; side2]
  end.
Ltac fn H := pose proof kw_lens; start H; try solve [dead]; repeat (replay2; try lencond).

Ltac tailslice kw :=
  match goal with Et : slice _ _ ?p (Z.of_nat (length (pre ++ r1))) = Ok ?tl |- _ =>
    let tl2 := fresh "tl2" in let Et2 := fresh "Et2" in let Ep := fresh "Ep" in
    destruct (tail_slice_agree pre r1 r2 kw p tl ltac:(side2) ltac:(side2) Et) as (tl2 & Et2 & Ep);
    rewrite Et2; cbn [bind]; rewrite Ep
  end.

Ltac tailindex sep :=
  match goal with Et : slice _ _ ?p (Z.of_nat (length (pre ++ r1))) = Ok ?tl, Ex : index_of sep ?tl 0 = Some ?i |- _ =>
    let tl2 := fresh "tl2" in let Et2 := fresh "Et2" in let Ex2 := fresh "Ex2" in
    destruct (tail_index_agree pre r1 r2 sep p tl i ltac:(side2) ltac:(side2) ltac:(side2) Et Ex) as (tl2 & Et2 & Ex2);
    rewrite Et2; cbn [bind]; rewrite Ex2
  end.

Lemma index_of_nonneg sep : forall s i0 i, index_of sep s i0 = Some i -> i0 <= i.
Proof.
  induction s as [|x s IH]; intros i0 i H; cbn [index_of] in H.
  - destruct (is_prefix sep []); inversion H; lia.
  - destruct (is_prefix sep (x :: s)); [inversion H; lia|]. apply IH in H. lia.
Qed.

Lemma lex_literal_det l res : lex_literal inp1 n1 base l = Ok res -> l_pos (snd res)+ m_literal <= h -> fst res <> LDone ->
  lex_literal inp2 n2 base l = Ok res.
Proof using All.
  intros H Hb Hl. unfold lex_literal, double_close in *. pose proof kw_lens. start H; try solve [dead].
  all: repeat match goal with Ex : index_of _ _ 0 = Some _ |- _ => apply index_of_nonneg in Ex as ? ; revert Ex end; intros.
  all: replay2.
  all: first [tailindex literal_close2 | tailindex literal_close1]; replay2.
Qed.

(* ---------- soydoc ---------- *)
Lemma lex_soydoc_param_mono inp l r : lex_soydoc_param inp (Z.of_nat (length inp)) base l = Ok r ->
  l_pos l + soydoc_kw_len <= Z.of_nat (length inp) -> l_pos l <= l_pos r.
Proof using All.
  intros H Hn. unfold lex_soydoc_param in H. pose proof kw_lens. cbv zeta in H. crack; facts; monos; side2.
Qed.
Lemma lex_soydoc_param_det l res : lex_soydoc_param inp1 n1 base l = Ok res -> l_pos res + m_sdparam <= h ->
  lex_soydoc_param inp2 n2 base l = Ok res.
Proof using All. intros H Hb. unfold lex_soydoc_param in *. pose proof kw_lens. start H. all: replay2. Qed.

Lemma soydoc_loop_mono inp f : forall star sol l r, soydoc_loop inp (Z.of_nat (length inp)) base f star sol l = Ok r ->
  pmono (Z.of_nat (length inp)) l r.
Proof using All.
  induction f as [|f IH]; intros star sol l r H; [discriminate|]. cbn [soydoc_loop] in H. cbv zeta in H. pose proof kw_lens.
  crack; cbn [fst snd] in *; facts; monos;
    repeat match goal with E : lex_soydoc_param _ _ _ _ = Ok _ |- _ => apply lex_soydoc_param_mono in E; [|side2] end;
    try (apply IH in H); side2.
Qed.

Ltac sdfacts :=
  repeat match goal with
  | E : lex_soydoc_param _ _ _ ?l = Ok ?r |- _ =>
      lazymatch goal with _ : l_pos l <= l_pos r |- _ => fail | _ => pose proof (lex_soydoc_param_mono _ _ _ E ltac:(side2)) end
  | E : soydoc_loop _ _ _ _ _ _ ?l = Ok ?r |- _ =>
      lazymatch goal with _ : pmono _ l r |- _ => fail | _ => pose proof (soydoc_loop_mono _ _ _ _ _ _ E) end
  end.
Ltac sdreplay :=
  repeat first
  [ progress replay2
  | tailslice soydoc_param_kw
  | match goal with E : lex_soydoc_param _ _ _ ?l = Ok _ |- context [lex_soydoc_param _ _ _ ?l] =>
      rewrite (lex_soydoc_param_det _ _ E ltac:(side2)); cbn [bind] end ].

Lemma soydoc_loop_det f1 : forall star sol l r, soydoc_loop inp1 n1 base f1 star sol l = Ok r -> l_pos (snd r)+ m_soydoc <= h ->
  forall f2, (2 * Z.to_nat (l_pos (snd r) + 8 - l_pos l) + (if sol then 1 else 0) < f2)%nat ->
  soydoc_loop inp2 n2 base f2 star sol l = Ok r.
Proof using All.
  induction f1 as [|f1 IH]; intros star sol l r H Hb [|f2] Hf; try discriminate; [lia|].
  cbn [soydoc_loop] in H. pose proof kw_lens. start H; sdfacts; try side2.
  all: cbn [soydoc_loop]; cbv zeta; sdreplay.
  all: try solve [exfalso; match goal with C2 : gen_isSpaceEOL ?z = false, C4 : gen_isEndOfLine ?z = true |- _ =>
         unfold gen_isSpaceEOL, gen_isSpace, gen_isEndOfLine in C2, C4; lia end].
  all: cbn [fst snd]; try (eapply IH; first [exact H | side2]).
Qed.
End Det.


