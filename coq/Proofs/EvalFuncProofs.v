(* C01, part 2: the built-in functions.  apply_func of Model/Interp.v (soyhtml/funcs.go) on
   evaluated arguments agrees with the documented meaning written in Spec/Expr.v
   (apply_fn_spec), for every function of the table and every argument list of an arity
   the table allows; the arity table of the Spec is the one regenerated from the Go source. *)
From Coq Require Import Lia ZifyN ZifyBool ZifyNat.
From Soy Require Import Model.Bytes Model.Num Model.Values Model.Outcome Model.Ast Model.Interp
  Model.ExprTrans Spec.Expr Generated.Tables Proofs.ValueProofs Proofs.EvalProofs.
Open Scope N_scope.

Definition fres_of (r : fresult) : fres :=
  match r with RValue v => FVal v | RList l => FNewList l | RMap m => FNewMap m end.

(* ---- the tie to the regenerated table: names, arities, not a loop function ---- *)

Lemma fn_arities_table f : func_arities (fn_name f) = Some (map N.of_nat (fn_arities f)).
Proof. destruct f; vm_compute; reflexivity. Qed.

Lemma fn_not_loop f :
  fn_is (fn_name f) n_index || fn_is (fn_name f) n_isFirst || fn_is (fn_name f) n_isLast = false.
Proof. destruct f; vm_compute; reflexivity. Qed.

Lemma mem_of_nat n (ar : list nat) : mem (N.of_nat n) (map N.of_nat ar) = existsb (Nat.eqb n) ar.
Proof.
  unfold mem. induction ar as [|a r IH]; cbn [map existsb]; [reflexivity|].
  rewrite IH. f_equal.
  destruct (N.eqb_spec (N.of_nat n) (N.of_nat a)), (Nat.eqb_spec n a); try reflexivity; lia.
Qed.

(* ---- rounding ---- *)

Lemma strip2_sign p e : let '(q, e') := strip2 p e in True.
Proof. destruct (strip2 p e); exact I. Qed.

Lemma mk_fl_pos M e y : (0 < M)%Z -> mk_fl M e = Some y -> exists q e', y = FFin (Zpos q) e'.
Proof.
  intros HM. unfold mk_fl. destruct M as [|p|p]; try lia.
  destruct (strip2 p e) as [q e'].
  destruct ((Z.pos q <? two53)%Z && (-1000 <? e')%Z && (e' <? 900)%Z); [|discriminate].
  intros [= <-]. eauto.
Qed.

Lemma mk_fl_neg M e y : (M < 0)%Z -> mk_fl M e = Some y -> exists q e', y = FFin (Zneg q) e'.
Proof.
  intros HM. unfold mk_fl. destruct M as [|p|p]; try lia.
  destruct (strip2 p e) as [q e'].
  destruct ((Z.pos q <? two53)%Z && (-1000 <? e')%Z && (e' <? 900)%Z); [|discriminate].
  intros [= <-]. eauto.
Qed.

Lemma trunc_floor_pos q e : fl_trunc_Z (FFin (Zpos q) e) = fl_floor_Z (FFin (Zpos q) e).
Proof.
  cbn [fl_trunc_Z fl_floor_Z]. destruct (0 <=? e)%Z eqn:He; [reflexivity|].
  f_equal. apply Z.quot_div_nonneg; [lia|].
  apply Z.pow_pos_nonneg; lia.
Qed.

Lemma trunc_ceil_neg q e : fl_trunc_Z (FFin (Zneg q) e) = fl_ceil_Z (FFin (Zneg q) e).
Proof.
  cbn [fl_trunc_Z fl_ceil_Z]. destruct (0 <=? e)%Z eqn:He; [reflexivity|].
  f_equal.
  assert (Hd : (0 < 2 ^ (- e))%Z) by (apply Z.pow_pos_nonneg; lia).
  change (Z.neg q) with (- Z.pos q)%Z.
  rewrite Z.quot_opp_l by lia. rewrite Z.opp_involutive.
  f_equal. apply Z.quot_div_nonneg; lia.
Qed.

Definition round_impl (x : fl) : outcome fres :=
  match fl_add x (if fl_isneg x && negb (fl_is_zero x) then fl_neg half else half) with
  | Some y => match fl_trunc_Z y with Some z => Ok (FVal (VInt (wrap64 z))) | None => OutOfModel end
  | None => OutOfModel
  end.

Lemma pow2_gt0 k : (0 <= k)%Z -> (0 < 2 ^ k)%Z.
Proof. intros. apply Z.pow_pos_nonneg; lia. Qed.

Lemma round_rel x : orel (r <- round_half_away x ;; Ok (fres_of (RValue r))) (round_impl x).
Proof.
  unfold round_half_away, round_impl, fl_sub, half_up, half.
  destruct x as [| s | s | m e].
  - (* NaN *) cbn. exact I.
  - (* Inf *) destruct s; cbn; exact I.
  - (* zero *) destruct s; cbn; reflexivity.
  - cbn [fl_isneg fl_is_zero negb andb].
    rewrite andb_true_r.
    destruct (m <? 0)%Z eqn:Hneg.
    + (* negative: x - 1/2, ceiling *)
      cbn [fl_neg].
      destruct (fl_add (FFin m e) (FFin (- (1)) (-1))) as [y|] eqn:Hy; [|exact I].
      cbn [fl_add] in Hy.
      apply mk_fl_neg in Hy.
      * destruct Hy as (q&e'&->). rewrite trunc_ceil_neg.
        destruct (fl_ceil_Z (FFin (Z.neg q) e')) as [z|]; [|exact I].
        unfold int_result. destruct (in_int64 z) eqn:Hz; cbn; [|exact I].
        rewrite (wrap64_id _ Hz). reflexivity.
      * assert (H1 : (0 < 2 ^ (e - Z.min e (-1)))%Z) by (apply pow2_gt0; lia).
        assert (H2 : (0 < 2 ^ (-1 - Z.min e (-1)))%Z) by (apply pow2_gt0; lia).
        nia.
    + (* non-negative: x + 1/2, floor *)
      destruct (fl_add (FFin m e) (FFin 1 (-1))) as [y|] eqn:Hy; [|exact I].
      cbn [fl_add] in Hy.
      apply mk_fl_pos in Hy.
      * destruct Hy as (q&e'&->). rewrite trunc_floor_pos.
        destruct (fl_floor_Z (FFin (Z.pos q) e')) as [z|]; [|exact I].
        unfold int_result. destruct (in_int64 z) eqn:Hz; cbn; [|exact I].
        rewrite (wrap64_id _ Hz). reflexivity.
      * assert (H1 : (0 < 2 ^ (e - Z.min e (-1)))%Z) by (apply pow2_gt0; lia).
        assert (H2 : (0 < 2 ^ (-1 - Z.min e (-1)))%Z) by (apply pow2_gt0; lia).
        nia.
Qed.

(* ---- min / max ---- *)

Lemma fl_smaller_min x y : fl_smaller x y = fl_min x y.
Proof.
  unfold fl_smaller, fl_min, fl_ltb. rewrite (fl_cmp_flip x y).
  destruct x as [| a | a | m1 e1], y as [| c | c | m2 e2]; cbn [fl_finite andb]; try reflexivity.
  - cbn. destruct a, c; reflexivity.
  - cbn. destruct (m2 <? 0)%Z; reflexivity.
  - cbn. destruct (m1 <? 0)%Z; reflexivity.
  - cbn [fl_is_zero andb]. destruct (fl_cmp (FFin m1 e1) (FFin m2 e2)) as [[]|]; reflexivity.
Qed.

Lemma fl_larger_max x y : fl_larger x y = fl_max x y.
Proof.
  unfold fl_larger, fl_max, fl_ltb.
  destruct x as [| a | a | m1 e1], y as [| c | c | m2 e2]; cbn [fl_finite andb]; try reflexivity.
  - cbn. destruct a, c; reflexivity.
  - cbn. destruct (m2 <? 0)%Z; reflexivity.
  - cbn. destruct (m1 <? 0)%Z; reflexivity.
  - cbn [fl_is_zero andb]. destruct (fl_cmp (FFin m1 e1) (FFin m2 e2)) as [[]|]; reflexivity.
Qed.

Lemma zmin_ltb x y : Z.min x y = if (x <? y)%Z then x else y.
Proof. destruct (Z.ltb_spec x y); lia. Qed.
Lemma zmax_gtb x y : Z.max x y = if (x >? y)%Z then x else y.
Proof. rewrite Z.gtb_ltb. destruct (Z.ltb_spec y x); lia. Qed.

(* ---- strContains ---- *)

Lemma contains_infix t s : contains s t = is_infix (length s) t s.
Proof.
  unfold contains. induction s as [|c r IH]; cbn [suffixes existsb length is_infix].
  - rewrite orb_false_r. reflexivity.
  - rewrite IH. reflexivity.
Qed.

(* ---- range ---- *)

Lemma range_count_step i lim step : (0 < step)%Z -> (i < lim)%Z ->
  range_count i lim step = S (range_count (i + step) lim step).
Proof.
  intros Hs Hi. unfold range_count.
  destruct (Z.ltb_spec i lim); [|lia].
  assert (Hq : ((lim - i + step - 1) / step = (lim - (i + step) + step - 1) / step + 1)%Z).
  { replace (lim - i + step - 1)%Z with ((lim - (i + step) + step - 1) + 1 * step)%Z by lia.
    rewrite Z.div_add by lia. reflexivity. }
  destruct (Z.ltb_spec (i + step) lim).
  - rewrite Hq.
    assert (Hnn : (0 <= (lim - (i + step) + step - 1) / step)%Z) by (apply Z.div_pos; lia).
    lia.
  - (* the next element is not below the limit: exactly one element *)
    assert (Hz : ((lim - (i + step) + step - 1) / step = 0)%Z) by (apply Z.div_small; lia).
    rewrite Hq, Hz. reflexivity.
Qed.

Lemma range_values_nil i lim step : (lim <= i)%Z -> range_values i lim step = [].
Proof. intros H. unfold range_values, range_count. destruct (Z.ltb_spec i lim); [lia | reflexivity]. Qed.

Lemma range_values_cons i lim step : (0 < step)%Z -> (i < lim)%Z ->
  range_values i lim step = VInt i :: range_values (i + step) lim step.
Proof.
  intros Hs Hi. unfold range_values. rewrite (range_count_step i lim step Hs Hi).
  cbn [seq map]. f_equal; [f_equal; lia|].
  rewrite <- seq_shift, map_map. apply map_ext. intros k. f_equal. lia.
Qed.

(* the loop of funcRange with enough iterations: as many as there are elements *)
Lemma range_list_count step : (0 < step)%Z -> forall n i lim, (range_count i lim step <= n)%nat ->
  range_list n i lim step = range_values i lim step.
Proof.
  intros Hs. induction n as [|n IH]; intros i lim Hn; cbn [range_list].
  - destruct (Z.ltb_spec i lim).
    + rewrite (range_count_step i lim step Hs H) in Hn. lia.
    + rewrite range_values_nil; [reflexivity | lia].
  - destruct (Z.ltb_spec i lim).
    + rewrite (range_values_cons i lim step Hs H). f_equal. apply IH.
      rewrite (range_count_step i lim step Hs H) in Hn. lia.
    + rewrite range_values_nil; [reflexivity | lia].
Qed.

Lemma range_count_le_span i lim : (range_count i lim 1 <= Z.to_nat (lim - i))%nat.
Proof.
  unfold range_count. destruct (Z.ltb_spec i lim); [|lia].
  replace (lim - i + 1 - 1)%Z with (lim - i)%Z by lia. rewrite Z.div_1_r. lia.
Qed.

Lemma range_count_le_quot i lim step : (0 < step)%Z ->
  (range_count i lim step <= Z.to_nat ((lim - i) / step + 1))%nat.
Proof.
  intros Hs. unfold range_count. destruct (Z.ltb_spec i lim); [|lia].
  apply Z2Nat.inj_le.
  - apply Z.div_pos; lia.
  - assert (0 <= (lim - i) / step)%Z by (apply Z.div_pos; lia). lia.
  - replace ((lim - i) / step + 1)%Z with ((lim - i + 1 * step) / step)%Z by (rewrite Z.div_add by lia; reflexivity).
    apply Z.div_le_mono; lia.
Qed.

(* ---- the functions, one by one ---- *)

Ltac arity_absurd H := cbn in H; try discriminate H.

Lemma null_or_undef_nullish v : null_or_undef v = is_nullish v.
Proof. destruct v; reflexivity. Qed.

Lemma min_float_rel a c :
  orel (r <- (x <- number_of a ;; y <- number_of c ;; r <- float_result (fl_smaller x y) ;; Ok (RValue r)) ;; Ok (fres_of r))
       (x <- to_float a ;; y <- to_float c ;; r <- of_fl (fl_min x y) ;; Ok (FVal r)).
Proof.
  pose proof (number_of_to_float a) as Ha. destruct (number_of a) as [x| | | | |]; cbn in *; try exact I.
  - rewrite Ha. cbn.
    pose proof (number_of_to_float c) as Hc. destruct (number_of c) as [y| | | | |]; cbn in *; try exact I.
    + rewrite Hc. cbn. rewrite fl_smaller_min. destruct (fl_min x y); cbn; [reflexivity | exact I].
    + destruct Hc as [m' ->]. cbn. eauto.
  - destruct Ha as [m' ->]. cbn. eauto.
Qed.

Lemma max_float_rel a c :
  orel (r <- (x <- number_of a ;; y <- number_of c ;; r <- float_result (fl_larger x y) ;; Ok (RValue r)) ;; Ok (fres_of r))
       (x <- to_float a ;; y <- to_float c ;; r <- of_fl (fl_max x y) ;; Ok (FVal r)).
Proof.
  pose proof (number_of_to_float a) as Ha. destruct (number_of a) as [x| | | | |]; cbn in *; try exact I.
  - rewrite Ha. cbn.
    pose proof (number_of_to_float c) as Hc. destruct (number_of c) as [y| | | | |]; cbn in *; try exact I.
    + rewrite Hc. cbn. rewrite fl_larger_max. destruct (fl_max x y); cbn; [reflexivity | exact I].
    + destruct Hc as [m' ->]. cbn. eauto.
  - destruct Ha as [m' ->]. cbn. eauto.
Qed.

Lemma round1_rel v :
  orel (r <- (x <- number_of v ;; r <- round_half_away x ;; Ok (RValue r)) ;; Ok (fres_of r))
       (x <- to_float v ;; round_impl x).
Proof.
  pose proof (number_of_to_float v) as Hv. destruct (number_of v) as [x| | | | |]; cbn in *; try exact I.
  - rewrite Hv. cbn. pose proof (round_rel x) as Hr.
    destruct (round_half_away x) as [r| | | | |]; cbn in *; try exact I; exact Hr.
  - destruct Hv as [m' ->]. cbn. eauto.
Qed.

(* apply_func on each name of the table: the chain of name tests reduces by computation *)
Lemma af_isNonnull args : apply_func (fn_name FIsNonnull) args =
  match args with [v] => Ok (FVal (VBool (negb (is_nullish v)))) | _ => Err e_func end.
Proof. reflexivity. Qed.
Lemma af_length args : apply_func (fn_name FLength) args =
  match args with [VList _ l] => Ok (FVal (VInt (Z.of_nat (length l)))) | _ => Err e_type end.
Proof. reflexivity. Qed.
Lemma af_keys args : apply_func (fn_name FKeys) args =
  match args with [VMap _ m] => Ok (FNewList (map (fun kv => VStr (fst kv)) m)) | _ => Err e_type end.
Proof. reflexivity. Qed.
Lemma af_augmentMap args : apply_func (fn_name FAugmentMap) args =
  match args with
  | [VMap _ m1; VMap _ m2] => Ok (FNewMap (fold_left (fun acc kv => map_set acc (fst kv) (snd kv)) m2 m1))
  | _ => Err e_type
  end.
Proof. reflexivity. Qed.
Lemma af_round args : apply_func (fn_name FRound) args =
  match args with
  | [v] => x <- to_float v ;; round_impl x
  | [v; VInt d] => x <- to_float v ;; if (d =? 0)%Z then round_impl x else OutOfModel
  | [_; _] => Err e_type
  | _ => Err e_func
  end.
Proof. reflexivity. Qed.
Lemma af_floor args : apply_func (fn_name FFloor) args =
  match args with
  | [VInt z] => Ok (FVal (VInt z))
  | [v] => x <- to_float v ;; match fl_floor_Z x with Some z => Ok (FVal (VInt (wrap64 z))) | None => OutOfModel end
  | _ => Err e_func
  end.
Proof. reflexivity. Qed.
Lemma af_ceiling args : apply_func (fn_name FCeiling) args =
  match args with
  | [VInt z] => Ok (FVal (VInt z))
  | [v] => x <- to_float v ;; match fl_ceil_Z x with Some z => Ok (FVal (VInt (wrap64 z))) | None => OutOfModel end
  | _ => Err e_func
  end.
Proof. reflexivity. Qed.
Lemma af_min args : apply_func (fn_name FMin) args =
  match args with
  | [VInt x; VInt y] => Ok (FVal (VInt (if (x <? y)%Z then x else y)))
  | [a; c] => x <- to_float a ;; y <- to_float c ;; r <- of_fl (fl_min x y) ;; Ok (FVal r)
  | _ => Err e_func
  end.
Proof. reflexivity. Qed.
Lemma af_max args : apply_func (fn_name FMax) args =
  match args with
  | [VInt x; VInt y] => Ok (FVal (VInt (if (x >? y)%Z then x else y)))
  | [a; c] => x <- to_float a ;; y <- to_float c ;; r <- of_fl (fl_max x y) ;; Ok (FVal r)
  | _ => Err e_func
  end.
Proof. reflexivity. Qed.
Lemma af_randomInt args : apply_func (fn_name FRandomInt) args =
  match args with
  | [VInt n] => if (n <=? 0)%Z then Err e_func else OutOfModel
  | _ => Err e_type
  end.
Proof. reflexivity. Qed.
Lemma af_strContains args : apply_func (fn_name FStrContains) args =
  match args with
  | [VStr s; VStr t] => Ok (FVal (VBool (is_infix (length s) t s)))
  | _ => Err e_type
  end.
Proof. reflexivity. Qed.
Lemma af_range args : apply_func (fn_name FRange) args =
  match args with
  | [VInt lim] => Ok (FNewList (range_list (Z.to_nat lim) 0 lim 1))
  | [VInt i; VInt lim] => Ok (FNewList (range_list (Z.to_nat (lim - i)) i lim 1))
  | [VInt i; VInt lim; VInt step] =>
      if (step <=? 0)%Z then Err e_range
      else Ok (FNewList (range_list (Z.to_nat ((lim - i) / step + 1)) i lim step))
  | _ => Err e_type
  end.
Proof. reflexivity. Qed.
Lemma af_hasData args : apply_func (fn_name FHasData) args = Ok (FVal (VBool true)).
Proof. reflexivity. Qed.

Lemma orel_impl_eq {A} (so io io' : outcome A) : io = io' -> orel so io' -> orel so io.
Proof. intros ->. auto. Qed.

Ltac err_ok := solve [ cbn; eauto | exact I | reflexivity ].

Theorem apply_rel f args :
  orel (r <- apply_fn_spec f args ;; Ok (fres_of r)) (apply_func (fn_name f) args).
Proof.
  destruct f.
  - (* isNonnull *) eapply orel_impl_eq; [apply af_isNonnull|]. destruct args as [|v [|? ?]]; try err_ok.
    all: try (destruct v; reflexivity).
  - (* length *) eapply orel_impl_eq; [apply af_length|]. destruct args as [|v [|? ?]]; try err_ok.
    all: try (destruct v; err_ok).
  - (* keys *) eapply orel_impl_eq; [apply af_keys|]. destruct args as [|v [|? ?]]; try err_ok.
    all: try (destruct v; err_ok).
  - (* augmentMap *) eapply orel_impl_eq; [apply af_augmentMap|]. destruct args as [|v [|v2 [|? ?]]]; try err_ok.
    all: try (destruct v; try err_ok; destruct v2; err_ok).
  - (* round *) eapply orel_impl_eq; [apply af_round|]. destruct args as [|v [|v2 [|? ?]]]; try err_ok.
    + apply round1_rel.
    + destruct v2; try (destruct v; err_ok).
      cbn [apply_fn_spec].
      pose proof (number_of_to_float v) as Hv. destruct (number_of v) as [x| | | | |]; cbn in *; try exact I.
      * rewrite Hv. cbn. destruct (z =? 0)%Z; [|exact I].
        pose proof (round_rel x) as Hr.
        destruct (round_half_away x) as [r| | | | |]; cbn in *; try exact I; exact Hr.
      * destruct Hv as [m' ->]. cbn. eauto.
    + destruct v2; try err_ok; destruct v; err_ok.
  - (* floor *) eapply orel_impl_eq; [apply af_floor|]. destruct args as [|v [|? ?]]; try err_ok.
    2: (destruct v; err_ok).
    destruct v; try err_ok.
    cbn. destruct (fl_floor_Z f) as [z|]; [|exact I].
    unfold int_result. destruct (in_int64 z) eqn:Hz; cbn; [|exact I]. rewrite (wrap64_id _ Hz). reflexivity.
  - (* ceiling *) eapply orel_impl_eq; [apply af_ceiling|]. destruct args as [|v [|? ?]]; try err_ok.
    2: (destruct v; err_ok).
    destruct v; try err_ok.
    cbn. destruct (fl_ceil_Z f) as [z|]; [|exact I].
    unfold int_result. destruct (in_int64 z) eqn:Hz; cbn; [|exact I]. rewrite (wrap64_id _ Hz). reflexivity.
  - (* min *) eapply orel_impl_eq; [apply af_min|]. destruct args as [|a [|c [|? ?]]]; try err_ok.
    + destruct a; err_ok.
    + destruct a; try (destruct c; apply min_float_rel).
      destruct c; try apply min_float_rel.
      cbn. rewrite zmin_ltb. reflexivity.
    + destruct a; try err_ok; destruct c; err_ok.
  - (* max *) eapply orel_impl_eq; [apply af_max|]. destruct args as [|a [|c [|? ?]]]; try err_ok.
    + destruct a; err_ok.
    + destruct a; try (destruct c; apply max_float_rel).
      destruct c; try apply max_float_rel.
      cbn. rewrite zmax_gtb. reflexivity.
    + destruct a; try err_ok; destruct c; err_ok.
  - (* randomInt *) eapply orel_impl_eq; [apply af_randomInt|]. destruct args as [|v [|? ?]]; try err_ok.
    all: try (destruct v; try err_ok; cbn; destruct (z <=? 0)%Z; err_ok).
  - (* strContains *) eapply orel_impl_eq; [apply af_strContains|]. destruct args as [|a [|c [|? ?]]]; try err_ok.
    all: try (destruct a; try err_ok; destruct c; try err_ok; cbn; rewrite contains_infix; reflexivity).
  - (* range *) eapply orel_impl_eq; [apply af_range|]. destruct args as [|a [|c [|d [|? ?]]]]; try err_ok.
    + destruct a; try err_ok.
      cbn [apply_fn_spec bind fres_of]. rewrite (range_list_count 1 eq_refl); [reflexivity|].
      pose proof (range_count_le_span 0 z). rewrite Z.sub_0_r in H. exact H.
    + destruct a; try err_ok; destruct c; try err_ok.
      cbn [apply_fn_spec bind fres_of]. rewrite (range_list_count 1 eq_refl); [reflexivity | apply range_count_le_span].
    + destruct a; try err_ok; destruct c; try err_ok; destruct d; try err_ok.
      cbn [apply_fn_spec]. destruct (Z.leb_spec z1 0); [err_ok|].
      cbn [bind fres_of]. rewrite (range_list_count z1); [reflexivity | lia | apply range_count_le_quot; lia].
    + destruct a; try err_ok; destruct c; try err_ok; destruct d; err_ok.
  - (* hasData *) eapply orel_impl_eq; [apply af_hasData|]. reflexivity.
Qed.

(* ---- the converse of fn_arities_table: the regenerated table holds no name the Spec does not specify ---- *)

Definition arities_eqb (a c : list N) : bool := if list_eq_dec N.eq_dec a c then true else false.

(* the finite check on soyhtml.Funcs as tablegen reads it on this run: every entry is a function of
   Spec/Expr.v with the Spec's arities.  A function added to (or an arity changed in) the Go table
   makes this computation return false. *)
Lemma html_funcs_specified :
  forallb (fun p => match fn_of_name (fst p) with
                    | Some f => arities_eqb (snd p) (map N.of_nat (fn_arities f))
                    | None => false
                    end) html_funcs = true.
Proof. vm_compute. reflexivity. Qed.

Lemma fn_of_name_sound name f : fn_of_name name = Some f -> fn_name f = name.
Proof.
  unfold fn_of_name. intros H. apply find_some in H as [_ H].
  destruct (bstr_eqb_spec name (fn_name f)); [congruence | discriminate].
Qed.

Lemma fn_of_name_complete f : fn_of_name (fn_name f) = Some f.
Proof. destruct f; vm_compute; reflexivity. Qed.

Lemma assoc_s_In {A} k (l : list (bstr * A)) v : assoc_s k l = Some v -> In (k, v) l.
Proof.
  induction l as [|[k' v'] l IH]; cbn [assoc_s]; [discriminate|].
  destruct (bstr_eqb_spec k k') as [->|Hne]; [intros H; injection H as ->; left; reflexivity | right; auto].
Qed.

Theorem function_table_complete name ar : func_arities name = Some ar ->
  exists f, fn_of_name name = Some f /\ fn_name f = name /\ ar = map N.of_nat (fn_arities f).
Proof.
  unfold func_arities. intros H. apply assoc_s_In in H.
  pose proof html_funcs_specified as Hs. rewrite forallb_forall in Hs. specialize (Hs _ H). cbn [fst snd] in Hs.
  destruct (fn_of_name name) as [f|] eqn:Hf; [|discriminate].
  exists f. split; [reflexivity|]. split; [apply fn_of_name_sound; exact Hf|].
  unfold arities_eqb in Hs. destruct (list_eq_dec N.eq_dec ar (map N.of_nat (fn_arities f))); [assumption | discriminate].
Qed.

(* every callable name of the regenerated table, on every argument list, behaves as the Spec of the
   function it names *)
Theorem apply_rel_table name ar args : func_arities name = Some ar ->
  exists f, fn_of_name name = Some f /\ ar = map N.of_nat (fn_arities f) /\
            orel (r <- apply_fn_spec f args ;; Ok (fres_of r)) (apply_func name args).
Proof.
  intros H. destruct (function_table_complete name ar H) as (f & Hf & Hn & Har).
  exists f. split; [exact Hf|]. split; [exact Har|]. rewrite <- Hn. apply apply_rel.
Qed.

Theorem function_table_spec name ar args : func_arities name = Some ar ->
  exists f, fn_of_name name = Some f /\ fn_name f = name /\ ar = map N.of_nat (fn_arities f) /\
            orel (r <- apply_fn_spec f args ;; Ok (fres_of r)) (apply_func name args).
Proof.
  intros H. destruct (apply_rel_table name ar args H) as (f & Hf & Har & Hrel).
  exists f. repeat split; try assumption. apply fn_of_name_sound; exact Hf.
Qed.
