(* C17, scanner half for template bodies: the steps of the state machine around command tags that the
   expression layer (LexExpr/LexPrint) and the text layer (LexBodySeg/LexBodyCmd) do not have yet:
   a keyword open tag "{kw", a close tag "{/kw}", "/}" followed by more input, a double-quoted attribute
   string, and lexText on a stretch of text without comment opener up to the next tag or the end of the input. *)
From Soy Require Import Model.Bytes Model.Utf8 Model.Outcome Model.Token Generated.Tables Model.Lexer Spec.Text Spec.TextBody
  Proofs.Utf8Proofs Proofs.LexerPrim Proofs.LexerStates Proofs.LexTokens Proofs.LexStrings Proofs.LexExpr
  Proofs.LexBodyText Proofs.LexBodySeg Proofs.LexBodyCmd.
From Coq Require Import ZifyBool ZifyNat ZifyN Lia.
Open Scope Z_scope.

(* the command names that open a tag and continue inside it (lexIdent's table; "css" and "literal" have
   states of their own) *)
Definition lb17_open_kws : list (bstr * N) := Eval vm_compute in
  [(b "if", itemIf); (b "elseif", itemElseif); (b "else", itemElse); (b "for", itemFor); (b "ifempty", itemIfempty);
   (b "switch", itemSwitch); (b "case", itemCase); (b "default", itemDefault); (b "let", itemLet); (b "log", itemLog);
   (b "debugger", itemDebugger); (b "call", itemCall); (b "param", itemParam); (b "msg", itemMsg); (b "plural", itemPlural)].

(* the names after "{/" *)
Definition lb17_close_kws : list (bstr * N) := Eval vm_compute in
  [(b "if", itemIfEnd); (b "for", itemForEnd); (b "let", itemLetEnd); (b "log", itemLogEnd); (b "switch", itemSwitchEnd);
   (b "call", itemCallEnd); (b "param", itemParamEnd); (b "msg", itemMsgEnd); (b "plural", itemPluralEnd);
   (b "template", itemTemplateEnd)].

Lemma lb17_open_kws_table : forall name t, In (name, t) lb17_open_kws ->
  exists c0 cs, name = c0 :: cs /\ (c0 < 128)%N /\ letter_b c0 = true /\
    forallb (fun c => (c <? 128)%N && alnum_b c) cs = true /\ word_type name = t /\ t <> itemLiteral /\ t <> itemCss.
Proof.
  intros name t Hin. unfold lb17_open_kws in Hin.
  repeat (destruct Hin as [E|Hin]; [injection E as <- <-; eexists; eexists; split; [reflexivity|];
    split; [lia|]; split; [reflexivity|]; split; [reflexivity|]; split; [vm_compute; reflexivity|]; split; discriminate|]).
  contradiction.
Qed.

Lemma lb17_close_kws_table : forall cs t, In (cs, t) lb17_close_kws ->
  forallb (fun c => (c <? 128)%N && alnum_b c) cs = true /\ assoc_s (47%N :: cs) builtin_idents = Some t /\
  t <> itemLiteral /\ t <> itemCss.
Proof.
  intros cs t Hin. unfold lb17_close_kws in Hin.
  repeat (destruct Hin as [E|Hin]; [injection E as <- <-; split; [reflexivity|]; split; [vm_compute; reflexivity|]; split; discriminate|]).
  contradiction.
Qed.

(* a text without "/" is one piece *)
Lemma lb17_pieces_noslash : forall T pw cur, Forall (fun c => c <> 47%N) T -> pieces MText pw cur T = Some [rev cur ++ T].
Proof.
  induction T as [|c r IH]; intros pw cur Hns; cbn [pieces].
  - rewrite app_nil_r. reflexivity.
  - inversion Hns as [|? ? Hc Hr]; subst. assert (E : (c =? 47)%N = false) by lia. rewrite E.
    rewrite (IH (ws c) (c :: cur) Hr). cbn [rev]. rewrite <- app_assoc. reflexivity.
Qed.

(* a text that lexText reads as ONE piece whatever precedes it: no comment opener ("/*", or "//" at its start or
   behind white space) in it *)
Definition lb17_one_piece (T : bstr) : Prop := forall pw, pieces MText pw [] T = Some [T].
Lemma lb17_one_piece_noslash T : Forall (fun c => c <> 47%N) T -> lb17_one_piece T.
Proof. intros H pw. exact (lb17_pieces_noslash T pw [] H). Qed.
Lemma lb17_one_piece_nil : lb17_one_piece [].
Proof. intros pw. reflexivity. Qed.

Section Steps17.
Variable uni_letter uni_digit : Z -> bool.
Hypothesis letter_ascii : forall c, (c < 128)%N -> uni_letter (Z.of_N c) = ((65 <=? c) && (c <=? 90) || (97 <=? c) && (c <=? 122))%N.
Hypothesis digit_ascii : forall c, (c < 128)%N -> uni_digit (Z.of_N c) = digit_b c.
Hypothesis letter_eof : uni_letter (-1) = false.
Hypothesis digit_eof : uni_digit (-1) = false.
Variable inp : bstr.
Notation steps := (steps uni_letter uni_digit inp 0).
Notation span := (span inp).
Notation ilen := (Z.of_nat (length inp)).

(* ---------- (a) "{" kw: lexLeftDelim, lexBeginTag, lexInsideTag, lexIdent ---------- *)
Lemma lb17_open_kw l name t s : In (name, t) lb17_open_kws -> span l [] ([123%N] ++ name ++ s) -> stops s ->
  exists l' ld kw, steps 4 LLeftDelim l = Ok (LInsideTag, l') /\ span l' [] s /\ l_out l' = kw :: ld :: l_out l /\
    t_typ ld = itemLeftDelim /\ t_val ld = [123%N] /\ t_typ kw = t /\ t_val kw = name /\ l_last l' = kw /\ l_dd l' = false.
Proof.
  intros Hin Hs Hst. destruct (lb17_open_kws_table name t Hin) as (c0 & cs & -> & Hc0 & Hl0 & Hcs & Hwt & Hnl & Hnc).
  assert (Hs' : span l [] (123%N :: c0 :: cs ++ s)) by exact Hs.
  assert (H123 : c0 <> 123%N) by (unfold letter_b in Hl0; lia).
  assert (H47 : c0 <> 47%N) by (unfold letter_b in Hl0; lia).
  destruct (delim_begin uni_letter uni_digit letter_ascii digit_ascii letter_eof digit_eof inp l c0 (cs ++ s) Hs' Hc0 H123 H47) as (l1 & p1 & Hst1 & Hs1 & Ho1 & Hla1 & Hdd1).
  assert (E : (c0 =? 92)%N = false) by (unfold letter_b in Hl0; lia). rewrite E in Hst1.
  destruct (lex_word uni_letter uni_digit letter_ascii digit_ascii letter_eof digit_eof inp 0 l1 c0 cs s Hs1 Hc0 Hl0 Hcs Hst)
    as (l2 & Hst2 & Hs2 & (p2 & Ho2 & Hla2 & Hdd2)); [rewrite Hwt; exact Hnl|rewrite Hwt; exact Hnc|].
  rewrite Hwt in Ho2, Hla2.
  exists l2, {| t_typ := itemLeftDelim; t_pos := p1; t_val := [123%N] |}, {| t_typ := t; t_pos := p2; t_val := c0 :: cs |}.
  split. { change 4%nat with (2 + 2)%nat. rewrite (steps_app _ _ _ _ 2 2 _ _ _ _ Hst1). exact Hst2. }
  split; [exact Hs2|]. split; [rewrite Ho2, Ho1; reflexivity|]. cbn [t_typ t_val]. repeat split; try assumption. congruence.
Qed.

(* ---------- (c) "}" s is [close_brace]; "/}" s: lexInsideTag, lexRightDelimEnd, back in lexText ---------- *)
Lemma lb17_close_slash l s : span l [] (47%N :: 125%N :: s) -> l_dd l = false ->
  exists l' p, steps 2 LInsideTag l = Ok (LText, l') /\ span l' [] s /\
    l_out l' = {| t_typ := itemRightDelimEnd; t_pos := p; t_val := [47; 125]%N |} :: l_out l /\
    l_last l' = {| t_typ := itemRightDelimEnd; t_pos := p; t_val := [47; 125]%N |} /\ l_dd l' = false.
Proof.
  intros Hs Hdd.
  destruct (next_ascii inp l [] 47%N (125%N :: s) Hs ltac:(lia)) as (Hn & Hs1).
  destruct (peek_span inp (adv l) _ (125%N :: s) Hs1 ltac:(cbn; lia)) as (l2 & Hpk & Hs2 & Ho2 & Hla2 & Hd2).
  cbn [head_rune] in Hpk.
  assert (Hst1 : step uni_letter uni_digit inp ilen 0 LInsideTag l = Ok (LRightDelimEnd, l2)).
  { cbn [step]. unfold lex_inside_tag. rewrite Hn. cbn [bind].
    change (gen_isSpaceEOL (Z.of_N 47)) with false. cbv iota. change (Z.of_N 47 =? 47) with true. cbv iota.
    rewrite Hpk. cbn [bind]. change (Z.of_N 125 =? 125) with true. cbv iota. reflexivity. }
  destruct (next_ascii inp l2 _ 125%N s Hs2 ltac:(lia)) as (Hn2 & Hs3).
  cbn [app] in Hs3.
  destruct (emit_span inp 0 itemRightDelimEnd (adv l2) [47; 125]%N s Hs3) as (He & Hs4).
  assert (Hst2 : step uni_letter uni_digit inp ilen 0 LRightDelimEnd l2 = Ok (LText, emitted 0 itemRightDelimEnd (adv l2) [47; 125]%N)).
  { cbn [step]. unfold lex_right_delim_end. rewrite Hn2. cbn [bind]. unfold double_close. cbn [adv l_dd].
    rewrite Hd2. cbn [adv l_dd]. rewrite Hdd. cbn [bind]. rewrite He. reflexivity. }
  exists (emitted 0 itemRightDelimEnd (adv l2) [47; 125]%N), (Z.to_N (0 + l_pos (adv l2))). split; [|split; [exact Hs4|]].
  - change 2%nat with (1 + 1)%nat. rewrite (steps_app _ _ _ _ 1 1 _ _ _ _ (steps_one _ _ _ _ _ _ _ _ Hst1)). apply steps_one. exact Hst2.
  - unfold emitted, mktok. cbn [l_out l_last l_dd adv]. rewrite Ho2, Hd2. cbn [adv l_out l_dd]. auto.
Qed.

(* ---------- (b) "{/" kw "}" ---------- *)
Lemma lb17_delim_begin_slash l s : span l [] (123%N :: 47%N :: s) ->
  exists l' p, steps 2 LLeftDelim l = Ok (LIdent, l') /\ span l' [] (47%N :: s) /\
    l_out l' = {| t_typ := itemLeftDelim; t_pos := p; t_val := [123%N] |} :: l_out l /\
    l_last l' = {| t_typ := itemLeftDelim; t_pos := p; t_val := [123%N] |} /\ l_dd l' = false.
Proof.
  intros Hs.
  destruct (next_ascii inp l [] 123%N (47%N :: s) Hs ltac:(lia)) as (Hn1 & Hs2).
  destruct (next_ascii inp (adv l) ([] ++ [123%N]) 47%N s Hs2 ltac:(lia)) as (Hn2 & Hs3).
  pose proof (span_backup inp (adv l) ([] ++ [123%N]) 47%N s Hs2) as Hsb2.
  set (l3 := set_dd (backup (adv (adv l))) false).
  assert (Hs3' : span l3 [123%N] (47%N :: s)).
  { destruct Hsb2 as (A & B & C). unfold l3, LexTokens.span, set_dd. cbn [l_start l_pos]. auto. }
  destruct (emit_span inp 0 itemLeftDelim l3 [123%N] (47%N :: s) Hs3') as (He & Hs4).
  assert (Hst2 : step uni_letter uni_digit inp ilen 0 LLeftDelim l = Ok (LBeginTag, emitted 0 itemLeftDelim l3 [123%N])).
  { cbn [step]. unfold lex_left_delim. rewrite Hn1. cbn [bind]. rewrite Hn2. cbn [bind].
    change (Z.of_N 47 =? 123) with false. cbv iota. fold l3. rewrite He. reflexivity. }
  set (l4 := emitted 0 itemLeftDelim l3 [123%N]) in *.
  destruct (next_ascii inp l4 [] 47%N s Hs4 ltac:(lia)) as (Hn4 & Hs5).
  pose proof (span_backup inp l4 [] 47%N s Hs4) as Hsb4.
  assert (Hst3 : step uni_letter uni_digit inp ilen 0 LBeginTag l4 = Ok (LIdent, backup (adv l4))).
  { cbn [step]. unfold lex_begin_tag, peek. rewrite Hn4. cbn [bind]. reflexivity. }
  exists (backup (adv l4)), (Z.to_N (0 + l_pos l3)). split; [|split; [exact Hsb4|]].
  - change 2%nat with (1 + 1)%nat. rewrite (steps_app _ _ _ _ 1 1 _ _ _ _ (steps_one _ _ _ _ _ _ _ _ Hst2)). apply steps_one. exact Hst3.
  - unfold backup, adv, set_pos, l4, emitted, mktok, l3, set_dd. cbn [l_out l_last l_dd]. auto.
Qed.

(* "/name" in state lexIdent *)
Lemma lb17_ident_slash l cs s t : span l [] (47%N :: cs ++ s) -> forallb (fun c => (c <? 128)%N && alnum_b c) cs = true -> stops s ->
  assoc_s (47%N :: cs) builtin_idents = Some t -> t <> itemLiteral -> t <> itemCss ->
  exists l', steps 1 LIdent l = Ok (LInsideTag, l') /\ span l' [] s /\ sent t (47%N :: cs) l l'.
Proof.
  intros Hs Hcs Hst Ht Hnl Hnc.
  destruct (next_ascii inp l [] 47%N (cs ++ s) Hs ltac:(lia)) as (Hn & Hs1).
  destruct (alnum_loop_run uni_letter uni_digit letter_ascii digit_ascii letter_eof digit_eof inp cs (adv l) ([] ++ [47%N]) s
              (loop_fuel ilen (adv l)) Hs1 Hcs Hst) as (l3 & Hloop & Hs3 & Ho3 & Hla3 & Hd3).
  { pose proof (span_bounds inp _ _ _ Hs1) as (Hb0 & Hl0). rewrite app_length in Hl0. unfold loop_fuel. lia. }
  cbn [app] in Hs3.
  destruct (emit_span inp 0 t (backup l3) (47%N :: cs) s Hs3) as (He & Hs4).
  exists (emitted 0 t (backup l3) (47%N :: cs)). split; [|split; [exact Hs4|]].
  - apply steps_one. cbn [step]. unfold lex_ident. rewrite Hn. cbn [bind].
    change (Z.of_N 47 =? 46) with false. change (Z.of_N 47 =? 36) with false. change (Z.of_N 47 =? 47) with true.
    cbv iota. cbn [bind]. rewrite Hloop. cbn [bind].
    rewrite (slice_span inp (backup l3) (47%N :: cs) s Hs3). cbn [bind]. rewrite Ht, He. cbn [bind].
    destruct (N.eqb_spec t itemLiteral); [congruence|]. destruct (N.eqb_spec t itemCss); [congruence|]. reflexivity.
  - apply sent_emitted; unfold backup, set_pos; cbn [l_out l_last l_dd]; [rewrite Ho3|rewrite Hla3|rewrite Hd3]; reflexivity.
Qed.

(* the whole close tag, from lexLeftDelim to the lexText behind it *)
Lemma lb17_close_cmd l cs t s : In (cs, t) lb17_close_kws -> span l [] ([123; 47]%N ++ cs ++ [125%N] ++ s) ->
  exists l' ld kw rd, steps 5 LLeftDelim l = Ok (LText, l') /\ span l' [] s /\ l_out l' = rd :: kw :: ld :: l_out l /\
    t_typ ld = itemLeftDelim /\ t_val ld = [123%N] /\ t_typ kw = t /\ t_val kw = 47%N :: cs /\
    t_typ rd = itemRightDelim /\ t_val rd = [125%N] /\ l_last l' = rd /\ l_dd l' = false.
Proof.
  intros Hin Hs. destruct (lb17_close_kws_table cs t Hin) as (Hcs & Hb & Hnl & Hnc).
  assert (Hs' : span l [] (123%N :: 47%N :: cs ++ 125%N :: s)) by exact Hs.
  destruct (lb17_delim_begin_slash l (cs ++ 125%N :: s) Hs') as (l1 & p1 & Hst1 & Hs1 & Ho1 & Hla1 & Hdd1).
  assert (Hstop : stops (125%N :: s)) by (cbn; split; [lia|reflexivity]).
  destruct (lb17_ident_slash l1 cs (125%N :: s) t Hs1 Hcs Hstop Hb Hnl Hnc) as (l2 & Hst2 & Hs2 & (p2 & Ho2 & Hla2 & Hdd2)).
  destruct (close_brace uni_letter uni_digit letter_eof digit_eof inp l2 s Hs2 ltac:(congruence)) as (l3 & p3 & Hst3 & Hs3 & Ho3 & Hla3 & Hdd3).
  exists l3. eexists; eexists; eexists. split.
  { change 5%nat with (2 + (1 + 2))%nat. rewrite (steps_app _ _ _ _ 2 _ _ _ _ _ Hst1), (steps_app _ _ _ _ 1 _ _ _ _ _ Hst2). exact Hst3. }
  split; [exact Hs3|]. split; [rewrite Ho3, Ho2, Ho1; reflexivity|]. cbn [t_typ t_val]. repeat split; assumption.
Qed.

(* ---------- (d) a double-quoted attribute value inside a tag: one string item, quotes included ---------- *)
Lemma lb17_lexes_dqstring rs : Forall valid_scalar rs -> str_body_ok 34 rs = true ->
  lexes uni_letter uni_digit inp 0 anyty anys (34%N :: string_of_runes rs ++ [34%N])
        [(itemString, 34%N :: string_of_runes rs ++ [34%N])] (eq itemString).
Proof.
  intros Hv Hok. apply (lexes_tok uni_letter uni_digit letter_ascii digit_ascii letter_eof digit_eof).
  intros l s Hs _ _. cbn [app] in Hs. rewrite <- app_assoc in Hs. cbn [app] in Hs.
  destruct (lex_string_tok uni_letter uni_digit inp 0 l 34%N rs s ltac:(right; reflexivity) Hs Hv Hok) as (l' & A & B & C).
  exists 2%nat, l'. auto.
Qed.

(* ---------- lexText on a stretch without comment opener (possibly empty), up to the next tag or the end ---------- *)
Lemma lb17_text_run l T tl : span l [] (T ++ tl) -> plain T -> lb17_one_piece T -> tag_or_end tl ->
  exists st' l', steps 1 LText l = Ok (st', l') /\ plain_result inp l T tl st' l'.
Proof.
  intros Hs Hpl Hns Htl.
  assert (Hf : (length (T ++ tl) < loop_fuel ilen l)%nat).
  { pose proof (span_bounds _ _ _ _ Hs) as (Hb & Hl). unfold loop_fuel. lia. }
  destruct (text_plain_run inp (length T) T (le_n _) [] l 0 (loop_fuel ilen l) T tl Hs Hf Hpl Htl
              (fun _ => eq_refl) ltac:(intros E; congruence) ltac:(cbn [rev]; apply Hns))
    as (st' & l' & Hrun & _ & Hres).
  exists st', l'. split; [apply steps_one; exact Hrun|exact Hres].
Qed.

(* lexText directly in front of a tag: nothing is sent *)
Lemma lb17_text_tag l tl : span l [] (123%N :: tl) ->
  exists l', steps 1 LText l = Ok (LLeftDelim, l') /\ span l' [] (123%N :: tl) /\ l_out l' = l_out l /\
    l_last l' = l_last l /\ l_dd l' = l_dd l.
Proof.
  intros Hs.
  destruct (lb17_text_run l [] (123%N :: tl) Hs ltac:(constructor) lb17_one_piece_nil ltac:(right; eexists; reflexivity))
    as (st' & l' & Hrun & (txt & Htx & Hdd & Hres)).
  unfold is_text_of in Htx. cbn [droppable] in Htx. subst txt.
  destruct Hres as [(A & _)|(_ & -> & Ho & Hs' & Hla)]; [discriminate A|].
  exists l'. split; [exact Hrun|]. split; [exact Hs'|]. split; [exact Ho|]. split; [apply Hla; reflexivity|exact Hdd].
Qed.

(* ---------- (a), "css": "{css" sp txt "}": lexIdent sends the keyword and hands over to lexCss, which skips one
   byte and sends everything up to the "}" as one text item, then the "}" ---------- *)
Lemma lb17_css_loop_run : forall txt l w s fuel, span l w (txt ++ 125%N :: s) ->
  Forall (fun c => (c < 128)%N /\ c <> 125%N) txt -> (length (txt ++ 125%N :: s) < fuel)%nat ->
  exists l', css_loop inp ilen 0 fuel l = Ok (inr (adv l')) /\ span l' (w ++ txt) (125%N :: s) /\
    l_out l' = l_out l /\ l_last l' = l_last l /\ l_dd l' = l_dd l.
Proof.
  induction txt as [|c txt IH]; intros l w s fuel Hs Hall Hf; (destruct fuel as [|f]; [cbn [length] in Hf; lia|]); cbn [css_loop].
  - cbn [app] in Hs. destruct (next_ascii inp l w 125%N s Hs ltac:(lia)) as (Hn & _). rewrite Hn. cbn [bind].
    change (Z.of_N 125 =? eof) with false. change (Z.of_N 125 =? 125) with true. cbv iota.
    exists l. rewrite app_nil_r. auto.
  - inversion Hall as [|? ? [Hc1 Hc2] Hall']; subst. cbn [app] in Hs, Hf.
    destruct (next_ascii inp l w c (txt ++ 125%N :: s) Hs Hc1) as (Hn & Hs1). rewrite Hn. cbn [bind].
    assert (E1 : (Z.of_N c =? eof) = false) by (unfold eof; lia). assert (E2 : (Z.of_N c =? 125) = false) by lia. rewrite E1, E2.
    destruct (IH (adv l) (w ++ [c]) s f Hs1 Hall' ltac:(cbn [length] in Hf; lia)) as (l' & Hrun & Hs' & Ho & Hla & Hd).
    exists l'. split; [exact Hrun|]. split; [rewrite <- app_assoc in Hs'; exact Hs'|]. unfold adv in Ho, Hla, Hd. cbn [l_out l_last l_dd] in Ho, Hla, Hd. auto.
Qed.

Lemma lb17_open_css l txt s : span l [] ([123; 99; 115; 115]%N ++ 32%N :: txt ++ 125%N :: s) ->
  Forall (fun c => (c < 128)%N /\ c <> 125%N) txt ->
  exists l' ld kw tx rd, steps 5 LLeftDelim l = Ok (LText, l') /\ span l' [] s /\ l_out l' = rd :: tx :: kw :: ld :: l_out l /\
    t_typ ld = itemLeftDelim /\ t_val ld = [123%N] /\ t_typ kw = itemCss /\ t_val kw = [99; 115; 115]%N /\
    t_typ tx = itemText /\ t_val tx = txt /\ t_typ rd = itemRightDelim /\ t_val rd = [125%N] /\ l_last l' = rd /\ l_dd l' = false.
Proof.
  intros Hs Hall.
  assert (Hs' : span l [] (123%N :: 99%N :: [115; 115]%N ++ 32%N :: txt ++ 125%N :: s)) by exact Hs.
  destruct (delim_begin uni_letter uni_digit letter_ascii digit_ascii letter_eof digit_eof inp l 99%N _ Hs' ltac:(lia) ltac:(lia) ltac:(lia))
    as (l1 & p1 & Hst1 & Hs1 & Ho1 & Hla1 & Hdd1).
  change (99 =? 92)%N with false in Hst1. cbv iota in Hst1.
  (* lexInsideTag steps back, lexIdent scans "css" *)
  destruct (next_ascii inp l1 [] 99%N _ Hs1 ltac:(lia)) as (Hn & _).
  pose proof (span_backup inp l1 [] 99%N _ Hs1) as Hsb.
  set (lb := backup (adv l1)) in *.
  assert (H1 : step uni_letter uni_digit inp ilen 0 LInsideTag l1 = Ok (LIdent, lb)).
  { cbn [step]. unfold lex_inside_tag. rewrite Hn. cbn [bind]. eval_tests. reflexivity. }
  destruct (next_ascii inp lb [] 99%N _ Hsb ltac:(lia)) as (Hn2 & Hs2).
  destruct (alnum_loop_run uni_letter uni_digit letter_ascii digit_ascii letter_eof digit_eof inp [115; 115]%N (adv lb) ([] ++ [99%N])
              (32%N :: txt ++ 125%N :: s) (loop_fuel ilen (adv lb)) Hs2 eq_refl ltac:(cbn; split; [lia|reflexivity]))
    as (l3 & Hloop & Hs3 & Ho3 & Hla3 & Hd3).
  { pose proof (span_bounds inp _ _ _ Hs2) as (Hb0 & Hl0). rewrite app_length in Hl0. unfold loop_fuel. lia. }
  cbn [app] in Hs3.
  destruct (emit_span inp 0 itemCss (backup l3) [99; 115; 115]%N _ Hs3) as (He & Hs4).
  set (l4 := emitted 0 itemCss (backup l3) [99; 115; 115]%N) in *.
  assert (H2 : step uni_letter uni_digit inp ilen 0 LIdent lb = Ok (LCss, l4)).
  { cbn [step]. unfold lex_ident. rewrite Hn2. cbn [bind]. eval_tests. rewrite Hloop. cbn [bind].
    rewrite (slice_span inp (backup l3) [99; 115; 115]%N _ Hs3). cbn [bind].
    change (assoc_s [99; 115; 115]%N builtin_idents) with (Some itemCss). cbv iota. fold l4 in He. rewrite He. cbn [bind]. reflexivity. }
  (* lexCss *)
  destruct (next_ascii inp l4 [] 32%N _ Hs4 ltac:(lia)) as (Hn4 & Hs5).
  pose proof (span_ignore inp (adv l4) _ _ Hs5) as Hs6.
  destruct (lb17_css_loop_run txt (ignore (adv l4)) [] s (loop_fuel ilen (ignore (adv l4))) Hs6 Hall) as (l7 & Hcl & Hs7 & Ho7 & Hla7 & Hd7).
  { pose proof (span_bounds inp _ _ _ Hs6) as (Hb0 & Hl0). unfold loop_fuel. lia. }
  cbn [app] in Hs7.
  pose proof (span_backup inp l7 txt 125%N s Hs7) as Hs8.
  destruct (emit_span inp 0 itemText (backup (adv l7)) txt _ Hs8) as (He8 & Hs9).
  set (l9 := emitted 0 itemText (backup (adv l7)) txt) in *.
  destruct (next_ascii inp l9 [] 125%N s Hs9 ltac:(lia)) as (Hn9 & Hs10). cbn [app] in Hs10.
  destruct (emit_span inp 0 itemRightDelim (adv l9) [125%N] s Hs10) as (He10 & Hs11).
  assert (Hdd9 : l_dd (adv l9) = false).
  { unfold l9, emitted, adv, backup, set_pos. cbn [l_dd]. rewrite Hd7. unfold ignore, set_start, adv, l4, emitted, backup, set_pos. cbn [l_dd].
    rewrite Hd3. unfold adv, lb, backup, set_pos. cbn [l_dd]. exact Hdd1. }
  assert (H3 : step uni_letter uni_digit inp ilen 0 LCss l4 = Ok (LText, emitted 0 itemRightDelim (adv l9) [125%N])).
  { cbn [step]. unfold lex_css. rewrite Hn4. cbn [bind]. rewrite Hcl. cbn [bind]. fold l9 in He8. rewrite He8. cbn [bind].
    rewrite Hn9. cbn [bind]. unfold double_close. rewrite Hdd9. cbn [bind]. unfold emit_to. rewrite He10. reflexivity. }
  exists (emitted 0 itemRightDelim (adv l9) [125%N]).
  exists {| t_typ := itemLeftDelim; t_pos := p1; t_val := [123%N] |}, (mktok 0 itemCss (backup l3) [99; 115; 115]%N),
         (mktok 0 itemText (backup (adv l7)) txt), (mktok 0 itemRightDelim (adv l9) [125%N]).
  split.
  { change 5%nat with (2 + (1 + (1 + 1)))%nat. rewrite (steps_app _ _ _ _ 2 _ _ _ _ _ Hst1).
    rewrite (steps_app _ _ _ _ 1 _ _ _ _ _ (steps_one _ _ _ _ _ _ _ _ H1)), (steps_app _ _ _ _ 1 _ _ _ _ _ (steps_one _ _ _ _ _ _ _ _ H2)).
    apply steps_one. exact H3. }
  split; [exact Hs11|]. split.
  { assert (E9 : l_out l9 = mktok 0 itemText (backup (adv l7)) txt :: l_out l7) by reflexivity.
    assert (E4 : l_out l4 = mktok 0 itemCss (backup l3) [99; 115; 115]%N :: l_out l3) by reflexivity.
    change (l_out (ignore (adv l4))) with (l_out l4) in Ho7. change (l_out (adv lb)) with (l_out l1) in Ho3.
    change (l_out (emitted 0 itemRightDelim (adv l9) [125%N])) with (mktok 0 itemRightDelim (adv l9) [125%N] :: l_out l9).
    rewrite E9, Ho7, E4, Ho3, Ho1. reflexivity. }
  cbn [t_typ t_val mktok]. repeat split. exact Hdd9.
Qed.

(* ---------- "=" between an attribute name and its value ---------- *)
Lemma lb17_lex_equals l c s : span l [] (61%N :: c :: s) -> (c < 128)%N -> c <> 61%N ->
  exists l', steps 1 LInsideTag l = Ok (LInsideTag, l') /\ span l' [] (c :: s) /\ sent itemEquals [61%N] l l'.
Proof.
  intros Hs Hc Hne.
  destruct (next_ascii inp l [] 61%N (c :: s) Hs ltac:(lia)) as (Hn & Hs1).
  destruct (peek_span inp (adv l) _ (c :: s) Hs1 Hc) as (l2 & Hpk & Hs2 & Ho2 & Hla2 & Hd2).
  cbn [head_rune] in Hpk. cbn [app] in Hs2.
  destruct (emit_span inp 0 itemEquals l2 [61%N] (c :: s) Hs2) as (He & Hs3).
  exists (emitted 0 itemEquals l2 [61%N]). split; [|split; [exact Hs3|]].
  - apply steps_one. cbn [step]. unfold lex_inside_tag. rewrite Hn. cbn [bind].
    change (gen_isSpaceEOL (Z.of_N 61)) with false. cbv iota. change (Z.of_N 61 =? 47) with false. cbv iota. cbn [bind].
    change ((Z.of_N 61 =? 36) || (Z.of_N 61 =? 46)) with false. cbv iota.
    change (Z.of_N 61 =? 91) with false. change (Z.of_N 61 =? 93) with false. change (Z.of_N 61 =? 63) with false.
    change (Z.of_N 61 =? 45) with false. change (Z.of_N 61 =? 125) with false. cbv iota.
    change ((48 <=? Z.of_N 61) && (Z.of_N 61 <=? 57)) with false. cbv iota.
    change (existsb (Z.eqb (Z.of_N 61)) inside_tag_single_syms) with false. cbv iota.
    change (existsb (Z.eqb (Z.of_N 61)) inside_tag_cmp_syms) with false. cbv iota.
    change (Z.of_N 61 =? 61) with true. cbv iota. rewrite Hpk. cbn [bind].
    assert (E : (Z.of_N c =? 61) = false) by lia. rewrite E. cbv iota.
    change ((Z.of_N 61 =? 34) || (Z.of_N 61 =? 39)) with false. cbv iota.
    unfold emit_to. rewrite He. reflexivity.
  - apply sent_emitted; [rewrite Ho2|rewrite Hla2|rewrite Hd2]; reflexivity.
Qed.

End Steps17.
