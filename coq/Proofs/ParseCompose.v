(* C19, parse half: scanner model and parser model composed -- bytes -> items -> error.
   For EVERY byte string s (whose float literals lie in the parser model's float domain) the scan
   returns an item list, parse.SoyFile's model run on it returns a tree or an error (never the
   run-time panic of lineNumber's slice, never out of fuel: Proofs/LexParseBridge.v), and an error
   carries a token whose position lies inside s and whose line -- line_at s pos, what
   lexer.lineNumber computes -- lies between 1 and lines s.  The one exception kept: an error
   raised inside a quoted attribute expression (class prefixed "quoted:"), whose sub-scanner may
   be positioned relative to the attribute text (the model takes that scanner as a parameter). *)
From Soy Require Import Model.Bytes Model.Utf8 Model.Outcome Model.Num Model.Values Model.Ast Model.Token Model.Lexer
  Model.RawText Model.ExprParser Model.Parser Model.Interp Spec.ErrPos Generated.Tables
  Proofs.ErrTokProofs Proofs.ParseErrBound Proofs.LexerProofs Proofs.ParserProofs Proofs.LexParseBridge.
From Coq Require Import ZifyBool ZifyNat ZifyN Lia.
Open Scope N_scope.

Section Composed.
Variable ul ud : Z -> bool.
Hypothesis Hl : ul (-1)%Z = false.
Hypothesis Hd : ud (-1)%Z = false.
Variable lexq : bstr -> list tok.
Variable unq : bstr -> option bstr.
Hypothesis Hlexq : lexq_wf lexq.

Definition parse_bytes (s : bstr) : outcome (presult node) :=
  ts <- lex_items ul ud (lex_budget s) false s ;;
  Ok (po_result (soy_file (N.of_nat (length s)) lexq unq ts)).

Theorem parse_error_position_composed (s : bstr) :
  exists ts, lex_items ul ud (lex_budget s) false s = Ok ts /\
    (floats_ok ts ->
     match po_result (soy_file (N.of_nat (length s)) lexq unq ts) with
     | POk _ _ => True
     | PErr t c _ =>
         (is_prefix e_quoted c = false -> t_pos t <= N.of_nat (length s)) /\
         1 <= line_at s (t_pos t) <= lines s
     | PCrash _ | PFuel => False
     end).
Proof.
  destruct (soy_file_total_composed ul ud Hl Hd lexq unq Hlexq s) as (ts & Hlex & Htot).
  exists ts. split; [exact Hlex|]. intros Hf. destruct (Htot Hf) as [Hte _].
  destruct (po_result (soy_file (N.of_nat (length s)) lexq unq ts)) as [n st|t c st|m|] eqn:E; cbn in Hte; try contradiction; [exact I|].
  split; [|apply line_at_inside].
  intros Hq. unfold soy_file in E. destruct (parse_file_error_inside _ _ _ _ _ _ _ _ _ _ E) as [H|H]; [exact H | congruence].
Qed.
End Composed.
