(* The STRUCTURAL tie of Model/Interp.v to soyhtml/exec.go (part 2: the hand-written tables of
   Proofs/WalkTie.v are what [walk_body] does).

   [walk_body cf w n] is run on PROBE nodes: every child of [n] has a distinguishable position (its marker) and
   the recursive call [w] is [probe_w]: it appends a snapshot (the child's marker, s.node, the depth of the
   buffer stack, the autoescape mode, the call depth, and the keys / entered flag / origin of every frame of the
   scope) to the output log, moves s.node to the child as the real walk does, and returns the value the probe
   assigns to that marker.  So the final state holds, in order, every recursive call with the state it was made
   in, interleaved with the Write calls of the node itself.

   The same observation is computed from the EVENT LIST of the node type ([ev_X], proved equal to the list
   extracted from exec.go in WalkTie.v) by [run], an interpreter of the event vocabulary over the same machine
   state: s.walk / s.eval / s.evaldef / s.renderBlock / state.walk call the probe (through the model's own [eval],
   [evaldef], [render_block]), s.context.push/pop/set/lookup and the operations on callData act on the scope,
   the writes write, s.errorf fails; loops, ifs, short-circuit operands and switches consume the DECISIONS the
   probe lists (how often a loop runs, which branch is taken), because conditions are not part of the
   vocabulary.  One lemma per probe: the two observations are equal ([vm_compute]).  Dropping a pop, swapping
   two evaluations, adding a write or moving s.at in the hand table, or in [walk_node], breaks a probe. *)
From Coq Require Import List NArith ZArith String Bool.
From Soy Require Import Model.Bytes Model.Num Model.Values Model.Outcome Model.Ast
  Model.Escape Model.Directives Model.Print Generated.Tables Model.Interp Proofs.WalkTie.
Import ListNotations.
Open Scope N_scope.

(* ------------------------------------------------------------------ *)
(* the probe *)

Definition enc_frame (f : frame) : bstr :=
  254 :: (if f_entered f then 1 else 0) :: (match f_origin f with OExternal id => 1 + id | OFresh => 0 end)
      :: concat_b (map (fun kv : bstr * value => 253 :: fst kv) (f_vars f)).
Definition enc_ctx (c : scope) : bstr := concat_b (map enc_frame c).
Definition snap (m : N) (st : mstate) : bstr :=
  [255; m; cur st; N.of_nat (length (bufs st)); mode st; N.of_nat (depth_ st)] ++ enc_ctx (ctx st).

Definition results := list (N * outcome value).
Definition probe_call (res : results) (m : N) : M value := fun st =>
  let st1 := set_cur (set_out st (snap m st :: out st) (calls_left st) (bytes_left st)) m in
  (match assoc m res with Some o => o | None => Ok VUndef end, st1).
Definition probe_w (res : results) (n : node) : M value := probe_call res (pos_of n).

(* ------------------------------------------------------------------ *)
(* the interpreter of event lists *)

Inductive dec := DLoop (n : nat) | DIf (taken : bool) | DShort (evaluated : bool) | DCase (i : nat)
  | DFails (x : bool).    (* directive.Apply / fn.Apply panics (recovered into errorf) *)

Record penv := {
  pe_ref : list (bstr * list nat * N);       (* reference text, indices of the loops its `[]` stand for (innermost
                                                first) -> marker of that child *)
  pe_str : list (bstr * list nat * bstr);    (* string-valued references: node.Var, param.Key, node.Text ... *)
  pe_res : results;                          (* what the child with that marker returns *)
  pe_callee_mode : N;                        (* the autoescape mode of the callee's namespace (state.walk) *)
  pe_mode : N;                               (* the value assigned by s.autoescape = .. *)
}.

Record rst := {
  r_st : mstate;
  r_dec : list dec;
  r_status : N;            (* 0 running, 1 break, 2 continue, 3 return, 4 failed, 9 the probe's decisions do not fit *)
  r_class : N;             (* outcome class when failed *)
  r_cd : scope;            (* the local callData of evalCall *)
  r_last : value;          (* value of the last child *)
}.
Definition upd_st (s : rst) (st : mstate) : rst :=
  {| r_st := st; r_dec := r_dec s; r_status := r_status s; r_class := r_class s; r_cd := r_cd s; r_last := r_last s |}.
Definition upd_dec (s : rst) (d : list dec) : rst :=
  {| r_st := r_st s; r_dec := d; r_status := r_status s; r_class := r_class s; r_cd := r_cd s; r_last := r_last s |}.
Definition upd_status (s : rst) (x : N) : rst :=
  {| r_st := r_st s; r_dec := r_dec s; r_status := x; r_class := r_class s; r_cd := r_cd s; r_last := r_last s |}.
Definition upd_cd (s : rst) (c : scope) : rst :=
  {| r_st := r_st s; r_dec := r_dec s; r_status := r_status s; r_class := r_class s; r_cd := c; r_last := r_last s |}.
Definition failed (s : rst) (cls : N) : rst :=
  {| r_st := r_st s; r_dec := r_dec s; r_status := 4; r_class := cls; r_cd := r_cd s; r_last := r_last s |}.
Definition bad (s : rst) : rst := upd_status s 9.

Definition class_of {A} (o : outcome A) : N :=
  match o with Ok _ => 0 | Err _ => 1 | Crash _ => 2 | Diverge => 3 | OutOfFuel => 4 | OutOfModel => 5 end.

Definition runM (m : M value) (s : rst) : rst :=
  match m (r_st s) with
  | (Ok v, st') => {| r_st := st'; r_dec := r_dec s; r_status := r_status s; r_class := r_class s; r_cd := r_cd s; r_last := v |}
  | (o, st') => failed (upd_st s st') (class_of o)
  end.
Definition runU (m : M unit) (s : rst) : rst :=
  match m (r_st s) with
  | (Ok _, st') => upd_st s st'
  | (o, st') => failed (upd_st s st') (class_of o)
  end.

(* a reference names the element of a range by `[]` (node.Cases[].Values[]): it is resolved with as many
   indices of the enclosing loops, counted from the outermost, as it has `[]` *)
Fixpoint brackets (r : bstr) : nat :=
  match r with [] => O | c :: t => if N.eqb c 91 then S (brackets t) else brackets t end.
Definition ix_from (r : bstr) (ix : list nat) : list nat := skipn (length ix - brackets r) ix.
Fixpoint nats_eqb (x y : list nat) : bool :=
  match x, y with
  | [], [] => true
  | a :: x', c :: y' => Nat.eqb a c && nats_eqb x' y'
  | _, _ => false
  end.
Fixpoint assoc_ri {A} (r : bstr) (ix : list nat) (l : list (bstr * list nat * A)) : option A :=
  match l with
  | [] => None
  | (r', ix', v) :: t => if bstr_eqb r r' && nats_eqb ix ix' then Some v else assoc_ri r ix t
  end.
Definition marker (pe : penv) (ix : list nat) (r : bstr) : N :=
  match assoc_ri r (ix_from r ix) (pe_ref pe) with Some m => m | None => 250 end.
Fixpoint key_str (pe : penv) (ix : list nat) (k : wkey) : bstr :=
  match k with
  | EkRef r => match assoc_ri r (ix_from r ix) (pe_str pe) with Some s => s | None => [63] end
  | EkLit s => s
  | EkCat a c => key_str pe ix a ++ key_str pe ix c
  | EkOther _ => [63]
  end.

(* state.walk(calledTmpl.Node) on the new state of evalCall: scope = callData, autoescape = the callee's
   namespace's; the caller's are back afterwards *)
Definition sub_walk (res : results) (m mode' : N) (cd : scope) : M value := fun st =>
  let st2 := set_depth (set_mode (set_ctx st cd) mode') (S (depth_ st)) in
  match probe_call res m st2 with
  | (Ok _, st') => (Ok VUndef, set_depth (set_mode (set_ctx st' (ctx st)) (mode st)) (depth_ st))
  | (r, st') => (r, set_depth (set_mode (set_ctx st' (ctx st)) (mode st)) (depth_ st))
  end.

Definition fn_at := Eval vm_compute in b "s.at".
Definition fn_walk := Eval vm_compute in b "s.walk".
Definition fn_eval := Eval vm_compute in b "s.eval".
Definition fn_evaldef := Eval vm_compute in b "s.evaldef".
Definition fn_render := Eval vm_compute in b "s.renderBlock".
Definition fn_push := Eval vm_compute in b "s.context.push".
Definition fn_pop := Eval vm_compute in b "s.context.pop".
Definition fn_set := Eval vm_compute in b "s.context.set".
Definition fn_lookup := Eval vm_compute in b "s.context.lookup".
Definition fn_alldata := Eval vm_compute in b "s.context.alldata".
Definition fn_cdpush := Eval vm_compute in b "?.push".
Definition fn_cdset := Eval vm_compute in b "?.set".
Definition fn_cdenter := Eval vm_compute in b "?.enter".
Definition fn_newscope := Eval vm_compute in b "newScope".
Definition fn_subwalk := Eval vm_compute in b "?.walk".
Definition fn_write := Eval vm_compute in b "s.wr.Write".
Definition fn_writestring := Eval vm_compute in b "io.WriteString".
Definition fn_escwrite := Eval vm_compute in b "htmlEscapeString".
Definition fn_errorf := Eval vm_compute in b "s.errorf".
Definition fn_msgbody := Eval vm_compute in b "s.walkMsgBody".
Definition fn_dapply := Eval vm_compute in b "?.Apply".
Definition fn_fapply := Eval vm_compute in b "?.Apply".
Definition lhs_autoescape := Eval vm_compute in b "s.autoescape".

Definition child_node (m : N) : node := NNull m.

Definition do_call (pe : penv) (ix : list nat) (fn : bstr) (args : list wkey) (s : rst) : rst :=
  let res := pe_res pe in
  let w := probe_w res in
  if bstr_eqb fn fn_dapply || bstr_eqb fn fn_fapply then
    match r_dec s with
    | DFails x :: d => if x then failed (upd_dec s d) 1 else upd_dec s d
    | _ => bad s
    end
  else
  match args with
  | [EkRef r] =>
      let m := marker pe ix r in
      if bstr_eqb fn fn_at then upd_st s (set_cur (r_st s) m)
      else if bstr_eqb fn fn_walk then runM (w (child_node m)) s
      else if bstr_eqb fn fn_msgbody then runM (w (child_node m)) s
      else if bstr_eqb fn fn_eval then runM (eval w (child_node m)) s
      else if bstr_eqb fn fn_evaldef then runM (evaldef w (child_node m)) s
      else if bstr_eqb fn fn_render then runM (s0 <-- render_block w (child_node m) ;;; ret (VStr s0)) s
      else if bstr_eqb fn fn_subwalk then runM (sub_walk res m (pe_callee_mode pe) (r_cd s)) s
      else if bstr_eqb fn fn_write then runU (write (key_str pe ix (EkRef r))) s
      else if bstr_eqb fn fn_lookup then runM (m_lookup (key_str pe ix (EkRef r))) s
      else if bstr_eqb fn fn_newscope then
        upd_cd s (match r_last s with VMap id mp => new_scope id mp | _ => [] end)
      else s
  | [] =>
      if bstr_eqb fn fn_push then runU m_push s
      else if bstr_eqb fn fn_pop then runU m_pop s
      else if bstr_eqb fn fn_alldata then
        match sc_alldata (ctx (r_st s)) with Some c => upd_cd s c | None => failed s 1 end
      else if bstr_eqb fn fn_cdpush then upd_cd s (sc_push (r_cd s))
      else if bstr_eqb fn fn_cdenter then upd_cd s (sc_enter (r_cd s))
      else if bstr_eqb fn fn_errorf then failed s 1
      else s
  | [k1; k2] =>
      if bstr_eqb fn fn_set then runU (m_set (key_str pe ix k1) VNull) s
      else if bstr_eqb fn fn_cdset then upd_cd s (sc_set (r_cd s) (key_str pe ix k1) VNull)
      else if bstr_eqb fn fn_writestring then runU (write (key_str pe ix k2)) s
      else if bstr_eqb fn fn_escwrite then runU (write_all (esc_writes [] (key_str pe ix k2))) s
      else s
  | [EkOther _] =>
      if bstr_eqb fn fn_newscope then upd_cd s [fresh_frame] else s
  | _ => s
  end.

Fixpoint run (fuel : nat) (pe : penv) (ix : list nat) (evs : list wev) (s : rst) {struct fuel} : rst :=
  match fuel with
  | O => bad s
  | S f =>
      match evs with
      | [] => s
      | e :: rest =>
          if negb (r_status s =? 0) then s
          else
            let s1 :=
              match e with
              | EvCall fn args => do_call pe ix fn args s
              | EvAssign lhs => if bstr_eqb lhs lhs_autoescape then upd_st s (set_mode (r_st s) (pe_mode pe)) else s
              | EvLoop _ _ body =>
                  match r_dec s with
                  | DLoop n :: d =>
                      (fix iter (k i : nat) (s : rst) {struct k} : rst :=
                         match k with
                         | O => s
                         | S k' =>
                             let s' := run f pe (i :: ix) body s in
                             if (r_status s' =? 0) || (r_status s' =? 2) then iter k' (S i) (upd_status s' 0)
                             else if r_status s' =? 1 then upd_status s' 0
                             else s'
                         end) n O (upd_dec s d)
                  | _ => bad s
                  end
              | EvIf c t e2 =>
                  let s' := run f pe ix c s in
                  if negb (r_status s' =? 0) then s'
                  else match r_dec s' with
                       | DIf x :: d => run f pe ix (if x then t else e2) (upd_dec s' d)
                       | _ => bad s'
                       end
              | EvShort r =>
                  match r_dec s with
                  | DShort x :: d => if x then run f pe ix r (upd_dec s d) else upd_dec s d
                  | _ => bad s
                  end
              | EvCases tag cl =>
                  let s' := run f pe ix tag s in
                  if negb (r_status s' =? 0) then s'
                  else match r_dec s' with
                       | DCase i :: d =>
                           match nth_error cl i with
                           | Some (_, body) => run f pe ix body (upd_dec s' d)
                           | None => bad s'
                           end
                       | _ => bad s'
                       end
              | EvInline _ body =>
                  let s' := run f pe ix body s in
                  if r_status s' =? 3 then upd_status s' 0 else s'
              | EvDefer _ => s
              | EvBreak => upd_status s 1
              | EvContinue => upd_status s 2
              | EvReturn => upd_status s 3
              | EvPanic => failed s 1
              end in
            run f pe ix rest s1
      end
  end.

(* ------------------------------------------------------------------ *)
(* the two observations *)

Definition obs_st (st : mstate) :=
  (rev (out st), enc_ctx (ctx st), cur st, mode st, length (bufs st), depth_ st, unbound st, shared_writes st).

Definition obs_model (r : outcome value * mstate) := (class_of (fst r), obs_st (snd r)).

Definition obs_run (s : rst) :=
  (* every decision consumed, no misfit; the class of the outcome; the state *)
  (if (r_status s =? 9) || negb (match r_dec s with [] => true | _ => false end) then 99
   else if r_status s =? 4 then r_class s else 0,
   obs_st (r_st s)).

Definition start (st : mstate) (d : list dec) : rst :=
  {| r_st := st; r_dec := d; r_status := 0; r_class := 0; r_cd := []; r_last := VUndef |}.

(* the events of one walk of a node of that type: the prologue of walk, then the clause *)
Definition events_of (clause : list wev) : list wev := ev_walk ++ clause.

Definition probe_ok (cf : cfg) (pe : penv) (n : node) (clause : list wev) (d : list dec) (st : mstate) : Prop :=
  obs_model (walk_body cf (probe_w (pe_res pe)) n st) = obs_run (run 200 pe [] (events_of clause) (start st d)).

(* ------------------------------------------------------------------ *)
(* probes *)

Definition bx := Eval vm_compute in b "x".
Definition bv := Eval vm_compute in b "v".
Definition bk1 := Eval vm_compute in b "k1".
Definition bk2 := Eval vm_compute in b "k2".

Definition b_nst := Eval vm_compute in b "ns.t".
Definition b_nsu := Eval vm_compute in b "ns.u".
Definition b_ns := Eval vm_compute in b "ns".

(* the caller: an entered data frame {x} (the caller's own map, id 7), a fresh frame above it; mode 1 *)
Definition st0 : mstate :=
  init_state (sc_enter (new_scope 7 [(bx, VNull)])) 1 b_nst None None 100.

Definition callee_t : template :=
  {| t_name := b_nsu; t_node := NTemplate 90 b_nsu (NList 91 []) 0 false;
     t_ns_name := b_ns; t_ns_autoescape := 3; t_params := []; t_file := [] |}.
Definition cf0 : cfg :=
  {| c_reg := {| r_templates := [callee_t]; r_sources := []; r_files := [] |}; c_ij := None; c_oblig := []; c_msgs := None |}.

Definition R0 (r : string) (m : N) : bstr * list nat * N := (b r, [], m).
Definition R1 (r : string) (i : nat) (m : N) : bstr * list nat * N := (b r, [i], m).
Definition R2 (r : string) (j i : nat) (m : N) : bstr * list nat * N := (b r, [j; i], m).
Definition S0 (r : string) (s : bstr) : bstr * list nat * bstr := (b r, [], s).
Definition S1 (r : string) (i : nat) (s : bstr) : bstr * list nat * bstr := (b r, [i], s).
Definition mkpe refs strs res : penv :=
  {| pe_ref := refs; pe_str := strs; pe_res := res; pe_callee_mode := 3; pe_mode := 2 |}.

Local Ltac probe := unfold probe_ok; vm_compute; reflexivity.

(* ---- LetValueNode: the value is evaluated (s.node restored), then set ---- *)
Lemma probe_LetValue :
  probe_ok cf0 (mkpe [R0 "node" 10; R0 "node.Expr" 11] [S0 "node.Name" bv] [(11, Ok (VInt 5))])
    (NLetValue 10 bv (NNull 11)) ev_LetValueNode [] st0.
Proof. probe. Qed.

(* ---- LetContentNode: the body is rendered into a buffer (one more buffer while it runs), then set ---- *)
Lemma probe_LetContent :
  probe_ok cf0 (mkpe [R0 "node" 10; R0 "node.Body" 11] [S0 "node.Name" bv] [])
    (NLetContent 10 bv (NRawText 11 bx)) ev_LetContentNode [] st0.
Proof. probe. Qed.

(* ---- ListNode: push, the children in order (WALKED: s.node stays on the last), pop ---- *)
Lemma probe_List :
  probe_ok cf0 (mkpe [R0 "node" 10; R1 "node.Nodes[]" 0 11; R1 "node.Nodes[]" 1 12; R1 "node.Nodes[]" 2 13] [] [])
    (NList 10 [NNull 11; NNull 12; NNull 13]) ev_ListNode [DLoop 3] st0.
Proof. probe. Qed.
(* a failing child: the pop is not reached *)
Lemma probe_List_fail :
  probe_ok cf0 (mkpe [R0 "node" 10; R1 "node.Nodes[]" 0 11; R1 "node.Nodes[]" 1 12; R1 "node.Nodes[]" 2 13] [] [(12, Err [1])])
    (NList 10 [NNull 11; NNull 12; NNull 13]) ev_ListNode [DLoop 3] st0.
Proof. probe. Qed.

(* ---- RawTextNode / MsgHtmlTagNode: one write of the text ---- *)
Lemma probe_RawText :
  probe_ok cf0 (mkpe [R0 "node" 10] [S0 "node.Text" bx] []) (NRawText 10 bx) ev_RawTextNode [DIf false] st0.
Proof. probe. Qed.
Lemma probe_MsgHtmlTag :
  probe_ok cf0 (mkpe [R0 "node" 10] [S0 "node.Text" bx] []) (NMsgHtmlTag 10 bx) ev_MsgHtmlTagNode [DIf false] st0.
Proof. probe. Qed.
(* a writer that refuses the first call: errorf *)
Lemma probe_RawText_refused :
  probe_ok cf0 (mkpe [R0 "node" 10] [S0 "node.Text" bx] []) (NRawText 10 bx) ev_RawTextNode []
    (init_state (sc_enter (new_scope 7 [])) 1 [] (Some O) None 100).
Proof. probe. Qed.

(* ---- IfNode: the conditions in order until one is truthy (or absent); its body walked; nothing after ---- *)
Definition if3 : node :=
  NIf 10 [NIfCond 20 (Some (NNull 21)) (NNull 22); NIfCond 30 (Some (NNull 31)) (NNull 32); NIfCond 40 None (NNull 42)].
Definition if3_refs := [R0 "node" 10; R1 "node.Conds[].Cond" 0 21; R1 "node.Conds[].Body" 0 22; R1 "node.Conds[].Cond" 1 31; R1 "node.Conds[].Body" 1 32;
                        R1 "node.Conds[].Cond" 2 41; R1 "node.Conds[].Body" 2 42].
Lemma probe_If_second :
  probe_ok cf0 (mkpe if3_refs [] [(21, Ok (VBool false)); (31, Ok (VBool true))]) if3 ev_IfNode
    [DLoop 3; DShort true; DIf false; DShort true; DIf true] st0.
Proof. probe. Qed.
Lemma probe_If_else :
  probe_ok cf0 (mkpe if3_refs [] [(21, Ok (VBool false)); (31, Ok VNull)]) if3 ev_IfNode
    [DLoop 3; DShort true; DIf false; DShort true; DIf false; DShort false; DIf true] st0.
Proof. probe. Qed.
Lemma probe_If_first :
  probe_ok cf0 (mkpe if3_refs [] [(21, Ok (VInt 1))]) if3 ev_IfNode [DLoop 3; DShort true; DIf true] st0.
Proof. probe. Qed.
Lemma probe_If_none :
  probe_ok cf0 (mkpe if3_refs [] [(21, Ok (VInt 0))]) (NIf 10 [NIfCond 20 (Some (NNull 21)) (NNull 22)]) ev_IfNode
    [DLoop 1; DShort true; DIf false] st0.
Proof. probe. Qed.

(* ---- SwitchNode: the value, then the case values in order; the first equal one's body; a case without values is
   the default ---- *)
Definition sw : node :=
  NSwitch 10 (NNull 11) [NSwitchCase 20 [NNull 21; NNull 22] (NNull 23); NSwitchCase 30 [NNull 31] (NNull 33);
                          NSwitchCase 40 [] (NNull 43)].
Definition sw_refs := [R0 "node" 10; R0 "node.Value" 11; R2 "node.Cases[].Values[]" 0 0 21; R2 "node.Cases[].Values[]" 1 0 22;
                       R1 "node.Cases[].Body" 0 23; R2 "node.Cases[].Values[]" 0 1 31; R1 "node.Cases[].Body" 1 33; R1 "node.Cases[].Body" 2 43].
Lemma probe_Switch_second_value :
  probe_ok cf0 (mkpe sw_refs [] [(11, Ok (VInt 2)); (21, Ok (VInt 1)); (22, Ok (VInt 2))]) sw ev_SwitchNode
    [DLoop 3; DLoop 2; DIf false; DIf true] st0.
Proof. probe. Qed.
Lemma probe_Switch_second_case :
  probe_ok cf0 (mkpe sw_refs [] [(11, Ok (VInt 3)); (21, Ok (VInt 1)); (22, Ok (VInt 2)); (31, Ok (VInt 3))]) sw ev_SwitchNode
    [DLoop 3; DLoop 2; DIf false; DIf false; DIf false; DLoop 1; DIf true] st0.
Proof. probe. Qed.
Lemma probe_Switch_default :
  probe_ok cf0 (mkpe sw_refs [] [(11, Ok (VInt 9)); (21, Ok (VInt 1)); (22, Ok (VInt 2)); (31, Ok (VInt 3))]) sw ev_SwitchNode
    [DLoop 3; DLoop 2; DIf false; DIf false; DIf false; DLoop 1; DIf false; DIf false; DLoop 0; DIf true] st0.
Proof. probe. Qed.

(* ---- ForNode ---- *)
Definition for_n : node := NFor 10 bv (NNull 11) (NNull 12) (Some (NNull 13)).
Definition for_refs := [R0 "node" 10; R0 "node.List" 11; R0 "node.Body" 12; R0 "node.IfEmpty" 13].
(* two items: push; v.lastIndex; per item v and v.index set and the body walked; pop *)
Lemma probe_For_items :
  probe_ok cf0 (mkpe for_refs [S0 "node.Var" bv] [(11, Ok (VList 50 [VInt 1; VInt 2]))]) for_n ev_ForNode
    [DIf false; DIf false; DLoop 2] st0.
Proof. probe. Qed.
(* empty list: ifempty walked, no frame pushed *)
Lemma probe_For_empty :
  probe_ok cf0 (mkpe for_refs [S0 "node.Var" bv] [(11, Ok (VList 1 []))]) for_n ev_ForNode
    [DIf false; DIf true; DIf true] st0.
Proof. probe. Qed.
Lemma probe_For_empty_no_ifempty :
  probe_ok cf0 (mkpe for_refs [S0 "node.Var" bv] [(11, Ok (VList 1 []))]) (NFor 10 bv (NNull 11) (NNull 12) None) ev_ForNode
    [DIf false; DIf true; DIf false] st0.
Proof. probe. Qed.
(* not a list: errorf *)
Lemma probe_For_not_a_list :
  probe_ok cf0 (mkpe for_refs [S0 "node.Var" bv] [(11, Ok (VInt 3))]) for_n ev_ForNode [DIf true] st0.
Proof. probe. Qed.
(* a failing body: the frame stays (the panic unwinds past the pop) *)
Lemma probe_For_body_fails :
  probe_ok cf0 (mkpe for_refs [S0 "node.Var" bv] [(11, Ok (VList 50 [VInt 1; VInt 2])); (12, Err [1])]) for_n ev_ForNode
    [DIf false; DIf false; DLoop 2] st0.
Proof. probe. Qed.

(* ---- CallNode ---- *)
Definition call_name := Eval vm_compute in b "ns.u".
Definition call_params_n := [NParamValue 20 bk1 (NNull 21); NParamContent 30 bk2 (NNull 31); NParamValue 40 bk1 (NNull 41)].
Definition call_refs := [R0 "node" 10; R0 "node.Data" 11; R1 "node.Params[].Value" 0 21; R1 "node.Params[].Content" 1 31; R1 "node.Params[].Value" 2 41;
                         R0 "?.Node" 90].
Definition call_strs := [S1 "node.Params[].Key" 0 bk1; S1 "node.Params[].Key" 1 bk2; S1 "node.Params[].Key" 2 bk1].
(* no data: a fresh scope; the params in order (value evaluated, content rendered) in the CALLER's scope; s.at(node);
   the callee walked with the new scope entered, its namespace's mode, one level deeper; caller's back *)
Lemma probe_Call_nodata :
  probe_ok cf0 (mkpe call_refs call_strs []) (NCall 10 call_name false None call_params_n) ev_CallNode
    [DIf false; DIf false; DIf false; DLoop 3; DCase 0; DCase 1; DCase 0] st0.
Proof. probe. Qed.
(* data="all": the caller's frames from the entered one, plus a fresh frame *)
Lemma probe_Call_alldata :
  probe_ok cf0 (mkpe call_refs call_strs []) (NCall 10 call_name true None call_params_n) ev_CallNode
    [DIf false; DIf true; DLoop 3; DCase 0; DCase 1; DCase 0] st0.
Proof. probe. Qed.
(* data=$m: a scope on that map (the caller's own object: origin external) plus a fresh frame *)
Lemma probe_Call_data :
  probe_ok cf0 (mkpe call_refs call_strs [(11, Ok (VMap 60 [(bx, VInt 1)]))]) (NCall 10 call_name false (Some (NNull 11)) call_params_n)
    ev_CallNode [DIf false; DIf false; DIf true; DIf false; DLoop 3; DCase 0; DCase 1; DCase 0] st0.
Proof. probe. Qed.
(* data= not a map *)
Lemma probe_Call_data_not_map :
  probe_ok cf0 (mkpe call_refs call_strs [(11, Ok (VInt 1))]) (NCall 10 call_name false (Some (NNull 11)) call_params_n)
    ev_CallNode [DIf false; DIf false; DIf true; DIf true] st0.
Proof. probe. Qed.
(* unknown template: nothing is evaluated *)
Lemma probe_Call_unknown :
  probe_ok cf0 (mkpe call_refs call_strs []) (NCall 10 bx false None call_params_n) ev_CallNode [DIf true] st0.
Proof. probe. Qed.
(* the callee fails: the caller's scope, mode and depth are back *)
Lemma probe_Call_callee_fails :
  probe_ok cf0 (mkpe call_refs call_strs [(90, Err [1])]) (NCall 10 call_name false None call_params_n) ev_CallNode
    [DIf false; DIf false; DIf false; DLoop 3; DCase 0; DCase 1; DCase 0] st0.
Proof. probe. Qed.

(* ---- TemplateNode: the template's own autoescape, if any, then the body ---- *)
Lemma probe_Template_mode :
  probe_ok cf0 (mkpe [R0 "node" 10; R0 "node.Body" 11] [] []) (NTemplate 10 bx (NNull 11) 2 false) ev_TemplateNode [DIf true] st0.
Proof. probe. Qed.
Lemma probe_Template_nomode :
  probe_ok cf0 (mkpe [R0 "node" 10; R0 "node.Body" 11] [] []) (NTemplate 10 bx (NNull 11) 0 false) ev_TemplateNode [DIf false] st0.
Proof. probe. Qed.

(* ---- CssNode, LogNode ---- *)
Definition bdash := Eval vm_compute in b "p-".
Lemma probe_Css_expr :
  probe_ok cf0 (mkpe [R0 "node" 10; R0 "node.Expr" 11] [S0 "?" bdash; S0 "node.Suffix" bx] [(11, Ok (VStr [112]))])
    (NCss 10 (Some (NNull 11)) bx) ev_CssNode [DIf true; DIf false] st0.
Proof. probe. Qed.
Lemma probe_Css_plain :
  probe_ok cf0 (mkpe [R0 "node" 10] [S0 "?" []; S0 "node.Suffix" bx] []) (NCss 10 None bx) ev_CssNode [DIf false; DIf false] st0.
Proof. probe. Qed.
Lemma probe_Log :
  probe_ok cf0 (mkpe [R0 "node" 10; R0 "node.Body" 11] [] []) (NLog 10 (NNull 11)) ev_LogNode [DIf false] st0.
Proof. probe. Qed.

(* ---- PrintNode ---- *)
Definition d_id := Eval vm_compute in b "id".
Definition d_trunc := Eval vm_compute in b "truncate".
Definition bstr_s := Eval vm_compute in b "a<c".
(* no directive, mode 1: the argument WALKED (s.node stays inside it), the escaped writes: "a", "&lt;", "c" *)
Lemma probe_Print_plain :
  probe_ok cf0 (mkpe [R0 "node" 10; R0 "node.Arg" 11] [S0 "?.String()" bstr_s] [(11, Ok (VStr bstr_s))])
    (NPrint 10 (NNull 11) []) ev_PrintNode [DIf false; DLoop 0; DLoop 0; DIf true; DIf false] st0.
Proof. probe. Qed.
(* undefined: errorf before anything else *)
Lemma probe_Print_undefined :
  probe_ok cf0 (mkpe [R0 "node" 10; R0 "node.Arg" 11] [] [(11, Ok VUndef)])
    (NPrint 10 (NNull 11) [NDirective 20 d_trunc [NNull 21]]) ev_PrintNode [DIf true] st0.
Proof. probe. Qed.
(* two directives with an argument each (|truncate:5 |truncate:7): arguments evaluated in order, s.node restored to
   where the walk of the argument left it; one escaped write *)
Lemma probe_Print_directives :
  probe_ok cf0 (mkpe [R0 "node" 10; R0 "node.Arg" 11; R2 "?[].Args[]" 0 0 21; R2 "?[].Args[]" 0 1 31] [S0 "?.String()" bx]
                  [(11, Ok (VStr bx)); (21, Ok (VInt 5)); (31, Ok (VInt 7))])
    (NPrint 10 (NNull 11) [NDirective 20 d_trunc [NNull 21]; NDirective 30 d_trunc [NNull 31]]) ev_PrintNode
    [DIf false; DLoop 0; DLoop 2; DIf false; DIf false; DLoop 1; DFails false; DIf false; DIf false; DIf false; DLoop 1; DFails false; DIf false; DIf true; DIf false] st0.
Proof. probe. Qed.
(* an unknown directive: errorf before its arguments are evaluated *)
Lemma probe_Print_unknown_directive :
  probe_ok cf0 (mkpe [R0 "node" 10; R0 "node.Arg" 11; R2 "?[].Args[]" 0 0 21] [] [(11, Ok (VStr bx))])
    (NPrint 10 (NNull 11) [NDirective 20 bx [NNull 21]]) ev_PrintNode [DIf false; DLoop 0; DLoop 1; DIf true] st0.
Proof. probe. Qed.

(* when the Apply of a directive fails, exec.go has not evaluated the arguments of the LATER directives (the loop
   applies each directive right after its arguments), and so does [print_dirs] (it used to evaluate the arguments of
   all directives first: a model infidelity found by this tie and repaired).  Witness on the real code:
     {$x|truncate:'a'|truncate:<newline>$u.v}  with x = "hello", u unbound
   robfig/soy: "template n.t:7: panic in |truncate:'a' ..." (line of the print, nothing looked up after it).
   The probe: |truncate:"s" (Apply fails) |truncate:<marker 31>; the event list stops at the first Apply, and so
   does the model's trace: marker 31 is not evaluated. *)
Lemma probe_Print_apply_order :
  probe_ok cf0 (mkpe [R0 "node" 10; R0 "node.Arg" 11; R2 "?[].Args[]" 0 0 21; R2 "?[].Args[]" 0 1 31] [S0 "?.String()" bx]
                  [(11, Ok (VStr bx)); (21, Ok (VStr bx)); (31, Ok (VInt 7))])
    (NPrint 10 (NNull 11) [NDirective 20 d_trunc [NNull 21]; NDirective 30 d_trunc [NNull 31]]) ev_PrintNode
    [DIf false; DLoop 0; DLoop 2; DIf false; DIf false; DLoop 1; DFails true] st0.
Proof. probe. Qed.
(* the second Apply fails: both argument lists evaluated, the first directive applied *)
Lemma probe_Print_apply_second_fails :
  probe_ok cf0 (mkpe [R0 "node" 10; R0 "node.Arg" 11; R2 "?[].Args[]" 0 0 21; R2 "?[].Args[]" 0 1 31] [S0 "?.String()" bx]
                  [(11, Ok (VStr bx)); (21, Ok (VInt 5)); (31, Ok (VStr bx))])
    (NPrint 10 (NNull 11) [NDirective 20 d_trunc [NNull 21]; NDirective 30 d_trunc [NNull 31]]) ev_PrintNode
    [DIf false; DLoop 0; DLoop 2; DIf false; DIf false; DLoop 1; DFails false; DIf false; DIf false; DIf false; DLoop 1; DFails true] st0.
Proof. probe. Qed.

(* ---- FunctionNode: arity, then the arguments in order, then Apply ---- *)
Definition n_len := Eval vm_compute in b "length".
Lemma probe_Function :
  probe_ok cf0 (mkpe [R0 "node" 10; R1 "node.Args[]" 0 11] [] [(11, Ok (VList 50 [VInt 1]))]) (NFunc 10 n_len [NNull 11]) ev_FunctionNode
    [DIf false; DIf true; DIf false; DLoop 1; DFails false; DIf false] st0.
Proof. probe. Qed.
Lemma probe_Function_arity :
  probe_ok cf0 (mkpe [R0 "node" 10; R1 "node.Args[]" 0 11; R1 "node.Args[]" 1 12] [] []) (NFunc 10 n_len [NNull 11; NNull 12]) ev_FunctionNode
    [DIf false; DIf true; DIf true] st0.
Proof. probe. Qed.

(* ---- DataRefNode: the base looked up in the scope, then the accesses in order (an expression key evaluated) ---- *)
Definition st_map : mstate :=
  init_state (sc_enter (new_scope 7 [(bx, VMap 70 [(bk1, VMap 71 [(bk2, VInt 1)])])])) 1 b_nst None None 100.
Lemma probe_DataRef :
  probe_ok cf0 (mkpe [R0 "node" 10; R1 "node.Access[].Arg" 0 21] [S0 "node.Key" bx] [(21, Ok (VStr bk1))])
    (NDataRef 10 bx [NAccExpr 20 false (NNull 21); NAccKey 30 false bk2]) ev_DataRefNode
    [DIf false; DIf false; DLoop 2; DCase 2; DCase 1; DCase 2; DIf false; DCase 1; DCase 2; DIf false] st_map.
Proof. probe. Qed.
(* an unbound base is looked up (and counted) before the access fails *)
Lemma probe_DataRef_unbound :
  probe_ok cf0 (mkpe [R0 "node" 10] [S0 "node.Key" bv] []) (NDataRef 10 bv [NAccKey 30 false bk2]) ev_DataRefNode
    [DIf false; DIf false; DLoop 1; DCase 1; DCase 0; DIf false] st_map.
Proof. probe. Qed.

(* ---- MsgNode, without a bundle: walkMsgBody ---- *)
Definition msg_n : node :=
  NMsg 10 77 [] [] [NRawText 11 bx; NMsgPlaceholder 12 bk1 (NNull 13); NRawText 14 bx].
Lemma probe_Msg_flat :
  probe_ok cf0 (mkpe [R0 "node" 10; R1 "node.Body.Children()[]" 0 11; R1 "node.Body.Children()[].Body" 1 13; R1 "node.Body.Children()[]" 2 14] [] []) msg_n ev_MsgNode
    [DIf true; DLoop 3; DCase 0; DCase 1; DCase 0] st0.
Proof. probe. Qed.
(* a plural: the value evaluated, the case with that value (walked as a message body at the message's position) *)
Definition msg_pl : node :=
  NMsg 10 77 [] [] [NMsgPlural 12 bv (NNull 13) [NMsgPluralCase 20 1 [NRawText 21 bx]; NMsgPluralCase 30 2 [NRawText 31 bx]] [NRawText 41 bx]].
Lemma probe_Msg_plural_case :
  probe_ok cf0 (mkpe [R0 "node" 10; R1 "node.Body.Children()[].Value" 0 13; R2 "node.Body.Children()[].Cases[].Body" 1 0 10] [] [(13, Ok (VInt 2))]) msg_pl ev_MsgNode
    [DIf true; DLoop 1; DCase 2; DIf false; DLoop 2; DIf false; DIf true] st0.
Proof. probe. Qed.
Lemma probe_Msg_plural_default :
  probe_ok cf0 (mkpe [R0 "node" 10; R1 "node.Body.Children()[].Value" 0 13; R1 "node.Body.Children()[].Default" 0 10] [] [(13, Ok (VInt 5))]) msg_pl ev_MsgNode
    [DIf true; DLoop 1; DCase 2; DIf false; DLoop 2; DIf false; DIf false] st0.
Proof. probe. Qed.
Lemma probe_Msg_plural_not_int :
  probe_ok cf0 (mkpe [R0 "node" 10; R1 "node.Body.Children()[].Value" 0 13] [] [(13, Ok (VStr bx))]) msg_pl ev_MsgNode
    [DIf true; DLoop 1; DCase 2; DIf true] st0.
Proof. probe. Qed.

(* ---- operators: the order of the operands ---- *)
Definition two_refs := [R0 "node" 10; R0 "node.Arg1" 11; R0 "node.Arg2" 12; R0 "node.Arg3" 13].
Lemma probe_Add : probe_ok cf0 (mkpe two_refs [] [(11, Ok (VInt 1)); (12, Ok (VInt 2))]) (NBin OAdd 10 (NNull 11) (NNull 12)) ev_AddNode [DCase 0] st0.
Proof. probe. Qed.
Lemma probe_Add_first_undefined : probe_ok cf0 (mkpe two_refs [] [(12, Ok (VInt 2))]) (NBin OAdd 10 (NNull 11) (NNull 12)) ev_AddNode [] st0.
Proof. probe. Qed.
Lemma probe_Eq : probe_ok cf0 (mkpe two_refs [] [(11, Ok (VInt 1)); (12, Ok (VInt 2))]) (NBin OEq 10 (NNull 11) (NNull 12)) ev_eq [] st0.
Proof. probe. Qed.
Lemma probe_Lt : probe_ok cf0 (mkpe two_refs [] [(11, Ok (VInt 1)); (12, Ok (VInt 2))]) (NBin OLt 10 (NNull 11) (NNull 12)) ev_cmp [] st0.
Proof. probe. Qed.
Lemma probe_And_short : probe_ok cf0 (mkpe two_refs [] [(11, Ok (VBool false))]) (NBin OAnd 10 (NNull 11) (NNull 12)) ev_andor [DShort false] st0.
Proof. probe. Qed.
Lemma probe_And_both : probe_ok cf0 (mkpe two_refs [] [(11, Ok (VBool true))]) (NBin OAnd 10 (NNull 11) (NNull 12)) ev_andor [DShort true] st0.
Proof. probe. Qed.
Lemma probe_Or_short : probe_ok cf0 (mkpe two_refs [] [(11, Ok (VBool true))]) (NBin OOr 10 (NNull 11) (NNull 12)) ev_andor [DShort false] st0.
Proof. probe. Qed.
Lemma probe_Elvis : probe_ok cf0 (mkpe two_refs [] [(11, Ok VNull)]) (NBin OElvis 10 (NNull 11) (NNull 12)) ev_ElvisNode [DIf false] st0.
Proof. probe. Qed.
Lemma probe_Tern_then : probe_ok cf0 (mkpe two_refs [] [(11, Ok (VBool true))]) (NTern 10 (NNull 11) (NNull 12) (NNull 13)) ev_TernNode [DIf true] st0.
Proof. probe. Qed.
Lemma probe_Tern_else : probe_ok cf0 (mkpe two_refs [] [(11, Ok (VBool false))]) (NTern 10 (NNull 11) (NNull 12) (NNull 13)) ev_TernNode [DIf false] st0.
Proof. probe. Qed.
Lemma probe_ListLit :
  probe_ok cf0 (mkpe [R0 "node" 10; R1 "node.Items[]" 0 11; R1 "node.Items[]" 1 12] [] []) (NListLit 10 [NNull 11; NNull 12]) ev_ListLiteralNode [DLoop 2] st0.
Proof. probe. Qed.

Lemma probe_MapLit :
  probe_ok cf0 (mkpe [R0 "node" 10; R1 "node.Items[]" 0 11; R1 "node.Items[]" 1 12] [] []) (NMapLit 10 [(bk1, NNull 11); (bk2, NNull 12)]) ev_MapLiteralNode [DLoop 2] st0.
Proof. probe. Qed.
Definition one_refs := [R0 "node" 10; R0 "node.Arg" 11].
Lemma probe_Negate : probe_ok cf0 (mkpe one_refs [] [(11, Ok (VInt 1))]) (NNeg 10 (NNull 11)) ev_NegateNode [DCase 0] st0.
Proof. probe. Qed.
Lemma probe_Negate_not_a_number : probe_ok cf0 (mkpe one_refs [] [(11, Ok (VStr bx))]) (NNeg 10 (NNull 11)) ev_NegateNode [DCase 2] st0.
Proof. probe. Qed.
Lemma probe_Not : probe_ok cf0 (mkpe one_refs [] [(11, Ok (VInt 1))]) (NNot 10 (NNull 11)) ev_NotNode [] st0.
Proof. probe. Qed.
Lemma probe_Sub : probe_ok cf0 (mkpe two_refs [] [(11, Ok (VInt 1)); (12, Ok (VInt 2))]) (NBin OSub 10 (NNull 11) (NNull 12)) ev_SubNode [DCase 0] st0.
Proof. probe. Qed.
Lemma probe_Mul : probe_ok cf0 (mkpe two_refs [] [(11, Ok (VInt 1)); (12, Ok (VInt 2))]) (NBin OMul 10 (NNull 11) (NNull 12)) ev_MulNode [DCase 0] st0.
Proof. probe. Qed.
Lemma probe_Div : probe_ok cf0 (mkpe two_refs [] [(11, Ok (VInt 1)); (12, Ok (VInt 2))]) (NBin ODiv 10 (NNull 11) (NNull 12)) ev_DivNode [] st0.
Proof. probe. Qed.
Lemma probe_Mod : probe_ok cf0 (mkpe two_refs [] [(11, Ok (VInt 5)); (12, Ok (VInt 2))]) (NBin OMod 10 (NNull 11) (NNull 12)) ev_ModNode [] st0.
Proof. probe. Qed.
Lemma probe_NotEq : probe_ok cf0 (mkpe two_refs [] [(11, Ok (VInt 1)); (12, Ok (VInt 2))]) (NBin ONotEq 10 (NNull 11) (NNull 12)) ev_eq [] st0.
Proof. probe. Qed.
Lemma probe_Gte : probe_ok cf0 (mkpe two_refs [] [(11, Ok (VInt 1)); (12, Ok (VInt 2))]) (NBin OGte 10 (NNull 11) (NNull 12)) ev_cmp [] st0.
Proof. probe. Qed.
Lemma probe_value : probe_ok cf0 (mkpe [R0 "node" 10] [] []) (NInt 10 5) ev_value [] st0.
Proof. probe. Qed.
Lemma probe_Debugger : probe_ok cf0 (mkpe [R0 "node" 10] [] []) (NDebugger 10) ev_DebuggerNode [] st0.
Proof. probe. Qed.
(* DIFF: SoyFileNode has no constructor in Model/Ast.v ([walk_node] fails with "unknown node" on anything else);
   a render never walks one (Execute walks the template's node).  A node type outside the switch: errorf. *)
Lemma probe_default : probe_ok cf0 (mkpe [R0 "node" 10] [] []) (NOther 10 bx) ev_default [] st0.
Proof. probe. Qed.

(* ------------------------------------------------------------------ *)
(* the probes do discriminate: a hand table with the pop dropped, with two evaluations swapped, with a write
   added, does not pass *)
Local Ltac refuted := unfold probe_ok; vm_compute; discriminate.

Definition ev_ListNode_no_pop := Eval vm_compute in
  [C "s.context.push" []; LOOP "node.Nodes" [C "s.walk" [R "node.Nodes[]"]]].
Lemma probe_detects_dropped_pop :
  ~ probe_ok cf0 (mkpe [R0 "node" 10; R1 "node.Nodes[]" 0 11; R1 "node.Nodes[]" 1 12; R1 "node.Nodes[]" 2 13] [] [])
      (NList 10 [NNull 11; NNull 12; NNull 13]) ev_ListNode_no_pop [DLoop 3] st0.
Proof. refuted. Qed.

Definition ev_eq_swapped := Eval vm_compute in [C "s.eval" [R "node.Arg2"]; C "s.eval" [R "node.Arg1"]; VAL].
Lemma probe_detects_swapped_evaluations :
  ~ probe_ok cf0 (mkpe two_refs [] [(11, Ok (VInt 1)); (12, Ok (VInt 2))]) (NBin OEq 10 (NNull 11) (NNull 12)) ev_eq_swapped [] st0.
Proof. refuted. Qed.

Definition ev_LetValue_extra_write := Eval vm_compute in
  [C "s.eval" [R "node.Expr"]; C "s.wr.Write" [R "node.Name"]; C "s.context.set" [R "node.Name"; OTH]].
Lemma probe_detects_added_write :
  ~ probe_ok cf0 (mkpe [R0 "node" 10; R0 "node.Expr" 11] [S0 "node.Name" bv] [(11, Ok (VInt 5))])
      (NLetValue 10 bv (NNull 11)) ev_LetValue_extra_write [] st0.
Proof. refuted. Qed.

(* eval instead of walk (s.node restored or not) is seen *)
Definition ev_Template_eval := Eval vm_compute in [EvIf [] [A "s.autoescape"] []; C "s.eval" [R "node.Body"]].
Lemma probe_detects_eval_for_walk :
  ~ probe_ok cf0 (mkpe [R0 "node" 10; R0 "node.Body" 11] [] []) (NTemplate 10 bx (NNull 11) 0 false) ev_Template_eval [DIf false] st0.
Proof. refuted. Qed.

(* a set moved before the evaluation of its value is seen by the child *)
Definition ev_LetValue_set_first := Eval vm_compute in
  [C "s.context.set" [R "node.Name"; OTH]; C "s.eval" [R "node.Expr"]].
Lemma probe_detects_set_before_eval :
  ~ probe_ok cf0 (mkpe [R0 "node" 10; R0 "node.Expr" 11] [S0 "node.Name" bv] [(11, Ok (VInt 5))])
      (NLetValue 10 bv (NNull 11)) ev_LetValue_set_first [] st0.
Proof. refuted. Qed.
