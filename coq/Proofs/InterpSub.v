(* A node-indexed version of the generic walker principle of Proofs/InterpLogic.v.

   [walk_logic] needs [Phi (w n)] for EVERY node n.  Properties that depend on
   the node being walked (its positions lie inside the template's source; its
   tree_height is below the fuel; its calls go to templates of lower rank) need the
   hypothesis only for the nodes one unfolding of the walker actually hands to
   [w].  [subnodes n] lists them (the callee of a {call} is treated apart:
   hypothesis [Hcall] speaks about [call_enter] directly, because the callee
   runs in a different state -- depth, scope, autoescape -- and clients usually
   establish it by another argument).  Also the walker's own [set_cur] is a
   hypothesis for the one position [pos_of n], so that [Phi] need not hold for
   arbitrary positions.

   Theorem [phi_walk_body_sub]:
     Phi (set_cur (pos_of n))  ->
     (forall n', In n' (subnodes n) -> Phi (w n'))  ->
     (forall callee cd, callee_of cf n = Some callee -> Phi (call_enter w callee cd))  ->
     Phi (walk_body cf w n).                                                      *)
From Soy Require Import Model.Bytes Model.Num Model.Values Model.Outcome Model.Ast
  Model.Escape Model.Directives Model.Print Generated.Tables Model.Interp Proofs.InterpLogic.
Require Import Lia.
Open Scope N_scope.

(* ------------------------------------------------------------------ *)
(* the nodes one unfolding of the walker passes to [w] *)

Definition opt_list {A} (o : option A) : list A := match o with Some x => [x] | None => [] end.
Definition acc_subs (a : node) : list node := match a with NAccExpr _ _ e => [e] | _ => [] end.
Definition dir_subs (d : node) : list node := match d with NDirective _ _ args => args | _ => [] end.
Definition cond_subs (c : node) : list node :=
  match c with NIfCond _ c body => opt_list c ++ [body] | _ => [] end.
Definition case_subs (c : node) : list node :=
  match c with NSwitchCase _ vs body => vs ++ [body] | _ => [] end.
Definition param_subs (p : node) : list node :=
  match p with NParamValue _ _ v => [v] | NParamContent _ _ c => [c] | _ => [] end.
(* walkPlural re-enters the message walker on the chosen case: the model builds a message node at the
   message's own position for it *)
Definition plural_case_subs (mp : N) (c : node) : list node :=
  match c with NMsgPluralCase _ _ cb => [NMsg mp 0 [] [] cb] | _ => [] end.
Definition msg_subs (mp : N) (x : node) : list node :=
  match x with
  | NRawText p t => [NRawText p t]
  | NMsgPlaceholder _ _ ph => [ph]
  | NMsgPlural _ _ pv cases dflt => pv :: NMsg mp 0 [] [] dflt :: flat_map (plural_case_subs mp) cases
  | _ => []
  end.

Definition subnodes (n : node) : list node :=
  match n with
  | NFunc _ _ args => args
  | NListLit _ items => items
  | NMapLit _ items => map snd items
  | NDataRef _ _ acc => flat_map acc_subs acc
  | NNot _ a | NNeg _ a => [a]
  | NBin _ _ a1 a2 => [a1; a2]
  | NTern _ a1 a2 a3 => [a1; a2; a3]
  | NList _ ns => ns
  | NPrint _ arg dirs => arg :: flat_map dir_subs dirs
  | NCss _ e _ => opt_list e
  | NLog _ body => [body]
  | NIf _ conds => flat_map cond_subs conds
  | NFor _ _ lst body ie => lst :: body :: opt_list ie
  | NSwitch _ v cases => v :: flat_map case_subs cases
  | NCall _ _ _ dat params => opt_list dat ++ flat_map param_subs params
  | NLetValue _ _ e => [e]
  | NLetContent _ _ b => [b]
  | NTemplate _ _ body _ _ => [body]
  | NMsg mp _ _ _ body => flat_map (msg_subs mp) body
  | _ => []
  end.

Definition callee_of (cf : cfg) (n : node) : option template :=
  match n with
  | NCall _ name _ _ _ => find_template (r_templates (c_reg cf)) name
  | _ => None
  end.

Lemma in_flat_map_hd {A B} (f : A -> list B) a r x : In x (f a) -> In x (flat_map f (a :: r)).
Proof. intros H. cbn [flat_map]. apply in_or_app. left. exact H. Qed.
Lemma in_flat_map_tl {A B} (f : A -> list B) a r x : In x (flat_map f r) -> In x (flat_map f (a :: r)).
Proof. intros H. cbn [flat_map]. apply in_or_app. right. exact H. Qed.

(* ------------------------------------------------------------------ *)

Section Sub.
Variable cf : cfg.
Variable Phi : forall A : Type, M A -> Prop.
Arguments Phi {A} _.
Variable pure_ok : forall A : Type, outcome A -> Prop.
Arguments pure_ok {A} _.

(* [walker_logic] without [wl_set_cur] *)
Record walker_logic_sub : Prop := {
  ws_ext : forall A (m m' : M A), (forall st, m st = m' st) -> Phi m -> Phi m';
  ws_ret : forall A (x : A), Phi (ret x);
  ws_fail : forall A e, Phi (@fail A e);
  ws_lift : forall A (o : outcome A), pure_ok o -> Phi (lift o);
  ws_bind : forall A B (m : M A) (f : A -> M B), Phi m -> (forall x, Phi (f x)) -> Phi (mbind m f);
  ws_template_mode : forall ae, Phi (modify (fun st => set_mode st (template_mode (mode st) ae)));
  ws_write : forall w, Phi (write w);
  ws_set : forall k v, Phi (m_set k v);
  ws_lookup : forall k, Phi (m_lookup k);
  ws_fresh_list : forall l, Phi (fresh_list l);
  ws_fresh_list_or_nil : forall l, Phi (fresh_list_or_nil l);
  ws_fresh_map : forall m, Phi (fresh_map m);
  ws_read_mode : forall B (f : N -> M B), (forall x, Phi (f x)) -> Phi (st <-- get ;;; f (mode st));
  ws_read_ctx : forall B (f : scope -> M B), (forall x, Phi (f x)) -> Phi (st <-- get ;;; f (ctx st));
  ws_scoped : forall (m : M unit), Phi m -> Phi (_ <-- m_push ;;; _ <-- m ;;; _ <-- m_pop ;;; ret VUndef);
  ws_eval : forall (w : node -> M value) e, Phi (w e) -> Phi (eval w e);
  ws_block : forall (w : node -> M value) body, Phi (w body) -> Phi (render_block w body);
}.

(* the pure sites, without the fuel case (which concerns [walk], not [walk_body]) *)
Record pure_sites_sub : Prop := {
  pss_arith : forall op x y, pure_ok (arith op x y);
  pss_compare : forall op x y, pure_ok (compare_op op x y);
  pss_string : forall v, pure_ok (value_string v);
  pss_print : forall m ds s, pure_ok (print_writes m ds s);
  pss_func : forall name ar vs, func_arities name = Some ar -> pure_ok (apply_func name vs);
}.

Hypothesis L : walker_logic_sub.
Hypothesis PS : pure_sites_sub.

Ltac phi_bind := apply (ws_bind L); [ | intro ].
Ltac phi_leaf :=
  first [ apply (ws_ret L) | apply (ws_fail L) | apply (ws_write L) | apply (ws_set L)
        | apply (ws_lookup L) | apply (ws_fresh_list L) | apply (ws_fresh_list_or_nil L)
        | apply (ws_fresh_map L) | apply (ws_template_mode L) ].

Lemma sphi_write_all ws : Phi (write_all ws).
Proof.
  induction ws as [|x r IH]; cbn [write_all]; [apply (ws_ret L)|].
  phi_bind; [apply (ws_write L) | exact IH].
Qed.

Section Body.
Variable w : node -> M value.

Lemma sphi_eval e : Phi (w e) -> Phi (eval w e).
Proof. apply (ws_eval L). Qed.

Lemma sphi_evaldef e : Phi (w e) -> Phi (evaldef w e).
Proof. intros H. unfold evaldef. phi_bind; [apply sphi_eval; exact H|]. destruct x; phi_leaf. Qed.

Lemma sphi_eval_list es : (forall x, In x es -> Phi (w x)) -> Phi (eval_list w es).
Proof.
  induction es as [|e r IH]; intros H; cbn [eval_list]; [phi_leaf|].
  phi_bind; [apply sphi_eval; apply H; left; reflexivity|].
  phi_bind; [apply IH; intros y Hy; apply H; right; exact Hy|]. phi_leaf.
Qed.

Lemma sphi_walk_list ns : (forall x, In x ns -> Phi (w x)) -> Phi (walk_list w ns).
Proof.
  induction ns as [|x r IH]; intros H; cbn [walk_list]; [phi_leaf|].
  phi_bind; [apply H; left; reflexivity | apply IH; intros y Hy; apply H; right; exact Hy].
Qed.

Lemma sphi_render_block body : Phi (w body) -> Phi (render_block w body).
Proof. apply (ws_block L). Qed.

Lemma sphi_maplit_items l : (forall x, In x (map snd l) -> Phi (w x)) -> Phi (maplit_items w l).
Proof.
  induction l as [|[k e] r IH]; intros H; cbn [maplit_items]; [phi_leaf|].
  phi_bind; [apply sphi_eval; apply H; left; reflexivity|].
  phi_bind; [apply IH; intros y Hy; apply H; right; exact Hy|]. phi_leaf.
Qed.

Lemma sphi_loop_func name args : Phi (loop_func name args).
Proof.
  unfold loop_func. destruct args as [|a r]; [phi_leaf|].
  destruct a; try phi_leaf.
  phi_bind; [phi_leaf|].
  destruct (Interp.fn_is name n_index); [phi_leaf|].
  destruct x; try phi_leaf.
  destruct (Interp.fn_is name n_isFirst); [phi_leaf|].
  phi_bind; [phi_leaf|]. destruct x; phi_leaf.
Qed.

Lemma sphi_call_func name args : (forall x, In x args -> Phi (w x)) -> Phi (call_func w name args).
Proof.
  intros H. unfold call_func. destruct (func_arities name) as [ar|] eqn:Har; [|phi_leaf].
  destruct (negb _); [phi_leaf|].
  phi_bind; [apply sphi_eval_list; exact H|].
  phi_bind; [apply (ws_lift L); eapply (pss_func PS); exact Har|].
  destruct x0; phi_leaf.
Qed.

Lemma sphi_dataref_access acc :
  (forall x, In x (flat_map acc_subs acc) -> Phi (w x)) -> forall ref, Phi (dataref_access w acc ref).
Proof.
  induction acc as [|a rest IH]; intros H ref; cbn [dataref_access]; [phi_leaf|].
  assert (Hrest : forall ref, Phi (dataref_access w rest ref)).
  { apply IH. intros y Hy. apply H. apply in_flat_map_tl. exact Hy. }
  phi_bind.
  - destruct a; try phi_leaf.
    phi_bind; [apply sphi_eval; apply H; apply in_flat_map_hd; left; reflexivity|].
    destruct x; try phi_leaf;
      (phi_bind; [apply (ws_lift L); apply (pss_string PS) | phi_leaf]).
  - destruct x as [oi k].
    destruct ref; try phi_leaf.
    + destruct (is_nullsafe a); phi_leaf.
    + destruct (is_nullsafe a); phi_leaf.
    + destruct oi as [i|]; [apply Hrest | phi_leaf].
    + destruct oi as [i|]; [phi_leaf | apply Hrest].
Qed.

Lemma sphi_print_dirs l : (forall x, In x (flat_map dir_subs l) -> Phi (w x)) -> forall v, Phi (print_dirs cf w l v).
Proof.
  induction l as [|d r IH]; intros H v; cbn [print_dirs]; [phi_leaf|].
  assert (Hr : forall v', Phi (print_dirs cf w r v')).
  { apply IH. intros y Hy. apply H. apply in_flat_map_tl. exact Hy. }
  destruct d; try phi_leaf.
  destruct (lookup_directive name) as [[arglens ?]|]; [|phi_leaf].
  destruct (negb _); [phi_leaf|].
  phi_bind; [apply sphi_eval_list; intros y Hy; apply H; apply in_flat_map_hd; exact Hy|].
  phi_bind; [apply (ws_lift L); apply (pss_string PS)|].
  phi_bind; [apply (ws_lift L); apply (pss_print PS)|].
  phi_bind; [apply Hr|]. phi_leaf.
Qed.

Lemma sphi_if_conds cs : (forall x, In x (flat_map cond_subs cs) -> Phi (w x)) -> Phi (if_conds w cs).
Proof.
  induction cs as [|c0 r IH]; intros H; cbn [if_conds]; [phi_leaf|].
  assert (Hr : Phi (if_conds w r)).
  { apply IH. intros y Hy. apply H. apply in_flat_map_tl. exact Hy. }
  destruct c0; try phi_leaf.
  destruct cond as [c|].
  - phi_bind; [apply sphi_eval; apply H; apply in_flat_map_hd; left; reflexivity|].
    destruct (truthy x); [|exact Hr].
    phi_bind; [apply H; apply in_flat_map_hd; right; left; reflexivity | phi_leaf].
  - phi_bind; [apply H; apply in_flat_map_hd; left; reflexivity | phi_leaf].
Qed.

Lemma sphi_for_items var body items : Phi (w body) -> forall i, Phi (for_items w var body i items).
Proof.
  intros Hb. induction items as [|x r IH]; intros i; cbn [for_items]; [phi_leaf|].
  phi_bind; [phi_leaf|]. phi_bind; [phi_leaf|]. phi_bind; [exact Hb|]. apply IH.
Qed.

Lemma sphi_case_hit sv vs : (forall x, In x vs -> Phi (w x)) -> Phi (case_hit w sv vs).
Proof.
  induction vs as [|x r IH]; intros H; cbn [case_hit]; [phi_leaf|].
  phi_bind; [apply sphi_eval; apply H; left; reflexivity|].
  destruct (equals sv x0); [phi_leaf | apply IH; intros y Hy; apply H; right; exact Hy].
Qed.

Lemma sphi_switch_cases sv cs : (forall x, In x (flat_map case_subs cs) -> Phi (w x)) -> Phi (switch_cases w sv cs).
Proof.
  induction cs as [|c r IH]; intros H; cbn [switch_cases]; [phi_leaf|].
  assert (Hr : Phi (switch_cases w sv r)).
  { apply IH. intros y Hy. apply H. apply in_flat_map_tl. exact Hy. }
  destruct c; try phi_leaf.
  phi_bind.
  - apply sphi_case_hit. intros y Hy. apply H. apply in_flat_map_hd. cbn [case_subs]. apply in_or_app. left. exact Hy.
  - destruct (x || _); [|exact Hr].
    phi_bind; [apply H; apply in_flat_map_hd; cbn [case_subs]; apply in_or_app; right; left; reflexivity | phi_leaf].
Qed.

Lemma sphi_call_params ps : (forall x, In x (flat_map param_subs ps) -> Phi (w x)) -> forall cd, Phi (call_params w ps cd).
Proof.
  induction ps as [|p r IH]; intros H cd; cbn [call_params]; [phi_leaf|].
  assert (Hr : forall cd, Phi (call_params w r cd)).
  { apply IH. intros y Hy. apply H. apply in_flat_map_tl. exact Hy. }
  destruct p; try phi_leaf.
  - phi_bind; [apply sphi_eval; apply H; apply in_flat_map_hd; left; reflexivity | apply Hr].
  - phi_bind; [apply sphi_render_block; apply H; apply in_flat_map_hd; left; reflexivity | apply Hr].
Qed.

Lemma sphi_call_data alldata dat : (forall x, In x (opt_list dat) -> Phi (w x)) -> Phi (call_data w alldata dat).
Proof.
  intros H. unfold call_data.
  apply (ws_read_ctx L _ (fun c =>
    if alldata then match sc_alldata c with Some s => ret (sc_push s) | None => fail e_impossible end
    else match dat with
         | Some e => dv <-- eval w e ;;; match dv with VMap id m => ret (sc_push (new_scope id m)) | _ => fail e_notmap end
         | None => ret [fresh_frame]
         end)).
  intros c. destruct alldata.
  - destruct (sc_alldata c); phi_leaf.
  - destruct dat as [e|]; [|phi_leaf].
    phi_bind; [apply sphi_eval; apply H; left; reflexivity|]. destruct x; phi_leaf.
Qed.

Lemma sphi_plural_pick mp i dflt cs :
  Phi (w (NMsg mp 0 [] [] dflt)) -> (forall x, In x (flat_map (plural_case_subs mp) cs) -> Phi (w x)) ->
  Phi (plural_pick w mp i dflt cs).
Proof.
  intros Hd. induction cs as [|c r IH]; intros H; cbn [plural_pick].
  - phi_bind; [exact Hd | phi_leaf].
  - assert (Hr : Phi (plural_pick w mp i dflt r)).
    { apply IH. intros y Hy. apply H. apply in_flat_map_tl. exact Hy. }
    destruct c; try phi_leaf.
    destruct (i =? v)%Z; [|exact Hr].
    phi_bind; [apply H; apply in_flat_map_hd; left; reflexivity | phi_leaf].
Qed.

Lemma sphi_msg_body mp ns : (forall x, In x (flat_map (msg_subs mp) ns) -> Phi (w x)) -> Phi (msg_body w mp ns).
Proof.
  induction ns as [|x r IH]; intros H; cbn [msg_body]; [phi_leaf|].
  assert (Hr : Phi (msg_body w mp r)).
  { apply IH. intros y Hy. apply H. apply in_flat_map_tl. exact Hy. }
  destruct x; try exact Hr.
  - phi_bind; [apply H; apply in_flat_map_hd; left; reflexivity | exact Hr].
  - phi_bind; [apply H; apply in_flat_map_hd; left; reflexivity | exact Hr].
  - phi_bind; [apply sphi_eval; apply H; apply in_flat_map_hd; left; reflexivity|].
    destruct x0; try phi_leaf.
    phi_bind; [|exact Hr].
    apply sphi_plural_pick.
    + apply H. apply in_flat_map_hd. right. left. reflexivity.
    + intros y Hy. apply H. apply in_flat_map_hd. right. right. exact Hy.
Qed.

Lemma sphi_walk_node n :
  Phi (modify (fun st => set_cur st (pos_of n))) ->
  (forall n', In n' (subnodes n) -> Phi (w n')) ->
  (forall callee cd, callee_of cf n = Some callee -> Phi (call_enter w callee cd)) ->
  Phi (walk_node cf w n).
Proof.
  intros Hcur H Hcall.
  destruct n; cbn [walk_node]; try phi_leaf; cbn [subnodes] in H.
  - (* NFunc *) destruct (_ || _); [apply sphi_loop_func | apply sphi_call_func; exact H].
  - (* NListLit *) phi_bind; [apply sphi_eval_list; exact H | phi_leaf].
  - (* NMapLit *) phi_bind; [apply sphi_maplit_items; exact H | phi_leaf].
  - (* NDataRef *)
    phi_bind; [|apply sphi_dataref_access; exact H].
    destruct (bstr_eqb key s_ij); [|phi_leaf]. destruct (c_ij cf); phi_leaf.
  - (* NNot *) phi_bind; [apply sphi_eval; apply H; left; reflexivity | phi_leaf].
  - (* NNeg *) phi_bind; [apply sphi_evaldef; apply H; left; reflexivity|]. destruct x; phi_leaf.
  - (* NBin *)
    assert (H1 : Phi (w n1)) by (apply H; left; reflexivity).
    assert (H2 : Phi (w n2)) by (apply H; right; left; reflexivity).
    destruct op.
    1-5: (phi_bind; [apply sphi_evaldef; exact H1|]; phi_bind; [apply sphi_evaldef; exact H2|]; apply (ws_lift L); apply (pss_arith PS)).
    1-2: (phi_bind; [apply sphi_eval; exact H1|]; phi_bind; [apply sphi_eval; exact H2|]; phi_leaf).
    1-4: (phi_bind; [apply sphi_evaldef; exact H1|]; phi_bind; [apply sphi_evaldef; exact H2|]; apply (ws_lift L); apply (pss_compare PS)).
    + phi_bind; [apply sphi_eval; exact H1|]. destruct (truthy x); [phi_leaf|].
      phi_bind; [apply sphi_eval; exact H2 | phi_leaf].
    + phi_bind; [apply sphi_eval; exact H1|]. destruct (truthy x); [|phi_leaf].
      phi_bind; [apply sphi_eval; exact H2 | phi_leaf].
    + phi_bind; [apply sphi_eval; exact H1|]. destruct (is_nullish x); [apply sphi_eval; exact H2 | phi_leaf].
  - (* NTern *)
    phi_bind; [apply sphi_eval; apply H; left; reflexivity|].
    destruct (truthy x); apply sphi_eval; apply H; [right; left | right; right; left]; reflexivity.
  - (* NList *) apply (ws_scoped L). apply sphi_walk_list. exact H.
  - (* NRawText *) phi_bind; phi_leaf.
  - (* NPrint *)
    phi_bind; [apply H; left; reflexivity|].
    assert (Hrest : Phi (ds <-- print_dirs cf w dirs x ;;;
                         s <-- lift (value_string x) ;;;
                         st <-- get ;;;
                         ws <-- lift (print_writes (mode st) ds s) ;;;
                         _ <-- write_all ws ;;; ret VUndef)).
    { phi_bind; [apply sphi_print_dirs; intros y Hy; apply H; right; exact Hy|].
      phi_bind; [apply (ws_lift L); apply (pss_string PS)|].
      apply (ws_read_mode L _ (fun md => ws <-- lift (print_writes md x0 x1) ;;; _ <-- write_all ws ;;; ret VUndef)).
      intros md. phi_bind; [apply (ws_lift L); apply (pss_print PS)|].
      phi_bind; [apply sphi_write_all | phi_leaf]. }
    destruct x; try exact Hrest. phi_leaf.
  - (* NCss *)
    phi_bind; [|phi_bind; phi_leaf].
    destruct expr as [e|]; [|phi_leaf].
    phi_bind; [apply sphi_eval; apply H; left; reflexivity|].
    phi_bind; [apply (ws_lift L); apply (pss_string PS) | phi_leaf].
  - (* NLog *) phi_bind; [apply sphi_render_block; apply H; left; reflexivity | phi_leaf].
  - (* NIf *) apply sphi_if_conds. exact H.
  - (* NFor *)
    phi_bind; [apply sphi_eval; apply H; left; reflexivity|].
    assert (Hb : Phi (w n2)) by (apply H; right; left; reflexivity).
    destruct x; try phi_leaf.
    destruct l as [|y l'].
    + destruct ifempty as [ie|]; [|phi_leaf].
      phi_bind; [apply H; right; right; left; reflexivity | phi_leaf].
    + set (l := y :: l').
      apply (ws_ext L _ (_ <-- m_push ;;;
                         _ <-- (_ <-- m_set (var ++ s_lastindex) (VInt (Z.of_nat (length l) - 1)) ;;;
                                for_items w var n2 0%Z l) ;;;
                         _ <-- m_pop ;;; ret VUndef)).
      * intros st. apply mbind_ext. intros [] s. apply mbind_assoc.
      * apply (ws_scoped L). phi_bind; [phi_leaf | apply sphi_for_items; exact Hb].
  - (* NSwitch *)
    phi_bind; [apply sphi_eval; apply H; left; reflexivity|].
    apply sphi_switch_cases. intros y Hy. apply H. right. exact Hy.
  - (* NCall *)
    cbn [callee_of] in Hcall.
    destruct (find_template _ name) as [callee|]; [|phi_leaf].
    phi_bind; [apply sphi_call_data; intros y Hy; apply H; apply in_or_app; left; exact Hy|].
    phi_bind; [apply sphi_call_params; intros y Hy; apply H; apply in_or_app; right; exact Hy|].
    phi_bind; [exact Hcur | apply Hcall; reflexivity].
  - (* NLetValue *) phi_bind; [apply sphi_eval; apply H; left; reflexivity|]. phi_bind; phi_leaf.
  - (* NLetContent *) phi_bind; [apply sphi_render_block; apply H; left; reflexivity|]. phi_bind; phi_leaf.
  - (* NMsg *) phi_bind; [apply sphi_msg_body; exact H | phi_leaf].
  - (* NMsgHtmlTag *) phi_bind; phi_leaf.
  - (* NTemplate *) phi_bind; [phi_leaf|]. phi_bind; [apply H; left; reflexivity | phi_leaf].
Qed.

Theorem phi_walk_body_sub n :
  Phi (modify (fun st => set_cur st (pos_of n))) ->
  (forall n', In n' (subnodes n) -> Phi (w n')) ->
  (forall callee cd, callee_of cf n = Some callee -> Phi (call_enter w callee cd)) ->
  Phi (walk_body cf w n).
Proof.
  intros Hcur H Hcall. unfold walk_body. phi_bind; [exact Hcur | apply sphi_walk_node; assumption].
Qed.
End Body.
End Sub.

(* a full walker logic is in particular a sub logic *)
Lemma walker_logic_to_sub Phi pure_ok : walker_logic Phi pure_ok -> walker_logic_sub Phi pure_ok.
Proof.
  intros L. constructor.
  - apply (wl_ext _ _ L). - apply (wl_ret _ _ L). - apply (wl_fail _ _ L). - apply (wl_lift _ _ L).
  - apply (wl_bind _ _ L). - apply (wl_template_mode _ _ L). - apply (wl_write _ _ L).
  - apply (wl_set _ _ L). - apply (wl_lookup _ _ L). - apply (wl_fresh_list _ _ L).
  - apply (wl_fresh_list_or_nil _ _ L). - apply (wl_fresh_map _ _ L). - apply (wl_read_mode _ _ L).
  - apply (wl_read_ctx _ _ L). - apply (wl_scoped _ _ L). - apply (wl_eval _ _ L). - apply (wl_block _ _ L).
Qed.

(* ------------------------------------------------------------------ *)
(* A builder for sub logics of the form "every run relates its initial and
   final state by R, and ends normally or in an allowed fault".  Unlike
   [inv_conditions] of InterpLogic it asks nothing about [set_cur] at an
   arbitrary position: only that [eval]'s restoration of the register to its
   earlier value is harmless ([rc_restore]). *)

Section Rel.
Variable R : mstate -> mstate -> Prop.
Variable allowed : fault -> Prop.

Definition rel_spec {A} (m : M A) : Prop :=
  forall st r st', m st = (r, st') ->
    R st st' /\ match classify r with inl _ => True | inr e => allowed e end.
Definition rel_pure_ok {A} (o : outcome A) : Prop :=
  match classify o with inl _ => True | inr e => allowed e end.

Record rel_conditions : Prop := {
  rc_refl : forall st, R st st;
  rc_trans : forall a b c, R a b -> R b c -> R a c;
  rc_err : forall e, allowed (FErr e);
  rc_mode : forall st m, R st (set_mode st m);
  rc_ctx : forall st c, R st (set_ctx st c);
  rc_bufs : forall st bs, R st (set_bufs st bs);
  rc_out : forall st o cl bl, R st (set_out st o cl bl);
  rc_shared : forall st id, R st (note_shared st id);
  rc_unbound : forall st, R st (bump_unbound st);
  rc_bump_id : forall st, R st (bump_id st);
  rc_restore : forall st st2, R st st2 -> R st (set_cur st2 (cur st));
}.
Hypothesis C : rel_conditions.

Lemma rel_ret {A} (x : A) : rel_spec (ret x).
Proof. intros st r st' H. inversion H; subst. split; [apply (rc_refl C) | exact I]. Qed.
Lemma rel_fail {A} e : rel_spec (@fail A e).
Proof. intros st r st' H. inversion H; subst. split; [apply (rc_refl C) | apply (rc_err C)]. Qed.
Lemma rel_lift {A} (o : outcome A) : rel_pure_ok o -> rel_spec (lift o).
Proof. intros Ho st r st' H. inversion H; subst. split; [apply (rc_refl C) | exact Ho]. Qed.
Lemma rel_bind {A B} (m : M A) (f : A -> M B) : rel_spec m -> (forall x, rel_spec (f x)) -> rel_spec (mbind m f).
Proof.
  intros Hm Hf st r st2 Hb.
  destruct (mbind_inv _ _ _ _ _ Hb) as [(x & st1 & H1 & H2) | (e & H1 & ->)].
  - destruct (Hm _ _ _ H1) as [HR1 _]. destruct (Hf x _ _ _ H2) as [HR2 Ha].
    split; [eapply (rc_trans C); eauto | exact Ha].
  - destruct (Hm _ _ _ H1) as [HR1 Ha]. split; [exact HR1|].
    destruct e; cbn in Ha |- *; exact Ha.
Qed.
Lemma rel_modify f : (forall st, R st (f st)) -> rel_spec (modify f).
Proof. intros Hf st r st' H. inversion H; subst. split; [apply Hf | exact I]. Qed.

Lemma rel_write w : rel_spec (write w).
Proof.
  intros st r st' H. apply write_inv in H. inversion H; subst; cbn [classify].
  - split; [apply (rc_bufs C) | exact I].
  - split; [apply (rc_refl C) | apply (rc_err C)].
  - split; [apply (rc_out C) | apply (rc_err C)].
  - split; [apply (rc_out C) | exact I].
Qed.
Lemma rel_set k v : rel_spec (m_set k v).
Proof.
  intros st r st' H. rewrite m_set_eq in H. destruct (ctx st) as [|f rest].
  - inversion H; subst. split; [apply (rc_refl C) | apply (rc_err C)].
  - inversion H; subst. split; [|exact I]. destruct (f_origin f).
    + eapply (rc_trans C); [apply (rc_shared C) | apply (rc_ctx C)].
    + apply (rc_ctx C).
Qed.
Lemma rel_lookup k : rel_spec (m_lookup k).
Proof.
  intros st r st' H. rewrite m_lookup_eq in H. destruct (sc_lookup (ctx st) k); inversion H; subst.
  - split; [apply (rc_refl C) | exact I].
  - split; [apply (rc_unbound C) | exact I].
Qed.
Lemma rel_fresh_list l : rel_spec (fresh_list l).
Proof.
  intros st r st' H. rewrite fresh_list_eq in H. destruct l; inversion H; subst;
    (split; [first [apply (rc_refl C) | apply (rc_bump_id C)] | exact I]).
Qed.
Lemma rel_fresh_list_or_nil l : rel_spec (fresh_list_or_nil l).
Proof.
  intros st r st' H. rewrite fresh_list_or_nil_eq in H. destruct l; inversion H; subst;
    (split; [first [apply (rc_refl C) | apply (rc_bump_id C)] | exact I]).
Qed.
Lemma rel_fresh_map m : rel_spec (fresh_map m).
Proof. intros st r st' H. inversion H; subst. split; [apply (rc_bump_id C) | exact I]. Qed.

Lemma rel_eval (w : node -> M value) e : rel_spec (w e) -> rel_spec (eval w e).
Proof.
  intros Hw st r st' H. rewrite eval_eq in H.
  destruct (w e st) as [r1 st2] eqn:Hrun. cbn [fst snd] in H.
  destruct (Hw _ _ _ Hrun) as [HR Ha].
  destruct (classify r1) as [x|f]; inversion H; subst.
  - split; [apply (rc_restore C); exact HR | exact I].
  - split; [exact HR|]. rewrite classify_of_fault. exact Ha.
Qed.

Lemma rel_block (w : node -> M value) body : rel_spec (w body) -> rel_spec (render_block w body).
Proof.
  intros Hw st r st' H. rewrite render_block_eq in H.
  destruct (w body (buf_pushed st)) as [r1 st2] eqn:Hrun. cbn [fst snd] in H.
  destruct (Hw _ _ _ Hrun) as [HR Ha].
  assert (HR0 : R st st2) by (eapply (rc_trans C); [apply (rc_bufs C) | exact HR]).
  destruct (classify r1) as [x|f].
  - cbn zeta in H. destruct (bufs st2) as [|buf rest]; inversion H; subst; cbn [classify].
    + split; [exact HR0 | apply (rc_err C)].
    + split; [eapply (rc_trans C); [exact HR0 | apply (rc_bufs C)] | exact I].
  - inversion H; subst. split; [exact HR0|]. rewrite classify_of_fault. exact Ha.
Qed.

Theorem rel_logic_sub : walker_logic_sub (@rel_spec) (@rel_pure_ok).
Proof.
  constructor.
  - intros A m m' Heq Hm st r st' H. rewrite <- Heq in H. eapply Hm; eauto.
  - intros; apply rel_ret.
  - intros; apply rel_fail.
  - intros; apply rel_lift; assumption.
  - intros; apply rel_bind; assumption.
  - intros ae. apply rel_modify. intros st. apply (rc_mode C).
  - apply rel_write.
  - apply rel_set.
  - apply rel_lookup.
  - apply rel_fresh_list.
  - apply rel_fresh_list_or_nil.
  - apply rel_fresh_map.
  - intros B f Hf st r st' H. change ((st <-- get ;;; f (mode st)) st) with (f (mode st) st) in H. eapply Hf; eauto.
  - intros B f Hf st r st' H. change ((st <-- get ;;; f (ctx st)) st) with (f (ctx st) st) in H. eapply Hf; eauto.
  - intros m Hm. apply rel_bind; [apply rel_modify; intros st; apply (rc_ctx C)|]. intros _.
    apply rel_bind; [exact Hm|]. intros _.
    apply rel_bind; [apply rel_modify; intros st; apply (rc_ctx C)|]. intros _. apply rel_ret.
  - apply rel_eval.
  - apply rel_block.
Qed.
End Rel.
