(* C02 composed with C01, part 2: an expression node that [of_node] reads back
   as the Spec expression [x] is evaluated by Spec/Cmd.v exactly like
   [to_node [] x] (positions and quoted source text carry no meaning), and --
   through the walker: exec_impl_spec's expression clause, the fuel monotonicity
   of the walker (C06) and C01's eval_impl_spec -- in agreement with
   Spec/Expr.v's eval_spec. *)
From Coq Require Import Lia.
From Soy Require Import Model.Bytes Model.Num Model.Values Model.Outcome Model.Ast
  Model.Escape Model.Directives Model.Print Generated.Tables Model.Interp Model.ExprTrans
  Spec.Expr Spec.Cmd Spec.CmdIndep
  Proofs.InterpLogic Proofs.ValueProofs Proofs.ScopeRel Proofs.ScopeExprProofs Proofs.ScopeProofs
  Proofs.ScopeIndepProofs Proofs.EvalProofs Proofs.EvalMainProofs Proofs.EvalSyntaxProofs Proofs.EvalTotalProofs
  Proofs.EvalFuncProofs Proofs.SafetyMono.
Open Scope N_scope.

Lemma mapM_forall2 {A B} (f : A -> option B) l : forall ys,
  mapM f l = Some ys -> Forall2 (fun a y => f a = Some y) l ys.
Proof.
  induction l as [|a l IH]; intros ys H; cbn [mapM] in H.
  - inversion H. constructor.
  - destruct (f a) as [y|] eqn:E; [|discriminate]. destruct (mapM f l) as [ys'|]; [|discriminate].
    inversion H; subst. constructor; [exact E | apply IH; reflexivity].
Qed.

Lemma Forall2_impl_in {A B} (P Q : A -> B -> Prop) l ys :
  Forall2 P l ys -> (forall a y, In y ys -> P a y -> Q a y) -> Forall2 Q l ys.
Proof.
  induction 1 as [|a y l ys Hp Hf IH]; intros HQ; constructor.
  - apply HQ; [left; reflexivity | exact Hp].
  - apply IH. intros a' y' Hin. apply HQ. right. exact Hin.
Qed.

Lemma Forall2_length {A B} (P : A -> B -> Prop) l ys : Forall2 P l ys -> length l = length ys.
Proof. induction 1; cbn; congruence. Qed.

Lemma ebind_ext {A B} (e1 e2 : E A) (k1 k2 : A -> E B) :
  (forall n, e1 n = e2 n) -> (forall x n, k1 x n = k2 x n) -> forall n, ebind e1 k1 n = ebind e2 k2 n.
Proof.
  intros He Hk n. unfold ebind, bind. rewrite He. destruct (e2 n) as [[x n']| | | | | ]; try reflexivity. apply Hk.
Qed.

Lemma fn_of_name_sound name f : fn_of_name name = Some f -> fn_name f = name.
Proof.
  unfold fn_of_name. intros H. apply find_some in H. destruct H as [_ H].
  destruct (bstr_eqb_spec (fn_name f) name); [assumption | discriminate].
Qed.

Lemma bop_of_sound op o : bop_of op = Some o -> binop_of o = op.
Proof. destruct op; cbn; intros H; inversion H; reflexivity. Qed.

Lemma distinct_keys_eq ks : distinct_keys ks = ExprTrans.distinct ks.
Proof. induction ks as [|k r IH]; cbn; [reflexivity | rewrite IH; reflexivity]. Qed.

Section Pos.
Variable cf : cfg.

(* one level: the children agree => the lists agree *)
Section Level.
Variable l : level.
Variable en : env.

Definition same_eval (a : node) (y : expr) : Prop :=
  forall nid, l_eval l en a nid = l_eval l en (to_node [] y) nid.

Lemma ev_list_pos items xs : Forall2 same_eval items xs ->
  forall nid, ev_list l en items nid = ev_list l en (map (to_node []) xs) nid.
Proof.
  induction 1 as [|a y items xs Hp Hf IH]; intros nid; cbn [ev_list map]; [reflexivity|].
  apply ebind_ext; [exact Hp|]. intros v n. apply ebind_ext; [exact IH | reflexivity].
Qed.

Lemma maplit_pos (items : list (bstr * node)) (kvs : list (bstr * expr)) :
  Forall2 (fun kv ky => fst ky = fst kv /\ same_eval (snd kv) (snd ky)) items kvs ->
  forall nid, maplit_spec l en items nid =
              maplit_spec l en (map (fun kv => (fst kv, to_node [] (snd kv))) kvs) nid.
Proof.
  induction 1 as [|[k a] [k' y] items kvs [Hk Hp] Hf IH]; intros nid; cbn [maplit_spec map fst snd]; [reflexivity|].
  cbn [fst snd] in Hk, Hp. subst k'.
  apply ebind_ext; [exact Hp|]. intros v n. apply ebind_ext; [exact IH | reflexivity].
Qed.

Definition same_acc (a : node) (y : access) : Prop :=
  match y with
  | AKey ns k => exists p, a = NAccKey p ns k
  | AIdx ns i => exists p, a = NAccIndex p ns i
  | AExpr ns e => exists p a', a = NAccExpr p ns a' /\ same_eval a' e
  end.

Lemma access_pos accs ys : Forall2 same_acc accs ys ->
  forall ref nid, access_spec l en accs ref nid = access_spec l en (map (acc_node []) ys) ref nid.
Proof.
  induction 1 as [|a y accs ys Hp Hf IH]; intros ref nid; cbn [access_spec map]; [reflexivity|].
  destruct y as [ns k|ns i|ns e]; cbn [same_acc acc_node] in Hp |- *.
  - destruct Hp as [p ->]. apply ebind_ext; [reflexivity|]. intros [oi k0] n.
    destruct ref; try reflexivity; cbn [is_nullsafe]; try reflexivity.
    + destruct oi; [apply IH | reflexivity].
    + destruct oi; [reflexivity | apply IH].
  - destruct Hp as [p ->]. apply ebind_ext; [reflexivity|]. intros [oi k0] n.
    destruct ref; try reflexivity; cbn [is_nullsafe]; try reflexivity.
    + destruct oi; [apply IH | reflexivity].
    + destruct oi; [reflexivity | apply IH].
  - destruct Hp as (p & a' & -> & Hs). apply ebind_ext.
    + intros n. apply ebind_ext; [exact Hs | reflexivity].
    + intros [oi k0] n.
      destruct ref; try reflexivity; cbn [is_nullsafe]; try reflexivity.
      * destruct oi; [apply IH | reflexivity].
      * destruct oi; [reflexivity | apply IH].
Qed.
End Level.

Definition pos_ok (n : node) (x : expr) : Prop :=
  ExprTrans.wf_expr [] x = true /\ wf KExpr (to_node [] x) = true /\
  forall f en nid, l_eval (spec_level cf f) en n nid = l_eval (spec_level cf f) en (to_node [] x) nid.

Lemma level_S f en n nid : l_eval (spec_level cf (S f)) en n nid = eval_body cf (spec_level cf f) en n nid.
Proof. reflexivity. Qed.

Lemma forallb_Forall2_r {A B} (P : A -> B -> Prop) (g : B -> bool) l ys :
  Forall2 P l ys -> (forall a y, P a y -> g y = true) -> forallb g ys = true.
Proof. induction 1 as [|a y l ys Hp Hf IH]; intros H'; cbn; [reflexivity|]. rewrite (H' _ _ Hp), IH; auto. Qed.

Lemma forallb_map_Forall2 {A B C} (P : A -> B -> Prop) (h : B -> C) (g : C -> bool) l ys :
  Forall2 P l ys -> (forall a y, P a y -> g (h y) = true) -> forallb g (map h ys) = true.
Proof. induction 1 as [|a y l ys Hp Hf IH]; intros H'; cbn; [reflexivity|]. rewrite (H' _ _ Hp), IH; auto. Qed.

Lemma option_map_some {A B} (g : A -> B) o y : option_map g o = Some y -> exists a, o = Some a /\ y = g a.
Proof. destruct o as [a|]; cbn; intros H; inversion H. exists a. split; reflexivity. Qed.

Lemma evdef_pos l en a y : same_eval l en a y -> forall nid, evdef l en a nid = evdef l en (to_node [] y) nid.
Proof. intros H nid. unfold evdef. apply ebind_ext; [exact H | reflexivity]. Qed.

Lemma of_node_pos : forall k n x, of_node n = Some x -> (height x <= k)%nat -> pos_ok n x.
Proof.
  induction k as [|k IH]; intros n x Hof Hh.
  { pose proof (EvalMainProofs.height_pos x). lia. }
  destruct n; cbn [of_node] in Hof; try discriminate Hof.
  - (* NNull *) inversion Hof; subst. split; [reflexivity|]. split; [reflexivity|]. intros [|f0]; reflexivity.
  - inversion Hof; subst. split; [reflexivity|]. split; [reflexivity|]. intros [|f0]; reflexivity.
  - inversion Hof; subst. split; [reflexivity|]. split; [reflexivity|]. intros [|f0]; reflexivity.
  - inversion Hof; subst. split; [reflexivity|]. split; [reflexivity|]. intros [|f0]; reflexivity.
  - inversion Hof; subst. split; [reflexivity|]. split; [reflexivity|]. intros [|f0]; reflexivity.
  - (* NFunc *)
    destruct (fn_of_name name) as [fnn|] eqn:Efn; [|discriminate].
    apply option_map_some in Hof. destruct Hof as (xs & Em & ->).
    apply mapM_forall2 in Em. cbn [height] in Hh.
    assert (Hch : Forall2 pos_ok args xs).
    { eapply Forall2_impl_in; [exact Em|]. intros a y Hin Ha. apply IH; [exact Ha|].
      eapply (max_list_in_g height); eassumption. }
    split; [|split].
    + cbn [ExprTrans.wf_expr]. eapply forallb_Forall2_r; [exact Hch|]. intros a y [H _]; exact H.
    + cbn [to_node wf]. eapply forallb_map_Forall2; [exact Hch|]. intros a y (_ & H & _); exact H.
    + intros [|f0] en nid; [reflexivity|]. rewrite !level_S. cbn [to_node eval_body].
      rewrite (fn_of_name_sound _ _ Efn).
      pose proof (fn_not_loop fnn) as Hn. rewrite (fn_of_name_sound _ _ Efn) in Hn. rewrite Hn.
      unfold call_func_spec. rewrite map_length, <- (Forall2_length _ _ _ Hch).
      destruct (func_arities name) as [ar|]; [|reflexivity].
      destruct (negb (mem (N.of_nat (length args)) ar)); [reflexivity|].
      apply ebind_ext; [|reflexivity].
      apply ev_list_pos. eapply Forall2_impl_in; [exact Hch|]. intros a y _ (_ & _ & H) n. apply H.
  - (* NListLit *)
    apply option_map_some in Hof. destruct Hof as (xs & Em & ->).
    apply mapM_forall2 in Em. cbn [height] in Hh.
    assert (Hch : Forall2 pos_ok items xs).
    { eapply Forall2_impl_in; [exact Em|]. intros a y Hin Ha. apply IH; [exact Ha|].
      eapply (max_list_in_g height); eassumption. }
    split; [|split].
    + cbn [ExprTrans.wf_expr]. eapply forallb_Forall2_r; [exact Hch|]. intros a y [H _]; exact H.
    + cbn [to_node wf]. eapply forallb_map_Forall2; [exact Hch|]. intros a y (_ & H & _); exact H.
    + intros [|f0] en nid; [reflexivity|]. rewrite !level_S. cbn [to_node eval_body].
      apply ebind_ext; [|reflexivity].
      apply ev_list_pos. eapply Forall2_impl_in; [exact Hch|]. intros a y _ (_ & _ & H) n. apply H.
  - (* NMapLit *)
    destruct (distinct_keys (map fst items)) eqn:Ed; [|discriminate].
    apply option_map_some in Hof. destruct Hof as (kvs & Em & ->).
    apply mapM_forall2 in Em. cbn [height] in Hh.
    assert (Hch : Forall2 (fun kv ky => fst ky = fst kv /\ pos_ok (snd kv) (snd ky)) items kvs).
    { eapply Forall2_impl_in; [exact Em|]. intros kv ky Hin Ha.
      apply option_map_some in Ha. destruct Ha as (y & Ha & ->). cbn [fst snd]. split; [reflexivity|].
      apply IH; [exact Ha|].
      exact (max_list_in_g (fun kv => height (snd kv)) kvs (fst kv, y) k Hh Hin). }
    assert (Hkeys : map fst kvs = map fst items).
    { clear - Hch. induction Hch as [|kv ky l ys [Hk _] _ IH']; cbn; [reflexivity|]. rewrite Hk, IH'. reflexivity. }
    split; [|split].
    + cbn [ExprTrans.wf_expr]. rewrite Hkeys, <- distinct_keys_eq, Ed. cbn [andb].
      eapply forallb_Forall2_r; [exact Hch|]. intros a y [_ [H _]]; exact H.
    + cbn [to_node wf].
      eapply forallb_map_Forall2; [exact Hch|]. intros a y [_ (_ & H & _)]; exact H.
    + intros [|f0] en nid; [reflexivity|]. rewrite !level_S. cbn [to_node eval_body].
      apply ebind_ext; [|reflexivity].
      apply maplit_pos. eapply Forall2_impl_in; [exact Hch|]. intros a y _ [Hk (_ & _ & H)]. split; [exact Hk|].
      intros n. apply H.
  - (* NDataRef *)
    apply option_map_some in Hof. destruct Hof as (ys & Em & ->).
    apply mapM_forall2 in Em.
    assert (Hh' : (S (max_list (map acc_height ys)) <= S k)%nat).
    { destruct (bstr_eqb key s_ij); exact Hh. }
    assert (Hch : Forall2 (fun a y => wf_access [] y = true /\ wf KAccess (acc_node [] y) = true /\
                             forall f en, same_acc (spec_level cf f) en a y) access ys).
    { eapply Forall2_impl_in; [exact Em|]. intros a y Hin Ha.
      destruct a; try discriminate Ha.
      - inversion Ha; subst y. split; [reflexivity|]. split; [reflexivity|]. intros f0 en0. eexists; reflexivity.
      - inversion Ha; subst y. split; [reflexivity|]. split; [reflexivity|]. intros f0 en0. eexists; reflexivity.
      - apply option_map_some in Ha. destruct Ha as (e & Ha & ->).
        pose proof (max_list_in_g acc_height ys (AExpr nullsafe e) k Hh' Hin) as He. cbn [acc_height] in He.
        destruct (IH a e Ha He) as (H1 & H2 & H3).
        split; [exact H1|]. split; [exact H2|]. intros f0 en0. exists p0, a. split; [reflexivity|].
        intros nid. apply H3. }
    assert (Hev : forall f0 en ref nid,
              access_spec (spec_level cf f0) en access ref nid =
              access_spec (spec_level cf f0) en (map (acc_node []) ys) ref nid).
    { intros f0 en ref nid. apply access_pos. eapply Forall2_impl_in; [exact Hch|].
      intros a y _ (_ & _ & H). apply H. }
    destruct (bstr_eqb key s_ij) eqn:Ek.
    + destruct (bstr_eqb_spec key s_ij) as [->|]; [|discriminate].
      split; [|split].
      * cbn [ExprTrans.wf_expr]. eapply forallb_Forall2_r; [exact Hch|]. intros a y [H _]; exact H.
      * cbn [to_node wf]. eapply forallb_map_Forall2; [exact Hch|]. intros a y (_ & H & _); exact H.
      * intros [|f0] en nid; [reflexivity|]. rewrite !level_S. cbn [to_node eval_body].
        apply ebind_ext; [reflexivity|]. intros ref n. apply Hev.
    + split; [|split].
      * cbn [ExprTrans.wf_expr]. rewrite Ek. cbn [negb andb].
        eapply forallb_Forall2_r; [exact Hch|]. intros a y [H _]; exact H.
      * cbn [to_node wf]. eapply forallb_map_Forall2; [exact Hch|]. intros a y (_ & H & _); exact H.
      * intros [|f0] en nid; [reflexivity|]. rewrite !level_S. cbn [to_node eval_body].
        apply ebind_ext; [reflexivity|]. intros ref n. apply Hev.
  - (* NNot *)
    apply option_map_some in Hof. destruct Hof as (y & Ey & ->). cbn [height] in Hh.
    destruct (IH n y Ey ltac:(lia)) as (H1 & H2 & H3).
    split; [exact H1|]. split; [exact H2|].
    intros [|f0] en nid; [reflexivity|]. rewrite !level_S. cbn [to_node eval_body].
    apply ebind_ext; [intros; apply H3 | reflexivity].
  - (* NNeg *)
    apply option_map_some in Hof. destruct Hof as (y & Ey & ->). cbn [height] in Hh.
    destruct (IH n y Ey ltac:(lia)) as (H1 & H2 & H3).
    split; [exact H1|]. split; [exact H2|].
    intros [|f0] en nid; [reflexivity|]. rewrite !level_S. cbn [to_node eval_body].
    apply ebind_ext; [|reflexivity]. apply evdef_pos. intros n0. apply H3.
  - (* NBin *)
    destruct (of_node n1) as [y1|] eqn:E1; [|discriminate].
    destruct (of_node n2) as [y2|] eqn:E2; [|discriminate].
    assert (Hhh : (height y1 <= k /\ height y2 <= k)%nat).
    { destruct (bop_of op); inversion Hof; subst x; cbn [height] in Hh; lia. }
    destruct (IH n1 y1 E1 (proj1 Hhh)) as (A1 & A2 & A3).
    destruct (IH n2 y2 E2 (proj2 Hhh)) as (B1 & B2 & B3).
    assert (Hs1 : forall f0 en, same_eval (spec_level cf f0) en n1 y1) by (intros f0 en nid; apply A3).
    assert (Hs2 : forall f0 en, same_eval (spec_level cf f0) en n2 y2) by (intros f0 en nid; apply B3).
    assert (Hto : to_node [] x = NBin op 0 (to_node [] y1) (to_node [] y2)).
    { destruct (bop_of op) as [o|] eqn:Eo; inversion Hof; subst x; cbn [to_node].
      - rewrite (bop_of_sound _ _ Eo). reflexivity.
      - destruct op; try discriminate Eo. reflexivity. }
    split; [|split].
    + destruct (bop_of op); inversion Hof; subst x; cbn [ExprTrans.wf_expr]; rewrite A1, B1; reflexivity.
    + rewrite Hto. cbn [wf]. rewrite A2, B2. reflexivity.
    + intros [|f0] en nid; [reflexivity|]. rewrite Hto, !level_S. cbn [eval_body].
      destruct op;
        try (apply ebind_ext; [apply evdef_pos, Hs1 | intros ? ?; apply ebind_ext; [apply evdef_pos, Hs2 | reflexivity]]);
        try (apply ebind_ext; [apply Hs1 | intros ? ?; apply ebind_ext; [apply Hs2 | reflexivity]]).
      * (* OOr *) apply ebind_ext; [apply Hs1|]. intros v n. destruct (truthy v); [reflexivity|].
        apply ebind_ext; [apply Hs2 | reflexivity].
      * (* OAnd *) apply ebind_ext; [apply Hs1|]. intros v n. destruct (truthy v); [|reflexivity].
        apply ebind_ext; [apply Hs2 | reflexivity].
      * (* OElvis *) apply ebind_ext; [apply Hs1|]. intros v n. destruct (is_nullish v); [apply Hs2 | reflexivity].
  - (* NTern *)
    destruct (of_node n1) as [y1|] eqn:E1; [|discriminate].
    destruct (of_node n2) as [y2|] eqn:E2; [|discriminate].
    destruct (of_node n3) as [y3|] eqn:E3; [|discriminate].
    inversion Hof; subst x. cbn [height] in Hh.
    destruct (IH n1 y1 E1 ltac:(lia)) as (A1 & A2 & A3).
    destruct (IH n2 y2 E2 ltac:(lia)) as (B1 & B2 & B3).
    destruct (IH n3 y3 E3 ltac:(lia)) as (C1 & C2 & C3).
    split; [|split].
    + cbn [ExprTrans.wf_expr]. rewrite A1, B1, C1. reflexivity.
    + cbn [to_node wf]. rewrite A2, B2, C2. reflexivity.
    + intros [|f0] en nid; [reflexivity|]. rewrite !level_S. cbn [to_node eval_body].
      apply ebind_ext; [intros; apply A3|]. intros v n. destruct (truthy v); [apply B3 | apply C3].
Qed.

Lemma of_node_pos_ok n x : of_node n = Some x -> pos_ok n x.
Proof. intros H. exact (of_node_pos (height x) n x H (le_n _)). Qed.

(* ------------------------------------------------------------------ *)
(* through the walker: Spec/Cmd.v's expression clause against Spec/Expr.v *)

Lemma expr_bridge f en n nid x :
  wf_registry (c_reg cf) = true -> of_node n = Some x ->
  cagree (sE (l_eval (spec_level cf f) en n) nid) (sE (Expr.eval_spec [] en (c_ij cf) x) nid).
Proof.
  intros Hreg Hof. destruct (of_node_pos_ok n x Hof) as (Hwx & Hwk & Hpos).
  unfold cagree, sE. cbn [fst snd]. rewrite Hpos.
  set (e' := to_node [] x) in *.
  set (st := init_state [{| f_vars := en; f_entered := true; f_origin := OFresh |}] 0 [] None None nid).
  assert (Hfl : ExprTrans.flatten (ctx st) = en) by (cbn; apply app_nil_r).
  assert (Hg : good st) by (split; reflexivity).
  assert (Hen : env_eq en (ScopeRel.flatten (ctx st))) by (cbn; rewrite app_nil_r; apply env_eq_refl).
  pose proof (ok_expr _ _ (walk_sim cf f Hreg) e' st en Hwk Hg Hen) as Hsim.
  change (next_id st) with nid in Hsim.
  set (F := Nat.max f (height x)).
  assert (HF : (height x <= F)%nat) by (unfold F; lia).
  pose proof (eval_impl_spec [] (c_ij cf) cf F x st eq_refl Hwx HF) as HH. destruct HH as [HOk HErr].
  rewrite Hfl in HOk, HErr. change (next_id st) with nid in HOk, HErr.
  unfold rel in Hsim. cbn [sE fst snd] in Hsim.
  destruct (walk cf f e' st) as [r s1] eqn:Ew. cbn [fst snd] in Hsim.
  assert (Hmono : r <> OutOfFuel -> walk cf F (to_node [] x) st = (r, s1)).
  { intros Hr. apply (walk_fuel_monotone cf f F e' st r s1); [unfold F; lia | exact Ew | exact Hr]. }
  destruct (l_eval (spec_level cf f) en e' nid) as [[y n1]|m|m| | |] eqn:El; cbn [classify] in Hsim;
    try (left; reflexivity).
  - (* the fuelled Spec has a value *)
    destruct Hsim as (x0 & -> & _ & _ & Hn1 & [-> _]).
    specialize (Hmono ltac:(discriminate)).
    destruct (eval_spec_trichotomy [] en (c_ij cf) x nid) as [(v & n' & E) | [(m & E) | E]]; rewrite E.
    + destruct (HOk v n' E) as (st' & Hw & _ & Hn'). rewrite Hw in Hmono. injection Hmono as Hv Hs.
      right; right. split; [reflexivity|]. cbn. rewrite <- Hn1, <- Hn'. congruence.
    + destruct (HErr m E) as (msg & st' & Hw & _). rewrite Hw in Hmono. discriminate Hmono.
    + right; left; reflexivity.
  - (* Err *)
    destruct Hsim as [-> _]. cbn [of_fault] in Hmono. specialize (Hmono ltac:(discriminate)).
    destruct (eval_spec_trichotomy [] en (c_ij cf) x nid) as [(v & n' & E) | [(m' & E) | E]]; rewrite E.
    + destruct (HOk v n' E) as (st' & Hw & _). rewrite Hw in Hmono. discriminate Hmono.
    + right; right. split; [reflexivity | exact I].
    + right; left; reflexivity.
  - (* Crash *)
    destruct Hsim as [-> _]. cbn [of_fault] in Hmono. specialize (Hmono ltac:(discriminate)).
    destruct (eval_spec_trichotomy [] en (c_ij cf) x nid) as [(v & n' & E) | [(m' & E) | E]]; rewrite E.
    + destruct (HOk v n' E) as (st' & Hw & _). rewrite Hw in Hmono. discriminate Hmono.
    + destruct (HErr m' E) as (msg & st' & Hw & _). rewrite Hw in Hmono. discriminate Hmono.
    + right; left; reflexivity.
  - (* Diverge *)
    destruct Hsim as [-> _]. cbn [of_fault] in Hmono. specialize (Hmono ltac:(discriminate)).
    destruct (eval_spec_trichotomy [] en (c_ij cf) x nid) as [(v & n' & E) | [(m' & E) | E]]; rewrite E.
    + destruct (HOk v n' E) as (st' & Hw & _). rewrite Hw in Hmono. discriminate Hmono.
    + destruct (HErr m' E) as (msg & st' & Hw & _). rewrite Hw in Hmono. discriminate Hmono.
    + right; left; reflexivity.
  - (* OutOfModel *)
    destruct Hsim as [-> _]. cbn [of_fault] in Hmono. specialize (Hmono ltac:(discriminate)).
    destruct (eval_spec_trichotomy [] en (c_ij cf) x nid) as [(v & n' & E) | [(m' & E) | E]]; rewrite E.
    + destruct (HOk v n' E) as (st' & Hw & _). rewrite Hw in Hmono. discriminate Hmono.
    + destruct (HErr m' E) as (msg & st' & Hw & _). rewrite Hw in Hmono. discriminate Hmono.
    + right; left; reflexivity.
Qed.

(* ------------------------------------------------------------------ *)
(* every level of the two Specs agrees *)

Theorem indep_levels_agree : wf_registry (c_reg cf) = true ->
  forall f, lv_agree (spec_level cf f) (indep_level cf f).
Proof.
  intros Hreg. induction f as [|f IH].
  - split; [|split]; intros; try apply cagree_refl.
    rewrite indep_level_0. cbn [indep0 l_eval]. unfold eval_indep. destruct (of_node e); [left; reflexivity | apply cagree_refl].
  - rewrite indep_level_S. split; [|split].
    + intros en e n. cbn [indep_next l_eval]. unfold eval_indep.
      destruct (of_node e) as [x|] eqn:Ho; [apply (expr_bridge (S f)); assumption | apply cagree_refl].
    + intros entry en md c n. apply (exec_body_agree cf _ _ IH).
    + intros entry en md c n. apply (let_body_agree _ _ IH).
Qed.
End Pos.

(* ------------------------------------------------------------------ *)
(* the render theorem against the composed Spec *)

(* what the model's outcome is, given the composed Spec's: the same class; a
   Spec error may surface as the LineNumber slice panic inside errRecover (C19) *)
Definition outcome_class_agrees (m s : outcome unit) : Prop :=
  match s with
  | Ok _ => m = Ok tt
  | Err _ => (exists e, m = Err e) \/ m = Crash Interp.e_index
  | Crash c => m = Crash c
  | Diverge => m = Diverge
  | OutOfFuel => m = OutOfFuel
  | OutOfModel => m = OutOfModel
  end.

Theorem exec_impl_spec_indep_lemma cf fuel name data_id data first_id :
  wf_registry (c_reg cf) = true ->
  let r := render cf fuel name data_id data None None first_id in
  let s := render_spec_indep cf fuel name data first_id in
  rr_outcome r = OutOfFuel \/ sr_outcome s = OutOfModel \/
  (concat_b (rr_writes r) = sr_out s /\ outcome_class_agrees (rr_outcome r) (sr_outcome s)).
Proof.
  intros Hreg. cbv zeta.
  pose proof (exec_impl_spec_lemma cf fuel name data_id data first_id Hreg) as H. cbv zeta in H.
  destruct H as [Hb Ho].
  unfold render_spec_indep, render_spec in *.
  destruct (find_template (r_templates (c_reg cf)) name) as [t|] eqn:Ef.
  2:{ right; right. cbn [sr_out sr_outcome] in *. split; [exact Hb|].
      destruct Ho as [-> | (e & He & ->)]; [left; eexists; reflexivity | right; reflexivity]. }
  pose proof (proj1 (proj2 (indep_levels_agree cf Hreg fuel)) data data (entry_mode (t_ns_autoescape t)) (t_node t) first_id) as Ha.
  unfold exec_spec, exec_spec_indep in *.
  destruct (l_exec (spec_level cf fuel) data data (entry_mode (t_ns_autoescape t)) (t_node t) first_id) as [o1 r1].
  destruct (l_exec (indep_level cf fuel) data data (entry_mode (t_ns_autoescape t)) (t_node t) first_id) as [o2 r2].
  cbn [sr_out sr_outcome] in *. unfold cagree in Ha. cbn [fst snd] in Ha.
  destruct Ha as [-> | [-> | [-> Hc]]].
  - left. cbn [recast] in Ho. destruct Ho as [-> | (e & He & _)]; [reflexivity | discriminate He].
  - right; left. reflexivity.
  - right; right. split; [exact Hb|].
    destruct r1 as [[[] n1]|m1|m1| | |], r2 as [[[] n2]|m2|m2| | |]; cbn in Hc; try contradiction; cbn [recast outcome_class_agrees] in *.
    + destruct Ho as [-> | (e & He & _)]; [reflexivity | discriminate He].
    + destruct Ho as [-> | (e & He & ->)]; [left; eexists; reflexivity | right; reflexivity].
    + subst m2. destruct Ho as [-> | (e & He & _)]; [reflexivity | discriminate He].
    + destruct Ho as [-> | (e & He & _)]; [reflexivity | discriminate He].
    + destruct Ho as [-> | (e & He & _)]; [reflexivity | discriminate He].
Qed.
