(* C19, parse half: WHICH item a parse error is reported at.

   The parser sees the items the scanner sends, in order, followed by the zero items of the closed
   channel: [itm ts k] is the k-th item received (k = 0: the zero value token[0] holds before the
   first receive).  The invariant [W ts p] ties the token plumbing of Model/Token.v to that list:
       rest = the items not yet received,  token[0] = the item received last,
       peekCount <= 2,  and token[1] = the item received before the last whenever peekCount = 2.
   [B] (the state right after a next(): a backup is allowed) adds: peekCount = 0, or peekCount = 1
   and token[1] is still the item before the last.

   Theorem (one pass over every procedure of Model/ExprParser.v and Model/Parser.v, i.e. over every
   errorf / unexpected / expect site): an error is reported at the item received LAST or at the one
   received JUST BEFORE it ([werr]) -- the parser never complains about an item further back, nor
   about one it has not read.  Errors of a quoted attribute expression are reported at the last or
   last-but-one item its own scanner delivered ([qerr]). *)
From Soy Require Import Model.Bytes Model.Utf8 Model.Outcome Model.Num Model.Values Model.Ast Model.Token
  Model.NumLit Model.Quote Model.RawText Model.ExprParser Model.Parser Generated.Tables.
From Coq Require Import Lia List.
Import ListNotations.
Open Scope N_scope.

(* the k-th item received from the scanner's channel *)
Definition itm (ts : list tok) (k : nat) : tok :=
  match k with O => zero_tok | S i => nth i ts zero_tok end.

Lemma skipn_nil_S {A} n : forall (l : list A), skipn n l = [] -> skipn (S n) l = [].
Proof. induction n as [|n IH]; intros [|a l] H; cbn in *; auto; try discriminate. Qed.
Lemma skipn_nil_nth {A} n : forall (l : list A) d, skipn n l = [] -> nth n l d = d.
Proof. induction n as [|n IH]; intros [|a l] d H; cbn in *; auto; try discriminate. Qed.
Lemma skipn_cons_S {A} n : forall (l : list A) a r, skipn n l = a :: r -> skipn (S n) l = r /\ forall d, nth n l d = a.
Proof.
  induction n as [|n IH]; intros [|x l] a r H; cbn in *; try discriminate.
  - inversion H; subst. split; auto.
  - apply IH in H. exact H.
Qed.

Section Win.
Variable ts : list tok.

Definition v1 (p : pst) : Prop := p_tok1 p = itm ts (p_recv p - 1)%nat.
Record W (p : pst) : Prop := {
  w_rest : p_rest p = skipn (p_recv p) ts;
  w_t0 : p_tok0 p = itm ts (p_recv p);
  w_peek : (p_peek p <= 2)%nat;
  w_t1 : p_peek p = 2%nat -> v1 p }.
Definition B (p : pst) : Prop := W p /\ (p_peek p = 0%nat \/ (p_peek p = 1%nat /\ v1 p)).
(* the item the last next() returned *)
Definition cur (p : pst) : tok := tok_at p (p_peek p).
(* reported at the item received last, or at the one before *)
Definition werr (t : tok) (p : pst) : Prop := t = itm ts (p_recv p) \/ t = itm ts (p_recv p - 1)%nat.
(* [t] was returned by the next() before the last one, and nothing is backed up *)
Definition prev (t : tok) (p : pst) : Prop := W p /\ p_peek p = 0%nat /\ t = itm ts (p_recv p - 1)%nat.

Lemma W_init : W (pst_init ts).
Proof. constructor; cbn; auto; try lia. Qed.

Lemma B_W p : B p -> W p. Proof. intros [H _]; exact H. Qed.

Lemma next_B p t p1 : p_next p = (t, p1) -> W p -> B p1 /\ t = cur p1.
Proof.
  intros E [Hr H0 Hpk H1]. destruct p as [rest t0 t1 pk rc]. unfold v1 in *.
  cbn [p_rest p_tok0 p_tok1 p_peek p_recv] in *. unfold p_next in E. cbn [p_peek] in E.
  destruct pk as [|[|[|pk]]]; [ | | |lia].
  - unfold recv in E. cbn [p_rest p_tok0 p_tok1 p_peek p_recv] in E.
    destruct rest as [|a r]; inversion E; subst; clear E.
    + symmetry in Hr. pose proof (skipn_nil_S _ _ Hr) as Hr1. pose proof (skipn_nil_nth _ _ zero_tok Hr) as Hn.
      split; [split; [constructor; cbn; auto; try lia; intros; discriminate|left; reflexivity]|reflexivity].
    + symmetry in Hr. destruct (skipn_cons_S _ _ _ _ Hr) as [Hr1 Hn].
      split; [split; [constructor; cbn; auto; try lia; intros; discriminate|left; reflexivity]|reflexivity].
  - inversion E; subst; clear E. split; [split; [constructor; cbn; auto; try lia; intros; discriminate|left; reflexivity]|reflexivity].
  - inversion E; subst; clear E. specialize (H1 eq_refl).
    split; [split; [constructor; cbn; auto; try lia; intros; discriminate|right; split; [reflexivity|exact H1]]|reflexivity].
Qed.

Lemma backup_W p : B p -> W (p_backup p).
Proof.
  intros [[Hr H0 Hpk H1] Hb]. constructor; cbn; auto.
  - destruct Hb as [Hb|[Hb _]]; lia.
  - intros E. destruct Hb as [Hb|[Hb Hv]]; [lia|exact Hv].
Qed.

Lemma cur_werr p : B p -> werr (cur p) p.
Proof.
  intros [[Hr H0 Hpk H1] Hb]. unfold werr, cur, tok_at. destruct Hb as [Hb|[Hb Hv]]; rewrite Hb.
  - left; exact H0.
  - right; exact Hv.
Qed.

Lemma err_tok_werr p : W p -> werr (err_tok p) p.
Proof.
  intros [Hr H0 Hpk H1]. unfold werr, err_tok, tok_at. destruct (p_peek p) as [|[|[|k]]] eqn:E; try lia.
  - left; exact H0.
  - left; exact H0.
  - right; exact (H1 eq_refl).
Qed.

(* a second next(): the item the first one returned is now the one received before the last *)
Lemma next_prev p t2 p2 : p_next p = (t2, p2) -> B p -> prev (cur p) p2 /\ B p2 /\ t2 = cur p2.
Proof.
  intros E Hb. destruct (next_B _ _ _ E (B_W _ Hb)) as [Hb2 Ht2]. split; [|split; assumption].
  split; [exact (B_W _ Hb2)|]. clear Ht2 Hb2.
  destruct Hb as [[Hr H0 Hpk H1] Hb]. destruct p as [rest t0 t1 pk rc]. unfold v1, cur, tok_at in *.
  cbn [p_rest p_tok0 p_tok1 p_peek p_recv] in *. unfold p_next in E. cbn [p_peek] in E.
  destruct Hb as [Hb|[Hb Hv]]; subst pk.
  - unfold recv in E. cbn [p_rest p_tok0 p_tok1 p_peek p_recv] in E.
    destruct rest as [|a r]; inversion E; subst; clear E; cbn [p_peek p_recv]; (split; [reflexivity|]);
      replace (S rc - 1)%nat with rc by lia; first [exact H0|reflexivity|congruence].
  - inversion E; subst; clear E. cbn [p_peek p_recv]. split; [reflexivity|first [exact Hv|reflexivity|congruence]].
Qed.

Lemma backup2_W t p : prev t p -> W (p_backup2 p t).
Proof. intros ([Hr H0 Hpk H1] & Hp & Ht). constructor; cbn; auto. Qed.
Lemma prev_backup t p : prev t p -> W (p_backup p) /\ werr t (p_backup p).
Proof.
  intros ([Hr H0 Hpk H1] & Hp & Ht). split; [constructor; cbn; auto; try lia; rewrite Hp; intros; discriminate|].
  right. exact Ht.
Qed.

Lemma peek_W p t p1 : p_peek_tok p = (t, p1) -> W p -> W p1.
Proof.
  intros E [Hr H0 Hpk H1]. destruct p as [rest t0 t1 pk rc]. unfold v1 in *.
  cbn [p_rest p_tok0 p_tok1 p_peek p_recv] in *. unfold p_peek_tok in E. cbn [p_peek] in E.
  destruct pk as [|pk].
  - unfold recv in E. cbn [p_rest p_tok0 p_tok1 p_peek p_recv] in E.
    destruct rest as [|a r]; inversion E; subst; clear E; symmetry in Hr.
    + pose proof (skipn_nil_S _ _ Hr). pose proof (skipn_nil_nth _ _ zero_tok Hr).
      constructor; cbn; auto; try lia; intros; discriminate.
    + destruct (skipn_cons_S _ _ _ _ Hr) as [Hr1 Hn]. constructor; cbn; auto; try lia; intros; discriminate.
  - inversion E; subst; clear E. constructor; cbn; auto.
Qed.

(* ------------------------------------------------------------------ *)
(* the expression parser *)
Definition xpost {A} (Q : A -> pst -> Prop) (r : presult A) : Prop :=
  match r with POk a p => Q a p | PErr t _ p => werr t p | _ => True end.
Notation XW := (fun _ p => W p).
Notation XR := (fun t p => B p /\ t = cur p).

Lemma xp_bind {A C} (Q1 : A -> pst -> Prop) (Q : C -> pst -> Prop) x f :
  xpost Q1 x -> (forall a p, Q1 a p -> xpost Q (f a p)) -> xpost Q (pbind x f).
Proof. destruct x; cbn; auto. Qed.
Lemma xp_errorf {A} (Q : A -> pst -> Prop) c p : W p -> xpost Q (p_errorf c p).
Proof. intros H. cbn. apply err_tok_werr; exact H. Qed.
Lemma xp_unexpected {A} (Q : A -> pst -> Prop) t p : B p -> t = cur p -> xpost Q (p_unexpected t p).
Proof. intros H ->. unfold p_unexpected. destruct (_ =? _); cbn; apply cur_werr; exact H. Qed.
Lemma xp_expect typ p : W p -> xpost XR (p_expect typ p).
Proof.
  intros H. unfold p_expect. destruct (p_next p) as [t p1] eqn:E. destruct (next_B _ _ _ E H) as [Hb Ht].
  destruct (_ =? _); [cbn; auto|apply xp_unexpected; auto].
Qed.

Section XBody.
Variable w : N -> pst -> presult node.
Hypothesis Hw : forall prec p, W p -> xpost (A:=node) XW (w prec p).

Hint Resolve B_W backup_W xp_errorf xp_unexpected xp_expect Hw : xp.

Ltac xp_intro := intros ? ? ?; cbn beta in *; repeat match goal with H : _ /\ _ |- _ => destruct H end.
Ltac xp_next :=
  match goal with
  | |- xpost _ (let '(_, _) := p_next ?st in _) =>
      let t := fresh "t" in let q := fresh "q" in let E := fresh "E" in
      destruct (p_next st) as [t q] eqn:E;
      let Hb := fresh "Hb" in let Ht := fresh "Ht" in
      assert (Hb : B q /\ t = cur q) by (eapply next_B; [exact E|eauto with xp]); destruct Hb as [Hb Ht]
  end.
Ltac xp_step :=
  match goal with
  | |- xpost _ (pbind _ _) => eapply xp_bind; [solve [eauto with xp]|xp_intro]
  | |- xpost _ (let '(_, _) := p_next _ in _) => xp_next
  | |- xpost _ (if ?c then _ else _) => destruct c
  | |- xpost _ (match ?x with _ => _ end) => destruct x
  | |- xpost _ (let _ := _ in _) => cbv zeta
  | |- xpost _ (POk _ _) => cbn [xpost]; cbn beta; solve [eauto with xp]
  | |- xpost _ (PCrash _) => exact I
  | |- xpost _ PFuel => exact I
  | |- xpost _ _ => solve [eauto with xp]
  end.
Ltac xp_go := repeat xp_step.

Lemma xp_ternary cond p : W p -> xpost XW (parse_ternary w cond p).
Proof. intros H. unfold parse_ternary. xp_go. Qed.
Hint Resolve xp_ternary : xp.

Lemma xp_expr_loop lf : forall prec n p, W p -> xpost XW (expr_loop w lf prec n p).
Proof. induction lf as [|lf IH]; intros prec n p H; cbn [expr_loop]; xp_go. Qed.
Hint Resolve xp_expr_loop : xp.

Lemma xp_data_ref_loop lf : forall pos key acc p, W p -> xpost XW (data_ref_loop w lf pos key acc p).
Proof. induction lf as [|lf IH]; intros pos key acc p H; cbn [data_ref_loop]; xp_go. Qed.
Hint Resolve xp_data_ref_loop : xp.
Lemma xp_parse_data_ref lf t p : W p -> xpost XW (parse_data_ref w lf t p).
Proof. intros H. unfold parse_data_ref. xp_go. Qed.
Hint Resolve xp_parse_data_ref : xp.

Lemma xp_list_loop lf : forall pos items p, W p -> xpost XW (list_loop w lf pos items p).
Proof. induction lf as [|lf IH]; intros pos items p H; cbn [list_loop]; xp_go. Qed.
Lemma xp_map_loop lf : forall pos items key p, W p -> xpost XW (map_loop w lf pos items key p).
Proof. induction lf as [|lf IH]; intros pos items key p H; cbn [map_loop]; xp_go. Qed.
Hint Resolve xp_list_loop xp_map_loop : xp.
Lemma xp_parse_map_literal lf pos first p : W p -> xpost XW (parse_map_literal w lf pos first p).
Proof. intros H. unfold parse_map_literal. xp_go. Qed.
Hint Resolve xp_parse_map_literal : xp.
Lemma xp_parse_list_or_map lf t p : W p -> xpost XW (parse_list_or_map w lf t p).
Proof. intros H. unfold parse_list_or_map. xp_go. Qed.
Hint Resolve xp_parse_list_or_map : xp.

Lemma xp_global_loop lf : forall pos name nx p, B p -> xpost (A:=node) XW (global_loop lf pos name nx p).
Proof. induction lf as [|lf IH]; intros pos name nx p H; cbn [global_loop]; xp_go. Qed.
Lemma xp_func_loop lf : forall pos name args p, W p -> xpost XW (func_loop w lf pos name args p).
Proof. induction lf as [|lf IH]; intros pos name args p H; cbn [func_loop]; xp_go. Qed.
Hint Resolve xp_global_loop xp_func_loop : xp.
Lemma xp_new_function_node lf t p : W p -> xpost XW (new_function_node w lf t p).
Proof.
  intros H. unfold new_function_node. destruct (p_peek_tok p) as [pk p1] eqn:E.
  pose proof (peek_W _ _ _ E H) as H1. xp_go.
Qed.
Hint Resolve xp_new_function_node : xp.
Lemma xp_new_value_node lf t p : W p -> xpost XW (new_value_node w lf t p).
Proof. intros H. unfold new_value_node. xp_go. Qed.
Hint Resolve xp_new_value_node : xp.
Lemma xp_parse_first_term lf p : W p -> xpost XW (parse_first_term w lf p).
Proof. intros H. unfold parse_first_term. xp_go. Qed.
Hint Resolve xp_parse_first_term : xp.
Lemma xp_parse_expr_body lf prec p : W p -> xpost XW (parse_expr_body w lf prec p).
Proof. intros H. unfold parse_expr_body. xp_go. Qed.
End XBody.

Theorem xp_parse_expr fuel : forall prec p, W p -> xpost XW (parse_expr fuel prec p).
Proof.
  induction fuel as [|f IH]; intros prec p H; cbn [parse_expr]; [exact I|].
  apply xp_parse_expr_body; [exact IH|exact H].
Qed.
End Win.
