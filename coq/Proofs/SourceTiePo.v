(* Source tie, family 75-gotrans-soymsg, the PO part (soymsg/pomsg/pomsg.go): `translated`
   of the bundle loader model (Model/MsgParts.v) against the function as gotrans translates
   it from today's source. *)
From Coq Require Import ZArith NArith Bool Lia ZifyBool ZifyN List.
From Soy Require Import Model.Bytes Generated.Tables Model.MsgParts Proofs.SourceTieBase.
Import ListNotations.
Open Scope N_scope.

(* Stated through go_res and proved along the MODEL's recursion, one msgstr at a time with its emptiness decided on the
   model's side: the source may test `s != ""`, `len(s) > 0`, range over values or over indices, return early or keep
   a flag. *)
Lemma is_translated_matches_source (strs : list bstr) :
  go_res (src_pomsg_translated strs) = Some (is_translated strs).
Proof.
  unfold go_res, is_translated, src_pomsg_translated. cbv zeta.
  induction strs as [|a l IH]; [reflexivity|].
  destruct a as [|c r]; simpl; unfold go_len; cbn [length]; st_decide_ifs; cbn [negb]; [exact IH|reflexivity].
Qed.
