(* Source tie, family 75-gotrans-soymsg, the PO part (soymsg/pomsg/pomsg.go): `translated`
   of the bundle loader model (Model/MsgParts.v) against the function as gotrans translates
   it from today's source. *)
From Coq Require Import ZArith NArith Bool Lia ZifyBool ZifyN List.
From Soy Require Import Model.Bytes Generated.Tables Model.MsgParts Proofs.SourceTieBase.
Import ListNotations.
Open Scope N_scope.

Lemma is_translated_matches_source (strs : list bstr) :
  is_translated strs = src_pomsg_translated strs.
Proof.
  unfold is_translated, src_pomsg_translated. rewrite find_existsb.
  apply st_existsb_ext. intros a. rewrite bstr_eqb_nil_r. destruct a; reflexivity.
Qed.
