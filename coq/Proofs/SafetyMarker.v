(* C06: the error texts of the plain walker.  Every run of [Interp.walk] that ends in [Err e] ends with one
   of the finitely many texts of [walker_texts] -- the constants Model/Interp.v passes to [fail] plus the
   texts of the pure helpers it lifts -- and the marker [e_capped] of the depth instrument
   (Model/InterpSafety.v section 4) is not among them.  So "the plain walker answered with the marker" never
   happens, and [walk_answer_has_depth] needs only "the fuel sufficed":

     walk_answer_has_depth_nofuel :
       depth_ st = 0 -> fst (walk cf f n st) <> OutOfFuel -> run_depth_le cf f n st.

   Proved with Proofs/InterpSubE.v (the node-indexed walker principle whose [fail] obligation is restricted
   to the walker's own texts: a predicate on WHICH text a run ends with is not a [walker_logic]). *)
From Coq Require Import Lia ZifyN ZifyBool ZifyNat List.
Import ListNotations.
From Soy Require Import Model.Bytes Model.Num Model.Values Model.Outcome Model.Ast
  Model.Escape Model.Directives Model.Print Generated.Tables Model.Interp Model.InterpSafety
  Spec.Safety Proofs.ValueProofs Proofs.CodecProofs Proofs.InterpLogic Proofs.InterpSub Proofs.InterpSubE
  Proofs.SafetyPure Proofs.SafetyDepth.
Open Scope N_scope.

(* the walker's own texts and those of the pure helpers *)
Definition walker_texts : list bstr :=
  walker_fail_texts ++ [ Directives.e_type; Directives.e_index; Directives.e_notmodelled; Values.e_undef_string ].
Definition walker_text (e : bstr) : bool := existsb (bstr_eqb e) walker_texts.

Lemma walker_fail_text_text e : walker_fail_text e = true -> walker_text e = true.
Proof.
  unfold walker_fail_text, walker_text, walker_texts. rewrite existsb_app. intros ->. reflexivity.
Qed.

(* the finite check: the marker is none of them *)
Lemma walker_text_not_capped : walker_text e_capped = false.
Proof. vm_compute. reflexivity. Qed.

(* "an error, if any, carries one of the walker's texts" *)
Definition et_ok {A} (o : outcome A) : Prop :=
  match o with Err e => walker_text e = true | _ => True end.

Lemma et_bind {A B} (x : outcome A) (f : A -> outcome B) :
  et_ok x -> (forall v, et_ok (f v)) -> et_ok (bind x f).
Proof. destruct x; cbn; try tauto. intros _ H. apply H. Qed.

Ltac et_err := hnf; lazymatch goal with |- _ = true => (vm_compute; reflexivity) end.
Ltac et_triv := first [ exact I | et_err ].

(* ------------------------------------------------------------------ *)
(* the pure helpers (same case analyses as Proofs/SafetyPure.v) *)

Lemma et_list_items f l : (forall x, In x l -> et_ok (to_string f x)) -> et_ok (list_items f l).
Proof.
  induction l as [|x l IH]; intros H; [exact I|].
  rewrite list_items_cons. apply et_bind; [apply H; left; reflexivity|]. intros s.
  apply et_bind; [apply IH; intros y Hy; apply H; right; exact Hy|]. intros rs. exact I.
Qed.
Lemma et_map_items f m : (forall kx, In kx m -> et_ok (to_string f (snd kx))) -> et_ok (map_items f m).
Proof.
  induction m as [|[k x] m IH]; intros H; [exact I|].
  rewrite map_items_cons. apply et_bind.
  - unfold entry_string. destruct x; try et_triv; apply (H (k, _)); left; reflexivity.
  - intros s. apply et_bind; [apply IH; intros y Hy; apply H; right; exact Hy|]. intros rs. exact I.
Qed.

Lemma et_to_string : forall f v, et_ok (to_string f v).
Proof.
  induction f as [|f IH]; intros v; [destruct v; et_triv|].
  destruct v as [| |x|z|x|t|i l|i m]; try et_triv.
  - destruct x; exact I.
  - cbn [to_string]. destruct (fl_to_string x); exact I.
  - rewrite to_string_list. apply et_bind; [|intros; exact I].
    apply et_list_items. intros x Hx. apply IH.
  - rewrite to_string_map. apply et_bind; [|intros; exact I].
    apply et_map_items. intros kx Hx. apply IH.
Qed.

Theorem et_value_string v : et_ok (value_string v).
Proof. unfold value_string. apply et_to_string. Qed.

Lemma et_to_float v : et_ok (to_float v).
Proof. destruct v; cbn; try et_triv. destruct (fl_of_int z); exact I. Qed.
Lemma et_of_fl o : et_ok (of_fl o).
Proof. destruct o; exact I. Qed.
Lemma et_float_op f a c : et_ok (float_op f a c).
Proof.
  unfold float_op. apply et_bind; [apply et_to_float|]. intros x.
  apply et_bind; [apply et_to_float|]. intros y. apply et_of_fl.
Qed.

Theorem et_arith op a c : et_ok (arith op a c).
Proof.
  destruct op; cbn [arith]; try et_triv; try apply et_float_op.
  - (* OMul *) destruct a; try apply et_float_op. destruct c; try apply et_float_op. exact I.
  - (* OMod *) destruct a as [| |?|x|?|?|? ?|? ?], c as [| |?|y|?|?|? ?|? ?]; try et_triv.
    destruct (y =? 0)%Z; et_triv.
  - (* OAdd *)
    assert (Hs : et_ok (if is_str a || is_str c
                        then s1 <- value_string a;; s2 <- value_string c;; Ok (VStr (s1 ++ s2))
                        else float_op fl_add_r a c)).
    { destruct (is_str a || is_str c); [|apply et_float_op].
      apply et_bind; [apply et_value_string|]. intros s1.
      apply et_bind; [apply et_value_string|]. intros s2. exact I. }
    destruct a; try exact Hs. destruct c; try exact Hs. exact I.
  - (* OSub *) destruct a; try apply et_float_op. destruct c; try apply et_float_op. exact I.
Qed.

Theorem et_compare op a c : et_ok (compare_op op a c).
Proof.
  unfold compare_op. apply et_bind; [apply et_to_float|]. intros x.
  apply et_bind; [apply et_to_float|]. intros y. exact I.
Qed.

Lemma et_brs : forall f s n, et_ok (back_to_rune_start f s n).
Proof.
  induction f as [|f IH]; intros s n; cbn [back_to_rune_start];
    (destruct (n <? 0)%Z; [et_err|]); (destruct (nth_error s (Z.to_nat n)); [|et_err]);
    (match goal with |- context[if ?c then Ok n else _] => destruct c end; [exact I|]); [exact I | apply IH].
Qed.

Lemma et_truncate s n e : et_ok (truncate s n e).
Proof.
  unfold truncate. destruct (_ <=? _)%Z; [exact I|].
  destruct e; [destruct (n >? 3)%Z|]; (apply et_bind; [apply et_brs | intros; exact I]).
Qed.

Lemma et_apply_fn fn args s : et_ok (apply_fn fn args s).
Proof.
  unfold apply_fn.
  destruct (Directives.fn_is fn fn_NoAutoescape); [exact I|].
  destruct (Directives.fn_is fn fn_EscapeHtml); [exact I|].
  destruct (Directives.fn_is fn fn_ChangeNewlineToBr); [exact I|].
  destruct (Directives.fn_is fn fn_EscapeUri); [exact I|].
  destruct (Directives.fn_is fn fn_InsertWordBreaks).
  { destruct args as [|[] ?]; et_triv. }
  destruct (Directives.fn_is fn fn_Truncate); [|et_triv].
  destruct args as [|[n| |] [|a2 [|a3 r]]]; try et_triv.
  - apply et_truncate.
  - destruct a2; try apply et_truncate; destruct (Z.of_nat (length s) <=? n)%Z; et_triv.
  - destruct a2; et_triv.
Qed.

Lemma et_apply_directives dirs : forall s esc, et_ok (apply_directives dirs s esc).
Proof.
  induction dirs as [|[name args] rest IH]; intros s esc; cbn [apply_directives]; [exact I|].
  destruct (lookup_directive name) as [[arglens [cancel [nilapply fn]]]|]; [|et_triv].
  destruct (negb _); [et_triv|]. destruct nilapply; [et_triv|].
  apply et_bind; [apply et_apply_fn|]. intros s'. apply IH.
Qed.

Theorem et_print_writes mode dirs s : et_ok (print_writes mode dirs s).
Proof.
  unfold print_writes. apply et_bind; [apply et_apply_directives|]. intros [s' esc]. exact I.
Qed.

Lemma et_round_core x :
  et_ok (match fl_add x (if fl_isneg x && negb (fl_is_zero x) then fl_neg half else half) with
         | Some y => match fl_trunc_Z y with Some z => Ok (FVal (VInt (wrap64 z))) | None => OutOfModel end
         | None => @OutOfModel fres
         end).
Proof. destruct (fl_add _ _); [|exact I]. destruct (fl_trunc_Z _); exact I. Qed.

Ltac et_leaf :=
  first [ exact I | apply et_round_core | apply et_of_fl
        | apply et_bind; [apply et_to_float | intros ?]
        | apply et_bind; [apply et_of_fl | intros ?]
        | et_err ].
Ltac et_split :=
  repeat first [ et_leaf
               | match goal with |- et_ok (match ?x with _ => _ end) => destruct x end
               | match goal with |- et_ok (if ?x then _ else _) => destruct x end ].

(* [apply_func] on any name: an unknown name is a [Crash], not an [Err] *)
Theorem et_apply_func name vs : et_ok (apply_func name vs).
Proof.
  unfold apply_func.
  destruct (Interp.fn_is name n_isNonnull); [et_split|].
  destruct (Interp.fn_is name n_length); [et_split|].
  destruct (Interp.fn_is name n_keys); [et_split|].
  destruct (Interp.fn_is name n_augmentMap); [et_split|].
  destruct (Interp.fn_is name n_round); [et_split|].
  destruct (Interp.fn_is name n_floor); [et_split|].
  destruct (Interp.fn_is name n_ceiling); [et_split|].
  destruct (Interp.fn_is name n_min); [et_split|].
  destruct (Interp.fn_is name n_max); [et_split|].
  destruct (Interp.fn_is name n_randomInt); [et_split|].
  destruct (Interp.fn_is name n_strContains); [et_split|].
  destruct (Interp.fn_is name n_range); [et_split|].
  destruct (Interp.fn_is name n_hasData); et_split.
Qed.

Lemma et_pure_sites : pure_sites_sube (@et_ok).
Proof.
  constructor.
  - intros. apply et_arith.
  - intros. apply et_compare.
  - intros. apply et_value_string.
  - intros. apply et_print_writes.
  - intros. apply et_apply_func.
Qed.

(* ------------------------------------------------------------------ *)
(* the walker logic *)

Definition et_spec {A} (m : M A) : Prop := forall st, et_ok (fst (m st)).

Lemma ets_ret {A} (x : A) : et_spec (ret x).
Proof. intros st. exact I. Qed.
Lemma ets_modify f : et_spec (modify f).
Proof. intros st. exact I. Qed.
Lemma ets_get : et_spec get.
Proof. intros st. exact I. Qed.
Lemma ets_fail {A} e : walker_fail_text e = true -> et_spec (@fail A e).
Proof. intros H st. cbn. apply walker_fail_text_text. exact H. Qed.
Lemma ets_bind {A B} (m : M A) (f : A -> M B) : et_spec m -> (forall x, et_spec (f x)) -> et_spec (mbind m f).
Proof.
  intros Hm Hf st. unfold mbind. specialize (Hm st).
  destruct (m st) as [[x|e|e| | | ] s]; cbn [fst] in *; try exact I; [apply Hf | exact Hm].
Qed.
Lemma ets_get_bind {B} (f : mstate -> M B) : (forall s st, et_ok (fst (f s st))) -> et_spec (mbind get f).
Proof. intros H st. unfold mbind, get. apply H. Qed.

Theorem et_logic : walker_logic_sube (@et_spec) (@et_ok).
Proof.
  constructor.
  - intros A m m' E H st. rewrite <- E. apply H.
  - intros; apply ets_ret.
  - intros A e H. apply ets_fail. exact H.
  - intros A o H st. exact H.
  - intros; apply ets_bind; assumption.
  - intros; apply ets_modify.
  - (* write *)
    intros w st. unfold write.
    destruct (bufs st); [|exact I].
    destruct (calls_left st) as [[|k]|]; [cbn [fst]; et_err| |];
      (destruct (bytes_left st); [|exact I]; destruct (_ <=? _); [exact I | cbn [fst]; et_err]).
  - intros k v st. unfold m_set. destruct (ctx st); [cbn [fst]; et_err | exact I].
  - intros k st. unfold m_lookup. destruct (sc_lookup _ _); exact I.
  - intros l st. unfold fresh_list. destruct l; exact I.
  - intros l st. unfold fresh_list_or_nil. destruct l; exact I.
  - intros m st. exact I.
  - intros B f H. apply ets_get_bind. intros s st. apply H.
  - intros B f H. apply ets_get_bind. intros s st. apply H.
  - (* scoped *)
    intros m H. apply ets_bind; [apply ets_modify|]. intros _.
    apply ets_bind; [exact H|]. intros _.
    apply ets_bind; [apply ets_modify|]. intros _. apply ets_ret.
  - (* eval *)
    intros w e H. unfold eval. apply ets_get_bind. intros s0.
    apply ets_bind; [exact H|]. intros v.
    apply ets_bind; [apply ets_modify|]. intros _. apply ets_ret.
  - (* block *)
    intros w body H. unfold render_block.
    apply ets_bind; [apply ets_modify|]. intros _.
    apply ets_bind; [exact H|]. intros _.
    apply ets_get_bind. intros s.
    destruct (bufs s).
    + apply ets_fail. vm_compute. reflexivity.
    + apply ets_bind; [apply ets_modify|]. intros _. apply ets_ret.
Qed.

Lemma ets_call_enter (w : node -> M value) callee cd : et_spec (w (t_node callee)) -> et_spec (call_enter w callee cd).
Proof.
  intros H. unfold call_enter. apply ets_get_bind. intros s1.
  apply ets_bind; [apply ets_modify|]. intros _ st.
  specialize (H st). destruct (w (t_node callee) st) as [[x|e|e| | | ] s]; cbn [fst] in *; try exact I. exact H.
Qed.

(* every error of the plain walker carries one of its own texts *)
Theorem walk_err_text cf : forall f n st e, fst (walk cf f n st) = Err e -> walker_text e = true.
Proof.
  assert (H : forall f n, et_spec (walk cf f n)).
  { induction f as [|f IH]; intros n.
    - rewrite walk_O. intros st. exact I.
    - rewrite walk_S. apply (phi_walk_body_sube cf (@et_spec) (@et_ok) et_logic et_pure_sites).
      + apply ets_modify.
      + intros n' _. apply IH.
      + intros callee cd _. apply ets_call_enter. apply IH. }
  intros f n st e E. specialize (H f n st). rewrite E in H. exact H.
Qed.

(* ... so never the marker of the depth instrument *)
Theorem walk_never_capped cf f n st : fst (walk cf f n st) <> Err e_capped.
Proof.
  intros E. apply walk_err_text in E. rewrite walker_text_not_capped in E. discriminate.
Qed.

(* [walk_answer_has_depth] without its second hypothesis: a run of the walker that does not run out of fuel,
   started at call depth 0 with fuel f, stays within f nested calls *)
Theorem walk_answer_has_depth_nofuel cf f n st :
  depth_ st = 0%nat -> fst (walk cf f n st) <> OutOfFuel -> run_depth_le cf f n st.
Proof.
  intros Hst Hoof. apply walk_answer_has_depth; [exact Hst|].
  split; [exact Hoof | apply walk_never_capped].
Qed.
