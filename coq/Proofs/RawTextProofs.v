(* C15: the loop of parse/rawtext.go implements the line-joining rule. *)
From Soy Require Import Model.Bytes.
From Soy Require Import Model.Utf8.
From Soy Require Import Model.Outcome.
From Soy Require Import Model.RawText.
From Soy Require Import Spec.Text.
Open Scope N_scope.

(* ---------------------------------------------------------------------- *)
(* character classes                                                       *)

Lemma ws_split c : ws c = is_space c || is_eol c.
Proof. unfold ws, is_space, is_eol. destruct (c =? 32), (c =? 9), (c =? 13), (c =? 10); reflexivity. Qed.

Lemma line_break_eol c : line_break c = is_eol c.
Proof. reflexivity. Qed.

Lemma hi_class x : 128 <= x ->
  is_space x = false /\ is_eol x = false /\ is_tight_joiner x = false /\ ws x = false.
Proof.
  intros H. unfold is_space, is_eol, is_tight_joiner, ws.
  assert (forall k, k < 128 -> (x =? k) = false) as E by (intros k Hk; apply N.eqb_neq; lia).
  rewrite !E by lia. repeat split; reflexivity.
Qed.

Lemma cont_hi x : is_cont x = true -> 128 <= x.
Proof. unfold is_cont, in_range. rewrite andb_true_iff, !N.leb_le. lia. Qed.

Lemma in_range_spec lo hi c : in_range lo hi c = true <-> lo <= c /\ c <= hi.
Proof. unfold in_range. rewrite andb_true_iff, !N.leb_le. tauto. Qed.

(* what utf8.DecodeRuneInString tells the loop: an ASCII byte is its own rune;
   otherwise the rune is >= 128 (RuneError for an invalid byte) and the
   remaining width-1 bytes are continuation bytes that exist *)
Lemma decode_class c rest r w :
  decode_rune (c :: rest) = (r, w) ->
  (c < 128 /\ r = c /\ w = 1%nat) \/
  (128 <= c /\ 128 <= r /\ (pred w <= length rest)%nat /\
   Forall (fun x => is_cont x = true) (firstn (pred w) rest)).
Proof.
  intros H. unfold decode_rune in H.
  destruct (N.ltb_spec c 128) as [Hlt|Hge].
  { left. injection H as <- <-. auto. }
  right. split; [exact Hge|].
  assert (Herr : forall w', (rune_error, 1%nat) = (r, w') -> 128 <= r /\ (pred w' <= length rest)%nat /\
            Forall (fun x => is_cont x = true) (firstn (pred w') rest)).
  { intros w' E. injection E as <- <-. unfold rune_error. cbn. repeat split; [lia | lia | constructor]. }
  destruct (in_range 194 223 c) eqn:R2.
  { apply in_range_spec in R2. destruct rest as [|b1 rest]; [auto|].
    destruct (is_cont b1) eqn:C1; [|auto].
    injection H as <- <-. pose proof (cont_hi _ C1). cbn.
    repeat split; [lia | lia | constructor; [exact C1 | constructor]]. }
  destruct (in_range 224 239 c) eqn:R3.
  { apply in_range_spec in R3. destruct rest as [|b1 [|b2 rest]]; [auto | auto |].
    match type of H with (if ?g then _ else _) = _ => destruct g eqn:G end; [|auto].
    apply andb_true_iff in G. destruct G as [G1 C2]. apply in_range_spec in G1.
    assert (is_cont b1 = true) as C1.
    { apply in_range_spec. destruct (c =? 224), (c =? 237); lia. }
    injection H as <- <-. pose proof (cont_hi _ C2). cbn.
    repeat split; [| lia | repeat constructor; assumption].
    destruct (N.eqb_spec c 224); [subst c|]; lia. }
  destruct (in_range 240 244 c) eqn:R4.
  { apply in_range_spec in R4. destruct rest as [|b1 [|b2 [|b3 rest]]]; [auto | auto | auto |].
    match type of H with (if ?g then _ else _) = _ => destruct g eqn:G end; [|auto].
    apply andb_true_iff in G. destruct G as [G C3]. apply andb_true_iff in G. destruct G as [G1 C2].
    apply in_range_spec in G1.
    assert (is_cont b1 = true) as C1.
    { apply in_range_spec. destruct (c =? 240), (c =? 244); lia. }
    injection H as <- <-. pose proof (cont_hi _ C2). pose proof (cont_hi _ C3). cbn.
    repeat split; [| lia | repeat constructor; assumption].
    destruct (N.eqb_spec c 240); [subst c|]; lia. }
  auto.
Qed.

(* the classes the loop looks at agree between a rune and its first byte *)
Lemma decode_same_class c rest r w :
  decode_rune (c :: rest) = (r, w) ->
  is_space r = is_space c /\ is_eol r = is_eol c /\ is_tight_joiner r = is_tight_joiner c.
Proof.
  intros H. destruct (decode_class _ _ _ _ H) as [(_ & -> & _) | (Hc & Hr & _)]; [auto|].
  destruct (hi_class _ Hc) as (-> & -> & -> & _). destruct (hi_class _ Hr) as (-> & -> & -> & _). auto.
Qed.

(* ---------------------------------------------------------------------- *)
(* the run decomposition                                                   *)

Lemma runs_head c s : exists run rest, runs (c :: s) = (ws c, c :: run) :: rest.
Proof.
  cbn [runs]. destruct (runs s) as [|[k run] rest]; [eauto|].
  destruct (Bool.eqb k (ws c)) eqn:E; [|eauto].
  apply Bool.eqb_prop in E. subst k. eauto.
Qed.

Lemma first_byte_runs s : first_byte (runs s) = match s with [] => None | c :: _ => Some c end.
Proof.
  destruct s as [|c s]; [reflexivity|].
  destruct (runs_head c s) as (run & rest & ->). reflexivity.
Qed.

Lemma runs_concat s : concat (map snd (runs s)) = s.
Proof.
  induction s as [|c s IH]; [reflexivity|].
  cbn [runs]. destruct (runs s) as [|[k run] rest].
  - cbn in *. subst. reflexivity.
  - destruct (Bool.eqb k (ws c)); cbn in *; rewrite IH; reflexivity.
Qed.

(* a white-space run followed by the end or by another byte is one run *)
Lemma runs_ws_prefix w s :
  w <> [] -> Forall (fun x => ws x = true) w ->
  match s with [] => True | d :: _ => ws d = false end ->
  runs (w ++ s) = (true, w) :: runs s.
Proof.
  intros Hne Hw Hs. induction w as [|c w IH]; [congruence|].
  inversion Hw as [|? ? Hc Hw']; subst.
  destruct w as [|c' w].
  - cbn [app runs]. destruct s as [|d s].
    + cbn. rewrite Hc. reflexivity.
    + destruct (runs_head d s) as (run & rest & E). rewrite E, Hs, Hc. reflexivity.
  - specialize (IH ltac:(congruence) Hw').
    change ((c :: c' :: w) ++ s) with (c :: ((c' :: w) ++ s)).
    cbn [runs]. rewrite IH, Hc. reflexivity.
Qed.

Section Joiner.
Variable J : N -> bool.

Definition NF (tb ta : bool) (prev : option N) (s : bstr) : bstr := norm_runs J tb ta prev (runs s).

(* a byte that is not white space is copied *)
Lemma NF_nonws tb ta prev c s : ws c = false -> NF tb ta prev (c :: s) = c :: NF tb ta (Some c) s.
Proof.
  intros Hc. unfold NF. cbn [runs]. destruct (runs s) as [|[k run] rest].
  - rewrite Hc. reflexivity.
  - rewrite Hc. destruct k; cbn [Bool.eqb norm_runs last_byte app]; reflexivity.
Qed.

Lemma NF_ws_run tb ta prev w s :
  w <> [] -> Forall (fun x => ws x = true) w ->
  match s with [] => True | d :: _ => ws d = false end ->
  NF tb ta prev (w ++ s) =
  ws_run_image J tb ta prev (match s with [] => None | d :: _ => Some d end) w ++ NF tb ta prev s.
Proof.
  intros Hne Hw Hs. unfold NF. rewrite (runs_ws_prefix w s Hne Hw Hs).
  cbn [norm_runs]. rewrite first_byte_runs. reflexivity.
Qed.

Lemma NF_nil tb ta prev : NF tb ta prev [] = [].
Proof. reflexivity. Qed.

End Joiner.

(* ---------------------------------------------------------------------- *)
(* the loop                                                                *)

Lemma firstn_length_app {A} (a b0 : list A) : firstn (length a) (a ++ b0) = a.
Proof. induction a as [|x a IH]; cbn; [destruct b0; reflexivity | rewrite IH; reflexivity]. Qed.

Lemma copy_back_run w before0 n nl last cbt out o :
  rt_copy_back (length w) (rev w ++ before0) (mk_rt n nl last cbt out o) = mk_rt n nl last cbt (rev w ++ out) o.
Proof.
  unfold rt_copy_back. cbn [rt_spaces rt_nl rt_last rt_cbt rt_result rt_oob].
  replace (length w <=? length (rev w ++ before0))%nat with true
    by (symmetry; apply Nat.leb_le; rewrite app_length, rev_length; lia).
  rewrite <- (rev_length w) at 1. rewrite firstn_length_app. reflexivity.
Qed.

Lemma step_more_space before r c n nl last cbt out :
  is_space r = true ->
  rt_step before r c (mk_rt (S n) nl last cbt out false) = mk_rt (S (S n)) nl last cbt out false.
Proof. intros H. unfold rt_step. cbn. rewrite H. reflexivity. Qed.

Lemma step_more_eol before r c n nl last cbt out :
  is_space r = false -> is_eol r = true ->
  rt_step before r c (mk_rt (S n) nl last cbt out false) = mk_rt (S (S n)) true last cbt out false.
Proof. intros H1 H2. unfold rt_step. cbn. rewrite H1, H2. reflexivity. Qed.

Lemma step_text before r c nl last cbt out :
  is_space r = false -> is_eol r = false ->
  rt_step before r c (mk_rt 0 nl last cbt out false) = mk_rt 0 false r cbt (c :: out) false.
Proof. intros H1 H2. unfold rt_step, rt_begin. cbn. rewrite H1, H2. reflexivity. Qed.

Lemma step_begin_trim before r c nl last cbt out :
  is_space r || is_eol r = true ->
  rt_step before r c (mk_rt 0 nl last cbt out false) = mk_rt 1 (is_eol r) last last out false.
Proof. intros H. unfold rt_step, rt_begin. cbn. rewrite H. reflexivity. Qed.

(* end of a white-space run without a line break: the run is copied *)
Lemma step_flush_copy w before0 r c n last cbt out :
  is_space r = false -> is_eol r = false -> S n = length w ->
  rt_step (rev w ++ before0) r c (mk_rt (S n) false last cbt out false)
  = mk_rt 0 false r cbt (c :: rev w ++ out) false.
Proof.
  intros H1 H2 Hn. unfold rt_step, rt_flush. cbn [rt_spaces rt_nl negb]. rewrite H1, H2.
  rewrite Hn, copy_back_run. unfold rt_begin. cbn. rewrite H1, H2. reflexivity.
Qed.

(* end of a white-space run with a line break (or of the phantom space that
   trimBefore puts in front of the text) *)
Lemma step_flush_join before r c n last cbt out :
  is_space r = false -> is_eol r = false ->
  rt_step before r c (mk_rt (S n) true last cbt out false)
  = mk_rt 0 false r cbt
      (c :: (if negb (is_tight_joiner cbt) && negb (is_tight_joiner r) then [32] else []) ++ out) false.
Proof.
  intros H1 H2. unfold rt_step, rt_flush. cbn [rt_spaces rt_nl negb rt_cbt]. rewrite H1, H2.
  destruct (negb (is_tight_joiner cbt) && negb (is_tight_joiner r)); unfold rt_begin; cbn; rewrite H1, H2; reflexivity.
Qed.

Definition prev_rel (prev : option N) (last : N) : Prop :=
  match prev with None => last = 0 | Some p => is_tight_joiner last = is_tight_joiner p end.

Definition contk (k : nat) (s : bstr) : Prop :=
  (k <= length s)%nat /\ Forall (fun x => is_cont x = true) (firstn k s).

Notation NFj := (NF is_tight_joiner).

Lemma finish_text ta before nl last cbt out :
  rt_finish ta before (mk_rt 0 nl last cbt out false) = Ok (rev out).
Proof. unfold rt_finish. cbn. rewrite andb_false_r. reflexivity. Qed.

Lemma rt_loop_inv : forall s,
  (forall tb ta k before nl last cbt out prev,
     contk k s ->
     (k = 0%nat -> prev_rel prev last /\ (prev = None -> tb = false)) ->
     (k <> 0%nat -> is_tight_joiner last = false) ->
     rt_loop ta k before (mk_rt 0 nl last cbt out false) s = Ok (rev out ++ NFj tb ta prev s))
  /\
  (forall tb ta before0 w n nl last cbt out prev,
     Forall (fun x => ws x = true) w ->
     ((n = length w /\ w <> [] /\ nl = existsb line_break w /\ prev_rel prev cbt /\ (prev = None -> tb = false))
      \/ (n = S (length w) /\ nl = true /\ cbt = 0 /\ prev = None /\ tb = true)) ->
     rt_loop ta 0 (rev w ++ before0) (mk_rt n nl last cbt out false) s
     = Ok (rev out ++ NFj tb ta prev (w ++ s))).
Proof.
  induction s as [|c rest [IHA IHB]]; split.
  - (* text state, end of input *)
    intros tb ta k before nl last cbt out prev [Hk _] _ _.
    cbn in Hk. assert (k = 0%nat) by lia. subst k.
    cbn [rt_loop]. rewrite finish_text, NF_nil, app_nil_r. reflexivity.
  - (* space state, end of input *)
    intros tb ta before0 w n nl last cbt out prev Hw Hst.
    cbn [rt_loop]. unfold rt_finish.
    destruct Hst as [(-> & Hne & -> & Hrel & Htb) | (-> & -> & -> & -> & ->)].
    + cbn [rt_nl rt_spaces].
      replace (0 <? length w)%nat with true
        by (symmetry; apply Nat.ltb_lt; destruct w; [congruence | cbn; lia]).
      rewrite (NF_ws_run is_tight_joiner tb ta prev w [] Hne Hw I).
      rewrite NF_nil, app_nil_r. unfold ws_run_image.
      destruct (existsb line_break w); cbn [negb andb].
      * cbn. destruct prev; rewrite ?app_nil_r; reflexivity.
      * replace (is_none prev && tb) with false
          by (destruct prev; [reflexivity | rewrite Htb; reflexivity]).
        cbn [is_none andb orb]. destruct ta; cbn [negb].
        -- cbn. rewrite ?app_nil_r. reflexivity.
        -- rewrite copy_back_run. cbn. rewrite rev_app_distr, rev_involutive, ?app_nil_r. reflexivity.
    + cbn [rt_nl negb andb rt_oob rt_result]. destruct w as [|x w]; [cbn; rewrite app_nil_r; reflexivity|].
      rewrite (NF_ws_run is_tight_joiner true ta None (x :: w) [] ltac:(congruence) Hw I).
      rewrite NF_nil. unfold ws_run_image. destruct (existsb line_break (x :: w)); rewrite !app_nil_r; reflexivity.
  - (* text state, a byte *)
    intros tb ta k before nl last cbt out prev [Hk Hc] H0 Hn0.
    destruct k as [|k].
    + destruct (H0 eq_refl) as [Hrel Htb].
      cbn [rt_loop]. destruct (decode_rune (c :: rest)) as [r wd] eqn:D.
      destruct (decode_same_class _ _ _ _ D) as (Es & Ee & Et).
      destruct (ws c) eqn:Wc.
      * (* white space begins *)
        rewrite ws_split in Wc. rewrite step_begin_trim by (rewrite Es, Ee; exact Wc).
        destruct (decode_class _ _ _ _ D) as [(_ & _ & ->) | (Hc128 & _)];
          [| destruct (hi_class _ Hc128) as (E1 & E2 & _); rewrite E1, E2 in Wc; discriminate].
        cbn [pred].
        specialize (IHB tb ta before [c] 1%nat (is_eol r) last last out prev).
        cbn [rev app] in IHB. apply IHB.
        -- constructor; [rewrite ws_split; exact Wc | constructor].
        -- left. repeat split; [congruence | | exact Hrel | exact Htb].
           cbn. rewrite orb_false_r, Ee. reflexivity.
      * (* a rune that is not white space *)
        rewrite ws_split in Wc. apply orb_false_iff in Wc. destruct Wc as [Wc1 Wc2].
        rewrite step_text by congruence.
        rewrite (NF_nonws is_tight_joiner tb ta prev c rest) by (rewrite ws_split, Wc1, Wc2; reflexivity).
        rewrite (IHA tb ta (pred wd) (c :: before) false r cbt (c :: out) (Some c)).
        -- cbn [rev]. rewrite <- app_assoc. reflexivity.
        -- destruct (decode_class _ _ _ _ D) as [(_ & _ & ->) | (_ & _ & Hl & Hf)];
             [split; [cbn; lia | constructor] | split; assumption].
        -- intros _. split; [exact Et | discriminate].
        -- intros Hw. destruct (decode_class _ _ _ _ D) as [(_ & _ & ->) | (_ & Hr & _)];
             [cbn in Hw; congruence | apply (hi_class _ Hr)].
    + (* continuation byte of the current rune *)
      cbn [rt_loop]. unfold rt_push. cbn [rt_spaces rt_nl rt_last rt_cbt rt_result rt_oob].
      cbn in Hk, Hc. inversion Hc as [|? ? Hcc Hc']; subst.
      destruct (hi_class _ (cont_hi _ Hcc)) as (_ & _ & Tc & Wc).
      rewrite (NF_nonws is_tight_joiner tb ta prev c rest Wc).
      rewrite (IHA tb ta k (c :: before) nl last cbt (c :: out) (Some c)).
      * cbn [rev]. rewrite <- app_assoc. reflexivity.
      * split; [lia | exact Hc'].
      * intros _. split; [|discriminate]. cbn. rewrite Tc. apply Hn0. discriminate.
      * intros _. apply Hn0. discriminate.
  - (* space state, a byte *)
    intros tb ta before0 w n nl last cbt out prev Hw Hst.
    cbn [rt_loop]. destruct (decode_rune (c :: rest)) as [r wd] eqn:D.
    destruct (decode_same_class _ _ _ _ D) as (Es & Ee & Et).
    assert (exists n0, n = S n0) as [n0 Hn0].
    { destruct Hst as [(-> & Hne & _) | (-> & _)]; [destruct w; [congruence | cbn; eauto] | eauto]. }
    subst n.
    destruct (ws c) eqn:Wc.
    + (* the run goes on *)
      assert (wd = 1%nat) as ->.
      { destruct (decode_class _ _ _ _ D) as [(_ & _ & ->) | (Hc128 & _)]; [reflexivity|].
        destruct (hi_class _ Hc128) as (_ & _ & _ & E). congruence. }
      cbn [pred].
      assert (Hw' : Forall (fun x => ws x = true) (w ++ [c])) by (apply Forall_app; split; [exact Hw | repeat constructor; exact Wc]).
      assert (Hb : c :: rev w ++ before0 = rev (w ++ [c]) ++ before0) by (rewrite rev_app_distr; reflexivity).
      assert (Hs : w ++ c :: rest = (w ++ [c]) ++ rest) by (rewrite <- app_assoc; reflexivity).
      rewrite Hb, Hs. rewrite ws_split in Wc.
      destruct (is_space c) eqn:Sc.
      * rewrite step_more_space by congruence.
        apply IHB; [exact Hw'|].
        destruct Hst as [(E & Hne & -> & Hrel & Htb) | (E & -> & -> & -> & ->)].
        -- left. repeat split; [rewrite app_length; cbn; lia | destruct w; discriminate | | exact Hrel | exact Htb].
           rewrite existsb_app. cbn. rewrite line_break_eol.
           assert (is_eol c = false) as ->; [|rewrite !orb_false_r; reflexivity].
           unfold is_space, is_eol in *. destruct (N.eqb_spec c 32); [subst; reflexivity|].
           destruct (N.eqb_spec c 9); [subst; reflexivity | discriminate].
        -- right. repeat split. rewrite app_length. cbn. lia.
      * cbn in Wc. rewrite step_more_eol by congruence.
        apply IHB; [exact Hw'|].
        destruct Hst as [(E & Hne & -> & Hrel & Htb) | (E & -> & -> & -> & ->)].
        -- left. repeat split; [rewrite app_length; cbn; lia | destruct w; discriminate | | exact Hrel | exact Htb].
           rewrite existsb_app. cbn. rewrite line_break_eol, Wc, orb_true_r. reflexivity.
        -- right. repeat split. rewrite app_length. cbn. lia.
    + (* the run ends at a rune that is not white space *)
      rewrite ws_split in Wc. apply orb_false_iff in Wc. destruct Wc as [Wc1 Wc2].
      assert (Wc : ws c = false) by (rewrite ws_split, Wc1, Wc2; reflexivity).
      assert (HA : forall out', rt_loop ta (pred wd) (c :: rev w ++ before0) (mk_rt 0 false r cbt (c :: out') false) rest
                   = Ok (rev out' ++ c :: NFj tb ta (Some c) rest)).
      { intros out'. rewrite (IHA tb ta (pred wd) (c :: rev w ++ before0) false r cbt (c :: out') (Some c)).
        - cbn [rev]. rewrite <- app_assoc. reflexivity.
        - destruct (decode_class _ _ _ _ D) as [(_ & _ & ->) | (_ & _ & Hl & Hf)];
            [split; [cbn; lia | constructor] | split; assumption].
        - intros _. split; [exact Et | discriminate].
        - intros Hk. destruct (decode_class _ _ _ _ D) as [(_ & _ & ->) | (_ & Hr & _)];
            [cbn in Hk; congruence | apply (hi_class _ Hr)]. }
      destruct Hst as [(E & Hne & -> & Hrel & Htb) | (E & -> & -> & -> & ->)].
      * rewrite (NF_ws_run is_tight_joiner tb ta prev w (c :: rest) Hne Hw Wc), (NF_nonws _ _ _ _ _ _ Wc).
        unfold ws_run_image. destruct (existsb line_break w).
        -- rewrite step_flush_join by congruence. rewrite HA. rewrite Et.
           destruct prev as [p|]; cbn in Hrel.
           ++ rewrite Hrel. destruct (is_tight_joiner p), (is_tight_joiner c); cbn; rewrite <- ?app_assoc; reflexivity.
           ++ rewrite Hrel. cbn. reflexivity.
        -- rewrite (step_flush_copy w before0 r c n0) by congruence. rewrite HA.
           replace (is_none prev && tb) with false
             by (destruct prev; [reflexivity | rewrite Htb; reflexivity]).
           cbn [is_none andb orb]. rewrite rev_app_distr, rev_involutive, <- app_assoc. reflexivity.
      * rewrite step_flush_join by congruence. rewrite HA. cbn.
        destruct w as [|x w].
        -- cbn [app]. rewrite (NF_nonws _ _ _ _ _ _ Wc). reflexivity.
        -- rewrite (NF_ws_run is_tight_joiner true ta None (x :: w) (c :: rest) ltac:(congruence) Hw Wc), (NF_nonws _ _ _ _ _ _ Wc).
           unfold ws_run_image. destruct (existsb line_break (x :: w)); reflexivity.
Qed.

(* ---------------------------------------------------------------------- *)
(* what the code computes, for every byte string: the rule with NUL as a
   third joiner (isTightJoiner lists 0 next to '<' and '>'), and it never
   indexes out of range                                                     *)

Theorem rawtext_run_general s tb ta :
  rawtext_run s tb ta = Ok (normalize_with is_tight_joiner tb ta s).
Proof.
  unfold rawtext_run, rt_init, normalize_with. destruct (rt_loop_inv s) as [HA HB]. destruct tb.
  - specialize (HB true ta [] [] 1%nat true 0 0 [] None). cbn [rev app] in HB. apply HB; [constructor|].
    right. repeat split.
  - specialize (HA false ta 0%nat [] false 0 0 [] None). cbn [rev app] in HA. apply HA.
    + split; [cbn; lia | constructor].
    + intros _. split; reflexivity.
    + congruence.
Qed.

Theorem rawtext_never_crashes s tb ta : exists o, rawtext_run s tb ta = Ok o.
Proof. eexists. apply rawtext_run_general. Qed.

(* ---------------------------------------------------------------------- *)
(* two joiner predicates that agree on the bytes of s give the same result *)

Section Agree.
Variables J1 J2 : N -> bool.

Definition prev_ok (prev : option N) : Prop := match prev with None => True | Some p => J1 p = J2 p end.

Lemma last_byte_ok run : forall prev, prev_ok prev -> (forall c, In c run -> J1 c = J2 c) -> prev_ok (last_byte prev run).
Proof.
  induction run as [|x run IH]; intros prev Hp H; [exact Hp|].
  cbn [last_byte]. apply IH; [apply H; left; reflexivity | intros c Hc; apply H; right; exact Hc].
Qed.

Lemma norm_runs_agree tb ta l : forall prev,
  prev_ok prev -> (forall c, In c (concat (map snd l)) -> J1 c = J2 c) ->
  norm_runs J1 tb ta prev l = norm_runs J2 tb ta prev l.
Proof.
  induction l as [|[k run] rest IH]; intros prev Hp H; [reflexivity|].
  cbn [map snd concat] in H.
  assert (Hrest : forall c, In c (concat (map snd rest)) -> J1 c = J2 c)
    by (intros c Hc; apply H, in_or_app; right; exact Hc).
  destruct k; cbn [norm_runs].
  - rewrite (IH prev Hp Hrest). f_equal.
    unfold ws_run_image. destruct (existsb line_break run); [|reflexivity].
    destruct prev as [p|]; [|reflexivity].
    destruct (first_byte rest) as [n|] eqn:F; [|reflexivity].
    assert (J1 n = J2 n) as ->.
    { apply Hrest. destruct rest as [|[k' [|x r']] rest']; try discriminate.
      injection F as ->. cbn. left. reflexivity. }
    cbn in Hp. rewrite Hp. reflexivity.
  - rewrite (IH (last_byte prev run)); [reflexivity | | exact Hrest].
    apply last_byte_ok; [exact Hp|]. intros c Hc. apply H, in_or_app. left. exact Hc.
Qed.

Lemma normalize_with_agree tb ta s :
  (forall c, In c s -> J1 c = J2 c) -> normalize_with J1 tb ta s = normalize_with J2 tb ta s.
Proof.
  intros H. unfold normalize_with. apply norm_runs_agree; [exact I|]. rewrite runs_concat. exact H.
Qed.
End Agree.

Lemma tight_angle c : c <> 0 -> is_tight_joiner c = angle c.
Proof. intros H. unfold is_tight_joiner, angle. replace (c =? 0) with false by (symmetry; apply N.eqb_neq; exact H). reflexivity. Qed.

(* ---------------------------------------------------------------------- *)
(* the property: on text without a NUL byte the code is the rule           *)

Definition no_nul (s : bstr) : Prop := Forall (fun c => c <> 0) s.

Theorem rawtext_run_spec s tb ta : no_nul s -> rawtext_run s tb ta = Ok (normalize tb ta s).
Proof.
  intros H. rewrite rawtext_run_general. f_equal. unfold normalize.
  apply normalize_with_agree. intros c Hc. apply tight_angle.
  unfold no_nul in H. rewrite Forall_forall in H. exact (H c Hc).
Qed.

Theorem rawtext_impl_spec s tb ta : no_nul s -> rawtext s tb ta = normalize tb ta s.
Proof. intros H. unfold rawtext. rewrite (rawtext_run_spec s tb ta H). reflexivity. Qed.

(* without the guard the statement is false of the code: a NUL next to a
   line break joins without a space *)
Lemma rawtext_nul_joins : rawtext [97; 0; 10; 98] false false = [97; 0; 98]
                          /\ normalize false false [97; 0; 10; 98] = [97; 0; 32; 98].
Proof. split; vm_compute; reflexivity. Qed.

(* ---------------------------------------------------------------------- *)
(* corollary: the bytes that are not white space come through intact and in
   order -- for every byte string, NUL or not                               *)

Lemma runs_tagged s : Forall (fun kr => Forall (fun x => ws x = fst kr) (snd kr)) (runs s).
Proof.
  induction s as [|c s IH]; [constructor|].
  cbn [runs]. destruct (runs s) as [|[k run] rest].
  - repeat constructor.
  - destruct (Bool.eqb k (ws c)) eqn:E.
    + apply Bool.eqb_prop in E. inversion IH as [|? ? H1 H2]; subst. constructor; [|exact H2].
      cbn [fst snd] in *. constructor; [reflexivity | exact H1].
    + constructor; [repeat constructor | exact IH].
Qed.

Lemma nonspace_app a c : nonspace (a ++ c) = nonspace a ++ nonspace c.
Proof. apply filter_app. Qed.

Lemma nonspace_all_ws run : Forall (fun x => ws x = true) run -> nonspace run = [].
Proof. induction 1 as [|x r Hx _ IH]; [reflexivity|]. cbn. rewrite Hx. exact IH. Qed.

Lemma nonspace_no_ws run : Forall (fun x => ws x = false) run -> nonspace run = run.
Proof. induction 1 as [|x r Hx _ IH]; [reflexivity|]. unfold nonspace in *. cbn [filter]. rewrite Hx. cbn [negb]. rewrite IH. reflexivity. Qed.

Lemma nonspace_image J tb ta prev next run :
  Forall (fun x => ws x = true) run -> nonspace (ws_run_image J tb ta prev next run) = [].
Proof.
  intros H. unfold ws_run_image. destruct (existsb line_break run).
  - destruct prev, next; try reflexivity. destruct (J n || J n0); reflexivity.
  - destruct (is_none prev && tb || is_none next && ta); [reflexivity | apply nonspace_all_ws, H].
Qed.

Lemma nonspace_norm_runs J tb ta l : forall prev,
  Forall (fun kr => Forall (fun x => ws x = fst kr) (snd kr)) l ->
  nonspace (norm_runs J tb ta prev l) = nonspace (concat (map snd l)).
Proof.
  induction l as [|[k run] rest IH]; intros prev H; [reflexivity|].
  inversion H as [|? ? H1 H2]; subst. cbn [fst snd] in H1.
  cbn [map snd concat]. rewrite nonspace_app. destruct k; cbn [norm_runs]; rewrite nonspace_app, IH by exact H2.
  - rewrite (nonspace_image J tb ta prev (first_byte rest) run H1), (nonspace_all_ws run H1). reflexivity.
  - reflexivity.
Qed.

Theorem normalize_with_nonspace J tb ta s : nonspace (normalize_with J tb ta s) = nonspace s.
Proof. unfold normalize_with. rewrite nonspace_norm_runs by apply runs_tagged. rewrite runs_concat. reflexivity. Qed.

Theorem normalize_nonspace tb ta s : nonspace (normalize tb ta s) = nonspace s.
Proof. apply normalize_with_nonspace. Qed.

Theorem nonspace_preserved s tb ta : nonspace (rawtext s tb ta) = nonspace s.
Proof. unfold rawtext. rewrite rawtext_run_general. apply normalize_with_nonspace. Qed.

(* readable consequences of the rule *)
Theorem normalize_no_ws tb ta s : Forall (fun x => ws x = false) s -> normalize tb ta s = s.
Proof.
  intros H. unfold normalize, normalize_with. generalize (@None N) as prev.
  induction H as [|c s Hc _ IH]; intros prev; [reflexivity|].
  change (NF angle tb ta prev (c :: s) = c :: s). rewrite NF_nonws by exact Hc. unfold NF. rewrite IH. reflexivity.
Qed.

(* interior white space without a line break is kept exactly; with a line
   break it becomes one space, or nothing next to < or > *)
Theorem normalize_interior tb ta x w y :
  ws x = false -> ws y = false -> w <> [] -> Forall (fun c => ws c = true) w ->
  normalize tb ta ([x] ++ w ++ [y]) =
  [x] ++ (if existsb line_break w then (if angle x || angle y then [] else [32]) else w) ++ [y].
Proof.
  intros Hx Hy Hne Hw. unfold normalize, normalize_with.
  change (NF angle tb ta None (x :: w ++ [y]) = [x] ++ (if existsb line_break w then if angle x || angle y then [] else [32] else w) ++ [y]).
  rewrite NF_nonws by exact Hx.
  rewrite (NF_ws_run angle tb ta (Some x) w [y] Hne Hw Hy).
  rewrite NF_nonws by exact Hy. rewrite NF_nil. unfold ws_run_image. cbn [is_none andb orb].
  destruct (existsb line_break w); reflexivity.
Qed.
