(* Source tie, family 73-gotrans-soyhtml (soyhtml/exec.go, funcs.go, renderer.go, and the
   AutoescapeType constants of ast/node.go): the small decisions the renderer models
   (Model/Print.v, Model/Escape.v, Model/Interp.v) make, against the same functions and
   fragments as gotrans translates them from today's source. *)
From Coq Require Import ZArith NArith Bool Lia ZifyBool ZifyN List.
From Soy Require Import Model.Bytes Model.Num Model.Outcome Model.Values Generated.Tables Model.Escape Model.Directives
  Model.Print Model.Ast Model.Interp Proofs.SourceTieBase Proofs.SourceTieValue.
Import ListNotations.
Open Scope N_scope.

(* exec.go checkNumArgs (Model/Print.v; Model/Interp.v uses the same definition) *)
Lemma check_num_args_matches_source (allowed : list N) (n : nat) :
  check_num_args allowed n = src_soyhtml_checkNumArgs (map Z.of_N allowed) (Z.of_nat n).
Proof.
  unfold check_num_args, src_soyhtml_checkNumArgs, mem. rewrite find_existsb, existsb_map.
  apply st_existsb_ext. intros a. lia.
Qed.

(* exec.go isInt / isString *)
Lemma is_int_matches_source (v : value) : is_int v = src_soyhtml_isInt value st_vkind v.
Proof. destruct v; reflexivity. Qed.

Lemma is_str_matches_source (v : value) : is_str v = src_soyhtml_isString value st_vkind v.
Proof. destruct v; reflexivity. Qed.

(* funcs.go funcIsNonnull, funcHasData, funcLength as Model/Interp.v's apply_func applies them
   (the arity has been checked before: exactly the listed number of arguments) *)
Theorem func_isNonnull_matches_source (v : value) :
  apply_func n_isNonnull [v] =
  match src_soyhtml_funcIsNonnull value st_vkind VBool [v] with Some x => Ok (FVal x) | None => Err e_type end.
Proof.
  unfold src_soyhtml_funcIsNonnull. rewrite go_index_0. cbn [go_bind].
  destruct v; reflexivity.
Qed.

Theorem func_hasData_matches_source (args : list value) :
  apply_func n_hasData args = Ok (FVal (src_soyhtml_funcHasData value VBool args)).
Proof. reflexivity. Qed.

Theorem func_length_matches_source (v : value) :
  apply_func n_length [v] =
  match src_soyhtml_funcLength value VInt v_as_list [v] with Some x => Ok (FVal x) | None => Err e_type end.
Proof.
  unfold src_soyhtml_funcLength. rewrite go_index_0. cbn [go_bind].
  destruct v; reflexivity.
Qed.

(* ast/node.go: the AutoescapeType codes that Model/Escape.v, Model/Parser.v and the table
   autoescape_attr_table are written with (0 unspecified, 1 on, 2 off, 3 contextual) *)
Lemma autoescape_codes_match_source :
  (src_ast_AutoescapeUnspecified, src_ast_AutoescapeOn, src_ast_AutoescapeOff, src_ast_AutoescapeContextual) = (0, 1, 2, 3)%Z.
Proof. reflexivity. Qed.

(* exec.go evalPrint: `var escapeHtml = s.autoescape != ast.AutoescapeOff` (before any directive) *)
Lemma escape_decision_init_matches_source (mode : N) :
  escape_decision mode [] = src_soyhtml_state_evalPrint_escapeHtml (Z.of_N mode).
Proof. unfold escape_decision, src_soyhtml_state_evalPrint_escapeHtml. cbn [forallb]. lia. Qed.

(* renderer.go Execute: the namespace's mode, unspecified -> on *)
Lemma entry_mode_matches_source (ns : N) :
  Z.of_N (entry_mode ns) = src_soyhtml_Renderer_Execute_autoescapeMode (Z.of_N ns).
Proof.
  unfold entry_mode, src_soyhtml_Renderer_Execute_autoescapeMode. cbv zeta.
  destruct (ns =? 0) eqn:E; st_decide_ifs; lia.
Qed.
