(* Source tie of the tree shape the checkers walk: ast/node.go's Children() methods, translated
   symbolically by tablegen (go/cmd/tablegen/children.go -> Generated.Tables.ast_children: receiver type ->
   selectors over its fields, in order), against the model of Children() (Model/Compile.v [children], to
   which the view of Model/RefView.v is tied by Proofs/CheckerCompileTie.v [kids_tie]).

   [go_type] names the Go type a constructor of the model's [node] stands for; [field] says which
   components of the constructor are the contents of which Go field (the correspondence the AST dump
   go/cmd/soyverif/astsexp.go implements, one line per field).  Given these, WHICH fields Children() returns,
   in WHICH order, whether a nil field is left out, that MsgNode passes its body's children on and that a map
   literal's values come by sorted key are read from the source on every run:
   [children_matches_source] is re-proved against the regenerated table, and a Children method of a shape
   the translator does not know is reported as untranslatable.

   A [Node] field that is nil contributes no child in the model (the option is None) whether the method
   leaves it out (selector 2: ForNode.IfEmpty) or returns a nil entry (selector 0: CssNode.Expr,
   CallNode.Data, IfCondNode.Cond): every walker of robfig/soy skips a nil child. *)
From Coq Require Import String.
From Soy Require Import Model.Bytes Model.Num Model.Values Model.Outcome Model.Ast Model.MsgId Model.Compile Generated.Tables.
Open Scope N_scope.

Definition go_type (n : node) : option bstr :=
  match n with
  | NList _ _ => Some (b "ListNode")
  | NTemplate _ _ _ _ _ => Some (b "TemplateNode")
  | NSoyDoc _ _ => Some (b "SoyDocNode")
  | NPrint _ _ _ => Some (b "PrintNode")
  | NDirective _ _ _ => Some (b "PrintDirectiveNode")
  | NCss _ _ _ => Some (b "CssNode")
  | NLog _ _ => Some (b "LogNode")
  | NLetValue _ _ _ => Some (b "LetValueNode")
  | NLetContent _ _ _ => Some (b "LetContentNode")
  | NMsg _ _ _ _ _ => Some (b "MsgNode")
  | NMsgPlaceholder _ _ _ => Some (b "MsgPlaceholderNode")
  | NMsgPlural _ _ _ _ _ => Some (b "MsgPluralNode")
  | NMsgPluralCase _ _ _ => Some (b "MsgPluralCaseNode")
  | NCall _ _ _ _ _ => Some (b "CallNode")
  | NParamValue _ _ _ => Some (b "CallParamValueNode")
  | NParamContent _ _ _ => Some (b "CallParamContentNode")
  | NIf _ _ => Some (b "IfNode")
  | NIfCond _ _ _ => Some (b "IfCondNode")
  | NSwitch _ _ _ => Some (b "SwitchNode")
  | NSwitchCase _ _ _ => Some (b "SwitchCaseNode")
  | NFor _ _ _ _ _ => Some (b "ForNode")
  | NFunc _ _ _ => Some (b "FunctionNode")
  | NListLit _ _ => Some (b "ListLiteralNode")
  | NMapLit _ _ => Some (b "MapLiteralNode")
  | NDataRef _ _ _ => Some (b "DataRefNode")
  | NAccExpr _ _ _ => Some (b "DataRefExprNode")
  | NNot _ _ => Some (b "NotNode")
  | NNeg _ _ => Some (b "NegateNode")
  | NBin _ _ _ _ => Some (b "BinaryOpNode")       (* embedded by MulNode ... ElvisNode *)
  | NTern _ _ _ _ => Some (b "TernNode")
  | _ => None                                     (* not a ParentNode *)
  end.

(* the nodes held by the Go field [f]: a Node field holds one node or nil, a slice field its elements, the
   *ListNode fields of the message nodes a ListNode (the model keeps its Nodes and re-wraps them) *)
Definition field (n : node) (f : bstr) : option (list node) :=
  let is (s : bstr) := bstr_eqb f s in
  match n with
  | NList _ ns => if is (b "Nodes") then Some ns else None
  | NTemplate _ _ body _ _ => if is (b "Body") then Some [body] else None
  | NSoyDoc _ ps => if is (b "Params") then Some ps else None
  | NPrint _ arg dirs => if is (b "Arg") then Some [arg] else if is (b "Directives") then Some dirs else None
  | NDirective _ _ args => if is (b "Args") then Some args else None
  | NCss _ e _ => if is (b "Expr") then Some (olist e) else None
  | NLog _ body => if is (b "Body") then Some [body] else None
  | NLetValue _ _ e => if is (b "Expr") then Some [e] else None
  | NLetContent _ _ body => if is (b "Body") then Some [body] else None
  | NMsg p _ _ _ body => if is (b "Body") then Some [NList p body] else None
  | NMsgPlaceholder _ _ body => if is (b "Body") then Some [body] else None
  | NMsgPlural p _ v cases dflt =>
      if is (b "Value") then Some [v] else if is (b "Cases") then Some cases else if is (b "Default") then Some [NList p dflt] else None
  | NMsgPluralCase p _ body => if is (b "Body") then Some [NList p body] else None
  | NCall _ _ _ data params => if is (b "Data") then Some (olist data) else if is (b "Params") then Some params else None
  | NParamValue _ _ v => if is (b "Value") then Some [v] else None
  | NParamContent _ _ c => if is (b "Content") then Some [c] else None
  | NIf _ conds => if is (b "Conds") then Some conds else None
  | NIfCond _ c body => if is (b "Cond") then Some (olist c) else if is (b "Body") then Some [body] else None
  | NSwitch _ v cases => if is (b "Value") then Some [v] else if is (b "Cases") then Some cases else None
  | NSwitchCase _ vals body => if is (b "Values") then Some vals else if is (b "Body") then Some [body] else None
  | NFor _ _ l body ie =>
      if is (b "List") then Some [l] else if is (b "Body") then Some [body] else if is (b "IfEmpty") then Some (olist ie) else None
  | NFunc _ _ args => if is (b "Args") then Some args else None
  | NListLit _ items => if is (b "Items") then Some items else None
  | NDataRef _ _ acc => if is (b "Access") then Some acc else None
  | NAccExpr _ _ a => if is (b "Arg") then Some [a] else None
  | NNot _ a => if is (b "Arg") then Some [a] else None
  | NNeg _ a => if is (b "Arg") then Some [a] else None
  | NBin _ _ a1 a2 => if is (b "Arg1") then Some [a1] else if is (b "Arg2") then Some [a2] else None
  | NTern _ a1 a2 a3 => if is (b "Arg1") then Some [a1] else if is (b "Arg2") then Some [a2] else if is (b "Arg3") then Some [a3] else None
  | _ => None
  end.

(* what a selector of the translated method contributes; [ko0] is the order in which Go happens to iterate the map *)
Definition sel (ko0 : korder) (n : node) (tf : N * bstr) : option (list node) :=
  let '(tag, f) := tf in
  match tag with
  | 0 | 1 | 2 => field n f                                         (* a node (nil: none), a slice, a node when not nil *)
  | 3 => match field n f with Some [NList _ l] => Some l | _ => None end        (* n.F.Children() of a *ListNode *)
  | 4 => match n with                                                           (* map values by sorted key *)
         | NMapLit _ items => if bstr_eqb f (b "Items") then Some (map_values (sorted_after ko0) items) else None
         | _ => None
         end
  | _ => None
  end.

Fixpoint sels (ko0 : korder) (n : node) (l : list (N * bstr)) : option (list node) :=
  match l with
  | [] => Some []
  | tf :: r => match sel ko0 n tf, sels ko0 n r with Some x, Some y => Some (x ++ y) | _, _ => None end
  end.

(* Children() of the model is the translated method of the node's Go type; the other nodes are not ParentNodes *)
Theorem children_matches_source ko0 n :
  match go_type n with
  | Some t => match assoc_s t ast_children with
              | Some l => sels ko0 n l = Some (children (sorted_after ko0) n)
              | None => False
              end
  | None => children (sorted_after ko0) n = []
  end.
Proof.
  destruct n; cbn [go_type]; try reflexivity;
    match goal with |- match assoc_s ?t ast_children with _ => _ end =>
      let v := eval vm_compute in (assoc_s t ast_children) in change (assoc_s t ast_children) with v end;
    cbv iota beta; unfold sels, sel, field; cbn [children];
    repeat match goal with |- context [bstr_eqb ?x ?y] =>
      let v := eval vm_compute in (bstr_eqb x y) in change (bstr_eqb x y) with v end;
    cbv iota beta; rewrite ?app_nil_r; try reflexivity.
Qed.
