(* Num.fl_div_r against Flocq: the quotient to 56 or more bits plus a sticky bit, rounded by round53, is
   round radix2 (FLX_exp 53) ZnearestE of the exact quotient.  The quotient q with the location of the
   remainder (Flocq's Fdiv_core) brackets the exact value; the model's 2q + sticky, truncated by one bit, is q
   with "exact" or "inexact"; and after truncating at least one more bit Flocq's location no longer depends
   on WHICH inexact location it started from. *)
From Coq Require Import ZArith Reals Lia Lra.
From Flocq Require Import Core.Core Core.Digits Core.Float_prop Core.Round_NE Calc.Bracket Calc.Round Calc.Div.
From Soy Require Import Model.Bytes Model.Num Proofs.FloatFlocq.
Open Scope Z_scope.

#[local] Instance fd_prec_gt_0 : Prec_gt_0 53.
Proof. reflexivity. Qed.

(* any two inexact locations give the same triple once a further bit is dropped *)
Lemma fd_truncate_aux_inexact q e l l' k : 0 < k ->
  truncate_aux radix2 (q, e, loc_Inexact l) k = truncate_aux radix2 (q, e, loc_Inexact l') k.
Proof.
  intros Hk. unfold truncate_aux. f_equal. unfold new_location.
  assert (Ev : Z.even (Zpower radix2 k) = true).
  { change (Zpower radix2 k) with (2 ^ k). replace k with (1 + (k - 1)) by lia. rewrite Z.pow_add_r by lia. apply Z.even_mul. }
  rewrite Ev. unfold new_location_even. reflexivity.
Qed.

Lemma fd_new_location_inexact c r : 0 < r -> exists l, new_location c r loc_Exact = loc_Inexact l.
Proof.
  intros Hr. unfold new_location, new_location_even, new_location_odd.
  assert (E : Zeq_bool r 0 = false) by (destruct (Zeq_bool_spec r 0); [lia|reflexivity]).
  destruct (Z.even c); rewrite E; eexists; reflexivity.
Qed.

Lemma fd_new_location_exact c : new_location c 0 loc_Exact = loc_Exact.
Proof. unfold new_location, new_location_even, new_location_odd. destruct (Z.even c); reflexivity. Qed.

(* the positive core: a, c > 0 *)
Lemma fd_div_pos a e1 c e2 :
  0 < a -> 0 < c ->
  let k := Z.max 0 (56 + Z.log2 c - Z.log2 a) in
  let num := a * 2 ^ k in
  let mp := 2 * (num / c) + (if num mod c =? 0 then 0 else 1) in
  round radix2 (FLX_exp 53) ZnearestE (F2R (Float radix2 mp (e1 - e2 - k - 1))) =
  round radix2 (FLX_exp 53) ZnearestE (F2R (Float radix2 a e1) / F2R (Float radix2 c e2)).
Proof.
  intros Ha Hc. cbv zeta. set (k := Z.max 0 (56 + Z.log2 c - Z.log2 a)). set (num := a * 2 ^ k).
  set (E := e1 - e2 - k - 1).
  assert (Hk : 0 <= k) by (unfold k; lia).
  assert (P2k : 0 < 2 ^ k) by (apply Z.pow_pos_nonneg; lia).
  pose proof (Z.div_mod num c ltac:(lia)) as Hdm. pose proof (Z.mod_pos_bound num c Hc) as Hr.
  (* the exact quotient, bracketed by q at exponent E + 1 *)
  pose proof (Fdiv_core_correct radix2 a e1 c e2 (E + 1) Ha Hc) as B. unfold Fdiv_core in B.
  replace (Zle_bool (E + 1) (e1 - e2)) with true in B by (symmetry; apply Zle_imp_le_bool; unfold E; lia).
  replace (e1 - e2 - (E + 1)) with k in B by (unfold E; lia). change (Zpower radix2 k) with (2 ^ k) in B. fold num in B.
  destruct (Z.div_eucl num c) as [q r] eqn:Ed.
  assert (Edq : num / c = q) by (unfold Z.div; rewrite Ed; reflexivity).
  assert (Emr : num mod c = r) by (unfold Z.modulo; rewrite Ed; reflexivity).
  rewrite Edq, Emr in *. set (s := if r =? 0 then 0 else 1).
  (* q has at least 56 bits *)
  assert (Hq : 2 ^ 55 <= q).
  { pose proof (Z.log2_spec a Ha) as [A1 A2]. pose proof (Z.log2_spec c Hc) as [C1 C2].
    pose proof (Z.log2_nonneg a). pose proof (Z.log2_nonneg c).
    rewrite <- Edq. apply Z.div_le_lower_bound; [lia|]. unfold num.
    assert (c * 2 ^ 55 < 2 ^ (Z.log2 c + 1 + 55)) by (rewrite (Z.pow_add_r 2 (Z.log2 c + 1) 55) by lia; rewrite <- Z.add_1_r in C2; nia).
    assert (2 ^ (Z.log2 a + k) <= a * 2 ^ k) by (rewrite Z.pow_add_r by lia; nia).
    assert (2 ^ (Z.log2 c + 1 + 55) <= 2 ^ (Z.log2 a + k)) by (apply Z.pow_le_mono_r; unfold k; lia). lia. }
  assert (Dq : 56 <= Zdigits radix2 q).
  { assert (55 < Zdigits radix2 q); [|lia]. apply Zdigits_gt_Zpower. change (Zpower radix2 55) with (2 ^ 55). rewrite Z.abs_eq by lia. lia. }
  assert (Hpos : (0 <= F2R (Float radix2 a e1) / F2R (Float radix2 c e2))%R).
  { apply Rlt_le. apply Rdiv_lt_0_compat; apply F2R_gt_0; assumption. }
  (* both sides through Flocq's truncation *)
  rewrite (round_trunc_NE_correct radix2 (FLX_exp 53) _ q (E + 1) _ Hpos B) by (left; unfold FLX_exp; lia).
  assert (Hmp : 0 < 2 * q + s) by (unfold s; destruct (r =? 0); lia).
  assert (Bm : inbetween_float radix2 (2 * q + s) E (F2R (Float radix2 (2 * q + s) E)) loc_Exact) by (constructor; reflexivity).
  assert (Hpos2 : (0 <= F2R (Float radix2 (2 * q + s) E))%R) by (apply F2R_ge_0; apply Z.lt_le_incl; exact Hmp).
  rewrite (round_trunc_NE_correct radix2 (FLX_exp 53) _ (2 * q + s) E loc_Exact Hpos2 Bm) by (right; reflexivity).
  (* the two triples are the same *)
  assert (Dm : Zdigits radix2 (2 * q + s) = Zdigits radix2 q + 1).
  { apply Zdigits_unique. pose proof (Zdigits_correct radix2 q) as [D1 D2]. rewrite Z.abs_eq in D1, D2 by lia. rewrite Z.abs_eq by lia.
    replace (Zdigits radix2 q + 1 - 1) with (Zdigits radix2 q) by lia.
    change (Zpower radix2 (Zdigits radix2 q + 1)) with (2 ^ (Zdigits radix2 q + 1)). change (Zpower radix2 (Zdigits radix2 q)) with (2 ^ (Zdigits radix2 q)) in *.
    change (Zpower radix2 (Zdigits radix2 q - 1)) with (2 ^ (Zdigits radix2 q - 1)) in D1.
    rewrite Z.pow_add_r by lia. change (2 ^ 1) with 2.
    assert (E2 : 2 ^ Zdigits radix2 q = 2 * 2 ^ (Zdigits radix2 q - 1)).
    { replace (Zdigits radix2 q) with (1 + (Zdigits radix2 q - 1)) at 1 by lia. rewrite Z.pow_add_r by lia. reflexivity. }
    unfold s. destruct (r =? 0); lia. }
  f_equal. unfold truncate. rewrite Dm. unfold FLX_exp.
  replace (Zdigits radix2 q + 1 + E - 53 - E) with (1 + (Zdigits radix2 q - 53)) by lia.
  replace (Zdigits radix2 q + (E + 1) - 53 - (E + 1)) with (Zdigits radix2 q - 53) by lia.
  replace (0 <? 1 + (Zdigits radix2 q - 53)) with true by lia. replace (0 <? Zdigits radix2 q - 53) with true by lia.
  rewrite truncate_aux_comp by lia.
  assert (T1 : truncate_aux radix2 (2 * q + s, E, loc_Exact) 1 = (q, E + 1, if r =? 0 then loc_Exact else loc_Inexact Eq)).
  { unfold truncate_aux. change (Zpower radix2 1) with 2.
    assert (Ediv : (2 * q + s) / 2 = q) by (unfold s; destruct (r =? 0); [rewrite Z.add_0_r, Z.mul_comm, Z.div_mul by lia; reflexivity|]; symmetry; apply (Z.div_unique _ 2 q 1); lia).
    assert (Emod : (2 * q + s) mod 2 = s) by (unfold s; destruct (r =? 0); [rewrite Z.add_0_r, Z.mul_comm, Z.mod_mul by lia; reflexivity|]; symmetry; apply (Z.mod_unique _ 2 q 1); lia).
    rewrite Ediv, Emod. unfold s. destruct (r =? 0); reflexivity. }
  rewrite T1.
  destruct (Z.eqb_spec r 0) as [R0|R0].
  - rewrite R0. rewrite fd_new_location_exact. reflexivity.
  - destruct (fd_new_location_inexact c r ltac:(lia)) as (l & El). rewrite El.
    rewrite (fd_truncate_aux_inexact q (E + 1) Eq l (Zdigits radix2 q - 53)) by lia. reflexivity.
Qed.

Lemma fd_round_cond_opp (b : bool) (v : R) :
  round radix2 (FLX_exp 53) ZnearestE (cond_Ropp b v) = cond_Ropp b (round radix2 (FLX_exp 53) ZnearestE v).
Proof. destruct b; [apply round_NE_opp|reflexivity]. Qed.

Lemma fd_F2R_sign m e : F2R (Float radix2 m e) = cond_Ropp (m <? 0) (F2R (Float radix2 (Z.abs m) e)).
Proof.
  rewrite <- F2R_cond_Zopp. f_equal. f_equal. unfold cond_Zopp. destruct (Z.ltb_spec m 0); lia.
Qed.

Theorem fl_div_r_flocq m1 e1 m2 e2 z : m1 <> 0 -> m2 <> 0 ->
  fl_div_r (FFin m1 e1) (FFin m2 e2) = Some z ->
  ff_R z = round radix2 (FLX_exp 53) ZnearestE (ff_R (FFin m1 e1) / ff_R (FFin m2 e2)).
Proof.
  intros H1 H2 H. cbn [fl_div_r] in H. cbv zeta in H. cbn [ff_R].
  rewrite (ff_mk_fl_r _ _ _ H). clear H.
  set (a := Z.abs m1) in *. set (c := Z.abs m2) in *.
  assert (Ha : 0 < a) by (unfold a; lia). assert (Hc : 0 < c) by (unfold c; lia).
  set (k := Z.max 0 (56 + Z.log2 c - Z.log2 a)). set (num := a * 2 ^ k).
  set (mp := 2 * (num / c) + (if num mod c =? 0 then 0 else 1)).
  set (sg := xorb (m1 <? 0) (m2 <? 0)).
  replace (if sg then - mp else mp) with (cond_Zopp sg mp) by (destruct sg; reflexivity).
  rewrite F2R_cond_Zopp, fd_round_cond_opp.
  pose proof (fd_div_pos a e1 c e2 Ha Hc) as P. cbv zeta in P. fold k num mp in P. rewrite P. clear P.
  rewrite <- fd_round_cond_opp. f_equal.
  rewrite (fd_F2R_sign m1 e1), (fd_F2R_sign m2 e2). fold a c.
  assert (HC : (F2R (Float radix2 c e2) <> 0)%R) by (apply Rgt_not_eq, F2R_gt_0; exact Hc).
  unfold sg, cond_Ropp. destruct (m1 <? 0), (m2 <? 0); cbn [xorb]; field; exact HC.
Qed.

(* for Properties/C01.v *)
Definition ff_div_correctly_rounded : Prop :=
  forall m1 e1 m2 e2 z, m1 <> 0 -> m2 <> 0 -> fl_div_r (FFin m1 e1) (FFin m2 e2) = Some z ->
    ff_R z = round radix2 (FLX_exp 53) ZnearestE (ff_R (FFin m1 e1) / ff_R (FFin m2 e2)).
Theorem ff_div_correctly_rounded_holds : ff_div_correctly_rounded.
Proof. exact fl_div_r_flocq. Qed.
