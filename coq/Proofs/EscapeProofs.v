From Soy Require Import Model.Bytes Generated.Tables Model.Escape Spec.Html.
Open Scope N_scope.

(* ---- facts about the regenerated entity table (re-proved whenever the
        switch in htmlEscapeString changes) ---- *)

Definition entity_ok (ce : N * bstr) : Prop :=
  let (c, e) := ce in
  is_special c = true /\
  (exists c0, In (e, c0) known_entities /\ c0 = c) /\
  forall rest, html_decode (e ++ rest) = c :: html_decode rest.

Lemma entity_table_ok : Forall entity_ok html_entity_table.
Proof.
  unfold html_entity_table.
  repeat (apply Forall_cons || apply Forall_nil);
    (split; [reflexivity | split; [eexists; split; [cbn; tauto | reflexivity] | intros rest; reflexivity]]).
Qed.

Lemma entity_table_covers :
  forallb (fun c => match html_entity c with Some _ => true | None => false end) html_specials = true.
Proof. vm_compute. reflexivity. Qed.

Lemma html_entity_ok c e : html_entity c = Some e -> entity_ok (c, e).
Proof.
  unfold html_entity. pose proof entity_table_ok as H.
  induction H as [|[c' e'] l Hx Hl IH]; cbn [assoc]; [discriminate|].
  destruct (N.eqb_spec c c') as [->|Hne]; [intros [= <-]; exact Hx | exact IH].
Qed.

Lemma html_entity_special c : is_special c = true -> exists e, html_entity c = Some e.
Proof.
  intros Hs. pose proof entity_table_covers as H.
  rewrite forallb_forall in H.
  assert (In c html_specials) as Hin.
  { unfold is_special, mem in Hs. apply existsb_exists in Hs.
    destruct Hs as [x [Hx Heq]]. apply N.eqb_eq in Heq. subst. exact Hx. }
  specialize (H c Hin). destruct (html_entity c); [eauto | discriminate].
Qed.

Lemma html_entity_none_not_special c : html_entity c = None -> is_special c = false.
Proof.
  intros Hn. destruct (is_special c) eqn:Hs; [|reflexivity].
  destruct (html_entity_special c Hs) as [e He]. congruence.
Qed.

(* ---- the write sequence concatenates to the plain map ---- *)

Fixpoint html_escape_flat (s : bstr) : bstr :=
  match s with
  | [] => []
  | c :: r => match html_entity c with
              | Some e => e ++ html_escape_flat r
              | None => c :: html_escape_flat r
              end
  end.

Lemma esc_writes_flat acc s :
  concat_b (esc_writes acc s) = rev acc ++ html_escape_flat s.
Proof.
  revert acc; induction s as [|c r IH]; intros acc; cbn [esc_writes html_escape_flat].
  - cbn. rewrite app_nil_r. reflexivity.
  - destruct (html_entity c) as [e|].
    + cbn [concat_b]. rewrite IH. cbn. reflexivity.
    + rewrite IH. cbn [rev]. rewrite <- app_assoc. reflexivity.
Qed.

Lemma html_escape_is_flat s : html_escape s = html_escape_flat s.
Proof. unfold html_escape. rewrite esc_writes_flat. reflexivity. Qed.

(* ---- decoding ---- *)

Lemma match_entity_not_amp c r : c <> 38 -> match_entity known_entities (c :: r) = None.
Proof.
  intros Hc. unfold known_entities. cbn [match_entity is_prefix].
  replace (38 =? c) with false by (symmetry; apply N.eqb_neq; congruence).
  reflexivity.
Qed.

Lemma html_decode_plain c r : c <> 38 -> html_decode (c :: r) = c :: html_decode r.
Proof.
  intros Hc. unfold html_decode. cbn [html_decode_aux].
  rewrite (match_entity_not_amp c r Hc). reflexivity.
Qed.

Lemma not_special_not_amp c : is_special c = false -> c <> 38.
Proof. intros H ->. discriminate. Qed.

Theorem html_decode_escape s : html_decode (html_escape s) = s.
Proof.
  rewrite html_escape_is_flat.
  induction s as [|c r IH]; [reflexivity|].
  cbn [html_escape_flat]. destruct (html_entity c) as [e|] eqn:He.
  - destruct (html_entity_ok c e He) as [_ [_ Hdec]]. rewrite Hdec, IH. reflexivity.
  - rewrite html_decode_plain, IH; [reflexivity|].
    apply not_special_not_amp, html_entity_none_not_special, He.
Qed.

(* ---- safety ---- *)

Theorem html_escape_wellformed s : escaped (html_escape s).
Proof.
  rewrite html_escape_is_flat.
  induction s as [|c r IH]; [constructor|].
  cbn [html_escape_flat]. destruct (html_entity c) as [e|] eqn:He.
  - destruct (html_entity_ok c e He) as [_ [[c0 [Hin _]] _]].
    eapply escaped_ent; eassumption.
  - apply escaped_char; [apply html_entity_none_not_special, He | exact IH].
Qed.

Lemma known_entities_no_raw :
  forallb (fun ec => forallb (fun c => negb (mem c [34; 39; 60; 62])) (fst ec)) known_entities = true.
Proof. vm_compute. reflexivity. Qed.

Lemma escaped_no_raw s : escaped s -> no_raw_special s.
Proof.
  induction 1 as [|c r Hc _ IH|e c r Hin _ IH]; unfold no_raw_special in *.
  - constructor.
  - constructor; [|exact IH].
    unfold is_special, html_specials, mem in Hc |- *. cbn [existsb] in Hc |- *.
    repeat rewrite orb_false_iff in Hc. destruct Hc as (H1 & H2 & H3 & H4 & H5 & _).
    rewrite H1, H3, H4, H5. reflexivity.
  - apply Forall_app; split; [|exact IH].
    pose proof known_entities_no_raw as H. rewrite forallb_forall in H.
    specialize (H (e, c) Hin). cbn in H. rewrite forallb_forall in H.
    apply Forall_forall. intros x Hx. specialize (H x Hx).
    apply negb_true_iff in H. exact H.
Qed.

Theorem html_escape_safe s : no_raw_special (html_escape s).
Proof. apply escaped_no_raw, html_escape_wellformed. Qed.

(* every ampersand of the output begins a recognised reference: follows from
   [escaped]; stated separately for readability *)
Theorem html_escape_amp_starts_ref s pre post :
  html_escape s = pre ++ 38 :: post -> escaped (html_escape s).
Proof. intros _. apply html_escape_wellformed. Qed.

(* ---- the escaping decision of evalPrint ---- *)

Theorem escape_decision_spec mode cancels :
  escape_decision mode cancels = true <-> (mode <> 2 /\ Forall (fun c => c = false) cancels).
Proof.
  unfold escape_decision. rewrite andb_true_iff, negb_true_iff, N.eqb_neq, forallb_forall, Forall_forall.
  split; intros [H1 H2]; split; try assumption; intros x Hx; specialize (H2 x Hx);
    destruct x; cbn in *; congruence.
Qed.

(* effective mode = template attribute, else namespace attribute, else on,
   for the entry template; for callees the namespace value is used raw, and
   "unspecified" (0) escapes like "on". *)
Definition eff_spec (ns tmpl : N) : N :=
  if tmpl =? 0 then (if ns =? 0 then 1 else ns) else tmpl.

Theorem mode_entry ns tmpl :
  template_mode (entry_mode ns) tmpl = eff_spec ns tmpl.
Proof. reflexivity. Qed.

Theorem mode_callee_escapes ns tmpl :
  (template_mode (call_mode ns) tmpl =? 2) = (eff_spec ns tmpl =? 2).
Proof.
  unfold template_mode, call_mode, eff_spec.
  destruct (tmpl =? 0); [|reflexivity].
  destruct (N.eqb_spec ns 0) as [->|]; reflexivity.
Qed.
