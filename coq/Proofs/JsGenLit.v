(* C14, literals: every chunk the generator emits is well-formed
   ([chunk_wf]): text chunks come from a vocabulary that does not depend on
   the input, template-originated strings are CStrLit chunks between single or
   double quotes, the file name in the header comment has no line terminator; and a
   CStrLit chunk, rendered, is read back by the ECMAScript literal reader as
   exactly the original bytes (from C16). *)
From Soy Require Import Model.Bytes Model.Num Model.Values Model.Outcome Model.Ast Model.Utf8 Model.JsEscape
  Generated.Tables Model.JsGen Spec.Codec Proofs.Utf8Proofs Proofs.CodecProofs Proofs.CodecJsPair Proofs.JsGenProofs Proofs.JsGenInv.
Open Scope N_scope.

(* ---- the header comment ---- *)
(* a JavaScript LineTerminator (LF, CR, U+2028, U+2029) starts at the head of s *)
Definition lt_at (s : bstr) : bool :=
  match s with
  | c :: r => (c =? 10) || (c =? 13)
              || match r with c1 :: c2 :: _ => (c =? 226) && (c1 =? 128) && ((c2 =? 168) || (c2 =? 169)) | _ => false end
  | [] => false
  end.
Fixpoint has_lt (s : bstr) : bool :=
  match s with
  | [] => false
  | _ :: r => lt_at s || has_lt r
  end.

Lemma lcs_cons c r :
  (line_comment_safe (c :: r) = c :: line_comment_safe r /\ lt_at (c :: r) = false)
  \/ (exists r', line_comment_safe (c :: r) = 32 :: line_comment_safe r').
Proof.
  cbn [line_comment_safe lt_at].
  destruct ((c =? 10) || (c =? 13)) eqn:E1. right. exists r. reflexivity.
  destruct r as [|c1 [|c2 r2]]; try (left; split; reflexivity).
  destruct ((c =? 226) && (c1 =? 128) && ((c2 =? 168) || (c2 =? 169))) eqn:E2.
  right. exists r2. reflexivity. left. split; reflexivity.
Qed.

Lemma lcs_no_lt_len n : forall s, (length s <= n)%nat -> has_lt (line_comment_safe s) = false.
Proof.
  induction n as [|n IH]; intros s Hl.
  - destruct s; [reflexivity|cbn in Hl; lia].
  - destruct s as [|c r]; [reflexivity|]. cbn [length] in Hl.
    assert (Hsub : forall r', (length r' <= length r)%nat -> has_lt (line_comment_safe r') = false) by (intros; apply IH; lia).
    cbn [line_comment_safe].
    destruct ((c =? 10) || (c =? 13)) eqn:E1.
    { cbn [has_lt lt_at]. rewrite Hsub by lia. destruct (line_comment_safe r) as [|? [|? ?]]; reflexivity. }
    assert (Hcopy : has_lt (c :: line_comment_safe r) = false ->
                    has_lt (c :: line_comment_safe r) = false) by auto.
    destruct r as [|c1 [|c2 r2]].
    + cbn. rewrite E1. reflexivity.
    + cbn [line_comment_safe]. destruct ((c1 =? 10) || (c1 =? 13)) eqn:E3; cbn; rewrite E1; cbn; try rewrite E3; reflexivity.
    + destruct ((c =? 226) && (c1 =? 128) && ((c2 =? 168) || (c2 =? 169))) eqn:E2.
      { cbn [has_lt lt_at]. rewrite Hsub by (cbn; lia). destruct (line_comment_safe r2) as [|? [|? ?]]; reflexivity. }
      (* copied: the head of the result is c and no terminator starts there *)
      cbn [has_lt]. rewrite (Hsub (c1 :: c2 :: r2)) by lia. rewrite orb_false_r.
      cbn [lt_at]. rewrite E1. cbn [orb].
      destruct (lcs_cons c1 (c2 :: r2)) as [[Ec1 _]|[r' Ec1]]; rewrite Ec1.
      * destruct (lcs_cons c2 r2) as [[Ec2 _]|[r'' Ec2]]; rewrite Ec2.
        -- exact E2.
        -- destruct (c =? 226); destruct (c1 =? 128); reflexivity.
      * destruct (line_comment_safe r') as [|x ?]; [reflexivity|].
        destruct (c =? 226); [|reflexivity]. cbn. reflexivity.
Qed.

Lemma line_comment_safe_no_lt s : has_lt (line_comment_safe s) = false.
Proof. apply (lcs_no_lt_len (length s)). lia. Qed.

(* ---- well-formed chunks ---- *)
Definition chunk_wf (c : chunk) : Prop :=
  match c with
  | CText t => In t body_texts \/ In t table_texts \/ (exists n, t = indent_text n) \/ (exists op_, t = binop_sym op_)
               \/ t = t_fn_params \/ t = t_ns1
  | CStrLit q _ => q = 39 \/ q = 34
  | CName _ => True
  | CNum s => (exists z, s = dec_of_Z z) \/ (exists n, s = dec_of_N n) \/ (exists f, float_node_string f = Some s)
  | CFile s => has_lt s = false
  end.

Theorem gen_chunks_wf o fuel name body cs : gen_file o fuel name body = Ok cs -> Forall chunk_wf cs.
Proof.
  intro E.
  refine (gen_file_Q o chunk_wf (fun _ => True) _ _ _ _ _ _ _ _ _ _ _ _ _ _ fuel name body cs _ E).
  - intros n _. apply Forall_forall. auto.
  - auto.
  - intros t H. cbn. auto.
  - intros t H. cbn. auto.
  - intros n. cbn. right; right; left. exists n; reflexivity.
  - intros op_. cbn. right; right; right; left. exists op_; reflexivity.
  - intros q s H. exact H.
  - intros s. exact I.
  - intros z. cbn. left. exists z; reflexivity.
  - intros n. cbn. right; left. exists n; reflexivity.
  - intros f s H. cbn. right; right. exists f; exact H.
  - intros s. cbn. apply line_comment_safe_no_lt.
  - intros. cbn. tauto.
  - intros. cbn. tauto.
  - apply Forall_forall. auto.
Qed.

(* ---- a literal chunk denotes its string ---- *)
(* [lit_body s]: the bytes render_chunk writes between the quotes of a literal chunk.  It is the escaper
   soy calls (Model/JsEscape.v js_escape_soy: text/template's JSEscape, or internal/jsescape once repair
   C16-jsstr-astral-surrogate-pair is in the tree; Generated/Tables.v jsstr_pair_js is read from
   soyjs/exec.go).  The statements below are generic in that flag: the BMP-or-printable guard is needed
   only while the library's escaper is called. *)
Definition lit_body (s : bstr) : bstr := removelast (tl (render_chunk is_print_tbl (CStrLit 0 s))).

Lemma render_strlit q s : render_chunk is_print_tbl (CStrLit q s) = q :: lit_body s ++ [q].
Proof. unfold lit_body. cbn [render_chunk tl]. rewrite removelast_last. reflexivity. Qed.

Lemma lit_body_eq s : lit_body s = js_escape_soy jsstr_pair_js is_print_tbl s.
Proof.
  unfold lit_body. cbn [render_chunk tl]. rewrite removelast_last.
  (* Model/JsGen.v names js_escape_soy jsstr_pair_js; a JsGen.v that still names the library's js_escape is
     the same function exactly while the tree calls the library *)
  first [reflexivity | unfold jsstr_pair_js; symmetry; apply js_escape_soy_false].
Qed.

Definition lit_guard (s : bstr) : Prop :=
  utf8_valid s = true /\ (jsstr_pair_js = true \/ Forall (fun r => r < 65536 \/ is_print_tbl r = true) (runes s)).

Theorem strlit_denotes q s : q = 39 \/ q = 34 -> lit_guard s ->
  render_chunk is_print_tbl (CStrLit q s) = q :: lit_body s ++ [q]
  /\ js_read_literal_q q (lit_body s) = Some s
  /\ Forall js_inert (lit_body s).
Proof.
  intros Hq [Hv Hg]. split; [apply render_strlit|]. rewrite lit_body_eq. split; [|apply js_escape_soy_inert].
  apply (jsstr_roundtrip_soy_q jsstr_pair_js is_print_tbl is_print_tbl_ls is_print_tbl_ps q Hq); [exact Hv|].
  destruct Hg as [Hp|Hg]; [apply Forall_forall; intros; left; exact Hp|].
  eapply Forall_impl; [|exact Hg]. intros r Hr. right. exact Hr.
Qed.

(* every template-originated string the generator writes, in every generated
   file, under every option: the literal chunk reads back as the string *)
Theorem literals_denote o fuel name body cs : gen_file o fuel name body = Ok cs ->
  forall q s, In (CStrLit q s) cs -> lit_guard s ->
    (q = 39 \/ q = 34)
    /\ js_read_literal_q q (lit_body s) = Some s
    /\ Forall js_inert (lit_body s).
Proof.
  intros E q s Hin Hg. pose proof (gen_chunks_wf _ _ _ _ _ E) as F.
  pose proof (proj1 (Forall_forall _ _) F _ Hin) as Hq. cbn in Hq.
  split; [exact Hq|]. destruct (strlit_denotes q s Hq Hg) as (_ & H2 & H3). auto.
Qed.

Theorem literals_denote_repaired : jsstr_pair_js = true ->
  forall o fuel name body cs, gen_file o fuel name body = Ok cs ->
  forall q s, In (CStrLit q s) cs -> utf8_valid s = true ->
    (q = 39 \/ q = 34)
    /\ js_read_literal_q q (lit_body s) = Some s
    /\ Forall js_inert (lit_body s).
Proof. intros Hp o fuel name body cs E q s Hin Hv. apply (literals_denote o fuel name body cs E q s Hin). split; [exact Hv|left; exact Hp]. Qed.

(* while the library's escaper is called (jsstr_pair_js = false) the unguarded statement is false of the
   faithful model: a non-printable astral rune is written with five hex digits (finding
   js-literal-astral-nonprint-5hex); with internal/jsescape the guard is void (lit_guard's first disjunct) *)
Theorem literals_astral_refuted : jsstr_pair_js = false ->
  exists s, utf8_valid s = true
            /\ render_chunk is_print_tbl (CStrLit 39 s) = [39; 92; 117; 70; 48; 48; 48; 48; 39]
            /\ js_read_literal_q 39 (lit_body s) <> Some s.
Proof.
  intros Hp. destruct jsstr_astral_refuted as (s & Hv & He & _ & Hne). exists s.
  assert (lit_body s = js_escape is_print_tbl s) as Hb by (rewrite lit_body_eq, Hp; apply js_escape_soy_false).
  split; [exact Hv|]. split.
  - rewrite render_strlit, Hb, He. reflexivity.
  - rewrite Hb. exact Hne.
Qed.

(* ---- the emission sites of template-originated strings ----
   Each kind of string goes to the output as a CStrLit chunk carrying exactly
   the original bytes (the equations hold by computation, for every state). *)
Definition out_after (m : J unit) (st : jstate) : option (list chunk) :=
  match m st with Ok (_, st') => Some (j_out st') | _ => None end.

Lemma site_raw_text o w prev p t st :
  out_after (jwalk_node o w prev (NRawText p t)) st
  = Some (rev [CText (indent_text (j_indent st)); CName (j_buf st); CText t_pluseq; CStrLit 39 t; CText t_semi_nl] ++ j_out st).
Proof. reflexivity. Qed.

Lemma site_msg_html_tag o w prev p t st :
  out_after (jwalk_node o w prev (NMsgHtmlTag p t)) st
  = Some (rev [CText (indent_text (j_indent st)); CName (j_buf st); CText t_pluseq; CStrLit 39 t; CText t_semi_nl] ++ j_out st).
Proof. reflexivity. Qed.

Lemma site_css_suffix o w prev p sfx st :
  out_after (jwalk_node o w prev (NCss p None sfx)) st
  = Some (rev [CText (indent_text (j_indent st)); CName (j_buf st); CText t_pluseq; CStrLit 39 sfx; CText t_semi_nl] ++ j_out st).
Proof. reflexivity. Qed.

Lemma site_string_literal o w prev p quoted v st :
  out_after (jwalk_node o w prev (NString p quoted v)) st = Some (CStrLit 39 v :: j_out st).
Proof. reflexivity. Qed.

(* a global whose value is a string is walked as a string literal node of that value *)
Lemma site_global_string o w prev p name s : jwalk_node o w prev (NGlobal p name (VStr s)) = w (NString p n_unused s).
Proof. reflexivity. Qed.

(* map literal: each key is written as a double-quoted literal chunk before its value *)
Lemma site_map_key w first k x r :
  map_items w first ((k, x) :: r)
  = jbind (if first then jret tt else jtxt t_comma)
      (fun _ => jbind (jemit [CStrLit 34 k; CText t_colon]) (fun _ => jbind (w x) (fun _ => map_items w false r))).
Proof. reflexivity. Qed.

(* the text of a translation *)
Lemma site_translation_text w body t : jeval_part w body (JMRaw t) = write_raw_text t.
Proof. reflexivity. Qed.

(* a decidable form of the guard, for concrete strings *)
Definition lit_guard_b (s : bstr) : bool := utf8_valid s && forallb (fun r => (r <? 65536) || is_print_tbl r) (runes s).
Lemma lit_guard_b_ok s : lit_guard_b s = true -> lit_guard s.
Proof.
  unfold lit_guard_b, lit_guard. intro H. apply andb_prop in H. destruct H as [H1 H2]. split; [exact H1|]. right.
  apply Forall_forall. intros r Hr. pose proof (proj1 (forallb_forall _ _) H2 r Hr) as H.
  apply orb_prop in H. destruct H as [H|H]; [left; apply N.ltb_lt; exact H|right; exact H].
Qed.

(* ---- the vocabulary of generator text ----
   [in_vocabulary] does not mention the file, the options or the state: it is a
   fixed set of byte strings (plus the indentation strings).  Every CText chunk
   of every generated file is in it, so the bytes of a template (raw text,
   string literals, map keys, css names, message and translation text, global
   values, and also identifiers) never reach the output as generator text:
   strings go through CStrLit (the escaper), identifiers through CName, numbers
   through CNum, the file name through CFile. *)
Definition in_vocabulary (t : bstr) : Prop :=
  In t body_texts \/ In t table_texts \/ (exists n, t = indent_text n) \/ (exists op_, t = binop_sym op_)
  \/ t = t_fn_params \/ t = t_ns1.

Theorem no_template_bytes_in_text o fuel name body cs : gen_file o fuel name body = Ok cs ->
  forall c, In c cs ->
    match c with
    | CText t => in_vocabulary t
    | CStrLit q _ => q = 39 \/ q = 34           (* a template string, between quotes, through template.JSEscape *)
    | CName _ | CNum _ | CFile _ => True         (* an identifier, a number, the file name in the header comment *)
    end.
Proof.
  intros E c Hin. pose proof (proj1 (Forall_forall _ _) (gen_chunks_wf _ _ _ _ _ E) c Hin) as H.
  destruct c; cbn in H; auto.
Qed.

(* the emission sites are exhaustive over the node constructors that carry a
   template string: walking ANY node appends only well-formed chunks, so a
   constructor's string field can appear in the output in a CStrLit chunk only
   (the per-constructor equations are the site_* lemmas above) *)
Theorem walk_chunks_wf o fuel n st x st' : jwalk o fuel n st = Ok (x, st') ->
  Forall (fun kv : bstr * list chunk => Forall chunk_wf (snd kv)) (j_called st) ->
  exists cs, j_out st' = rev cs ++ j_out st /\ Forall chunk_wf cs.
Proof.
  intros E Hc.
  assert (H : jspec chunk_wf T (jwalk o fuel n)).
  { refine (sp_walk o chunk_wf (fun _ => True) _ _ _ _ _ _ _ _ _ _ _ _ _ fuel n I).
    - intros m _. apply Forall_forall. auto.
    - auto.
    - intros t H. cbn. auto.
    - intros t H. cbn. auto.
    - intros k. cbn. right; right; left. exists k; reflexivity.
    - intros op_. cbn. right; right; right; left. exists op_; reflexivity.
    - intros q s H. exact H.
    - intros s. exact I.
    - intros z. cbn. left. exists z; reflexivity.
    - intros k. cbn. right; left. exists k; reflexivity.
    - intros f s H. cbn. right; right. exists f; exact H.
    - intros. cbn. tauto.
    - intros. cbn. tauto. }
  destruct (H st x st' Hc E) as (cs & Eo & F & _). exists cs. auto.
Qed.
