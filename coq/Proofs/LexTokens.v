(* "Lexes exactly this token": what the scanner model does, in expression position (state
   lexInsideTag), on an input whose next bytes are the text of one item of the kinds the expression
   printer (Model/AstPrint.v) emits, under the look-ahead condition each kind needs.

   The scanner's cursor is described by [span l w s]: the input from l.start on is w ++ s and
   l.pos stands after w (w = the pending text of the current item, s = what is still to be read).
   [steps k] is k iterations of the state machine.  Identifiers are ASCII here: the unicode classes
   are assumed to agree with the ASCII classes on ASCII (true of the regenerated tables), and names
   with non-ASCII letters are outside these lemmas. *)
From Soy Require Import Model.Bytes Model.Utf8 Model.Outcome Model.Token Generated.Tables Model.Lexer
  Proofs.LexerPrim Proofs.LexerStates.
From Coq Require Import ZifyBool ZifyNat ZifyN Lia.
Open Scope Z_scope.

(* ---------- lists ---------- *)

Lemma drop_S_cons (n : nat) (s : bstr) c r : drop n s = c :: r -> drop (S n) s = r.
Proof.
  revert s; induction n as [|n IH]; intros s H; cbn in *.
  - subst s. reflexivity.
  - destruct s as [|a s]; [discriminate|]. cbn. apply IH. exact H.
Qed.

Lemma drop_add (n m : nat) (s : bstr) : drop (n + m) s = drop m (drop n s).
Proof.
  revert s; induction n as [|n IH]; intros s; cbn; [reflexivity|].
  destruct s as [|a s]; [destruct m; reflexivity|]. apply IH.
Qed.

Lemma drop_app_len (w s : bstr) : drop (length w) (w ++ s) = s.
Proof. induction w as [|a w IH]; cbn; auto. Qed.

Lemma take_app_len (w s : bstr) : take (length w) (w ++ s) = w.
Proof. induction w as [|a w IH]; cbn; [destruct s; reflexivity|]. rewrite IH. reflexivity. Qed.

Lemma drop_nil_len (n : nat) (s : bstr) : drop n s = [] -> (length s <= n)%nat.
Proof. intros H. apply (f_equal (@length _)) in H. rewrite drop_length in H. cbn in H. lia. Qed.

Lemma drop_cons_len (n : nat) (s : bstr) c r : drop n s = c :: r -> (n + S (length r) = length s)%nat.
Proof.
  intros H. pose proof (f_equal (@length _) H) as HL. rewrite drop_length in HL. cbn in HL. lia.
Qed.

(* k steps of the machine *)
Section Steps.
Variable uni_letter uni_digit : Z -> bool.
Variable inp : bstr.
Variable base : Z.
Notation ilen := (Z.of_nat (length inp)).
Notation step := (Lexer.step uni_letter uni_digit inp ilen base).

Fixpoint steps (k : nat) (st : lstate) (l : lx) : outcome (lstate * lx) :=
  match k with
  | O => Ok (st, l)
  | S k' => '(st', l') <- step st l ;; steps k' st' l'
  end.

Lemma steps_app k1 k2 st l st1 l1 :
  steps k1 st l = Ok (st1, l1) -> steps (k1 + k2) st l = steps k2 st1 l1.
Proof.
  revert st l; induction k1 as [|k1 IH]; intros st l H; cbn in *.
  - injection H as -> ->. reflexivity.
  - destruct (step st l) as [[st' l']| | | | |]; cbn in *; try discriminate. apply IH. exact H.
Qed.

Lemma steps_one st l st1 l1 : step st l = Ok (st1, l1) -> steps 1 st l = Ok (st1, l1).
Proof. intros H. cbn. rewrite H. reflexivity. Qed.

(* a run with enough fuel passes through the same states *)
Lemma run_steps k : forall st l st1 l1 fuel,
  steps k st l = Ok (st1, l1) -> (forall j, (j < k)%nat -> forall stj lj, steps j st l = Ok (stj, lj) -> stj <> LDone) ->
  run uni_letter uni_digit inp ilen base (k + fuel) st l = run uni_letter uni_digit inp ilen base fuel st1 l1.
Proof.
  induction k as [|k IH]; intros st l st1 l1 fuel H Hnd; cbn [steps] in H.
  - injection H as -> ->. reflexivity.
  - assert (Hst : st <> LDone) by (apply (Hnd 0%nat ltac:(lia) st l); reflexivity).
    destruct (step st l) as [[st' l']| | | | |] eqn:E; cbn in H; try discriminate.
    change (S k + fuel)%nat with (S (k + fuel)).
    destruct st; try congruence; cbn [run]; rewrite E; cbn [bind];
      (apply IH; [exact H|]; intros j Hj stj lj Hs; apply (Hnd (S j) ltac:(lia) stj lj); cbn [steps]; rewrite E; exact Hs).
Qed.

End Steps.

Definition letter_b (c : N) : bool := ((65 <=? c) && (c <=? 90) || (97 <=? c) && (c <=? 122) || (c =? 95))%N.
Definition digit_b (c : N) : bool := ((48 <=? c) && (c <=? 57))%N.
Definition alnum_b (c : N) : bool := letter_b c || digit_b c.
(* what may follow an identifier or a number: the end of the input or an ASCII byte that is not alphanumeric *)
Definition stops (s : bstr) : Prop := match s with [] => True | c :: _ => (c < 128)%N /\ alnum_b c = false end.

Section Tokens.
Variable inp : bstr.
Notation ilen := (Z.of_nat (length inp)).

(* the cursor: from l.start the input reads w ++ s, and l.pos is after w *)
Definition span (l : lx) (w s : bstr) : Prop :=
  0 <= l_start l <= ilen /\ drop (Z.to_nat (l_start l)) inp = w ++ s /\ l_pos l = l_start l + Z.of_nat (length w).

Lemma span_cur l w s : span l w s -> 0 <= l_pos l /\ drop (Z.to_nat (l_pos l)) inp = s.
Proof.
  intros (H0 & Hd & Hp). split; [lia|].
  replace (Z.to_nat (l_pos l)) with (Z.to_nat (l_start l) + length w)%nat by lia.
  rewrite drop_add, Hd. apply drop_app_len.
Qed.

Lemma span_bounds l w s : span l w s -> 0 <= l_start l <= l_pos l /\ l_pos l + Z.of_nat (length s) = ilen.
Proof.
  intros (H0 & Hd & Hp). pose proof (f_equal (@length _) Hd) as HL. rewrite drop_length, app_length in HL. lia.
Qed.

(* the lexer after reading one more rune of width 1 / after meeting the end of input *)
Definition adv (l : lx) : lx :=
  {| l_pos := l_pos l + Z.of_nat 1; l_start := l_start l; l_width := Z.of_nat 1; l_dd := l_dd l; l_last := l_last l;
     l_out := l_out l; l_ticks := l_ticks l + 1 |}.
Definition ateof (l : lx) : lx :=
  {| l_pos := l_pos l; l_start := l_start l; l_width := 0; l_dd := l_dd l; l_last := l_last l;
     l_out := l_out l; l_ticks := l_ticks l + 1 |}.

Lemma next_ascii l w c s : span l w (c :: s) -> (c < 128)%N ->
  next inp ilen l = Ok (Z.of_N c, adv l) /\ span (adv l) (w ++ [c]) s.
Proof.
  intros Hs Hc. pose proof (span_cur _ _ _ Hs) as (Hp & Hd). pose proof (span_bounds _ _ _ Hs) as (Hb & Hl).
  cbn [length] in Hl. split.
  - unfold next. destruct (ilen <=? l_pos l) eqn:E; [lia|]. destruct (l_pos l <? 0) eqn:E2; [lia|].
    rewrite Hd. unfold decode_rune. apply N.ltb_lt in Hc. rewrite Hc. reflexivity.
  - destruct Hs as (H0 & Hds & Hps). unfold span, adv. cbn [l_start l_pos]. split; [exact H0|]. split.
    + rewrite Hds, <- app_assoc. reflexivity.
    + rewrite app_length. cbn [length]. lia.
Qed.

Lemma next_eof l w : span l w [] -> next inp ilen l = Ok (eof, ateof l).
Proof.
  intros Hs. pose proof (span_bounds _ _ _ Hs) as (Hb & Hl). cbn [length] in Hl.
  unfold next. destruct (ilen <=? l_pos l) eqn:E; [reflexivity|lia].
Qed.

(* stepping back over the ASCII rune just read *)
Lemma span_backup l w c s : span l w (c :: s) -> span (backup (adv l)) w (c :: s).
Proof.
  intros (H0 & Hd & Hp). unfold span, backup, adv, set_pos. cbn [l_start l_pos l_width]. repeat split; try assumption; lia.
Qed.

Lemma span_ignore l w s : span l w s -> span (ignore l) [] s.
Proof.
  intros Hs. pose proof (span_cur _ _ _ Hs) as (Hp & Hd).
  pose proof (span_bounds _ _ _ Hs) as (Hb & Hl).
  unfold span, ignore, set_start. cbn [l_start l_pos length]. repeat split; [exact Hp|lia|exact Hd|lia].
Qed.


Definition head_ascii (s : bstr) : Prop := match s with [] => True | c :: _ => (c < 128)%N end.
Definition head_digit (s : bstr) : bool := match s with c :: _ => digit_b c | [] => false end.

(* reading one rune and stepping back: nothing moves; the rune is eof or the next (ASCII) byte *)
Lemma next_back l w s : span l w s -> head_ascii s ->
  exists r l1, next inp ilen l = Ok (r, l1) /\ span (backup l1) w s /\
    l_out l1 = l_out l /\ l_last l1 = l_last l /\ l_dd l1 = l_dd l /\ l_start l1 = l_start l /\
    gen_isDigit r = head_digit s.
Proof.
  intros Hs Ha. destruct s as [|c s].
  - exists eof, (ateof l). rewrite (next_eof l w Hs). split; [reflexivity|]. split; [|repeat split].
    unfold span, backup, ateof, set_pos. cbn [l_pos l_start l_width]. destruct Hs as (H0 & Hd & Hp). repeat split; try assumption; lia.
  - cbn in Ha. destruct (next_ascii l w c s Hs Ha) as (Hn & Hs'). exists (Z.of_N c), (adv l). split; [exact Hn|].
    split; [apply span_backup; exact Hs|repeat split]. unfold gen_isDigit, head_digit, digit_b. lia.
Qed.

Definition head_rune (s : bstr) : Z := match s with [] => eof | c :: _ => Z.of_N c end.

Lemma next_back2 l w s : span l w s -> head_ascii s ->
  exists l1, next inp ilen l = Ok (head_rune s, l1) /\ span (backup l1) w s /\
    l_out l1 = l_out l /\ l_last l1 = l_last l /\ l_dd l1 = l_dd l.
Proof.
  intros Hs Ha. destruct s as [|c s].
  - exists (ateof l). rewrite (next_eof l w Hs). split; [reflexivity|]. split; [|repeat split].
    unfold span, backup, ateof, set_pos. cbn [l_pos l_start l_width]. destruct Hs as (H0 & Hd & Hp). repeat split; try assumption; lia.
  - cbn in Ha. destruct (next_ascii l w c s Hs Ha) as (Hn & Hs'). exists (adv l). split; [exact Hn|].
    split; [apply span_backup; exact Hs|repeat split].
Qed.

Lemma peek_span l w s : span l w s -> head_ascii s ->
  exists l1, peek inp ilen l = Ok (head_rune s, l1) /\ span l1 w s /\
    l_out l1 = l_out l /\ l_last l1 = l_last l /\ l_dd l1 = l_dd l.
Proof.
  intros Hs Ha. destruct (next_back2 l w s Hs Ha) as (l1 & Hn & Hs1 & Ho & Hla & Hd).
  exists (backup l1). unfold peek. rewrite Hn. cbn [bind]. split; [reflexivity|]. split; [exact Hs1|].
  unfold backup, set_pos. cbn [l_out l_last l_dd]. auto.
Qed.

Lemma slice_span l w s : span l w s -> slice inp ilen (l_start l) (l_pos l) = Ok w.
Proof.
  intros Hs. pose proof (span_bounds _ _ _ Hs) as (Hb & Hlen). destruct Hs as (H0 & Hd & Hp). unfold slice.
  destruct ((l_start l <? 0) || (l_pos l <? l_start l) || (ilen <? l_pos l)) eqn:E; [lia|].
  rewrite Hd. replace (Z.to_nat (l_pos l - l_start l)) with (length w) by lia. rewrite take_app_len. reflexivity.
Qed.

(* ---------- emit on a span ---------- *)
Variable base : Z.

Definition mktok (t : N) (l : lx) (w : bstr) : tok := {| t_typ := t; t_pos := Z.to_N (base + l_pos l); t_val := w |}.
Definition emitted (t : N) (l : lx) (w : bstr) : lx :=
  {| l_pos := l_pos l; l_start := l_pos l; l_width := l_width l; l_dd := l_dd l; l_last := mktok t l w;
     l_out := mktok t l w :: l_out l; l_ticks := l_ticks l |}.

Lemma emit_span t l w s : span l w s ->
  emit inp ilen base t l = Ok (emitted t l w) /\ span (emitted t l w) [] s.
Proof.
  intros Hs. pose proof (span_bounds _ _ _ Hs) as (Hb & Hl). pose proof (span_cur _ _ _ Hs) as (Hp & Hd).
  destruct Hs as (H0 & Hds & Hps). split.
  - unfold emit. destruct (ilen <? l_pos l) eqn:E; [lia|]. unfold slice.
    destruct ((l_start l <? 0) || (l_pos l <? l_start l) || (ilen <? l_pos l)) eqn:E2; [lia|].
    cbn [bind]. rewrite Hds. replace (Z.to_nat (l_pos l - l_start l)) with (length w) by lia.
    rewrite take_app_len. reflexivity.
  - unfold span, emitted. cbn [l_start l_pos length]. repeat split; [lia|lia|exact Hd|lia].
Qed.

(* an item of type t and text w was sent (its position is not recorded here), nothing else changed *)
Definition sent (t : N) (w : bstr) (l l' : lx) : Prop :=
  exists p, l_out l' = {| t_typ := t; t_pos := p; t_val := w |} :: l_out l /\
            l_last l' = {| t_typ := t; t_pos := p; t_val := w |} /\ l_dd l' = l_dd l.
Definition unsent (l l' : lx) : Prop := l_out l' = l_out l /\ l_last l' = l_last l /\ l_dd l' = l_dd l.

Lemma sent_emitted t l0 l w : l_out l = l_out l0 -> l_last l = l_last l0 -> l_dd l = l_dd l0 -> sent t w l0 (emitted t l w).
Proof. intros H1 H2 H3. exists (Z.to_N (base + l_pos l)). unfold emitted, mktok. cbn. rewrite H1, H3. auto. Qed.

End Tokens.

(* evaluate the tests of a state function on a concrete rune *)
Ltac eval_tests :=
  repeat (
    match goal with
    | |- context [if ?c then _ else _] =>
        let v := eval vm_compute in c in
        lazymatch v with true => idtac | false => idtac end;
        change c with v; cbv iota
    end; cbn [bind]; cbn beta iota).

Section Punct.
Variable uni_letter uni_digit : Z -> bool.
Variable inp : bstr.
Variable base : Z.
Notation ilen := (Z.of_nat (length inp)).
Notation steps := (steps uni_letter uni_digit inp base).
Notation span := (span inp).

(* white space inside a tag is skipped *)
Lemma lex_space l c s : span l [] (c :: s) -> gen_isSpaceEOL (Z.of_N c) = true ->
  exists l', steps 1 LInsideTag l = Ok (LInsideTag, l') /\ span l' [] s /\ unsent l l'.
Proof.
  intros Hs Hc. assert (Hlt : (c < 128)%N) by (apply isSpaceEOL_nonneg in Hc; lia).
  destruct (next_ascii inp l [] c s Hs Hlt) as (Hn & Hs').
  exists (ignore (adv l)). split; [|split; [apply (span_ignore inp _ _ _ Hs')|repeat split]].
  apply steps_one. cbn [step]. unfold lex_inside_tag. rewrite Hn. cbn [bind]. rewrite Hc. reflexivity.
Qed.

(* the single-character items: [ ] ( ) , : | * % + *)
Definition punct_table : list (N * N) :=
  [(91, itemLeftBracket); (93, itemRightBracket); (40, itemLeftParen); (41, itemRightParen); (44, itemComma);
   (58, itemColon); (124, itemPipe); (42, itemMul); (37, itemMod); (43, itemAdd)]%N.

Lemma lex_punct l c t s : span l [] (c :: s) -> assoc c punct_table = Some t ->
  exists l', steps 1 LInsideTag l = Ok (LInsideTag, l') /\ span l' [] s /\ sent t [c] l l'.
Proof.
  intros Hs Ht. unfold punct_table, assoc in Ht.
  repeat (match type of Ht with (if (c =? ?k)%N then _ else _) = _ =>
            destruct (N.eqb_spec c k) as [->|_];
            [injection Ht as <-;
             destruct (next_ascii inp l [] k s Hs ltac:(lia)) as (Hn & Hs');
             match goal with |- context [sent ?t _ _ _] =>
               destruct (emit_span inp base t (adv l) [k] s Hs') as (He & Hs2);
               exists (emitted base t (adv l) [k]); split; [|split; [exact Hs2|apply sent_emitted; reflexivity]];
               apply steps_one; cbn [step]; unfold lex_inside_tag; rewrite Hn; cbn [bind]; eval_tests;
               unfold emit_to; first [rewrite He | (change (arith_item [Z.to_N (Z.of_N k)]) with t; rewrite He)]; reflexivity
             end|]
          end).
  discriminate.
Qed.

End Punct.

(* ---------- identifiers (ASCII) ---------- *)


(* tests on an abstract rune: the branches that contradict what is known about it are closed by lia *)
Ltac unfold_classes :=
  unfold gen_isSpaceEOL, gen_isSpace, gen_isEndOfLine, gen_isLetterOrUnderscore, gen_isDigit,
         inside_tag_single_syms, inside_tag_cmp_syms, letter_b, digit_b, alnum_b, eof in *; cbn [existsb] in *.
Ltac kill_tests :=
  unfold_classes;
  repeat (match goal with
  | |- context [if ?c then _ else _] =>
      first [ let H := fresh "Hf" in assert (H : c = false) by lia; rewrite H; clear H
            | let H := fresh "Ht" in assert (H : c = true) by lia; rewrite H; clear H ]
  end; cbn [bind]; cbn beta iota).

Section Idents.
Variable uni_letter uni_digit : Z -> bool.
(* on ASCII the unicode classes are the ASCII classes (true of the regenerated tables: LexTokens.tables_ascii) *)
Hypothesis letter_ascii : forall c, (c < 128)%N -> uni_letter (Z.of_N c) = ((65 <=? c) && (c <=? 90) || (97 <=? c) && (c <=? 122))%N.
Hypothesis digit_ascii : forall c, (c < 128)%N -> uni_digit (Z.of_N c) = digit_b c.
Hypothesis letter_eof : uni_letter (-1) = false.
Hypothesis digit_eof : uni_digit (-1) = false.
Variable inp : bstr.
Variable base : Z.
Notation ilen := (Z.of_nat (length inp)).
Notation steps := (steps uni_letter uni_digit inp base).
Notation span := (span inp).

Lemma is_alnum_ascii c : (c < 128)%N -> is_alnum uni_letter uni_digit (Z.of_N c) = alnum_b c.
Proof.
  intros Hc. unfold is_alnum, gen_isAlphaNumeric. rewrite (letter_ascii c Hc), (digit_ascii c Hc).
  unfold alnum_b, letter_b, digit_b. lia.
Qed.

Lemma is_alnum_eof : is_alnum uni_letter uni_digit eof = false.
Proof. unfold is_alnum, gen_isAlphaNumeric, eof. rewrite letter_eof, digit_eof. reflexivity. Qed.

(* `for isAlphaNumeric(l.next()) {}; l.backup()` over a run of ASCII alphanumerics *)
Lemma alnum_loop_run cs : forall l w s fuel, span l w (cs ++ s) -> forallb (fun c => (c <? 128)%N && alnum_b c) cs = true -> stops s ->
  (length cs < fuel)%nat ->
  exists l1, alnum_loop uni_letter uni_digit inp ilen fuel l = Ok l1 /\ span (backup l1) (w ++ cs) s /\
             l_out l1 = l_out l /\ l_last l1 = l_last l /\ l_dd l1 = l_dd l.
Proof.
  induction cs as [|c cs IH]; intros l w s fuel Hs Hall Hst Hf; (destruct fuel as [|f]; [cbn in Hf; lia|]); cbn [alnum_loop].
  - cbn [app] in Hs. rewrite app_nil_r. destruct s as [|c s].
    + rewrite (next_eof inp l w Hs). cbn [bind]. rewrite is_alnum_eof. eexists. split; [reflexivity|].
      split; [|repeat split]. unfold span, backup, ateof, set_pos. cbn [l_pos l_start l_width]. destruct Hs as (H0 & Hd & Hp). repeat split; try assumption; lia.
    + destruct Hst as [Hc Hna]. destruct (next_ascii inp l w c s Hs Hc) as (Hn & Hs'). rewrite Hn. cbn [bind].
      rewrite (is_alnum_ascii c Hc), Hna. eexists. split; [reflexivity|]. split; [apply span_backup; exact Hs|repeat split].
  - cbn [forallb] in Hall. apply Bool.andb_true_iff in Hall. destruct Hall as [Hc Hall]. apply Bool.andb_true_iff in Hc. destruct Hc as [Hc Ha].
    apply N.ltb_lt in Hc. cbn [app] in Hs. destruct (next_ascii inp l w c (cs ++ s) Hs Hc) as (Hn & Hs'). rewrite Hn. cbn [bind].
    rewrite (is_alnum_ascii c Hc), Ha.
    destruct (IH (adv l) (w ++ [c]) s f Hs' Hall Hst ltac:(cbn in Hf; lia)) as (l1 & H1 & H2 & H3).
    exists l1. split; [exact H1|]. rewrite <- app_assoc in H2. split; [exact H2|exact H3].
Qed.

(* the type lexIdent gives a plain word: a keyword's, else itemIdent *)
Definition word_type (w : bstr) : N := match assoc_s w builtin_idents with Some t => t | None => itemIdent end.

Lemma loop_fuel_span l w s : span l w s -> (length s < loop_fuel ilen l)%nat.
Proof. intros Hs. pose proof (span_bounds inp _ _ _ Hs) as (Hb & Hl). unfold loop_fuel. lia. Qed.

(* a word: letter or underscore, then alphanumerics; two steps (lexInsideTag steps back, lexIdent scans) *)
Lemma lex_word l c0 cs s : span l [] (c0 :: cs ++ s) -> (c0 < 128)%N -> letter_b c0 = true ->
  forallb (fun c => (c <? 128)%N && alnum_b c) cs = true -> stops s ->
  word_type (c0 :: cs) <> itemLiteral -> word_type (c0 :: cs) <> itemCss ->
  exists l', steps 2 LInsideTag l = Ok (LInsideTag, l') /\ span l' [] s /\ sent (word_type (c0 :: cs)) (c0 :: cs) l l'.
Proof.
  intros Hs Hc0 Hl0 Hcs Hst Hnl Hnc.
  destruct (next_ascii inp l [] c0 (cs ++ s) Hs Hc0) as (Hn & Hs1).
  pose proof (span_backup inp l [] c0 (cs ++ s) Hs) as Hsb.
  set (lb := backup (adv l)) in *.
  (* step 1 *)
  assert (H1 : step uni_letter uni_digit inp ilen base LInsideTag l = Ok (LIdent, lb)).
  { cbn [step]. unfold lex_inside_tag. rewrite Hn. cbn [bind]. kill_tests. reflexivity. }
  (* step 2 *)
  destruct (next_ascii inp lb [] c0 (cs ++ s) Hsb Hc0) as (Hn2 & Hs2).
  destruct (alnum_loop_run cs (adv lb) ([] ++ [c0]) s (loop_fuel ilen (adv lb)) Hs2 Hcs Hst) as (l3 & Hloop & Hs3 & Ho3 & Hla3 & Hd3).
  { pose proof (loop_fuel_span _ _ _ Hs2) as Hf. rewrite app_length in Hf. lia. }
  cbn [app] in Hs3.
  destruct (emit_span inp base (word_type (c0 :: cs)) (backup l3) (c0 :: cs) s Hs3) as (He & Hs4).
  exists (emitted base (word_type (c0 :: cs)) (backup l3) (c0 :: cs)). split; [|split; [exact Hs4|]].
  - change 2%nat with (1 + 1)%nat. rewrite (steps_app _ _ _ _ 1 1 _ _ _ _ (steps_one _ _ _ _ _ _ _ _ H1)).
    apply steps_one. cbn [step]. unfold lex_ident. rewrite Hn2. cbn [bind]. kill_tests.
    rewrite Hloop. cbn [bind].
    assert (Hsl : slice inp ilen (l_start (backup l3)) (l_pos (backup l3)) = Ok (c0 :: cs)).
    { pose proof (span_bounds inp _ _ _ Hs3) as (Hb & Hlen). destruct Hs3 as (H0 & Hd & Hp). unfold slice.
      destruct ((l_start (backup l3) <? 0) || (l_pos (backup l3) <? l_start (backup l3)) || (ilen <? l_pos (backup l3))) eqn:E; [lia|].
      rewrite Hd. replace (Z.to_nat (l_pos (backup l3) - l_start (backup l3))) with (length (c0 :: cs)) by lia.
      rewrite take_app_len. reflexivity. }
    rewrite Hsl. cbn [bind]. unfold word_type in *. destruct (assoc_s (c0 :: cs) builtin_idents) as [t|] eqn:Et.
    + rewrite He. cbn [bind]. destruct (N.eqb_spec t itemLiteral); [congruence|]. destruct (N.eqb_spec t itemCss); [congruence|]. reflexivity.
    + cbn [N.eqb itemIdent itemCommandEnd itemSpecialChar orb]. unfold emit_to. rewrite He. reflexivity.
  - apply sent_emitted; unfold backup, set_pos; cbn [l_out l_last l_dd]; [rewrite Ho3|rewrite Hla3|rewrite Hd3]; reflexivity.
Qed.

(* ---------- $ident .ident .N ?.ident ?.N ---------- *)

Lemma assoc_s_key {A} (k : bstr) (tbl : list (bstr * A)) v :
  assoc_s k tbl = Some v -> exists k', In (k', v) tbl /\ bstr_eqb k k' = true.
Proof.
  induction tbl as [|[k' v'] tbl IH]; cbn; [discriminate|]. destruct (bstr_eqb k k') eqn:E.
  - intros H. injection H as <-. exists k'. split; [left; reflexivity|exact E].
  - intros H. destruct (IH H) as (k2 & Hin & Hk). exists k2. split; [right; exact Hin|exact Hk].
Qed.

(* no keyword starts with $ . or ? *)
Lemma sigil_not_builtin c w : (c = 36 \/ c = 46 \/ c = 63)%N -> assoc_s (c :: w) builtin_idents = None.
Proof.
  intros Hc. destruct (assoc_s (c :: w) builtin_idents) as [t|] eqn:E; [|reflexivity]. exfalso.
  destruct (assoc_s_key _ _ _ E) as (k' & Hin & Hk).
  assert (Hall : forallb (fun p => match fst p with c :: _ => negb ((c =? 36) || (c =? 46) || (c =? 63))%N | [] => true end) builtin_idents = true)
    by (vm_compute; reflexivity).
  rewrite forallb_forall in Hall. specialize (Hall _ Hin). cbn [fst] in Hall.
  destruct k' as [|c' w']; cbn [bstr_eqb] in Hk; [discriminate|].
  apply Bool.andb_true_iff in Hk. destruct Hk as [Hk _]. apply N.eqb_eq in Hk. subst c'. lia.
Qed.

(* the end of lexIdent: absorb the rest of the identifier, look the word up, emit *)
Lemma ident_tail ity l0 l2 pre cs s :
  span l2 pre (cs ++ s) -> forallb (fun c => (c <? 128)%N && alnum_b c) cs = true -> stops s ->
  assoc_s (pre ++ cs) builtin_idents = None -> ity <> itemCommandEnd -> ity <> itemSpecialChar ->
  l_out l2 = l_out l0 -> l_last l2 = l_last l0 -> l_dd l2 = l_dd l0 ->
  exists l',
    (l3 <- alnum_loop uni_letter uni_digit inp ilen (loop_fuel ilen l2) l2 ;;
     let l4 := backup l3 in
     word <- slice inp ilen (l_start l4) (l_pos l4) ;;
     match assoc_s word builtin_idents with
     | Some t =>
         l5 <- emit inp ilen base t l4 ;;
         if (t =? itemLiteral)%N then Ok (LLiteral, l5)
         else if (t =? itemCss)%N then Ok (LCss, l5)
         else Ok (LInsideTag, l5)
     | None =>
         if (ity =? itemCommandEnd)%N || (ity =? itemSpecialChar)%N then
           errorf base e_ident (set_pos l4 (l_start l4))
         else emit_to inp ilen base ity LInsideTag l4
     end) = Ok (LInsideTag, l') /\ span l' [] s /\ sent ity (pre ++ cs) l0 l'.
Proof.
  intros Hs Hcs Hst Hnb Hn1 Hn2 Ho Hla Hd.
  destruct (alnum_loop_run cs l2 pre s (loop_fuel ilen l2) Hs Hcs Hst) as (l3 & Hloop & Hs3 & Ho3 & Hla3 & Hd3).
  { pose proof (loop_fuel_span _ _ _ Hs) as Hf. rewrite app_length in Hf. lia. }
  destruct (emit_span inp base ity (backup l3) (pre ++ cs) s Hs3) as (He & Hs4).
  exists (emitted base ity (backup l3) (pre ++ cs)). split; [|split; [exact Hs4|]].
  - rewrite Hloop. cbn [bind]. cbv zeta.
    assert (Hsl : slice inp ilen (l_start (backup l3)) (l_pos (backup l3)) = Ok (pre ++ cs)).
    { pose proof (span_bounds inp _ _ _ Hs3) as (Hb & Hlen). destruct Hs3 as (H0 & Hdd & Hp). unfold slice.
      destruct ((l_start (backup l3) <? 0) || (l_pos (backup l3) <? l_start (backup l3)) || (ilen <? l_pos (backup l3))) eqn:E; [lia|].
      rewrite Hdd. replace (Z.to_nat (l_pos (backup l3) - l_start (backup l3))) with (length (pre ++ cs)) by lia.
      rewrite take_app_len. reflexivity. }
    rewrite Hsl. cbn [bind]. rewrite Hnb.
    destruct (N.eqb_spec ity itemCommandEnd); [congruence|]. destruct (N.eqb_spec ity itemSpecialChar); [congruence|].
    cbn [orb]. unfold emit_to. rewrite He. reflexivity.
  - apply sent_emitted; unfold backup, set_pos; cbn [l_out l_last l_dd]; congruence.
Qed.


Lemma stops_head_ascii s : stops s -> head_ascii s.
Proof. destruct s; cbn; tauto. Qed.

Lemma lex_dollar l cs s : span l [] (36 :: cs ++ s)%N ->
  forallb (fun c => (c <? 128)%N && alnum_b c) cs = true -> stops s ->
  exists l', steps 2 LInsideTag l = Ok (LInsideTag, l') /\ span l' [] s /\ sent itemDollarIdent (36 :: cs)%N l l'.
Proof.
  intros Hs Hcs Hst.
  destruct (next_ascii inp l [] 36%N (cs ++ s) Hs ltac:(lia)) as (Hn & Hs1).
  pose proof (span_backup inp l [] 36%N (cs ++ s) Hs) as Hsb. set (lb := backup (adv l)) in *.
  assert (H1 : step uni_letter uni_digit inp ilen base LInsideTag l = Ok (LIdent, lb)).
  { cbn [step]. unfold lex_inside_tag. rewrite Hn. cbn [bind]. eval_tests. reflexivity. }
  destruct (next_ascii inp lb [] 36%N (cs ++ s) Hsb ltac:(lia)) as (Hn2 & Hs2).
  destruct (ident_tail itemDollarIdent l (adv lb) ([] ++ [36%N]) cs s Hs2 Hcs Hst) as (l' & Ht & Hs' & Hsent);
    [apply sigil_not_builtin; lia|discriminate|discriminate|reflexivity|reflexivity|reflexivity|].
  exists l'. split; [|split; [exact Hs'|exact Hsent]].
  change 2%nat with (1 + 1)%nat. rewrite (steps_app _ _ _ _ 1 1 _ _ _ _ (steps_one _ _ _ _ _ _ _ _ H1)).
  apply steps_one. cbn [step]. unfold lex_ident. rewrite Hn2. cbn [bind]. eval_tests. exact Ht.
Qed.

(* .ident / .N: the type depends on the character after the dot *)
Lemma lex_dot l cs s : span l [] (46 :: cs ++ s)%N ->
  forallb (fun c => (c <? 128)%N && alnum_b c) cs = true -> stops s ->
  exists l', steps 2 LInsideTag l = Ok (LInsideTag, l') /\ span l' [] s /\
             sent (if head_digit (cs ++ s) then itemDotIndex else itemDotIdent) (46 :: cs)%N l l'.
Proof.
  intros Hs Hcs Hst.
  destruct (next_ascii inp l [] 46%N (cs ++ s) Hs ltac:(lia)) as (Hn & Hs1).
  pose proof (span_backup inp l [] 46%N (cs ++ s) Hs) as Hsb. set (lb := backup (adv l)) in *.
  assert (H1 : step uni_letter uni_digit inp ilen base LInsideTag l = Ok (LIdent, lb)).
  { cbn [step]. unfold lex_inside_tag. rewrite Hn. cbn [bind]. eval_tests. reflexivity. }
  destruct (next_ascii inp lb [] 46%N (cs ++ s) Hsb ltac:(lia)) as (Hn2 & Hs2).
  assert (Hha : head_ascii (cs ++ s)).
  { destruct cs as [|c cs]; [apply stops_head_ascii; exact Hst|]. cbn in Hcs |- *. apply Bool.andb_true_iff in Hcs. destruct Hcs as [Hc _].
    apply Bool.andb_true_iff in Hc. destruct Hc as [Hc _]. apply N.ltb_lt in Hc. exact Hc. }
  destruct (next_back inp (adv lb) ([] ++ [46%N]) (cs ++ s) Hs2 Hha) as (d & l2 & Hn3 & Hs3 & Ho & Hla & Hdd & Hst2 & Hdig).
  set (ity := if head_digit (cs ++ s) then itemDotIndex else itemDotIdent).
  destruct (ident_tail ity l (backup l2) ([] ++ [46%N]) cs s Hs3 Hcs Hst) as (l' & Ht & Hs' & Hsent);
    [apply sigil_not_builtin; lia|unfold ity; destruct (head_digit (cs ++ s)); discriminate|unfold ity; destruct (head_digit (cs ++ s)); discriminate| | | |].
  1-3: unfold backup, set_pos; cbn [l_out l_last l_dd]; rewrite ?Ho, ?Hla, ?Hdd; reflexivity.
  exists l'. split; [|split; [exact Hs'|exact Hsent]].
  change 2%nat with (1 + 1)%nat. rewrite (steps_app _ _ _ _ 1 1 _ _ _ _ (steps_one _ _ _ _ _ _ _ _ H1)).
  apply steps_one. cbn [step]. unfold lex_ident. rewrite Hn2. cbn [bind]. eval_tests. rewrite Hn3. cbn [bind].
  rewrite Hdig. exact Ht.
Qed.

(* ?.ident / ?.N *)
Lemma lex_qdot l cs s : span l [] (63 :: 46 :: cs ++ s)%N ->
  forallb (fun c => (c <? 128)%N && alnum_b c) cs = true -> stops s ->
  exists l', steps 2 LInsideTag l = Ok (LInsideTag, l') /\ span l' [] s /\
             sent (if head_digit (cs ++ s) then itemQuestionDotIndex else itemQuestionDotIdent) (63 :: 46 :: cs)%N l l'.
Proof.
  intros Hs Hcs Hst.
  destruct (next_ascii inp l [] 63%N (46%N :: cs ++ s) Hs ltac:(lia)) as (Hn & Hs1).
  destruct (next_ascii inp (adv l) ([] ++ [63%N]) 46%N (cs ++ s) Hs1 ltac:(lia)) as (Hn' & Hs1').
  set (lb := set_pos (adv (adv l)) (l_pos (adv (adv l)) - 2)).
  assert (Hsb : span lb [] (63 :: 46 :: cs ++ s)%N).
  { destruct Hs as (H0 & Hd & Hp). unfold span, lb, set_pos, adv. cbn [l_start l_pos length] in *. repeat split; try assumption; lia. }
  assert (H1 : step uni_letter uni_digit inp ilen base LInsideTag l = Ok (LIdent, lb)).
  { cbn [step]. unfold lex_inside_tag. rewrite Hn. cbn [bind]. eval_tests. rewrite Hn'. cbn [bind]. eval_tests. reflexivity. }
  destruct (next_ascii inp lb [] 63%N (46%N :: cs ++ s) Hsb ltac:(lia)) as (Hn2 & Hs2).
  destruct (next_ascii inp (adv lb) ([] ++ [63%N]) 46%N (cs ++ s) Hs2 ltac:(lia)) as (Hn3 & Hs3).
  assert (Hha : head_ascii (cs ++ s)).
  { destruct cs as [|c cs]; [apply stops_head_ascii; exact Hst|]. cbn in Hcs |- *. apply Bool.andb_true_iff in Hcs. destruct Hcs as [Hc _].
    apply Bool.andb_true_iff in Hc. destruct Hc as [Hc _]. apply N.ltb_lt in Hc. exact Hc. }
  destruct (next_back inp (adv (adv lb)) (([] ++ [63%N]) ++ [46%N]) (cs ++ s) Hs3 Hha) as (d & l2 & Hn4 & Hs4 & Ho & Hla & Hdd & Hst2 & Hdig).
  set (ity := if head_digit (cs ++ s) then itemQuestionDotIndex else itemQuestionDotIdent).
  destruct (ident_tail ity l (backup l2) (([] ++ [63%N]) ++ [46%N]) cs s Hs4 Hcs Hst) as (l' & Ht & Hs' & Hsent);
    [apply sigil_not_builtin; lia|unfold ity; destruct (head_digit (cs ++ s)); discriminate|unfold ity; destruct (head_digit (cs ++ s)); discriminate| | | |].
  1-3: unfold backup, set_pos; cbn [l_out l_last l_dd]; rewrite ?Ho, ?Hla, ?Hdd; reflexivity.
  exists l'. split; [|split; [exact Hs'|exact Hsent]].
  change 2%nat with (1 + 1)%nat. rewrite (steps_app _ _ _ _ 1 1 _ _ _ _ (steps_one _ _ _ _ _ _ _ _ H1)).
  apply steps_one. cbn [step]. unfold lex_ident. rewrite Hn2. cbn [bind]. eval_tests. rewrite Hn3. cbn [bind]. eval_tests.
  rewrite Hn4. cbn [bind]. rewrite Hdig. exact Ht.
Qed.

End Idents.

Section Ops.
Variable uni_letter uni_digit : Z -> bool.
Variable inp : bstr.
Variable base : Z.
Notation ilen := (Z.of_nat (length inp)).
Notation steps := (steps uni_letter uni_digit inp base).
Notation span := (span inp).

(* ?[ and ?: *)
Lemma lex_q2 l c t s : span l [] (63 :: c :: s)%N ->
  (c = 91 /\ t = itemQuestionKey \/ c = 58 /\ t = itemElvis)%N ->
  exists l', steps 1 LInsideTag l = Ok (LInsideTag, l') /\ span l' [] s /\ sent t [63; c]%N l l'.
Proof.
  intros Hs Hc.
  destruct (next_ascii inp l [] 63%N (c :: s) Hs ltac:(lia)) as (Hn & Hs1).
  destruct (next_ascii inp (adv l) ([] ++ [63%N]) c s Hs1 ltac:(lia)) as (Hn' & Hs1').
  destruct (emit_span inp base t (adv (adv l)) (([] ++ [63%N]) ++ [c]) s Hs1') as (He & Hs2).
  exists (emitted base t (adv (adv l)) (([] ++ [63%N]) ++ [c])). split; [|split; [exact Hs2|apply sent_emitted; reflexivity]].
  apply steps_one. cbn [step]. unfold lex_inside_tag. rewrite Hn. cbn [bind]. eval_tests. rewrite Hn'. cbn [bind].
  destruct Hc as [[-> ->]|[-> ->]]; eval_tests; unfold emit_to; rewrite He; reflexivity.
Qed.

(* a lone ? (what follows is not . [ or :) *)
Lemma lex_ternif l s : span l [] (63 :: s)%N -> head_ascii s ->
  match s with c :: _ => c <> 46 /\ c <> 91 /\ c <> 58 | [] => True end%N ->
  exists l', steps 1 LInsideTag l = Ok (LInsideTag, l') /\ span l' [] s /\ sent itemTernIf [63]%N l l'.
Proof.
  intros Hs Ha Hc.
  destruct (next_ascii inp l [] 63%N s Hs ltac:(lia)) as (Hn & Hs1).
  destruct s as [|c s].
  - pose proof (next_eof inp (adv l) _ Hs1) as Hn'.
    assert (Hsb : span (backup (ateof (adv l))) ([] ++ [63%N]) []).
    { unfold span, backup, ateof, set_pos. cbn [l_pos l_start l_width]. destruct Hs1 as (H0 & Hd & Hp). repeat split; try assumption; lia. }
    destruct (emit_span inp base itemTernIf _ _ _ Hsb) as (He & Hs2).
    eexists. split; [|split; [exact Hs2|apply sent_emitted; reflexivity]].
    apply steps_one. cbn [step]. unfold lex_inside_tag. rewrite Hn. cbn [bind]. eval_tests. rewrite Hn'. cbn [bind]. eval_tests.
    unfold emit_to. rewrite He. reflexivity.
  - cbn in Ha. destruct (next_ascii inp (adv l) ([] ++ [63%N]) c s Hs1 Ha) as (Hn' & Hs1').
    pose proof (span_backup inp (adv l) _ c s Hs1) as Hsb.
    destruct (emit_span inp base itemTernIf _ _ _ Hsb) as (He & Hs2).
    eexists. split; [|split; [exact Hs2|apply sent_emitted; reflexivity]].
    apply steps_one. cbn [step]. unfold lex_inside_tag. rewrite Hn. cbn [bind]. eval_tests. rewrite Hn'. cbn [bind].
    destruct Hc as (C1 & C2 & C3).
    destruct (Z.eqb_spec (Z.of_N c) 46); [lia|]. destruct (Z.eqb_spec (Z.of_N c) 91); [lia|]. destruct (Z.eqb_spec (Z.of_N c) 58); [lia|].
    unfold emit_to. rewrite He. reflexivity.
Qed.

(* ---------- operators ---------- *)



(* "-" after an operand is the binary operator *)
Lemma lex_sub l s : span l [] (45 :: s)%N -> ends_term (t_typ (l_last l)) = true ->
  exists l', steps 1 LInsideTag l = Ok (LInsideTag, l') /\ span l' [] s /\ sent itemSub [45]%N l l'.
Proof.
  intros Hs He.
  destruct (next_ascii inp l [] 45%N s Hs ltac:(lia)) as (Hn & Hs1).
  destruct (emit_span inp base itemSub (adv l) _ s Hs1) as (Hem & Hs2).
  eexists. split; [|split; [exact Hs2|apply sent_emitted; reflexivity]].
  apply steps_one. cbn [step]. unfold lex_inside_tag. rewrite Hn. cbn [bind]. eval_tests.
  unfold lex_negative. change (l_last (adv l)) with (l_last l). rewrite He. cbn [negb]. rewrite Hem. reflexivity.
Qed.

(* "-" where an operand is expected, not followed by a digit, is the unary operator *)
Lemma lex_negate l s : span l [] (45 :: s)%N -> ends_term (t_typ (l_last l)) = false ->
  head_ascii s -> head_digit s = false ->
  exists l', steps 1 LInsideTag l = Ok (LInsideTag, l') /\ span l' [] s /\ sent itemNegate [45]%N l l'.
Proof.
  intros Hs He Ha Hd.
  destruct (next_ascii inp l [] 45%N s Hs ltac:(lia)) as (Hn & Hs1).
  destruct (peek_span inp (adv l) _ s Hs1 Ha) as (l1 & Hp1 & Hsp1 & Ho1 & Hla1 & Hd1).
  destruct (peek_span inp l1 _ s Hsp1 Ha) as (l2 & Hp2 & Hsp2 & Ho2 & Hla2 & Hd2).
  assert (Hdig : (48 <=? head_rune s) && (head_rune s <=? 57) = false).
  { destruct s as [|c s]; [reflexivity|]. cbn in Hd |- *. unfold digit_b in Hd. lia. }
  destruct (48 <=? head_rune s) eqn:E48.
  - destruct (emit_span inp base itemNegate l2 _ s Hsp2) as (Hem & Hs2).
    eexists. split; [|split; [exact Hs2|apply sent_emitted; [rewrite Ho2, Ho1|rewrite Hla2, Hla1|rewrite Hd2, Hd1]; reflexivity]].
    apply steps_one. cbn [step]. unfold lex_inside_tag. rewrite Hn. cbn [bind]. eval_tests.
    unfold lex_negative. change (l_last (adv l)) with (l_last l). rewrite He. cbn [negb]. rewrite Hp1. cbn [bind]. rewrite E48.
    rewrite Hp2. cbn [bind]. cbn [andb] in Hdig. rewrite Hdig. rewrite Hem. reflexivity.
  - destruct (emit_span inp base itemNegate l1 _ s Hsp1) as (Hem & Hs2).
    eexists. split; [|split; [exact Hs2|apply sent_emitted; [rewrite Ho1|rewrite Hla1|rewrite Hd1]; reflexivity]].
    apply steps_one. cbn [step]. unfold lex_inside_tag. rewrite Hn. cbn [bind]. eval_tests.
    unfold lex_negative. change (l_last (adv l)) with (l_last l). rewrite He. cbn [negb]. rewrite Hp1. cbn [bind]. rewrite E48.
    cbn [bind]. rewrite Hem. reflexivity.
Qed.

(* "/" not followed by "}" *)
Lemma lex_div l s : span l [] (47 :: s)%N -> head_ascii s -> match s with c :: _ => c <> 125%N | [] => True end ->
  exists l', steps 1 LInsideTag l = Ok (LInsideTag, l') /\ span l' [] s /\ sent itemDiv [47]%N l l'.
Proof.
  intros Hs Ha Hc.
  destruct (next_ascii inp l [] 47%N s Hs ltac:(lia)) as (Hn & Hs1).
  destruct (peek_span inp (adv l) _ s Hs1 Ha) as (l1 & Hp1 & Hsp1 & Ho1 & Hla1 & Hd1).
  destruct (emit_span inp base itemDiv l1 _ s Hsp1) as (Hem & Hs2).
  eexists. split; [|split; [exact Hs2|apply sent_emitted; [rewrite Ho1|rewrite Hla1|rewrite Hd1]; reflexivity]].
  apply steps_one. cbn [step]. unfold lex_inside_tag. rewrite Hn. cbn [bind]. eval_tests. rewrite Hp1. cbn [bind].
  assert (E : (head_rune s =? 125) = false) by (destruct s as [|c s]; [reflexivity|cbn; lia]).
  rewrite E. eval_tests. unfold emit_to. change (arith_item [Z.to_N (Z.of_N 47)]) with itemDiv. rewrite Hem. reflexivity.
Qed.

(* the comparison operators: < <= > >= != == ; the one-character forms must not be followed by "=" *)
Definition cmp_table : list (bstr * N) :=
  [([60], itemLt); ([60; 61], itemLte); ([62], itemGt); ([62; 61], itemGte); ([33; 61], itemNotEq); ([61; 61], itemEq)]%N.

Lemma accept_eq_span l w s : span l w s -> head_ascii s ->
  match s with
  | 61%N :: s' => exists l1, accept inp ilen inside_tag_cmp_accept l = Ok (true, l1) /\ span l1 (w ++ [61%N]) s' /\
                             l_out l1 = l_out l /\ l_last l1 = l_last l /\ l_dd l1 = l_dd l
  | _ => exists l1, accept inp ilen inside_tag_cmp_accept l = Ok (false, l1) /\ span l1 w s /\
                    l_out l1 = l_out l /\ l_last l1 = l_last l /\ l_dd l1 = l_dd l
  end.
Proof.
  intros Hs Ha. unfold accept. destruct s as [|c s].
  - rewrite (next_eof inp l w Hs). cbn [bind]. change (in_set inside_tag_cmp_accept eof) with false. cbv iota.
    eexists. split; [reflexivity|]. split; [|repeat split].
    unfold span, backup, ateof, set_pos. cbn [l_pos l_start l_width]. destruct Hs as (H0 & Hd & Hp). repeat split; try assumption; lia.
  - cbn in Ha. destruct (next_ascii inp l w c s Hs Ha) as (Hn & Hs1). rewrite Hn. cbn [bind].
    destruct (N.eqb_spec c 61) as [->|Hne].
    + change (in_set inside_tag_cmp_accept (Z.of_N 61)) with true. cbv iota. eexists. split; [reflexivity|]. split; [exact Hs1|repeat split].
    + assert (E : in_set inside_tag_cmp_accept (Z.of_N c) = false).
      { unfold in_set, inside_tag_cmp_accept, mem. cbn [existsb]. rewrite N2Z.id. destruct (N.eqb_spec c 61); [congruence|]. lia. }
      rewrite E.
      assert (Hgoal : exists l1, Ok (false, backup (adv l)) = Ok (false, l1) /\ span l1 w (c :: s) /\
                l_out l1 = l_out l /\ l_last l1 = l_last l /\ l_dd l1 = l_dd l).
      { eexists. split; [reflexivity|]. split; [apply span_backup; exact Hs|repeat split]. }
      destruct c as [|p]; [exact Hgoal|]. do 6 (destruct p as [p|p|]; try exact Hgoal). congruence.
Qed.


(* < > followed by something else than "=" ;  <= >= != *)
Lemma lex_cmp1 l c t s : span l [] (c :: s) -> (c = 60 /\ t = itemLt \/ c = 62 /\ t = itemGt)%N ->
  head_ascii s -> match s with c2 :: _ => c2 <> 61%N | [] => True end ->
  exists l', steps 1 LInsideTag l = Ok (LInsideTag, l') /\ span l' [] s /\ sent t [c] l l'.
Proof.
  intros Hs Hc Ha Hne.
  destruct (next_ascii inp l [] c s Hs ltac:(lia)) as (Hn & Hs1).
  pose proof (accept_eq_span (adv l) _ s Hs1 Ha) as Hacc.
  assert (Hacc' : exists l1, accept inp ilen inside_tag_cmp_accept (adv l) = Ok (false, l1) /\ span l1 ([] ++ [c]) s /\
                    l_out l1 = l_out (adv l) /\ l_last l1 = l_last (adv l) /\ l_dd l1 = l_dd (adv l)).
  { destruct s as [|c2 s]; [exact Hacc|]. destruct c2 as [|p]; [exact Hacc|]. do 6 (destruct p as [p|p|]; try exact Hacc). congruence. }
  destruct Hacc' as (l1 & Hac & Hs2 & Ho & Hla & Hd).
  destruct (emit_span inp base t l1 _ s Hs2) as (Hem & Hs3).
  eexists. split; [|split; [exact Hs3|apply sent_emitted; [rewrite Ho|rewrite Hla|rewrite Hd]; reflexivity]].
  apply steps_one. cbn [step]. unfold lex_inside_tag. rewrite Hn. cbn [bind].
  destruct Hc as [[-> ->]|[-> ->]]; eval_tests; rewrite Hac; cbn [bind]; rewrite (slice_span inp _ _ _ Hs2); cbn [bind app];
    [change (assoc_s [60%N] arith_items) with (Some itemLt)|change (assoc_s [62%N] arith_items) with (Some itemGt)];
    unfold emit_to; rewrite Hem; reflexivity.
Qed.

Lemma lex_cmp2 l c t s : span l [] (c :: 61 :: s)%N ->
  (c = 60 /\ t = itemLte \/ c = 62 /\ t = itemGte \/ c = 33 /\ t = itemNotEq)%N ->
  exists l', steps 1 LInsideTag l = Ok (LInsideTag, l') /\ span l' [] s /\ sent t [c; 61]%N l l'.
Proof.
  intros Hs Hc.
  destruct (next_ascii inp l [] c (61%N :: s) Hs ltac:(lia)) as (Hn & Hs1).
  destruct (accept_eq_span (adv l) _ (61%N :: s) Hs1 ltac:(cbn; lia)) as (l1 & Hac & Hs2 & Ho & Hla & Hd).
  destruct (emit_span inp base t l1 _ s Hs2) as (Hem & Hs3).
  eexists. split; [|split; [exact Hs3|apply sent_emitted; [rewrite Ho|rewrite Hla|rewrite Hd]; reflexivity]].
  apply steps_one. cbn [step]. unfold lex_inside_tag. rewrite Hn. cbn [bind].
  destruct Hc as [[-> ->]|[[-> ->]|[-> ->]]]; eval_tests; rewrite Hac; cbn [bind]; rewrite (slice_span inp _ _ _ Hs2); cbn [bind app];
    [change (assoc_s [60%N; 61%N] arith_items) with (Some itemLte)|change (assoc_s [62%N; 61%N] arith_items) with (Some itemGte)
    |change (assoc_s [33%N; 61%N] arith_items) with (Some itemNotEq)];
    unfold emit_to; rewrite Hem; reflexivity.
Qed.

Lemma lex_eqeq l s : span l [] (61 :: 61 :: s)%N ->
  exists l', steps 1 LInsideTag l = Ok (LInsideTag, l') /\ span l' [] s /\ sent itemEq [61; 61]%N l l'.
Proof.
  intros Hs.
  destruct (next_ascii inp l [] 61%N (61%N :: s) Hs ltac:(lia)) as (Hn & Hs1).
  destruct (peek_span inp (adv l) _ (61%N :: s) Hs1 ltac:(cbn; lia)) as (lp & Hp & Hsp & Hop & Hlap & Hdp).
  destruct (accept_eq_span lp _ (61%N :: s) Hsp ltac:(cbn; lia)) as (l1 & Hac & Hs2 & Ho & Hla & Hd).
  destruct (emit_span inp base itemEq l1 _ s Hs2) as (Hem & Hs3).
  eexists. split; [|split; [exact Hs3|apply sent_emitted; [rewrite Ho, Hop|rewrite Hla, Hlap|rewrite Hd, Hdp]; reflexivity]].
  apply steps_one. cbn [step]. unfold lex_inside_tag. rewrite Hn. cbn [bind]. eval_tests. rewrite Hp. cbn [bind head_rune]. eval_tests.
  rewrite Hac. cbn [bind]. rewrite (slice_span inp _ _ _ Hs2). cbn [bind app].
  change (assoc_s [61%N; 61%N] arith_items) with (Some itemEq). unfold emit_to. rewrite Hem. reflexivity.
Qed.

End Ops.
