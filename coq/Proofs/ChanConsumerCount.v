(* The consumer program of Proofs/ChanConsumer.v makes exactly the receives, and the drain, that the functional
   model reports; so for the PARSER PROGRAM itself (not for a stand-in built from the record, as in
   Proofs/ChanParser.v) Parser.scan_done of the entry point's own scanner record says, under every schedule,
   whether the scanner goroutine exits. *)
From Coq Require Import List Arith Bool Lia.
Import ListNotations.
From Soy Require Import Model.Chan Proofs.ChanProofs Proofs.ChanCount Proofs.ChanConsumer.

Section ProgCount.
Variables A R : Type.
Variable zero : A.
Variable dflt : R.
Variable f : list A -> option (nat * bool * R).
Notation prog := (ro_prog A R dflt f).
Notation feedsn := (cc_feedsn A R zero).

Hypothesis Hloc : forall ts e n d r, f ts = Some (n, d, r) -> n <= length ts -> f (ts ++ e) = Some (n, d, r).
Hypothesis Hloc' : forall ts e n d r, f (ts ++ e) = Some (n, d, r) -> n <= length ts -> f ts = Some (n, d, r).
Hypothesis Hpad : forall ts j n d r, f ts = Some (n, d, r) -> n <= length ts + j -> f (ts ++ repeat zero j) = Some (n, d, r).
Hypothesis Hpad' : forall ts j n d r, f (ts ++ repeat zero j) = Some (n, d, r) -> n <= length ts + j -> f ts = Some (n, d, r).

Lemma rc_done k pre rest n d r : f pre = Some (n, d, r) -> n <= length pre -> feedsn (prog (S k) pre) rest r 0 d.
Proof.
  intros Hf Hn. cbn [ro_prog]. rewrite Hf. apply Nat.leb_le in Hn. rewrite Hn.
  destruct d; [eapply FN_drain|]; apply FN_ret.
Qed.

Section Run.
Variable ts : list A.
Variables (n : nat) (d : bool) (r : R).
Hypothesis Hf : f ts = Some (n, d, r).

Lemma rc_closed : forall k i, n <= k + (length ts + i) -> length ts + i <= n ->
  feedsn (prog (S k) (ts ++ repeat zero i)) [] r (n - (length ts + i)) d.
Proof.
  induction k as [|k IH]; intros i Hk Hle.
  - replace (n - (length ts + i)) with 0 by lia.
    apply rc_done with (n := n); [apply Hpad; [exact Hf|lia]|rewrite app_length, repeat_length; lia].
  - destruct (ro_prog_cases A R f (ts ++ repeat zero i)) as [(n' & d' & r' & E & Hn)|Hmore].
    + rewrite app_length, repeat_length in Hn. pose proof (Hpad' _ _ _ _ _ E Hn) as E'. rewrite Hf in E'.
      injection E' as <- <- <-. replace (n - (length ts + i)) with 0 by lia.
      apply rc_done with (n := n); [exact E|rewrite app_length, repeat_length; exact Hn].
    + assert (Hlt : length ts + i < n).
      { destruct (le_lt_dec n (length ts + i)) as [Hge|Hlt]; [|exact Hlt]. exfalso.
        pose proof (Hmore n d r (Hpad _ i _ _ _ Hf Hge)) as H. rewrite app_length, repeat_length in H. lia. }
      rewrite (ro_prog_more A R dflt f _ _ Hmore).
      replace (n - (length ts + i)) with (S (n - (length ts + S i))) by lia.
      apply FN_recv_closed. rewrite <- app_assoc.
      change (repeat zero i ++ [zero]) with (repeat zero i ++ repeat zero 1). rewrite <- repeat_app.
      replace (i + 1) with (S i) by lia. apply IH; lia.
Qed.

Lemma rc_open : forall k pre rest, pre ++ rest = ts -> n <= k + length pre -> length pre <= n ->
  feedsn (prog (S k) pre) rest r (n - length pre) d.
Proof.
  induction k as [|k IH]; intros pre rest Hts Hk Hle.
  - replace (n - length pre) with 0 by lia.
    apply rc_done with (n := n); [|lia]. apply Hloc' with (e := rest); [rewrite Hts; exact Hf|lia].
  - destruct rest as [|a rest].
    + rewrite app_nil_r in Hts. subst pre. pose proof (rc_closed (S k) 0) as H. cbn [repeat] in H.
      rewrite app_nil_r, Nat.add_0_r in H. apply H; lia.
    + destruct (ro_prog_cases A R f pre) as [(n' & d' & r' & E & Hn)|Hmore].
      * pose proof (Hloc _ (a :: rest) _ _ _ E Hn) as E'. rewrite Hts, Hf in E'. injection E' as <- <- <-.
        replace (n - length pre) with 0 by lia. apply rc_done with (n := n); assumption.
      * assert (Hlt : length pre < n).
        { destruct (le_lt_dec n (length pre)) as [Hge|Hlt]; [|exact Hlt]. exfalso.
          assert (E : f pre = Some (n, d, r)) by (apply Hloc' with (e := a :: rest); [rewrite Hts; exact Hf|exact Hge]).
          pose proof (Hmore n d r E). lia. }
        rewrite (ro_prog_more A R dflt f _ _ Hmore).
        replace (n - length pre) with (S (n - length (pre ++ [a]))) by (rewrite app_length; cbn [length]; lia).
        apply FN_recv. apply IH; [rewrite <- app_assoc; exact Hts|rewrite app_length; cbn [length]; lia|rewrite app_length; cbn [length]; lia].
Qed.

(* the program makes exactly n receives, and drains iff d *)
Theorem rc_prog_feedsn k : n <= k -> feedsn (prog (S k) []) ts r n d.
Proof. intros Hk. pose proof (rc_open k [] ts eq_refl) as H. cbn [length] in H. rewrite Nat.sub_0_r in H. apply H; lia. Qed.
End Run.

(* under every schedule: result, receive counter and drain flag of a consumer that has returned *)
Theorem rc_chan_counters (p : prod A) sched k n d r r0 :
  f (items p) = Some (n, d, r) -> n <= k ->
  let g := run zero sched (cfg_init p (prog (S k) [])) in
  g_cons g = CRet r0 -> r0 = r /\ g_recv g = n /\ g_drained g = d.
Proof.
  intros Hf Hk g Hret. destruct (cc_counters_of_items A R zero p _ sched r0 Hret) as (m & d0 & F & E1 & E2).
  destruct (cc_feedsn_fun A R zero _ _ _ _ _ F _ _ _ (rc_prog_feedsn (items p) n d r Hf k Hk)) as (-> & -> & ->).
  auto.
Qed.
End ProgCount.

(* ---------- parse.SoyFile's parser ---------- *)
From Soy Require Import Model.Bytes Model.Ast Model.Token Model.ExprParser Model.Parser Proofs.RecvOnlyTok.

Section File.
Variable inlen : N.
Variable lexq : bstr -> list tok.
Variable unq : bstr -> option bstr.
Variable F : nat.

Theorem rc_parser_counters (p : Chan.prod tok) sched k n d r r0 :
  ro_file_obs inlen lexq unq F (items p) = Some (n, d, r) -> (n <= k)%nat ->
  let g := run zero_tok sched (cfg_init p (ro_parser_prog inlen lexq unq F k)) in
  g_cons g = CRet r0 -> r0 = r /\ g_recv g = n /\ g_drained g = d.
Proof.
  intros E Hk. unfold ro_parser_prog.
  exact (rc_chan_counters tok (cres node) zero_tok CFuel (ro_file_obs inlen lexq unq F)
           (ro_file_loc inlen lexq unq F) (ro_file_loc' inlen lexq unq F) (ro_file_pad inlen lexq unq F) (ro_file_pad' inlen lexq unq F)
           p sched k n d r r0 E Hk).
Qed.

(* Parser.scan_done of the record parse_file reports for its own scanner is exactly "the scanner goroutine exits",
   for the parser program itself, under every schedule *)
Theorem rc_parser_scan_done (p : Chan.prod tok) sched k n d r r0 :
  ro_file_obs inlen lexq unq F (items p) = Some (n, d, r) -> (n <= k)%nat ->
  let g := run zero_tok sched (cfg_init p (ro_parser_prog inlen lexq unq F k)) in
  g_cons g = CRet r0 ->
  hd_error (po_scans (parse_file inlen lexq unq parse_expr expr_fuel F (items p))) = Some (own_scan (length (items p)) n d) /\
  (scan_done (own_scan (length (items p)) n d) = true -> exists j, exited (run zero_tok (repeat MP j) g)) /\
  (scan_done (own_scan (length (items p)) n d) = false -> forall more, ~ exited (run zero_tok more g)).
Proof.
  intros E Hk g Hret. destruct (rc_parser_counters p sched k n d r r0 E Hk Hret) as (-> & Hr & Hd). fold g in Hr, Hd.
  destruct (ro_file_obs_parse_file inlen lexq unq F (items p) n d r E) as [Hhd _]. split; [exact Hhd|].
  assert (Esd : chan_scan_done (length (items p)) g = scan_done (own_scan (length (items p)) n d)).
  { unfold chan_scan_done, scan_done, own_scan. cbn [sc_drained sc_sent sc_recv]. rewrite Hr, Hd. reflexivity. }
  rewrite <- Esd. split.
  - apply chan_scan_done_exits.
  - apply (chan_not_done_leaks tok (cres node) zero_tok p _ sched r Hret).
Qed.
End File.
Print Assumptions rc_parser_scan_done.
