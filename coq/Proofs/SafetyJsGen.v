(* The model of the JavaScript generator (Model/JsGen.v) never crashes: the only
   origin of a [Crash] is [jsc_bind] on an empty scope stack, and the walker
   keeps the scope stack balanced (every push is matched by a pop on every
   path), so that [jsc_bind] / [jsc_makevar] are only reached with a non-empty
   stack.  Carried through the whole generator as a Hoare triple on the LENGTH
   of the scope stack that also forbids [Crash] and [Diverge]. *)
From Soy Require Import Model.Bytes Model.Num Model.Values Model.Outcome Model.Ast Model.Utf8 Model.JsEscape
  Generated.Tables Model.JsGen Proofs.JsGenInv.
Open Scope N_scope.
#[local] Arguments assoc_s {A} k l : simpl never.

Definition jnc {A} (k k' : nat) (m : J A) : Prop :=
  forall st, length (j_scope st) = k ->
    match m st with
    | Ok (_, st') => length (j_scope st') = k'
    | Crash _ | Diverge => False
    | _ => True
    end.

(* ---- the monad ---- *)
Lemma jnc_ret {A} k (x : A) : jnc k k (jret x).
Proof. intros st H. exact H. Qed.
Lemma jnc_fail {A} k k' e : jnc k k' (@jfail A e).
Proof. intros st H. exact I. Qed.
Lemma jnc_oom {A} k k' : jnc k k' (fun _ : jstate => @OutOfModel (A * jstate)).
Proof. intros st H. exact I. Qed.
Lemma jnc_oof {A} k k' : jnc k k' (fun _ : jstate => @OutOfFuel (A * jstate)).
Proof. intros st H. exact I. Qed.
Lemma jnc_bind {A B} k k1 k2 (m : J A) (f : A -> J B) :
  jnc k k1 m -> (forall x, jnc k1 k2 (f x)) -> jnc k k2 (jbind m f).
Proof.
  intros Hm Hf st Hl. unfold jbind. specialize (Hm st Hl).
  destruct (m st) as [[x st']| | | | |]; try exact I; try exact Hm. exact (Hf x st' Hm).
Qed.
Lemma jnc_get k : jnc k k jget.
Proof. intros st H. exact H. Qed.
Lemma jnc_mod k f : (forall st, j_scope (f st) = j_scope st) -> jnc k k (jmod f).
Proof. intros Hf st H. change (length (j_scope (f st)) = k). rewrite Hf. exact H. Qed.
Lemma jnc_lift {A} k (o : outcome A) :
  match o with Crash _ | Diverge => False | _ => True end -> jnc k k (jlift o).
Proof. intros Ho st H. unfold jlift. destruct o; try exact I; try exact Ho. exact H. Qed.

(* ---- writing ---- *)
Lemma jnc_emit k cs : jnc k k (jemit cs).
Proof. apply jnc_mod. intro; reflexivity. Qed.
Lemma jnc_txt k t : jnc k k (jtxt t).
Proof. apply jnc_emit. Qed.

(* ---- scope.go ---- *)
Lemma nc_push k : jnc k (S k) jsc_push.
Proof. intros st H. change (length ([] :: j_scope st) = S k). cbn [length]. f_equal. exact H. Qed.
Lemma nc_pop k : jnc (S k) k jsc_pop.
Proof.
  intros st H. change (length (tl (j_scope st)) = k).
  destruct (j_scope st) as [|f r]; cbn [length tl] in *. discriminate. injection H as H. exact H.
Qed.
Lemma nc_genname k v : jnc k k (jsc_genname v).
Proof. intros st H. exact H. Qed.
Lemma nc_bind k v g : jnc (S k) (S k) (jsc_bind v g).
Proof.
  intros st H. unfold jsc_bind, jbind, jget.
  destruct (j_scope st) as [|f r] eqn:E. discriminate.
  change (length (aset f v g :: r) = S k). exact H.
Qed.
Lemma nc_push_for_range k v : jnc k (S k) (jsc_push_for_range v).
Proof. intros st H. unfold jsc_push_for_range, jbind, jget, jmod, jret. cbn [j_scope set_scope length]. f_equal. exact H. Qed.
Lemma nc_push_for_each k v : jnc k (S k) (jsc_push_for_each v).
Proof. intros st H. unfold jsc_push_for_each, jbind, jget, jmod, jret. cbn [j_scope set_scope length]. f_equal. exact H. Qed.

Ltac jstep :=
  lazymatch goal with
  | |- jnc _ _ (jret _) => apply jnc_ret
  | |- jnc _ _ (jfail _) => apply jnc_fail
  | |- jnc ?k _ (jbind (match _ with _ => _ end) _) => apply jnc_bind with (k1 := k); [| intros ?]
  | |- jnc _ _ (jbind _ _) => eapply jnc_bind; [| intros ?]
  | |- jnc _ _ jget => apply jnc_get
  | |- jnc _ _ (jemit _) => apply jnc_emit
  | |- jnc _ _ (jtxt _) => apply jnc_txt
  | |- jnc _ _ (jmod _) => apply jnc_mod; intro; reflexivity
  | |- jnc _ _ (match ?x with _ => _ end) => destruct x
  | |- jnc _ _ (fun _ => OutOfModel) => apply jnc_oom
  | |- jnc _ _ (fun _ => OutOfFuel) => apply jnc_oof
  end.

Lemma nc_makevar k v : jnc (S k) (S k) (jsc_makevar v).
Proof. unfold jsc_makevar. jstep. apply nc_genname. jstep. apply nc_bind. jstep. Qed.
Lemma nc_jindent k : jnc k k jindent.
Proof. unfold jindent. repeat jstep. Qed.
Lemma nc_jsln k cs : jnc k k (jsln cs).
Proof. unfold jsln. jstep. apply nc_jindent. repeat jstep. Qed.
Lemma nc_indent_inc k : jnc k k indent_inc.
Proof. unfold indent_inc. jstep. Qed.
Lemma nc_indent_dec k : jnc k k indent_dec.
Proof. unfold indent_dec. jstep. Qed.
Lemma nc_bufname k : jnc k k bufname.
Proof. unfold bufname. repeat jstep. Qed.
Lemma nc_lookup_var k v : jnc k k (lookup_var v).
Proof. unfold lookup_var. repeat jstep. Qed.
Lemma nc_note_called k key imp : jnc k k (note_called key imp).
Proof. unfold note_called. repeat jstep. Qed.

Lemma find_placeholder_nc f q name :
  match jfind_placeholder f q name with Crash _ | Diverge => False | _ => True end.
Proof.
  revert q. induction f as [|f IH]; intro q; cbn [jfind_placeholder]. exact I.
  destruct q as [|x r]. exact I.
  destruct x; try apply IH. destruct (bstr_eqb name0 name). exact I. apply IH.
Qed.

Section Walk.
Variable o : jopts.

Section Body.
Variable w : node -> J unit.
Hypothesis Hw : forall k n, jnc (S k) (S k) (w n).

Ltac jknown :=
  lazymatch goal with
  | |- jnc _ _ jindent => apply nc_jindent
  | |- jnc _ _ (jsln _) => apply nc_jsln
  | |- jnc _ _ indent_inc => apply nc_indent_inc
  | |- jnc _ _ indent_dec => apply nc_indent_dec
  | |- jnc _ _ bufname => apply nc_bufname
  | |- jnc _ _ jsc_push => apply nc_push
  | |- jnc _ _ jsc_pop => apply nc_pop
  | |- jnc _ _ (jsc_makevar _) => apply nc_makevar
  | |- jnc _ _ (jsc_genname _) => apply nc_genname
  | |- jnc _ _ (jsc_bind _ _) => apply nc_bind
  | |- jnc _ _ (lookup_var _) => apply nc_lookup_var
  | |- jnc _ _ (jsc_push_for_range _) => apply nc_push_for_range
  | |- jnc _ _ (jsc_push_for_each _) => apply nc_push_for_each
  | |- jnc _ _ (note_called _ _) => apply nc_note_called
  | |- jnc _ _ (w _) => apply Hw
  end.
Ltac jgo := repeat first [ jknown | jstep ].

Lemma nc_walk_list k ns : jnc (S k) (S k) (jwalk_list w ns).
Proof. induction ns as [|x r IH]; cbn [jwalk_list]. jgo. jgo. exact IH. Qed.

Lemma nc_block k n : jnc (S k) (S k) (jblock w n).
Proof.
  intros st Hl. unfold jblock, jbind, jget. cbv beta iota.
  match goal with |- context [w n ?sub] => set (sb := sub) end.
  pose proof (Hw k n sb Hl) as H.
  destruct (w n sb) as [[u sub']| | | | |]; try exact I; try exact H. exact Hl.
Qed.

Lemma nc_write_raw_text k t : jnc k k (write_raw_text t).
Proof. unfold write_raw_text. jgo. Qed.

Lemma nc_list_items k first l : jnc (S k) (S k) (list_items w first l).
Proof. revert first. induction l as [|x r IH]; intro first; cbn [list_items]. jgo. jgo. apply IH. Qed.

Lemma nc_map_items k first l : jnc (S k) (S k) (map_items w first l).
Proof. revert first. induction l as [|[key x] r IH]; intro first; cbn [map_items]. jgo. jgo. apply IH. Qed.

Lemma nc_jop k sym a c : jnc (S k) (S k) (jop w sym a c).
Proof. unfold jop. jgo. Qed.

Lemma nc_apply_pieces k ps args : jnc (S k) (S k) (apply_pieces w ps args).
Proof. induction ps as [|p ps IH]; cbn [apply_pieces]. jgo. destruct p as [t|i]. jgo. exact IH. jgo. exact IH. Qed.

Lemma nc_builtin_call k name args : jnc (S k) (S k) (builtin_call w name args).
Proof. unfold builtin_call. jstep. jstep. jstep. apply nc_list_items. jgo. Qed.

Lemma nc_visit_function k name args : jnc (S k) (S k) (visit_function o w name args).
Proof.
  unfold visit_function. cbv zeta.
  destruct (assoc_s name js_builtin_funcs) as [jn|].
  - jstep. apply nc_builtin_call. jgo.
  - destruct (assoc_s name js_funcs) as [[lens alts]|].
    + destruct (pick_alt alts (length args)) as [ps|]. jstep. apply nc_apply_pieces. jgo. jgo.
    + destruct (bstr_eqb name jn_isFirst || bstr_eqb name jn_isLast || bstr_eqb name jn_index); [|jgo].
      eapply jnc_bind; [apply jnc_get | intro st]. destruct (jsc_loop (j_scope st) (loop_var_of args)) as [ix lim]. jgo.
Qed.

(* ---- data references ---- *)
Lemma nc_dataref_access k acc expr closers : jnc (S k) (S k) (jdataref_access w acc expr closers).
Proof.
  revert expr closers. induction acc as [|a rest IH]; intros expr closers; cbn [jdataref_access]. jgo.
  cbv zeta. destruct a; try apply IH.
  - jstep. jgo. apply IH.
  - jstep. jgo. apply IH.
  - jstep. jgo. jstep. apply nc_block. apply IH.
Qed.

Lemma nc_visit_dataref k key acc : jnc (S k) (S k) (visit_dataref w key acc).
Proof. unfold visit_dataref. jstep. jgo. jstep. apply nc_dataref_access. jgo. Qed.

(* ---- print ---- *)
Lemma nc_print_scan k dirs escape kept : jnc k k (print_scan o dirs escape kept).
Proof.
  revert escape kept. induction dirs as [|d r IH]; intros escape kept; cbn [print_scan]. jgo.
  destruct d; try apply jnc_oom.
  destruct (assoc_s name js_directives) as [[jn cancel]|]; [|jgo]. cbv zeta.
  destruct (bstr_eqb name n_id || bstr_eqb name n_noAutoescape). apply IH.
  jstep. jknown. apply IH.
Qed.

Lemma nc_print_opens k ds : jnc k k (print_opens ds).
Proof. induction ds as [|[name args] r IH]; cbn [print_opens]. jgo. jgo. exact IH. Qed.

Lemma nc_print_args k args : jnc (S k) (S k) (print_args w args).
Proof. induction args as [|a r IH]; cbn [print_args]. jgo. jgo. exact IH. Qed.

Lemma nc_print_closes k ds : jnc (S k) (S k) (print_closes w ds).
Proof.
  induction ds as [|[name args] r IH]; cbn [print_closes]. jgo.
  jstep. apply nc_print_args. jgo. exact IH.
Qed.

Lemma nc_visit_print k arg dirs : jnc (S k) (S k) (visit_print o w arg dirs).
Proof.
  unfold visit_print. jstep. jstep. eapply jnc_bind; [apply nc_print_scan | intros [escape kept]]. cbv zeta.
  jstep. jknown. jstep. jknown. jstep. jstep. jstep. apply nc_print_opens. jstep. jknown. jstep. apply nc_print_closes. jgo.
Qed.

(* ---- calls ---- *)
Lemma nc_call_params k first ps acc : jnc (S k) (S k) (jcall_params w first ps acc).
Proof.
  revert first acc. induction ps as [|p r IH]; intros first acc; cbn [jcall_params]. jgo.
  cbv zeta. destruct p; try apply IH.
  - jstep. apply nc_block. apply IH.
  - jstep. jstep. jstep. jknown. jstep. jstep. jstep. jknown. jstep. jknown. jstep. jstep. apply IH.
Qed.

Lemma nc_visit_call k name alldata data params : jnc (S k) (S k) (visit_call o w name alldata data params).
Proof.
  unfold visit_call. jstep.
  - destruct data as [d|]. apply nc_block. jgo.
  - jstep.
    + destruct params as [|p0 pr]. jgo. jstep. apply nc_call_params. jgo.
    + cbv zeta. jgo.
Qed.

(* ---- if / for / switch ---- *)
Lemma nc_if_conds k first cs : jnc (S k) (S k) (jif_conds w first cs).
Proof.
  revert first. induction cs as [|c r IH]; intro first; cbn [jif_conds]. jgo.
  destruct c; try apply jnc_oom. jgo; apply IH.
Qed.

Lemma nc_visit_loop k body ie vd item vlen vidx : jnc (S (S k)) (S k) (visit_loop w body ie vd item vlen vidx).
Proof. unfold visit_loop. jgo. Qed.

Lemma nc_visit_for_range k var args body ie : jnc (S k) (S k) (visit_for_range w var args body ie).
Proof.
  unfold visit_for_range.
  destruct args as [|a1 [|a2 [|a3 [|a4 r]]]]; try apply jnc_fail;
    (jstep; [apply nc_block|]; jstep; [apply nc_block|]; jstep; [apply nc_block|];
     eapply jnc_bind; [apply nc_push_for_range | intros [[[[vd vinit] vstep] vlen] vidx]];
     jstep; [apply nc_jsln|]; jstep; [apply nc_jsln|]; jstep; [apply nc_jsln|]; apply nc_visit_loop).
Qed.

Lemma nc_visit_foreach k var lst body ie : jnc (S k) (S k) (visit_foreach w var lst body ie).
Proof.
  unfold visit_foreach. jstep. apply nc_block. eapply jnc_bind; [apply nc_push_for_each | intros [[[vd vlist] vlen] vidx]].
  jstep. apply nc_jsln. jstep. apply nc_jsln. apply nc_visit_loop.
Qed.

Lemma nc_case_values k vs : jnc (S k) (S k) (case_values w vs).
Proof. induction vs as [|v r IH]; cbn [case_values]. jgo. jgo. exact IH. Qed.

Lemma nc_switch_cases k cs : jnc (S k) (S k) (jswitch_cases w cs).
Proof.
  induction cs as [|c r IH]; cbn [jswitch_cases]. jgo.
  destruct c; try apply jnc_oom. jstep. apply nc_case_values. jgo; exact IH.
Qed.

(* ---- messages ---- *)
Lemma nc_msg_children k f l : jnc (S k) (S k) (jmsg_children w f l).
Proof.
  revert l. induction f as [|f IHf]; intro l; cbn [jmsg_children]. apply jnc_oof.
  destruct l as [|x r]. jgo.
  apply jnc_bind with (k1 := S k); [|intros _; apply IHf].
  destruct x; try (jgo; fail).
  jstep. jknown. jstep. jstep. jstep. jknown. jstep. jstep. jstep. jknown. apply jnc_bind with (k1 := S k); [|intros _].
  { induction cases as [|c cr IHc]. jgo.
    jstep; [|exact IHc]. unfold plural_case_body. destruct c; try apply jnc_oom.
    jstep. jknown. jstep. jknown. jstep. apply IHf. jgo. }
  jstep. jknown. jstep. jknown. jstep. apply IHf. jgo.
Qed.

Lemma nc_eval_part k body p : jnc (S k) (S k) (jeval_part w body p).
Proof.
  induction p as [t|name|var cases IH] using jmpart_ind'; cbn [jeval_part].
  - apply nc_write_raw_text.
  - jstep. apply jnc_lift. apply find_placeholder_nc. jgo.
  - destruct (jfind_plural body var) as [x|]; [|apply jnc_fail].
    destruct x; try apply jnc_fail.
    jstep. jknown. jstep. jstep. jstep. jknown. jstep. jstep. jstep. jknown. apply jnc_bind with (k1 := S k); [|intros _].
    { generalize 0 as i. induction IH as [|c cr Hc Hcr IHc]; intro i. jgo.
      jstep. jknown. jstep. jknown. apply jnc_bind with (k1 := S k); [|intros _].
      { clear - Hc. induction Hc as [|q qr Hq Hqr IHq]. apply jnc_ret.
        eapply jnc_bind. exact Hq. intros _. exact IHq. }
      jstep. jknown. jstep. jknown. apply IHc. }
    jgo.
Qed.

Lemma nc_eval_parts k body ps : jnc (S k) (S k) (jeval_parts w body ps).
Proof. induction ps as [|p r IH]; cbn [jeval_parts]. jgo. jstep. apply nc_eval_part. exact IH. Qed.

Lemma nc_visit_msg k id body : jnc (S k) (S k) (visit_msg o w id body).
Proof.
  unfold visit_msg. destruct (o_msgs o) as [msgs|]; [|apply nc_msg_children].
  destruct (assoc_n id msgs); [apply nc_eval_parts | apply nc_msg_children].
Qed.

(* ---- file level ---- *)
Lemma nc_ns_decls k f name i : jnc k k (ns_decls f name i).
Proof.
  revert i. induction f as [|f IH]; intro i; cbn [ns_decls]; cbv zeta. apply jnc_oof.
  destruct (Nat.ltb i (length name)); [|jgo]. jstep. apply nc_jsln. apply IH.
Qed.

Lemma nc_template_head k ae : jnc k k (template_head ae).
Proof. unfold template_head. jgo. Qed.

Lemma nc_template_rest k old all_opt name body : jnc (S k) (S k) (template_rest o w old all_opt name body).
Proof. unfold template_rest. jgo. Qed.

Lemma nc_visit_template k prev name body ae : jnc (S k) (S k) (visit_template o w prev name body ae).
Proof.
  unfold visit_template. jstep. jstep. cbv zeta. jstep. apply nc_template_head. jstep. apply nc_jsln. apply nc_template_rest.
Qed.

Ltac jknown2 :=
  lazymatch goal with
  | |- jnc _ _ (write_raw_text _) => apply nc_write_raw_text
  | |- jnc _ _ (list_items _ _ _) => apply nc_list_items
  | |- jnc _ _ (map_items _ _ _) => apply nc_map_items
  | |- jnc _ _ (jif_conds _ _ _) => apply nc_if_conds
  | |- jnc _ _ (jswitch_cases _ _) => apply nc_switch_cases
  | |- jnc _ _ (jwalk_list _ _) => apply nc_walk_list
  | |- jnc _ _ (visit_function _ _ _ _) => apply nc_visit_function
  | |- jnc _ _ (visit_dataref _ _ _) => apply nc_visit_dataref
  | |- jnc _ _ (visit_print _ _ _ _) => apply nc_visit_print
  | |- jnc _ _ (visit_call _ _ _ _ _ _) => apply nc_visit_call
  | |- jnc _ _ (visit_msg _ _ _ _) => apply nc_visit_msg
  | |- jnc _ _ (visit_template _ _ _ _ _ _) => apply nc_visit_template
  | |- jnc _ _ (ns_decls _ _ _) => apply nc_ns_decls
  | |- jnc _ _ (jop _ _ _ _) => apply nc_jop
  | |- jnc _ _ (visit_foreach _ _ _ _ _) => apply nc_visit_foreach
  | |- jnc _ _ (visit_for_range _ _ _ _ _) => apply nc_visit_for_range
  | |- jnc _ _ (jblock _ _) => apply nc_block
  end.
Ltac jgo2 := repeat first [ jknown | jknown2 | jstep ].

Lemma nc_walk_node k prev n : jnc (S k) (S k) (jwalk_node o w prev n).
Proof. destruct n; cbn [jwalk_node]; cbv zeta; jgo2. Qed.

Lemma nc_walk_body k n : jnc (S k) (S k) (jwalk_body o w n).
Proof. unfold jwalk_body. jstep. jstep. jstep. jstep. apply nc_walk_node. Qed.

End Body.

Theorem nc_walk fuel k n : jnc (S k) (S k) (jwalk o fuel n).
Proof.
  revert k n. induction fuel as [|f IH]; intros k n; cbn [jwalk]. apply jnc_oof.
  apply nc_walk_body. exact IH.
Qed.

Lemma nc_visit_file k fuel name body : jnc (S k) (S k) (visit_file o fuel name body).
Proof.
  unfold visit_file. jstep. apply nc_jsln. jstep. apply nc_jsln. jstep. apply nc_jsln.
  apply nc_walk_list. intros k0 n. apply nc_walk.
Qed.

End Walk.

(* soyjs.Write as a whole never panics *)
Theorem gen_file_no_crash : forall o fuel name body,
  match gen_file o fuel name body with Crash _ | Diverge => False | _ => True end.
Proof.
  intros o fuel name body. unfold gen_file.
  pose proof (nc_visit_file o 0 fuel name body jinit_state eq_refl) as H.
  destruct (visit_file o fuel name body jinit_state) as [[u st]| | | | |]; try exact I; exact H.
Qed.

(* Print Assumptions gen_file_no_crash: Closed under the global context *)
