(* C09 — renders, JavaScript generation (Model/JsGen.v) and compilation
   (Model/Compile.v) as threads (Model/ConcJs.v): every such thread satisfies the
   ownership discipline of Model/Conc.v, so every family of them is race-free
   at the model's locations under every schedule and each computes what it
   computes alone (Proofs/ConcProofs.v). *)
From Coq Require Import List Arith Bool Lia.
From Soy Require Import Model.Bytes Model.Values Model.Outcome Model.Ast Model.Interp Model.JsGen Generated.JsGenTrace
  Model.Conc Model.ConcRender Model.ConcJs Proofs.ConcProofs Proofs.PurityProofs Proofs.ConcRenderProofs
  Proofs.ConcJsSimBase Generated.JsGenSim.
Import ListNotations.
Open Scope N_scope.

(* ---------------- generic facts about solo runs ---------------- *)
Section Solo.
Variables loc val res : Type.
Variable loc_eqb : loc -> loc -> bool.
Variable owner : loc -> option nat.
Notation prog := (prog loc val res).

Lemma solo_trace_read l (k : val -> prog) s : solo_trace loc_eqb (Read l k) s = Rd l :: solo_trace loc_eqb (k (s l)) s.
Proof. unfold solo_trace. cbn [exec]. destruct (exec loc_eqb (k (s l)) s) as [[r s'] t]. reflexivity. Qed.
Lemma solo_trace_write l v (k : prog) s : solo_trace loc_eqb (Write l v k) s = Wr l v :: solo_trace loc_eqb k (upd loc_eqb s l v).
Proof. unfold solo_trace. cbn [exec]. destruct (exec loc_eqb k (upd loc_eqb s l v)) as [[r s'] t]. reflexivity. Qed.
Lemma solo_result_read l (k : val -> prog) s : solo_result loc_eqb (Read l k) s = solo_result loc_eqb (k (s l)) s.
Proof. unfold solo_result. cbn [exec]. destruct (exec loc_eqb (k (s l)) s) as [[r s'] t]. reflexivity. Qed.
Lemma solo_result_write l v (k : prog) s : solo_result loc_eqb (Write l v k) s = solo_result loc_eqb k (upd loc_eqb s l v).
Proof. unfold solo_result. cbn [exec]. destruct (exec loc_eqb k (upd loc_eqb s l v)) as [[r s'] t]. reflexivity. Qed.

Lemma disc_done i r s : disciplined loc_eqb owner i (Done r : prog) s.
Proof. constructor. Qed.
Lemma disc_read i l (k : val -> prog) s :
  owner l = None \/ owner l = Some i -> disciplined loc_eqb owner i (k (s l)) s -> disciplined loc_eqb owner i (Read l k) s.
Proof. intros Ho Hk. unfold disciplined. rewrite solo_trace_read. constructor; assumption. Qed.
Lemma disc_write i l v (k : prog) s :
  owner l = Some i -> disciplined loc_eqb owner i k (upd loc_eqb s l v) -> disciplined loc_eqb owner i (Write l v k) s.
Proof. intros Ho Hk. unfold disciplined. rewrite solo_trace_write. constructor; assumption. Qed.
End Solo.

Lemma exec_prog_map {loc val res res'} (loc_eqb : loc -> loc -> bool) (f : res -> res') (p : prog loc val res) :
  forall s, exec loc_eqb (prog_map f p) s = (f (solo_result loc_eqb p s), solo_store loc_eqb p s, solo_trace loc_eqb p s).
Proof.
  induction p as [r|l k IH|l v k IH]; intros s; cbn [prog_map exec].
  - reflexivity.
  - rewrite IH. rewrite solo_result_read, solo_trace_read. unfold solo_store. cbn [exec].
    destruct (exec loc_eqb (k (s l)) s) as [[r s'] t]. reflexivity.
  - rewrite IH. rewrite solo_result_write, solo_trace_write. unfold solo_store. cbn [exec].
    destruct (exec loc_eqb k (upd loc_eqb s l v)) as [[r s'] t]. reflexivity.
Qed.

Section Tasks.
Variable CR : Type.
Notation cres := (cres CR).
Notation cprog := (cprog CR).
Notation ctask := (ctask CR).
Notation crender_prog := (crender_prog CR).
Notation cjsgen_prog := (cjsgen_prog CR).
Notation cjsgen_fine_prog := (cjsgen_fine_prog CR).

(* ---------------- the render thread with the new result type ---------------- *)

Lemma crender_exec rq (s : store rloc sval) :
  exec rloc_eqb (crender_prog rq) s = (CRRender (render_alone rq s), s, read4).
Proof.
  unfold crender_prog. rewrite exec_prog_map. unfold solo_result, solo_store, solo_trace.
  rewrite render_exec. reflexivity.
Qed.

(* ---------------- JavaScript generation ---------------- *)

(* the lens of the traced generator is lawful *)
Lemma c09_tlens_ok : jlens_ok c09_tlens.
Proof. split; intros; reflexivity. Qed.

(* THE TRACED GENERATOR IS THE MODEL: for every options, fuel and file its result is gen_file's
   (Generated/JsGenSim.v: one simulation lemma per definition of Model/JsGen.v, regenerated with it) *)
Theorem gen_file_traced_result o fuel name body :
  fst (gen_file_traced o fuel name body) = JsGen.gen_file o fuel name body.
Proof.
  unfold gen_file_traced.
  rewrite <- (gen_file_sim c09_tlens c09_tlens_ok o (JsGen.jinit_state, []) fuel name body).
  destruct (JT.gen_file c09_tlens o (jinit_state, []) fuel name body) as [r s]. reflexivity.
Qed.

(* THE ACCESSES OF THE GENERATOR: every entry of the traced generator's log is a look at a node of
   the syntax tree or an access to the generator's own record -- for every options, fuel and file,
   whether the generation succeeds or fails *)
Lemma jsgen_log_no_shared_write o fuel name body :
  Forall (fun a => jacc_shared_write a = false) (snd (gen_file_traced o fuel name body)).
Proof. apply Forall_forall. intros [p| |] _; reflexivity. Qed.

Lemma replay_disciplined i (k : cprog) :
  (forall s, disciplined rloc_eqb rowner i k s) -> forall t s, disciplined rloc_eqb rowner i (replay i t k) s.
Proof.
  intros Hk t. induction t as [|[p| |] r IH]; intros s; cbn [replay].
  - apply Hk.
  - apply disc_read; [left; reflexivity|apply IH].
  - apply disc_read; [right; reflexivity|apply IH].
  - apply disc_write; [reflexivity|apply IH].
Qed.
Lemma replay_result i t r : forall s, solo_result rloc_eqb (replay i t (Done r : cprog)) s = r.
Proof.
  induction t as [|[p| |] t' IH]; intros s; cbn [replay].
  - reflexivity.
  - rewrite solo_result_read. apply IH.
  - rewrite solo_result_read. apply IH.
  - rewrite solo_result_write. apply IH.
Qed.

Lemma cjsgen_disciplined i o fuel file s : disciplined rloc_eqb rowner i (cjsgen_prog i o fuel file) s.
Proof.
  unfold cjsgen_prog. apply disc_read; [left; reflexivity|]. apply disc_read; [left; reflexivity|].
  destruct (js_on o fuel file (s LFiles)); [|apply disc_done].
  apply disc_write; [reflexivity|apply disc_done].
Qed.
Lemma cjsgen_result i o fuel file s : solo_result rloc_eqb (cjsgen_prog i o fuel file) s = CRJs (js_on o fuel file (s LFiles)).
Proof.
  unfold cjsgen_prog. rewrite !solo_result_read. destruct (js_on o fuel file (s LFiles)); [|reflexivity].
  rewrite solo_result_write. reflexivity.
Qed.

Lemma cjsgen_fine_disciplined i o fuel file s : disciplined rloc_eqb rowner i (cjsgen_fine_prog i o fuel file) s.
Proof.
  unfold cjsgen_fine_prog. apply disc_read; [left; reflexivity|]. apply disc_read; [left; reflexivity|].
  destruct (s LFiles); try apply disc_done. destruct (nth_error fs file) as [f|]; [|apply disc_done].
  destruct (gen_file_traced o fuel (jf_name f) (jf_body f)) as [r tr].
  apply replay_disciplined. intros s'. apply disc_done.
Qed.
Lemma cjsgen_fine_result i o fuel file s :
  solo_result rloc_eqb (cjsgen_fine_prog i o fuel file) s = CRJs (js_fine_on o fuel file (s LFiles)).
Proof.
  unfold cjsgen_fine_prog, js_fine_on. rewrite !solo_result_read.
  destruct (s LFiles); try reflexivity. destruct (nth_error fs file) as [f|]; [|reflexivity].
  destruct (gen_file_traced o fuel (jf_name f) (jf_body f)) as [r tr]. cbn [fst]. apply replay_result.
Qed.
(* ... which is what the model returns *)
Lemma js_fine_on_model o fuel file vf : js_fine_on o fuel file vf = js_on o fuel file vf.
Proof.
  unfold js_fine_on, js_on. destruct vf; try reflexivity. destruct (nth_error fs file) as [f|]; [|reflexivity].
  now rewrite gen_file_traced_result.
Qed.

(* the fine-grained thread performs exactly the accesses the traced generator logged: one read of the
   file list per node visited, and reads / writes of its own location *)
Definition acc_of (i : nat) (a : jacc) : access rloc sval :=
  match a with JRdAst _ => Rd LFiles | JRdOwn => Rd (LOwn i) | JWrOwn => Wr (LOwn i) SClobbered end.
Lemma replay_trace i t r : forall s, solo_trace rloc_eqb (replay i t (Done r : cprog)) s = map (acc_of i) t.
Proof.
  induction t as [|[p| |] t' IH]; intros s; cbn [replay map acc_of].
  - reflexivity.
  - rewrite solo_trace_read. f_equal. apply IH.
  - rewrite solo_trace_read. f_equal. apply IH.
  - rewrite solo_trace_write. f_equal. apply IH.
Qed.

(* ---------------- compilation ---------------- *)

Lemma write_own_disciplined i (k : cprog) :
  (forall s, disciplined rloc_eqb rowner i k s) -> forall vs s, disciplined rloc_eqb rowner i (write_own i vs k) s.
Proof.
  intros Hk vs. induction vs as [|v r IH]; intros s; cbn [write_own]; [apply Hk|].
  apply disc_write; [reflexivity|apply IH].
Qed.
Lemma write_own_result i (k : cprog) r :
  (forall s, solo_result rloc_eqb k s = r) -> forall vs s, solo_result rloc_eqb (write_own i vs k) s = r.
Proof.
  intros Hk vs. induction vs as [|v vs' IH]; intros s; cbn [write_own]; [apply Hk|].
  rewrite solo_result_write. apply IH.
Qed.

Lemma ccompile_disciplined i (c : ccompile CR) s : disciplined rloc_eqb rowner i (ccompile_prog i c) s.
Proof. unfold ccompile_prog. apply write_own_disciplined. intros s'. apply disc_done. Qed.
Lemma ccompile_result i (c : ccompile CR) s : solo_result rloc_eqb (ccompile_prog i c) s = CRCompiled (cc_result c).
Proof. unfold ccompile_prog. apply write_own_result. intros s'. reflexivity. Qed.

(* ---------------- every task is disciplined and returns its solo result ---------------- *)

Lemma ctask_disciplined i (t : ctask) s : disciplined rloc_eqb rowner i (ctask_prog i t) s.
Proof.
  destruct t as [rq|o fuel file|o fuel file|c]; cbn [ctask_prog].
  - unfold disciplined, solo_trace. rewrite crender_exec. repeat constructor.
  - apply cjsgen_disciplined.
  - apply cjsgen_fine_disciplined.
  - apply ccompile_disciplined.
Qed.
Lemma ctask_result i (t : ctask) s : solo_result rloc_eqb (ctask_prog i t) s = ctask_alone t s.
Proof.
  destruct t as [rq|o fuel file|o fuel file|c]; cbn [ctask_prog ctask_alone].
  - unfold solo_result. rewrite crender_exec. reflexivity.
  - apply cjsgen_result.
  - apply cjsgen_fine_result.
  - apply ccompile_result.
Qed.

Lemma nth_error_cprogs_from (ts : list ctask) : forall i0 i, nth_error (cprogs_from i0 ts) i = option_map (ctask_prog (i0 + i)) (nth_error ts i).
Proof.
  induction ts as [|t r IH]; intros i0 [|i]; cbn [cprogs_from nth_error option_map]; try reflexivity.
  - now rewrite Nat.add_0_r.
  - rewrite IH. now rewrite Nat.add_succ_r.
Qed.
Lemma nth_error_ctask_progs (ts : list ctask) i : nth_error (ctask_progs ts) i = option_map (ctask_prog i) (nth_error ts i).
Proof. unfold ctask_progs. now rewrite nth_error_cprogs_from. Qed.

Lemma ctasks_disciplined (ts : list ctask) s : all_disciplined rloc_eqb rowner (ctask_progs ts) s.
Proof.
  intros i p Hp. rewrite nth_error_ctask_progs in Hp. destruct (nth_error ts i) as [t|]; [|discriminate].
  inversion Hp; subst. apply ctask_disciplined.
Qed.

(* ---------------- the instantiation ---------------- *)

Theorem concurrent_ctasks_race_free :
  forall (ts : list ctask) (s0 : store rloc sval) (sched : list nat),
    ~ has_race (snd (run rloc_eqb sched (Build_config (ctask_progs ts) s0))).
Proof.
  intros ts s0 sched.
  apply (readonly_sharing_race_free rloc sval cres rloc_eqb rloc_eqb_spec rowner). apply ctasks_disciplined.
Qed.

Theorem concurrent_ctasks_sequential :
  forall (ts : list ctask) (s0 : store rloc sval) (sched : list nat) c tr,
    run rloc_eqb sched (Build_config (ctask_progs ts) s0) = (c, tr) ->
    (* registry, file trees, configuration, message bundle and the caller's maps are as they were *)
    (forall l, rowner l = None -> shared c l = s0 l)
    /\ forall i t, nth_error ts i = Some t ->
         (* a task that has finished returns what it returns alone on the initial store *)
         (forall r, nth_error (threads c) i = Some (Done r) -> r = ctask_alone t s0)
         (* it has finished once it was scheduled as often as it has accesses *)
         /\ ((length (solo_trace rloc_eqb (ctask_prog i t) s0) <= count_occ Nat.eq_dec sched i)%nat ->
               nth_error (threads c) i = Some (Done (ctask_alone t s0)))
         (* and what it has done so far is a prefix of what it does alone *)
         /\ proj i tr = firstn (count_occ Nat.eq_dec sched i) (solo_trace rloc_eqb (ctask_prog i t) s0).
Proof.
  intros ts s0 sched c tr Hrun.
  destruct (readonly_sharing_sequential rloc sval cres rloc_eqb rloc_eqb_spec rowner
              (ctask_progs ts) s0 sched c tr (ctasks_disciplined ts s0) Hrun) as (Hsh & _ & Hth).
  split; [exact Hsh|].
  intros i t Ht.
  assert (Hp : nth_error (ctask_progs ts) i = Some (ctask_prog i t)) by (rewrite nth_error_ctask_progs, Ht; reflexivity).
  destruct (Hth i _ Hp) as (Hproj & Hdone & Hfin).
  rewrite ctask_result in Hdone, Hfin.
  split; [|split; [exact Hfin|exact Hproj]].
  intros r Hr. apply (Hdone r Hr).
Qed.

(* any placement of accesses: ANY thread programs that, alone on the initial store, keep the ownership
   discipline and return the tasks' results are race-free under every schedule and return those results *)
Definition implements_task (s0 : store rloc sval) (i : nat) (p : cprog) (t : ctask) : Prop :=
  disciplined rloc_eqb rowner i p s0 /\ solo_result rloc_eqb p s0 = ctask_alone t s0.

Lemma ctask_prog_implements s0 i (t : ctask) : implements_task s0 i (ctask_prog i t) t.
Proof. split; [apply ctask_disciplined|apply ctask_result]. Qed.

Theorem any_access_placement :
  forall (ps : list cprog) (ts : list ctask) (s0 : store rloc sval) (sched : list nat) c tr,
    length ps = length ts ->
    (forall i p t, nth_error ps i = Some p -> nth_error ts i = Some t -> implements_task s0 i p t) ->
    run rloc_eqb sched (Build_config ps s0) = (c, tr) ->
    ~ has_race tr
    /\ (forall l, rowner l = None -> shared c l = s0 l)
    /\ forall i t r, nth_error ts i = Some t -> nth_error (threads c) i = Some (Done r) -> r = ctask_alone t s0.
Proof.
  intros ps ts s0 sched c tr Hlen Himp Hrun.
  assert (Hd : all_disciplined rloc_eqb rowner ps s0).
  { intros i p Hp. destruct (nth_error ts i) as [t|] eqn:Et.
    - exact (proj1 (Himp i p t Hp Et)).
    - apply nth_error_None in Et. assert (i < length ps)%nat by (apply (proj1 (nth_error_Some ps i)); intros Hn; discriminate (eq_trans (eq_sym Hn) Hp)). unfold cprog in *. lia. }
  split.
  - pose proof (readonly_sharing_race_free rloc sval cres rloc_eqb rloc_eqb_spec rowner ps s0 sched Hd) as Hnr.
    rewrite Hrun in Hnr. exact Hnr.
  - destruct (readonly_sharing_sequential rloc sval cres rloc_eqb rloc_eqb_spec rowner ps s0 sched c tr Hd Hrun)
      as (Hsh & Hl & Hth).
    split; [exact Hsh|]. intros i t r Ht Hr.
    destruct (nth_error ps i) as [p|] eqn:Ep.
    + destruct (Hth i p Ep) as (_ & Hdone & _). destruct (Hdone r Hr) as [-> _]. exact (proj2 (Himp i p t Ep Ht)).
    + apply nth_error_None in Ep. assert (i < length (threads c))%nat by (apply (proj1 (nth_error_Some (threads c) i)); intros Hn; discriminate (eq_trans (eq_sym Hn) Hr)). unfold cprog in *. lia.
Qed.

End Tasks.
