(* C02, part 2: the induction hypothesis [w_ok] of the simulation and the
   simulation of every expression clause of the walker. *)
From Soy Require Import Model.Bytes Model.Num Model.Values Model.Outcome Model.Ast
  Model.Escape Model.Directives Model.Print Generated.Tables Model.Interp Spec.Cmd
  Proofs.InterpLogic Proofs.ValueProofs Proofs.ConvertProofs Proofs.ScopeRel.
Require Import Lia.
Open Scope N_scope.

Definition let_name (n : node) : option bstr :=
  match n with NLetValue _ x _ | NLetContent _ x _ => Some x | _ => None end.

(* what is assumed of the recursive call [w] (the walker with less fuel)
   with respect to the level [l] of the Spec (the Spec with less fuel) *)
Record w_ok (w : node -> M value) (l : level) : Prop := {
  ok_expr : forall e st en, wf KExpr e = true -> good st -> env_eq en (flatten (ctx st)) ->
      rel st (w e st) (sE (l_eval l en e) (next_id st)) (Qe (ctx st) (mode st));
  ok_cmd : forall c st en entry, wf KCmd c = true -> good st -> R (ctx st) en entry ->
      rel st (w c st) (l_exec l entry en (mode st) c (next_id st)) (@Qc value unit (ctx st) (mode st));
  ok_let : forall c x st en entry, wf KItem c = true -> let_name c = Some x -> good st ->
      R (ctx st) en entry -> top_unentered (ctx st) ->
      rel st (w c st) (l_let l entry en (mode st) c (next_id st))
          (fun _ v st1 => ctx st1 = sc_set (ctx st) x v /\ mode st1 = mode st);
  ok_tmpl : forall t st en entry, wf KTemplate t = true -> good st -> R (ctx st) en entry ->
      rel st (w t st) (l_exec l entry en (mode st) t (next_id st)) (fun _ _ st1 => ctx st1 = ctx st);
}.

Lemma rel_err {A B} st m (Q : A -> B -> mstate -> Prop) : rel st (@Err A m, st) ([], @Err (B * N) m) Q.
Proof. split; [reflexivity | apply fails_refl]. Qed.

Ltac estep L := eapply rel_ebind; [ eapply L; eauto | cbv beta; intros ? ? ? (-> & ? & ?) ? ].
Ltac sstep L := eapply rel_bind; [ eapply L; eauto | cbv beta; intros ? ? ? (-> & ? & ?) ? ].
Ltac qe := split; [reflexivity | split; assumption].

Section Expr.
Variable cf : cfg.
Variable w : node -> M value.
Variable l : level.
Hypothesis Hw : w_ok w l.
Variable en : env.
Variable c : scope.
Variable md : N.
Hypothesis Hen : env_eq en (flatten c).

Lemma eval_rel e st :
  wf KExpr e = true -> good st -> ctx st = c -> mode st = md ->
  rel st (eval w e st) (sE (ev l en e) (next_id st)) (Qe c md).
Proof.
  intros Hwf Hg Hc Hm. unfold eval, ev. change (mbind get ?f st) with (f st st). cbv beta.
  eapply rel_bind_r.
  - apply (ok_expr _ _ Hw e st en Hwf Hg). rewrite Hc. exact Hen.
  - cbv beta. intros x y st1 (-> & Hc1 & Hm1) Hg1. cbn [mbind modify ret sret].
    apply rel_ok; [exact Hg1 | apply emits_same; reflexivity | reflexivity |].
    split; [reflexivity|]. cbn [ctx mode set_cur]. rewrite Hc1, Hm1. split; assumption.
Qed.

Lemma evaldef_rel e st :
  wf KExpr e = true -> good st -> ctx st = c -> mode st = md ->
  rel st (evaldef w e st) (sE (evdef l en e) (next_id st)) (Qe c md).
Proof.
  intros Hwf Hg Hc Hm. unfold evaldef, evdef. estep eval_rel.
  destruct y; try (apply rel_eret; [assumption | qe]). apply rel_efail.
Qed.

Lemma eval_list_rel es : forallb (wf KExpr) es = true -> forall st,
  good st -> ctx st = c -> mode st = md ->
  rel st (eval_list w es st) (sE (ev_list l en es) (next_id st)) (Qe c md).
Proof.
  induction es as [|e es IH]; intros Hwf st Hg Hc Hm; cbn [eval_list ev_list].
  - apply rel_eret; [assumption | qe].
  - cbn [forallb] in Hwf. apply andb_prop in Hwf. destruct Hwf as [H1 H2].
    estep eval_rel. estep IH. apply rel_eret; [assumption | qe].
Qed.

Lemma maplit_rel its : forallb (fun kv => wf KExpr (snd kv)) its = true -> forall st,
  good st -> ctx st = c -> mode st = md ->
  rel st (maplit_items w its st) (sE (maplit_spec l en its) (next_id st)) (Qe c md).
Proof.
  induction its as [|[k e] its IH]; intros Hwf st Hg Hc Hm; cbn [maplit_items maplit_spec].
  - apply rel_eret; [assumption | qe].
  - cbn [forallb snd] in Hwf. apply andb_prop in Hwf. destruct Hwf as [H1 H2].
    estep eval_rel. estep IH. apply rel_eret; [assumption | qe].
Qed.

(* a lookup that the Spec makes by [env_lookup] without a bind *)
Lemma rel_lookup_l {A' B'} st k (f : value -> M A') (s : Cm B') (Q2 : A' -> B' -> mstate -> Prop) :
  good st -> ctx st = c -> mode st = md ->
  (forall st1, good st1 -> ctx st1 = c -> mode st1 = md -> rel st1 (f (env_lookup k en) st1) (s (next_id st1)) Q2) ->
  rel st (mbind (m_lookup k) f st) (s (next_id st)) Q2.
Proof.
  intros Hg Hc Hm H. eapply rel_bind_l with (Q1 := fun x _ s1 => x = env_lookup k en /\ ctx s1 = c /\ mode s1 = md).
  - rewrite m_lookup_eq. unfold env_lookup. rewrite Hen, <- sc_lookup_flatten, <- Hc.
    destruct (sc_lookup (ctx st) k) as [v|]; unfold sret;
      (apply rel_ok; [exact Hg | apply emits_same; reflexivity | reflexivity | split; [reflexivity | split; [reflexivity | exact Hm]]]).
  - intros x st1 (-> & H1 & H2) Hg1. apply H; assumption.
Qed.

Lemma loop_func_rel name args st :
  good st -> ctx st = c -> mode st = md ->
  rel st (loop_func name args st) (sE (loop_func_spec en name args) (next_id st)) (Qe c md).
Proof.
  intros Hg Hc Hm. unfold loop_func, loop_func_spec.
  destruct args as [|a args]; [apply rel_efail|].
  destruct a; try apply rel_efail.
  apply rel_lookup_l; try assumption. intros st1 Hg1 Hc1 Hm1.
  destruct (fn_is name n_index); [apply rel_eret; [assumption | qe]|].
  destruct (env_lookup (key ++ s_index) en); try apply rel_efail.
  destruct (fn_is name n_isFirst); [apply rel_eret; [assumption | qe]|].
  apply rel_lookup_l; try assumption. intros st2 Hg2 Hc2 Hm2.
  destruct (env_lookup (key ++ s_lastindex) en); try apply rel_efail.
  apply rel_eret; [assumption | qe].
Qed.

Lemma call_func_rel name args st :
  forallb (wf KExpr) args = true -> good st -> ctx st = c -> mode st = md ->
  rel st (call_func w name args st) (sE (call_func_spec l en name args) (next_id st)) (Qe c md).
Proof.
  intros Hwf Hg Hc Hm. unfold call_func, call_func_spec.
  destruct (func_arities name) as [ar|]; [|apply rel_efail].
  destruct (negb (mem (N.of_nat (length args)) ar)); [apply rel_efail|].
  estep eval_list_rel.
  eapply rel_ebind; [apply (rel_elift _ _ (Qe c md)); [assumption | intros; qe]|].
  cbv beta. intros r ? st2 (-> & Hc2 & Hm2) Hg2.
  destruct y0.
  - apply rel_eret; [assumption | qe].
  - apply rel_fresh_list_or_nil; assumption.
  - apply rel_fresh_map; assumption.
Qed.


Lemma access_rel acc : forallb (wf KAccess) acc = true -> forall ref st,
  good st -> ctx st = c -> mode st = md ->
  rel st (dataref_access w acc ref st) (sE (access_spec l en acc ref) (next_id st)) (Qe c md).
Proof.
  induction acc as [|a acc IH]; intros Hwf ref st Hg Hc Hm; cbn [dataref_access access_spec].
  - apply rel_eret; [assumption | qe].
  - cbn [forallb] in Hwf. apply andb_prop in Hwf. destruct Hwf as [H1 H2].
    assert (TAIL : forall (ns : bool) (oi : option Z) (k : bstr) (st1 : mstate), good st1 -> ctx st1 = c -> mode st1 = md ->
      rel st1
        (match ref return M value with
         | VUndef | VNull => if ns then ret VNull else fail e_nullref
         | VList _ li =>
             match oi with
             | Some i => dataref_access w acc (list_index li i)
             | None => fail e_index
             end
         | VMap _ m => match oi with None => dataref_access w acc (map_key m k) | Some _ => fail e_key end
         | _ => fail e_noncollection
         end st1)
        (sE (match ref return E value with
         | VUndef | VNull => if ns then eret VNull else efail e_nullref
         | VList _ li =>
             match oi with
             | Some i => access_spec l en acc (list_index li i)
             | None => efail e_index
             end
         | VMap _ m => match oi with None => access_spec l en acc (map_key m k) | Some _ => efail e_key end
         | _ => efail e_noncollection
         end) (next_id st1)) (Qe c md)).
    { intros ns oi k st1 Hg1 Hc1 Hm1.
      destruct ref; try apply rel_efail.
      - destruct ns; [apply rel_eret; [assumption | qe] | apply rel_efail].
      - destruct ns; [apply rel_eret; [assumption | qe] | apply rel_efail].
      - destruct oi as [i|]; [apply IH; assumption | apply rel_efail].
      - destruct oi as [i|]; [apply rel_efail | apply IH; assumption]. }
    destruct a; try (apply rel_err).
    + (* NAccIndex *) apply (TAIL nullsafe (Some i) []); assumption.
    + (* NAccKey *) apply (TAIL nullsafe None k); assumption.
    + (* NAccExpr *)
      cbn [wf] in H1.
      eapply rel_ebind with (Q1 := Qe c md).
      { estep eval_rel. destruct y.
        all: try (apply rel_eret; [assumption | qe]).
        all: eapply rel_ebind; [apply (rel_elift _ _ (Qe c md)); [assumption | intros; qe]|];
             cbv beta; intros ? ? ? (-> & ? & ?) ?; apply rel_eret; [assumption | qe]. }
      cbv beta. intros x ik st1 (-> & Hc1 & Hm1) Hg1. destruct ik as [oi k].
      apply (TAIL nullsafe oi k); assumption.
Qed.


Lemma print_dirs_rel ds : forallb (wf KDirective) ds = true -> forall v st,
  good st -> ctx st = c -> mode st = md ->
  rel st (print_dirs cf w ds v st) (sE (dirs_spec cf l en ds v) (next_id st)) (Qe c md).
Proof.
  induction ds as [|d ds IH]; intros Hwf v st Hg Hc Hm; cbn [print_dirs dirs_spec].
  - apply rel_eret; [assumption | qe].
  - cbn [forallb] in Hwf. apply andb_prop in Hwf. destruct Hwf as [H1 H2].
    destruct d; try apply rel_efail. cbn [wf] in H1.
    destruct (lookup_directive name) as [[arglens rest]|]; [|apply rel_efail].
    destruct (negb (check_num_args arglens (length args))); [apply rel_efail|].
    estep eval_list_rel.
    eapply rel_ebind; [apply (rel_elift _ _ (Qe c md)); [assumption | intros; qe]|].
    cbv beta; intros ? ? ? (-> & ? & ?) ?.
    eapply rel_ebind; [apply (rel_elift _ _ (Qe c md)); [assumption | intros; qe]|].
    cbv beta; intros ? ? ? (-> & ? & ?) ?.
    estep IH. apply rel_eret; [assumption | qe].
Qed.

Lemma case_hit_rel sv vs : forallb (wf KExpr) vs = true -> forall st,
  good st -> ctx st = c -> mode st = md ->
  rel st (case_hit w sv vs st) (sE (case_hit_spec l en sv vs) (next_id st)) (Qe c md).
Proof.
  induction vs as [|v vs IH]; intros Hwf st Hg Hc Hm; cbn [case_hit case_hit_spec].
  - apply rel_eret; [assumption | qe].
  - cbn [forallb] in Hwf. apply andb_prop in Hwf. destruct Hwf as [H1 H2].
    estep eval_rel. destruct (equals sv y); [apply rel_eret; [assumption | qe] | apply IH; assumption].
Qed.

(* every expression clause of walk_node *)
Lemma expr_rel n st :
  wf KExpr n = true -> good st -> ctx st = c -> mode st = md ->
  rel st (walk_node cf w n st) (sE (eval_body cf l en n) (next_id st)) (Qe c md).
Proof.
  intros Hwf Hg Hc Hm.
  destruct n; try discriminate Hwf; cbn [walk_node eval_body]; cbn [wf] in Hwf;
    try (apply rel_eret; [assumption | qe]).
  - (* NFunc *)
    destruct (fn_is name n_index || fn_is name n_isFirst || fn_is name n_isLast).
    + apply loop_func_rel; assumption.
    + apply call_func_rel; assumption.
  - (* NListLit *) estep eval_list_rel. apply rel_fresh_list; assumption.
  - (* NMapLit *) estep maplit_rel. apply rel_fresh_map; assumption.
  - (* NDataRef *)
    eapply rel_ebind with (Q1 := Qe c md).
    + destruct (bstr_eqb key s_ij).
      * destruct (c_ij cf); [apply rel_eret; [assumption | qe] | apply rel_efail].
      * apply rel_m_lookup; assumption.
    + cbv beta. intros ? ? ? (-> & ? & ?) ?. apply access_rel; assumption.
  - (* NNot *) estep eval_rel. apply rel_eret; [assumption | qe].
  - (* NNeg *) estep evaldef_rel. destruct y; try apply rel_efail; apply rel_eret; (assumption || qe).
  - (* NBin *)
    apply andb_prop in Hwf. destruct Hwf as [H1 H2].
    destruct op.
    all: try (estep evaldef_rel; estep evaldef_rel; apply rel_elift; [assumption | intros; qe]).
    all: try (estep eval_rel; estep eval_rel; apply rel_eret; [assumption | qe]).
    + (* OOr *) estep eval_rel. destruct (truthy y); [apply rel_eret; [assumption | qe]|].
      estep eval_rel. apply rel_eret; [assumption | qe].
    + (* OAnd *) estep eval_rel. destruct (truthy y); [|apply rel_eret; [assumption | qe]].
      estep eval_rel. apply rel_eret; [assumption | qe].
    + (* OElvis *) estep eval_rel. destruct (is_nullish y); [apply eval_rel; assumption | apply rel_eret; [assumption | qe]].
  - (* NTern *)
    apply andb_prop in Hwf. destruct Hwf as [H12 H3]. apply andb_prop in H12. destruct H12 as [H1 H2].
    estep eval_rel. destruct (truthy y); apply eval_rel; assumption.
Qed.

End Expr.
