(* Probes for the EXTENDED walker of Model/InterpExt.v ([walk_body_x]: installed functions and print directives, evalMsg
   through a translation of the message bundle), in the vocabulary of Proofs/WalkTieProbes.v: [walk_body_x cf ux] on
   probe nodes against [run] on the event lists of WalkTie.v ([ev_MsgNode] -- whose bundle branch Model/Interp.v does
   not take --, [ev_PrintNode], [ev_FunctionNode]; each proved to be the list extracted from exec.go).  The
   interpreter does not follow the recursive call s.evalMsgParts of a plural part (a call it does not know is a
   no-op), so the plural probes select a form WITHOUT parts; the parts of a form are those of a flat translation.
   The breadth-first placeholder lookup (ast.MsgNode.Placeholder) is checked on nested messages by computation. *)
From Coq Require Import List NArith ZArith String Bool.
From Soy Require Import Model.Bytes Model.Num Model.Values Model.Outcome Model.Ast
  Model.Escape Model.Directives Model.Print Generated.Tables Model.Interp Model.InterpExt Proofs.WalkTie
  Proofs.WalkTieProbes.
Import ListNotations.
Open Scope N_scope.

Definition probe_okx (cf : cfg) (ux : user_ext) (pe : penv) (n : node) (clause : list wev) (d : list dec) (st : mstate) : Prop :=
  obs_model (walk_body_x cf ux (probe_w (pe_res pe)) n st) = obs_run (run 200 pe [] (events_of clause) (start st d)).

Local Ltac probe := unfold probe_okx; vm_compute; reflexivity.

(* ---- evalMsg with a translation ---- *)
Definition cf_msgs (parts : list node) (plural : list (Z * N)) (dflt : N) : cfg :=
  {| c_reg := c_reg cf0; c_ij := None; c_oblig := [];
     c_msgs := Some {| mb_msgs := [(77, parts)]; mb_plural := plural; mb_plural_default := dflt |} |}.

(* a flat translation, the placeholder moved to the front: the translated texts written, the placeholder's body
   (found in the {msg} node by name) walked between them *)
Lemma probe_X_msg_flat :
  probe_okx (cf_msgs [NIdent 0 bk1; NRawText 0 bk2; NRawText 0 bv] [] 0) no_ext
    (mkpe [R0 "node" 10; R0 "?.Body" 13] [S1 "?.Parts[].Text" 1 bk2; S1 "?.Parts[].Text" 2 bv] []) msg_n ev_MsgNode
    [DIf false; DIf false; DLoop 3; DCase 1; DIf false; DCase 0; DIf false; DCase 0; DIf false] st0.
Proof. probe. Qed.
(* the message is not in the bundle: the source text (walkMsgBody) *)
Lemma probe_X_msg_untranslated :
  probe_okx {| c_reg := c_reg cf0; c_ij := None; c_oblig := [];
               c_msgs := Some {| mb_msgs := [(78, [NRawText 0 bv])]; mb_plural := []; mb_plural_default := 0 |} |} no_ext
    (mkpe [R0 "node" 10; R1 "node.Body.Children()[]" 0 11; R1 "node.Body.Children()[].Body" 1 13; R1 "node.Body.Children()[]" 2 14] [] []) msg_n ev_MsgNode
    [DIf false; DIf true; DLoop 3; DCase 0; DCase 1; DCase 0] st0.
Proof. probe. Qed.
(* a placeholder the {msg} node does not have: errorf, nothing walked *)
Lemma probe_X_msg_missing_placeholder :
  probe_okx (cf_msgs [NRawText 0 bv; NIdent 0 bk2] [] 0) no_ext
    (mkpe [R0 "node" 10; R0 "?.Body" 13] [S1 "?.Parts[].Text" 0 bv] []) msg_n ev_MsgNode
    [DIf false; DIf false; DLoop 2; DCase 0; DIf false; DCase 1; DIf true] st0.
Proof. probe. Qed.
(* a plural part: the {plural} node of that variable found, its value evaluated (s.node restored), PluralCase, the
   selected form (here: without parts) *)
Definition tr_plural : list node := [NMsgPlural 0 bv (NNull 0) [NMsgPluralCase 0 0 []; NMsgPluralCase 0 0 [NRawText 0 bx]] []].
Lemma probe_X_msg_plural :
  probe_okx (cf_msgs tr_plural [(2%Z, 0)] 1) no_ext
    (mkpe [R0 "node" 10; R0 "?.Value" 13] [] [(13, Ok (VInt 2))]) msg_pl ev_MsgNode
    [DIf false; DIf false; DLoop 1; DCase 2; DLoop 1; DIf true; DIf false; DIf false] st0.
Proof. probe. Qed.
(* the plural value is not an integer: errorf after the evaluation *)
Lemma probe_X_msg_plural_not_int :
  probe_okx (cf_msgs tr_plural [(2%Z, 0)] 1) no_ext
    (mkpe [R0 "node" 10; R0 "?.Value" 13] [] [(13, Ok (VStr bx))]) msg_pl ev_MsgNode
    [DIf false; DIf false; DLoop 1; DCase 2; DLoop 1; DIf true; DIf true] st0.
Proof. probe. Qed.
(* the {msg} node has no {plural} of that variable: errorf, nothing evaluated *)
Lemma probe_X_msg_plural_no_node :
  probe_okx (cf_msgs tr_plural [(2%Z, 0)] 1) no_ext
    (mkpe [R0 "node" 10; R0 "?.Value" 13] [] []) msg_n ev_MsgNode
    [DIf false; DIf false; DLoop 1; DCase 2; DLoop 3; DIf false; DIf false; DIf false] st0.
Proof. probe. Qed.

(* ---- an installed print directive (c08Install: verifBang), an installed function (verifTwice) ---- *)
Definition bxbang := Eval vm_compute in b "x!".
Lemma probe_X_print_installed :
  probe_okx cf0 (ux_harness true false)
    (mkpe [R0 "node" 10; R0 "node.Arg" 11] [S0 "?.String()" bxbang] [(11, Ok (VStr bx))])
    (NPrint 10 (NNull 11) [NDirective 20 n_verifBang []]) ev_PrintNode
    [DIf false; DLoop 0; DLoop 1; DIf false; DIf false; DLoop 0; DFails false; DIf false; DIf true; DIf false] st0.
Proof. probe. Qed.
(* installed directive first, then a library directive whose Apply fails: the arguments of both evaluated in order,
   nothing written *)
Lemma probe_X_print_installed_then_fails :
  probe_okx cf0 (ux_harness true false)
    (mkpe [R0 "node" 10; R0 "node.Arg" 11; R2 "?[].Args[]" 0 1 31] [S0 "?.String()" bxbang] [(11, Ok (VStr bx)); (31, Ok (VStr bx))])
    (NPrint 10 (NNull 11) [NDirective 20 n_verifBang []; NDirective 30 d_trunc [NNull 31]]) ev_PrintNode
    [DIf false; DLoop 0; DLoop 2; DIf false; DIf false; DLoop 0; DFails false; DIf false; DIf false; DIf false; DLoop 1; DFails true] st0.
Proof. probe. Qed.
Lemma probe_X_func_installed :
  probe_okx cf0 (ux_harness false true) (mkpe [R0 "node" 10; R1 "node.Args[]" 0 11] [] [(11, Ok (VInt 4))])
    (NFunc 10 n_verifTwice [NNull 11]) ev_FunctionNode
    [DIf false; DIf true; DIf false; DLoop 1; DFails false; DIf false] st0.
Proof. probe. Qed.

(* ---- MsgNode.Placeholder: breadth first ---- *)
(* same-named placeholders in a case and in the default of a {plural}: the DEFAULT's is found (two levels below the
   plural: Default -> nodes; the case's is three levels below: case -> Body -> nodes) *)
Example placeholder_bfs_default_before_cases :
  msg_placeholder bk1 [NMsgPlural 12 bv (NNull 13) [NMsgPluralCase 20 1 [NRawText 21 bx; NMsgPlaceholder 22 bk1 (NNull 23)]]
                                                     [NMsgPlaceholder 32 bk1 (NNull 33)]] = Some (NNull 33).
Proof. vm_compute. reflexivity. Qed.
(* only in a case *)
Example placeholder_bfs_case :
  msg_placeholder bk1 [NMsgPlural 12 bv (NNull 13) [NMsgPluralCase 20 1 [NMsgPlaceholder 22 bk2 (NNull 23)];
                                                      NMsgPluralCase 25 2 [NMsgPlaceholder 26 bk1 (NNull 27)]]
                                                     [NMsgPlaceholder 32 bk2 (NNull 33)]] = Some (NNull 27).
Proof. vm_compute. reflexivity. Qed.
(* a flat message: the first of that name, left to right; none: nil *)
Example placeholder_bfs_flat :
  msg_placeholder bk1 [NRawText 11 bx; NMsgPlaceholder 12 bk2 (NNull 13); NMsgPlaceholder 14 bk1 (NNull 15); NMsgPlaceholder 16 bk1 (NNull 17)]
  = Some (NNull 15).
Proof. vm_compute. reflexivity. Qed.
Example placeholder_bfs_none : msg_placeholder bv [NRawText 11 bx; NMsgPlaceholder 12 bk2 (NNull 13)] = None.
Proof. vm_compute. reflexivity. Qed.
(* a placeholder is compared, never descended into *)
Example placeholder_bfs_not_inside :
  msg_placeholder bk1 [NMsgPlaceholder 12 bk2 (NList 13 [NMsgPlaceholder 14 bk1 (NNull 15)])] = None.
Proof. vm_compute. reflexivity. Qed.
