(* C06 for the JavaScript generator, fuel adequacy: the budgets of Model/JsGen.v are only there to make the
   definitions structural -- none of them can run out on any tree.

   - [jwalk]: a budget above the height of the tree ([Spec/SafetyJs.v jw_height]) suffices (the Go recursion of
     soyjs's walker is bounded by the nesting of the tree it walks);
   - [jmsg_children], [jfind_placeholder]: the budget [msg_size body] the model gives them suffices for every body;
   - [ns_decls]: the budget [S (length name)] suffices (every round moves to a later dot).

   Carried through the generator as the predicate [jnf m]: "m never answers OutOfFuel", under the hypothesis that
   the recursive call answers on every node of height at most H. *)
From Coq Require Import Lia ZifyNat List.
Import ListNotations.
From Soy Require Import Model.Bytes Model.Num Model.Values Model.Outcome Model.Ast Model.Utf8 Model.JsEscape
  Generated.Tables Model.JsGen Spec.SafetyJs Proofs.SafetyJsGen.
Open Scope N_scope.
#[local] Arguments assoc_s {A} k l : simpl never.

Definition jnf {A} (m : J A) : Prop := forall st, m st <> OutOfFuel.

(* ---- the monad ---- *)
Lemma jnf_ret {A} (x : A) : jnf (jret x).
Proof. intros st. discriminate. Qed.
Lemma jnf_fail {A} e : jnf (@jfail A e).
Proof. intros st. discriminate. Qed.
Lemma jnf_oom {A} : jnf (fun _ : jstate => @OutOfModel (A * jstate)).
Proof. intros st. discriminate. Qed.
Lemma jnf_crash {A} e : jnf (fun _ : jstate => @Crash (A * jstate) e).
Proof. intros st. discriminate. Qed.
Lemma jnf_bind {A B} (m : J A) (f : A -> J B) : jnf m -> (forall x, jnf (f x)) -> jnf (jbind m f).
Proof.
  intros Hm Hf st. unfold jbind. specialize (Hm st).
  destruct (m st) as [[x st']| | | | |]; try discriminate; [apply Hf | congruence].
Qed.
Lemma jnf_get : jnf jget.
Proof. intros st. discriminate. Qed.
Lemma jnf_mod f : jnf (jmod f).
Proof. intros st. discriminate. Qed.
Lemma jnf_lift {A} (o : outcome A) : o <> OutOfFuel -> jnf (jlift o).
Proof. intros Ho st. unfold jlift. destruct o; try discriminate. congruence. Qed.
Lemma jnf_emit cs : jnf (jemit cs).
Proof. apply jnf_mod. Qed.
Lemma jnf_txt t : jnf (jtxt t).
Proof. apply jnf_emit. Qed.

Ltac fstep :=
  lazymatch goal with
  | |- jnf (jret _) => apply jnf_ret
  | |- jnf (jfail _) => apply jnf_fail
  | |- jnf (jbind _ _) => apply jnf_bind; [| intros ?]
  | |- jnf jget => apply jnf_get
  | |- jnf (jemit _) => apply jnf_emit
  | |- jnf (jtxt _) => apply jnf_txt
  | |- jnf (jmod _) => apply jnf_mod
  | |- jnf (match ?x with _ => _ end) => destruct x
  | |- jnf (fun _ => OutOfModel) => apply jnf_oom
  | |- jnf (fun _ => Crash _) => apply jnf_crash
  end.

(* ---- scope.go and the small helpers: no budget anywhere ---- *)
Lemma nf_push : jnf jsc_push. Proof. apply jnf_mod. Qed.
Lemma nf_pop : jnf jsc_pop. Proof. apply jnf_mod. Qed.
Lemma nf_genname v : jnf (jsc_genname v).
Proof. unfold jsc_genname. cbv zeta. repeat fstep. Qed.
Lemma nf_bind v g : jnf (jsc_bind v g).
Proof. unfold jsc_bind. repeat fstep. Qed.
Lemma nf_makevar v : jnf (jsc_makevar v).
Proof. unfold jsc_makevar. fstep. apply nf_genname. fstep. apply nf_bind. fstep. Qed.
Lemma nf_push_for_range v : jnf (jsc_push_for_range v).
Proof. unfold jsc_push_for_range. cbv zeta. repeat fstep. Qed.
Lemma nf_push_for_each v : jnf (jsc_push_for_each v).
Proof. unfold jsc_push_for_each. cbv zeta. repeat fstep. Qed.
Lemma nf_jindent : jnf jindent.
Proof. unfold jindent. repeat fstep. Qed.
Lemma nf_jsln cs : jnf (jsln cs).
Proof. unfold jsln. fstep. apply nf_jindent. repeat fstep. Qed.
Lemma nf_indent_inc : jnf indent_inc. Proof. apply jnf_mod. Qed.
Lemma nf_indent_dec : jnf indent_dec. Proof. apply jnf_mod. Qed.
Lemma nf_bufname : jnf bufname.
Proof. unfold bufname. repeat fstep. Qed.
Lemma nf_lookup_var v : jnf (lookup_var v).
Proof. unfold lookup_var. repeat fstep. Qed.
Lemma nf_note_called key imp : jnf (note_called key imp).
Proof. unfold note_called. repeat fstep. Qed.
Lemma nf_write_raw_text t : jnf (write_raw_text t).
Proof. unfold write_raw_text. fstep. apply nf_jindent. fstep. apply nf_bufname. fstep. Qed.

Ltac fknown0 :=
  lazymatch goal with
  | |- jnf jindent => apply nf_jindent
  | |- jnf (jsln _) => apply nf_jsln
  | |- jnf indent_inc => apply nf_indent_inc
  | |- jnf indent_dec => apply nf_indent_dec
  | |- jnf bufname => apply nf_bufname
  | |- jnf jsc_push => apply nf_push
  | |- jnf jsc_pop => apply nf_pop
  | |- jnf (jsc_makevar _) => apply nf_makevar
  | |- jnf (jsc_genname _) => apply nf_genname
  | |- jnf (jsc_bind _ _) => apply nf_bind
  | |- jnf (lookup_var _) => apply nf_lookup_var
  | |- jnf (jsc_push_for_range _) => apply nf_push_for_range
  | |- jnf (jsc_push_for_each _) => apply nf_push_for_each
  | |- jnf (note_called _ _) => apply nf_note_called
  | |- jnf (write_raw_text _) => apply nf_write_raw_text
  end.

(* ---- heights ---- *)
Lemma jw_hmax_cons x r : jw_hmax (x :: r) = Nat.max (jw_height x) (jw_hmax r).
Proof. reflexivity. Qed.
Lemma jw_hmap_cons k x r : jw_hmap ((k, x) :: r) = Nat.max (jw_height x) (jw_hmap r).
Proof. reflexivity. Qed.
Lemma jw_hmax_in x l : In x l -> (jw_height x <= jw_hmax l)%nat.
Proof. induction l as [|y r IH]; [intros []|]. rewrite jw_hmax_cons. intros [<-|Hi]; [lia|]. specialize (IH Hi). lia. Qed.
Lemma jw_hmax_app a c : jw_hmax (a ++ c) = Nat.max (jw_hmax a) (jw_hmax c).
Proof. induction a as [|x r IH]; [reflexivity|]. cbn [app]. rewrite !jw_hmax_cons, IH. lia. Qed.
Lemma jw_hmap_in kx l : In kx l -> (jw_height (snd kx) <= jw_hmap l)%nat.
Proof.
  induction l as [|[k y] r IH]; [intros []|]. rewrite jw_hmap_cons. intros [<-|Hi]; [cbn [snd]; lia|]. specialize (IH Hi). lia.
Qed.

(* one equation per node kind the walker descends into *)
Lemma jwh_func p nm args : jw_height (NFunc p nm args) = S (jw_hmax args). Proof. reflexivity. Qed.
Lemma jwh_listlit p l : jw_height (NListLit p l) = S (jw_hmax l). Proof. reflexivity. Qed.
Lemma jwh_maplit p l : jw_height (NMapLit p l) = S (jw_hmap l). Proof. reflexivity. Qed.
Lemma jwh_dataref p k acc : jw_height (NDataRef p k acc) = S (jw_hmax acc). Proof. reflexivity. Qed.
Lemma jwh_accexpr p ns e : jw_height (NAccExpr p ns e) = S (jw_height e). Proof. reflexivity. Qed.
Lemma jwh_list p l : jw_height (NList p l) = S (jw_hmax l). Proof. reflexivity. Qed.
Lemma jwh_print p a ds : jw_height (NPrint p a ds) = S (Nat.max (jw_height a) (jw_hmax ds)). Proof. reflexivity. Qed.
Lemma jwh_directive p nm args : jw_height (NDirective p nm args) = S (jw_hmax args). Proof. reflexivity. Qed.
Lemma jwh_if p cs : jw_height (NIf p cs) = S (jw_hmax cs). Proof. reflexivity. Qed.
Lemma jwh_ifcond p c body : jw_height (NIfCond p c body) = S (Nat.max (jw_hopt c) (jw_height body)). Proof. reflexivity. Qed.
Lemma jwh_for p v lst body ie :
  jw_height (NFor p v lst body ie) = S (Nat.max (jw_height lst) (Nat.max (jw_height body) (jw_hopt ie))).
Proof. reflexivity. Qed.
Lemma jwh_switch p v cs : jw_height (NSwitch p v cs) = S (Nat.max (jw_height v) (jw_hmax cs)). Proof. reflexivity. Qed.
Lemma jwh_switchcase p vs body : jw_height (NSwitchCase p vs body) = S (Nat.max (jw_hmax vs) (jw_height body)). Proof. reflexivity. Qed.
Lemma jwh_call p nm ad dat ps : jw_height (NCall p nm ad dat ps) = S (Nat.max (jw_hopt dat) (jw_hmax ps)). Proof. reflexivity. Qed.
Lemma jwh_paramvalue p k v : jw_height (NParamValue p k v) = S (jw_height v). Proof. reflexivity. Qed.
Lemma jwh_paramcontent p k c : jw_height (NParamContent p k c) = S (jw_height c). Proof. reflexivity. Qed.
Lemma jwh_msg p i m d body : jw_height (NMsg p i m d body) = S (jw_hmax body). Proof. reflexivity. Qed.
Lemma jwh_placeholder p nm body : jw_height (NMsgPlaceholder p nm body) = S (jw_height body). Proof. reflexivity. Qed.
Lemma jwh_plural p vn v cases dflt :
  jw_height (NMsgPlural p vn v cases dflt) = S (Nat.max (jw_height v) (Nat.max (jw_hmax cases) (jw_hmax dflt))).
Proof. reflexivity. Qed.
Lemma jwh_pluralcase p v body : jw_height (NMsgPluralCase p v body) = S (jw_hmax body). Proof. reflexivity. Qed.
Lemma jwh_global p nm v : jw_height (NGlobal p nm v) = S (jw_vdepth v). Proof. reflexivity. Qed.
Lemma jw_height_pos n : (1 <= jw_height n)%nat.
Proof. destruct n; cbn [jw_height]; lia. Qed.

(* nodeFromValue: the literal built from a value is no taller than the value is deep *)
Definition jw_nov_list (p : N) : list value -> option (list node) :=
  fix go (l : list value) : option (list node) :=
    match l with
    | [] => Some []
    | x :: r => match node_of_value p x, go r with Some n, Some ns => Some (n :: ns) | _, _ => None end
    end.
Definition jw_nov_map (p : N) : list (bstr * value) -> option (list (bstr * node)) :=
  fix go (m : list (bstr * value)) : option (list (bstr * node)) :=
    match m with
    | [] => Some []
    | (k, x) :: r => match node_of_value p x, go r with Some n, Some ns => Some ((k, n) :: ns) | _, _ => None end
    end.
Lemma node_of_value_list p id l : node_of_value p (VList id l) = option_map (NListLit p) (jw_nov_list p l).
Proof. reflexivity. Qed.
Lemma node_of_value_map p id m : node_of_value p (VMap id m) = option_map (NMapLit p) (jw_nov_map p m).
Proof. reflexivity. Qed.
Lemma jw_nov_list_cons p x r :
  jw_nov_list p (x :: r) = match node_of_value p x, jw_nov_list p r with Some n, Some ns => Some (n :: ns) | _, _ => None end.
Proof. reflexivity. Qed.
Lemma jw_nov_map_cons p k x r :
  jw_nov_map p ((k, x) :: r) = match node_of_value p x, jw_nov_map p r with Some n, Some ns => Some ((k, n) :: ns) | _, _ => None end.
Proof. reflexivity. Qed.

Lemma node_of_value_height : forall v p n, node_of_value p v = Some n -> (jw_height n <= jw_vdepth v)%nat.
Proof.
  fix IH 1. intros v p n. destruct v as [| |x|z|f|s|id l|id m].
  - discriminate.
  - intros E. injection E as <-. cbn. lia.
  - intros E. injection E as <-. cbn. lia.
  - intros E. injection E as <-. cbn. lia.
  - intros E. injection E as <-. cbn. lia.
  - intros E. injection E as <-. cbn. lia.
  - rewrite node_of_value_list. cbn [jw_vdepth].
    assert (G : forall ns, jw_nov_list p l = Some ns ->
                (jw_hmax ns <= fold_right (fun x acc => Nat.max (jw_vdepth x) acc) 0%nat l)%nat).
    { induction l as [|x r IHr]; intros ns E.
      - injection E as <-. cbn. lia.
      - rewrite jw_nov_list_cons in E.
        destruct (node_of_value p x) as [nx|] eqn:Ex; [|discriminate].
        destruct (jw_nov_list p r) as [nr|] eqn:Er; [|discriminate]. injection E as <-.
        rewrite jw_hmax_cons. cbn [fold_right]. pose proof (IH x p nx Ex). pose proof (IHr nr eq_refl). lia. }
    destruct (jw_nov_list p l) as [ns|] eqn:E; cbn [option_map]; [|discriminate].
    intros E2. injection E2 as <-. rewrite jwh_listlit. pose proof (G ns eq_refl). lia.
  - rewrite node_of_value_map. cbn [jw_vdepth].
    assert (G : forall ns, jw_nov_map p m = Some ns ->
                (jw_hmap ns <= fold_right (fun kx acc => Nat.max (jw_vdepth (snd kx)) acc) 0%nat m)%nat).
    { induction m as [|[k x] r IHr]; intros ns E.
      - injection E as <-. cbn. lia.
      - rewrite jw_nov_map_cons in E.
        destruct (node_of_value p x) as [nx|] eqn:Ex; [|discriminate].
        destruct (jw_nov_map p r) as [nr|] eqn:Er; [|discriminate]. injection E as <-.
        rewrite jw_hmap_cons. cbn [fold_right snd]. pose proof (IH x p nx Ex). pose proof (IHr nr eq_refl). lia. }
    destruct (jw_nov_map p m) as [ns|] eqn:E; cbn [option_map]; [|discriminate].
    intros E2. injection E2 as <-. rewrite jwh_maplit. pose proof (G ns eq_refl). lia.
Qed.

(* sort.Strings on the keys of a map literal keeps its items *)
Lemma jw_sort_items_in {A} (l : list (bstr * A)) x : In x (sort_items l) -> In x l.
Proof.
  induction l as [|y l IH]; cbn [sort_items]; [auto|].
  set (ins := fix ins (x : bstr * A) (l : list (bstr * A)) {struct l} : list (bstr * A) :=
                match l with [] => [x] | y :: r => if bstr_leb (fst x) (fst y) then x :: l else y :: ins x r end).
  assert (G : forall z acc, In x (ins z acc) -> x = z \/ In x acc).
  { intros z acc. induction acc as [|q acc IHa]; cbn.
    - intros [->|[]]. auto.
    - destruct (bstr_leb (fst z) (fst q)); cbn.
      + intros [->|[->|Hi]]; auto.
      + intros [->|Hi]; auto. destruct (IHa Hi); auto. }
  intro H. destruct (G _ _ H) as [->|Hi]; [left; reflexivity|right; auto].
Qed.

(* ---- the budgets of the message loops ---- *)
Definition jw_msum (l : list node) : nat := fold_right (fun x acc => (nmsg_size x + acc)%nat) 0%nat l.
Lemma jw_msum_go l :
  (fix go (l : list node) : nat := match l with [] => 0%nat | x :: r => (nmsg_size x + go r)%nat end) l = jw_msum l.
Proof. induction l as [|x r IH]; [reflexivity|]. cbn [jw_msum fold_right]. fold (jw_msum r). rewrite <- IH. reflexivity. Qed.
Lemma jw_msum_cons x r : jw_msum (x :: r) = (nmsg_size x + jw_msum r)%nat.
Proof. reflexivity. Qed.
Lemma jw_msum_app a c : jw_msum (a ++ c) = (jw_msum a + jw_msum c)%nat.
Proof. induction a as [|x r IH]; [reflexivity|]. cbn [app]. rewrite !jw_msum_cons, IH. lia. Qed.
Lemma msg_size_eq l : msg_size l = S (jw_msum l).
Proof. reflexivity. Qed.
Lemma nmsg_size_plural p vn v cases dflt : nmsg_size (NMsgPlural p vn v cases dflt) = (4 + jw_msum cases + jw_msum dflt)%nat.
Proof. cbn [nmsg_size]. rewrite !jw_msum_go. reflexivity. Qed.
Lemma nmsg_size_case p v body : nmsg_size (NMsgPluralCase p v body) = (3 + jw_msum body)%nat.
Proof. cbn [nmsg_size]. rewrite jw_msum_go. reflexivity. Qed.
Lemma nmsg_size_list p l : nmsg_size (NList p l) = (2 + jw_msum l)%nat.
Proof. cbn [nmsg_size]. rewrite jw_msum_go. reflexivity. Qed.
Lemma nmsg_size_pos n : (1 <= nmsg_size n)%nat.
Proof. destruct n; try (cbn [nmsg_size]; lia). Qed.
Lemma jw_msum_in x l : In x l -> (nmsg_size x <= jw_msum l)%nat.
Proof. induction l as [|y r IH]; [intros []|]. rewrite jw_msum_cons. intros [<-|Hi]; [lia|]. specialize (IH Hi). lia. Qed.

(* MsgNode.Placeholder: every step takes at least one unit of the queue's size; what it finds lies below the queue *)
Lemma find_placeholder_fuel : forall f q name, (jw_msum q < f)%nat -> jfind_placeholder f q name <> OutOfFuel.
Proof.
  induction f as [|f IH]; intros q name Hf; [lia|]. cbn [jfind_placeholder].
  destruct q as [|x r]; [discriminate|]. rewrite jw_msum_cons in Hf. pose proof (nmsg_size_pos x) as Hx.
  destruct x; try (apply IH; lia).
  - (* NList *) apply IH. rewrite nmsg_size_list in Hf. rewrite jw_msum_app. lia.
  - (* placeholder *) destruct (bstr_eqb name0 name); [discriminate|]. apply IH. lia.
  - (* plural *) apply IH. rewrite nmsg_size_plural in Hf. rewrite !jw_msum_app, jw_msum_cons, nmsg_size_list. cbn [jw_msum fold_right]. lia.
  - (* case *) apply IH. rewrite nmsg_size_case in Hf. rewrite jw_msum_app, jw_msum_cons, nmsg_size_list. cbn [jw_msum fold_right]. lia.
Qed.

Lemma find_placeholder_height : forall f q name ph,
  jfind_placeholder f q name = Ok (Some ph) -> (S (jw_height ph) <= jw_hmax q)%nat.
Proof.
  induction f as [|f IH]; intros q name ph E; cbn [jfind_placeholder] in E; [discriminate|].
  destruct q as [|x r]; [discriminate|]. rewrite jw_hmax_cons.
  destruct x; try (specialize (IH _ _ _ E); lia).
  - (* NList *) specialize (IH _ _ _ E). rewrite jw_hmax_app in IH. rewrite jwh_list. lia.
  - (* placeholder *) destruct (bstr_eqb name0 name).
    + injection E as <-. rewrite jwh_placeholder. lia.
    + specialize (IH _ _ _ E). lia.
  - (* plural *) specialize (IH _ _ _ E). rewrite !jw_hmax_app, jw_hmax_cons, jwh_list in IH. rewrite jwh_plural.
    cbn [jw_hmax fold_right] in IH. fold (jw_hmax r) in IH. fold (jw_hmax cases) in IH. fold (jw_hmax default) in IH. lia.
  - (* case *) specialize (IH _ _ _ E). rewrite jw_hmax_app, jw_hmax_cons, jwh_list in IH. rewrite jwh_pluralcase.
    cbn [jw_hmax fold_right] in IH. fold (jw_hmax r) in IH. fold (jw_hmax body) in IH. lia.
Qed.

Lemma find_plural_in body var x : jfind_plural body var = Some x -> In x body.
Proof.
  induction body as [|y r IH]; cbn [jfind_plural]; [discriminate|].
  destruct y; try (intros E; right; exact (IH E)).
  destruct (bstr_eqb varname var); [intros E; injection E as <-; left; reflexivity | intros E; right; exact (IH E)].
Qed.

Section jw_jmpart_ind.
  Variable P : jmpart -> Prop.
  Hypothesis Hraw : forall t, P (JMRaw t).
  Hypothesis Hph : forall n, P (JMPh n).
  Hypothesis Hpl : forall v cases, Forall (Forall P) cases -> P (JMPlural v cases).
  Fixpoint jw_jmpart_ind (p : jmpart) : P p :=
    match p with
    | JMRaw t => Hraw t
    | JMPh n => Hph n
    | JMPlural v cases =>
        Hpl v cases
          ((fix go (cs : list (list jmpart)) : Forall (Forall P) cs :=
              match cs with
              | [] => Forall_nil _
              | c :: cr => Forall_cons c
                             ((fix go2 (ps : list jmpart) : Forall P ps :=
                                 match ps with
                                 | [] => Forall_nil _
                                 | q :: qr => Forall_cons q (jw_jmpart_ind q) (go2 qr)
                                 end) c) (go cr)
              end) cases)
    end.
End jw_jmpart_ind.

(* visitNamespace: every round moves past the next dot *)
Lemma find_dot_ge : forall s i j, find_dot s i = Some j -> (i <= j)%nat.
Proof.
  induction s as [|c r IH]; intros i j E; cbn [find_dot] in E; [discriminate|].
  destruct (c =? 46); [injection E as <-; lia|]. specialize (IH _ _ E). lia.
Qed.

Lemma nf_ns_decls : forall f name i, (length name - i < f)%nat -> jnf (ns_decls f name i).
Proof.
  induction f as [|f IH]; intros name i Hf; [lia|]. cbn [ns_decls]. cbv zeta.
  destruct (Nat.ltb_spec i (length name)) as [Hlt|Hge]; [|apply jnf_ret].
  apply jnf_bind; [apply nf_jsln|]. intros _. apply IH.
  destruct (find_dot (drop (S i) name) (S i)) as [j|] eqn:E; [apply find_dot_ge in E; lia | lia].
Qed.

(* ------------------------------------------------------------------ *)
Section Walk.
Variable o : jopts.

Section Body.
Variable w : node -> J unit.
Variable H : nat.
Hypothesis Hw : forall n, (jw_height n <= H)%nat -> jnf (w n).

Ltac fgo := repeat first [ fknown0 | fstep ].
Ltac fw := apply Hw; lia.

Lemma nf_walk_list ns : (jw_hmax ns <= H)%nat -> jnf (jwalk_list w ns).
Proof.
  induction ns as [|x r IH]; cbn [jwalk_list]; intros Hh; [apply jnf_ret|]. rewrite jw_hmax_cons in Hh.
  fstep; [fw | apply IH; lia].
Qed.

Lemma nf_block n : (jw_height n <= H)%nat -> jnf (jblock w n).
Proof.
  intros Hh st. unfold jblock, jbind, jget. cbv beta iota zeta.
  match goal with |- context [w n ?sub] => pose proof (Hw n Hh sub) as Hs; destruct (w n sub) as [[u sub']| | | | |] end;
    congruence.
Qed.

Lemma nf_list_items first l : (jw_hmax l <= H)%nat -> jnf (list_items w first l).
Proof.
  revert first. induction l as [|x r IH]; intros first Hh; cbn [list_items]; [apply jnf_ret|]. rewrite jw_hmax_cons in Hh.
  fstep; [destruct first; fgo|]. fstep; [fw|]. apply IH. lia.
Qed.

Lemma nf_map_items first l : (jw_hmap l <= H)%nat -> jnf (map_items w first l).
Proof.
  revert first. induction l as [|[k x] r IH]; intros first Hh; cbn [map_items]; [apply jnf_ret|]. rewrite jw_hmap_cons in Hh.
  fstep; [destruct first; fgo|]. fstep; [fgo|]. fstep; [fw|]. apply IH. lia.
Qed.

Lemma jw_hmap_sort l : (jw_hmap (sort_items l) <= jw_hmap l)%nat.
Proof.
  assert (G : forall l' : list (bstr * node), (forall kx, In kx l' -> (jw_height (snd kx) <= jw_hmap l)%nat) -> (jw_hmap l' <= jw_hmap l)%nat).
  { induction l' as [|[k x] r IH]; intros Hin; [cbn; lia|]. rewrite jw_hmap_cons.
    pose proof (Hin (k, x) (or_introl eq_refl)) as H1. cbn [snd] in H1.
    assert (jw_hmap r <= jw_hmap l)%nat by (apply IH; intros kx Hi; apply Hin; right; exact Hi). lia. }
  apply G. intros kx Hi. apply jw_hmap_in. apply jw_sort_items_in. exact Hi.
Qed.

Lemma nf_jop sym a c : (jw_height a <= H)%nat -> (jw_height c <= H)%nat -> jnf (jop w sym a c).
Proof. intros Ha Hc. unfold jop. fstep; [fgo|]. fstep; [fw|]. fstep; [fgo|]. fstep; [fw|]. fgo. Qed.

Lemma nf_apply_pieces ps args : (jw_hmax args <= H)%nat -> jnf (apply_pieces w ps args).
Proof.
  intros Hh. induction ps as [|p ps IH]; cbn [apply_pieces]; [apply jnf_ret|].
  destruct p as [t|i]; [fstep; [fgo|exact IH]|].
  destruct (nth_error args i) as [a|] eqn:E; [|apply jnf_fail].
  apply nth_error_In in E. pose proof (jw_hmax_in _ _ E). fstep; [fw|exact IH].
Qed.

Lemma nf_builtin_call name args : (jw_hmax args <= H)%nat -> jnf (builtin_call w name args).
Proof. intros Hh. unfold builtin_call. fstep; [fgo|]. fstep; [apply nf_list_items; exact Hh|]. fgo. Qed.

Lemma nf_visit_function name args : (jw_hmax args <= H)%nat -> jnf (visit_function o w name args).
Proof.
  intros Hh. unfold visit_function. cbv zeta.
  destruct (assoc_s name js_builtin_funcs) as [jn|].
  - fstep; [apply nf_builtin_call; exact Hh|]. fgo.
  - destruct (assoc_s name js_funcs) as [[lens alts]|].
    + destruct (pick_alt alts (length args)) as [ps|]; [|fgo]. fstep; [apply nf_apply_pieces; exact Hh|]. fgo.
    + destruct (bstr_eqb name jn_isFirst || bstr_eqb name jn_isLast || bstr_eqb name jn_index); [|apply jnf_fail].
      apply jnf_bind; [apply jnf_get | intro st]. destruct (jsc_loop (j_scope st) (loop_var_of args)) as [ix lim]. fgo.
Qed.

(* ---- data references ---- *)
Lemma nf_dataref_access acc : (jw_hmax acc <= S H)%nat -> forall expr closers, jnf (jdataref_access w acc expr closers).
Proof.
  induction acc as [|a rest IH]; intros Hh expr closers; cbn [jdataref_access]; [apply jnf_ret|].
  rewrite jw_hmax_cons in Hh. assert (Hr : (jw_hmax rest <= S H)%nat) by lia.
  cbv zeta. destruct a; try (apply IH; exact Hr).
  - fstep; [fgo|]. apply IH. exact Hr.
  - fstep; [fgo|]. apply IH. exact Hr.
  - rewrite jwh_accexpr in Hh. fstep; [fgo|]. fstep; [apply nf_block; lia|]. apply IH. exact Hr.
Qed.

Lemma nf_visit_dataref key acc : (jw_hmax acc <= S H)%nat -> jnf (visit_dataref w key acc).
Proof. intros Hh. unfold visit_dataref. fstep; [fgo|]. fstep; [apply nf_dataref_access; exact Hh|]. fgo. Qed.

(* ---- print ---- *)
Definition jw_kmax (kept : list (bstr * list node)) : nat :=
  fold_right (fun d acc => Nat.max (jw_hmax (snd d)) acc) 0%nat kept.
Lemma jw_kmax_app a c : jw_kmax (a ++ c) = Nat.max (jw_kmax a) (jw_kmax c).
Proof. induction a as [|x r IH]; [reflexivity|]. cbn [app jw_kmax fold_right]. fold (jw_kmax (r ++ c)). fold (jw_kmax r). rewrite IH. lia. Qed.

(* the directives kept for the closing part carry arguments of the print's own directive nodes *)
Lemma print_scan_kept dirs : forall escape kept st r st',
  print_scan o dirs escape kept st = Ok (r, st') ->
  (jw_hmax dirs <= S H)%nat -> (jw_kmax kept <= H)%nat -> (jw_kmax (snd r) <= H)%nat.
Proof.
  induction dirs as [|d ds IH]; intros escape kept st r st' E Hd Hk; cbn [print_scan] in E.
  - injection E as <- _. exact Hk.
  - rewrite jw_hmax_cons in Hd. destruct d; try discriminate. rewrite jwh_directive in Hd.
    destruct (assoc_s name js_directives) as [[jn cancel]|]; [|discriminate]. cbv zeta in E.
    destruct (bstr_eqb name n_id || bstr_eqb name n_noAutoescape).
    + eapply IH; [exact E | lia | exact Hk].
    + unfold jbind in E at 1.
      destruct (note_called name (fmt_chunks (fmt_directive (o_fmt o)) jn) st) as [[u st1]| | | | |]; try discriminate.
      eapply IH; [exact E | lia |].
      rewrite jw_kmax_app. cbn [jw_kmax fold_right snd].
      destruct (bstr_eqb name n_changeNewlineToBr || bstr_eqb name n_insertWordBreaks).
      * rewrite jw_kmax_app. cbn [jw_kmax fold_right snd jw_hmax]. lia.
      * lia.
Qed.

Lemma nf_print_scan dirs : forall escape kept, jnf (print_scan o dirs escape kept).
Proof.
  induction dirs as [|d r IH]; intros escape kept; cbn [print_scan]; [apply jnf_ret|].
  destruct d; try apply jnf_oom.
  destruct (assoc_s name js_directives) as [[jn cancel]|]; [|apply jnf_fail]. cbv zeta.
  destruct (bstr_eqb name n_id || bstr_eqb name n_noAutoescape); [apply IH|].
  fstep; [fknown0|]. apply IH.
Qed.

Lemma nf_print_opens ds : jnf (print_opens ds).
Proof. induction ds as [|[name args] r IH]; cbn [print_opens]; [apply jnf_ret|]. fstep; [fgo|exact IH]. Qed.

Lemma nf_print_args args : (jw_hmax args <= H)%nat -> jnf (print_args w args).
Proof.
  induction args as [|a r IH]; intros Hh; cbn [print_args]; [apply jnf_ret|]. rewrite jw_hmax_cons in Hh.
  fstep; [fgo|]. fstep; [fw|]. apply IH. lia.
Qed.

Lemma nf_print_closes ds : (jw_kmax ds <= H)%nat -> jnf (print_closes w ds).
Proof.
  induction ds as [|[name args] r IH]; intros Hh; cbn [print_closes]; [apply jnf_ret|].
  cbn [jw_kmax fold_right snd] in Hh. fold (jw_kmax r) in Hh.
  fstep; [apply nf_print_args; lia|]. fstep; [fgo|]. fstep; [fgo|]. apply IH. lia.
Qed.

Lemma nf_print_tail arg kept' : (jw_height arg <= H)%nat -> (jw_kmax kept' <= H)%nat ->
  jnf (jindent ;;; bn <~ bufname ;; jemit (bn ++ [CText t_pluseq]) ;;;
       print_opens (rev kept') ;;; w arg ;;; print_closes w kept' ;;; jtxt t_semi_nl).
Proof.
  intros Ha Hk. fstep; [fgo|]. fstep; [fgo|]. fstep; [fgo|]. fstep; [apply nf_print_opens|]. fstep; [fw|].
  fstep; [apply nf_print_closes; exact Hk|]. fgo.
Qed.

Lemma nf_visit_print arg dirs : (jw_height arg <= H)%nat -> (jw_hmax dirs <= S H)%nat -> jnf (visit_print o w arg dirs).
Proof.
  intros Ha Hd. unfold visit_print. fstep; [fgo|].
  intros st. unfold jbind at 1.
  pose proof (nf_print_scan dirs (j_auto x) [] st) as Hs.
  destruct (print_scan o dirs (j_auto x) [] st) as [[[escape kept] st1]| | | | |] eqn:E; try discriminate; [|congruence].
  clear Hs.
  pose proof (print_scan_kept dirs _ _ _ _ _ E Hd ltac:(cbn; lia)) as Hk. cbn [snd] in Hk.
  assert (Hk' : (jw_kmax (if (escape =? 2)%N then kept else kept ++ [(n_escapeHtml, [])]) <= H)%nat).
  { destruct (escape =? 2); [exact Hk|]. rewrite jw_kmax_app. cbn [jw_kmax fold_right snd jw_hmax]. lia. }
  cbv beta iota zeta. apply (nf_print_tail arg _ Ha Hk' st1).
Qed.

(* ---- calls ---- *)
Lemma nf_call_params ps : (jw_hmax ps <= S H)%nat -> forall first acc, jnf (jcall_params w first ps acc).
Proof.
  induction ps as [|p r IH]; intros Hh first acc; cbn [jcall_params]; [apply jnf_ret|].
  rewrite jw_hmax_cons in Hh. assert (Hr : (jw_hmax r <= S H)%nat) by lia.
  cbv zeta. destruct p; try (apply IH; exact Hr).
  - rewrite jwh_paramvalue in Hh. fstep; [apply nf_block; lia|]. apply IH. exact Hr.
  - rewrite jwh_paramcontent in Hh.
    fstep; [fgo|]. fstep; [fgo|]. fstep; [fgo|]. fstep; [fgo|]. fstep; [fw|]. fstep; [fgo|]. apply IH. exact Hr.
Qed.

Lemma nf_visit_call name alldata data params :
  (jw_hopt data <= H)%nat -> (jw_hmax params <= S H)%nat -> jnf (visit_call o w name alldata data params).
Proof.
  intros Hd Hp. unfold visit_call. fstep.
  - destruct data as [d|]; [apply nf_block; exact Hd | apply jnf_ret].
  - fstep.
    + destruct params as [|p0 pr]; [apply jnf_ret|]. fstep; [apply nf_call_params; exact Hp|]. apply jnf_ret.
    + cbv zeta. fgo.
Qed.

(* ---- if / for / switch ---- *)
Lemma nf_if_conds cs : (jw_hmax cs <= S H)%nat -> forall first, jnf (jif_conds w first cs).
Proof.
  induction cs as [|c r IH]; intros Hh first; cbn [jif_conds]; [apply jnf_ret|].
  rewrite jw_hmax_cons in Hh. destruct c; try apply jnf_oom. rewrite jwh_ifcond in Hh.
  fstep; [destruct first; fgo|].
  fstep; [destruct cond as [c0|]; [cbn [jw_hopt] in Hh; fstep; [fgo|]; fstep; [fw|]; fgo | apply jnf_ret]|].
  fstep; [fgo|]. fstep; [fgo|]. fstep; [fw|]. fstep; [fgo|]. fstep; [fgo|]. fstep; [fgo|]. apply IH. lia.
Qed.

Lemma nf_visit_loop body ie vd item vlen vidx :
  (jw_height body <= H)%nat -> (jw_hopt ie <= H)%nat -> jnf (visit_loop w body ie vd item vlen vidx).
Proof.
  intros Hb Hi. unfold visit_loop.
  fstep; [destruct ie; fgo|]. fstep; [fgo|]. fstep; [fgo|]. fstep; [fgo|]. fstep; [fw|].
  fstep; [fgo|]. fstep; [fgo|]. fstep; [fgo|].
  destruct ie as [e|]; [|apply jnf_ret]. cbn [jw_hopt] in Hi.
  fstep; [fgo|]. fstep; [fgo|]. fstep; [fgo|]. fstep; [fw|]. fgo.
Qed.

Lemma nf_visit_for_range var args body ie :
  (1 <= H)%nat -> (jw_hmax args <= H)%nat -> (jw_height body <= H)%nat -> (jw_hopt ie <= H)%nat ->
  jnf (visit_for_range w var args body ie).
Proof.
  intros H1 Ha Hb Hi. unfold visit_for_range.
  assert (Hint : forall z, (jw_height (NInt 0 z) <= H)%nat) by (intros z; cbn; lia).
  destruct args as [|a1 [|a2 [|a3 [|a4 r]]]]; try apply jnf_fail;
    repeat rewrite jw_hmax_cons in Ha;
    (fstep; [apply nf_block; first [apply Hint | lia]|]; fstep; [apply nf_block; first [apply Hint | lia]|];
     fstep; [apply nf_block; first [apply Hint | lia]|];
     apply jnf_bind; [apply nf_push_for_range | intros [[[[vd vinit] vstep] vlen] vidx]];
     fstep; [apply nf_jsln|]; fstep; [apply nf_jsln|]; fstep; [apply nf_jsln|]; apply nf_visit_loop; assumption).
Qed.

Lemma nf_visit_foreach var lst body ie :
  (jw_height lst <= H)%nat -> (jw_height body <= H)%nat -> (jw_hopt ie <= H)%nat -> jnf (visit_foreach w var lst body ie).
Proof.
  intros Hl Hb Hi. unfold visit_foreach. fstep; [apply nf_block; exact Hl|].
  apply jnf_bind; [apply nf_push_for_each | intros [[[vd vlist] vlen] vidx]].
  fstep; [apply nf_jsln|]. fstep; [apply nf_jsln|]. apply nf_visit_loop; assumption.
Qed.

Lemma nf_case_values vs : (jw_hmax vs <= H)%nat -> jnf (case_values w vs).
Proof.
  induction vs as [|v r IH]; intros Hh; cbn [case_values]; [apply jnf_ret|]. rewrite jw_hmax_cons in Hh.
  fstep; [fgo|]. fstep; [fgo|]. fstep; [fw|]. fstep; [fgo|]. apply IH. lia.
Qed.

Lemma nf_switch_cases cs : (jw_hmax cs <= S H)%nat -> jnf (jswitch_cases w cs).
Proof.
  induction cs as [|c r IH]; intros Hh; cbn [jswitch_cases]; [apply jnf_ret|].
  rewrite jw_hmax_cons in Hh. destruct c; try apply jnf_oom. rewrite jwh_switchcase in Hh.
  fstep; [apply nf_case_values; lia|]. fstep; [destruct values; fgo|]. fstep; [fgo|]. fstep; [fw|].
  fstep; [fgo|]. fstep; [fgo|]. apply IH. lia.
Qed.

(* ---- messages ---- *)
Lemma nf_msg_children : forall f l, (jw_msum l < f)%nat -> (jw_hmax l <= H)%nat -> jnf (jmsg_children w f l).
Proof.
  induction f as [|f IHf]; intros l Hf Hh; [lia|]. cbn [jmsg_children].
  destruct l as [|x r]; [apply jnf_ret|].
  rewrite jw_msum_cons in Hf. rewrite jw_hmax_cons in Hh. pose proof (nmsg_size_pos x) as Hx.
  apply jnf_bind; [|intros _; apply IHf; lia].
  destruct x; try apply jnf_ret.
  - (* raw text *) fw.
  - (* placeholder *) rewrite jwh_placeholder in Hh. fw.
  - (* plural *)
    rewrite jwh_plural in Hh. rewrite nmsg_size_plural in Hf.
    fstep; [fgo|]. fstep; [fgo|]. fstep; [fw|]. fstep; [fgo|]. fstep; [fgo|].
    apply jnf_bind; [|intros _].
    { assert (Hc : (jw_msum cases + 3 < f)%nat) by lia. assert (Hch : (jw_hmax cases <= H)%nat) by lia.
      clear Hf Hh Hx. induction cases as [|c cr IHc]; [apply jnf_ret|].
      rewrite jw_msum_cons in Hc. rewrite jw_hmax_cons in Hch.
      fstep; [|apply IHc; lia]. unfold plural_case_body. destruct c; try apply jnf_oom.
      rewrite nmsg_size_case in Hc. rewrite jwh_pluralcase in Hch.
      fstep; [fgo|]. fstep; [fgo|]. fstep; [apply IHf; lia|]. fgo. }
    fstep; [fgo|]. fstep; [fgo|]. fstep; [apply IHf; lia|]. fgo.
Qed.

Lemma nf_eval_part body p : (jw_hmax body <= H)%nat -> jnf (jeval_part w body p).
Proof.
  intros Hb. induction p as [t|name|var cases IH] using jw_jmpart_ind; cbn [jeval_part].
  - apply nf_write_raw_text.
  - intros st. unfold jbind at 1, jlift.
    pose proof (find_placeholder_fuel (msg_size body) body name ltac:(rewrite msg_size_eq; lia)) as Hnf.
    destruct (jfind_placeholder (msg_size body) body name) as [ph| | | | |] eqn:E; try discriminate; [|congruence].
    destruct ph as [phbody|]; [|discriminate].
    apply find_placeholder_height in E. apply Hw. lia.
  - destruct (jfind_plural body var) as [x|] eqn:Ex; [|apply jnf_fail].
    apply find_plural_in in Ex. apply jw_hmax_in in Ex.
    destruct x; try apply jnf_fail. rewrite jwh_plural in Ex.
    fstep; [fgo|]. fstep; [fgo|]. fstep; [fw|]. fstep; [fgo|]. fstep; [fgo|].
    apply jnf_bind; [|intros _; fgo].
    generalize 0 as i. induction IH as [|c cr Hc Hcr IHc]; intro i; [apply jnf_ret|].
    fstep; [fgo|]. fstep; [fgo|].
    apply jnf_bind; [|intros _].
    { clear - Hc. induction Hc as [|q qr Hq Hqr IHq]; [apply jnf_ret|].
      apply jnf_bind; [exact Hq | intros _; exact IHq]. }
    fstep; [fgo|]. fstep; [fgo|]. apply IHc.
Qed.

Lemma nf_eval_parts body ps : (jw_hmax body <= H)%nat -> jnf (jeval_parts w body ps).
Proof.
  intros Hb. induction ps as [|p r IH]; cbn [jeval_parts]; [apply jnf_ret|].
  fstep; [apply nf_eval_part; exact Hb | exact IH].
Qed.

Lemma nf_visit_msg id body : (jw_hmax body <= H)%nat -> jnf (visit_msg o w id body).
Proof.
  intros Hb. unfold visit_msg.
  assert (Hc : jnf (jmsg_children w (msg_size body) body)) by (apply nf_msg_children; [rewrite msg_size_eq; lia | exact Hb]).
  destruct (o_msgs o) as [msgs|]; [|exact Hc].
  destruct (assoc_n id msgs); [apply nf_eval_parts; exact Hb | exact Hc].
Qed.

(* ---- file level ---- *)
Lemma nf_template_head ae : jnf (template_head ae).
Proof. unfold template_head. fgo. Qed.

Lemma nf_template_rest old all_opt name body : (jw_height body <= H)%nat -> jnf (template_rest o w old all_opt name body).
Proof.
  intros Hb. unfold template_rest.
  fstep; [fgo|]. fstep; [fgo|]. fstep; [destruct all_opt; fgo|]. fstep; [fgo|]. fstep; [fgo|]. fstep; [fgo|].
  fstep; [fw|]. fgo.
Qed.

Lemma nf_visit_template prev name body ae : (jw_height body <= H)%nat -> jnf (visit_template o w prev name body ae).
Proof.
  intros Hb. unfold visit_template. fstep; [fgo|]. cbv zeta.
  fstep; [apply nf_template_head|]. fstep; [apply nf_jsln|]. apply nf_template_rest. exact Hb.
Qed.

Lemma nf_walk_node prev n : (jw_height n <= S H)%nat -> jnf (jwalk_node o w prev n).
Proof.
  intros Hn. destruct n; cbn [jwalk_node]; cbv zeta; try (fgo; fail).
  - (* NGlobal *) rewrite jwh_global in Hn.
    destruct (node_of_value p v) as [n'|] eqn:E; [|apply jnf_fail].
    apply node_of_value_height in E. fw.
  - (* NFunc *) rewrite jwh_func in Hn. apply nf_visit_function. lia.
  - (* NListLit *) rewrite jwh_listlit in Hn. fstep; [fgo|]. fstep; [apply nf_list_items; lia|]. fgo.
  - (* NMapLit *) rewrite jwh_maplit in Hn. pose proof (jw_hmap_sort items).
    fstep; [fgo|]. fstep; [apply nf_map_items; lia|]. fgo.
  - (* NDataRef *) rewrite jwh_dataref in Hn. apply nf_visit_dataref. lia.
  - (* NNot *) cbn [jw_height] in Hn. fstep; [fgo|]. fstep; [fw|]. fgo.
  - (* NNeg *) cbn [jw_height] in Hn. fstep; [fgo|]. fstep; [fw|]. fgo.
  - (* NBin *) cbn [jw_height] in Hn.
    destruct op; try (apply nf_jop; lia).
    fstep; [fgo|]. fstep; [fw|]. fstep; [fgo|]. fstep; [fw|]. fstep; [fgo|]. fstep; [fw|]. fgo.
  - (* NTern *) cbn [jw_height] in Hn.
    fstep; [fgo|]. fstep; [fw|]. fstep; [fgo|]. fstep; [fw|]. fstep; [fgo|]. fstep; [fw|]. fgo.
  - (* NList *) rewrite jwh_list in Hn. fstep; [fgo|]. fstep; [apply nf_walk_list; lia|]. fgo.
  - (* NPrint *) rewrite jwh_print in Hn. apply nf_visit_print; lia.
  - (* NCss *) cbn [jw_height] in Hn.
    fstep; [|fgo]. destruct expr as [x|]; [|apply jnf_ret].
    fstep; [fgo|]. fstep; [fgo|]. fstep; [fgo|]. fstep; [fw|]. fgo.
  - (* NLog *) cbn [jw_height] in Hn.
    fstep; [fgo|]. fstep; [fgo|]. fstep; [fgo|]. fstep; [fw|]. fgo.
  - (* NIf *) rewrite jwh_if in Hn. fstep; [fgo|]. fstep; [apply nf_if_conds; lia|]. fgo.
  - (* NFor *) rewrite jwh_for in Hn.
    assert (Hfe : jnf (visit_foreach w var n1 n2 ifempty)) by (apply nf_visit_foreach; lia).
    destruct n1; try exact Hfe.
    destruct (bstr_eqb name jn_range); [|exact Hfe].
    rewrite jwh_func in Hn. pose proof (jw_height_pos n2). apply nf_visit_for_range; lia.
  - (* NSwitch *) rewrite jwh_switch in Hn.
    fstep; [fgo|]. fstep; [fgo|]. fstep; [fw|]. fstep; [fgo|]. fstep; [fgo|]. fstep; [apply nf_switch_cases; lia|]. fgo.
  - (* NCall *) rewrite jwh_call in Hn. apply nf_visit_call; lia.
  - (* NLetValue *) cbn [jw_height] in Hn. fstep; [apply nf_block; lia|]. fgo.
  - (* NLetContent *) cbn [jw_height] in Hn.
    fstep; [fgo|]. fstep; [fgo|]. fstep; [fgo|]. fstep; [fgo|]. fstep; [fw|]. fgo.
  - (* NMsg *) rewrite jwh_msg in Hn. apply nf_visit_msg. lia.
  - (* NTemplate *) cbn [jw_height] in Hn. apply nf_visit_template. lia.
  - (* NNamespace *) fstep; [fgo|]. apply nf_ns_decls. lia.
Qed.

Lemma nf_walk_body n : (jw_height n <= S H)%nat -> jnf (jwalk_body o w n).
Proof. intros Hn. unfold jwalk_body. fstep; [fgo|]. fstep; [fgo|]. apply nf_walk_node. exact Hn. Qed.

End Body.

(* a budget of the tree's height is enough *)
Theorem nf_walk : forall fuel n, (jw_height n <= fuel)%nat -> jnf (jwalk o fuel n).
Proof.
  induction fuel as [|f IH]; intros n Hn; [pose proof (jw_height_pos n); lia|].
  cbn [jwalk]. apply (nf_walk_body (jwalk o f) f IH). exact Hn.
Qed.

Lemma nf_visit_file fuel name body : (jw_hmax body <= fuel)%nat -> jnf (visit_file o fuel name body).
Proof.
  intros Hb. unfold visit_file. fstep; [apply nf_jsln|]. fstep; [apply nf_jsln|]. fstep; [apply nf_jsln|].
  apply (nf_walk_list (jwalk o fuel) fuel (nf_walk fuel)). exact Hb.
Qed.

End Walk.

(* soyjs.Write: with a budget of the height of the file's tree the model answers -- script or error *)
Theorem gen_file_fuel : forall o fuel name body,
  (jw_hmax body <= fuel)%nat -> gen_file o fuel name body <> OutOfFuel.
Proof.
  intros o fuel name body Hb. unfold gen_file.
  pose proof (nf_visit_file o fuel name body Hb jinit_state) as Hf.
  destruct (visit_file o fuel name body jinit_state) as [[u st]| | | | |]; try discriminate. congruence.
Qed.

(* ... so soyjs.Write's model ANSWERS: a script, an error (s.errorf), or OutOfModel (a float literal outside the
   printer's domain, a node kind the Go types exclude) -- never a run-time panic, a loop without exit or an
   exhausted budget *)
Theorem gen_file_answers : forall o fuel name body,
  (jw_hmax body <= fuel)%nat ->
  match gen_file o fuel name body with Ok _ | Err _ | OutOfModel => True | _ => False end.
Proof.
  intros o fuel name body Hb.
  pose proof (gen_file_fuel o fuel name body Hb) as Hf. pose proof (gen_file_no_crash o fuel name body) as Hc.
  destruct (gen_file o fuel name body); try exact I; try exact Hc. congruence.
Qed.

(* the budgets the model gives its inner loops are never the reason of an OutOfFuel: for ANY budget of the walker,
   an exhausted budget of [gen_file] comes from [jwalk]'s own budget (stated for the three inner loops) *)
Theorem inner_budgets_suffice :
  (forall body name, jfind_placeholder (msg_size body) body name <> OutOfFuel) /\
  (forall name, jnf (ns_decls (S (length name)) name 0)).
Proof.
  split.
  - intros body name. apply find_placeholder_fuel. rewrite msg_size_eq. lia.
  - intros name. apply nf_ns_decls. lia.
Qed.
