(* C08: rendering is pure.  (1) every [set] of a render lands on a frame the
   render allocated itself ([walk_no_shared_writes], an instance of the
   invariant principle of Proofs/InterpLogic.v with I = "the top frame is fresh
   and nothing shared was written", R = "the frame origins of the scope stack
   are unchanged"); (2) the repaired evalPrint leaves every PrintNode as it was
   ([map_prints_id]); hence a render leaves the shared store unchanged and the
   output of a render does not depend on the renders before it. *)
From Soy Require Import Model.Bytes Model.Num Model.Values Model.Outcome Model.Ast
  Model.Escape Model.Directives Model.Print Generated.Tables Model.Interp Model.History Proofs.InterpLogic.
Require Import Lia.
Open Scope N_scope.

(* ------------------------------------------------------------------ *)
(* (1) no shared writes *)

Definition origins (c : scope) : list origin := map f_origin c.
Definition top_fresh (c : scope) : Prop :=
  match c with f :: _ => f_origin f = OFresh | [] => True end.

Definition pure_inv (st : mstate) : Prop := shared_writes st = [] /\ top_fresh (ctx st).
Definition same_origins (a b : mstate) : Prop := origins (ctx a) = origins (ctx b).
Definition still_pure (_ b : mstate) : Prop := shared_writes b = [].

Lemma write_keeps w st r st' : write w st = (r, st') -> ctx st' = ctx st /\ shared_writes st' = shared_writes st.
Proof. intros H. apply write_inv in H. inversion H; subst; split; reflexivity. Qed.

Lemma origins_sc_set c k v : origins (sc_set c k v) = origins c.
Proof. destruct c as [|f r]; reflexivity. Qed.

Lemma top_fresh_origins a b : origins a = origins b -> top_fresh a -> top_fresh b.
Proof.
  destruct a as [|f r], b as [|g s]; cbn; intros H Ht; try discriminate; try exact Logic.I.
  inversion H. congruence.
Qed.

Lemma purity_conditions : inv_conditions pure_inv same_origins still_pure (fun _ => True).
Proof.
  constructor; unfold pure_inv, same_origins, still_pure.
  - reflexivity.
  - intros a b c H1 H2. congruence.
  - intros st [H _]. exact H.
  - intros a b c _ H. exact H.
  - intros; exact Logic.I.
  - intros st p H. split; [exact H | reflexivity].
  - intros st ae H. split; [exact H | reflexivity].
  - intros w st st' [Hs Ht] Hw. destruct (write_keeps _ _ _ _ Hw) as [Hc Hsw].
    rewrite Hc, Hsw. split; [split; assumption | reflexivity].
  - intros w st st' [Hs Ht] Hw. destruct (write_keeps _ _ _ _ Hw) as [Hc Hsw]. congruence.
  - intros k v st st' [Hs Ht] Hm. rewrite m_set_eq in Hm.
    destruct (ctx st) as [|f r] eqn:Hc; [discriminate|]. cbn in Ht. rewrite Ht in Hm.
    inversion Hm; subst st'. cbn.
    split; [split; [exact Hs | exact Ht] | reflexivity].
  - intros st H. split; [exact H | reflexivity].
  - intros st H. split; [exact H | reflexivity].
  - intros st [Hs _]. split; [exact Hs | reflexivity].
  - intros st st2 [Hs Ht] [Hs2 Ht2] HR. cbn [pushed popped ctx set_ctx shared_writes] in *.
    assert (Ho : origins (sc_pop (ctx st2)) = origins (ctx st)).
    { unfold sc_push in HR. destruct (ctx st2) as [|g s]; [discriminate|]. cbn in HR |- *. inversion HR. reflexivity. }
    split; [split; [exact Hs2 | eapply top_fresh_origins; [symmetry; exact Ho | exact Ht]] | symmetry; exact Ho].
  - intros st st2 _ H. exact H.
  - intros st H. exact H.
  - intros st st2 buf rest [Hs Ht] [Hs2 Ht2] HR _. cbn [buf_pushed ctx set_bufs shared_writes] in *.
    split; [split; assumption | exact HR].
  - intros st st2 _ [Hs2 _] _ _. exact Hs2.
  - intros st st2 _ H. exact H.
  - intros st callee cd [Hs _]. split; [exact Hs|]. cbn. destruct cd; reflexivity.
  - intros st callee cd st2 [Hs Ht] [Hs2 _] _. split; [split; [exact Hs2 | exact Ht] | reflexivity].
  - intros st callee cd st2 _ H. exact H.
Qed.

(* for every node, fuel and state: a walk started with a fresh top frame and a clean record ends
   with a clean record, whatever the outcome *)
Theorem walk_no_shared_writes cf fuel n st r st' :
  pure_inv st -> walk cf fuel n st = (r, st') -> shared_writes st' = [].
Proof.
  intros Hi H.
  pose proof (inv_walk _ _ _ _ purity_conditions cf pure_sites_any fuel n st r st' Hi H) as H1.
  destruct (classify r); [destruct H1 as [[Hs _] _]; exact Hs | destruct H1 as [Hs _]; exact Hs].
Qed.

Theorem render_no_shared_writes cf fuel name id data cl bl fid :
  rr_shared_writes (render cf fuel name id data cl bl fid) = [].
Proof.
  unfold render. destruct (find_template _ name) as [t|]; [|reflexivity].
  destruct (walk cf fuel (t_node t) _) as [r st] eqn:Hw.
  apply walk_no_shared_writes in Hw; [|split; reflexivity].
  destruct r; cbn [rr_shared_writes]; try exact Hw.
  destruct (assoc_s name (r_sources (c_reg cf))); [|exact Hw].
  destruct (assoc_s name (r_files (c_reg cf))); [|exact Hw].
  destruct (line_number _ _); exact Hw.
Qed.

(* the parameters of a call are set (by plain [sc_set], outside the record) on a frame that
   [call_data] has just allocated *)
Lemma call_data_top_fresh w alldata dat st cd st' :
  call_data w alldata dat st = (Ok cd, st') -> cd <> [] /\ top_fresh cd.
Proof.
  unfold call_data. intros H. change ((caller <-- get ;;; _) st) with
    ((if alldata
      then match sc_alldata (ctx st) with Some s => ret (sc_push s) | None => fail e_impossible end
      else match dat with
           | Some e => dv <-- eval w e ;;; match dv with VMap id m => ret (sc_push (new_scope id m)) | _ => fail e_notmap end
           | None => ret [fresh_frame]
           end) st) in H.
  destruct alldata.
  - destruct (sc_alldata (ctx st)); inversion H; subst. split; [discriminate | reflexivity].
  - destruct dat as [e|].
    + apply mbind_inv in H. destruct H as [(x & st1 & _ & H) | (e0 & _ & H)].
      * destruct x; inversion H; subst. split; [discriminate | reflexivity].
      * destruct e0; discriminate.
    + inversion H; subst. split; [discriminate | reflexivity].
Qed.

Lemma call_params_top_fresh w ps : forall cd st cd' st',
  call_params w ps cd st = (Ok cd', st') -> cd <> [] /\ top_fresh cd -> cd' <> [] /\ top_fresh cd'.
Proof.
  induction ps as [|p r IH]; intros cd st cd' st' H Hc; cbn [call_params] in H.
  - inversion H; subst. exact Hc.
  - assert (Hset : forall k x, sc_set cd k x <> [] /\ top_fresh (sc_set cd k x)).
    { intros k x. destruct cd as [|f s]; [destruct Hc as [Hc _]; contradiction|]. cbn. split; [discriminate | apply Hc]. }
    destruct p; try discriminate.
    + apply mbind_inv in H. destruct H as [(x & st1 & _ & H) | (e0 & _ & H)]; [|destruct e0; discriminate].
      eapply IH; [exact H | apply Hset].
    + apply mbind_inv in H. destruct H as [(x & st1 & _ & H) | (e0 & _ & H)]; [|destruct e0; discriminate].
      eapply IH; [exact H | apply Hset].
Qed.

(* ------------------------------------------------------------------ *)
(* (2) the repaired evalPrint leaves every node as it was *)

Lemma map_id_in {A} (f : A -> A) (l : list A) : (forall x, In x l -> f x = x) -> map f l = l.
Proof. induction l as [|a l IH]; cbn; intros H; [reflexivity|]. rewrite H, IH; auto. Qed.

Section MapPrintsId.
Variable f : N -> list node -> list node.
Hypothesis Hf : forall p d, f p d = d.
Fixpoint map_prints_fid (n : node) : map_prints f n = n.
Proof.
  destruct n; cbn [map_prints]; try reflexivity.
  - (* NFunc *) f_equal. induction args as [|a l IHl]; cbn; [reflexivity|]. f_equal; [apply map_prints_fid | exact IHl].
  - (* NListLit *) f_equal. induction items as [|a l IHl]; cbn; [reflexivity|]. f_equal; [apply map_prints_fid | exact IHl].
  - (* NMapLit *) f_equal. induction items as [|[k a] l IHl]; cbn; [reflexivity|]. f_equal; [f_equal; apply map_prints_fid | exact IHl].
  - (* NDataRef *) f_equal. induction access as [|a l IHl]; cbn; [reflexivity|]. f_equal; [apply map_prints_fid | exact IHl].
  - (* NAccExpr *) f_equal. apply map_prints_fid.
  - f_equal. apply map_prints_fid.
  - f_equal. apply map_prints_fid.
  - f_equal; apply map_prints_fid.
  - f_equal; apply map_prints_fid.
  - (* NList *) f_equal. induction nodes as [|a l IHl]; cbn; [reflexivity|]. f_equal; [apply map_prints_fid | exact IHl].
  - (* NPrint *) rewrite Hf. f_equal; [apply map_prints_fid|].
    induction dirs as [|a l IHl]; cbn; [reflexivity|]. f_equal; [apply map_prints_fid | exact IHl].
  - (* NDirective *) f_equal. induction args as [|a l IHl]; cbn; [reflexivity|]. f_equal; [apply map_prints_fid | exact IHl].
  - (* NCss *) f_equal. destruct expr; cbn; [f_equal; apply map_prints_fid | reflexivity].
  - f_equal. apply map_prints_fid.
  - (* NIf *) f_equal. induction conds as [|a l IHl]; cbn; [reflexivity|]. f_equal; [apply map_prints_fid | exact IHl].
  - (* NIfCond *) f_equal; [destruct cond; cbn; [f_equal; apply map_prints_fid | reflexivity] | apply map_prints_fid].
  - (* NFor *) f_equal; try apply map_prints_fid. destruct ifempty; cbn; [f_equal; apply map_prints_fid | reflexivity].
  - (* NSwitch *) f_equal; [apply map_prints_fid|].
    induction cases as [|a l IHl]; cbn; [reflexivity|]. f_equal; [apply map_prints_fid | exact IHl].
  - (* NSwitchCase *) f_equal; [|apply map_prints_fid].
    induction values as [|a l IHl]; cbn; [reflexivity|]. f_equal; [apply map_prints_fid | exact IHl].
  - (* NCall *) f_equal; [destruct data; cbn; [f_equal; apply map_prints_fid | reflexivity]|].
    induction params as [|a l IHl]; cbn; [reflexivity|]. f_equal; [apply map_prints_fid | exact IHl].
  - f_equal. apply map_prints_fid.
  - f_equal. apply map_prints_fid.
  - f_equal. apply map_prints_fid.
  - f_equal. apply map_prints_fid.
  - (* NMsg *) f_equal. induction body as [|a l IHl]; cbn; [reflexivity|]. f_equal; [apply map_prints_fid | exact IHl].
  - f_equal. apply map_prints_fid.
  - (* NMsgPlural *) f_equal; [apply map_prints_fid | |].
    + induction cases as [|a l IHl]; cbn; [reflexivity|]. f_equal; [apply map_prints_fid | exact IHl].
    + induction default as [|a l IHl]; cbn; [reflexivity|]. f_equal; [apply map_prints_fid | exact IHl].
  - (* NMsgPluralCase *) f_equal. induction body as [|a l IHl]; cbn; [reflexivity|]. f_equal; [apply map_prints_fid | exact IHl].
  - f_equal. apply map_prints_fid.
  - (* NSoyDoc *) f_equal. induction params as [|a l IHl]; cbn; [reflexivity|]. f_equal; [apply map_prints_fid | exact IHl].
  - (* NHeaderParam *) f_equal. destruct default; cbn; [f_equal; apply map_prints_fid | reflexivity].
Qed.
End MapPrintsId.

Lemma map_prints_id n : map_prints (fun _ d => d) n = n.
Proof. apply map_prints_fid. reflexivity. Qed.

Lemma iter_id {A} n (x : A) : Nat.iter n (fun d => d) x = x.
Proof. induction n as [|n IH]; cbn; [reflexivity | exact IH]. Qed.

Lemma dirs_after_print_repaired oblig p dirs : dirs_after_print Repaired oblig p dirs = dirs.
Proof. reflexivity. Qed.

Lemma map_registry_id g r : (forall n, g n = n) -> map_registry g r = r.
Proof.
  intros Hg. destruct r as [ts ss fs]. unfold map_registry. cbn. f_equal.
  apply map_id_in. intros [nm nd ns ae ps fl] _. unfold map_template. cbn. rewrite Hg. reflexivity.
Qed.

(* (3) a render of the repaired code leaves the shared store exactly as it found it *)
Definition repaired (wd : world) : Prop := w_variant wd = Repaired.

Theorem shared_preserved wd sh rq : repaired wd -> snd (step wd sh rq) = sh.
Proof.
  intros Hv. unfold step, shared_after. cbn [snd]. destruct sh as [reg heap]. cbn [sh_reg sh_heap]. f_equal.
  - apply map_registry_id. intros n. apply map_prints_fid. intros p d. rewrite Hv.
    change (dirs_after_print Repaired (w_oblig wd) p) with (fun d : list node => d). apply iter_id.
  - unfold render_in. rewrite render_no_shared_writes. apply map_id_in. intros e _. reflexivity.
Qed.

Lemma run_history_shared wd sh h : repaired wd -> snd (run_history wd sh h) = sh.
Proof.
  intros Hv. revert sh. induction h as [|rq rest IH]; intros sh; cbn [run_history]; [reflexivity|].
  pose proof (shared_preserved wd sh rq Hv) as H1. destruct (step wd sh rq) as [r sh1]. cbn [snd] in H1. subst sh1.
  specialize (IH sh). destruct (run_history wd sh rest) as [rs sh2]. exact IH.
Qed.

Lemma run_history_app wd sh h1 h2 :
  fst (run_history wd sh (h1 ++ h2)) =
  fst (run_history wd sh h1) ++ fst (run_history wd (snd (run_history wd sh h1)) h2).
Proof.
  revert sh. induction h1 as [|rq rest IH]; intros sh; cbn [run_history app]; [reflexivity|].
  destruct (step wd sh rq) as [r sh1]. specialize (IH sh1).
  destruct (run_history wd sh1 (rest ++ h2)) as [rs sh2]. destruct (run_history wd sh1 rest) as [rs' sh2'].
  cbn [fst snd] in *. rewrite IH. reflexivity.
Qed.

(* the result of a render -- outcome, every Write call, error position, counters -- is the same
   after any history of renders (succeeding, failing, against failing writers) as alone *)
Theorem history_independent_l wd sh h rq :
  repaired wd ->
  fst (run_history wd sh (h ++ [rq])) = fst (run_history wd sh h) ++ [render_in wd sh rq].
Proof.
  intros Hv. rewrite run_history_app, (run_history_shared wd sh h Hv). cbn. reflexivity.
Qed.

(* and each result along the history is the result of that request alone *)
Theorem history_pointwise wd sh h : repaired wd -> fst (run_history wd sh h) = map (render_in wd sh) h.
Proof.
  intros Hv. revert sh. induction h as [|rq rest IH]; intros sh; cbn [run_history map]; [reflexivity|].
  pose proof (shared_preserved wd sh rq Hv) as H1. unfold step in *. cbn [snd] in H1.
  cbn zeta. rewrite H1. specialize (IH sh). destruct (run_history wd sh rest) as [rs sh2]. cbn [fst] in *.
  rewrite IH. reflexivity.
Qed.

(* ------------------------------------------------------------------ *)
(* the pinned evalPrint: with an obligatory directive the second render applies it twice *)
Definition wit_name := Eval vm_compute in b "ns.t".
Definition wit_x := Eval vm_compute in b "x".
Definition wit_reg : registry :=
  {| r_templates := [{| t_name := wit_name;
                        t_node := NTemplate 0 wit_name (NList 0 [NPrint 4 (NDataRef 5 wit_x []) []]) 0 false;
                        t_ns_name := b "ns"; t_ns_autoescape := 0; t_params := [(wit_x, false)]; t_file := b "f.soy" |}];
     r_sources := [(wit_name, b "{namespace ns}{template .t}{$x}{/template}")];
     r_files := [(wit_name, b "f.soy")] |}.
Definition wit_shared : shared := {| sh_reg := wit_reg; sh_heap := [(7, [(wit_x, VStr (b "a b"))])] |}.
Definition wit_rq : request :=
  {| rq_name := wit_name; rq_data := 7; rq_ij := None; rq_fuel := 10; rq_calls_left := None; rq_bytes_left := None; rq_first_id := 100 |}.
Definition wit_world (v : variant) : world :=
  {| w_variant := v; w_oblig := [b "escapeUri"]; w_msgs := None;
     w_executions := fun _ _ => 1%nat;          (* the one print of the witness runs once per render *)
     w_clobber := fun _ m => m |}.

Lemma pinned_history_dependent :
  exists wd sh rq, w_variant wd = Pinned /\
    map (fun r => concat_b (rr_writes r)) (fst (run_history wd sh [rq; rq])) = [b "a+b"; b "a%2Bb"] /\
    concat_b (rr_writes (render_in wd sh rq)) = b "a+b".
Proof. exists (wit_world Pinned), wit_shared, wit_rq. vm_compute. repeat split; reflexivity. Qed.

Lemma repaired_witness :
  map (fun r => concat_b (rr_writes r)) (fst (run_history (wit_world Repaired) wit_shared [wit_rq; wit_rq])) = [b "a+b"; b "a+b"].
Proof. vm_compute. reflexivity. Qed.
